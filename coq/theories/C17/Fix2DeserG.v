(* C17/Fix2DeserG.v — the graph case of the mutual induction for deser2. *)
From Coq Require Import NArith List Bool Arith Lia.
From IRV Require Import Base.Exn C03.Model C03.Canon C03.Inv C03.Tree C03.TreeF C03.IsoSpecs C17.Basics C17.Specs C17.Steps C17.Phases C17.OpNode C17.OpGraph C17.Deser C03.IsoDeserA C03.IsoDeserB C03.IsoDeserC C03.IsoDeserD C03.IsoDeserE C03.IsoDeserF C03.IsoDeserG C17.Tree2 C17.Fix2DeserA C17.Fix2DeserB C17.Fix2DeserC C17.Fix2DeserD C17.Fix2DeserE C17.Fix2DeserF.
Import ListNotations.

Arguments alloc_value : simpl never.
Arguments new_node : simpl never.
Arguments new_graph : simpl never.
Arguments lookup_scopes : simpl never.
Arguments lookup : simpl never.
Arguments alloc_inputs : simpl never.
Arguments apply_infos : simpl never.
Arguments alloc_tensors : simpl never.
Arguments deser_inits : simpl never.
Arguments declare_nodes : simpl never.
Arguments graph_outputs : simpl never.
Arguments table_of : simpl never.

Lemma In_combine_nth {A B} : forall (l1 : list A) (l2 : list B) j a b,
  nth_error l1 j = Some a -> nth_error l2 j = Some b -> In (a, b) (combine l1 l2).
Proof.
  induction l1 as [|x l1 IH]; intros [|y l2] [|j] a b Ha Hb; simpl in *; try discriminate.
  - inversion Ha; inversion Hb; subst. left; auto.
  - right. eapply IH; eauto.
Qed.

Lemma P2G_bad : P2G GBad.
Proof. intros nsc sc h Hc HS Hn Hwf. discriminate. Qed.

Lemma P2G_case gname gtok ins inits nodes outs : P2Ns nodes -> P2G (GT gname gtok ins inits nodes outs).
Proof.
  intros IHn nsc sc h Hc HS Hn Hwf. cbn [wf2_g] in Hwf.
  set (inn := map vd_name ins) in *. set (defs := tdefs ins inits nodes) in *. set (D := map fst defs) in *.
  set (rest := skipn (length ins) D) in *. set (outn := map (fun o : ref * vdesc => vd_name (snd o)) outs) in *.
  apply andb_prop in Hwf. destruct Hwf as (Hwf & W6).
  apply andb_prop in Hwf. destruct Hwf as (Hwf & W4b).
  apply andb_prop in Hwf. destruct Hwf as (Hwf & W4a).
  apply andb_prop in Hwf. destruct Hwf as (Hwf & W3).
  apply andb_prop in Hwf. destruct Hwf as (W1 & W2).
  destruct (wf2_ns nsc D outn nodes) as [Lv|] eqn:WN; [|discriminate].
  rewrite forallb_forall in W2, W4b, W6.
  set (initn := map id_name (filter (fun i => negb (id_input i)) inits)).
  assert (ED : D = inn ++ initn ++ tout_names nodes) by apply tdefs_names.
  assert (Hli : length inn = length ins) by apply map_length.
  assert (ER : rest = initn ++ tout_names nodes).
  { unfold rest. rewrite ED, <- Hli. apply skipn_app_len. }
  set (din := map (fun d => (vd_name d, vd_pay d)) ins).
  set (drest := map (fun i => (id_name i, id_pay i)) (filter (fun i => negb (id_input i)) inits)
                ++ map (fun d => (vd_name d, vd_pay d)) (filter (fun d => negb (N.eqb (vd_name d) 0)) (node_out_descs nodes))).
  assert (Edefs : defs = din ++ drest) by reflexivity.
  assert (Erd : map fst drest = rest).
  { rewrite ER. unfold drest, initn. rewrite map_app, !map_map. cbn [fst]. f_equal.
    rewrite tout_names_descs. unfold nz. rewrite filter_map_comm. reflexivity. }
  assert (NDr : NoDup rest) by (apply nodup_N_NoDup; auto).
  assert (Disj : forall k, In k rest -> ~ In k inn).
  { intros k Hk. specialize (W4b k Hk). apply negb_true_iff in W4b. apply memN_notIn; auto. }
  set (pay_of := fun k => match lookup k drest with Some p => p | None => 0%N end).
  assert (F1 : forall k p, In (k, p) drest -> pay_of k = p).
  { intros k p Hin. unfold pay_of. rewrite (In_lookup k p drest); auto. rewrite Erd; auto. }
  set (I := fun (k p : N) => In k rest -> memN k outn = false -> p = pay_of k).
  set (b := nv h).
  set (vis := flat_map (init_vis inn) inits ++ t2p_nvis nodes).
  assert (Dinit : forall i, In i inits -> id_input i = false -> In (id_name i, id_pay i) drest /\ In (id_name i) rest).
  { intros i Hi Ei. assert (Hf : In i (filter (fun i => negb (id_input i)) inits)) by (apply filter_In; rewrite Ei; auto).
    split.
    - unfold drest. apply in_or_app. left. apply in_map_iff. exists i. auto.
    - rewrite ER. apply in_or_app. left. unfold initn. apply in_map; auto. }
  assert (Dout : forall d, In d (node_out_descs nodes) -> vd_name d <> 0%N -> In (vd_name d, vd_pay d) drest /\ In (vd_name d) rest).
  { intros d Hd Hz.
    assert (Hf : In d (filter (fun d => negb (N.eqb (vd_name d) 0)) (node_out_descs nodes))).
    { apply filter_In. split; auto. destruct (N.eqb_spec (vd_name d) 0); auto. }
    split.
    - unfold drest. apply in_or_app. right. apply in_map_iff. exists d. auto.
    - rewrite ER. apply in_or_app. right. rewrite tout_names_descs. apply In_nz. split; auto. apply in_map; auto. }
  assert (WI : forall i, In i inits -> id_named i = true /\ id_name i <> 0%N /\ exists t, id_tensor i = Some t /\
            (id_input i = true -> exists j d, index_last (id_name i) inn 0 = Some j /\ nth_error ins j = Some d /\
                                              vd_pay d = id_pay i) /\
            (id_input i = false -> ~ In (id_name i) inn /\ td_bad t = false /\
                 (memN (id_name i) outn = true \/ (id_pay i <> 0%N /\ fill_pay' t (id_pay i) = id_pay i)))).
  { intros i Hi. specialize (W2 i Hi). unfold wf2_init in W2. fold inn in W2.
    apply andb_prop in W2. destruct W2 as (W2 & Wt). apply andb_prop in W2. destruct W2 as (Wa & Wb).
    apply negb_true_iff in Wb. apply N.eqb_neq in Wb. split; auto. split; auto.
    destruct (id_tensor i) as [t|]; [|discriminate]. exists t. split; auto. split; intros Ei; rewrite Ei in Wt.
    - destruct (index_last (id_name i) inn 0) as [j|]; [|discriminate]. destruct (nth_error ins j) as [d|] eqn:Ed; [|discriminate].
      apply N.eqb_eq in Wt. exists j, d. auto.
    - apply andb_prop in Wt. destruct Wt as (Wt & W3'). apply andb_prop in Wt. destruct Wt as (W1' & W2').
      apply negb_true_iff in W1', W2'. apply memN_notIn in W1'. csplit; auto.
      apply orb_prop in W3'. destruct W3' as [W3'|W3']; auto. right.
      apply andb_prop in W3'. destruct W3' as (A & B). apply negb_true_iff in A. apply N.eqb_neq in A. apply N.eqb_eq in B. auto. }
  destruct (wf2_ns_facts _ _ _ _ _ WN) as (NTE & WNo).
  assert (F2 : forall k j, vi_lookup k vis = Some j -> vi_bad j = false /\ In k rest /\ vi_pay j = pay_of k).
  { intros k j Hj. apply vi_lookup_In in Hj. destruct Hj as (Hj & Hk). unfold vis in Hj. apply in_app_or in Hj.
    destruct Hj as [Hj|Hj].
    - apply in_flat_map in Hj. destruct Hj as (i & Hi & Hj). apply in_init_vi in Hj.
      destruct Hj as (A1 & A2 & A3 & A4 & ->). cbn in *. subst k.
      assert (Ei : id_input i = false).
      { destruct (id_input i) eqn:Ei; auto. exfalso. destruct (WI i Hi) as (_ & _ & t & _ & B & _).
        destruct (B Ei) as (j & d & Hl & _). apply A4.
        destruct (in_dec N.eq_dec (id_name i) inn) as [Hd|Hd]; auto. apply (index_last_None _ _ 0) in Hd. congruence. }
      destruct (Dinit i Hi Ei) as (B1 & B2). split; auto. split; auto. symmetry. apply F1; auto.
    - apply in_nvis in Hj. destruct Hj as (d & Hd & Hj). apply in_out_vi in Hj. destruct Hj as (A1 & A2 & A3 & ->).
      cbn in *. subst k. destruct (Dout d Hd A3) as (B1 & B2). split; auto. split; auto. symmetry. apply F1; auto. }
  (* ---- P1 *)
  destruct (phase1x b I (map vi_of ins) h eq_refl) as (h1 & invs & h2 & E1 & E1' & P1a & P1b & P1c & P1d & P1e & P1f & P1g & P1i & P1j & P1k).
  { intros j Hj. apply in_map_iff in Hj. destruct Hj as (d & <- & Hd). cbn. split; auto. intros Hr. exfalso.
    apply (Disj _ Hr). unfold inn. apply in_map; auto. }
  set (tbl0 := table_of [] (map vi_of ins) invs) in *.
  rewrite map_map in P1g. cbn [vi_of vi_name] in P1g. change (nms tbl0 = inn) in P1g.
  rewrite map_length in P1d, P1j.
  apply Forall2_map_l in P1k. cbn [vi_of vi_name vi_pay] in P1k.
  assert (Hlinv : length invs = length ins) by (rewrite P1j; apply seq_length).
  (* ---- P2 *)
  assert (Etp : flat_map init_tps inits = map itp inits).
  { apply init_tps_itp. intros i Hi. destruct (WI i Hi) as (_ & _ & t & Et & _). congruence. }
  destruct (alloc_tensors_spec (map itp inits) h2) as (h3 & cs & E2 & P2a & P2b & P2c & P2d & P2e & P2f).
  { intros t Ht. apply in_map_iff in Ht. destruct Ht as (i & <- & Hi). unfold itp. destruct (id_tensor i); auto. }
  rewrite map_length in P2d. apply Forall2_map_l in P2f.
  assert (GV3 : forall v, getv h3 v = getv h2 v) by (intros; unfold getv; rewrite P2a; auto).
  assert (NV3 : nv h3 = nv h2) by (unfold nv; rewrite P2a; auto).
  assert (T3 : TB b I h3 tbl0) by (eapply TB_same; eauto).
  (* ---- P3 *)
  destruct (deser_inits_spec2 b I vis inits cs h3 tbl0) as (h4 & R1 & initvs & E3 & P3a & P3b & P3c & P3d & P3e & P3f & P3g & P3g' & P3h & P3i); auto.
  { apply nodup_N_NoDup; auto. }
  { intros i Hi. destruct (WI i Hi) as (_ & A & _). auto. }
  { unfold b. lia. }
  { intros i Hi Ei. rewrite P1g. destruct (WI i Hi) as (_ & _ & t & _ & B & _). destruct (B Ei) as (j & d & Hl & _).
    destruct (in_dec N.eq_dec (id_name i) inn) as [Hd|Hd]; auto. apply (index_last_None _ _ 0) in Hd. congruence. }
  { intros i Hi Ei. rewrite P1g. destruct (WI i Hi) as (A1 & A2 & t & Et & _ & B).
    destruct (B Ei) as (B1 & B2 & B3). split; auto. split; [unfold itp; rewrite Et; auto|].
    destruct (Dinit i Hi Ei) as (C1 & C2).
    destruct (vi_lookup (id_name i) vis) as [j|] eqn:Ej.
    - destruct (F2 _ _ Ej) as (G1 & _ & G2). split; auto. intros _ Hm. rewrite G2, (F1 _ _ C1).
      destruct B3 as [B3|(B3 & B4)]; [congruence|]. rewrite (fill_pay_itp i t _ Et), B4. reflexivity.
    - intros _ Hm. exfalso. destruct B3 as [B3|(B3 & B4)]; [congruence|].
      assert (Hin : In (mkVI (id_name i) (id_pay i) false) vis).
      { unfold vis. apply in_or_app. left. apply in_flat_map. exists i. split; auto. apply in_init_vi. csplit; auto. }
      apply vi_lookup_some in Hin. cbn [vi_name] in Hin. congruence. }
  (* ---- P4 *)
  assert (NDo : NoDup (tout_names nodes)) by (rewrite ER in NDr; apply NoDup_app_r in NDr; auto).
  assert (N1 : nms (R1 ++ tbl0) = inn ++ initn) by (rewrite nms_app, P3f, P1g; auto).
  destruct (declare_nodes_spec b I vis nodes h4 (R1 ++ tbl0)) as (h5 & tbl2 & E4 & P4a & P4b & P4c & P4d & P4e & P4f & P4g & P4h); auto.
  { unfold b. lia. }
  { intros k Hk Hc'. rewrite N1 in Hc'. apply in_app_or in Hc'. destruct Hc' as [Hc'|Hc'].
    - apply (Disj k); auto. rewrite ER. apply in_or_app; auto.
    - rewrite ER in NDr. eapply NoDup_app_disj; eauto. }
  { intros k Hk. destruct (vi_lookup k vis) as [j|] eqn:Ej.
    - destruct (F2 _ _ Ej) as (C1 & _ & C2). split; auto. intros _ _. auto.
    - intros _ Hm. rewrite tout_names_descs in Hk. apply In_nz in Hk. destruct Hk as (Hk & Hz).
      apply in_map_iff in Hk. destruct Hk as (d & <- & Hd).
      destruct (wf_node_out_named _ _ (WNo d Hd) Hz) as (_ & Ho). rewrite Hm in Ho.
      destruct (Dout d Hd Hz) as (C1 & C2). rewrite (F1 _ _ C1).
      destruct (N.eqb_spec (vd_pay d) 0) as [Hp|Hp]; auto. exfalso.
      assert (Hin : In (vi_of d) vis).
      { unfold vis. apply in_or_app. right. apply in_nvis. exists d. split; auto. apply in_out_vi. csplit; auto. }
      apply vi_lookup_some in Hin. cbn in Hin. congruence. }
  destruct (declare_nodes_shape _ _ _ _ _ _ E4) as (R2 & ET2 & S4a & S4b & _).
  set (T := R2 ++ R1).
  assert (ET : tbl2 = T ++ tbl0) by (unfold T; rewrite <- app_assoc; auto).
  assert (NT : nms T = rest).
  { assert (X : nms tbl2 = inn ++ nms T) by (rewrite ET, nms_app, P1g; auto).
    rewrite P4g, N1, <- app_assoc in X. apply app_inv_head in X. rewrite ER. auto. }
  assert (N2 : nms tbl2 = D) by (rewrite P4g, N1, ED, app_assoc; auto).
  assert (I2 : ids tbl2 = invs ++ ids T) by (rewrite ET, ids_app, P1i; auto).
  (* bounds and distinctness of the ids of the table *)
  assert (Tb0 : forall k v, In (k, v) tbl0 -> b <= v < nv h2).
  { intros k v Hin. destruct (P1f k v Hin) as (A & x & Hx & _). split; auto. eapply getv_lt; eauto. }
  assert (ND0 : NoDup (ids tbl0)) by (rewrite P1i, P1j; apply seq_NoDup).
  assert (ND2 : NoDup (ids tbl2)).
  { rewrite ET2. apply (NoDup_ids_app R2 (R1 ++ tbl0) (nv h4)); auto.
    - apply (NoDup_ids_app R1 tbl0 (nv h3)); auto.
      + intros k v Hin. apply Tb0 in Hin. lia.
      + intros k v Hin. apply P3g in Hin. lia.
    - intros k v Hin. destruct (TB_lt _ _ _ _ _ _ P3e Hin). auto.
    - intros k v Hin. apply S4a in Hin. lia. }
  assert (O4 : forall u, u < nv h -> getv h4 u = getv h u).
  { intros u Hu. destruct (getv_some h u Hu) as (x & Hx). rewrite Hx.
    assert (Hx3 : getv h3 u = Some x) by (rewrite GV3, P1e; auto).
    destruct (P3i _ _ Hx3) as (c' & Hc' & [Ec|(i & Hi & Li)]).
    - rewrite Hc', Ec, with_const_id. auto.
    - apply lookup_In in Li. apply Tb0 in Li. unfold b in Li. lia. }
  assert (O5 : forall u, u < nv h -> getv h5 u = getv h u).
  { intros u Hu. rewrite P4e by lia. auto. }
  assert (HN5 : hn h5 = hn h) by congruence.
  assert (HG5 : hg h5 = hg h) by congruence.
  assert (X05 : ext h h5).
  { unfold ext, nn, ngr, getn, getg. rewrite HN5, HG5. csplit; auto; try lia; eauto.
    - intros v x Hx. exists x. split; auto. rewrite O5; auto. eapply getv_lt; eauto.
    - intros t c Hc'. unfold gett in *. rewrite P4c, P3c. apply P2e. unfold gett. rewrite P1c. auto. }
  (* the inputs keep their payload until the nodes have been built *)
  assert (INF5 : forall j v d, nth_error invs j = Some v -> nth_error ins j = Some d ->
                 In (vd_name d, v) tbl0 /\ exists x, getv h5 v = Some x /\ v_info x = vd_pay d).
  { intros j v d Hv Hd. pose proof (Forall2_nth _ _ _ P1k j d v Hd Hv) as G. cbn beta in G.
    assert (Hin : In (vd_name d, v) tbl0).
    { unfold tbl0. assert (Hl' : length invs = length (map vi_of ins)) by (rewrite map_length; auto).
      apply (proj2 (table_of_spec (map vi_of ins) invs [] Hl')). right.
      assert (Hnm : nth_error (map vi_name (map vi_of ins)) j = Some (vd_name d)).
      { rewrite map_map. apply (map_nth_error (fun x => vi_name (vi_of x)) j ins Hd). }
      eapply In_combine_nth; [exact Hnm | exact Hv]. }
    split; auto. assert (Hv2 : v < nv h2) by (eapply getv_lt; eauto).
    assert (G3 : getv h3 v = Some (fresh_value (Some (vd_name d)) None (vd_pay d))) by (rewrite GV3; auto).
    destruct (P3i _ _ G3) as (c' & Hc' & _). exists (with_const c' (fresh_value (Some (vd_name d)) None (vd_pay d))).
    split; auto. rewrite P4e; auto. lia. }
  (* ---- P5 *)
  assert (Hc2 : chain_ok2 (tbl2 :: sc)).
  { cbn [chain_ok2]. csplit; auto.
    intros k v Hin t' k' Ht' Hin'. destruct (HS t' k' v Ht' Hin') as (x & Hx & _). apply getv_lt in Hx.
    destruct (TB_lt _ _ _ _ _ _ P4f Hin). unfold b in *. lia. }
  assert (HD : forall k, In k rest -> In k (nms tbl2)).
  { intros k Hk. rewrite N2, ED, <- ER. apply in_or_app; auto. }
  assert (Hdecl : forall k, In k (tout_names nodes) -> In k (nms tbl2)).
  { intros k Hk. apply HD. rewrite ER. apply in_or_app; auto. }
  destruct (IHn b I nsc outn sc tbl2 vis h5 (nv h5) Lv) as (h6 & P & nids & E5 & L5 & C5 & T6 & Q5 & S5 & R5 & G5 & D5); auto.
  { eapply SC_ext; eauto. }
  { rewrite N2. auto. }
  { apply TB_TQ; auto. }
  { destruct X05 as (A & _). unfold b. auto. }
  { intros k Hk Hr. exfalso. apply Hk. auto. }
  { intros k Hk. destruct (vi_lookup k vis) as [j|] eqn:Ej; [|congruence]. destruct (F2 _ _ Ej) as (_ & A & _). auto. }
  { intros k v x _ Hin Hx. destruct (P4f k v Hin) as (_ & x' & Hx' & _ & Hp & _). congruence. }
  set (tbl3 := P ++ tbl2) in *.
  pose proof S5 as (X56 & V56 & G56).
  assert (NDP : forall k v, In (k, v) P -> ~ In k (nms tbl2) /\ nv h5 <= v) by (intros k v Hin; destruct (Q5 _ _ Hin); auto).
  assert (Hb3 : forall k v, In (k, v) tbl3 -> b <= v < nv h6) by (intros k v Hin; eapply TQ_lt; eauto).
  assert (ND3 : NoDup (ids tbl3)) by (destruct C5; auto).
  assert (I3 : ids tbl3 = invs ++ ids T ++ ids P) by (unfold tbl3; rewrite ids_app, I2, <- app_assoc; auto).
  assert (ELv : Lv = inn ++ rest ++ nms P).
  { rewrite <- L5. fold tbl3. unfold tbl3. rewrite nms_app, N2, ED, ER, <- !app_assoc. auto. }
  assert (NPk : forall k, In k (nms P) -> ~ In k inn /\ ~ In k rest).
  { intros k Hk. apply In_nms in Hk. destruct Hk as (v & Hv). destruct (NDP _ _ Hv) as (A & _).
    split; intros Hc0; apply A; rewrite N2, ED; [apply in_or_app; auto | rewrite <- ER; apply in_or_app; auto]. }
  (* lookups of the names of the scope *)
  assert (LKR : forall k v, In k rest -> In (k, v) tbl3 -> lookup k tbl3 = Some v /\ look tbl2 k = v).
  { intros k v Hk Hin.
    assert (HT' : In (k, v) T).
    { unfold tbl3 in Hin. rewrite ET in Hin. apply in_app_or in Hin. destruct Hin as [Hin|Hin].
      - exfalso. destruct (NDP _ _ Hin) as (A & _). apply A. auto.
      - apply in_app_or in Hin. destruct Hin as [Hin|Hin]; auto. exfalso. apply (Disj k Hk). rewrite <- P1g.
        apply In_nms. eauto. }
    assert (Hkp : lookup k P = None).
    { apply lookup_keys_none. intros k' v' Hin' ->. destruct (NDP _ _ Hin') as (A & _). apply A. auto. }
    assert (HlT : lookup k (T ++ tbl0) = Some v) by (apply lookup_R; auto; rewrite NT; auto).
    split.
    - unfold tbl3. rewrite lookup_app, Hkp, ET. auto.
    - unfold look. rewrite ET, HlT. auto. }
  assert (LKI : forall k j, index_last k inn 0 = Some j ->
                index_last k Lv 0 = Some j /\ exists v, nth_error invs j = Some v /\ lookup k tbl3 = Some v).
  { intros k j Hj.
    assert (Hkin : In k inn).
    { destruct (in_dec N.eq_dec k inn) as [Hd|Hd]; auto. apply (index_last_None _ _ 0) in Hd. congruence. }
    assert (HjL : index_last k Lv 0 = Some j).
    { rewrite ELv, index_last_app_notin; auto. intros Hc0. apply in_app_or in Hc0. destruct Hc0 as [Hc0|Hc0].
      - apply (Disj k); auto.
      - apply NPk in Hc0. destruct Hc0; auto. }
    split; auto. pose proof (lookup_ilast tbl3 k) as Hl. rewrite L5, HjL in Hl. destruct Hl as (v & Hv & Hn').
    exists v. split; auto. rewrite I3 in Hn'. rewrite nth_error_app1 in Hn'; auto.
    apply index_last_lt in Hj. lia. }
  (* ---- P6 *)
  assert (WO : forall o, In o outs -> vd_named (snd o) = true /\ vd_out (snd o) = true /\
             fst o = resolve2 (vd_name (snd o)) [Lv] 0 /\
             match fst o with
             | Some (_, j) => match nth_error defs j with
                              | Some (_, p) => p = vd_pay (snd o)
                              | None => forall o', In o' outs -> fst o' = fst o -> vd_pay (snd o') = vd_pay (snd o)
                              end
             | None => True
             end).
  { intros o Ho. specialize (W6 o Ho). destruct o as [r d]. cbn [fst snd].
    apply andb_prop in W6. destruct W6 as (W6 & Wd). apply andb_prop in W6. destruct W6 as (W6 & Wc).
    apply andb_prop in W6. destruct W6 as (Wa & Wb). apply ref_eqb_eq in Wc. csplit; auto.
    destruct r as [[dd j]|]; auto. destruct (nth_error defs j) as [[k' p]|].
    - apply N.eqb_eq in Wd. auto.
    - rewrite forallb_forall in Wd. intros o' Ho' Er. specialize (Wd o' Ho'). rewrite Er, ref_eqb_refl in Wd.
      cbn in Wd. apply N.eqb_eq in Wd. auto. }
  assert (OUTREF : forall o, In o outs ->
            match lookup (vd_name (snd o)) tbl3 with
            | Some u => exists j, fst o = Some (0, j) /\ nth_error (ids tbl3) j = Some u /\
                                  index_last (vd_name (snd o)) Lv 0 = Some j
            | None => fst o = None
            end).
  { intros o Ho. destruct (WO o Ho) as (_ & _ & Er & _). cbn [resolve2] in Er.
    pose proof (lookup_ilast tbl3 (vd_name (snd o))) as Hl. rewrite L5 in Hl.
    destruct (index_last (vd_name (snd o)) Lv 0) as [j|].
    - destruct Hl as (v & Hv & Hn'). rewrite Hv. exists j. auto.
    - rewrite Hl. auto. }
  destruct (graph_outputs_spec2 tbl3 outs h6) as (h7 & outvs & E6 & P6a & P6b & P6c & P6d & P6e & P6f).
  { intros k v Hin. apply Hb3 in Hin. lia. }
  (* same value => same reference => consistent payloads *)
  assert (OUTPAY : forall o o' u, In o outs -> In o' outs -> lookup (vd_name (snd o)) tbl3 = Some u ->
             lookup (vd_name (snd o')) tbl3 = Some u -> vd_pay (snd o') = vd_pay (snd o)).
  { intros o o' u Ho Ho' Hl Hl'. pose proof (OUTREF o Ho) as R. pose proof (OUTREF o' Ho') as R'. rewrite Hl in R. rewrite Hl' in R'.
    destruct R as (j & Ef & Hn1 & _). destruct R' as (j' & Ef' & Hn1' & _).
    assert (j' = j).
    { apply (proj1 (NoDup_nth_error (ids tbl3)) ND3); [apply nth_error_Some; congruence | congruence]. }
    subst j'. destruct (WO o Ho) as (_ & _ & _ & C). destruct (WO o' Ho') as (_ & _ & _ & C'). rewrite Ef in C. rewrite Ef' in C'.
    destruct (nth_error defs j) as [[k' p]|]; [congruence|]. apply C; auto; congruence. }
  (* the values of the table after P6 *)
  assert (T7 : forall k v, In (k, v) tbl3 -> exists x6 p, getv h6 v = Some x6 /\ getv h7 v = Some (with_info p x6) /\
             v_name x6 = Some k /\ v_owner x6 = None /\ v_in x6 = false /\ v_out x6 = false /\ v_init x6 = false /\
             (p = v_info x6 \/ exists o, In o outs /\ lookup (vd_name (snd o)) tbl3 = Some v /\ p = vd_pay (snd o))).
  { intros k v Hin. destruct (T6 k v Hin) as (_ & x6 & Hx6 & A1 & A2 & A3 & A4 & A5 & A6).
    destruct (P6e _ _ Hx6) as (p & Hx7 & Hpd). exists x6, p. csplit; auto. }
  (* info of the inputs *)
  assert (FIa : forall j v d, nth_error invs j = Some v -> nth_error ins j = Some d ->
                In (vd_name d, v) tbl3 /\ exists x7, getv h7 v = Some x7 /\ v_info x7 = vd_pay d).
  { intros j v d Hv Hd. destruct (INF5 j v d Hv Hd) as (Hin0 & x5 & Hx5 & Hi5).
    assert (Hin : In (vd_name d, v) tbl3).
    { unfold tbl3. apply in_or_app. right. rewrite ET. apply in_or_app. right. auto. }
    split; auto. destruct (V56 _ _ Hx5) as (x6 & Hx6 & Em & _). apply vmid_inv in Em. destruct Em as (_ & _ & _ & _ & _ & _ & M7).
    destruct (P6e _ _ Hx6) as (p & Hx7 & Hpd). exists (with_info p x6). split; auto. cbn.
    destruct Hpd as [->|(o & Ho & Lo & ->)]; [congruence|].
    pose proof (OUTREF o Ho) as R. rewrite Lo in R. destruct R as (j' & Ef & Hn1 & _).
    assert (j' = j).
    { apply (proj1 (NoDup_nth_error (ids tbl3)) ND3); [apply nth_error_Some; congruence|].
      rewrite Hn1, I3, nth_error_app1; [congruence | apply nth_error_Some; congruence]. }
    subst j'. destruct (WO o Ho) as (_ & _ & _ & C). rewrite Ef in C.
    assert (Edj : nth_error defs j = Some (vd_name d, vd_pay d)).
    { rewrite Edefs, nth_error_app1; [|unfold din; rewrite map_length; apply nth_error_Some; congruence].
      unfold din. apply (map_nth_error (fun d => (vd_name d, vd_pay d)) j ins Hd). }
    rewrite Edj in C. auto. }
  (* info of the non-input initializers and declared node outputs *)
  assert (FIb : forall k v, In k rest -> In (k, v) tbl3 -> exists x7, getv h7 v = Some x7 /\ v_info x7 = pay_of k).
  { intros k v Hk Hin. destruct (T7 _ _ Hin) as (x6 & p & Hx6 & Hx7 & A1 & _ & _ & _ & _ & Hpd).
    exists (with_info p x6). split; auto. cbn.
    assert (Hout : forall o, In o outs -> lookup (vd_name (snd o)) tbl3 = Some v -> vd_pay (snd o) = pay_of k).
    { intros o Ho Lo. assert (Ek : vd_name (snd o) = k).
      { apply lookup_In in Lo. eapply TQ_inj; eauto. }
      pose proof (OUTREF o Ho) as R. rewrite Lo in R. destruct R as (j & Ef & Hn1 & Hil). rewrite Ek in Hil.
      assert (Hil2 : index_last k rest (length inn) = Some j).
      { rewrite ELv, index_last_app_in in Hil by (apply in_or_app; auto).
        rewrite index_last_app_notin in Hil; auto. intros Hc0. apply NPk in Hc0. destruct Hc0; auto. }
      pose proof (index_last_ge _ _ _ _ Hil2) as Hge. pose proof (index_last_nth _ _ _ _ Hil2) as Hnth.
      rewrite <- Erd in Hnth. apply nth_error_map_some in Hnth. destruct Hnth as ([k' p'] & Hnd & Ek'). cbn in Ek'. subst k'.
      destruct (WO o Ho) as (_ & _ & _ & C). rewrite Ef in C.
      assert (Edj : nth_error defs j = Some (k, p')).
      { rewrite Edefs, nth_error_app2; unfold din; rewrite map_length; [|lia]. rewrite <- Hli. exact Hnd. }
      rewrite Edj in C. rewrite <- C. symmetry. apply F1. eapply nth_error_In; eauto. }
    destruct (memN k outn) eqn:Em.
    - apply memN_In in Em. unfold outn in Em. apply in_map_iff in Em. destruct Em as (o & Ek & Ho).
      destruct (LKR k v Hk Hin) as (Lk & _). rewrite <- Ek in Lk.
      pose proof (Forall2_in_l _ _ _ _ P6f Ho) as (w & Hw & Hm). cbn beta in Hm. rewrite Lk in Hm.
      destruct Hm as (_ & x & o' & Hx & Ho' & Lo' & Io'). rewrite Hx7 in Hx. inversion Hx; subst x. cbn in Io'.
      rewrite Io'. apply Hout; auto.
    - destruct Hpd as [->|(o & Ho & Lo & ->)]; [|apply Hout; auto].
      destruct (T6 k v Hin) as (_ & x6' & Hx6' & _ & _ & _ & _ & _ & Hi6). assert (x6' = x6) by congruence. subst x6'.
      apply Hi6; auto. }
  (* ---- P7 *)
  assert (Hlen : length inits = length initvs).
  { apply Forall2_length' in P3h. rewrite combine_length, P2d, Nat.min_id in P3h. auto. }
  set (kv := (combine (map id_name inits) initvs : list (name * nat))).
  assert (Ekv1 : map snd kv = initvs) by (apply map_snd_combine; rewrite map_length; auto).
  assert (Ekv2 : map fst kv = map id_name inits) by (apply map_fst_combine; rewrite map_length; auto).
  pose proof (Forall2_zip3 _ _ _ _ P2f _ P3h) as FI. cbn [fst snd] in FI.
  assert (In23 : forall kv0, In kv0 tbl2 -> In kv0 tbl3) by (intros; unfold tbl3; apply in_or_app; auto).
  assert (FI2 : Forall2 (fun i v => In (id_name i, v) tbl3) inits initvs).
  { eapply Forall2_impl; [|exact FI]. intros i v (c & _ & Hin & _). apply In23, P4h. auto. }
  assert (GN7 : forall n, getn h7 n = getn h6 n) by (intros; unfold getn; rewrite P6a; auto).
  assert (Hinv : forall v, In v invs -> exists j d, nth_error invs j = Some v /\ nth_error ins j = Some d).
  { intros v Hv. apply In_nth_error in Hv. destruct Hv as (j & Hj). exists j.
    destruct (nth_error ins j) as [d|] eqn:Ed; eauto. exfalso. apply nth_error_None in Ed.
    assert (j < length invs) by (apply nth_error_Some; congruence). lia. }
  assert (OUTV : forall v, In v outvs -> (exists o u, In o outs /\ lookup (vd_name (snd o)) tbl3 = Some u /\ v = u) \/
                                          (nv h6 <= v /\ exists o, In o outs /\
                                             getv h7 v = Some (fresh_value (Some (vd_name (snd o))) None (vd_pay (snd o))))).
  { intros v Hv. destruct (Forall2_in_r _ _ _ _ P6f Hv) as (o & Ho & Hm). cbn beta in Hm.
    destruct (lookup (vd_name (snd o)) tbl3) as [u|] eqn:El.
    - destruct Hm as (-> & _). left. exists o, u. auto.
    - destruct Hm as (A & B). right. split; [lia|]. exists o. auto. }
  destruct (new_graph_ok h7 gname gtok invs outvs kv nids) as (l3 & ln & E7 & L3 & LN & Len3 & Lenn).
  { intros v Hv. destruct (Hinv v Hv) as (j & d & Hj & Hd). destruct (FIa j v d Hj Hd) as (Hin & _).
    destruct (T7 _ _ Hin) as (x6 & p & Hx6 & Hx7 & A1 & A2 & _). exists (with_info p x6). csplit; auto. cbn.
    destruct (INF5 j v d Hj Hd) as (Hin0 & x5 & Hx5 & _).
    assert (Hin2 : In (vd_name d, v) tbl2) by (rewrite ET; apply in_or_app; auto).
    destruct (P4f _ _ Hin2) as (_ & x5' & Hx5' & _ & Hp5 & _). assert (x5' = x5) by congruence. subst x5'.
    destruct (V56 _ _ Hx5) as (x6' & Hx6' & _ & Hp). assert (x6' = x6) by congruence. subst x6'.
    destruct Hp as [Hp|(k & Hk & Hin')]; [congruence|]. exfalso.
    assert (k = vd_name d) by (eapply TB_inj; eauto). subst k.
    apply (Disj (vd_name d)); [rewrite ER; apply in_or_app; auto | unfold inn; apply in_map; eapply nth_error_In; eauto]. }
  { intros v Hv. destruct (OUTV v Hv) as [(o & u & Ho & Hl & ->)|(Hge & o & Ho & Hf)].
    - apply lookup_In in Hl. destruct (T7 _ _ Hl) as (x6 & p & Hx6 & Hx7 & A1 & A2 & _). exists (with_info p x6). auto.
    - eexists. split; [exact Hf|reflexivity]. }
  { intros k v Hin. unfold kv in Hin. destruct (in_combine_map id_name _ _ _ _ _ FI2 Hin) as (i & Hi & Hv & -> & Hin2).
    destruct (T7 _ _ Hin2) as (x6 & p & Hx6 & Hx7 & A1 & A2 & _). exists (with_info p x6). auto. }
  { pose proof (nodup_N_NoDup _ W3) as Hd. rewrite <- Ekv2 in Hd. exact Hd. }
  { intros n Hn'. rewrite GN7. eapply pre2_ns_nodes; eauto. }
  rewrite Ekv1 in E7.
  set (z := mkG gname gtok invs outvs kv nids) in *. set (gid := ngr h7) in *.
  set (h8 := mkH l3 ln (hg h7 ++ [z]) (ht h7)) in *.
  assert (GV8 : forall v, getv h8 v = option_map (gval gid invs outvs initvs v) (getv h7 v)).
  { intros v. unfold getv at 1. unfold h8; cbn [hv]. rewrite L3, Ekv1. reflexivity. }
  assert (GN8 : forall n, getn h8 n = option_map (nnode gid nids n) (getn h7 n)).
  { intros n. unfold getn at 1. unfold h8; cbn [hn]. rewrite LN. reflexivity. }
  assert (NV8 : nv h8 = nv h7) by (unfold nv, h8; cbn [hv]; auto).
  assert (GG8 : getg h8 gid = Some z).
  { unfold getg, h8, gid, ngr; cbn [hg]. apply nth_error_app_new. }
  (* ---- the values of the scope in the final heap *)
  assert (Hrole : forall v, In v invs \/ In v initvs -> exists k, In (k, v) tbl3).
  { intros v [Hv|Hv].
    - destruct (Hinv v Hv) as (j & d & Hj & Hd). destruct (FIa j v d Hj Hd) as (Hin & _). eauto.
    - destruct (Forall2_in_r _ _ _ _ FI2 Hv) as (i & _ & Hin). eauto. }
  assert (OUTB : forall k v, In (k, v) tbl3 ->
             (In v outvs <-> exists o, In o outs /\ lookup (vd_name (snd o)) tbl3 = Some v)).
  { intros k v Hin. split.
    - intros Hv. destruct (OUTV v Hv) as [(o & u & Ho & Hl & ->)|(Hge & _)]; [eauto|].
      apply Hb3 in Hin. lia.
    - intros (o & Ho & Hl). destruct (Forall2_in_l _ _ _ _ P6f Ho) as (w & Hw & Hm). cbn beta in Hm. rewrite Hl in Hm.
      destruct Hm as (-> & _). auto. }
  assert (VD8 : forall k v, In (k, v) tbl3 -> exists x7, getv h7 v = Some x7 /\
             getv h8 v = Some (gval gid invs outvs initvs v x7) /\ v_name x7 = Some k /\
             vdesc_of [] h8 v = mkVD k true (v_info x7) (memb v outvs) /\ (b <= v /\ v < nv h8)).
  { intros k v Hin. destruct (T7 _ _ Hin) as (x6 & p & Hx6 & Hx7 & A1 & A2 & A3 & A4 & A5 & _).
    exists (with_info p x6).
    assert (Hx8 : getv h8 v = Some (gval gid invs outvs initvs v (with_info p x6))) by (rewrite GV8, Hx7; auto).
    csplit; auto.
    - unfold vdesc_of. rewrite Hx8, tpay_nil. cbn. rewrite A1, A4. rewrite orb_false_r. auto.
    - destruct (Hb3 _ _ Hin); auto.
    - eapply getv_lt; eauto. }
  assert (OUTR : forall k v, In k rest -> In (k, v) tbl3 -> memb v outvs = memN k outn).
  { intros k v Hk Hin. destruct (memN k outn) eqn:Em.
    - apply memb_In. apply (OUTB k v Hin). apply memN_In in Em. unfold outn in Em. apply in_map_iff in Em.
      destruct Em as (o & Ek & Ho). exists o. split; auto. rewrite Ek. apply LKR; auto.
    - apply memb_notIn. intros Hv. apply (OUTB k v Hin) in Hv. destruct Hv as (o & Ho & Hl).
      apply memN_notIn in Em. apply Em. apply lookup_In in Hl.
      assert (vd_name (snd o) = k) by (eapply TQ_inj; eauto). subst k. unfold outn. apply in_map_iff. exists o. auto. }
  (* ---- the frame *)
  assert (NN5 : nn h5 = nn h) by (unfold nn; rewrite HN5; auto).
  assert (NotT : forall v, v < nv h \/ (nv h5 <= v /\ ~ In v (ids tbl3)) -> forall k, ~ In (k, v) tbl3).
  { intros v [Hv|(_ & Hv)] k Hin.
    - apply Hb3 in Hin. unfold b in Hin. lia.
    - apply Hv. apply In_ids. eauto. }
  assert (Untouched : forall v x6, (forall k, ~ In (k, v) tbl3) -> getv h6 v = Some x6 ->
             exists x8, getv h8 v = Some x8 /\ vfix x8 = vfix x6).
  { intros v x6 Hnt Hx6.
    destruct (P6e _ _ Hx6) as (p & Hx7 & [->|(o & Ho & Lo & _)]); [|exfalso; eapply Hnt; apply lookup_In; eauto].
    rewrite with_info_id in Hx7. exists x6. split; auto.
    rewrite GV8, Hx7. cbn [option_map]. f_equal. apply gval_untouched.
    assert (Hv6 : v < nv h6) by (eapply getv_lt; eauto).
    assert (G : forall l, (In v l -> (exists k, In (k, v) tbl3) \/ nv h6 <= v) -> memb v l = false).
    { intros l Hl. apply memb_notIn. intros Hin. destruct (Hl Hin) as [(k & Hk)|Hge]; [eapply Hnt; eauto | lia]. }
    rewrite !G; auto.
    all: intros Hin; try (left; apply Hrole; tauto);
      destruct (OUTV v Hin) as [(o & u & Ho & Hl & ->)|(Hge & _)]; [left; eexists; apply lookup_In; eauto | right; auto]. }
  assert (X68 : ext h6 h8).
  { pose proof X56 as (B1 & B2 & B3 & B4 & B5 & B6 & B7). unfold ext. csplit.
    - rewrite NV8. lia.
    - unfold nn at 2. unfold h8; cbn [hn]. rewrite Lenn. unfold nn. rewrite P6a. lia.
    - unfold ngr at 2. unfold h8; cbn [hg]. rewrite app_length. unfold ngr. rewrite P6b. cbn. lia.
    - intros v x Hx. destruct (P6e _ _ Hx) as (p & Hx7 & _). eexists. split; [rewrite GV8, Hx7; reflexivity|]. reflexivity.
    - intros n y Hy. rewrite GN8, GN7, Hy. eexists. split; [reflexivity|]. unfold nnode. destruct (memb n nids); reflexivity.
    - intros g z0 Hz. unfold getg in *. unfold h8; cbn [hg]. rewrite P6b.
      rewrite nth_error_app1; auto. apply nth_error_Some. congruence.
    - intros t c Hc'. unfold gett in *. unfold h8; cbn [ht]. rewrite P6c. auto. }
  assert (N08 : nested h h8).
  { split; [eapply ext_trans; [exact X05|]; eapply ext_trans; [exact X56 | exact X68]|]. split.
    - intros v x Hx. assert (Hv : v < nv h) by (eapply getv_lt; eauto).
      assert (Hx5 : getv h5 v = Some x) by (rewrite O5; auto).
      destruct (V56 _ _ Hx5) as (x6 & Hx6 & Em & Hp).
      assert (Hnt : forall k, ~ In (k, v) tbl3) by (apply NotT; auto).
      destruct Hp as [Hp|(k & _ & Hin)]; [|exfalso; eapply Hnt; apply In23; eauto].
      destruct (Untouched v x6 Hnt Hx6) as (x8 & Hx8 & E8). exists x8. split; auto. rewrite E8.
      apply vmid_inv in Em. destruct Em as (M1 & M2 & M3 & M4 & M5 & M6 & M7). unfold vfix. congruence.
    - intros n y Hy. assert (Hn' : n < nn h) by (eapply getn_lt; eauto).
      assert (Hy5 : getn h5 n = Some y) by (unfold getn in *; rewrite HN5; auto).
      rewrite GN8, GN7, (G56 _ _ Hy5). cbn [option_map]. f_equal. unfold nnode.
      assert (Hm : memb n nids = false) by (apply memb_notIn; intros Hin; apply G5 in Hin; lia).
      rewrite Hm. auto. }
  set (Q68 := fun v => nv h5 <= v /\ ~ In v (ids tbl3)).
  assert (K68 : keepsP Q68 h6 h8).
  { split; auto. intros v x (A & B) Hx.
    destruct (Untouched v x (NotT v (or_intror (conj A B))) Hx) as (x8 & Hx8 & E8). exists x8. split; auto.
    apply vfix_vview; auto. }
  (* ---- initializers *)
  assert (FVI : Forall2 (fun i v => (id_input i = false -> look tbl2 (id_name i) = v) /\ mem v invs = id_input i) inits initvs).
  { eapply Forall2_impl_In; [|exact (Forall2_and _ _ _ _ FI FI2)]. intros i v Hi Hv ((c & _ & _ & Hlk & _) & Hin). cbn beta.
    destruct (WI i Hi) as (_ & _ & t & _ & B1 & B2). destruct (id_input i) eqn:Ei.
    - split; [discriminate|]. apply mem_In. specialize (Hlk eq_refl). apply lookup_In in Hlk.
      rewrite <- P1i. apply In_ids. eauto.
    - destruct (Dinit i Hi Ei) as (_ & Hr). split; [intros _; apply LKR; auto|]. apply mem_notIn. intros Hvin.
      destruct (Hinv v Hvin) as (j & d & Hj & Hd). destruct (FIa j v d Hj Hd) as (Hin' & _).
      assert (id_name i = vd_name d) by (eapply TQ_inj; eauto).
      destruct (B2 eq_refl) as (Hni & _). apply Hni. rewrite H. unfold inn. apply in_map. eapply nth_error_In; eauto. }
  assert (GD : gdefs h8 z = ids tbl2).
  { rewrite I2. unfold gdefs. cbn [g_inputs g_inits g_nodes z]. f_equal.
    rewrite <- (map_look_R T tbl0) by (rewrite NT; auto). rewrite <- ET, NT, ER, map_app. f_equal.
    - rewrite Ekv1. unfold initn. apply (filter_look2 id_name id_input tbl2 invs inits initvs FVI).
    - eapply gdefs_nodes2 with (h := h6) (Q := Q68); eauto.
      + intros n y Hy. rewrite GN8, GN7, Hy. eexists. split; [reflexivity|]. apply nnode_outputs.
      + intros k v Hin _. destruct (VD8 _ _ Hin) as (x7 & _ & Hx8 & Hn7 & _). eexists. split; [exact Hx8|]. exact Hn7.
      + intros k v Hk Hin. apply LKR; auto. rewrite ER. apply in_or_app; auto. }
  assert (FID : Forall2 (fun i v => idesc_of [] h8 z (id_name i, v) = i) inits initvs).
  { eapply Forall2_impl_In; [|exact (Forall2_and _ _ _ _ (Forall2_and _ _ _ _ FI FI2) FVI)].
    intros i v Hi Hv (((c & Hc1 & Hin1 & Hlk & x4 & Hx4 & Hc4) & Hin) & (Hlook & Hmem)).
    destruct (VD8 _ _ Hin) as (x7 & Hx7 & Hx8 & Hn7 & _).
    destruct (T7 _ _ Hin) as (x6 & p & Hx6 & Hx7' & _). rewrite Hx7 in Hx7'. inversion Hx7'; subst x7.
    assert (Hv4 : v < nv h4) by (eapply getv_lt; eauto).
    assert (Hx5 : getv h5 v = Some x4) by (rewrite P4e; auto).
    destruct (V56 _ _ Hx5) as (x6' & Hx6' & Em & _). assert (x6' = x6) by congruence. subst x6'.
    apply vmid_inv in Em. destruct Em as (_ & _ & _ & _ & _ & M6 & _).
    assert (Ht8 : gett h8 c = gett h3 c).
    { destruct X56 as (_ & _ & _ & _ & _ & _ & B7).
      assert (G5' : gett h5 c = gett h3 c) by (unfold gett; rewrite P4c, P3c; auto).
      rewrite Hc1 in G5' |- *. apply B7 in G5'. unfold gett in *. unfold h8; cbn [ht]. rewrite P6c. auto. }
    destruct (WI i Hi) as (A1 & A2 & t & Et & B1 & B2).
    assert (Ep : p = id_pay i).
    { destruct (id_input i) eqn:Ei.
      - destruct (B1 eq_refl) as (j & d & Hil & Hd & Epd). specialize (Hlk eq_refl).
        pose proof (lookup_ilast tbl0 (id_name i)) as Hl0. rewrite P1g, Hil, P1i in Hl0. destruct Hl0 as (v' & Hv' & Hnj).
        assert (v' = v) by congruence. subst v'.
        destruct (FIa j v d Hnj Hd) as (_ & x7' & Hx7'' & Hi7). rewrite Hx7 in Hx7''. inversion Hx7''; subst x7'. cbn in Hi7. congruence.
      - destruct (Dinit i Hi Ei) as (C1 & C2). destruct (FIb _ _ C2 Hin) as (x7' & Hx7'' & Hi7).
        rewrite Hx7 in Hx7''. inversion Hx7''; subst x7'. cbn in Hi7. rewrite Hi7. apply F1; auto. }
    set (x8 := gval gid invs outvs initvs v (with_info p x6)) in *.
    assert (N8 : v_name x8 = Some (id_name i)) by exact Hn7.
    assert (C8 : v_const x8 = Some c) by (unfold x8; cbn; congruence).
    assert (I8 : v_info x8 = id_pay i) by (unfold x8; cbn; exact Ep).
    unfold idesc_of. cbn [snd]. rewrite Hx8, tpay_nil, N8, C8, I8, Ht8, Hc1. cbn [t_tok t_pay t_bad_info t_fill z g_inputs].
    rewrite Hmem. unfold itp. rewrite Et. cbn. destruct i as [iname inamed iten iinp ipay]. cbn in *. subst inamed iten.
    destruct t; reflexivity. }
  (* ---- conclusion *)
  exists h8, gid. split.
  { cbn [t2p_g deser_graph]. pose proof E3 as E3'. pose proof E4 as E4'. pose proof E5 as E5'. pose proof E6 as E6'.
    unfold tbl0, vis, inn in E3', E4', E5'.
    rewrite E1, E1', Etp, E2, E3', E4', E5', E6. exact E7. }
  split; [exact N08|].
  assert (NG8 : ngr h8 = S gid).
  { unfold ngr at 1. unfold h8; cbn [hg]. rewrite app_length. cbn. unfold gid, ngr. lia. }
  split; [exact NG8|].
  apply and_comm. split.
  { cbn [depth_g]. rewrite NG8. unfold gid, ngr in *. rewrite P6b. rewrite HG5 in D5. lia. }
  cbn [real2_g]. exists z, (ids tbl3). split; [exact GG8|]. rewrite GD. unfold z at 1 2 3 4 5 6 7 8.
  cbn [g_name g_tok g_inputs g_inits g_outputs g_nodes].
  split; [reflexivity|]. split; [reflexivity|]. split.
  { (* inputs *)
    apply map_nth_eq; auto. intros j v d Hj Hd.
    destruct (FIa j v d Hj Hd) as (Hin & x7 & Hx7 & Hi7).
    destruct (VD8 _ _ Hin) as (x7' & Hx7' & _ & _ & Ev & _). rewrite Hx7 in Hx7'. inversion Hx7'; subst x7'. rewrite Ev, Hi7.
    destruct (wf2_ins_nth _ _ _ _ W1 j d Hd) as (Wa & Wb). cbn [Nat.add] in Wb.
    assert (Eo : memb v outvs = memN (vd_name d) outn && is_last (vd_name d) j inn).
    { destruct (memb v outvs) eqn:Em.
      - apply memb_In in Em. apply (OUTB _ _ Hin) in Em. destruct Em as (o & Ho & Lo). symmetry.
        assert (Ek : vd_name (snd o) = vd_name d) by (apply lookup_In in Lo; eapply TQ_inj; eauto).
        apply andb_true_intro. split.
        + apply memN_In. unfold outn. apply in_map_iff. exists o. auto.
        + pose proof (OUTREF o Ho) as R. rewrite Lo in R. destruct R as (j' & _ & Hn1 & Hil).
          assert (j' = j).
          { apply (proj1 (NoDup_nth_error (ids tbl3)) ND3); [apply nth_error_Some; congruence|].
            rewrite Hn1, I3, nth_error_app1; [congruence | apply nth_error_Some; congruence]. }
          subst j'. rewrite Ek in Hil. rewrite ELv, index_last_app_notin in Hil.
          * unfold is_last. rewrite Hil. cbn. apply Nat.eqb_refl.
          * assert (Hkin : In (vd_name d) inn) by (unfold inn; apply in_map; eapply nth_error_In; eauto).
            intros Hc0. apply in_app_or in Hc0. destruct Hc0 as [Hc0|Hc0]; [apply (Disj _ Hc0); auto|].
            apply NPk in Hc0. destruct Hc0; auto.
      - symmetry. apply Bool.not_true_is_false. intros Hc0. apply andb_prop in Hc0. destruct Hc0 as (Hm & Hil).
        apply memb_notIn in Em. apply Em. apply (OUTB _ _ Hin). apply memN_In in Hm. unfold outn in Hm.
        apply in_map_iff in Hm. destruct Hm as (o & Ek & Ho). exists o. split; auto. rewrite Ek.
        unfold is_last in Hil. destruct (index_last (vd_name d) inn 0) as [j'|] eqn:Ej; [|discriminate]. cbn in Hil.
        apply Nat.eqb_eq in Hil. subst j'. destruct (LKI _ _ Ej) as (_ & v' & Hv' & Hl'). congruence. }
    rewrite Eo, <- Wb, <- Wa. destruct d; reflexivity. }
  split.
  { unfold kv. apply map_combine_id. exact FID. }
  split.
  { (* outputs *)
    apply Forall2_map_eq. apply Forall2_flip. eapply Forall2_impl_In; [|exact P6f]. intros o v Ho Hv Hm. cbn beta in Hm |- *.
    destruct (WO o Ho) as (A1 & A2 & A3 & _). pose proof (OUTREF o Ho) as R.
    assert (Hmo : memb v outvs = true) by (apply memb_In; auto).
    destruct (lookup (vd_name (snd o)) tbl3) as [u|] eqn:El.
    - destruct Hm as (-> & x & o' & Hx & Ho' & Lo' & Io'). destruct R as (j & Ef & Hn1 & _).
      pose proof (lookup_In _ _ _ El) as Hin. destruct (VD8 _ _ Hin) as (x7 & Hx7 & _ & _ & Ev & _).
      assert (x7 = x) by congruence. subst x7. rewrite Ev, Hmo, Io', (OUTPAY o o' u Ho Ho' El Lo').
      cbn [find_ref]. rewrite (index_nat_nth u (ids tbl3) ND3 j 0 Hn1). cbn [Nat.add]. rewrite <- Ef.
      destruct o as [r d]. cbn [fst snd] in *. f_equal. destruct d as [dn dm dp dout]; cbn in A1, A2 |- *; rewrite A1, A2; reflexivity.
    - destruct Hm as (Hge & Hf).
      assert (Hnin : ~ In v (ids tbl3)).
      { intros Hc0. apply In_ids in Hc0. destruct Hc0 as (k & Hk). apply Hb3 in Hk. lia. }
      cbn [find_ref]. rewrite (proj2 (index_nat_None v (ids tbl3) 0) Hnin). rewrite <- R.
      unfold vdesc_of. rewrite GV8, Hf. cbn [option_map]. rewrite tpay_nil. cbn. rewrite Hmo.
      destruct o as [r d]. cbn [fst snd] in *. f_equal. destruct d as [dn dm dp dout]. cbn in A1, A2 |- *. rewrite A1, A2.
      reflexivity. }
  split.
  { intros v Hv. destruct (Hrole v (or_introl Hv)) as (k & Hk). destruct (VD8 _ _ Hk) as (_ & _ & _ & _ & _ & A). exact A. }
  split.
  { intros [k v] Hin. unfold kv in Hin. destruct (in_combine_map id_name _ _ _ _ _ FID Hin) as (i & Hi & Hv & -> & Ei).
    cbn [snd]. split.
    - destruct (Hrole v (or_intror Hv)) as (k & Hk). destruct (VD8 _ _ Hk) as (_ & _ & _ & _ & _ & A). exact A.
    - change (id_tensor (idesc_of [] h8 z (id_name i, v)) <> None). rewrite Ei.
      destruct (WI i Hi) as (_ & _ & t & Et & _). congruence. }
  split.
  { intros v Hv. destruct (OUTV v Hv) as [(o & u & Ho & Hl & ->)|(Hge & o & Ho & Hf)].
    - apply lookup_In in Hl. destruct (VD8 _ _ Hl) as (_ & _ & _ & _ & _ & A). exact A.
    - assert (Hv7 : v < nv h7) by (eapply getv_lt; eauto). rewrite NV8. split; auto.
      pose proof (Hb3). destruct X05 as (A & _). destruct X56 as (B & _). unfold b. lia. }
  eapply pre2_real_ns with (Q := Q68) (h := h6) (tbl := tbl3); eauto.
  - intros v (A & _). destruct X05 as (B & _). unfold b. cbn beta. lia.
  - intros k v Hin _. destruct (VD8 _ _ Hin) as (x7 & _ & Hx8 & Hn7 & _ & A). split; [exact A|]. eexists. split; [exact Hx8|exact Hn7].
  - intros d v Hd Hz Hin. destruct (Dout d Hd Hz) as (C1 & C2).
    destruct (VD8 _ _ Hin) as (x7 & Hx7 & _ & _ & Ev & _). destruct (FIb _ _ C2 Hin) as (x7' & Hx7' & Hi7).
    assert (x7' = x7) by congruence. subst x7'. rewrite Ev, Hi7, (F1 _ _ C1), (OUTR _ _ C2 Hin).
    destruct (wf_node_out_named _ _ (WNo d Hd) Hz) as (A1 & A2). rewrite <- A2, <- A1. destruct d; reflexivity.
Qed.

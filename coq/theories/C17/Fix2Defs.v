(* C17/Fix2Defs.v — the pieces of wf2 (C17/Tree2.v): structural part (wfs_...), leaf condition on initializer
   payloads (leaf_fill_...), absence of attributes the serializer rejects (nosbad_...), and the payload map
   relating the unfolding with and without leaf normalisation.  Definitions only. *)
From Coq Require Import NArith ZArith List Bool Arith.
From IRV Require Import Base.Exn C03.Model C03.Canon C03.Inv C03.Tree C03.TreeF C03.PayFixDefs C17.Tree2 C17.PUnfold.
Import ListNotations.

(* ---- structural well-formedness: wf2 without the fill condition and without the sbad test *)
Definition wfs_init (ins : list vdesc) (outn : list N) (i : idesc) : bool :=
  id_named i && negb (N.eqb (id_name i) 0)
  && match id_tensor i with
     | None => false
     | Some t =>
       let inn := map vd_name ins in
       if id_input i
       then match index_last (id_name i) inn 0 with
            | Some j => match nth_error ins j with Some d => N.eqb (vd_pay d) (id_pay i) | None => false end
            | None => false
            end
       else negb (memN (id_name i) inn) && negb (td_bad t)

     end.
Fixpoint wfs_g (nsc : list (list N)) (T : gtree) : bool :=
  match T with
  | GBad => false
  | GT gname gtok ins inits nodes outs =>
    let inn := map vd_name ins in
    let defs := tdefs ins inits nodes in
    let D := map fst defs in
    let rest := skipn (length ins) D in        (* non-input initializers and non-empty node outputs *)
    let outn := map (fun o => vd_name (snd o)) outs in
    wf2_ins inn outn ins 0
    && forallb (wfs_init ins outn) inits
    && nodup_N (map id_name inits)
    && nodup_N rest && forallb (fun k => negb (memN k inn)) rest
    && match wfs_ns nsc D outn nodes with
       | None => false
       | Some Lv =>
         forallb (fun o => let '(r, d) := o in
                           vd_named d && vd_out d && ref_eqb r (resolve2 (vd_name d) [Lv] 0)
                           && match r with
                              | Some (_, j) =>
                                (* the payload written at the output is the payload at the definition site;
                                   outputs naming the same placeholder agree among themselves *)
                                match nth_error defs j with
                                | Some (_, p) => N.eqb p (vd_pay d)
                                | None => forallb (fun o' => negb (ref_eqb (fst o') r) || N.eqb (vd_pay (snd o')) (vd_pay d)) outs
                                end
                              | None => true
                              end) outs
       end
  end
(* returns the level (definitions ++ placeholder names) after the nodes, None when ill formed *)
with wfs_ns (outer : list (list N)) (cur : list N) (outn : list N) (ns : ntrees) : option (list N) :=
  match ns with
  | TNil => Some cur
  | TCons n r => match wfs_n outer cur outn n with
                 | None => None
                 | Some cur1 => wfs_ns outer cur1 outn r
                 end
  end
with wfs_n (outer : list (list N)) (cur : list N) (outn : list N) (n : ntree) : option (list N) :=
  match n with
  | NBad => None
  | NT nname op ntok ins outs attrs =>
    let cur' := add_free_names outer cur ins in
    if forallb (wf2_node_in (cur' :: outer)) ins && forallb (wf_node_out outn) outs && no_trailing_empty outs
       && nodup_N (anames attrs) && wfs_as (cur' :: outer) attrs
    then Some cur' else None
  end
with wfs_as (nsc : list (list N)) (al : atrees) : bool :=
  match al with TANil => true | TACons a r => wfs_a nsc a && wfs_as nsc r end
with wfs_a (nsc : list (list N)) (a : atree) : bool :=
  match a with
  | TPlain _ _ sbad => true
  | TGraph _ g => wfs_g nsc g
  | TGraphs _ gs => wfs_gs nsc gs
  end
with wfs_gs (nsc : list (list N)) (gs : gtrees) : bool :=
  match gs with TGNil => true | TGCons g r => wfs_g nsc g && wfs_gs nsc r end.

Definition wfs_f (F : ftree) : bool :=
  match F with
  | FBad => false
  | FT fid ftok ins nodes outs =>
    let inn := map vd_name ins in
    let defs := tdefs ins [] nodes in
    let D := map fst defs in
    let rest := skipn (length ins) D in
    let outn := map (fun o => snd (fst o)) outs in
    wf2_ins inn outn ins 0
    (* every input of a name carries the payload of the LAST value_info entry of that name (none: 0) *)
    && forallb (fun d => N.eqb (vd_pay d) (match vi_lookup (vd_name d) (flat_map fn_vi ins) with
                                           | Some i => vi_pay i | None => 0%N end)) ins
    && nodup_N rest && forallb (fun k => negb (memN k inn)) rest
    && match wfs_ns [] D outn nodes with
       | None => false
       | Some Lv => forallb (fun o => let '(r, k, named) := o in
                                      named && is_some r && ref_eqb r (resolve2 k [Lv] 0)) outs
       end
  end.
Definition wfs_m (M : mtree) : bool :=
  wfs_g [] (mt_graph M) && forallb wfs_f (mt_funcs M) && nodup_N (map fid_of (mt_funcs M)).


(* ---- leaf condition: a non-input initializer that is not a graph output has a payload stable under fill *)
Definition leaf_init (outn : list N) (i : idesc) : bool :=
  match id_tensor i with
  | None => true
  | Some t => id_input i || memN (id_name i) outn
              || (negb (N.eqb (id_pay i) 0) && N.eqb (fill_pay' t (id_pay i)) (id_pay i))
  end.
Fixpoint leaf_fill_g (T : gtree) : bool :=
  match T with
  | GBad => true
  | GT _ _ _ inits nodes outs => forallb (leaf_init (map (fun o => vd_name (snd o)) outs)) inits && leaf_fill_ns nodes
  end
with leaf_fill_ns (ns : ntrees) : bool :=
  match ns with TNil => true | TCons n r => leaf_fill_n n && leaf_fill_ns r end
with leaf_fill_n (n : ntree) : bool :=
  match n with NBad => true | NT _ _ _ _ _ attrs => leaf_fill_as attrs end
with leaf_fill_as (al : atrees) : bool :=
  match al with TANil => true | TACons a r => leaf_fill_a a && leaf_fill_as r end
with leaf_fill_a (a : atree) : bool :=
  match a with TPlain _ _ _ => true | TGraph _ g => leaf_fill_g g | TGraphs _ gs => leaf_fill_gs gs end
with leaf_fill_gs (gs : gtrees) : bool :=
  match gs with TGNil => true | TGCons g r => leaf_fill_g g && leaf_fill_gs r end.
Definition leaf_fill_m (M : mtree) : bool :=
  leaf_fill_g (mt_graph M)
  && forallb (fun F => match F with FBad => true | FT _ _ _ nodes _ => leaf_fill_ns nodes end) (mt_funcs M).

(* ---- no attribute the leaf serializer rejects *)
Fixpoint nosbad_g (T : gtree) : bool :=
  match T with GBad => true | GT _ _ _ _ nodes _ => nosbad_ns nodes end
with nosbad_ns (ns : ntrees) : bool :=
  match ns with TNil => true | TCons n r => nosbad_n n && nosbad_ns r end
with nosbad_n (n : ntree) : bool :=
  match n with NBad => true | NT _ _ _ _ _ attrs => nosbad_as attrs end
with nosbad_as (al : atrees) : bool :=
  match al with TANil => true | TACons a r => nosbad_a a && nosbad_as r end
with nosbad_a (a : atree) : bool :=
  match a with TPlain _ _ sbad => negb sbad | TGraph _ g => nosbad_g g | TGraphs _ gs => nosbad_gs gs end
with nosbad_gs (gs : gtrees) : bool :=
  match gs with TGNil => true | TGCons g r => nosbad_g g && nosbad_gs r end.
Definition nosbad_m (M : mtree) : bool :=
  nosbad_g (mt_graph M)
  && forallb (fun F => match F with FBad => true | FT _ _ _ nodes _ => nosbad_ns nodes end) (mt_funcs M).

(* ---- payload map: the unfolding with leaf normalisation is the raw unfolding with payloads normalised *)
Definition npay (np : list (N * N)) (p : N) : N := if N.eqb p 0 then 0%N else norm_pay np p.
Definition mp_vd (np : list (N * N)) (d : vdesc) : vdesc := mkVD (vd_name d) (vd_named d) (npay np (vd_pay d)) (vd_out d).
Definition mp_id (np : list (N * N)) (i : idesc) : idesc :=
  mkID (id_name i) (id_named i) (id_tensor i) (id_input i) (npay np (id_pay i)).
Fixpoint mp_g (np : list (N * N)) (T : gtree) : gtree :=
  match T with
  | GBad => GBad
  | GT gname gtok ins inits nodes outs =>
    GT gname gtok (map (mp_vd np) ins) (map (mp_id np) inits) (mp_ns np nodes)
       (map (fun o => (fst o, mp_vd np (snd o))) outs)
  end
with mp_ns (np : list (N * N)) (ns : ntrees) : ntrees :=
  match ns with TNil => TNil | TCons n r => TCons (mp_n np n) (mp_ns np r) end
with mp_n (np : list (N * N)) (n : ntree) : ntree :=
  match n with
  | NBad => NBad
  | NT nname op ntok ins outs attrs => NT nname op ntok ins (map (mp_vd np) outs) (mp_as np attrs)
  end
with mp_as (np : list (N * N)) (al : atrees) : atrees :=
  match al with TANil => TANil | TACons a r => TACons (mp_a np a) (mp_as np r) end
with mp_a (np : list (N * N)) (a : atree) : atree :=
  match a with
  | TPlain k tok sbad => TPlain k tok sbad
  | TGraph k g => TGraph k (mp_g np g)
  | TGraphs k gs => TGraphs k (mp_gs np gs)
  end
with mp_gs (np : list (N * N)) (gs : gtrees) : gtrees :=
  match gs with TGNil => TGNil | TGCons g r => TGCons (mp_g np g) (mp_gs np r) end.
Definition mp_f (np : list (N * N)) (F : ftree) : ftree :=
  match F with FBad => FBad | FT fid ftok ins nodes outs => FT fid ftok (map (mp_vd np) ins) (mp_ns np nodes) outs end.
Definition mp_m (np : list (N * N)) (M : mtree) : mtree :=
  MT (mt_tok M) (mp_g np (mt_graph M)) (map (mp_f np) (mt_funcs M)).

(* ---- statements *)
(* the symbolic unfolding IS the unfolding of the deserialized state *)
Definition punfold_real_spec : Prop :=
  forall p h m, deser_model p = Ok (h, m) -> exists M, pu_m p = Some M /\ unfold2_model [] h m = M.
(* the symbolic unfolding is structurally well formed, also after payload normalisation *)
Definition punfold_wfs_spec : Prop :=
  forall np p M, np_ok np = true -> pu_m p = Some M -> wfs_m (mp_m np M) = true.
Definition unfold2_mp_spec : Prop :=
  forall np h m, unfold2_model np h m = mp_m np (unfold2_model [] h m).
Definition ser_nosbad_spec : Prop :=
  forall np h m h1 q, np_ok np = true -> ser_model np h m = Ok (h1, q) -> nosbad_m (unfold2_model np h m) = true.
Definition wf2_glue_spec : Prop :=
  forall M, wfs_m M = true -> leaf_fill_m M = true -> nosbad_m M = true -> wf2_m M = true.

(* per-case evaluation *)
Definition w2_parts (np : list (N * N)) (p : mproto) : list bool :=
  match deser_model p with
  | Raise _ => []
  | Ok (h, m) =>
    match pu_m p with
    | None => [false]
    | Some M =>
      [obs_eqb (obs_mt (unfold2_model np h m)) (obs_mt (mp_m np M));
       wfs_m (mp_m np M);
       leaf_fill_m (mp_m np M);
       match ser_model np h m with Ok _ => nosbad_m (mp_m np M) | Raise _ => true end;
       match ser_model np h m with
       | Ok _ => Bool.eqb (wf2_m (mp_m np M)) (wfs_m (mp_m np M) && leaf_fill_m (mp_m np M) && nosbad_m (mp_m np M))
       | Raise _ => true end]
    end
  end.

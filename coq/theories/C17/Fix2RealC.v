(* C17/Fix2RealC.v — the non-recursive phases of the deserializer, in the form
     "phase = Ok r  ->  the symbolic phase of PUnfold returns Some s  /\  r is described by s":
   inputs, tensors, initializers (last tensor of a name only), _declare_node_outputs, node inputs with
   placeholders, node outputs, graph outputs with fresh values, Node(), Graph(). *)
From Coq Require Import NArith List Bool Arith Lia.
From IRV Require Import Base.Exn C03.Model C03.Canon C03.Inv C03.Tree C03.TreeF C03.IsoDeserA C03.IsoDeserB C03.IsoDeserC
  C03.IsoDeserD
  C17.Basics C17.Specs C17.Steps C17.Phases C17.OpNode C17.OpGraph C17.Deser C17.Top C17.Tree2 C17.PUnfold C17.Fix2Defs
  C17.Fix2RealA C17.Fix2RealB.
Import ListNotations.

Arguments alloc_value : simpl never.
Arguments alloc_tensor : simpl never.
Arguments apply_info : simpl never.
Arguments apply_info_opt : simpl never.
Arguments apply_info_init : simpl never.
Arguments lookup_scopes : simpl never.
Arguments in_table : simpl never.
Arguments lookup : simpl never.
Arguments new_node : simpl never.
Arguments new_graph : simpl never.

(* ------------------------------------------------------------------ frames of the primitive steps *)
Definition bstep (b : nat) (h h' : heap) : Prop :=
  ext h h' /\
  (forall v x, v < b -> getv h v = Some x -> exists x', getv h' v = Some x' /\ vmid x' = vmid x) /\
  (forall n y, getn h n = Some y -> getn h' n = Some y).

Lemma bstep_refl b h : bstep b h h.
Proof. split; [apply ext_refl|]. split; eauto. Qed.
Lemma bstep_trans b h1 h2 h3 : bstep b h1 h2 -> bstep b h2 h3 -> bstep b h1 h3.
Proof.
  intros (A & A' & A'') (B & B' & B''). split; [eapply ext_trans; eauto|]. split; auto.
  intros v x Hv H. destruct (A' _ _ Hv H) as (x' & H' & E). destruct (B' _ _ Hv H') as (x'' & H'' & E').
  exists x''. split; auto. congruence.
Qed.
Lemma vstep_bstep b h h' : vstep h h' -> bstep b h h'.
Proof. intros (A & B & C). split; auto. Qed.
Lemma bstep_vstep h h' : bstep (nv h) h h' -> vstep h h'.
Proof. intros (A & B & C). split; auto. split; auto. intros v x Hx. apply B; auto. eapply getv_lt; eauto. Qed.
Lemma bstep_ext b h h' : bstep b h h' -> ext h h'.
Proof. intros (A & _); auto. Qed.

(* heaps that agree on nodes / graphs / tensors and on the old values *)
Lemma ext_same_old h h' : hn h' = hn h -> hg h' = hg h -> (forall t c, gett h t = Some c -> gett h' t = Some c) ->
  nv h <= nv h' -> (forall v x, getv h v = Some x -> exists x', getv h' v = Some x' /\ v_name x' = v_name x) -> ext h h'.
Proof.
  intros Hn Hg Ht Hv Hx. unfold ext, nn, ngr, getn, getg. rewrite Hn, Hg. csplit; auto. intros n y Hy. eauto.
Qed.
Lemma vstep_same_old h h' : hn h' = hn h -> hg h' = hg h -> (forall t c, gett h t = Some c -> gett h' t = Some c) ->
  nv h <= nv h' -> (forall u, u < nv h -> getv h' u = getv h u) -> vstep h h'.
Proof.
  intros Hn Hg Ht Hv Hx.
  assert (G : forall v x, getv h v = Some x -> getv h' v = Some x).
  { intros v x H. rewrite Hx; auto. eapply getv_lt; eauto. }
  split; [|split].
  - apply ext_same_old; auto. intros v x H. exists x. auto.
  - intros v x H. exists x. auto.
  - intros n y Hy. unfold getn in *. rewrite Hn. auto.
Qed.
Lemma gett_same h h' : ht h' = ht h -> forall t c, gett h t = Some c -> gett h' t = Some c.
Proof. intros E t c H. unfold gett in *. rewrite E. auto. Qed.

Lemma alloc_vstep h nm c p h' v : alloc_value h nm c p = (h', v) -> vstep h h'.
Proof.
  intros Ha. destruct (alloc_spec _ _ _ _ _ _ Ha) as (Hv & Hnv & Hn & Hg & Ht & Hnew & Hold).
  apply vstep_same_old; auto; [apply gett_same; auto | lia].
Qed.
(* updating a value the old heap does not have *)
Lemma vstep_updv_new h h0 v f : vstep h h0 -> nv h <= v -> vstep h (updv h0 v f).
Proof.
  intros (E & V & Nd) Hv.
  assert (G : forall u x, getv h u = Some x -> getv (updv h0 v f) u = getv h0 u).
  { intros u x Hu. apply updv_getv_neq. apply getv_lt in Hu. lia. }
  destruct E as (E1 & E2 & E3 & E4 & E5 & E6 & E7).
  split; [|split].
  - unfold ext. rewrite updv_nv. csplit; auto.
    intros u x Hu. rewrite (G _ _ Hu). auto.
  - intros u x Hu. rewrite (G _ _ Hu). auto.
  - exact Nd.
Qed.
(* updating a value of the scope being built *)
Lemma bstep_updv b h v f : b <= v -> (forall x, v_name (f x) = v_name x) -> bstep b h (updv h v f).
Proof.
  intros Hb Hf. split; [|split].
  - unfold ext. rewrite updv_nv. csplit; auto.
    + intros u x Hu. rewrite updv_getv. destruct (Nat.eqb v u); [|eauto]. rewrite Hu. simpl. eauto.
    + intros n y Hy. exists y. auto.
  - intros u x Hu Hx. rewrite updv_getv_neq by lia. eauto.
  - intros n y Hy. exact Hy.
Qed.

(* ------------------------------------------------------------------ the table of the scope being built *)
Definition tent2 (b : nat) (h : heap) (k : N) (v : nat) : Prop :=
  b <= v /\ exists x, getv h v = Some x /\ v_name x = Some k /\ v_out x = false.
Definition TBL (b : nat) (h : heap) (t : table) : Prop :=
  NoDup (ids t) /\ forall k v, In (k, v) t -> tent2 b h k v.
(* creation payloads, by level position *)
Definition vrec (h : heap) (kv : N * nat) (kp : N * N) : Prop :=
  fst kv = fst kp /\ exists x, getv h (snd kv) = Some x /\ v_info x = snd kp.
Definition TD (h : heap) (t : table) (defs : list (N * N)) : Prop := Forall2 (vrec h) (rev t) defs.

Lemma TBL_nil b h : TBL b h [].
Proof. split; [constructor | intros k v []]. Qed.
Lemma TBL_lt b h t k v : TBL b h t -> In (k, v) t -> b <= v < nv h.
Proof. intros (_ & H) Hin. destruct (H _ _ Hin) as (Hb & x & Hx & _). split; auto. eapply getv_lt; eauto. Qed.
Lemma TBL_name b h t k v : TBL b h t -> In (k, v) t -> exists x, getv h v = Some x /\ v_name x = Some k.
Proof. intros (_ & H) Hin. destruct (H _ _ Hin) as (Hb & x & Hx & Hn & _). eauto. Qed.
Lemma TBL_inj b h t k k' v : TBL b h t -> In (k, v) t -> In (k', v) t -> k = k'.
Proof.
  intros H H1 H2. destruct (TBL_name _ _ _ _ _ H H1) as (x & Hx & Hn). destruct (TBL_name _ _ _ _ _ H H2) as (x' & Hx' & Hn').
  congruence.
Qed.
Lemma TBL_ids_lt b h t v : TBL b h t -> In v (ids t) -> b <= v < nv h.
Proof. intros H Hv. apply In_ids in Hv. destruct Hv as (k & Hk). eapply TBL_lt; eauto. Qed.
Lemma TBL_vstep b h h' t : TBL b h t -> vstep h h' -> TBL b h' t.
Proof.
  intros (Hnd & H) (_ & V & _). split; auto. intros k v Hin. destruct (H _ _ Hin) as (Hb & x & Hx & Hn & Ho).
  destruct (V _ _ Hx) as (x' & Hx' & E). apply vmid_inv in E. destruct E as (E1 & E2 & E3 & E4 & E5 & E6 & E7).
  split; auto. exists x'. csplit; auto; congruence.
Qed.
Lemma TBL_cons b h t k v x : TBL b h t -> b <= v ->
  (forall u, In u (ids t) -> u <> v) -> getv h v = Some x -> v_name x = Some k -> v_out x = false -> TBL b h ((k, v) :: t).
Proof.
  intros (Hnd & H) Hb Hne Hx Hn Ho. split.
  - rewrite ids_cons. apply NoDup_app_intro; auto.
    + constructor; [intros []|constructor].
    + intros u Hu [E|[]]. subst. eapply Hne; eauto.
  - intros k' v' [E|Hin]; [inversion E; subst; split; eauto | auto].
Qed.
(* the new value is the one just allocated *)
Lemma TBL_cons_new b h h' t k v x : TBL b h t -> vstep h h' -> v = nv h -> b <= v ->
  getv h' v = Some x -> v_name x = Some k -> v_out x = false -> TBL b h' ((k, v) :: t).
Proof.
  intros HT S Hv Hb Hx Hn Ho. eapply TBL_cons; eauto using TBL_vstep.
  intros u Hu. pose proof (TBL_ids_lt _ _ _ _ HT Hu). lia.
Qed.

Lemma vrec_fst h l defs : Forall2 (vrec h) l defs -> map fst l = map fst defs.
Proof. induction 1 as [|a b l l' (E & _) F IH]; simpl; congruence. Qed.
Lemma TD_nms h t defs : TD h t defs -> nms t = map fst defs.
Proof. unfold TD, nms. apply vrec_fst. Qed.
Lemma TD_vstep h h' t defs : TD h t defs -> vstep h h' -> TD h' t defs.
Proof.
  intros H (_ & V & _). eapply Forall2_imp; [|exact H]. intros kv kp (E & x & Hx & Hi).
  destruct (V _ _ Hx) as (x' & Hx' & Em). apply vmid_inv in Em. destruct Em as (E1 & E2 & E3 & E4 & E5 & E6 & E7).
  split; auto. exists x'. split; auto. congruence.
Qed.
Lemma TD_cons h t defs k v x p : TD h t defs -> getv h v = Some x -> v_info x = p -> TD h ((k, v) :: t) (defs ++ [(k, p)]).
Proof.
  intros H Hx Hp. unfold TD. simpl. apply Forall2_app_l; auto. constructor; [|constructor].
  split; auto. exists x. auto.
Qed.
Lemma TD_nth h t defs j v : TD h t defs -> nth_error (ids t) j = Some v ->
  exists k p x, nth_error defs j = Some (k, p) /\ nth_error (nms t) j = Some k /\ getv h v = Some x /\ v_info x = p.
Proof.
  intros H Hv. unfold ids in Hv. rewrite nth_error_map in Hv. destruct (nth_error (rev t) j) as [[k v']|] eqn:E; [|discriminate].
  simpl in Hv. inversion Hv; subst v'. destruct (Forall2_nth _ _ _ H _ _ E) as ([k' p] & Hd & Ek & x & Hx & Hi). simpl in *. subst k'.
  exists k, p, x. csplit; auto. unfold nms. rewrite nth_error_map, E. auto.
Qed.

(* enclosing scopes: values exist, carry their key as name, are older than b *)
Definition SCB (b : nat) (h : heap) (sc : list table) : Prop :=
  chain_ok2 sc /\ SC h sc /\ forall t k v, In t sc -> In (k, v) t -> v < b.

Lemma chain_ok2_cons b h cur sc : TBL b h cur -> SCB b h sc -> chain_ok2 (cur :: sc).
Proof.
  intros HT (Hc & _ & Hb). cbn [chain_ok2]. csplit; auto. apply HT.
  intros k v Hin t' k' Ht' Hin'. specialize (Hb _ _ _ Ht' Hin'). destruct (TBL_lt _ _ _ _ _ HT Hin). lia.
Qed.
Lemma SC_cons b h cur sc : TBL b h cur -> SC h sc -> SC h (cur :: sc).
Proof. intros HT HS t k v [<-|Ht] Hin; [eapply TBL_name; eauto | eauto]. Qed.
Lemma SCB_nested b h cur sc : TBL b h cur -> SCB b h sc -> SCB (nv h) h (cur :: sc).
Proof.
  intros HT HS. pose proof HS as (Hc & Hs & Hb). split; [eapply chain_ok2_cons; eauto|]. split; [eapply SC_cons; eauto|].
  intros t k v [<-|Ht] Hin.
  - destruct (TBL_lt _ _ _ _ _ HT Hin). lia.
  - destruct (Hs _ _ _ Ht Hin) as (x & Hx & _). eapply getv_lt; eauto.
Qed.
Lemma SCB_ext b h h' sc : SCB b h sc -> ext h h' -> SCB b h' sc.
Proof. intros (A & B & C) E. split; auto. split; auto. eapply SC_ext; eauto. Qed.

(* ------------------------------------------------------------------ P1: inputs *)
Lemma apply_infos_nobad : forall vis vs h h', length vs = length vis -> apply_infos h vis vs = Ok h' -> existsb vi_bad vis = false.
Proof.
  induction vis as [|i r IH]; intros [|v vs] h h' Hl H; simpl in *; try discriminate; auto.
  destruct (apply_info h i v) as [h1|e] eqn:E; [|discriminate]. unfold apply_info in E.
  destruct (vi_bad i); [discriminate|]. simpl. eapply IH; eauto.
Qed.
Lemma table_of_rev : forall vis vs t, length vs = length vis -> rev (table_of t vis vs) = rev t ++ combine (map vi_name vis) vs.
Proof.
  induction vis as [|i r IH]; intros [|v vs] t Hl; simpl in *; try discriminate.
  - rewrite app_nil_r; auto.
  - rewrite IH by lia. simpl. rewrite <- app_assoc. auto.
Qed.
Lemma map_snd_comb {A B} (l1 : list A) (l2 : list B) : length l1 = length l2 -> map snd (combine l1 l2) = l2.
Proof. revert l2; induction l1 as [|a l1 IH]; intros [|b l2] H; simpl in *; try discriminate; auto. f_equal; auto. Qed.
Lemma map_fst_comb {A B} (l1 : list A) (l2 : list B) : length l1 = length l2 -> map fst (combine l1 l2) = l1.
Proof. revert l2; induction l1 as [|a l1 IH]; intros [|b l2] H; simpl in *; try discriminate; auto. f_equal; auto. Qed.
Lemma Forall2_combine_map {A B C D} (f : A -> C) (g : A -> D) (P : A -> B -> Prop) (Q : C * B -> D -> Prop) l1 l2 :
  Forall2 P l1 l2 -> (forall a b, P a b -> Q (f a, b) (g a)) -> Forall2 Q (combine (map f l1) l2) (map g l1).
Proof. intros F H. induction F; simpl; constructor; auto. Qed.

Lemma phase_inputs b h ins h1 invs h2 : b = nv h ->
  alloc_inputs h ins = (h1, invs) -> apply_infos h1 ins invs = Ok h2 ->
  existsb vi_bad ins = false /\ invs = seq (nv h) (length ins) /\ nv h2 = nv h + length ins /\
  hn h2 = hn h /\ hg h2 = hg h /\ ht h2 = ht h /\ (forall u, u < nv h -> getv h2 u = getv h u) /\
  TBL b h2 (table_of [] ins invs) /\ TD h2 (table_of [] ins invs) (map (fun i => (vi_name i, vi_pay i)) ins) /\
  ids (table_of [] ins invs) = invs /\ vstep h h2.
Proof.
  intros Hb E1 E2. destruct (alloc_inputs_spec _ _ _ _ E1) as (A1 & A2 & A3 & A4 & A5 & A6 & A7).
  assert (Hlen : length invs = length ins) by (rewrite A7; apply seq_length).
  assert (Hnd : NoDup invs) by (rewrite A7; apply seq_NoDup).
  assert (Hlt : forall v, In v invs -> nv h <= v < nv h1).
  { intros v Hin. rewrite A7 in Hin. apply in_seq in Hin. lia. }
  pose proof (apply_infos_nobad _ _ _ _ Hlen E2) as Hbad.
  destruct (apply_infos_spec ins invs h1) as (h2' & E2' & B1 & B2 & B3 & B4 & B5 & B6); auto.
  { intros v Hin. apply Hlt in Hin. lia. }
  { intros i Hi. destruct (vi_bad i) eqn:Eb; auto. rewrite <- Hbad. symmetry. apply existsb_exists. eauto. }
  rewrite E2 in E2'. inversion E2'; subst h2'; clear E2'.
  assert (Old : forall u, u < nv h -> getv h2 u = getv h u).
  { intros u Hu. rewrite B5, A5; auto. intros Hin. apply Hlt in Hin. lia. }
  assert (FV : Forall2 (fun i v => getv h2 v = Some (fresh_value (Some (vi_name i)) None (vi_pay i))) ins invs).
  { eapply Forall2_imp; [|exact (Forall2_conj _ _ _ _ A6 B6)]. intros i v (G1 & G2). simpl in G2. rewrite G1 in G2. exact G2. }
  assert (Hrev : rev (table_of [] ins invs) = combine (map vi_name ins) invs) by (rewrite table_of_rev; auto).
  assert (Hids : ids (table_of [] ins invs) = invs).
  { unfold ids. rewrite Hrev. apply map_snd_comb. rewrite map_length; auto. }
  assert (HT : TBL b h2 (table_of [] ins invs)).
  { split; [rewrite Hids; auto|]. intros k v Hin. apply in_rev in Hin. rewrite Hrev in Hin.
    destruct (Forall2_combine_inv vi_name _ _ _ _ _ FV Hin) as (i & Hi & -> & G).
    assert (Hvin : In v invs) by (eapply in_combine_r; eauto). apply Hlt in Hvin.
    split; [lia|]. eexists. split; [exact G|]. simpl. auto. }
  assert (HD : TD h2 (table_of [] ins invs) (map (fun i => (vi_name i, vi_pay i)) ins)).
  { unfold TD. rewrite Hrev. eapply Forall2_combine_map; [exact FV|]. intros i v G. split; auto.
    eexists. split; [exact G|]. reflexivity. }
  assert (HS : vstep h h2).
  { apply vstep_same_old; auto; try congruence; [apply gett_same; congruence | lia]. }
  csplit; auto; try congruence; try lia.
Qed.

(* ------------------------------------------------------------------ P2: tensors *)
Lemma alloc_tensors_nobad : forall ts h h' cs, alloc_tensors h ts = Ok (h', cs) -> existsb tp_bad_ctor ts = false.
Proof.
  induction ts as [|t r IH]; cbn; intros h h' cs H; auto.
  destruct (tp_bad_ctor t); [discriminate|].
  destruct (alloc_tensor h (Some (tp_name t)) (tp_tok t) (tp_pay t) (tp_bad_info t) (tp_fill t)) as [h1 c] eqn:Ea.
  destruct (alloc_tensors h1 r) as [[h2 cs']|e] eqn:Er; [|discriminate]. simpl. eapply IH; eauto.
Qed.
Lemma phase_tensors h ts h' cs : alloc_tensors h ts = Ok (h', cs) ->
  existsb tp_bad_ctor ts = false /\ hv h' = hv h /\ hn h' = hn h /\ hg h' = hg h /\
  (forall c t, gett h c = Some t -> gett h' c = Some t) /\
  Forall2 (fun t c => gett h' c = Some (mkT (Some (tp_name t)) (tp_tok t) (tp_pay t) (tp_bad_info t) (tp_fill t))) ts cs.
Proof.
  intros E. pose proof (alloc_tensors_nobad _ _ _ _ E) as Hbad.
  destruct (alloc_tensors_spec ts h) as (h2 & cs2 & E2 & A1 & A2 & A3 & A4 & A5 & A6).
  { intros t Ht. destruct (tp_bad_ctor t) eqn:Eb; auto. rewrite <- Hbad. symmetry. apply existsb_exists. eauto. }
  rewrite E in E2. inversion E2; subst. csplit; auto.
Qed.

(* ------------------------------------------------------------------ fresh values with their creation payload *)
Lemma alloc_opt_spec h k vis h0 v h2 :
  alloc_value h (Some k) None 0%N = (h0, v) -> apply_info_opt h0 k vis v = Ok h2 ->
  exists p, vis_pay vis k = Some p /\ v = nv h /\ nv h2 = S (nv h) /\ hn h2 = hn h /\ hg h2 = hg h /\ ht h2 = ht h /\
    getv h2 v = Some (fresh_value (Some k) None p) /\ (forall u, u < nv h -> getv h2 u = getv h u) /\ vstep h h2.
Proof.
  intros Ea Ei. destruct (alloc_spec _ _ _ _ _ _ Ea) as (Hv & Hnv & Hn & Hg & Ht & Hnew & Hold).
  pose proof (alloc_vstep _ _ _ _ _ _ Ea) as S0.
  unfold apply_info_opt in Ei. unfold vis_pay. destruct (vi_lookup k vis) as [i|].
  - unfold apply_info in Ei. destruct (vi_bad i); [discriminate|]. inversion Ei; subst h2; clear Ei.
    exists (vi_pay i). csplit; auto.
    + rewrite updv_nv. auto.
    + rewrite (updv_getv_eq _ _ _ _ Hnew). reflexivity.
    + intros u Hu. rewrite updv_getv_neq by lia. auto.
    + apply vstep_updv_new; auto. lia.
  - inversion Ei; subst h2. exists 0%N. csplit; auto.
Qed.
Lemma alloc_init_spec h c t vis h0 v h2 :
  alloc_value h (Some (tp_name t)) (Some c) (tp_pay t) = (h0, v) -> apply_info_init h0 t vis v = Ok h2 ->
  exists p, init_pay vis t = Some p /\ v = nv h /\ nv h2 = S (nv h) /\ hn h2 = hn h /\ hg h2 = hg h /\ ht h2 = ht h /\
    getv h2 v = Some (fresh_value (Some (tp_name t)) (Some c) p) /\ (forall u, u < nv h -> getv h2 u = getv h u) /\ vstep h h2.
Proof.
  intros Ea Ei. destruct (alloc_spec _ _ _ _ _ _ Ea) as (Hv & Hnv & Hn & Hg & Ht & Hnew & Hold).
  pose proof (alloc_vstep _ _ _ _ _ _ Ea) as S0.
  unfold apply_info_init in Ei. unfold init_pay. destruct (vi_lookup (tp_name t) vis) as [i|].
  - destruct (vi_bad i); [discriminate|]. inversion Ei; subst h2; clear Ei.
    exists (fill_pay t (vi_pay i)). csplit; auto.
    + rewrite updv_nv. auto.
    + rewrite (updv_getv_eq _ _ _ _ Hnew). reflexivity.
    + intros u Hu. rewrite updv_getv_neq by lia. auto.
    + apply vstep_updv_new; auto. lia.
  - inversion Ei; subst h2. exists (tp_pay t). csplit; auto.
Qed.

Lemma TBL_updv b h t v f : (forall x, v_name (f x) = v_name x /\ v_out (f x) = v_out x) -> TBL b h t -> TBL b (updv h v f) t.
Proof.
  intros Hf (Hnd & H). split; auto. intros k u Hin. destruct (H _ _ Hin) as (Hb & x & Hx & Hn & Ho). split; auto.
  rewrite updv_getv. destruct (Nat.eqb v u); [|eauto]. rewrite Hx. simpl. destruct (Hf x) as (F1 & F2).
  eexists. split; [reflexivity|]. split; congruence.
Qed.
Lemma TD_updv h t defs v f : (forall x, v_info (f x) = v_info x) -> TD h t defs -> TD (updv h v f) t defs.
Proof.
  intros Hf H. eapply Forall2_imp; [|exact H]. intros kv kp (E & x & Hx & Hi). split; auto.
  rewrite updv_getv. destruct (Nat.eqb v (snd kv)); [|eauto]. rewrite Hx. simpl. eexists. split; [reflexivity|].
  rewrite Hf. auto.
Qed.
Lemma TD_same h h' t defs : TD h t defs -> (forall u, u < nv h -> getv h' u = getv h u) -> TD h' t defs.
Proof.
  intros H Hs. eapply Forall2_imp; [|exact H]. intros kv kp (E & x & Hx & Hi). split; auto. exists x. split; auto.
  rewrite Hs; auto. eapply getv_lt; eauto.
Qed.

(* ------------------------------------------------------------------ P3: initializers *)
Definition idefs (recs : list irec) : list (N * N) :=
  map (fun r => (ir_name r, ir_pay r)) (filter (fun r => negb (ir_input r)) recs).
Definition RI (inn : list N) (h : heap) (tbl : table) (r : irec) : Prop :=
  ir_input r = memN (ir_name r) inn /\
  exists v x c t, lookup (ir_name r) tbl = Some v /\ getv h v = Some x /\ v_const x = Some c /\ gett h c = Some t /\
                  ir_t r = mkTD (t_tok t) (t_pay t) (t_bad_info t) (t_fill t).
Lemma idefs_app a b : idefs (a ++ b) = idefs a ++ idefs b.
Proof. unfold idefs. rewrite filter_app, map_app. auto. Qed.
Lemma idefs_names recs k : In k (map fst (idefs recs)) -> In k (map ir_name recs).
Proof.
  unfold idefs. rewrite map_map. simpl. intros H. apply in_map_iff in H. destruct H as (r & <- & Hr).
  apply filter_In in Hr. apply in_map. tauto.
Qed.

Lemma deser_inits_pu b vis indefs : forall ts cs h tbl recs h' tbl' vs,
  deser_inits h tbl vis ts cs = Ok (h', tbl', vs) ->
  Forall2 (fun t c => gett h c = Some (mkT (Some (tp_name t)) (tp_tok t) (tp_pay t) (tp_bad_info t) (tp_fill t))) ts cs ->
  TBL b h tbl -> b <= nv h -> TD h tbl (indefs ++ idefs recs) ->
  (forall r, In r recs -> RI (map fst indefs) h tbl r) ->
  (forall r, In r recs -> ~ In (ir_name r) (map tp_name ts)) ->
  exists recs' added,
    pu_inits vis (map fst indefs) (map fst (idefs recs)) recs ts = Some (map fst (idefs recs'), recs') /\
    TBL b h' tbl' /\ TD h' tbl' (indefs ++ idefs recs') /\ (forall r, In r recs' -> RI (map fst indefs) h' tbl' r) /\
    map ir_name recs' = map ir_name recs ++ pnames ts /\
    vs = map (look tbl') (pnames ts) /\
    map fst (idefs recs') = map fst (idefs recs) ++ added /\
    rev tbl' = rev tbl ++ map (fun k => (k, look tbl' k)) added /\
    grows (nv h) tbl tbl' /\ bstep b h h' /\ hn h' = hn h /\ hg h' = hg h /\ ht h' = ht h /\ nv h <= nv h'.
Proof.
  induction ts as [|t r IH]; intros cs h tbl recs h' tbl' vs H FT HT Hb HD HR Hdis.
  - cbn in H. inversion H; subst. exists recs, []. cbn. rewrite !app_nil_r. csplit; auto using grows_refl, bstep_refl.
  - inversion FT as [|t0 c r0 cr Hc FT' E1 E2]; subst. cbn in H. cbn [pu_inits pnames]. cbv zeta.
    assert (Hdis' : forall r', In r' recs -> ~ In (ir_name r') (map tp_name r)).
    { intros r' Hr' Hc'. apply (Hdis r' Hr'). right; auto. }
    destruct (N.eqb_spec (tp_name t) 0) as [Hz|Hz]; [eapply IH; eauto|].
    destruct (existsb (fun t' => N.eqb (tp_name t') (tp_name t)) r) eqn:Edup; [eapply IH; eauto|].
    set (k := tp_name t) in *.
    assert (Hkr : ~ In k (map ir_name recs)).
    { intros Hc'. apply in_map_iff in Hc'. destruct Hc' as (r' & Er' & Hr'). apply (Hdis r' Hr'). left. auto. }
    assert (Hkn : ~ In k (map fst (idefs recs))) by (intros Hc'; apply Hkr; apply idefs_names; auto).
    assert (Hkrest : ~ In k (map tp_name r)).
    { intros Hc'. apply existsb_name_In in Hc'. congruence. }
    pose proof (TD_nms _ _ _ HD) as Hnms. rewrite map_app in Hnms.
    rewrite (irec_update_none k (tdesc_of t) recs Hkr).
    destruct (lookup k tbl) as [v|] eqn:El.
    + (* the name of an input *)
      destruct (deser_inits (updv h v (with_const (Some c))) tbl vis r cr) as [[[h2 t2] vs']|e] eqn:Er; [|discriminate].
      inversion H; subst h2 t2 vs; clear H.
      assert (Hin : In k (map fst indefs)).
      { assert (Hk : In k (nms tbl)) by (apply lookup_some_nms; congruence).
        rewrite Hnms in Hk. apply in_app_or in Hk. destruct Hk; [auto|contradiction]. }
      assert (Hm : memN k (map fst indefs) || memN k (map fst (idefs recs)) = true).
      { apply orb_true_iff. left. apply memN_In; auto. }
      rewrite Hm.
      set (h1 := updv h v (with_const (Some c))) in *.
      set (rc := mkIR k (tdesc_of t) true 0%N).
      assert (Eid : idefs (recs ++ [rc]) = idefs recs) by (rewrite idefs_app; cbn; apply app_nil_r).
      pose proof (lookup_In _ _ _ El) as Hkv.
      destruct (TBL_name _ _ _ _ _ HT Hkv) as (x & Hx & Hxn).
      destruct (IH cr h1 tbl (recs ++ [rc]) h' tbl' vs' Er) as (recs' & added & P1 & P2 & P3 & P4 & P5 & P6 & P7 & P8 & P9 & P10 & P11 & P12 & P13 & P14).
      { eapply Forall2_imp; [|exact FT']. intros t' c' G. exact G. }
      { apply TBL_updv; auto. }
      { unfold h1. rewrite updv_nv. auto. }
      { rewrite Eid. apply TD_updv; auto. }
      { intros r' Hr'. apply in_app_or in Hr'. destruct Hr' as [Hr'|[<-|[]]].
        - destruct (HR r' Hr') as (A & v' & x' & c' & t' & B1 & B2 & B3 & B4 & B5). split; auto.
          exists v', x', c', t'. csplit; auto. unfold h1. rewrite updv_getv_neq; auto. intros ->.
          apply Hkr. apply lookup_In in B1. rewrite (TBL_inj _ _ _ _ _ _ HT Hkv B1). apply in_map; auto.
        - split; [cbn; symmetry; apply memN_In; auto|].
          exists v, (with_const (Some c) x), c, (mkT (Some (tp_name t)) (tp_tok t) (tp_pay t) (tp_bad_info t) (tp_fill t)).
          cbn. csplit; auto. unfold h1. apply updv_getv_eq; auto. }
      { intros r' Hr'. apply in_app_or in Hr'. destruct Hr' as [Hr'|[<-|[]]]; auto. }
      rewrite Eid in *. exists recs', added. unfold h1 in *. rewrite updv_nv in *. csplit; auto.
      * rewrite P5, map_app, <- app_assoc. reflexivity.
      * cbn [map]. f_equal; [|exact P6]. unfold look. rewrite (grows_lookup _ _ _ _ _ P9 El). auto.
      * eapply bstep_trans; [|exact P10]. apply bstep_updv; [destruct (TBL_lt _ _ _ _ _ HT Hkv); auto | intros; reflexivity].
    + (* a new value *)
      assert (Hnk : ~ In k (nms tbl)) by (apply lookup_none_nms; auto).
      assert (Hm : memN k (map fst indefs) || memN k (map fst (idefs recs)) = false).
      { apply orb_false_iff. rewrite Hnms in Hnk. split; apply memN_notIn; intros Hc'; apply Hnk; apply in_or_app; auto. }
      rewrite Hm. destruct (tp_bad_info t) eqn:Ebi; [discriminate|].
      destruct (alloc_value h (Some k) (Some c) (tp_pay t)) as [h0 v] eqn:Ea.
      destruct (apply_info_init h0 t vis v) as [h2|e] eqn:Ei; [|discriminate].
      destruct (deser_inits h2 ((k, v) :: tbl) vis r cr) as [[[h3 t3] vs']|e] eqn:Er; [|discriminate].
      inversion H; subst h3 t3 vs; clear H.
      destruct (alloc_init_spec _ _ _ _ _ _ _ Ea Ei) as (p & Ep & Hv & Hnv & Hn2 & Hg2 & Ht2 & Hnew & Hold & S02).
      rewrite Ep. cbn [obind].
      set (rc := mkIR k (tdesc_of t) false p).
      assert (Eid : idefs (recs ++ [rc]) = idefs recs ++ [(k, p)]) by (rewrite idefs_app; reflexivity).
      assert (Enm : map fst (idefs (recs ++ [rc])) = map fst (idefs recs) ++ [k]) by (rewrite Eid, map_app; reflexivity).
      destruct (IH cr h2 ((k, v) :: tbl) (recs ++ [rc]) h' tbl' vs' Er) as (recs' & added & P1 & P2 & P3 & P4 & P5 & P6 & P7 & P8 & P9 & P10 & P11 & P12 & P13 & P14).
      { eapply Forall2_imp; [|exact FT']. intros t' c' G. eapply (gett_same h h2); eauto. }
      { eapply (TBL_cons_new b h h2 tbl k v _ HT S02 Hv); [lia | exact Hnew | reflexivity | reflexivity]. }
      { lia. }
      { rewrite Eid, app_assoc. eapply TD_cons; eauto. eapply TD_vstep; eauto. }
      { intros r' Hr'. apply in_app_or in Hr'. destruct Hr' as [Hr'|[<-|[]]].
        - destruct (HR r' Hr') as (A & v' & x' & c' & t' & B1 & B2 & B3 & B4 & B5). split; auto.
          exists v', x', c', t'. csplit; auto.
          + rewrite lookup_cons. destruct (N.eqb_spec (ir_name r') k) as [E|_]; auto.
            exfalso. apply Hkr. rewrite <- E. apply in_map; auto.
          + rewrite Hold; auto. eapply getv_lt; eauto.
          + eapply (gett_same h h2); eauto.
        - split; [cbn; symmetry; apply memN_notIn; intros Hc'; apply Hnk; rewrite Hnms; apply in_or_app; auto|].
          exists v, (fresh_value (Some k) (Some c) p), c, (mkT (Some (tp_name t)) (tp_tok t) (tp_pay t) (tp_bad_info t) (tp_fill t)).
          cbn. csplit; auto.
          + rewrite lookup_cons, N.eqb_refl. auto.
          + eapply (gett_same h h2); [exact Ht2 | rewrite Ebi; exact Hc]. }
      { intros r' Hr'. apply in_app_or in Hr'. destruct Hr' as [Hr'|[<-|[]]]; auto. }
      rewrite Enm in P1. exists recs', (k :: added).
      assert (Elk : lookup k tbl' = Some v).
      { eapply grows_lookup; eauto. rewrite lookup_cons, N.eqb_refl. auto. }
      csplit; auto.
      * rewrite P5, map_app, <- app_assoc. reflexivity.
      * cbn [map]. f_equal; [|exact P6]. unfold look. rewrite Elk. auto.
      * rewrite P7, Enm, <- app_assoc. reflexivity.
      * rewrite P8. cbn [rev map]. rewrite <- app_assoc. cbn [app]. unfold look at 2. rewrite Elk. reflexivity.
      * eapply grows_trans; [apply grows_cons; [|exact El]| exact P9 |]; lia.
      * eapply bstep_trans; [apply vstep_bstep; exact S02 | exact P10].
      * congruence.
      * congruence.
      * congruence.
      * lia.
Qed.

(* ------------------------------------------------------------------ P4: _declare_node_outputs *)
Lemma declare_outs_pu b vis pre : forall outs h tbl acc h' tbl',
  declare_outs h tbl vis outs = Ok (h', tbl') -> TBL b h tbl -> b <= nv h -> TD h tbl (pre ++ acc) ->
  exists acc', pu_declare_outs vis (map fst pre) acc outs = Some acc' /\ TBL b h' tbl' /\ TD h' tbl' (pre ++ acc') /\
    map fst acc' = map fst acc ++ nz outs /\
    rev tbl' = rev tbl ++ map (fun k => (k, look tbl' k)) (nz outs) /\
    NoDup (nz outs) /\ (forall k, In k (nz outs) -> ~ In k (nms tbl)) /\
    grows (nv h) tbl tbl' /\ (forall u, u < nv h -> getv h' u = getv h u) /\ vstep h h' /\
    hn h' = hn h /\ hg h' = hg h /\ ht h' = ht h /\ nv h <= nv h'.
Proof.
  induction outs as [|k r IH]; intros h tbl acc h' tbl' H HT Hb HD; cbn in H; cbn [pu_declare_outs].
  - inversion H; subst. exists acc. cbn. rewrite !app_nil_r. csplit; auto using grows_refl, vstep_refl; try constructor; try (intros k []).
  - rewrite nz_cons. destruct (N.eqb_spec k 0) as [Hz|Hz]; [eapply IH; eauto|].
    destruct (in_table k tbl) eqn:Et; [discriminate|]. apply in_table_false in Et.
    pose proof (TD_nms _ _ _ HD) as Hnms. rewrite map_app in Hnms.
    assert (Hm : memN k (map fst pre) || memN k (map fst acc) = false).
    { apply orb_false_iff. rewrite Hnms in Et. split; apply memN_notIn; intros Hc; apply Et; apply in_or_app; auto. }
    rewrite Hm.
    destruct (alloc_value h (Some k) None 0%N) as [h0 v] eqn:Ea.
    destruct (apply_info_opt h0 k vis v) as [h2|e] eqn:Ei; [|discriminate].
    destruct (alloc_opt_spec _ _ _ _ _ _ Ea Ei) as (p & Ep & Hv & Hnv & Hn2 & Hg2 & Ht2 & Hnew & Hold & S02).
    rewrite Ep. cbn [obind].
    destruct (IH h2 ((k, v) :: tbl) (acc ++ [(k, p)]) h' tbl' H) as (acc' & P1 & P2 & P3 & P4 & P5 & P6 & P7 & P8 & P9 & P10 & P11 & P12 & P13 & P14).
    { eapply (TBL_cons_new b h h2 tbl k v _ HT S02 Hv); [lia | exact Hnew | reflexivity | reflexivity]. }
    { lia. }
    { rewrite app_assoc. eapply TD_cons; eauto. eapply TD_vstep; eauto. }
    assert (Elk : lookup k tbl' = Some v).
    { eapply grows_lookup; eauto. rewrite lookup_cons, N.eqb_refl. auto. }
    exists acc'. csplit; auto.
    + rewrite P4, map_app, <- app_assoc. reflexivity.
    + rewrite P5. cbn [rev map]. rewrite <- app_assoc. cbn [app]. unfold look at 2. rewrite Elk. reflexivity.
    + constructor; auto. intros Hc. apply (P7 _ Hc). rewrite nms_cons. apply in_or_app. right. left. auto.
    + intros k' [<-|Hk'] Hc; auto. apply (P7 _ Hk'). rewrite nms_cons. apply in_or_app. auto.
    + eapply grows_trans; [apply grows_cons; [|apply lookup_none_nms; exact Et]| exact P8 |]; lia.
    + intros u Hu. rewrite P9 by lia. auto.
    + eapply vstep_trans; eauto.
    + congruence.
    + congruence.
    + congruence.
    + lia.
Qed.

Lemma declare_nodes_pu b vis pre : forall ns h tbl acc h' tbl',
  declare_nodes h tbl vis ns = Ok (h', tbl') -> TBL b h tbl -> b <= nv h -> TD h tbl (pre ++ acc) ->
  exists acc', pu_declare vis (map fst pre) acc ns = Some acc' /\ TBL b h' tbl' /\ TD h' tbl' (pre ++ acc') /\
    map fst acc' = map fst acc ++ out_names ns /\
    rev tbl' = rev tbl ++ map (fun k => (k, look tbl' k)) (out_names ns) /\
    NoDup (out_names ns) /\ (forall k, In k (out_names ns) -> ~ In k (nms tbl)) /\
    grows (nv h) tbl tbl' /\ (forall u, u < nv h -> getv h' u = getv h u) /\ vstep h h' /\
    hn h' = hn h /\ hg h' = hg h /\ ht h' = ht h /\ nv h <= nv h'.
Proof.
  induction ns as [|[nname op ntok ins outs attrs] r IH]; intros h tbl acc h' tbl' H HT Hb HD; cbn in H; cbn [pu_declare out_names].
  - inversion H; subst. exists acc. cbn. rewrite !app_nil_r. csplit; auto using grows_refl, vstep_refl; try constructor; try (intros k []).
  - destruct (declare_outs h tbl vis outs) as [[h1 t1]|e] eqn:Ed; [|discriminate].
    destruct (declare_outs_pu b vis pre _ _ _ _ _ _ Ed HT Hb HD) as (acc1 & A1 & A2 & A3 & A4 & A5 & A6 & A7 & A8 & A9 & A10 & A11 & A12 & A13 & A14).
    rewrite A1. cbn [obind].
    destruct (IH h1 t1 acc1 h' tbl' H A2) as (acc' & P1 & P2 & P3 & P4 & P5 & P6 & P7 & P8 & P9 & P10 & P11 & P12 & P13 & P14); [lia | exact A3 |].
    assert (Hlk : forall k, In k (nz outs) -> look tbl' k = look t1 k).
    { intros k Hk. unfold look. assert (Hin : In k (nms t1)).
      { unfold nms. rewrite A5, map_app. apply in_or_app. right. rewrite map_map. simpl. rewrite map_id. auto. }
      apply lookup_some_nms in Hin. destruct (lookup k t1) as [w|] eqn:E; [|congruence]. rewrite (grows_lookup _ _ _ _ _ P8 E). auto. }
    assert (Hn1 : nms t1 = nms tbl ++ nz outs).
    { unfold nms. rewrite A5, map_app, map_map. simpl. rewrite map_id. auto. }
    exists acc'. csplit; auto.
    + rewrite P4, A4, <- app_assoc. reflexivity.
    + rewrite P5, A5, map_app, <- app_assoc. f_equal. f_equal. apply map_ext_in. intros k Hk. rewrite Hlk; auto.
    + apply NoDup_app_intro; auto. intros k Hk Hc. apply (P7 _ Hc). rewrite Hn1. apply in_or_app; auto.
    + intros k Hk. apply in_app_or in Hk. destruct Hk as [Hk|Hk]; auto.
      intros Hc. apply (P7 _ Hk). rewrite Hn1. apply in_or_app; auto.
    + eapply grows_trans; eauto.
    + intros u Hu. rewrite P9 by lia. auto.
    + eapply vstep_trans; eauto.
    + congruence.
    + congruence.
    + congruence.
    + lia.
Qed.

(* ------------------------------------------------------------------ node inputs (placeholders) *)
Lemma vdesc_name h v x k : getv h v = Some x -> v_name x = Some k ->
  vd_name (vdesc_of [] h v) = k /\ vd_named (vdesc_of [] h v) = true.
Proof. intros Hx Hn. unfold vdesc_of. rewrite Hx, Hn. auto. Qed.

Lemma resolve_inputs_pu b vis sc : forall ins h cur h' cur' l,
  resolve_inputs h cur sc vis ins = Ok (h', cur', l) ->
  TBL b h cur -> b <= nv h -> SCB b h sc ->
  exists its, pu_inputs vis (map nms sc) (nms cur) ins = Some (nms cur', its) /\
    TBL b h' cur' /\ grows (nv h) cur cur' /\ vstep h h' /\ hn h' = hn h /\ hg h' = hg h /\ ht h' = ht h /\
    add_frees (map ids sc) (ids cur) l = ids cur' /\
    map (in_desc h' (ids cur' :: map ids sc)) l = its /\
    (forall v, In (Some v) l -> v < nv h').
Proof.
  induction ins as [|k r IH]; intros h cur h' cur' l H HT Hb HS; cbn in H; cbn [pu_inputs].
  - inversion H; subst. exists []. cbn. csplit; auto using grows_refl, vstep_refl. intros v [].
  - destruct (N.eqb_spec k 0) as [Hz|Hz].
    + destruct (resolve_inputs h cur sc vis r) as [[[h2 c2] l2]|e] eqn:Er; [|discriminate].
      inversion H; subst; clear H.
      destruct (IH _ _ _ _ _ Er HT Hb HS) as (its & P1 & P2 & P3 & P4 & P5 & P6 & P7 & P8 & P9 & P10).
      rewrite P1. cbn. exists (None :: its). csplit; auto.
      * cbn. rewrite P9. auto.
      * intros v [Hv|Hv]; [discriminate|auto].
    + pose proof (chain_ok2_cons _ _ _ _ HT HS) as Hc.
      destruct (lookup_scopes k (cur :: sc)) as [v|] eqn:El.
      * destruct (resolve_inputs h cur sc vis r) as [[[h2 c2] l2]|e] eqn:Er; [|discriminate].
        inversion H; subst; clear H.
        destruct (IH _ _ _ _ _ Er HT Hb HS) as (its & P1 & P2 & P3 & P4 & P5 & P6 & P7 & P8 & P9 & P10).
        destruct (find_resolve2 (cur :: sc) k v 0 Hc El) as (Ef & Hne). cbn [map] in Ef, Hne.
        destruct (resolve2 k (nms cur :: map nms sc) 0) as [rf|] eqn:Erf; [|congruence].
        rewrite P1. cbn [obind fst snd].
        (* the value exists and is named k *)
        assert (Hvn : exists x, getv h v = Some x /\ v_name x = Some k).
        { destruct (lookup_scopes_In _ _ _ El) as (t & [<-|Ht] & Hin).
          - eapply TBL_name; eauto.
          - destruct HS as (_ & HS & _). eapply HS; eauto. }
        destruct Hvn as (x & Hx & Hxn). pose proof (getv_lt _ _ _ Hx) as Hvlt.
        destruct (getv_ext _ _ _ _ (vstep_ext _ _ P4) Hx) as (x' & Hx' & En).
        destruct (grows_ids _ _ _ P3) as (e & Eids & He).
        exists (Some (Some rf, k, true) :: its). csplit; auto.
        -- cbn [add_frees]. assert (Hic : in_chain v (ids cur :: map ids sc) = true).
           { unfold in_chain. rewrite Ef. reflexivity. }
           rewrite Hic. auto.
        -- cbn [map]. f_equal; auto. unfold in_desc.
           destruct (vdesc_name h' v x' k Hx') as (N1 & N2); [congruence|]. rewrite N1, N2.
           rewrite Eids, find_ref_grow, Ef; auto. intros Hin. apply He in Hin. lia.
        -- intros u [Hu|Hu]; auto. inversion Hu; subst u. pose proof (vstep_nv _ _ P4). lia.
      * destruct (alloc_value h (Some k) None 0%N) as [h0 v] eqn:Ea.
        destruct (apply_info_opt h0 k vis v) as [h2|e] eqn:Ei; [|discriminate].
        destruct (resolve_inputs h2 ((k, v) :: cur) sc vis r) as [[[h3 c3] l3]|e] eqn:Er; [|discriminate].
        inversion H; subst; clear H.
        destruct (alloc_opt_spec _ _ _ _ _ _ Ea Ei) as (p & Ep & Hv & Hnv & Hn2 & Hg2 & Ht2 & Hnew & Hold & S02).
        rewrite lookup_scopes_cons in El. destruct (lookup k cur) eqn:Elc; [discriminate|].
        assert (HT2 : TBL b h2 ((k, v) :: cur)).
        { eapply (TBL_cons_new b h h2 cur k v _ HT S02 Hv); [lia | exact Hnew | reflexivity | reflexivity]. }
        destruct (IH _ _ _ _ _ Er HT2) as (its & P1 & P2 & P3 & P4 & P5 & P6 & P7 & P8 & P9 & P10); [lia | eapply SCB_ext; eauto; apply vstep_ext; auto |].
        assert (Ern : resolve2 k (nms cur :: map nms sc) 0 = None).
        { change (resolve2 k (map nms (cur :: sc)) 0 = None). apply resolve2_none. rewrite lookup_scopes_cons, Elc. auto. }
        rewrite Ern, Ep. cbn [obind]. rewrite nms_cons in P1. unfold name in P1. rewrite P1. cbn [obind fst snd].
        assert (Hvc : ~ In v (ids cur)).
        { intros Hin. pose proof (TBL_ids_lt _ _ _ _ HT Hin). lia. }
        destruct (grows_ids _ _ _ P3) as (e & Eids & He). rewrite ids_cons in Eids.
        exists (Some (Some (0, length (nms cur)), k, true) :: its). csplit; auto.
        -- eapply grows_trans; [apply grows_cons; [|exact Elc] | exact P3 |]; lia.
        -- eapply vstep_trans; eauto.
        -- congruence.
        -- congruence.
        -- congruence.
        -- cbn [add_frees]. assert (Hic : in_chain v (ids cur :: map ids sc) = false).
           { apply in_chain_false. intros l0 [<-|Hl0] Hin; [auto|].
             apply in_map_iff in Hl0. destruct Hl0 as (t & <- & Ht). apply In_ids in Hin. destruct Hin as (k' & Hk').
             destruct HS as (_ & _ & HS). specialize (HS _ _ _ Ht Hk'). lia. }
           rewrite Hic. rewrite <- ids_cons with (k := k). auto.
        -- cbn [map]. f_equal; auto. unfold in_desc.
           destruct (TBL_name _ _ _ _ _ P2 (grows_in _ _ _ (k, v) P3 (or_introl eq_refl))) as (x' & Hx' & Hn').
           destruct (vdesc_name h' v x' k Hx' Hn') as (N1 & N2). rewrite N1, N2.
           rewrite Eids, <- app_assoc. cbn [app]. rewrite find_ref_new by auto. rewrite ids_length, nms_length. auto.
        -- intros u [Hu|Hu]; auto. inversion Hu; subst u. pose proof (vstep_nv _ _ P4). lia.
Qed.

(* ------------------------------------------------------------------ node outputs *)
Lemma resolve_outputs_inv : forall outs h cur h' l,
  resolve_outputs h cur outs = Ok (h', l) ->
  Forall2 (fun k v => if N.eqb k 0 then nv h <= v < nv h' /\ getv h' v = Some (fresh_value (Some 0%N) None 0%N)
                      else lookup k cur = Some v) outs l /\
  vstep h h' /\ hn h' = hn h /\ hg h' = hg h /\ ht h' = ht h /\ (forall u, u < nv h -> getv h' u = getv h u).
Proof.
  induction outs as [|k r IH]; intros h cur h' l H; cbn in H.
  - inversion H; subst. csplit; auto using vstep_refl.
  - destruct (N.eqb_spec k 0) as [Hz|Hz].
    + destruct (alloc_value h (Some 0%N) None 0%N) as [h0 v] eqn:Ea.
      destruct (resolve_outputs h0 cur r) as [[h2 l2]|e] eqn:Er; [|discriminate]. inversion H; subst; clear H.
      destruct (alloc_spec _ _ _ _ _ _ Ea) as (Hv & Hnv & Hn0 & Hg0 & Ht0 & Hnew & Hold).
      destruct (IH _ _ _ _ Er) as (A1 & A2 & A3 & A4 & A5 & A6).
      pose proof (vstep_nv _ _ A2). csplit; try congruence.
      * constructor.
        -- simpl. split; [lia|]. rewrite A6 by lia. auto.
        -- eapply Forall2_imp; [|exact A1]. intros k' v' Hk'. simpl in Hk'. destruct (N.eqb k' 0); auto.
           destruct Hk'. split; auto. lia.
      * eapply vstep_trans; [eapply alloc_vstep; eauto | auto].
      * intros u Hu. rewrite A6 by lia. auto.
    + destruct (lookup k cur) as [v|] eqn:El; [|discriminate].
      destruct (resolve_outputs h cur r) as [[h2 l2]|e] eqn:Er; [|discriminate]. inversion H; subst; clear H.
      destruct (IH _ _ _ _ Er) as (A1 & A2 & A3 & A4 & A5 & A6). csplit; auto.
      constructor; auto. destruct (N.eqb_spec k 0); [contradiction|auto].
Qed.

(* ------------------------------------------------------------------ graph outputs *)
Definition osel (tbl : table) (u : nat) (i : vinfo) : bool :=
  match lookup (vi_name i) tbl with Some w => Nat.eqb w u | None => false end.
Definition opay (tbl : table) (u : nat) (outs : list vinfo) (p0 : N) : N :=
  fold_left (fun acc i => if osel tbl u i then vi_pay i else acc) outs p0.

Lemma graph_outputs_inv tbl : forall outs h h' l,
  graph_outputs h tbl outs = Ok (h', l) -> (forall k v, In (k, v) tbl -> v < nv h) ->
  existsb vi_bad outs = false /\
  Forall2 (fun i v => match lookup (vi_name i) tbl with
                      | Some w => v = w
                      | None => nv h <= v < nv h' /\ getv h' v = Some (fresh_value (Some (vi_name i)) None (vi_pay i))
                      end) outs l /\
  (forall u x, getv h u = Some x -> getv h' u = Some (with_info (opay tbl u outs (v_info x)) x)) /\
  hn h' = hn h /\ hg h' = hg h /\ ht h' = ht h /\ nv h <= nv h'.
Proof.
  induction outs as [|i r IH]; intros h h' l H Hlt; cbn in H.
  - inversion H; subst. csplit; auto. intros u x Hx. cbn. rewrite with_info_id. auto.
  - destruct (lookup (vi_name i) tbl) as [w|] eqn:El.
    + destruct (apply_info h i w) as [h2|e] eqn:Ei; [|discriminate].
      destruct (graph_outputs h2 tbl r) as [[h3 l3]|e] eqn:Er; [|discriminate]. inversion H; subst; clear H.
      unfold apply_info in Ei. destruct (vi_bad i) eqn:Eb; [discriminate|]. inversion Ei; subst h2; clear Ei.
      destruct (IH _ _ _ Er) as (A1 & A2 & A3 & A4 & A5 & A6 & A7).
      { intros k v Hin. rewrite updv_nv. eauto. }
      rewrite updv_nv in *. cbn [existsb]. rewrite Eb. csplit; auto.
      * constructor; [rewrite El; auto|]. exact A2.
      * intros u x Hx. unfold opay. cbn [fold_left]. unfold osel at 2. rewrite El.
        destruct (Nat.eqb_spec w u) as [->|Hn].
        -- rewrite (A3 u (with_info (vi_pay i) x)) by (apply updv_getv_eq; auto). rewrite with_info_twice. reflexivity.
        -- rewrite (A3 u x) by (rewrite updv_getv_neq; auto). reflexivity.
    + destruct (alloc_value h (Some (vi_name i)) None 0%N) as [h0 v] eqn:Ea.
      destruct (apply_info h0 i v) as [h2|e] eqn:Ei; [|discriminate].
      destruct (graph_outputs h2 tbl r) as [[h3 l3]|e] eqn:Er; [|discriminate]. inversion H; subst; clear H.
      unfold apply_info in Ei. destruct (vi_bad i) eqn:Eb; [discriminate|]. inversion Ei; subst h2; clear Ei.
      destruct (alloc_spec _ _ _ _ _ _ Ea) as (Hv & Hnv & Hn0 & Hg0 & Ht0 & Hnew & Hold).
      destruct (IH _ _ _ Er) as (A1 & A2 & A3 & A4 & A5 & A6 & A7).
      { intros k u Hin. rewrite updv_nv. specialize (Hlt _ _ Hin). lia. }
      rewrite updv_nv in *. cbn [existsb]. rewrite Eb. csplit; auto; try (cbn in *; congruence); try lia.
      * constructor.
        -- rewrite El. split; [lia|].
           rewrite (A3 v (with_info (vi_pay i) (fresh_value (Some (vi_name i)) None 0%N))) by (apply updv_getv_eq; auto).
           unfold opay. rewrite fold_sel_none; [reflexivity|].
           assert (Hsel : forall j, osel tbl v j = false).
           { intros j. unfold osel. destruct (lookup (vi_name j) tbl) eqn:E; auto. apply lookup_In in E. apply Hlt in E.
             apply Nat.eqb_neq. lia. }
           clear - Hsel. induction r as [|j r IH]; simpl; auto. rewrite Hsel. auto.
        -- eapply Forall2_imp; [|exact A2]. intros j u. cbv beta. destruct (lookup (vi_name j) tbl); auto. intros (Hj1 & Hj2). split; auto. lia.
      * intros u x Hx. pose proof (getv_lt _ _ _ Hx) as Hu. unfold opay. cbn [fold_left]. unfold osel at 2. rewrite El.
        rewrite (A3 u x); [reflexivity|]. rewrite updv_getv_neq by lia. rewrite Hold; auto.
Qed.

(* ------------------------------------------------------------------ Node() *)
Lemma new_node_inv2 h nm op tok ins outs al h' nid : new_node h nm op tok ins outs al = Ok (h', nid) ->
  nid = nn h /\ nn h' = S (nn h) /\ nv h' = nv h /\ hg h' = hg h /\ ht h' = ht h /\
  getn h' nid = Some (mkN nm op tok ins outs (dict_of [] al) None) /\ vstep h h'.
Proof.
  unfold new_node. destruct (existsb (has_prod h) outs); [discriminate|]. intros H; inversion H; subst; clear H.
  set (l2 := add_uses (set_prods (hv h) (length (hn h)) outs 0) (length (hn h)) ins 0).
  set (y := mkN nm op tok ins outs (dict_of [] al) None).
  assert (GV : forall v, nth_error l2 v = option_map (fun x => with_uses (v_uses (with_prod (new_prod (length (hn h)) v outs 0 (v_prod x)) x) ++ new_uses (length (hn h)) v ins 0)
                                                        (with_prod (new_prod (length (hn h)) v outs 0 (v_prod x)) x)) (nth_error (hv h) v)).
  { intros v. unfold l2. rewrite add_uses_nth, set_prods_nth. destruct (nth_error (hv h) v); reflexivity. }
  assert (Len : length l2 = length (hv h)) by (unfold l2; rewrite add_uses_length, set_prods_length; auto).
  assert (GN : forall n z, getn h n = Some z -> nth_error (hn h ++ [y]) n = Some z).
  { intros n z Hz. apply nth_error_app_l. exact Hz. }
  csplit; auto.
  - unfold nn; simpl. rewrite app_length. simpl. lia.
  - unfold getn; simpl. apply nth_error_app_new.
  - split; [|split].
    + unfold ext, nv, nn, ngr, getv, getn, getg, gett; simpl. rewrite Len, app_length. csplit; auto; try lia.
      * intros v x Hx. rewrite GV, Hx. simpl. eexists. split; [reflexivity|]. reflexivity.
      * intros n z Hz. exists z. split; auto.
    + intros v x Hx. unfold getv in *; simpl. rewrite GV, Hx. simpl. eexists. split; [reflexivity|]. destruct x; reflexivity.
    + intros n z Hz. unfold getn; simpl. apply GN; auto.
Qed.

(* ------------------------------------------------------------------ Graph() *)
Lemma keyed_Forall2 l : forall vs kv, keyed l vs = Ok kv ->
  Forall2 (fun v p => snd p = v /\ exists x, nth_error l v = Some x /\ v_name x = Some (fst p)) vs kv.
Proof.
  induction vs as [|v vs IH]; simpl; intros kv H.
  - inversion H; constructor.
  - destruct (nth_error l v) as [x|] eqn:E; [|discriminate]. destruct (v_name x) as [k|] eqn:En; [|discriminate].
    destruct (keyed l vs) as [t|] eqn:Ek; [|discriminate]. inversion H; subst. constructor; [|eauto].
    split; auto. exists x. auto.
Qed.

Lemma new_graph_inv2 h gn gt ins outs inits nodes h' gid : new_graph h gn gt ins outs inits nodes = Ok (h', gid) ->
  gid = ngr h /\ exists kv,
    Forall2 (fun v p => snd p = v /\ exists x, getv h v = Some x /\ v_name x = Some (fst p)) inits kv /\
    getg h' gid = Some (mkG gn gt ins outs (dict_of [] kv) nodes) /\
    (forall g z, getg h g = Some z -> getg h' g = Some z) /\
    ngr h' = S (ngr h) /\ ht h' = ht h /\ nv h' = nv h /\ nn h' = nn h /\
    (forall v, getv h' v = option_map (gval (ngr h) ins outs (map snd (dict_of [] kv)) v) (getv h v)) /\
    (forall n, getn h' n = option_map (nnode (ngr h) nodes n) (getn h n)).
Proof.
  unfold new_graph. intros Hnew.
  destruct (set_inputs (hv h) (length (hg h)) ins) as [l1|] eqn:E1; [|discriminate].
  destruct (set_outputs l1 (length (hg h)) outs) as [l2|] eqn:E2; [|discriminate].
  destruct (keyed l2 inits) as [kv|] eqn:Ek; [|discriminate].
  destruct (set_inits l2 (length (hg h)) (dict_of [] kv)) as [l3|] eqn:E3; [|discriminate].
  destruct (set_ngraphs (hn h) (length (hg h)) nodes) as [ln|] eqn:En; [|discriminate].
  inversion Hnew; subst h' gid; clear Hnew. fold (ngr h) in *.
  split; auto. exists kv.
  assert (Hlen1 : length l1 = length (hv h)) by (eapply set_inputs_length; eauto).
  assert (Hlen2 : length l2 = length (hv h)) by (rewrite <- Hlen1; eapply set_outputs_length; eauto).
  assert (Hlen3 : length l3 = length (hv h)) by (rewrite <- Hlen2; eapply set_inits_length; eauto).
  assert (Hlenn : length ln = length (hn h)) by (eapply set_ngraphs_length; eauto).
  csplit.
  - eapply Forall2_imp; [|apply keyed_Forall2; exact Ek]. intros v p (A & x2 & Hx2 & Hn). split; auto.
    rewrite (set_outputs_nth _ _ _ _ v E2), (set_inputs_nth _ _ _ _ v E1) in Hx2. unfold getv.
    destruct (nth_error (hv h) v) as [x|]; simpl in Hx2; [|discriminate]. exists x. split; auto.
    inversion Hx2; subst x2. destruct (memb v outs), (memb v ins); simpl in Hn; auto.
  - unfold getg, ngr; simpl. apply nth_error_app_new.
  - intros g z Hz. unfold getg in *; simpl. apply nth_error_app_l; auto.
  - unfold ngr; simpl. rewrite app_length; simpl; lia.
  - reflexivity.
  - unfold nv; simpl; auto.
  - unfold nn; simpl; auto.
  - intros v. unfold getv; simpl. eapply new_graph_values; eauto.
  - intros n. unfold getn; simpl. eapply set_ngraphs_nth; eauto.
Qed.

Lemma lookup_all_inv t : forall ks vs, lookup_all t ks = Ok vs -> Forall2 (fun k v => lookup k t = Some v) ks vs.
Proof.
  induction ks as [|k r IH]; simpl; intros vs H.
  - inversion H; constructor.
  - destruct (lookup k t) as [v|] eqn:E; [|discriminate]. destruct (lookup_all t r) as [l|] eqn:Er; [|discriminate].
    inversion H; subst. constructor; auto.
Qed.

(* C17/Fix2DeserH.v — functions for deser2: inputs by name with exact payloads, the relational form real2_f
   of unfold2_function, stability and bridge. *)
From Coq Require Import NArith List Bool Arith Lia.
From IRV Require Import Base.Exn C03.Model C03.Canon C03.Inv C03.Tree C03.TreeF C03.IsoSpecs C03.IsoSpecsF C17.Basics C17.Specs C17.Steps C17.Phases C17.OpNode C17.OpGraph C17.Deser C03.IsoDeserA C03.IsoDeserB C03.IsoDeserC C03.IsoDeserD C03.IsoDeserE C03.IsoDeserF C03.IsoDeserG C03.IsoDeserH C17.Tree2 C17.Fix2DeserA C17.Fix2DeserB C17.Fix2DeserC C17.Fix2DeserD C17.Fix2DeserE C17.Fix2DeserF C17.Fix2DeserG C17.Fix2DeserT.
Import ListNotations.

Arguments alloc_value : simpl never.
Arguments lookup : simpl never.

Lemma vi_lookup_app k a b : vi_lookup k (a ++ b) = match vi_lookup k b with Some j => Some j | None => vi_lookup k a end.
Proof.
  induction a as [|i a IH]; simpl.
  - destruct (vi_lookup k b); auto.
  - rewrite IH. destruct (vi_lookup k b); auto.
Qed.

Definition in_info (vis : list vinfo) (k : N) : N := match vi_lookup k vis with Some i => vi_pay i | None => 0%N end.

Lemma phase1nx b (I : N -> N -> Prop) vis (ks : list name) h :
  b = nv h ->
  (forall k, In k ks -> match vi_lookup k vis with Some i => vi_bad i = false /\ I k (vi_pay i) | None => I k 0%N end) ->
  exists h0 invs h1, alloc_named h ks = (h0, invs) /\ apply_infos_named h0 vis ks invs = Ok h1 /\
    hn h1 = hn h /\ hg h1 = hg h /\ ht h1 = ht h /\ nv h1 = nv h + length ks /\
    (forall u, u < nv h -> getv h1 u = getv h u) /\
    TB b I h1 (table_of_names [] ks invs) /\
    nms (table_of_names [] ks invs) = ks /\ ids (table_of_names [] ks invs) = invs /\
    invs = seq (nv h) (length ks) /\
    Forall2 (fun k v => getv h1 v = Some (fresh_value (Some k) None (in_info vis k))) ks invs.
Proof.
  intros Hb Hv. destruct (alloc_named h ks) as [h0 invs] eqn:E1.
  destruct (alloc_named_spec _ _ _ _ E1) as (A1 & A2 & A3 & A4 & A5 & A6 & A7).
  assert (Hlen : length invs = length ks) by (rewrite A7; apply seq_length).
  assert (Hnd : NoDup invs) by (rewrite A7; apply seq_NoDup).
  assert (Hlt : forall v, In v invs -> nv h <= v < nv h0).
  { intros v Hin. rewrite A7 in Hin. apply in_seq in Hin. lia. }
  destruct (apply_infos_named_spec vis ks invs h0) as (h1 & E2 & B1 & B2 & B3 & B4 & B5 & B6); auto.
  { intros v Hin. apply Hlt in Hin. lia. }
  { intros k i Hk Hi. specialize (Hv k Hk). rewrite Hi in Hv. destruct Hv; auto. }
  destruct (table_of_names_spec ks invs [] Hlen) as (T1 & T2).
  assert (FF : Forall2 (fun k v => getv h1 v = Some (fresh_value (Some k) None (in_info vis k))) ks invs).
  { eapply Forall2_impl; [|exact (Forall2_and _ _ _ _ A6 B6)]. intros k v (G1 & G2). rewrite G1 in G2. unfold in_info.
    destruct (vi_lookup k vis); exact G2. }
  exists h0, invs, h1. csplit; auto; try congruence.
  - intros u Hu. rewrite B5, A5; auto. intros Hin. apply Hlt in Hin. lia.
  - intros k v Hin. apply T2 in Hin. destruct Hin as [[]|Hin].
    destruct (Forall2_combine_inv' _ _ _ _ _ FF Hin) as (Hk & Hvin & G).
    specialize (Hv k Hk). apply Hlt in Hvin.
    eapply tent_fresh; [| exact G |]; [lia|]. unfold in_info. destruct (vi_lookup k vis); [destruct Hv|]; auto.
  - rewrite table_of_names_ids; auto.
Qed.

(* ------------------------------------------------------------------ functions: relational unfolding *)
Definition real2_f (Q : nat -> Prop) (h : heap) (f : func) (F : ftree) : Prop :=
  match F with
  | FBad => False
  | FT fid ftok ins nodes outs =>
    exists z lvl, getg h (f_graph f) = Some z /\ g_inits z = [] /\ f_id f = fid /\ f_tok f = ftok /\
      map (fn_in_desc [] h) (g_inputs z) = ins /\
      map (fun v => (find_ref v [lvl] 0, vd_name (vdesc_of [] h v), vd_named (vdesc_of [] h v))) (g_outputs z) = outs /\
      (forall v, In v (g_inputs z) -> Q v /\ v < nv h) /\
      (forall v, In v (g_outputs z) -> v < nv h) /\
      real2_ns Q h [] (gdefs h z) (g_nodes z) nodes lvl
  end.

Lemma real2_f_keeps Q h h' f F : keepsP Q h h' -> real2_f Q h f F -> real2_f Q h' f F.
Proof.
  intros K H. destruct F as [|fid ftok ins nodes outs]; [destruct H|]. cbn [real2_f] in *.
  destruct H as (z & lvl & Hz & H1 & H2 & H3 & H4 & H5 & H6 & H7 & H8).
  pose proof K as (E & K').
  assert (Hgd : gdefs h' z = gdefs h z).
  { apply gdefs_ext; auto. eapply real2_ns_nodes; eauto. }
  assert (Hnv : nv h <= nv h') by (destruct E; auto).
  exists z, lvl. csplit; auto.
  - destruct E as (_ & _ & _ & _ & _ & E6 & _). auto.
  - rewrite <- H4. apply map_ext_in. intros v Hv. destruct (H6 _ Hv). unfold fn_in_desc. erewrite vdesc_keepP; eauto.
  - rewrite <- H5. apply map_ext_in. intros v Hv. destruct (vname_ext h h' v E (H7 _ Hv)) as (A & B & _). rewrite A, B. auto.
  - intros v Hv. destruct (H6 _ Hv). split; auto. lia.
  - intros v Hv. specialize (H7 _ Hv). lia.
  - rewrite Hgd. destruct real2_stable as (_ & Sns' & _). eapply Sns'; eauto.
Qed.
Lemma real2_f_nested Q h h' f F : nested h h' -> real2_f Q h f F -> real2_f Q h' f F.
Proof. intros N. apply real2_f_keeps. apply nested_keepsP; auto. Qed.
Lemma real2_f_mono Q Q' h f F : Qle h Q Q' -> real2_f Q h f F -> real2_f Q' h f F.
Proof.
  intros Hl H. destruct F as [|fid ftok ins nodes outs]; [destruct H|]. cbn [real2_f] in *.
  destruct H as (z & lvl & Hz & H1 & H2 & H3 & H4 & H5 & H6 & H7 & H8). exists z, lvl. csplit; auto.
  - intros v Hv. destruct (H6 _ Hv). split; auto.
  - destruct real2_mono as (_ & Mns' & _). eapply Mns'; eauto.
Qed.

Lemma real2_f_unfold Q h f F : real2_f Q h f F -> depth_f F < ser_fuel h -> unfold2_function [] h f = F.
Proof.
  intros H Hd. destruct F as [|fid ftok ins nodes outs]; [destruct H|]. cbn [real2_f depth_f] in *.
  destruct H as (z & lvl & Hz & H1 & H2 & H3 & H4 & H5 & H6 & H7 & H8).
  unfold unfold2_function. rewrite Hz, H1.
  destruct real2_unfold as (_ & Bns' & _). destruct (Bns' _ _ _ _ _ _ _ H8 (ser_fuel h) Hd) as (nts & En & Et).
  rewrite En, H2, H3, H4, H5, Et. reflexivity.
Qed.

(* C17/Fix2WfsB.v — punfold_wfs, stage B: nodes, attributes, levels (the cases of the mutual induction other
   than the graph case). *)
From Coq Require Import NArith List Bool Arith Lia.
From IRV Require Import Base.Exn C03.Model C03.Canon C03.Inv C03.Tree C03.TreeF C03.PayFixDefs C03.IsoSer C17.Tree2 C17.PUnfold C17.Fix2Defs C17.Fix2WfsA.
Import ListNotations.

Scheme gproto_indW := Induction for gproto Sort Prop
  with nprotos_indW := Induction for nprotos Sort Prop
  with nproto_indW := Induction for nproto Sort Prop
  with aprotos_indW := Induction for aprotos Sort Prop
  with aproto_indW := Induction for aproto Sort Prop
  with gprotos_indW := Induction for gprotos Sort Prop.
Combined Scheme proto_mutindW from gproto_indW, nprotos_indW, nproto_indW, aprotos_indW, aproto_indW, gprotos_indW.

Definition outf (vdf : N -> vdesc) (k : N) : vdesc := if N.eqb k 0 then mkVD 0 true 0 false else vdf k.
Definition mknode (vdf : N -> vdesc) (pn : pnode) : ntree :=
  NT (pn_name pn) (pn_op pn) (pn_tok pn) (pn_ins pn) (map (outf vdf) (pn_outs pn)) (atrees_of (pn_attrs pn)).
Definition vdf_ok (outn : list N) (vdf : N -> vdesc) (k : N) : Prop :=
  vd_named (vdf k) = true /\ vd_name (vdf k) = k /\ vd_out (vdf k) = memN k outn.
Definition nouts1 (n : nproto) : list N := match n with Np _ _ _ _ outs _ => outs end.
Lemma nouts_cons n r : nouts (NCons n r) = nouts1 n ++ nouts r.
Proof. destruct n; reflexivity. Qed.

Section W.
Variable np : list (N * N).

Lemma mp_as_of l : mp_as np (atrees_of l) = atrees_of (map (mp_a np) l).
Proof. induction l; simpl; congruence. Qed.
Lemma mp_gs_of l : mp_gs np (gtrees_of l) = gtrees_of (map (mp_g np) l).
Proof. induction l; simpl; congruence. Qed.
Lemma mp_ns_of l : mp_ns np (ntrees_of l) = ntrees_of (map (mp_n np) l).
Proof. induction l; simpl; congruence. Qed.
Lemma wfs_as_of nsc l : wfs_as nsc (atrees_of l) = forallb (wfs_a nsc) l.
Proof. induction l; simpl; congruence. Qed.
Lemma wfs_gs_of nsc l : wfs_gs nsc (gtrees_of l) = forallb (wfs_g nsc) l.
Proof. induction l; simpl; congruence. Qed.
Lemma anames_of l : anames (atrees_of l) = map aname l.
Proof. induction l as [|a r IH]; simpl; [auto|]. rewrite IH. destruct a; auto. Qed.
Lemma aname_mp a : aname (mp_a np a) = aname a.
Proof. destruct a; auto. Qed.

Lemma nte_map (g : N -> vdesc) l :
  (forall k, In k l -> vd_name (g k) = k) ->
  (l = [] \/ exists l' k, l = l' ++ [k] /\ k <> 0%N) ->
  no_trailing_empty (map g l) = true.
Proof.
  intros H [E|(l' & k & E & Z)]; subst; [reflexivity|].
  unfold no_trailing_empty. rewrite map_app, rev_app_distr. simpl. rewrite H.
  - apply negb_true_iff. apply N.eqb_neq. auto.
  - rewrite in_app_iff. simpl. auto.
Qed.

Definition P_g (gp : gproto) : Prop :=
  forall outer T, pu_g outer gp = Some T -> wfs_g outer (mp_g np T) = true.
Definition P_ns (ns : nprotos) : Prop :=
  forall vis outer cur lvl pns outn vdf,
    pu_ns vis outer cur ns = Some (lvl, pns) ->
    (forall k, k <> 0%N -> In k (nouts ns) -> vdf_ok outn vdf k) ->
    wfs_ns outer cur outn (mp_ns np (ntrees_of (map (mknode vdf) pns))) = Some lvl.
Definition P_n (n : nproto) : Prop :=
  forall vis outer cur cur' pn outn vdf,
    pu_n vis outer cur n = Some (cur', pn) ->
    (forall k, k <> 0%N -> In k (nouts1 n) -> vdf_ok outn vdf k) ->
    wfs_n outer cur outn (mp_n np (mknode vdf pn)) = Some cur'.
Definition P_as (al : aprotos) : Prop :=
  forall nsc l, pu_as nsc al = Some l -> forallb (fun a => wfs_a nsc (mp_a np a)) l = true.
Definition P_a (a : aproto) : Prop :=
  forall nsc t, pu_a nsc a = Some t -> wfs_a nsc (mp_a np t) = true.
Definition P_gs (gs : gprotos) : Prop :=
  forall nsc l, pu_gs nsc gs = Some l -> forallb (fun g => wfs_g nsc (mp_g np g)) l = true.

Lemma case_nnil : P_ns NNil.
Proof. intros vis outer cur lvl pns outn vdf H _. cbn in H. inversion H; subst. reflexivity. Qed.

Lemma case_ncons n r : P_n n -> P_ns r -> P_ns (NCons n r).
Proof.
  intros Hn Hr vis outer cur lvl pns outn vdf H V. cbn [pu_ns] in H.
  destruct (pu_n vis outer cur n) as [[c1 pn]|] eqn:E1; cbn [obind fst snd] in H; [|discriminate].
  destruct (pu_ns vis outer c1 r) as [[c2 pr]|] eqn:E2; cbn [obind fst snd] in H; [|discriminate].
  inversion H; subst. cbn [map ntrees_of mp_ns wfs_ns].
  rewrite (Hn _ _ _ _ _ outn vdf E1).
  - apply (Hr vis outer c1 lvl pr outn vdf E2). intros k Z I. apply V; auto. rewrite nouts_cons, in_app_iff. auto.
  - intros k Z I. apply V; auto. rewrite nouts_cons, in_app_iff. auto.
Qed.

Lemma case_np nname op ntok ins outs attrs : P_as attrs -> P_n (Np nname op ntok ins outs attrs).
Proof.
  intros Ha vis outer cur cur' pn outn vdf H V. cbn [pu_n] in H. cbn [nouts1] in V.
  destruct (pu_inputs vis outer cur ins) as [[c its]|] eqn:EI; cbn [obind] in H; [|discriminate].
  destruct (pu_as (c :: outer) attrs) as [al|] eqn:EA; cbn [obind] in H; [|discriminate].
  inversion H; subst. clear H.
  apply pu_inputs_ok in EI. destruct EI as (_ & AF & WI).
  unfold mknode. cbn [pn_name pn_op pn_tok pn_ins pn_outs pn_attrs mp_n wfs_n]. rewrite AF, WI.
  assert (Vt : forall k, In k (trim_names outs) -> vd_name (outf vdf k) = k
                                                 /\ wf_node_out outn (mp_vd np (outf vdf k)) = true).
  { intros k I. apply trim_In in I. unfold outf. destruct (N.eqb_spec k 0) as [Z|Z].
    - subst. split; reflexivity.
    - destruct (V k Z I) as (A & B & C). split; auto.
      unfold wf_node_out, mp_vd. cbn [vd_named vd_name vd_out vd_pay]. rewrite A, B, C.
      apply N.eqb_neq in Z. rewrite Z. simpl. apply eqb_reflx. }
  assert (W2 : forallb (wf_node_out outn) (map (mp_vd np) (map (outf vdf) (trim_names outs))) = true).
  { rewrite map_map. apply forallb_forall. intros d I. apply in_map_iff in I. destruct I as (k & E & I).
    subst d. apply Vt; auto. }
  assert (W3 : no_trailing_empty (map (mp_vd np) (map (outf vdf) (trim_names outs))) = true).
  { rewrite map_map. apply nte_map.
    - intros k I. cbn [mp_vd vd_name]. apply Vt; auto.
    - apply trim_last. }
  destruct (adict_ok al) as [ND AI].
  assert (W4 : nodup_N (anames (mp_as np (atrees_of (adict al)))) = true).
  { rewrite mp_as_of, anames_of, map_map. apply nodup_N_NoDup.
    rewrite (map_ext _ aname) by (intros; apply aname_mp). auto. }
  assert (W5 : wfs_as (cur' :: outer) (mp_as np (atrees_of (adict al))) = true).
  { rewrite mp_as_of, wfs_as_of, forallb_map. apply forallb_forall. intros a I. apply AI in I.
    pose proof (Ha _ _ EA) as F. rewrite forallb_forall in F. auto. }
  rewrite W2, W3, W4, W5. reflexivity.
Qed.

Lemma case_anil : P_as ANil.
Proof. intros nsc l H. cbn in H. inversion H; subst. reflexivity. Qed.
Lemma case_acons a r : P_a a -> P_as r -> P_as (ACons a r).
Proof.
  intros Ha Hr nsc l H. cbn [pu_as] in H.
  destruct (existsb (N.eqb (aproto_name a)) (aproto_names r)); [exact (Hr _ _ H)|].
  destruct (pu_a nsc a) as [x|] eqn:E1; cbn [obind] in H; [|discriminate].
  destruct (pu_as nsc r) as [l'|] eqn:E2; cbn [obind] in H; [|discriminate].
  inversion H; subst. cbn [forallb]. rewrite (Ha _ _ E1), (Hr _ _ E2). reflexivity.
Qed.
Lemma case_aplain k tok bad sbad : P_a (APlain k tok bad sbad).
Proof. intros nsc t H. cbn in H. destruct bad; [discriminate|]. inversion H; subst. reflexivity. Qed.
Lemma case_agraph k g : P_g g -> P_a (AGraph k g).
Proof.
  intros Hg nsc t H. cbn [pu_a] in H. destruct (pu_g nsc g) as [T|] eqn:E; cbn [obind] in H; [|discriminate].
  inversion H; subst. cbn [mp_a wfs_a]. apply (Hg _ _ E).
Qed.
Lemma case_agraphs k gs : P_gs gs -> P_a (AGraphs k gs).
Proof.
  intros Hg nsc t H. cbn [pu_a] in H. destruct (pu_gs nsc gs) as [l|] eqn:E; cbn [obind] in H; [|discriminate].
  inversion H; subst. cbn [mp_a wfs_a]. rewrite mp_gs_of, wfs_gs_of, forallb_map. apply (Hg _ _ E).
Qed.
Lemma case_gnil : P_gs GNil.
Proof. intros nsc l H. cbn in H. inversion H; subst. reflexivity. Qed.
Lemma case_gcons g r : P_g g -> P_gs r -> P_gs (GCons g r).
Proof.
  intros Hg Hr nsc l H. cbn [pu_gs] in H.
  destruct (pu_g nsc g) as [x|] eqn:E1; cbn [obind] in H; [|discriminate].
  destruct (pu_gs nsc r) as [l'|] eqn:E2; cbn [obind] in H; [|discriminate].
  inversion H; subst. cbn [forallb]. rewrite (Hg _ _ E1), (Hr _ _ E2). reflexivity.
Qed.

(* ---- facts about pu_ns that do not need the induction on graphs *)
Lemma pu_n_ext vis outer cur n cur' pn : pu_n vis outer cur n = Some (cur', pn) -> ext cur cur' /\ pn_outs pn = trim_names (nouts1 n).
Proof.
  destruct n as [nname op ntok ins outs attrs]. intros H. cbn [pu_n] in H.
  destruct (pu_inputs vis outer cur ins) as [[c its]|] eqn:EI; cbn [obind] in H; [|discriminate].
  destruct (pu_as (c :: outer) attrs) as [al|] eqn:EA; cbn [obind] in H; [|discriminate].
  inversion H; subst. split; [|reflexivity]. eapply pu_inputs_ext; eauto.
Qed.
Lemma pu_ns_ext vis outer : forall ns cur lvl pns,
  pu_ns vis outer cur ns = Some (lvl, pns) ->
  ext cur lvl /\ filter nz (flat_map pn_outs pns) = filter nz (nouts ns).
Proof.
  induction ns as [|n r IH]; intros cur lvl pns H.
  - cbn in H. inversion H; subst. split; [apply ext_refl|reflexivity].
  - cbn [pu_ns] in H.
    destruct (pu_n vis outer cur n) as [[c1 pn]|] eqn:E1; cbn [obind fst snd] in H; [|discriminate].
    destruct (pu_ns vis outer c1 r) as [[c2 pr]|] eqn:E2; cbn [obind fst snd] in H; [|discriminate].
    inversion H; subst. apply pu_n_ext in E1. destruct E1 as [X1 O1]. apply IH in E2. destruct E2 as [X2 O2].
    split; [eapply ext_trans; eauto|]. cbn [flat_map]. rewrite nouts_cons, !filter_app, O2, O1, trim_filter. auto.
Qed.

Lemma node_out_descs_mk vdf pns :
  node_out_descs (mp_ns np (ntrees_of (map (mknode vdf) pns)))
  = map (fun k => mp_vd np (outf vdf k)) (flat_map pn_outs pns).
Proof.
  induction pns as [|pn r IH]; [reflexivity|]. cbn [map ntrees_of mp_ns flat_map]. unfold mknode at 1.
  cbn [mp_n node_out_descs]. rewrite IH, map_app, map_map. auto.
Qed.
End W.

(* C17/Top.v — functions and the whole model: deser_model p = Ok (h, m) -> Inv h. *)
From Coq Require Import NArith List Bool Arith Lia.
From IRV Require Import Base.Exn C03.Model C03.Inv C17.Basics C17.Specs C17.Steps C17.Phases C17.OpGraph C17.Deser.
Import ListNotations.

Arguments alloc_value : simpl never.
Arguments new_graph : simpl never.
Arguments apply_info_opt : simpl never.

Lemma alloc_named_ok b ON sc : forall ks h cur h1 invs,
  st_ok b ON sc h cur -> alloc_named h ks = (h1, invs) ->
  st_ok b ON sc h1 (table_of_names cur ks invs) /\ step b ON h h1.
Proof.
  induction ks as [|k r IH]; cbn; intros h cur h1 invs Hs Ha.
  - inversion Ha; subst. cbn. split; auto using step_refl.
  - destruct (alloc_value h (Some k) None 0%N) as [h0 v] eqn:Ea.
    destruct (alloc_named h0 r) as [h2 vs] eqn:Er. inversion Ha; subst; clear Ha.
    pose proof (st_ok_alloc_cons _ _ _ _ _ _ _ _ _ _ Hs Ea) as Hs0.
    destruct (IH _ _ _ _ Hs0 Er) as (A & B). cbn. split; auto.
    eapply step_trans; eauto. eapply alloc_step; eauto.
Qed.

Lemma apply_infos_named_same_core vis : forall ks vs h h', apply_infos_named h vis ks vs = Ok h' -> same_core h h'.
Proof.
  induction ks as [|k r IH]; intros [|v vs] h h' H; cbn in H; try (inversion H; subst; apply same_core_refl).
  destruct (apply_info_opt h k vis v) as [h1|e] eqn:E; [|discriminate].
  eapply same_core_trans; [eapply apply_info_opt_same_core; eauto | eauto].
Qed.

Lemma deser_function_inv f h h' x : Inv h -> deser_function f h = Ok (h', x) -> Inv h'.
Proof.
  intros HI H. unfold deser_function in H.
  set (b := nv h) in *. set (ON := 0%N :: out_names (fp_nodes f)).
  assert (S0 : st_ok b ON [] h []).
  { constructor; auto; try solve [intros k v [] | intros k v y [] | unfold b; lia | intros t k v []]. }
  destruct (alloc_named h (fp_ins f)) as [h0 invs] eqn:E1.
  destruct (alloc_named_ok _ _ _ _ _ _ _ _ S0 E1) as (S1' & T1).
  destruct (apply_infos_named h0 (fp_vis f) (fp_ins f) invs) as [h1|e] eqn:E1'; [|discriminate].
  pose proof (st_ok_same_core _ _ _ _ _ _ S1' (apply_infos_named_same_core _ _ _ _ _ E1')) as S1.
  destruct (declare_nodes h1 (table_of_names [] (fp_ins f) invs) (fp_vis f) (fp_nodes f)) as [[h2 tbl1]|e] eqn:E2; [|discriminate].
  destruct (declare_nodes_ok _ _ _ _ _ _ _ _ _ S1 E2) as (S2 & T2 & I2 & N2 & O2).
  destruct (deser_nodes (fp_nodes f) tbl1 [] (fp_vis f) h2) as [[[h3 tbl2] nids]|e] eqn:E3; [|discriminate].
  assert (NO : nodes_outs_ok ON (fp_nodes f)).
  { apply nodes_outs_ok_intro; auto; [left; auto | intros k Hk; right; auto]. }
  destruct deser_all as (_ & Hns & _).
  destruct (Hns _ _ _ _ _ _ _ _ _ _ S2 NO E3) as (S3 & T3 & I3 & ND3 & R3).
  destruct (lookup_all tbl2 (fp_outs f)) as [outvs|e] eqn:E4; [|discriminate].
  destruct (new_graph h3 0%N 0%N invs outvs [] nids) as [[h4 gid]|e] eqn:E5; [|discriminate].
  destruct (fp_bad f); [discriminate|]. inversion H; subst; clear H.
  destruct (new_graph_inv _ _ _ _ _ _ _ _ _ (so_inv _ _ _ _ _ S3) E5 ND3) as (I5 & _); auto.
  intros v y [].
Qed.

Lemma deser_functions_inv : forall fs h h' l, Inv h -> deser_functions fs h = Ok (h', l) -> Inv h'.
Proof.
  induction fs as [|f r IH]; cbn; intros h h' l HI H.
  - inversion H; subst; auto.
  - destruct (deser_function f h) as [[h1 x]|e] eqn:E1; [|discriminate].
    destruct (deser_functions r h1) as [[h2 l2]|e] eqn:E2; [|discriminate]. inversion H; subst.
    eapply IH; [|eauto]. eapply deser_function_inv; eauto.
Qed.

Lemma empty_inv : Inv empty_heap.
Proof.
  constructor; unfold getv, getn, getg, empty_heap; simpl; intros;
    repeat match goal with H : nth_error [] ?i = Some _ |- _ => destruct i; discriminate H end.
Qed.

Theorem deser_model_inv p h m : deser_model p = Ok (h, m) -> Inv h.
Proof.
  unfold deser_model. intros H.
  destruct (deser_graph (mp_graph p) [] empty_heap) as [[h1 gid]|e] eqn:E1; [|discriminate].
  destruct (deser_functions (mp_funcs p) h1) as [[h2 fs]|e] eqn:E2; [|discriminate]. inversion H; subst.
  destruct deser_all as (Hg & _).
  destruct (Hg _ _ _ _ _ empty_inv (fun t k v (Ht : In t []) => match Ht with end) E1) as (I1 & _).
  eapply deser_functions_inv; eauto.
Qed.

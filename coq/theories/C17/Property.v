(* C17/Property.v — placeholder while the proofs are being written *)
From Coq Require Import NArith List Bool.
From IRV Require Import Base.Exn C03.Model C03.Canon.
Import ListNotations.

Theorem C17_deser_total : forall p, (exists h m, deser_model p = Ok (h, m)) \/ (exists e, deser_model p = Raise e).
Proof. intro p. destruct (deser_model p) as [[h m]|e]; [left; eauto | right; eauto]. Qed.
Print Assumptions C17_deser_total.

(* C17/Property.v — ONLY the property theorems of C17 ("deserializing any proto terminates with an error
   or a consistent IR"), over the executable model of serde.deserialize_* / serialize_* in C03/Model.v.

   Full statement of the property and what is proved here:
   (1) termination for every proto ........ C17_deser_total  (deser_model is a Gallina function defined by
       structural recursion on the proto, no fuel: accepted by Coq's guard checker = the termination
       proof, including cyclic/unsorted node order and dangling/duplicated/empty names.  Python's own
       recursion limit on deeply nested subgraphs is modelled-not-verified: there the code raises
       RecursionError, which is an "error" outcome of the property anyway.)
   (2) raises or returns a consistent IR ... C17_consistent   (FULL: no well-formedness hypothesis on p; Inv =
       C01's I1-I7: use-def both directions, producer/index, node.graph, ownership flags, initializers keyed
       by name, inputs/initializers without producer, owner iff role.)
   (3) re-serialization is a fixpoint ...... C17_ser_fixpoint (FULL, for every proto; hypotheses only on the opaque
       leaf (de)serializers: np_ok, np_idem, leaf_fill_m, evaluated per case).  Intermediate statements kept:
       C17_ser_fixpoint_wf2 (any state with a well-formed generalised unfolding), C17_ser_fixpoint_partial.
       History: the clause was refuted twice by the faithful model on the code as it was — findings
       fixpoint-initializer-empty-value-info (fixed by /repo 420823a) and reser-duplicate-initializer-bad-dtype
       (found by this proof; fixed by /repo 3a09e57); the model follows both fixes.
   (4) no file access ...................... holds of the model by construction (deser_model / ser_model have
       no file-system component: C17_deser_function_of_proto); on the implementation it is observed with
       audit hooks on every run (not a theorem). *)
From Coq Require Import NArith List Bool Arith.
From IRV Require Import Base.Exn C03.Model C03.Canon C03.Inv C03.Tree C03.TreeF C03.PayFixDefs C03.IsoThmF C17.Top C17.Tree2 C17.Fix2Thm C17.Fix2Defs C17.Fix2Final C03.ModelOld C17.OldFormat.
Import ListNotations.
Open Scope N_scope.

Theorem C17_deser_total :
  forall p, (exists h m, deser_model p = Ok (h, m)) \/ (exists e, deser_model p = Raise e).
Proof. intro p. destruct (deser_model p) as [[h m]|e]; [left; eauto | right; eauto]. Qed.
Print Assumptions C17_deser_total.

(* Whatever the proto, if deserialization returns, every use-def and ownership link of the IR is consistent. *)
Theorem C17_consistent : forall p h m, deser_model p = Ok (h, m) -> Inv h.
Proof. exact deser_model_inv. Qed.
Print Assumptions C17_consistent.

(* The outcome and the IR depend on the proto only (no ambient state, in particular no file system). *)
Theorem C17_deser_function_of_proto : forall p r1 r2, deser_model p = r1 -> deser_model p = r2 -> r1 = r2.
Proof. intros; congruence. Qed.
Print Assumptions C17_deser_function_of_proto.

(* The re-serialization fixpoint for every proto whose deserialized IR is well scoped (serializable_tm: no
   dangling / duplicated / empty value names; boolean, see C03/TreeF.v) — duplicated initializers or attributes,
   stale or missing value_info, unsorted or cyclic node order, trailing empty outputs ... are all allowed.
   np_idem: the leaf normalisation of value payloads is idempotent. *)
Theorem C17_ser_fixpoint_partial :
  forall np p h m,
    deser_model p = Ok (h, m) -> serializable_tm np h m = true -> np_idem np = true ->
    exists h1 q h' m' h'',
      ser_model np h m = Ok (h1, q) /\ deser_model q = Ok (h', m') /\ ser_model np h' m' = Ok (h'', q).
Proof. intros np p h m _ Hs Hi. exact (ser_deser_ser np h m Hs Hi). Qed.
Print Assumptions C17_ser_fixpoint_partial.

(* The re-serialization fixpoint for every state whose GENERALISED unfolding (C17/Tree2.v: placeholders for
   dangling names, duplicated / empty input names with "last definition wins", graph outputs that resolve to
   nothing) is well formed.  wf2_m is boolean; it is evaluated by vm_compute on every accepted case of the check
   and has never been false on a state returned by the deserializer (that it ALWAYS holds is the remaining
   lemma punfold_real, in progress). *)
Theorem C17_ser_fixpoint_wf2 :
  forall np h m h1 q,
    np_ok np = true -> np_idem np = true ->
    ser_model np h m = Ok (h1, q) -> wf2_m (unfold2_model np h m) = true ->
    exists h' m' h'', deser_model q = Ok (h', m') /\ ser_model np h' m' = Ok (h'', q).
Proof. exact ser_fixpoint2. Qed.
Print Assumptions C17_ser_fixpoint_wf2.

(* C17_ser_fixpoint, FULL: for EVERY proto p, however malformed: if deserialization returns an IR and serializing
   that IR returns a proto q, then q deserializes and the result serializes to q again.  No hypothesis on p.
   The three remaining hypotheses are contracts of the LEAF (de)serializers, which this model treats as opaque
   tokens (C02/C04's business), all boolean and evaluated by vm_compute on every case of the check:
     np_ok np      the leaf normalisation of a value payload maps nothing to / from "no information";
     np_idem np    that normalisation is idempotent;
     leaf_fill_m   for every non-input initializer that is not a graph output, completing its (normalised)
                   payload with the tensor's dtype/shape changes nothing (it already has type and shape).
   Proof: generalised unfolding (Tree2.v) + symbolic unfolding of the proto (PUnfold.v):
   punfold_real (deser p realises pu_m p), punfold_wfs (pu_m p is structurally well formed), ser_nosbad,
   wf2_glue, ser2 (ser writes t2p of the unfolding), deser2 (deser of t2p T rebuilds T), payfix2. *)
Theorem C17_ser_fixpoint :
  forall np p h m h1 q,
    np_ok np = true -> np_idem np = true ->
    deser_model p = Ok (h, m) -> ser_model np h m = Ok (h1, q) ->
    leaf_fill_m (unfold2_model np h m) = true ->
    exists h' m' h'', deser_model q = Ok (h', m') /\ ser_model np h' m' = Ok (h'', q).
Proof. exact ser_fixpoint. Qed.
Print Assumptions C17_ser_fixpoint.

(* ---- the IR-version < 10 "experimental" function value-info format (C03/ModelOld.v: the type/shape of a function's
   values travel in the main graph's value_info under "{domain}::{function}/{value}" and are applied by a post-pass).
   deser_model_x old X = deser_model_old X when old, deser_model otherwise. *)
(* Consistency holds in both formats, for every proto and every parse table X. *)
Theorem C17_consistent_x : forall old X p h m, deser_model_x old X p = Ok (h, m) -> Inv h.
Proof. exact deser_model_x_inv. Qed.
Print Assumptions C17_consistent_x.

(* In the old format the re-serialization fixpoint is REFUTED by the faithful model (as by the code: known finding
   experimental-function-value-info-name-collision, replayed on every run): a main-graph initializer named
   "D::F/a" next to a function D::F with input a.  C17_ser_fixpoint above is the IR >= 10 statement. *)
Theorem C17_ser_fixpoint_old_refuted :
  exists X Y p h m h1 q,
    deser_model_old X p = Ok (h, m) /\ ser_model_old [] Y h m = Ok (h1, q) /\
    exists h' m' h'' q', deser_model_old X q = Ok (h', m') /\ ser_model_old [] Y h' m' = Ok (h'', q') /\ q' <> q.
Proof. exists old_X, old_Y, old_witness. exact ser_fixpoint_old_refuted. Qed.
Print Assumptions C17_ser_fixpoint_old_refuted.

(* ---- non-vacuity: a malformed proto that IS accepted.  Names: 1 = "a", 2 = "b", 3 = "x", 4 = "zz".
   graph inputs [a; a] (duplicated), initializer for the input a, nodes in cyclic/unsorted order
   (n0 reads b and produces x,"" ; n1 reads x, a dangling name zz and an empty input, produces b and has a
   subgraph that captures x, b (declared later) and zz (placeholder of the outer scope)),
   graph outputs [b; unknown name 9; a]. *)
Definition ex_sub : gproto :=
  Gp 0 0 [mkVI 1 7 false] [mkVI 5 0 false] [] []
     (NCons (Np 0 11 0 [3; 2; 4; 1] [5] ANil) NNil).
Definition ex_proto : mproto :=
  mkMP 1 (Gp 0 0 [mkVI 1 7 false; mkVI 1 0 false] [mkVI 2 0 false; mkVI 9 0 false; mkVI 1 0 false]
             [mkTP 1 21 8 false false []] [mkVI 3 6 false]
             (NCons (Np 0 10 0 [2] [3; 0] ANil)
             (NCons (Np 0 10 0 [3; 4; 0] [2] (ACons (AGraph 12 ex_sub) ANil)) NNil))) [].
Example C17_consistent_nonvacuous :
  exists h m, deser_model ex_proto = Ok (h, m) /\ inv_b h = true /\ length (hv h) = 9%nat /\ length (hn h) = 3%nat.
Proof. vm_compute. eexists _, _. repeat split. Qed.

(* the two candidates named in the design are rejected, not accepted inconsistently *)
Example C17_repeated_output_rejected :
  deser_model (mkMP 1 (Gp 0 0 [mkVI 1 0 false] [] [] [] (NCons (Np 0 10 0 [1] [2; 2] ANil) NNil)) []) = Raise ValueError.
Proof. vm_compute. reflexivity. Qed.
Example C17_output_named_like_input_rejected :
  deser_model (mkMP 1 (Gp 0 0 [mkVI 1 0 false] [] [] [] (NCons (Np 0 10 0 [] [1] ANil) NNil)) []) = Raise ValueError.
Proof. vm_compute. reflexivity. Qed.

(* ---- the former refutation of the fixpoint (fixed in /repo by 420823a): an initializer w (name 1,
   tensor-derived payload 5) with a type-less value_info entry for w (payload 0).  Before the fix the
   entry erased the tensor-derived type, q = ser (deser p) had no value_info for w and ser (deser q) had
   one.  With the repaired deserializer the model (like the code) reaches a fixpoint on it. *)
Definition fix_witness : mproto :=
  mkMP 1 (Gp 2 0 [] [] [mkTP 1 3 5 false false []] [mkVI 1 0 false] NNil) [].
Example C17_former_fixpoint_witness_now_fixed : model_fixpoint [] fix_witness = true.
Proof. vm_compute. reflexivity. Qed.

(* C17/Fix2Deser.v — (B2) of the re-serialization fixpoint: deserialize_model accepts the proto of every wf2
   model tree and rebuilds a state whose generalised unfolding is that tree (Fix2Specs.deser2_spec).

   Fix2DeserA  pure lemmas (duplicated keys: newest binding = index_last; resolve2 vs find_ref);
   Fix2DeserB  relational unfolding real2_g with threaded levels, protected sets (keepsP), bridge;
   Fix2DeserC  phases: table shapes, initializers, placeholders (resolve_inputs), graph outputs with fresh values;
   Fix2DeserD  pre-realisation of nodes; Fix2DeserE statements + node/attribute cases; Fix2DeserF helpers;
   Fix2DeserG  graph case; Fix2DeserT graphs (deser2_tree); Fix2DeserH/I functions. *)
From Coq Require Import NArith List Bool Arith Lia.
From IRV Require Import Base.Exn C03.Model C03.Canon C03.Inv C03.Tree C03.TreeF C03.IsoSpecs C03.IsoSpecsF C03.PayFixDefs C17.Basics C17.Specs C17.Steps C17.Phases C17.OpNode C17.OpGraph C17.Deser C03.IsoDeserA C03.IsoDeserB C03.IsoDeserC C03.IsoDeserD C03.IsoDeserE C03.IsoDeserH C03.IsoDeserM C17.Tree2 C17.Fix2Specs C17.Fix2DeserA C17.Fix2DeserB C17.Fix2DeserC C17.Fix2DeserD C17.Fix2DeserE C17.Fix2DeserF C17.Fix2DeserG C17.Fix2DeserT C17.Fix2DeserH C17.Fix2DeserI.
Import ListNotations.

Arguments deser_function : simpl never.

Lemma deser2_functions : forall Fs h, forallb wf2_f Fs = true ->
  exists h' fs, deser_functions (map t2p_f Fs) h = Ok (h', fs) /\ nested h h' /\
    Forall2 (real2_f (fun v => nv h <= v) h') fs Fs /\ (forall F, In F Fs -> depth_f F < ngr h') /\
    map f_id fs = map fid_of Fs.
Proof.
  induction Fs as [|F r IH]; intros h Hwf.
  - exists h, []. cbn. csplit; auto. + apply nested_refl. + intros F [].
  - cbn [forallb] in Hwf. apply andb_prop in Hwf. destruct Hwf as (W1 & W2).
    destruct (PF2_all F h W1) as (h1 & f & E1 & N1 & R1 & D1 & I1).
    destruct (IH h1 W2) as (h2 & fs & E2 & N2 & R2 & D2 & I2).
    exists h2, (f :: fs). cbn [map deser_functions]. rewrite E1, E2. csplit; auto.
    + eapply nested_trans'; eauto.
    + constructor.
      * eapply real2_f_nested; eauto.
      * eapply Forall2_impl; [|exact R2]. intros f' F'. apply real2_f_mono. intros v _ Hv. cbn beta in *.
        pose proof (nested_nv _ _ N1). lia.
    + intros F' [<-|Hin]; auto. pose proof (nested_ngr _ _ N2). lia.
    + cbn. congruence.
Qed.

Lemma deser2 : deser2_spec.
Proof.
  intros [tok G Fs] Hwf. unfold wf2_m in Hwf. cbn [mt_tok mt_graph mt_funcs] in Hwf.
  apply andb_prop in Hwf. destruct Hwf as (Hwf & W3). apply andb_prop in Hwf. destruct Hwf as (W1 & W2).
  destruct (deser2_tree_real G empty_heap W1) as (h1 & gid & E1 & N1 & L1 & R1 & D1).
  destruct (deser2_functions Fs h1 W2) as (h2 & fs & E2 & N2 & R2 & D2 & I2).
  assert (Hd : funcs_dict [] fs = fs).
  { apply (funcs_dict_app fs []). cbn [app]. rewrite I2. apply nodup_N_NoDup; auto. }
  exists h2, (mkM tok gid fs). split.
  { unfold deser_model, t2p_m. cbn [mp_graph mp_funcs mp_tok mt_tok mt_graph mt_funcs]. rewrite E1, E2, Hd. reflexivity. }
  pose proof (nested_ngr _ _ N2) as Hg12.
  unfold unfold2_model. cbn [m_tok m_graph m_funcs]. f_equal.
  - unfold unfold2_root. eapply real2_g_unfold.
    + eapply real2_g_nested; eauto.
    + unfold ser_fuel. fold (ngr h2). cbn in D1. lia.
  - apply Forall2_map_eq. eapply Forall2_impl_In; [|exact R2]. intros f F _ HF Hr. cbn beta.
    eapply real2_f_unfold; eauto. unfold ser_fuel. fold (ngr h2). specialize (D2 F HF). lia.
Qed.

(* C17/Fix2DeserF.v — helper lemmas for the graph case of deser2. *)
From Coq Require Import NArith List Bool Arith Lia.
From IRV Require Import Base.Exn C03.Model C03.Canon C03.Inv C03.Tree C03.TreeF C03.IsoSpecs C17.Basics C17.Specs C17.Steps C17.Phases C17.OpNode C17.OpGraph C17.Deser C03.IsoDeserA C03.IsoDeserB C03.IsoDeserC C03.IsoDeserD C03.IsoDeserE C03.IsoDeserF C03.IsoDeserG C17.Tree2 C17.Fix2DeserA C17.Fix2DeserB C17.Fix2DeserC C17.Fix2DeserD C17.Fix2DeserE.
Import ListNotations.

Arguments alloc_value : simpl never.
Arguments lookup : simpl never.

Lemma skipn_app_len {A} (l1 l2 : list A) : skipn (length l1) (l1 ++ l2) = l2.
Proof. induction l1; simpl; auto. Qed.

Lemma ref_eqb_refl r : ref_eqb r r = true.
Proof. destruct r as [[a b]|]; simpl; auto. rewrite !Nat.eqb_refl. auto. Qed.

Lemma Forall2_nth {A B} (P : A -> B -> Prop) l1 l2 : Forall2 P l1 l2 ->
  forall j a b, nth_error l1 j = Some a -> nth_error l2 j = Some b -> P a b.
Proof.
  induction 1 as [|x y l l' Hxy F IH]; intros [|j] a b Ha Hb; simpl in *; try discriminate.
  - inversion Ha; inversion Hb; subst; auto.
  - eauto.
Qed.
Lemma map_nth_eq {A B} (f : A -> B) : forall l1 l2, length l1 = length l2 ->
  (forall j a b, nth_error l1 j = Some a -> nth_error l2 j = Some b -> f a = b) -> map f l1 = l2.
Proof.
  induction l1 as [|a l1 IH]; intros [|b l2] Hl H; simpl in *; try discriminate; auto.
  f_equal; [apply (H 0 a b); auto | apply IH; [lia|]]. intros j a' b' Ha Hb. apply (H (S j)); auto.
Qed.

Lemma wf2_ins_nth inn outn : forall ins j0, wf2_ins inn outn ins j0 = true ->
  forall j d, nth_error ins j = Some d ->
  vd_named d = true /\ vd_out d = memN (vd_name d) outn && is_last (vd_name d) (j0 + j) inn.
Proof.
  induction ins as [|d0 r IH]; intros j0 H j d Hj; [destruct j; discriminate|].
  cbn [wf2_ins] in H. apply andb_prop in H. destruct H as (H & Hr). apply andb_prop in H. destruct H as (Ha & Hb).
  destruct j as [|j]; simpl in Hj.
  - inversion Hj; subst. rewrite Nat.add_0_r. apply eqb_prop in Hb. auto.
  - replace (j0 + S j) with (S j0 + j) by lia. eapply IH; eauto.
Qed.

(* inputs with their exact payloads *)
Lemma phase1x b (I : N -> N -> Prop) (vis : list vinfo) h :
  b = nv h -> (forall i, In i vis -> vi_bad i = false /\ I (vi_name i) (vi_pay i)) ->
  exists h1 invs h2, alloc_inputs h vis = (h1, invs) /\ apply_infos h1 vis invs = Ok h2 /\
    hn h2 = hn h /\ hg h2 = hg h /\ ht h2 = ht h /\ nv h2 = nv h + length vis /\
    (forall u, u < nv h -> getv h2 u = getv h u) /\
    TB b I h2 (table_of [] vis invs) /\
    nms (table_of [] vis invs) = map vi_name vis /\ ids (table_of [] vis invs) = invs /\
    invs = seq (nv h) (length vis) /\
    Forall2 (fun i v => getv h2 v = Some (fresh_value (Some (vi_name i)) None (vi_pay i))) vis invs.
Proof.
  intros Hb Hv. destruct (alloc_inputs h vis) as [h1 invs] eqn:E1.
  destruct (alloc_inputs_spec _ _ _ _ E1) as (A1 & A2 & A3 & A4 & A5 & A6 & A7).
  assert (Hlen : length invs = length vis) by (rewrite A7; apply seq_length).
  assert (Hnd : NoDup invs) by (rewrite A7; apply seq_NoDup).
  assert (Hlt : forall v, In v invs -> nv h <= v < nv h1).
  { intros v Hin. rewrite A7 in Hin. apply in_seq in Hin. lia. }
  destruct (apply_infos_spec vis invs h1) as (h2 & E2 & B1 & B2 & B3 & B4 & B5 & B6); auto.
  { intros v Hin. apply Hlt in Hin. lia. }
  { intros i Hi. apply Hv; auto. }
  destruct (table_of_spec vis invs [] Hlen) as (T1 & T2).
  assert (FF : Forall2 (fun i v => getv h2 v = Some (fresh_value (Some (vi_name i)) None (vi_pay i))) vis invs).
  { eapply Forall2_impl; [|exact (Forall2_and _ _ _ _ A6 B6)]. intros i v (G1 & G2). rewrite G1 in G2. exact G2. }
  exists h1, invs, h2. csplit; auto; try congruence.
  - intros u Hu. rewrite B5, A5; auto. intros Hin. apply Hlt in Hin. lia.
  - intros k v Hin. apply T2 in Hin. destruct Hin as [[]|Hin].
    destruct (Forall2_combine_inv vi_name _ _ _ _ _ FF Hin) as (i & Hi & -> & G).
    assert (Hvin : In v invs) by (eapply in_combine_r; eauto).
    eapply tent_fresh; [| exact G |].
    + apply Hlt in Hvin. lia.
    + apply Hv; auto.
  - rewrite table_of_ids; auto.
Qed.

(* the parts of gdefs, by lookup in the table *)
Lemma filter_look2 {A} (g : A -> N) (pin : A -> bool) t (invs : list nat) l vs :
  Forall2 (fun a v => (pin a = false -> look t (g a) = v) /\ mem v invs = pin a) l vs ->
  filter (fun v => negb (mem v invs)) vs = map (look t) (map g (filter (fun a => negb (pin a)) l)).
Proof.
  induction 1 as [|a v l l' (H1 & H2) F IH]; simpl; auto. rewrite H2.
  destruct (pin a) eqn:Ep; simpl; auto. f_equal; auto. symmetry. auto.
Qed.

Lemma gdefs_nodes2 (Q : nat -> Prop) h h' tbl t2 outer :
  (forall n y, getn h n = Some y -> exists y', getn h' n = Some y' /\ n_outputs y' = n_outputs y) ->
  keepsP Q h h' ->
  (forall k v, In (k, v) tbl -> k <> 0%N -> exists x, getv h' v = Some x /\ v_name x = Some k) ->
  forall Ts cur ns lvl, pre2_ns Q h outer cur tbl ns Ts lvl ->
  (forall k v, In k (tout_names Ts) -> In (k, v) tbl -> look t2 k = v) ->
  flat_map (fun n => match getn h' n with Some y => filter (named_ne h') (n_outputs y) | None => [] end) ns
  = map (look t2) (tout_names Ts).
Proof.
  intros Hn K HT. induction Ts as [|t r IH]; intros cur ns lvl H HL.
  - destruct H as (-> & _). reflexivity.
  - destruct ns as [|n ns']; [destruct H|]. destruct H as (cur1 & H1 & H2). cbn [flat_map tout_names] in *.
    rewrite map_app, (IH _ _ _ H2) by (intros; apply HL; auto; apply in_or_app; auto). f_equal.
    destruct t as [|nname op ntok ins outs attrs]; [destruct H1|].
    destruct H1 as (y & Hy & _ & _ & _ & _ & _ & _ & Ho & _). destruct (Hn _ _ Hy) as (y' & Hy' & Eo). rewrite Hy', Eo.
    assert (HL' : forall k v, In k (nz (map vd_name outs)) -> In (k, v) tbl -> look t2 k = v).
    { intros k v Hk. apply HL. apply in_or_app; auto. }
    clear - Ho K HT HL'. induction Ho as [|v d l l' Hvd F IH]; [reflexivity|]. cbn [filter map] in *. rewrite nz_cons in *.
    unfold out_rel2 in Hvd. destruct (N.eqb_spec (vd_name d) 0) as [Hz|Hz].
    + destruct Hvd as ((Hq & Hr) & Hv & Hd). rewrite <- (vdesc_keepP Q h h' v K Hq Hr) in Hv. rewrite Hd in Hv.
      assert (Hne : named_ne h' v = false).
      { pose proof (f_equal vd_name Hv) as E1. unfold vdesc_of in E1. unfold named_ne.
        destruct (getv h' v) as [x|]; auto. cbn in E1. destruct (v_name x) as [k|]; auto. subst k. reflexivity. }
      rewrite Hne. auto.
    + destruct (HT _ _ Hvd Hz) as (x & Hx & Hnm).
      assert (Hne : named_ne h' v = true).
      { unfold named_ne. rewrite Hx, Hnm. destruct (N.eqb_spec (vd_name d) 0); auto; contradiction. }
      rewrite Hne. cbn [map]. f_equal.
      * symmetry. apply HL'; auto. left; auto.
      * apply IH. intros k u Hk. apply HL'. right; auto.
Qed.

Lemma nth_error_map_some {A B} (f : A -> B) l j b : nth_error (map f l) j = Some b -> exists a, nth_error l j = Some a /\ f a = b.
Proof.
  rewrite nth_error_map. destruct (nth_error l j) as [a|]; simpl; intros H; inversion H; eauto.
Qed.

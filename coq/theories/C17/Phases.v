(* C17/Phases.v — the non-recursive phases of _deserialize_graph / _deserialize_node preserve the scope
   invariant st_ok (C17/Steps.v): inputs, initializers, _declare_node_outputs, input resolution with
   placeholders, output lookup, graph outputs. *)
From Coq Require Import NArith List Bool Arith Lia.
From IRV Require Import Base.Exn C03.Model C03.Inv C17.Basics C17.Steps.
Import ListNotations.

Lemma lookup_cons {A} k k' (a : A) t : lookup k ((k', a) :: t) = if N.eqb k k' then Some a else lookup k t.
Proof. reflexivity. Qed.

Arguments alloc_value : simpl never.
Arguments alloc_tensor : simpl never.
Arguments apply_info : simpl never.
Arguments apply_info_opt : simpl never.
Arguments apply_info_init : simpl never.
Arguments lookup_scopes : simpl never.
Arguments in_table : simpl never.
Arguments lookup : simpl never.

Ltac csplit := match goal with |- _ /\ _ => split; [|csplit] | _ => idtac end.

Lemma alloc_step b ON h nm c p h' v : alloc_value h nm c p = (h', v) -> step b ON h h'.
Proof.
  intros Ha. destruct (alloc_getv _ _ _ _ _ _ Ha) as (Hv & Hnv & Hn & Hg & Ht & Hnew & Hold & Hinv).
  unfold step, nn, ngr. rewrite Hn, Hg, Hnv. csplit; auto.
  intros u x Hu. exists x. split; auto.
Qed.

Lemma st_ok_alloc b ON sc h cur nm c p h' v :
  st_ok b ON sc h cur -> alloc_value h nm c p = (h', v) -> st_ok b ON sc h' cur.
Proof.
  intros Hs Ha. eapply st_ok_step; eauto.
  - eapply alloc_value_inv; eauto. apply (so_inv _ _ _ _ _ Hs).
  - eapply alloc_step; eauto.
Qed.

Lemma st_ok_alloc_cons b ON sc h cur k c p h' v :
  st_ok b ON sc h cur -> alloc_value h (Some k) c p = (h', v) -> st_ok b ON sc h' ((k, v) :: cur).
Proof.
  intros Hs Ha. pose proof (st_ok_alloc _ _ _ _ _ _ _ _ _ _ Hs Ha) as Hs'.
  destruct (alloc_getv _ _ _ _ _ _ Ha) as (Hv & Hnv & Hn & Hg & Ht & Hnew & Hold & Hinv).
  eapply st_ok_cons; eauto; try (subst v; apply (so_b _ _ _ _ _ Hs)); try (repeat split; reflexivity).
Qed.

(* ---- inputs *)
Lemma alloc_inputs_ok b ON sc : forall ins h cur h1 invs,
  st_ok b ON sc h cur -> alloc_inputs h ins = (h1, invs) ->
  st_ok b ON sc h1 (table_of cur ins invs) /\ step b ON h h1 /\
  (forall kv, In kv cur -> In kv (table_of cur ins invs)) /\
  (forall v, In v invs -> exists k, In (k, v) (table_of cur ins invs)).
Proof.
  induction ins as [|i r IH];  cbn; intros h cur h1 invs Hs Ha.
  - inversion Ha; subst. simpl. csplit; auto using step_refl. intros v [].
  - destruct (alloc_value h (Some (vi_name i)) None 0%N) as [h0 v] eqn:Ea.
    destruct (alloc_inputs h0 r) as [h2 vs] eqn:Er. inversion Ha; subst; clear Ha.
    pose proof (st_ok_alloc_cons _ _ _ _ _ _ _ _ _ _ Hs Ea) as Hs0.
    destruct (IH _ _ _ _ Hs0 Er) as (A & B & C & D). simpl. csplit; auto.
    + eapply step_trans; eauto. eapply alloc_step; eauto.
    + intros kv Hin. apply C. right; auto.
    + intros u [Hu|Hu]; [subst u; exists (vi_name i); apply C; left; auto | auto].
Qed.

Lemma apply_infos_same_core : forall ins vs h h', apply_infos h ins vs = Ok h' -> same_core h h'.
Proof.
  induction ins as [|i r IH]; intros [|v vs] h h' H; cbn in H; try (inversion H; subst; apply same_core_refl).
  destruct (apply_info h i v) as [h1|e] eqn:E; [|discriminate].
  eapply same_core_trans; [eapply apply_info_same_core; eauto | eauto].
Qed.

Lemma alloc_tensors_same_core : forall ts h h' cs, alloc_tensors h ts = Ok (h', cs) -> same_core h h'.
Proof.
  induction ts as [|t r IH];  cbn; intros h h' cs H.
  - inversion H; subst. apply same_core_refl.
  - destruct (tp_bad_ctor t); [discriminate|].
    destruct (alloc_tensor h (Some (tp_name t)) (tp_tok t) (tp_pay t) (tp_bad_info t) (tp_fill t)) as [h1 c] eqn:Ea.
    destruct (alloc_tensors h1 r) as [[h2 cs']|e] eqn:Er; [|discriminate]. inversion H; subst.
    eapply same_core_trans; [eapply alloc_tensor_same_core; eauto | eauto].
Qed.

(* ---- initializers *)
Lemma apply_info_init_same_core h t vis v h' : apply_info_init h t vis v = Ok h' -> same_core h h'.
Proof.
  unfold apply_info_init. destruct (vi_lookup (tp_name t) vis) as [i|].
  - destruct (vi_bad i); intros H; inversion H; subst. apply updv_same_core. intros x; reflexivity.
  - intros H; inversion H; subst. apply same_core_refl.
Qed.

Lemma deser_inits_ok b ON sc vis : forall ts cs h tbl h1 tbl1 vs,
  st_ok b ON sc h tbl -> deser_inits h tbl vis ts cs = Ok (h1, tbl1, vs) ->
  st_ok b ON sc h1 tbl1 /\ step b ON h h1 /\
  (forall kv, In kv tbl -> In kv tbl1) /\
  (forall v, In v vs -> exists k, k <> 0%N /\ In (k, v) tbl1).
Proof.
  induction ts as [|t r IH]; intros [|c cr] h tbl h1 tbl1 vs Hs H; cbn in H;
    try (inversion H; subst; csplit; auto using step_refl; intros v []).
  destruct (N.eqb_spec (tp_name t) 0) as [Hz|Hz]; [eauto|].
  destruct (existsb (fun t' => N.eqb (tp_name t') (tp_name t)) r) eqn:Edup; [eauto|].
  destruct (lookup (tp_name t) tbl) as [v|] eqn:El.
  - destruct (deser_inits (updv h v (with_const (Some c))) tbl vis r cr) as [[[h2 t2] vs']|e] eqn:Er; [|discriminate].
    inversion H; subst; clear H.
    assert (Hc : same_core h (updv h v (with_const (Some c)))) by (apply updv_same_core; intros; reflexivity).
    pose proof (st_ok_same_core _ _ _ _ _ _ Hs Hc) as Hs0.
    destruct (IH _ _ _ _ _ _ Hs0 Er) as (A & B & C & D). csplit; auto.
    + eapply step_trans; [apply same_core_step; eauto | eauto].
    + intros u [Hu|Hu]; [subst u; exists (tp_name t); split; auto; apply C; apply lookup_In; auto | auto].
  - destruct (tp_bad_info t); [discriminate|].
    destruct (alloc_value h (Some (tp_name t)) (Some c) (tp_pay t)) as [h0 v] eqn:Ea.
    destruct (apply_info_init h0 t vis v) as [h2|e] eqn:Ei; [|discriminate].
    destruct (deser_inits h2 ((tp_name t, v) :: tbl) vis r cr) as [[[h3 t3] vs']|e] eqn:Er; [|discriminate].
    inversion H; subst; clear H.
    pose proof (st_ok_alloc_cons _ _ _ _ _ _ _ _ _ _ Hs Ea) as Hs0.
    pose proof (apply_info_init_same_core _ _ _ _ _ Ei) as Hc.
    pose proof (st_ok_same_core _ _ _ _ _ _ Hs0 Hc) as Hs2.
    destruct (IH _ _ _ _ _ _ Hs2 Er) as (A & B & C & D). csplit; auto.
    + eapply step_trans; [eapply alloc_step; eauto|]. eapply step_trans; [apply same_core_step; eauto | eauto].
    + intros kv Hin. apply C. right; auto.
    + intros u [Hu|Hu]; [subst u; exists (tp_name t); split; auto; apply C; left; auto | auto].
Qed.

(* ---- _declare_node_outputs *)
Definition nz (l : list name) : list name := filter (fun k => negb (N.eqb k 0)) l.

Lemma declare_outs_ok b ON sc vis : forall outs h tbl h1 tbl1,
  st_ok b ON sc h tbl -> declare_outs h tbl vis outs = Ok (h1, tbl1) ->
  st_ok b ON sc h1 tbl1 /\ step b ON h h1 /\
  (forall kv, In kv tbl -> In kv tbl1) /\
  NoDup (nz outs) /\
  (forall k, In k (nz outs) -> in_table k tbl = false) /\
  (forall k, In k (nz outs) -> in_table k tbl1 = true).
Proof.
  induction outs as [|k r IH];  cbn; intros h tbl h1 tbl1 Hs H.
  - inversion H; subst. csplit; auto using step_refl; try constructor; intros k [].
  - destruct (N.eqb_spec k 0) as [Hz|Hz]; simpl; [eauto|].
    destruct (in_table k tbl) eqn:Et; [discriminate|].
    destruct (alloc_value h (Some k) None 0%N) as [h0 v] eqn:Ea.
    destruct (apply_info_opt h0 k vis v) as [h2|e] eqn:Ei; [|discriminate].
    pose proof (st_ok_alloc_cons _ _ _ _ _ _ _ _ _ _ Hs Ea) as Hs0.
    pose proof (apply_info_opt_same_core _ _ _ _ _ Ei) as Hc.
    pose proof (st_ok_same_core _ _ _ _ _ _ Hs0 Hc) as Hs2.
    destruct (IH _ _ _ _ Hs2 H) as (A & B & C & D & E & F).
    assert (Hmono : forall k', in_table k' ((k, v) :: tbl) = false -> in_table k' tbl = false).
    { intros k'. unfold in_table. rewrite lookup_cons. destruct (N.eqb k' k); [discriminate | auto]. }
    csplit; auto.
    + eapply step_trans; [eapply alloc_step; eauto|]. eapply step_trans; [apply same_core_step; eauto | eauto].
    + intros kv Hin. apply C. right; auto.
    + constructor; auto. intros Hin. specialize (E _ Hin). unfold in_table in E. rewrite lookup_cons in E.
      rewrite N.eqb_refl in E. discriminate.
    + intros k' [Hk|Hk]; [subst; auto | auto].
    + intros k' [Hk|Hk]; [subst k'; eapply In_in_table; apply C; left; reflexivity | auto].
Qed.

Fixpoint out_names (ns : nprotos) : list name :=
  match ns with
  | NNil => []
  | NCons (Np _ _ _ _ outs _) r => nz outs ++ out_names r
  end.
Fixpoint outs_nodup (ns : nprotos) : Prop :=
  match ns with
  | NNil => True
  | NCons (Np _ _ _ _ outs _) r => NoDup (nz outs) /\ outs_nodup r
  end.

Lemma declare_nodes_ok b ON sc vis : forall ns h tbl h1 tbl1,
  st_ok b ON sc h tbl -> declare_nodes h tbl vis ns = Ok (h1, tbl1) ->
  st_ok b ON sc h1 tbl1 /\ step b ON h h1 /\
  (forall kv, In kv tbl -> In kv tbl1) /\
  outs_nodup ns /\
  (forall k, In k (out_names ns) -> in_table k tbl = false).
Proof.
  induction ns as [|[nname op ntok ins outs attrs] r IH];  cbn; intros h tbl h1 tbl1 Hs H.
  - inversion H; subst. csplit; auto using step_refl. intros k [].
  - destruct (declare_outs h tbl vis outs) as [[h0 t0]|e] eqn:Ed; [|discriminate].
    destruct (declare_outs_ok _ _ _ _ _ _ _ _ _ Hs Ed) as (A & B & C & D & E & F).
    destruct (IH _ _ _ _ A H) as (A' & B' & C' & D' & E'). csplit; auto.
    + eapply step_trans; eauto.
    + intros k Hin. apply in_app_or in Hin. destruct Hin as [Hin|Hin]; auto.
      specialize (E' _ Hin). destruct (in_table k tbl) eqn:Et; auto.
      unfold in_table in Et. destruct (lookup k tbl) eqn:El; [|discriminate].
      apply lookup_In in El. apply C in El. apply In_in_table in El. congruence.
Qed.

(* ---- node inputs (placeholders) *)
Lemma resolve_inputs_ok b ON sc vis : forall ins h cur h1 cur1 l,
  st_ok b ON sc h cur -> resolve_inputs h cur sc vis ins = Ok (h1, cur1, l) ->
  st_ok b ON sc h1 cur1 /\ step b ON h h1 /\
  (forall kv, In kv cur -> In kv cur1) /\
  (forall v, In (Some v) l -> v < nv h1).
Proof.
  induction ins as [|k r IH];  cbn; intros h cur h1 cur1 l Hs H.
  - inversion H; subst. csplit; auto using step_refl. intros v [].
  - destruct (N.eqb_spec k 0) as [Hz|Hz].
    + destruct (resolve_inputs h cur sc vis r) as [[[h2 c2] l2]|e] eqn:Er; [|discriminate].
      inversion H; subst; clear H. destruct (IH _ _ _ _ _ Hs Er) as (A & B & C & D).
      csplit; auto. intros v [Hv|Hv]; [discriminate | auto].
    + destruct (lookup_scopes k (cur :: sc)) as [v|] eqn:El.
      * destruct (resolve_inputs h cur sc vis r) as [[[h2 c2] l2]|e] eqn:Er; [|discriminate].
        inversion H; subst; clear H. destruct (IH _ _ _ _ _ Hs Er) as (A & B & C & D).
        csplit; auto. intros u [Hu|Hu]; auto. inversion Hu; subst u.
        assert (Hlt : v < nv h).
        { apply lookup_scopes_In in El. destruct El as (t & [Ht|Ht] & Hin).
          - subst t. destruct (so_tbl _ _ _ _ _ Hs _ _ Hin) as (_ & x & Hx & _). eapply getv_lt; eauto.
          - eapply (so_sc _ _ _ _ _ Hs); eauto. }
        destruct B as (B1 & _). lia.
      * destruct (alloc_value h (Some k) None 0%N) as [h0 v] eqn:Ea.
        destruct (apply_info_opt h0 k vis v) as [h2|e] eqn:Ei; [|discriminate].
        destruct (resolve_inputs h2 ((k, v) :: cur) sc vis r) as [[[h3 c3] l3]|e] eqn:Er; [|discriminate].
        inversion H; subst; clear H.
        pose proof (st_ok_alloc_cons _ _ _ _ _ _ _ _ _ _ Hs Ea) as Hs0.
        pose proof (apply_info_opt_same_core _ _ _ _ _ Ei) as Hc.
        pose proof (st_ok_same_core _ _ _ _ _ _ Hs0 Hc) as Hs2.
        destruct (IH _ _ _ _ _ Hs2 Er) as (A & B & C & D). csplit; auto.
        -- eapply step_trans; [eapply alloc_step; eauto|]. eapply step_trans; [apply same_core_step; eauto | eauto].
        -- intros kv Hin. apply C. right; auto.
        -- intros u [Hu|Hu]; auto. inversion Hu; subst u.
           destruct (so_tbl _ _ _ _ _ A k v) as (_ & x & Hx & _); [apply C; left; auto|]. eapply getv_lt; eauto.
Qed.

(* ---- node outputs *)
Lemma resolve_outputs_ok b ON sc : forall outs h cur h1 l,
  st_ok b ON sc h cur -> resolve_outputs h cur outs = Ok (h1, l) -> NoDup (nz outs) ->
  st_ok b ON sc h1 cur /\ step b ON h h1 /\
  (forall v, In v l -> b <= v /\ exists x k, getv h1 v = Some x /\ In k outs /\ fresh_like k x) /\
  (forall v, In v l -> (exists k, k <> 0%N /\ In k outs /\ lookup k cur = Some v) \/ nv h <= v) /\
  NoDup l.
Proof.
  induction outs as [|k r IH];  cbn; intros h cur hf l Hs H Hnd.
  - inversion H; subst. csplit; auto using step_refl; try (intros v []); constructor.
  - destruct (N.eqb_spec k 0) as [Hz|Hz]; simpl in Hnd.
    + subst k. destruct (alloc_value h (Some 0%N) None 0%N) as [h0 v] eqn:Ea.
      destruct (resolve_outputs h0 cur r) as [[h2 l2]|e] eqn:Er; [|discriminate].
      inversion H; subst; clear H.
      pose proof (st_ok_alloc _ _ _ _ _ _ _ _ _ _ Hs Ea) as Hs0.
      destruct (alloc_getv _ _ _ _ _ _ Ea) as (Hv & Hnv & Hn & Hg & Ht & Hnew & Hold & Hinv).
      destruct (IH _ _ _ _ Hs0 Er Hnd) as (A & B & C & D & E).
      assert (Bs : step b ON h hf) by (eapply step_trans; [eapply alloc_step; eauto | eauto]).
      csplit; auto.
      * intros u [Hu|Hu].
        -- subst u. split; [rewrite Hv; apply (so_b _ _ _ _ _ Hs)|].
           destruct B as (_ & _ & _ & B4). destruct (B4 _ _ Hnew) as (x' & Hx' & Ev & _).
           exists x', 0%N. split; auto. split; [left; auto|]. unfold vst in Ev; inversion Ev.
           unfold fresh_like, fresh_value in *; simpl in *. intuition congruence.
        -- destruct (C _ Hu) as (Hb & x & k & Hx & Hk & Hf). split; auto. exists x, k. auto.
      * intros u [Hu|Hu]; [right; lia|]. destruct (D _ Hu) as [(k & Hk & Hin & Hl)|Hge].
        -- left. exists k. auto.
        -- right. lia.
      * constructor; auto. intros Hin. destruct (D _ Hin) as [(k & Hk & Hkin & Hl)|Hge]; [|lia].
        apply lookup_In in Hl. destruct (so_tbl _ _ _ _ _ Hs _ _ Hl) as (_ & x & Hx & _).
        apply getv_lt in Hx. lia.
    + inversion Hnd as [|? ? Hnotin Hnd']; subst.
      destruct (lookup k cur) as [v|] eqn:El; [|discriminate].
      destruct (resolve_outputs h cur r) as [[h2 l2]|e] eqn:Er; [|discriminate].
      inversion H; subst; clear H.
      destruct (IH _ _ _ _ Hs Er Hnd') as (A & B & C & D & E).
      pose proof (lookup_In _ _ _ El) as Hin.
      destruct (so_tbl _ _ _ _ _ Hs _ _ Hin) as (Hbv & x & Hx & Hf).
      csplit; auto.
      * intros u [Hu|Hu].
        -- subst u. split; auto. destruct (so_tbl _ _ _ _ _ A _ _ Hin) as (_ & x1 & Hx1 & Hf1).
           exists x1, k. auto.
        -- destruct (C _ Hu) as (Hb & x1 & k1 & Hx1 & Hk1 & Hf1). split; auto. exists x1, k1. auto.
      * intros u [Hu|Hu]; [subst u; left; exists k; auto|].
        destruct (D _ Hu) as [(k1 & Hk1 & Hin1 & Hl1)|Hge].
        -- left. exists k1. auto.
        -- right. auto.
      * constructor; auto. intros Hin2. destruct (D _ Hin2) as [(k1 & Hk1 & Hkin1 & Hl1)|Hge].
        -- (* same value under two names: impossible, the table is name-consistent *)
           apply lookup_In in Hl1. destruct (so_tbl _ _ _ _ _ Hs _ _ Hl1) as (_ & x1 & Hx1 & (Hn1 & _)).
           destruct Hf as (Hn & _). rewrite Hx in Hx1. inversion Hx1; subst x1. rewrite Hn in Hn1.
           inversion Hn1; subst k1. apply Hnotin. unfold nz. apply filter_In. split; auto.
           destruct (N.eqb_spec k 0); auto.
        -- apply getv_lt in Hx. lia.
Qed.

(* ---- graph outputs *)
Lemma graph_outputs_ok b ON sc : forall outs h tbl h1 l,
  st_ok b ON sc h tbl -> graph_outputs h tbl outs = Ok (h1, l) ->
  st_ok b ON sc h1 tbl /\ step b ON h h1 /\ (forall v, In v l -> b <= v).
Proof.
  induction outs as [|i r IH];  cbn; intros h tbl h1 l Hs H.
  - inversion H; subst. csplit; auto using step_refl. intros v [].
  - destruct (lookup (vi_name i) tbl) as [v|] eqn:El.
    + destruct (apply_info h i v) as [h2|e] eqn:Ei; [|discriminate].
      destruct (graph_outputs h2 tbl r) as [[h3 l3]|e] eqn:Er; [|discriminate]. inversion H; subst; clear H.
      pose proof (apply_info_same_core _ _ _ _ Ei) as Hc.
      pose proof (st_ok_same_core _ _ _ _ _ _ Hs Hc) as Hs2.
      destruct (IH _ _ _ _ Hs2 Er) as (A & B & C). csplit; auto.
      * eapply step_trans; [apply same_core_step; eauto | eauto].
      * intros u [Hu|Hu]; auto. subst u. apply lookup_In in El. apply (so_tbl _ _ _ _ _ Hs _ _ El).
    + destruct (alloc_value h (Some (vi_name i)) None 0%N) as [h0 v] eqn:Ea.
      destruct (apply_info h0 i v) as [h2|e] eqn:Ei; [|discriminate].
      destruct (graph_outputs h2 tbl r) as [[h3 l3]|e] eqn:Er; [|discriminate]. inversion H; subst; clear H.
      pose proof (st_ok_alloc _ _ _ _ _ _ _ _ _ _ Hs Ea) as Hs0.
      pose proof (apply_info_same_core _ _ _ _ Ei) as Hc.
      pose proof (st_ok_same_core _ _ _ _ _ _ Hs0 Hc) as Hs2.
      destruct (IH _ _ _ _ Hs2 Er) as (A & B & C). csplit; auto.
      * eapply step_trans; [eapply alloc_step; eauto|]. eapply step_trans; [apply same_core_step; eauto | eauto].
      * intros u [Hu|Hu]; auto. subst u.
        destruct (alloc_getv _ _ _ _ _ _ Ea) as (Hv & _). rewrite Hv. apply (so_b _ _ _ _ _ Hs).
Qed.

(* C17/Fix2Thm.v — re-serialization fixpoint for every deserialized state whose generalised unfolding is well
   formed (placeholders, duplicated/empty input names, unknown outputs allowed). *)
From Coq Require Import NArith List Bool Arith Lia.
From IRV Require Import Base.Exn C03.Model C03.Canon C03.Inv C03.Tree C03.TreeF C03.PayFixDefs C17.Tree2 C17.Fix2Specs
  C17.Fix2Ser C17.Fix2Deser C17.Fix2Pay.
Import ListNotations.

Section Assemble.
  Let HA : ser2_spec := ser2.
  Let HB : deser2_spec := deser2.
  Let HP : payfix2_spec := payfix2.

  Theorem ser_fixpoint2 np h m h1 q :
    np_ok np = true -> np_idem np = true ->
    ser_model np h m = Ok (h1, q) -> wf2_m (unfold2_model np h m) = true ->
    exists h' m' h'', deser_model q = Ok (h', m') /\ ser_model np h' m' = Ok (h'', q).
  Proof.
    intros Hnp Hi Hser Hw.
    destruct (HA np h m Hnp Hw) as (h1' & Hser'). rewrite Hser in Hser'. inversion Hser'; subst h1' q; clear Hser'.
    destruct (HB _ Hw) as (h2 & m2 & Hd & Hu). destruct HP as (P1 & P2).
    assert (E : unfold2_model np h2 m2 = unfold2_model np h m).
    { transitivity (unfold2_model [] h2 m2); [|exact Hu]. apply P2. rewrite Hu. apply P1; auto. }
    assert (Hw2 : wf2_m (unfold2_model np h2 m2) = true) by (rewrite E; exact Hw).
    destruct (HA np h2 m2 Hnp Hw2) as (h3 & Hser2). rewrite E in Hser2.
    exists h2, m2, h3. auto.
  Qed.
End Assemble.

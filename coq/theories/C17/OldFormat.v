(* C17/OldFormat.v — theorems about the IR<10 experimental function value-info format (C03/ModelOld.v):
   the post-pass of the deserializer only rewrites payloads, so the invariant survives; the serializer is still
   read-only up to tensor names; and the re-serialization fixpoint FAILS in this format (name collision). *)
From Coq Require Import NArith List Bool Arith Lia.
From IRV Require Import Base.Exn C03.Model C03.Canon C03.Inv C03.ModelOld C03.Readonly C17.Basics C17.Steps C17.Top.
Import ListNotations.

Lemma exp_apply_same_core X vis fid h v h' : exp_apply X vis fid h v = Ok h' -> same_core h h'.
Proof.
  unfold exp_apply. destruct (getv h v) as [x|]; [|intros H; inversion H; apply same_core_refl].
  destruct (v_name x) as [k|]; [|intros H; inversion H; apply same_core_refl].
  destruct (exp_lookup X fid k vis) as [i|]; [apply apply_info_same_core | intros H; inversion H; apply same_core_refl].
Qed.
Lemma exp_apply_all_same_core X vis fid : forall vs h h', exp_apply_all X vis fid h vs = Ok h' -> same_core h h'.
Proof.
  induction vs as [|v r IH]; simpl; intros h h' H; [inversion H; apply same_core_refl|].
  destruct (exp_apply X vis fid h v) as [h1|e] eqn:E; [|discriminate].
  eapply same_core_trans; [eapply exp_apply_same_core; eauto | eauto].
Qed.
Lemma exp_apply_nodes_same_core X vis fid : forall ns h h', exp_apply_nodes X vis fid h ns = Ok h' -> same_core h h'.
Proof.
  induction ns as [|n r IH]; simpl; intros h h' H; [inversion H; apply same_core_refl|].
  match type of H with context [exp_apply_all X vis fid h ?l] => destruct (exp_apply_all X vis fid h l) as [h1|e] eqn:E; [|discriminate] end.
  eapply same_core_trans; [eapply exp_apply_all_same_core; eauto | eauto].
Qed.
Lemma exp_apply_function_same_core X vis h f h' : exp_apply_function X vis h f = Ok h' -> same_core h h'.
Proof.
  unfold exp_apply_function. destruct (getg h (f_graph f)) as [z|]; [|intros H; inversion H; apply same_core_refl].
  destruct (exp_apply_all X vis (f_id f) h (g_inputs z)) as [h1|e] eqn:E; [|discriminate]. intros H.
  eapply same_core_trans; [eapply exp_apply_all_same_core; eauto | eapply exp_apply_nodes_same_core; eauto].
Qed.
Lemma exp_apply_functions_same_core X vis : forall fs h h', exp_apply_functions X vis h fs = Ok h' -> same_core h h'.
Proof.
  induction fs as [|f r IH]; simpl; intros h h' H; [inversion H; apply same_core_refl|].
  destruct (exp_apply_function X vis h f) as [h1|e] eqn:E; [|discriminate].
  eapply same_core_trans; [eapply exp_apply_function_same_core; eauto | eauto].
Qed.

Theorem deser_model_old_inv X p h m : deser_model_old X p = Ok (h, m) -> Inv h.
Proof.
  unfold deser_model_old. destruct (deser_model p) as [[h0 m0]|e] eqn:E; [|discriminate].
  destruct (exp_apply_functions X (graph_vis (mp_graph p)) h0 (m_funcs m0)) as [h1|e] eqn:E1; [|discriminate].
  intros H; inversion H; subst. eapply same_core_inv; [eapply exp_apply_functions_same_core; eauto|].
  eapply deser_model_inv; eauto.
Qed.

Theorem deser_model_x_inv old X p h m : deser_model_x old X p = Ok (h, m) -> Inv h.
Proof. unfold deser_model_x. destruct old; [apply deser_model_old_inv | apply deser_model_inv]. Qed.

(* the serializer of the old format writes nothing but initializer tensor names either *)
Lemma ser_functions_old_readonly np Y : forall fs h h' l vs, ser_functions_old np Y h fs = Ok (h', l, vs) -> readonly h h'.
Proof.
  induction fs as [|f r IH]; simpl; intros h h' l vs H; [inversion H; subst; apply readonly_refl|].
  unfold ser_function_old in H. destruct (ser_function np h f) as [[h1 fp]|e] eqn:E1; [|discriminate].
  destruct (ser_functions_old np Y h1 r) as [[[h2 l2] vs2]|e] eqn:E2; [|discriminate]. inversion H; subst.
  eapply readonly_trans; [eapply ser_function_readonly; eauto | eauto].
Qed.
Theorem ser_model_old_readonly np Y h m h' q : ser_model_old np Y h m = Ok (h', q) -> readonly h h'.
Proof.
  unfold ser_model_old. intros H.
  destruct (ser_graph np (ser_fuel h) h (m_graph m)) as [[h1 gp]|e] eqn:E1; [|discriminate].
  destruct (ser_functions_old np Y h1 (m_funcs m)) as [[[h2 fps] es]|e] eqn:E2; [|discriminate]. inversion H; subst.
  eapply readonly_trans; [eapply ser_graph_readonly; eauto | eapply ser_functions_old_readonly; eauto].
Qed.

(* the fixpoint fails in the old format: a main-graph value named like "<domain>::<function>/<value>".
   Tokens: 7 = "D::F/a", 3 = function D::F, 1 = "a"; initializer 7 with tensor payload 5; function 3 with input a. *)
Definition old_X : xparse := [(7, (3, 1))]%N.
Definition old_Y : xcomp := [(3, 1, 7)]%N.
Definition old_witness : mproto :=
  mkMP 1%N (Gp 2%N 0%N [] [] [mkTP 7%N 9%N 5%N false false []] [] NNil) [mkFP 3%N 0%N [1%N] [] [] NNil false].
Theorem ser_fixpoint_old_refuted :
  exists h m h1 q,
    deser_model_old old_X old_witness = Ok (h, m) /\ ser_model_old [] old_Y h m = Ok (h1, q) /\
    exists h' m' h'' q', deser_model_old old_X q = Ok (h', m') /\ ser_model_old [] old_Y h' m' = Ok (h'', q') /\ q' <> q.
Proof.
  vm_compute. eexists _, _, _, _. split; [reflexivity|]. split; [reflexivity|].
  eexists _, _, _, _. split; [reflexivity|]. split; [reflexivity|]. discriminate.
Qed.

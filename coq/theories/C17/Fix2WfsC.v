(* C17/Fix2WfsC.v — punfold_wfs, stage C: the graph case of the mutual induction. *)
From Coq Require Import NArith List Bool Arith Lia.
From IRV Require Import Base.Exn C03.Model C03.Canon C03.Inv C03.Tree C03.TreeF C03.PayFixDefs C03.IsoSer C17.Tree2 C17.PUnfold C17.Fix2Defs C17.Fix2WfsA C17.Fix2WfsB.
Import ListNotations.

(* ------------------------------------------------------------------ generic list lemmas *)
Lemma combine_seq_map {A B} (g : A -> B) : forall l a,
  combine (seq a (length (map g l))) (map g l) = map (fun jx => (fst jx, g (snd jx))) (combine (seq a (length l)) l).
Proof. induction l as [|x r IH]; intros a; simpl; auto. f_equal. apply IH. Qed.
Lemma combine_seq_app {A} : forall (l1 l2 : list A) a,
  combine (seq a (length (l1 ++ l2))) (l1 ++ l2)
  = combine (seq a (length l1)) l1 ++ combine (seq (a + length l1) (length l2)) l2.
Proof.
  induction l1 as [|x r IH]; intros l2 a; simpl.
  - rewrite Nat.add_0_r. auto.
  - f_equal. rewrite IH. rewrite Nat.add_succ_r. auto.
Qed.
Lemma nth_error_mcs {A B} (G : nat * A -> B) : forall (l : list A) a i x,
  nth_error (map G (combine (seq a (length l)) l)) i = Some x ->
  exists y, nth_error l i = Some y /\ x = G (a + i, y).
Proof.
  induction l as [|z r IH]; simpl; intros a i x H.
  - destruct i; discriminate.
  - destruct i; simpl in H.
    + inversion H. exists z. rewrite Nat.add_0_r. auto.
    + apply IH in H. destruct H as (y & H1 & H2). exists y. split; auto. rewrite Nat.add_succ_r. auto.
Qed.
Lemma nth_error_mcs_fwd {A B} (G : nat * A -> B) : forall (l : list A) a i y,
  nth_error l i = Some y -> nth_error (map G (combine (seq a (length l)) l)) i = Some (G (a + i, y)).
Proof.
  induction l as [|z r IH]; simpl; intros a i y H.
  - destruct i; discriminate.
  - destruct i; simpl in *.
    + inversion H. rewrite Nat.add_0_r. auto.
    + rewrite (IH (S a) i y H). rewrite Nat.add_succ_r. auto.
Qed.
Lemma map_cs_ext {A B} (f : A -> B) (g : nat * A -> B) : forall l a,
  (forall i x, nth_error l i = Some x -> f x = g (a + i, x)) ->
  map f l = map g (combine (seq a (length l)) l).
Proof.
  induction l as [|z r IH]; simpl; intros a H; auto. f_equal.
  - rewrite (H 0 z eq_refl). rewrite Nat.add_0_r. auto.
  - apply IH. intros i x Hx. rewrite (H (S i) x Hx). rewrite Nat.add_succ_r. auto.
Qed.
Lemma map_cs_snd {A B} (g : A -> B) : forall l a,
  map (fun jx => g (snd jx)) (combine (seq a (length l)) l) = map g l.
Proof. induction l as [|z r IH]; simpl; intros a; auto. f_equal. apply IH. Qed.
Lemma skipn_len_app {A} (a b : list A) : skipn (length a) (a ++ b) = b.
Proof. induction a; simpl; auto. Qed.

(* ------------------------------------------------------------------ out flags *)
Definition rj (r : ref) (j : nat) : bool := match r with Some (_, j') => Nat.eqb j j' | None => false end.
Definition flagn (lvl : list N) (outn : list N) (j : nat) : bool := existsb (fun k => rj (resolve2 k [lvl] 0) j) outn.

Lemma flagn_D D P outn j k :
  (forall x, In x P -> ~ In x D) -> nth_error D j = Some k ->
  flagn (D ++ P) outn j = memN k outn && is_last k j D.
Proof.
  intros HP HD. assert (Lj : j < length D) by (apply nth_error_Some; congruence).
  apply eq_iff_eq_true. unfold flagn. rewrite existsb_exists, andb_true_iff, memN_In. split.
  - intros (x & I & R). cbn [resolve2] in R. destruct (index_last x (D ++ P) 0) as [n|] eqn:E; [|discriminate].
    cbn [rj] in R. apply Nat.eqb_eq in R. subst n.
    pose proof (index_last_some0 _ _ _ E) as NE. rewrite nth_error_app1 in NE by auto.
    assert (x = k) by congruence. subst x. split; auto.
    rewrite index_last_app in E. destruct (index_last k P (0 + length D)) as [j'|] eqn:EP.
    + inversion E; subst. apply index_last_some in EP. lia.
    + unfold is_last. rewrite E. simpl. apply Nat.eqb_refl.
  - intros [I L]. unfold is_last in L. destruct (index_last k D 0) as [n|] eqn:E; simpl in L; [|discriminate].
    apply Nat.eqb_eq in L. subst n. exists k. split; auto. cbn [resolve2].
    rewrite index_last_app_l, E.
    + simpl. apply Nat.eqb_refl.
    + intros IP. apply (HP k IP). eapply nth_error_In; eauto.
Qed.
Lemma flagn_last D P outn j k :
  (forall x, In x P -> ~ In x D) -> index_last k D 0 = Some j -> flagn (D ++ P) outn j = memN k outn.
Proof.
  intros HP E. rewrite (flagn_D D P outn j k HP (index_last_some0 _ _ _ E)).
  unfold is_last. rewrite E. simpl. rewrite Nat.eqb_refl. apply andb_true_r.
Qed.
Lemma flagn_in inn rest P outn j k :
  (forall x, In x rest -> ~ In x inn) -> (forall x, In x P -> ~ In x (inn ++ rest)) ->
  nth_error inn j = Some k ->
  flagn ((inn ++ rest) ++ P) outn j = memN k outn && is_last k j inn.
Proof.
  intros HR HP HJ. assert (Lj : j < length inn) by (apply nth_error_Some; congruence).
  rewrite (flagn_D (inn ++ rest) P outn j k HP).
  - unfold is_last. rewrite index_last_app_l; auto. intros I. apply (HR k I). eapply nth_error_In; eauto.
  - rewrite nth_error_app1; auto.
Qed.

Lemma wf2_ins_intro inn outn : forall l j0,
  (forall i d, nth_error l i = Some d ->
               vd_named d = true /\ vd_out d = memN (vd_name d) outn && is_last (vd_name d) (j0 + i) inn) ->
  wf2_ins inn outn l j0 = true.
Proof.
  induction l as [|a l IH]; simpl; intros j0 H; auto.
  destruct (H 0 a eq_refl) as [A B]. rewrite A, B, Nat.add_0_r, eqb_reflx. simpl.
  apply IH. intros i d Hd. specialize (H (S i) d Hd). rewrite Nat.add_succ_r in H. auto.
Qed.

(* ------------------------------------------------------------------ final payloads *)
Definition payfin (orefs : list (ref * N * N)) (j : nat) (p0 : N) : N :=
  fold_left (fun acc o => match fst (fst o) with
                          | Some (_, j') => if Nat.eqb j j' then snd o else acc
                          | None => acc
                          end) orefs p0.
Definition flagg (orefs : list (ref * N * N)) (j : nat) : bool :=
  existsb (fun o => match fst (fst o) with Some (_, j') => Nat.eqb j j' | None => false end) orefs.
Lemma payfin_indep orefs j : flagg orefs j = true -> forall p0 p0', payfin orefs j p0 = payfin orefs j p0'.
Proof.
  unfold payfin, flagg. induction orefs as [|o r IH]; simpl; intros F p0 p0'; [discriminate|].
  destruct o as [[rf k] p]; simpl in *. destruct rf as [[x j']|]; simpl in *.
  - destruct (Nat.eqb j j'); simpl in *; auto.
  - auto.
Qed.
Definition orefs_of (lvl : list N) (outs : list vinfo) : list (ref * N * N) :=
  map (fun i => (resolve2 (vi_name i) [lvl] 0, vi_name i, vi_pay i)) outs.
Lemma flagg_flagn lvl outs j : flagg (orefs_of lvl outs) j = flagn lvl (map vi_name outs) j.
Proof. unfold flagg, flagn, orefs_of. rewrite !existsb_map. reflexivity. Qed.

(* ------------------------------------------------------------------ the tree pu_g builds *)
Definition ins0_of (ins : list vinfo) : list (N * N) := map (fun i => (vi_name i, vi_pay i)) ins.
Definition initdefs_of (recs : list irec) : list (N * N) :=
  map (fun r => (ir_name r, ir_pay r)) (filter (fun r => negb (ir_input r)) recs).
Definition defs0_of ins recs (decl : list (N * N)) : list (N * N) := ins0_of ins ++ initdefs_of recs ++ decl.
Definition vdg (D : list N) (defs0 : list (N * N)) (orefs : list (ref * N * N)) (k : N) : vdesc :=
  match index_last k D 0 with
  | Some j => mkVD k true (payfin orefs j (match nth_error defs0 j with Some kp => snd kp | None => 0%N end)) (flagg orefs j)
  | None => mkVD k true 0 false
  end.
Definition ins_t (ins : list vinfo) (orefs : list (ref * N * N)) : list vdesc :=
  map (fun ji => let '(j, i) := ji in mkVD (vi_name i) true (payfin orefs j (vi_pay i)) (flagg orefs j))
      (combine (seq 0 (length ins)) ins).
Definition inits_t (ins : list vinfo) (recs : list irec) (vd : N -> vdesc) (orefs : list (ref * N * N)) : list idesc :=
  map (fun r => mkID (ir_name r) true (Some (ir_t r)) (ir_input r)
                     (if ir_input r
                      then match index_last (ir_name r) (map vi_name ins) 0 with
                           | Some j => payfin orefs j (match nth_error ins j with Some i => vi_pay i | None => 0%N end)
                           | None => 0%N
                           end
                      else vd_pay (vd (ir_name r)))) recs.
Definition outs_t (orefs : list (ref * N * N)) : list (ref * vdesc) :=
  map (fun o => let '(r, k, p) := o in
                (r, mkVD k true (match r with Some (_, j) => payfin orefs j p | None => p end) true)) orefs.
Definition build_g gname gtok ins recs decl lvl pns outs : gtree :=
  let defs0 := defs0_of ins recs decl in
  let D := map fst defs0 in
  let orefs := orefs_of lvl outs in
  let vd := vdg D defs0 orefs in
  GT gname gtok (ins_t ins orefs) (inits_t ins recs vd orefs) (ntrees_of (map (mknode vd) pns)) (outs_t orefs).

Lemma pu_g_inv outer gname gtok ins outs inits vis nodes T :
  pu_g outer (Gp gname gtok ins outs inits vis nodes) = Some T ->
  exists newn recs decl lvl pns,
    pu_inits vis (map vi_name ins) [] [] inits = Some (newn, recs)
    /\ pu_declare vis (map vi_name ins ++ newn) [] nodes = Some decl
    /\ pu_ns vis outer (map fst (defs0_of ins recs decl)) nodes = Some (lvl, pns)
    /\ T = build_g gname gtok ins recs decl lvl pns outs.
Proof.
  intros H. cbn [pu_g] in H.
  destruct (existsb vi_bad ins || existsb vi_bad outs || existsb tp_bad_ctor inits); [discriminate|].
  destruct (pu_inits vis (map vi_name ins) [] [] inits) as [[newn recs]|] eqn:E1; cbn [obind] in H; [|discriminate].
  destruct (pu_declare vis (map vi_name ins ++ newn) [] nodes) as [decl|] eqn:E2; cbn [obind] in H; [|discriminate].
  destruct (pu_ns vis outer _ nodes) as [[lvl pns]|] eqn:E3; cbn [obind] in H; [|discriminate].
  injection H as H. exists newn, recs, decl, lvl, pns. split; [first [exact E1|reflexivity]|]. split; [first [exact E2|reflexivity]|]. split; [first [exact E3|reflexivity]|].
  rewrite <- H. reflexivity.
Qed.

Lemma wfs_g_intro nsc gname gtok insT initsT nodesT outsT Lv :
  wf2_ins (map vd_name insT) (map (fun o => vd_name (snd o)) outsT) insT 0 = true ->
  forallb (wfs_init insT (map (fun o => vd_name (snd o)) outsT)) initsT = true ->
  nodup_N (map id_name initsT) = true ->
  nodup_N (skipn (length insT) (map fst (tdefs insT initsT nodesT))) = true ->
  forallb (fun k => negb (memN k (map vd_name insT))) (skipn (length insT) (map fst (tdefs insT initsT nodesT))) = true ->
  wfs_ns nsc (map fst (tdefs insT initsT nodesT)) (map (fun o => vd_name (snd o)) outsT) nodesT = Some Lv ->
  forallb (fun o => let '(r, d) := o in
                    vd_named d && vd_out d && ref_eqb r (resolve2 (vd_name d) [Lv] 0)
                    && match r with
                       | Some (_, j) =>
                         match nth_error (tdefs insT initsT nodesT) j with
                         | Some (_, p) => N.eqb p (vd_pay d)
                         | None => forallb (fun o' => negb (ref_eqb (fst o') r) || N.eqb (vd_pay (snd o')) (vd_pay d)) outsT
                         end
                       | None => true
                       end) outsT = true ->
  wfs_g nsc (GT gname gtok insT initsT nodesT outsT) = true.
Proof.
  intros H1 H2 H3 H4 H5 H6 H7. cbn [wfs_g]. rewrite H1, H2, H3, H4, H5, H6. exact H7.
Qed.

Section GraphCase.
  Variable np : list (N * N).
  Variables (outer : list (list N)) (ins outs : list vinfo) (recs : list irec) (decl : list (N * N))
            (newn P : list N) (pns : list pnode).
  Let inn := map vi_name ins.
  Let rdefs := initdefs_of recs ++ decl.
  Let defs0 := defs0_of ins recs decl.
  Let D := map fst defs0.
  Let lvl := D ++ P.
  Let orefs := orefs_of lvl outs.
  Let outn := map vi_name outs.
  Let vd := vdg D defs0 orefs.
  Let insT := map (mp_vd np) (ins_t ins orefs).
  Let initsT := map (mp_id np) (inits_t ins recs vd orefs).
  Let nodesT := mp_ns np (ntrees_of (map (mknode vd) pns)).
  Let outsT := map (fun o => (fst o, mp_vd np (snd o))) (outs_t orefs).

  Hypothesis HIA : map ir_name (filter (fun r => negb (ir_input r)) recs) = newn.
  Hypothesis HIB : NoDup (map ir_name recs).
  Hypothesis HIC : forall r, In r recs -> ir_name r <> 0%N /\ memN (ir_name r) inn = ir_input r.
  Hypothesis HIBd : forall r, In r recs -> ir_input r = false -> td_bad (ir_t r) = false.
  Hypothesis HRest : NoDup (newn ++ map fst decl).
  Hypothesis HDisj : forall k, In k (newn ++ map fst decl) -> ~ In k inn.
  Hypothesis HP : forall k, In k P -> ~ In k D.
  Hypothesis HON : filter nz (flat_map pn_outs pns) = map fst decl.

  Let Ffin := fun jk : nat * (N * N) => (fst (snd jk), npay np (payfin orefs (fst jk) (snd (snd jk)))).
  Let fin_defs := map Ffin (combine (seq 0 (length defs0)) defs0).

  Lemma gc_rest : map fst rdefs = newn ++ map fst decl.
  Proof. unfold rdefs, initdefs_of. rewrite map_app, map_map. rewrite <- HIA. reflexivity. Qed.
  Lemma gc_D : D = inn ++ map fst rdefs.
  Proof. unfold D, defs0, defs0_of, ins0_of. fold rdefs. rewrite map_app, map_map. reflexivity. Qed.
  Lemma gc_len_inn : length inn = length ins.
  Proof. unfold inn. apply map_length. Qed.
  Lemma gc_vd_name k : vd_name (vd k) = k.
  Proof. unfold vd, vdg. destruct (index_last k D 0); reflexivity. Qed.
  Lemma gc_HP' : forall x, In x P -> ~ In x (inn ++ map fst rdefs).
  Proof. rewrite <- gc_D. exact HP. Qed.
  Lemma gc_HR' : forall x, In x (map fst rdefs) -> ~ In x inn.
  Proof. rewrite gc_rest. exact HDisj. Qed.

  Lemma gc_vd_ok k : In k D -> vdf_ok outn vd k.
  Proof.
    intros I. destruct (index_last_In k D 0 I) as [j E]. unfold vdf_ok, vd, vdg. rewrite E. cbn.
    split; [auto|split; auto]. unfold orefs. rewrite flagg_flagn. unfold lvl. apply flagn_last; auto.
  Qed.

  Lemma gc_tdefs : tdefs insT initsT nodesT = fin_defs.
  Proof.
    unfold tdefs, fin_defs. fold defs0.
    assert (S1 : map (fun d => (vd_name d, vd_pay d)) insT = map Ffin (combine (seq 0 (length (ins0_of ins))) (ins0_of ins))).
    { unfold insT, ins_t, ins0_of. rewrite !map_map, combine_seq_map, map_map. apply map_ext. intros [j i]. reflexivity. }
    assert (S2 : map (fun i => (id_name i, id_pay i)) (filter (fun i => negb (id_input i)) initsT)
                 ++ map (fun d => (vd_name d, vd_pay d)) (filter (fun d => negb (N.eqb (vd_name d) 0)) (node_out_descs nodesT))
                 = map (fun kp => (fst kp, npay np (vd_pay (vd (fst kp))))) rdefs).
    { unfold rdefs. rewrite map_app. f_equal.
      - unfold initsT, inits_t, initdefs_of. rewrite map_map, filter_map_comm. cbn [mp_id id_input].
        rewrite !map_map. apply map_ext_in. intros r I. apply filter_In in I. destruct I as [_ I].
        apply negb_true_iff in I. cbn. rewrite I. reflexivity.
      - unfold nodesT. rewrite node_out_descs_mk, filter_map_comm, map_map.
        rewrite (filter_ext _ nz).
        + rewrite HON, map_map. apply map_ext_in. intros kp I.
          assert (Z : nz (fst kp) = true).
          { assert (I' : In (fst kp) (filter nz (flat_map pn_outs pns))) by (rewrite HON; apply in_map; auto).
            apply filter_In in I'. tauto. }
          unfold nz in Z. apply negb_true_iff in Z. unfold outf. rewrite Z. cbn. rewrite gc_vd_name. reflexivity.
        + intros k. unfold nz, outf. cbn [mp_vd vd_name]. destruct (N.eqb k 0) eqn:Z; cbn; auto.
          rewrite gc_vd_name, Z. auto. }
    rewrite S1.
    rewrite S2. unfold defs0 at 1 2, defs0_of. fold rdefs. rewrite combine_seq_app, map_app. f_equal.
    apply map_cs_ext. intros i kp Hi. unfold Ffin. cbn [fst snd]. f_equal. f_equal.
    assert (EI : index_last (fst kp) D 0 = Some (length inn + i)).
    { rewrite gc_D. apply index_last_rest.
      - rewrite gc_rest. auto.
      - apply map_nth_error. auto. }
    assert (LI : length (ins0_of ins) = length inn) by (unfold ins0_of, inn; rewrite !map_length; auto).
    unfold vd, vdg. rewrite EI. cbn [vd_pay]. rewrite LI. simpl Nat.add. f_equal.
    unfold defs0, defs0_of. fold rdefs. rewrite nth_error_app2 by lia.
    replace (length inn + i - length (ins0_of ins)) with i by lia. rewrite Hi. reflexivity.
  Qed.

  Lemma gc_names : map fst fin_defs = D.
  Proof.
    unfold fin_defs, Ffin. rewrite map_map. cbn [fst]. apply (map_cs_snd (fun kp : N * N => fst kp)).
  Qed.
  Lemma gc_nth j k p : nth_error fin_defs j = Some (k, p) -> exists p0, p = npay np (payfin orefs j p0).
  Proof.
    unfold fin_defs. intros H. apply nth_error_mcs in H. destruct H as (y & _ & E). unfold Ffin in E.
    cbn [fst snd] in E. inversion E. eexists; eauto.
  Qed.
  Lemma gc_inn : map vd_name insT = inn.
  Proof.
    unfold insT, ins_t. rewrite !map_map.
    rewrite (map_ext _ (fun jx : nat * vinfo => vi_name (snd jx))) by (intros [j i]; reflexivity).
    apply (map_cs_snd vi_name).
  Qed.
  Lemma gc_outn : map (fun o => vd_name (snd o)) outsT = outn.
  Proof. unfold outsT, outs_t, orefs, orefs_of, outn. rewrite !map_map. apply map_ext. intros i. reflexivity. Qed.
  Lemma gc_len_insT : length insT = length inn.
  Proof. rewrite <- gc_inn. rewrite map_length. auto. Qed.

  Lemma gc_insT_nth i y : nth_error ins i = Some y ->
    nth_error insT i = Some (mkVD (vi_name y) true (npay np (payfin orefs i (vi_pay y))) (flagg orefs i)).
  Proof.
    intros H. unfold insT, ins_t. rewrite map_map.
    rewrite (nth_error_mcs_fwd _ ins 0 i y H). reflexivity.
  Qed.

  Lemma gc_c1 : wf2_ins (map vd_name insT) (map (fun o => vd_name (snd o)) outsT) insT 0 = true.
  Proof.
    rewrite gc_inn, gc_outn. apply wf2_ins_intro. intros i d H.
    unfold insT, ins_t in H. rewrite map_map in H. apply nth_error_mcs in H. destruct H as (y & Hy & E).
    subst d. cbn. split; auto.
    unfold orefs. rewrite flagg_flagn. unfold lvl. rewrite gc_D. apply flagn_in.
    - apply gc_HR'.
    - apply gc_HP'.
    - unfold inn. apply map_nth_error. auto.
  Qed.

  Lemma gc_c2 : forallb (wfs_init insT (map (fun o => vd_name (snd o)) outsT)) initsT = true.
  Proof.
    apply forallb_forall. intros x I. unfold initsT, inits_t in I. rewrite map_map in I.
    apply in_map_iff in I. destruct I as (r & E & I). subst x.
    destruct (HIC r I) as [Z M]. unfold wfs_init. cbn [mp_id id_named id_name id_tensor id_input id_pay].
    rewrite gc_inn. apply N.eqb_neq in Z. rewrite Z. cbn [negb andb].
    destruct (ir_input r) eqn:X.
    - apply memN_In in M. destruct (index_last_In _ _ 0 M) as [j E]. fold inn. rewrite E.
      pose proof (index_last_some0 _ _ _ E) as NE. unfold inn in NE. rewrite nth_error_map in NE.
      destruct (nth_error ins j) as [y|] eqn:Y; [|discriminate].
      rewrite (gc_insT_nth j y Y). cbn [vd_pay]. apply N.eqb_refl.
    - rewrite M. rewrite (HIBd r I X). reflexivity.
  Qed.

  Lemma gc_c3 : nodup_N (map id_name initsT) = true.
  Proof. apply nodup_N_NoDup. unfold initsT, inits_t. rewrite !map_map. exact HIB. Qed.

  Lemma gc_skip : skipn (length insT) (map fst (tdefs insT initsT nodesT)) = newn ++ map fst decl.
  Proof. rewrite gc_tdefs, gc_names, gc_len_insT, gc_D, skipn_len_app. apply gc_rest. Qed.
  Lemma gc_c4 : nodup_N (skipn (length insT) (map fst (tdefs insT initsT nodesT))) = true.
  Proof. rewrite gc_skip. apply nodup_N_NoDup. exact HRest. Qed.
  Lemma gc_c5 : forallb (fun k => negb (memN k (map vd_name insT))) (skipn (length insT) (map fst (tdefs insT initsT nodesT))) = true.
  Proof.
    rewrite gc_skip, gc_inn. apply forallb_forall. intros k I. apply negb_true_iff. apply memN_nIn. auto.
  Qed.

  Lemma gc_flag_in i : In i outs -> forall x j, resolve2 (vi_name i) [lvl] 0 = Some (x, j) -> flagg orefs j = true.
  Proof.
    intros I x j R. unfold flagg. apply existsb_exists.
    exists (resolve2 (vi_name i) [lvl] 0, vi_name i, vi_pay i). split.
    - unfold orefs, orefs_of. apply in_map_iff. exists i. auto.
    - cbn [fst]. rewrite R. apply Nat.eqb_refl.
  Qed.

  Lemma gc_c7 :
    forallb (fun o => let '(r, d) := o in
                    vd_named d && vd_out d && ref_eqb r (resolve2 (vd_name d) [lvl] 0)
                    && match r with
                       | Some (_, j) =>
                         match nth_error (tdefs insT initsT nodesT) j with
                         | Some (_, p) => N.eqb p (vd_pay d)
                         | None => forallb (fun o' => negb (ref_eqb (fst o') r) || N.eqb (vd_pay (snd o')) (vd_pay d)) outsT
                         end
                       | None => true
                       end) outsT = true.
  Proof.
    rewrite gc_tdefs. apply forallb_forall. intros o I.
    unfold outsT, outs_t, orefs at 2, orefs_of in I. rewrite !map_map in I. apply in_map_iff in I.
    destruct I as (i & E & I). subst o. cbn [fst snd mp_vd vd_name vd_named vd_out vd_pay].
    rewrite ref_eqb_refl. cbn [andb].
    destruct (resolve2 (vi_name i) [lvl] 0) as [[x j]|] eqn:R; [|reflexivity].
    pose proof (gc_flag_in i I x j R) as FJ.
    destruct (nth_error fin_defs j) as [[k p]|] eqn:EN.
    - apply gc_nth in EN. destruct EN as (p0 & EP). subst p.
      rewrite (payfin_indep orefs j FJ p0 (vi_pay i)). apply N.eqb_refl.
    - apply forallb_forall. intros o' I'.
      unfold outsT, outs_t, orefs at 2, orefs_of in I'. rewrite !map_map in I'. apply in_map_iff in I'.
      destruct I' as (i' & E' & I'). subst o'. cbn [fst snd mp_vd vd_name vd_named vd_out vd_pay].
      destruct (resolve2 (vi_name i') [lvl] 0) as [[x' j']|] eqn:R'; [|reflexivity].
      cbn [ref_eqb option_eqb fst snd].
      destruct (Nat.eqb_spec j' j) as [EJ|NJ].
      + subst j'. rewrite (payfin_indep orefs j FJ (vi_pay i') (vi_pay i)). rewrite N.eqb_refl. apply orb_true_r.
      + rewrite andb_false_r. reflexivity.
  Qed.

  Hypothesis HNS : wfs_ns outer D outn nodesT = Some lvl.
  Lemma gc_main gname gtok :
    wfs_g outer (mp_g np (GT gname gtok (ins_t ins orefs) (inits_t ins recs vd orefs)
                             (ntrees_of (map (mknode vd) pns)) (outs_t orefs))) = true.
  Proof.
    cbn [mp_g]. fold insT initsT nodesT outsT. apply wfs_g_intro with (Lv := lvl).
    - apply gc_c1.
    - apply gc_c2.
    - apply gc_c3.
    - apply gc_c4.
    - apply gc_c5.
    - rewrite gc_tdefs, gc_names, gc_outn. exact HNS.
    - apply gc_c7.
  Qed.
End GraphCase.

Lemma case_gp np gname gtok ins outs inits vis nodes :
  P_ns np nodes -> P_g np (Gp gname gtok ins outs inits vis nodes).
Proof.
  intros Hns outer T H. apply pu_g_inv in H.
  destruct H as (newn & recs & decl & lvl & pns & E1 & E2 & E3 & ET). subst T.
  destruct (pu_inits_ok _ _ _ _ _ _ _ E1 (inits_inv_nil _)) as [(IA & IB & IC & ID & IE) Bd];
    [intros ? []|intros ? []|].
  destruct (pu_declare_ok _ _ _ _ _ E2) as (DA & DB & DC). cbn [map app] in DA. specialize (DB (NoDup_nil _)).
  destruct (pu_ns_ext _ _ _ _ _ _ E3) as [(P & EL & NP) ON]. subst lvl.
  assert (HON : filter nz (flat_map pn_outs pns) = map fst decl) by (rewrite ON, DA; auto).
  assert (HRest : NoDup (newn ++ map fst decl)).
  { apply NoDup_app_intro; auto. intros x I J. rewrite DA in I. apply (DC x I). rewrite in_app_iff; auto. }
  assert (HDisj : forall k, In k (newn ++ map fst decl) -> ~ In k (map vi_name ins)).
  { intros k I. apply in_app_iff in I. destruct I as [I|I]; auto. rewrite DA in I. intros J.
    apply (DC k I). rewrite in_app_iff; auto. }
  unfold build_g. cbv zeta.
  apply (gc_main np outer ins outs recs decl newn P pns IA IB IC Bd HRest HDisj NP HON).
  apply (Hns vis outer _ _ _ _ _ E3).
  intros k Z I. apply gc_vd_ok; auto.
  unfold defs0_of. rewrite !map_app, !in_app_iff. right. right. rewrite DA. apply filter_In. split; auto.
  unfold nz. apply negb_true_iff. apply N.eqb_neq. auto.
Qed.

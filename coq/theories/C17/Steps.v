(* C17/Steps.v — the scope-level invariant carried through the deserializer and the primitive steps
   (value allocation, payload/const updates, tensor allocation) that preserve it. *)
From Coq Require Import NArith List Bool Arith Lia.
From IRV Require Import Base.Exn C03.Model C03.Inv C17.Basics.
Import ListNotations.

(* ---- tables *)
Lemma lookup_In {A} k (t : list (N * A)) v : lookup k t = Some v -> In (k, v) t.
Proof.
  induction t as [|[k' a] t IH]; simpl; intros H; try discriminate.
  destruct (N.eqb_spec k k') as [->|Hn].
  - inversion H; subst. auto.
  - right. auto.
Qed.
Lemma In_in_table k v (t : table) : In (k, v) t -> in_table k t = true.
Proof.
  unfold in_table. induction t as [|[k' a] t IH]; simpl; intros H; [contradiction|].
  destruct (N.eqb_spec k k') as [->|Hn]; auto.
  destruct H as [H|H]; [inversion H; subst; congruence | auto].
Qed.
Lemma lookup_scopes_In k sc v : lookup_scopes k sc = Some v -> exists t, In t sc /\ In (k, v) t.
Proof.
  induction sc as [|t sc IH]; simpl; intros H; try discriminate.
  destruct (lookup k t) eqn:E.
  - inversion H; subst. exists t. split; auto. apply lookup_In; auto.
  - destruct (IH H) as (t' & Ht & Hin). exists t'. auto.
Qed.

(* values older than the heap keep the fields the invariant of a scope talks about *)
Definition vst (x : value) := (v_name x, v_owner x, v_in x, v_out x, v_init x).

(* step b ON h h': what one step of the deserializer working in a scope with base b (first value id of
   the scope) and output names ON may do to the values that already exist:
   - values older than b keep their producer (frame),
   - every existing value keeps name/owner/flags, and keeps its producer unless its name is in ON. *)
Definition step (b : nat) (ON : list name) (h h' : heap) : Prop :=
  nv h <= nv h' /\ nn h <= nn h' /\ ngr h <= ngr h' /\
  forall v x, getv h v = Some x ->
    exists x', getv h' v = Some x' /\ vst x' = vst x /\
               (v_prod x' = v_prod x \/ (b <= v /\ exists k, v_name x = Some k /\ In k ON)).

Lemma step_refl b ON h : step b ON h h.
Proof. repeat split; auto. intros v x H. exists x. auto. Qed.

Lemma step_trans b ON h1 h2 h3 : step b ON h1 h2 -> step b ON h2 h3 -> step b ON h1 h3.
Proof.
  intros (A1 & A2 & A3 & A4) (B1 & B2 & B3 & B4). repeat split; try lia.
  intros v x H. destruct (A4 v x H) as (x' & H' & E' & P'). destruct (B4 v x' H') as (x'' & H'' & E'' & P'').
  exists x''. split; auto. split; [congruence|].
  destruct P' as [P'|P']; destruct P'' as [P''|P'']; auto.
  - left; congruence.
  - right. destruct P'' as (Hb & k & Hk & Hin). split; auto. exists k. split; auto.
    unfold vst in E'. inversion E'. congruence.
Qed.

(* a nested step (nothing older than the nested base is touched) is a step of every enclosing scope *)
Lemma step_nested b ON h h' : step (nv h) [] h h' -> step b ON h h'.
Proof.
  intros (A1 & A2 & A3 & A4). repeat split; auto.
  intros v x H. destruct (A4 v x H) as (x' & H' & E' & P'). exists x'. split; auto. split; auto.
  destruct P' as [P'|(Hb & k & _ & [])]. auto.
Qed.

Lemma step_mono_ON b ON ON' h h' : (forall k, In k ON -> In k ON') -> step b ON h h' -> step b ON' h h'.
Proof.
  intros Hs (A1 & A2 & A3 & A4). repeat split; auto. intros v x H.
  destruct (A4 v x H) as (x' & H' & E' & P'). exists x'. split; auto. split; auto.
  destruct P' as [P'|(Hb & k & Hk & Hin)]; auto. right. split; auto. exists k; auto.
Qed.

(* ---- the invariant of the scope being built *)
Definition fresh_like (k : name) (x : value) : Prop :=
  v_name x = Some k /\ v_owner x = None /\ v_in x = false /\ v_out x = false /\ v_init x = false.
Definition tbl_ok (b : nat) (h : heap) (t : table) : Prop :=
  forall k v, In (k, v) t -> b <= v /\ exists x, getv h v = Some x /\ fresh_like k x.
Definition sc_ok (h : heap) (sc : list table) : Prop :=
  forall t k v, In t sc -> In (k, v) t -> v < nv h.
Definition prod_ok (ON : list name) (h : heap) (t : table) : Prop :=
  forall k v x, In (k, v) t -> ~ In k ON -> getv h v = Some x -> v_prod x = None.

Record st_ok (b : nat) (ON : list name) (sc : list table) (h : heap) (cur : table) : Prop := mkSt {
  so_inv : Inv h;
  so_tbl : tbl_ok b h cur;
  so_sc : sc_ok h sc;
  so_prod : prod_ok ON h cur;
  so_b : b <= nv h }.

Lemma st_ok_step b ON sc h cur h' :
  st_ok b ON sc h cur -> Inv h' -> step b ON h h' -> st_ok b ON sc h' cur.
Proof.
  intros [Hi Ht Hs Hp Hb] Hi' (A1 & A2 & A3 & A4). constructor; auto.
  - intros k v Hin. destruct (Ht k v Hin) as (Hbv & x & Hx & Hf). split; auto.
    destruct (A4 v x Hx) as (x' & Hx' & E & _). exists x'. split; auto.
    unfold vst in E. inversion E. unfold fresh_like in *. intuition congruence.
  - intros t k v Ht' Hin. specialize (Hs t k v Ht' Hin). lia.
  - intros k v x' Hin Hk Hx'. destruct (Ht k v Hin) as (_ & x & Hx & Hf).
    destruct (A4 v x Hx) as (x'' & Hx'' & E & P). rewrite Hx' in Hx''. inversion Hx''; subst x''.
    destruct P as [P|(_ & k' & Hk' & Hin')].
    + rewrite P. eapply Hp; eauto.
    + destruct Hf as (Hn & _). rewrite Hn in Hk'. inversion Hk'; subst. contradiction.
  - lia.
Qed.

Lemma st_ok_cons b ON sc h cur k v x :
  st_ok b ON sc h cur -> b <= v -> getv h v = Some x -> fresh_like k x -> v_prod x = None ->
  st_ok b ON sc h ((k, v) :: cur).
Proof.
  intros [Hi Ht Hs Hp Hb] Hbv Hx Hf Hpr. constructor; auto.
  - intros k' v' [E|Hin]; [inversion E; subst; split; eauto | auto].
  - intros k' v' x' [E|Hin] Hk Hx'; [inversion E; subst; congruence | eauto].
Qed.

(* ---- heaps that differ only in fields the invariant does not mention *)
Definition same_core (h h' : heap) : Prop :=
  hn h' = hn h /\ hg h' = hg h /\ nv h' = nv h /\
  (forall v, option_map vcore (getv h' v) = option_map vcore (getv h v)).

Lemma same_core_get h h' v x' : same_core h h' -> getv h' v = Some x' -> exists x, getv h v = Some x /\ vcore x = vcore x'.
Proof.
  intros (_ & _ & _ & Hc) H. specialize (Hc v). rewrite H in Hc. simpl in Hc.
  destruct (getv h v) as [x|]; simpl in Hc; [|discriminate]. exists x. split; congruence.
Qed.
Lemma same_core_get' h h' v x : same_core h h' -> getv h v = Some x -> exists x', getv h' v = Some x' /\ vcore x = vcore x'.
Proof.
  intros (_ & _ & _ & Hc) H. specialize (Hc v). rewrite H in Hc. simpl in Hc.
  destruct (getv h' v) as [x'|]; simpl in Hc; [|discriminate]. exists x'. split; congruence.
Qed.

Lemma same_core_inv h h' : same_core h h' -> Inv h -> Inv h'.
Proof.
  intros Hsc HI. pose proof Hsc as (Hn & Hg & Hnv & Hc).
  assert (Gn : forall n, getn h' n = getn h n) by (intros; unfold getn; rewrite Hn; auto).
  assert (Gg : forall g, getg h' g = getg h g) by (intros; unfold getg; rewrite Hg; auto).
  assert (Nn : nn h' = nn h) by (unfold nn; rewrite Hn; auto).
  assert (Ng : ngr h' = ngr h) by (unfold ngr; rewrite Hg; auto).
  destruct HI. constructor; intros;
    repeat match goal with
           | H : getn h' _ = _ |- _ => rewrite Gn in H
           | H : getg h' _ = _ |- _ => rewrite Gg in H
           | H : getv h' ?v = Some ?x' |- _ =>
             let x := fresh "x0" in let Hx := fresh "Hx0" in let Hc := fresh "Hc0" in
             destruct (same_core_get h h' v x' Hsc H) as (x & Hx & Hc); clear H;
             unfold vcore in Hc; inversion Hc; clear Hc;
             repeat match goal with E : _ x = _ x' |- _ => rewrite <- E in *; clear E end
           end;
    rewrite ?Hnv, ?Nn, ?Ng; try setoid_rewrite Gn; try setoid_rewrite Gg.
  all: try solve [eauto].
  - destruct (i2_out n y i v H H0) as (x & Hx & Hp).
    destruct (same_core_get' h h' v x Hsc Hx) as (x' & Hx' & Hc'). unfold vcore in Hc'; inversion Hc'.
    exists x'. split; auto. congruence.
  - destruct (i5_key g z k v H H0) as (x & Hx & Hp).
    destruct (same_core_get' h h' v x Hsc Hx) as (x' & Hx' & Hc'). unfold vcore in Hc'; inversion Hc'.
    exists x'. intuition congruence.
Qed.

Lemma same_core_step b ON h h' : same_core h h' -> step b ON h h'.
Proof.
  intros Hsc. pose proof Hsc as (Hn & Hg & Hnv & Hc). unfold step, nn, ngr. rewrite Hn, Hg, Hnv.
  repeat split; auto. intros v x H. destruct (same_core_get' h h' v x Hsc H) as (x' & Hx' & E).
  unfold vcore in E; inversion E. exists x'. split; auto. split; [unfold vst; congruence | left; congruence].
Qed.

Lemma st_ok_same_core b ON sc h cur h' : st_ok b ON sc h cur -> same_core h h' -> st_ok b ON sc h' cur.
Proof.
  intros Hs Hc. eapply st_ok_step; eauto. eapply same_core_inv; eauto. apply so_inv in Hs; auto.
  apply same_core_step; auto.
Qed.

Lemma updv_same_core h v f : (forall x, vcore (f x) = vcore x) -> same_core h (updv h v f).
Proof.
  intros Hf. unfold same_core, updv, set_hv, nv, getv; simpl. repeat split; auto.
  - apply upd_length.
  - intros u. rewrite nth_error_upd. destruct (Nat.eqb v u); auto.
    destruct (nth_error (hv h) u); simpl; auto. rewrite Hf. auto.
Qed.

Lemma same_core_trans h1 h2 h3 : same_core h1 h2 -> same_core h2 h3 -> same_core h1 h3.
Proof.
  intros (A1 & A2 & A3 & A4) (B1 & B2 & B3 & B4). repeat split; try congruence.
Qed.
Lemma same_core_refl h : same_core h h.
Proof. repeat split; auto. Qed.

Lemma apply_info_same_core h i v h' : apply_info h i v = Ok h' -> same_core h h'.
Proof.
  unfold apply_info. destruct (vi_bad i); intros H; inversion H; subst. apply updv_same_core. intros x; reflexivity.
Qed.
Lemma apply_info_opt_same_core h k vis v h' : apply_info_opt h k vis v = Ok h' -> same_core h h'.
Proof.
  unfold apply_info_opt. destruct (vi_lookup k vis).
  - apply apply_info_same_core.
  - intros H; inversion H; subst. apply same_core_refl.
Qed.
Lemma alloc_tensor_same_core h nm tok p bd fl h' c : alloc_tensor h nm tok p bd fl = (h', c) -> same_core h h'.
Proof. unfold alloc_tensor. intros H; inversion H; subst. repeat split; auto. Qed.

(* ---- Value(name=...) *)
Definition fresh_value (nm : option name) (c : option nat) (p : payload) : value :=
  mkV nm None [] None false false false c p.

Lemma alloc_getv h nm c p h' v : alloc_value h nm c p = (h', v) ->
  v = nv h /\ nv h' = S (nv h) /\ hn h' = hn h /\ hg h' = hg h /\ ht h' = ht h /\
  getv h' v = Some (fresh_value nm c p) /\
  (forall u x, getv h u = Some x -> getv h' u = Some x) /\
  (forall u x, getv h' u = Some x -> getv h u = Some x \/ (u = nv h /\ x = fresh_value nm c p)).
Proof.
  unfold alloc_value. intros H; inversion H; subst; clear H. unfold nv, getv, set_hv; simpl.
  rewrite app_length; simpl. repeat split; auto; try lia.
  - apply nth_error_app_new.
  - intros u x Hu. rewrite nth_error_app1; auto. apply nth_error_Some. congruence.
  - intros u x Hu. apply nth_error_app_inv in Hu. destruct Hu as [[_ Hu]|[Hu1 Hu2]]; auto.
Qed.

Lemma alloc_value_inv h nm c p h' v : Inv h -> alloc_value h nm c p = (h', v) -> Inv h'.
Proof.
  intros HI Ha. destruct (alloc_getv _ _ _ _ _ _ Ha) as (Hv & Hnv & Hn & Hg & Ht & Hnew & Hold & Hinv).
  assert (Gn : forall n, getn h' n = getn h n) by (intros; unfold getn; rewrite Hn; auto).
  assert (Gg : forall g, getg h' g = getg h g) by (intros; unfold getg; rewrite Hg; auto).
  assert (Nn : nn h' = nn h) by (unfold nn; rewrite Hn; auto).
  assert (Ng : ngr h' = ngr h) by (unfold ngr; rewrite Hg; auto).
  assert (HS : forall a b, a < b -> a < S b) by (intros; lia).
  destruct HI. constructor; intros;
    repeat match goal with
           | H : getn h' _ = _ |- _ => rewrite Gn in H
           | H : getg h' _ = _ |- _ => rewrite Gg in H
           end;
    rewrite ?Hnv, ?Nn, ?Ng; try setoid_rewrite Gn; try setoid_rewrite Gg;
    try match goal with
        | H : getv h' ?u = Some ?x |- _ =>
          destruct (Hinv u x H) as [Ho|[Hu Hx]]; [clear H | subst x; simpl in *; try discriminate; try contradiction]
        end.
  all: try solve [eauto | apply HS; eauto].
  - split; [intros [] | intros (y & Hy & Hi)]. apply nth_error_In in Hi. specialize (c0_nin _ _ _ Hy Hi). lia.
  - constructor.
  - destruct (i2_out _ _ _ _ H H0) as (x & Hx & Hp). exists x. split; auto.
  - split; [intros [? ?]; discriminate | intros (z & Hz & Hi)]. specialize (c0_gin _ _ _ Hz Hi). lia.
  - split; [intros [? ?]; discriminate | intros (z & Hz & Hi)]. specialize (c0_gout _ _ _ Hz Hi). lia.
  - destruct (i5_key _ _ _ _ H H0) as (x & Hx & Hp). exists x. split; auto.
  - split; auto.
Qed.

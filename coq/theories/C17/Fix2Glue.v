(* C17/Fix2Glue.v — (1) the unfolding with leaf normalisation is the raw unfolding with every payload mapped by
   npay; (2) wf2 = structural part + leaf condition + no rejected attribute. *)
From Coq Require Import NArith List Bool Arith Lia.
From IRV Require Import Base.Exn C03.Model C03.Canon C03.Inv C03.Tree C03.TreeF C03.PayFixDefs C03.IsoSer C03.PayFix
  C17.Tree2 C17.Fix2Specs C17.Fix2Pay C17.PUnfold C17.Fix2Defs.
Import ListNotations.

(* ================================================================== (1) unfold2 np = mp np (unfold2 []) *)
Lemma npay0 np : npay np 0%N = 0%N.
Proof. reflexivity. Qed.
Lemma tpay_mp np x : tpay np x = npay np (tpay [] x).
Proof.
  unfold tpay, npay. rewrite norm_pay_nil. destruct (N.eqb (v_info x) 0) eqn:E; auto. rewrite E. reflexivity.
Qed.
Lemma vdesc_mp np h v : vdesc_of np h v = mp_vd np (vdesc_of [] h v).
Proof.
  unfold vdesc_of, mp_vd. destruct (getv h v) as [x|]; simpl; auto. rewrite tpay_mp. reflexivity.
Qed.
Lemma idesc_mp np h z kv : idesc_of np h z kv = mp_id np (idesc_of [] h z kv).
Proof.
  unfold idesc_of, mp_id. destruct (getv h (snd kv)) as [x|]; simpl; auto. rewrite tpay_mp. reflexivity.
Qed.
Lemma fn_in_desc_mp np h v : fn_in_desc np h v = mp_vd np (fn_in_desc [] h v).
Proof.
  unfold fn_in_desc. cbv zeta. rewrite (vdesc_name np h v).
  destruct (N.eqb (vd_name (vdesc_of [] h v)) 0).
  - unfold mp_vd. simpl. rewrite (vdesc_named np h v), (vdesc_out np h v). reflexivity.
  - apply vdesc_mp.
Qed.

Lemma mp_ns_of np l : mp_ns np (ntrees_of l) = ntrees_of (map (mp_n np) l).
Proof. induction l as [|a r IH]; simpl; auto. rewrite IH. reflexivity. Qed.
Lemma mp_as_of np l : mp_as np (atrees_of l) = atrees_of (map (mp_a np) l).
Proof. induction l as [|a r IH]; simpl; auto. rewrite IH. reflexivity. Qed.
Lemma mp_gs_of np l : mp_gs np (gtrees_of l) = gtrees_of (map (mp_g np) l).
Proof. induction l as [|a r IH]; simpl; auto. rewrite IH. reflexivity. Qed.

Section MP.
Variable np : list (N * N).
Variable h : heap.

Section RecMP.
Variable rec1 rec2 : list (list nat) -> nat -> gtree.
Hypothesis Hrec : forall chain g, rec1 chain g = mp_g np (rec2 chain g).

Lemma unfold_attr_mp chain a : unfold_attr rec1 chain a = mp_a np (unfold_attr rec2 chain a).
Proof.
  unfold unfold_attr. destruct (snd a) as [tok sbad|g|gs]; simpl; auto.
  - rewrite Hrec. reflexivity.
  - rewrite mp_gs_of, map_map. f_equal. f_equal. apply map_ext. intros; apply Hrec.
Qed.
Lemma unfold2_node_mp outer cur n :
  unfold2_node np h rec1 outer cur n
  = (mp_n np (fst (unfold2_node [] h rec2 outer cur n)), snd (unfold2_node [] h rec2 outer cur n)).
Proof.
  unfold unfold2_node. destruct (getn h n) as [y|]; simpl; auto.
  f_equal. f_equal.
  - apply map_ext. intros [v|]; auto. rewrite (vdesc_name np), (vdesc_named np). reflexivity.
  - rewrite map_map. apply map_ext. intros; apply vdesc_mp.
  - rewrite mp_as_of, map_map. f_equal. apply map_ext. intros; apply unfold_attr_mp.
Qed.
Lemma unfold2_nodes_mp outer ns : forall cur,
  unfold2_nodes np h rec1 outer cur ns
  = (map (mp_n np) (fst (unfold2_nodes [] h rec2 outer cur ns)), snd (unfold2_nodes [] h rec2 outer cur ns)).
Proof.
  induction ns as [|n r IH]; intros cur; simpl; auto.
  rewrite unfold2_node_mp.
  destruct (unfold2_node [] h rec2 outer cur n) as [t c1]. simpl.
  rewrite IH. destruct (unfold2_nodes [] h rec2 outer c1 r) as [ts c2]. simpl. reflexivity.
Qed.
Lemma unfold2_graph_body_mp chain g :
  unfold2_graph_body np h rec1 chain g = mp_g np (unfold2_graph_body [] h rec2 chain g).
Proof.
  unfold unfold2_graph_body. destruct (getg h g) as [z|]; simpl; auto.
  rewrite unfold2_nodes_mp.
  destruct (unfold2_nodes [] h rec2 chain (gdefs h z) (g_nodes z)) as [nts lvl]. simpl.
  rewrite mp_ns_of, !map_map. f_equal.
  - apply map_ext. intros; apply vdesc_mp.
  - apply map_ext. intros; apply idesc_mp.
  - apply map_ext. intros; simpl. rewrite vdesc_mp. reflexivity.
Qed.
End RecMP.

(* graph level *)
Lemma unfold2_graph_mp fuel : forall chain g,
  unfold2_graph np fuel h chain g = mp_g np (unfold2_graph [] fuel h chain g).
Proof.
  induction fuel as [|f IH]; intros chain g; simpl; auto.
  apply unfold2_graph_body_mp. exact IH.
Qed.
Lemma unfold2_root_mp g : unfold2_root np h g = mp_g np (unfold2_root [] h g).
Proof. apply unfold2_graph_mp. Qed.
Lemma unfold2_function_mp f : unfold2_function np h f = mp_f np (unfold2_function [] h f).
Proof.
  unfold unfold2_function. destruct (getg h (f_graph f)) as [z|]; [|reflexivity].
  destruct (g_inits z); [|reflexivity].
  rewrite (unfold2_nodes_mp (unfold2_graph np (ser_fuel h) h) (unfold2_graph [] (ser_fuel h) h)
             (unfold2_graph_mp (ser_fuel h))).
  destruct (unfold2_nodes [] h (unfold2_graph [] (ser_fuel h) h) [] (gdefs h z) (g_nodes z)) as [nts lvl].
  cbn [fst snd mp_f]. rewrite mp_ns_of, map_map. f_equal.
  - apply map_ext. intros; apply fn_in_desc_mp.
  - apply map_ext. intros v. rewrite (vdesc_name np), (vdesc_named np). reflexivity.
Qed.
Lemma unfold2_model_mp m : unfold2_model np h m = mp_m np (unfold2_model [] h m).
Proof.
  unfold unfold2_model, mp_m. simpl. f_equal.
  - apply unfold2_root_mp.
  - rewrite map_map. apply map_ext. intros; apply unfold2_function_mp.
Qed.
End MP.

Lemma unfold2_mp : unfold2_mp_spec.
Proof. intros np h m. apply unfold2_model_mp. Qed.

(* ================================================================== (2) wf2 = wfs + leaf + nosbad *)
Scheme gtree_indG := Induction for gtree Sort Prop
  with ntrees_indG := Induction for ntrees Sort Prop
  with ntree_indG := Induction for ntree Sort Prop
  with atrees_indG := Induction for atrees Sort Prop
  with atree_indG := Induction for atree Sort Prop
  with gtrees_indG := Induction for gtrees Sort Prop.
Combined Scheme treeG_mutind from gtree_indG, ntrees_indG, ntree_indG, atrees_indG, atree_indG, gtrees_indG.

Lemma wf2_init_glue ins outn i :
  wfs_init ins outn i = true -> leaf_init outn i = true -> wf2_init ins outn i = true.
Proof.
  unfold wfs_init, leaf_init, wf2_init. destruct (id_tensor i) as [t|]; [|auto].
  cbv zeta. destruct (id_input i); [auto|]. simpl.
  intros H L. apply andb_prop in H. destruct H as [H1 H2]. apply andb_prop in H2. destruct H2 as [H2 H3].
  rewrite H1, H2, H3, L. reflexivity.
Qed.
Lemma forallb_glue {A} (P Q R : A -> bool) l :
  (forall x, P x = true -> Q x = true -> R x = true) ->
  forallb P l = true -> forallb Q l = true -> forallb R l = true.
Proof.
  intros H. induction l as [|a r IH]; simpl; auto. intros HP HQ.
  apply andb_prop in HP. apply andb_prop in HQ. destruct HP, HQ.
  rewrite H, IH by auto. reflexivity.
Qed.

Lemma wf2_glue_tree :
  (forall T nsc, wfs_g nsc T = true -> leaf_fill_g T = true -> nosbad_g T = true -> wf2_g nsc T = true) /\
  (forall ns outer cur outn L, wfs_ns outer cur outn ns = Some L -> leaf_fill_ns ns = true -> nosbad_ns ns = true ->
                               wf2_ns outer cur outn ns = Some L) /\
  (forall n outer cur outn L, wfs_n outer cur outn n = Some L -> leaf_fill_n n = true -> nosbad_n n = true ->
                              wf2_n outer cur outn n = Some L) /\
  (forall al nsc, wfs_as nsc al = true -> leaf_fill_as al = true -> nosbad_as al = true -> wf2_as nsc al = true) /\
  (forall a nsc, wfs_a nsc a = true -> leaf_fill_a a = true -> nosbad_a a = true -> wf2_a nsc a = true) /\
  (forall gs nsc, wfs_gs nsc gs = true -> leaf_fill_gs gs = true -> nosbad_gs gs = true -> wf2_gs nsc gs = true).
Proof.
  apply treeG_mutind.
  - (* GBad *) intros nsc H. discriminate.
  - (* GT *)
    intros gname gtok ins inits nodes IHn outs nsc H Hl Hn.
    simpl in H, Hl, Hn |- *.
    apply andb_prop in Hl. destruct Hl as [Hl1 Hl2].
    apply andb_prop in H. destruct H as [H H6]. apply andb_prop in H. destruct H as [H H5].
    apply andb_prop in H. destruct H as [H H4]. apply andb_prop in H. destruct H as [H H3].
    apply andb_prop in H. destruct H as [H1 H2].
    match type of H6 with
    | match wfs_ns ?a ?b ?c ?d with _ => _ end = true => destruct (wfs_ns a b c d) as [Lv|] eqn:E; [|discriminate]
    end.
    rewrite (IHn _ _ _ _ E Hl2 Hn).
    repeat (apply andb_true_intro; split); try assumption.
    eapply forallb_glue; [|exact H2|exact Hl1]. intros; apply wf2_init_glue; auto.
  - (* TNil *) intros outer cur outn L H _ _. exact H.
  - (* TCons *)
    intros n IHn r IHr outer cur outn L H Hl Hn. simpl in H, Hl, Hn |- *.
    apply andb_prop in Hl. destruct Hl as [Hl1 Hl2]. apply andb_prop in Hn. destruct Hn as [Hn1 Hn2].
    destruct (wfs_n outer cur outn n) as [c1|] eqn:E; [|discriminate].
    rewrite (IHn _ _ _ _ E Hl1 Hn1). apply IHr; auto.
  - (* NBad *) intros outer cur outn L H. discriminate.
  - (* NT *)
    intros nname op ntok ins outs attrs IHa outer cur outn L H Hl Hn. simpl in H, Hl, Hn |- *.
    match type of H with
    | (if ?c then _ else _) = _ => destruct c eqn:C; [|discriminate]
    end.
    apply andb_prop in C. destruct C as [C C5]. apply andb_prop in C. destruct C as [C C4].
    apply andb_prop in C. destruct C as [C C3]. apply andb_prop in C. destruct C as [C1 C2].
    match goal with
    | |- (if ?c then _ else _) = _ => assert (C' : c = true)
    end.
    { repeat (apply andb_true_intro; split); try assumption; try exact C1. apply IHa; auto. }
    rewrite C'. exact H.
  - (* TANil *) auto.
  - (* TACons *)
    intros a IHa r IHr nsc H Hl Hn. simpl in H, Hl, Hn |- *.
    apply andb_prop in H. destruct H. apply andb_prop in Hl. destruct Hl. apply andb_prop in Hn. destruct Hn.
    rewrite IHa, IHr by auto. reflexivity.
  - (* TPlain *) intros k tok sbad nsc _ _ Hn. exact Hn.
  - (* TGraph *) intros k g IHg nsc H Hl Hn. simpl in *. auto.
  - (* TGraphs *) intros k gs IHgs nsc H Hl Hn. simpl in *. auto.
  - (* TGNil *) auto.
  - (* TGCons *)
    intros g IHg r IHr nsc H Hl Hn. simpl in H, Hl, Hn |- *.
    apply andb_prop in H. destruct H. apply andb_prop in Hl. destruct Hl. apply andb_prop in Hn. destruct Hn.
    rewrite IHg, IHr by auto. reflexivity.
Qed.

(* graph / node-list level *)
Lemma wf2_glue_g T nsc : wfs_g nsc T = true -> leaf_fill_g T = true -> nosbad_g T = true -> wf2_g nsc T = true.
Proof. apply (proj1 wf2_glue_tree). Qed.
Lemma wf2_glue_ns ns outer cur outn L :
  wfs_ns outer cur outn ns = Some L -> leaf_fill_ns ns = true -> nosbad_ns ns = true ->
  wf2_ns outer cur outn ns = Some L.
Proof. apply (proj1 (proj2 wf2_glue_tree)). Qed.

Lemma wf2_glue_f F :
  wfs_f F = true ->
  match F with FBad => true | FT _ _ _ nodes _ => leaf_fill_ns nodes end = true ->
  match F with FBad => true | FT _ _ _ nodes _ => nosbad_ns nodes end = true ->
  wf2_f F = true.
Proof.
  destruct F as [|fid ftok ins nodes outs]; [discriminate|].
  intros H Hl Hn. simpl in H |- *.
  apply andb_prop in H. destruct H as [H H5]. apply andb_prop in H. destruct H as [H H4].
  apply andb_prop in H. destruct H as [H H3]. apply andb_prop in H. destruct H as [H1 H2].
  match type of H5 with
  | match wfs_ns ?a ?b ?c ?d with _ => _ end = true => destruct (wfs_ns a b c d) as [Lv|] eqn:E; [|discriminate]
  end.
  rewrite (wf2_glue_ns _ _ _ _ _ E Hl Hn).
  repeat (apply andb_true_intro; split); assumption.
Qed.

Lemma wf2_glue : wf2_glue_spec.
Proof.
  intros M H Hl Hn. unfold wfs_m, leaf_fill_m, nosbad_m, wf2_m in *.
  apply andb_prop in H. destruct H as [H H3]. apply andb_prop in H. destruct H as [H1 H2].
  apply andb_prop in Hl. destruct Hl as [Hl1 Hl2]. apply andb_prop in Hn. destruct Hn as [Hn1 Hn2].
  rewrite (wf2_glue_g _ _ H1 Hl1 Hn1), H3. rewrite andb_true_r. simpl.
  revert H2 Hl2 Hn2. generalize (mt_funcs M). intros l.
  induction l as [|F r IH]; simpl; auto. intros HP HQ HR.
  apply andb_prop in HP. apply andb_prop in HQ. apply andb_prop in HR. destruct HP, HQ, HR.
  rewrite wf2_glue_f, IH by auto. reflexivity.
Qed.

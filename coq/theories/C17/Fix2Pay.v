(* C17/Fix2Pay.v — payloads of the GENERALISED unfolding (C17/Tree2.v) and the leaf normalisation:
   the two statements of C03/PayFix.v for unfold2_model.  The scope levels (gdefs ++ placeholders) are computed
   from identities only, hence independent of the table np and of the recursive call. *)
From Coq Require Import NArith List Bool Arith Lia.
From IRV Require Import Base.Exn C03.Model C03.Canon C03.Inv C03.Tree C03.TreeF C03.PayFixDefs C03.IsoSer C03.PayFix
  C17.Tree2 C17.Fix2Specs.
Import ListNotations.

(* ------------------------------------------------------------------ the level does not depend on np / rec *)
Lemma snd_unfold2_node np np' h rec rec' outer cur n :
  snd (unfold2_node np h rec outer cur n) = snd (unfold2_node np' h rec' outer cur n).
Proof. unfold unfold2_node. destruct (getn h n); reflexivity. Qed.
Lemma snd_unfold2_nodes np np' h rec rec' outer ns : forall cur,
  snd (unfold2_nodes np h rec outer cur ns) = snd (unfold2_nodes np' h rec' outer cur ns).
Proof.
  induction ns as [|n r IH]; intros cur; simpl; auto.
  pose proof (snd_unfold2_node np np' h rec rec' outer cur n) as E.
  destruct (unfold2_node np h rec outer cur n) as [t c1].
  destruct (unfold2_node np' h rec' outer cur n) as [t' c1']. simpl in E. subst c1'.
  specialize (IH c1).
  destruct (unfold2_nodes np h rec outer c1 r) as [ts c2].
  destruct (unfold2_nodes np' h rec' outer c1 r) as [ts' c2']. simpl in *. auto.
Qed.

(* ------------------------------------------------------------------ (1) every payload is a fixed point *)
Section Fix1.
Variable np : list (N * N).
Hypothesis Hok : np_ok np = true.
Hypothesis Hid : np_idem np = true.
Variable h : heap.

Section Rec1.
Variable rec : list (list nat) -> nat -> gtree.
Hypothesis Hrec : forall chain g, pf_g np (rec chain g) = true.

Lemma pf_unfold2_node outer cur n : pf_n np (fst (unfold2_node np h rec outer cur n)) = true.
Proof.
  unfold unfold2_node. destruct (getn h n) as [y|]; simpl; auto.
  apply andb_true_intro; split.
  - apply forallb_map_all. intros; apply pf_vdesc_of; auto.
  - apply pf_as_of. intros x Hin. apply in_map_iff in Hin. destruct Hin as [a [E _]]. subst.
    apply pf_unfold_attr; auto.
Qed.
Lemma pf_unfold2_nodes outer ns : forall cur,
  pf_ns np (ntrees_of (fst (unfold2_nodes np h rec outer cur ns))) = true.
Proof.
  induction ns as [|n r IH]; intros cur; simpl; auto.
  pose proof (pf_unfold2_node outer cur n) as H1.
  destruct (unfold2_node np h rec outer cur n) as [t c1]. simpl in H1.
  specialize (IH c1). destruct (unfold2_nodes np h rec outer c1 r) as [ts c2]. simpl in *.
  rewrite H1, IH. reflexivity.
Qed.
Lemma pf_unfold2_graph_body chain g : pf_g np (unfold2_graph_body np h rec chain g) = true.
Proof.
  unfold unfold2_graph_body. destruct (getg h g) as [z|]; simpl; auto.
  pose proof (pf_unfold2_nodes chain (g_nodes z) (gdefs h z)) as Hn.
  destruct (unfold2_nodes np h rec chain (gdefs h z) (g_nodes z)) as [nts lvl]. simpl in *.
  repeat (apply andb_true_intro; split).
  - apply forallb_map_all. intros; apply pf_vdesc_of; auto.
  - apply forallb_map_all. intros; apply pf_idesc_of; auto.
  - exact Hn.
  - apply forallb_map_all. intros; simpl; apply pf_vdesc_of; auto.
Qed.
End Rec1.

(* graph level *)
Lemma pf_unfold2_graph fuel : forall chain g, pf_g np (unfold2_graph np fuel h chain g) = true.
Proof.
  induction fuel as [|f IH]; intros chain g; simpl; auto.
  apply pf_unfold2_graph_body. exact IH.
Qed.
Lemma pf_unfold2_root g : pf_g np (unfold2_root np h g) = true.
Proof. apply pf_unfold2_graph. Qed.
Lemma pf_fn_in_desc v : pf_vd np (fn_in_desc np h v) = true.
Proof.
  unfold fn_in_desc. cbv zeta. destruct (N.eqb (vd_name (vdesc_of np h v)) 0).
  - unfold pf_vd. simpl. apply pfix0; auto.
  - apply pf_vdesc_of; auto.
Qed.
Lemma pf_unfold2_function f : pf_f np (unfold2_function np h f) = true.
Proof.
  unfold unfold2_function. destruct (getg h (f_graph f)) as [z|]; [|auto].
  destruct (g_inits z); [|auto].
  pose proof (pf_unfold2_nodes (unfold2_graph np (ser_fuel h) h) (pf_unfold2_graph (ser_fuel h))
                [] (g_nodes z) (gdefs h z)) as Hn.
  destruct (unfold2_nodes np h (unfold2_graph np (ser_fuel h) h) [] (gdefs h z) (g_nodes z)) as [nts lvl].
  simpl in *.
  apply andb_true_intro; split; [|exact Hn].
  apply forallb_map_all. intros; apply pf_fn_in_desc.
Qed.
Lemma pf_unfold2_model m : pf_m np (unfold2_model np h m) = true.
Proof.
  unfold pf_m, unfold2_model. simpl. rewrite pf_unfold2_root. simpl.
  apply forallb_map_all. intros; apply pf_unfold2_function.
Qed.
End Fix1.

(* ------------------------------------------------------------------ (2) normalising fixed points changes nothing *)
Section Fix2.
Variable np : list (N * N).
Variable h : heap.

Section Rec2.
Variable rec1 rec2 : list (list nat) -> nat -> gtree.
Hypothesis Hrec : forall chain g, pf_g np (rec2 chain g) = true -> rec1 chain g = rec2 chain g.

Lemma unfold2_node_fix outer cur n :
  pf_n np (fst (unfold2_node [] h rec2 outer cur n)) = true ->
  unfold2_node np h rec1 outer cur n = unfold2_node [] h rec2 outer cur n.
Proof.
  unfold unfold2_node. destruct (getn h n) as [y|]; simpl; auto.
  intros H. apply andb_prop in H. destruct H as [H1 H2]. f_equal. f_equal.
  - apply map_ext. intros [v|]; auto. rewrite (vdesc_name np), (vdesc_named np). reflexivity.
  - apply vdescs_fix; auto.
  - f_equal. apply map_ext_in. intros a Hin. apply (unfold_attr_fix np); auto.
    eapply pf_as_inv in H2; eauto. apply in_map; auto.
Qed.
Lemma unfold2_nodes_fix outer ns : forall cur,
  pf_ns np (ntrees_of (fst (unfold2_nodes [] h rec2 outer cur ns))) = true ->
  unfold2_nodes np h rec1 outer cur ns = unfold2_nodes [] h rec2 outer cur ns.
Proof.
  induction ns as [|n r IH]; intros cur; simpl; auto.
  pose proof (unfold2_node_fix outer cur n) as E.
  destruct (unfold2_node [] h rec2 outer cur n) as [t c1]. simpl in E.
  specialize (IH c1).
  destruct (unfold2_nodes [] h rec2 outer c1 r) as [ts c2]. simpl in *.
  intros H. apply andb_prop in H. destruct H as [H1 H2].
  rewrite E by auto. rewrite IH by auto. reflexivity.
Qed.
Lemma unfold2_graph_body_fix chain g :
  pf_g np (unfold2_graph_body [] h rec2 chain g) = true ->
  unfold2_graph_body np h rec1 chain g = unfold2_graph_body [] h rec2 chain g.
Proof.
  unfold unfold2_graph_body. destruct (getg h g) as [z|]; simpl; auto.
  pose proof (unfold2_nodes_fix chain (g_nodes z) (gdefs h z)) as En.
  destruct (unfold2_nodes [] h rec2 chain (gdefs h z) (g_nodes z)) as [nts lvl]. simpl in *.
  intros H. apply andb_prop in H. destruct H as [H H4].
  apply andb_prop in H. destruct H as [H H3]. apply andb_prop in H. destruct H as [H1 H2].
  rewrite En by auto. f_equal.
  - apply vdescs_fix; auto.
  - revert H2. apply map_fix. intros; apply idesc_fix; auto.
  - revert H4. apply (map_fix (fun o => pf_vd np (snd o))). intros v _ Hv. simpl in Hv.
    rewrite (vdesc_fix np) by auto. reflexivity.
Qed.
End Rec2.

(* graph level *)
Lemma unfold2_graph_fix fuel : forall chain g,
  pf_g np (unfold2_graph [] fuel h chain g) = true ->
  unfold2_graph np fuel h chain g = unfold2_graph [] fuel h chain g.
Proof.
  induction fuel as [|f IH]; intros chain g; simpl; auto.
  apply unfold2_graph_body_fix. exact IH.
Qed.
Lemma unfold2_root_fix g : pf_g np (unfold2_root [] h g) = true -> unfold2_root np h g = unfold2_root [] h g.
Proof. apply unfold2_graph_fix. Qed.
Lemma vdesc_out v : vd_out (vdesc_of np h v) = vd_out (vdesc_of [] h v).
Proof. unfold vdesc_of. destruct (getv h v); reflexivity. Qed.
Lemma fn_in_desc_fix v : pf_vd np (fn_in_desc [] h v) = true -> fn_in_desc np h v = fn_in_desc [] h v.
Proof.
  unfold fn_in_desc. cbv zeta. rewrite (vdesc_name np h v).
  destruct (N.eqb (vd_name (vdesc_of [] h v)) 0).
  - intros _. rewrite (vdesc_named np h v), vdesc_out. reflexivity.
  - apply vdesc_fix.
Qed.
Lemma unfold2_function_fix f :
  pf_f np (unfold2_function [] h f) = true -> unfold2_function np h f = unfold2_function [] h f.
Proof.
  unfold unfold2_function. destruct (getg h (f_graph f)) as [z|]; [|auto].
  destruct (g_inits z); [|auto].
  pose proof (unfold2_nodes_fix (unfold2_graph np (ser_fuel h) h) (unfold2_graph [] (ser_fuel h) h)
                (unfold2_graph_fix (ser_fuel h)) [] (g_nodes z) (gdefs h z)) as En.
  destruct (unfold2_nodes [] h (unfold2_graph [] (ser_fuel h) h) [] (gdefs h z) (g_nodes z)) as [nts lvl].
  simpl in *.
  intros H. apply andb_prop in H. destruct H as [H1 H2].
  rewrite En by auto. f_equal.
  - revert H1. apply map_fix. intros; apply fn_in_desc_fix; auto.
  - apply map_ext. intros v. rewrite (vdesc_name np), (vdesc_named np). reflexivity.
Qed.
Lemma unfold2_model_fix m :
  pf_m np (unfold2_model [] h m) = true -> unfold2_model np h m = unfold2_model [] h m.
Proof.
  unfold pf_m, unfold2_model. simpl. intros H. apply andb_prop in H. destruct H as [H1 H2].
  f_equal.
  - apply unfold2_root_fix; auto.
  - revert H2. apply map_fix. intros; apply unfold2_function_fix; auto.
Qed.
End Fix2.

Lemma payfix2 : payfix2_spec.
Proof.
  split.
  - intros np h m Hok Hid. apply pf_unfold2_model; auto.
  - intros np h m H. apply unfold2_model_fix; auto.
Qed.

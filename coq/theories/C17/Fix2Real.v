(* C17/Fix2Real.v — punfold_real: the symbolic unfolding pu_m p of a proto IS the unfolding of the state the
   deserializer builds from p (functions threaded through the heap, Model(functions=...) dict). *)
From Coq Require Import NArith List Bool Arith Lia.
From IRV Require Import Base.Exn C03.Model C03.Canon C03.Inv C03.Tree C03.TreeF C03.IsoDeserA C03.IsoDeserB C03.IsoDeserC
  C03.IsoDeserD
  C17.Basics C17.Specs C17.Steps C17.Phases C17.OpNode C17.OpGraph C17.Deser C17.Top C17.Tree2 C17.PUnfold C17.Fix2Defs
  C17.Fix2RealA C17.Fix2RealB C17.Fix2RealC C17.Fix2RealD C17.Fix2RealE C17.Fix2RealF.
Import ListNotations.

Lemma PFs : forall fs h h' l, deser_functions fs h = Ok (h', l) ->
  exists Fs, fold_right (fun f acc => obind acc (fun l => obind (pu_f f) (fun F => Some (F :: l)))) (Some []) fs = Some Fs /\
    Forall2 (fun x F => real2_f (range h h') h' x F /\ f_id x = fid_of F) l Fs /\ vstep h h'.
Proof.
  induction fs as [|f r IH]; intros h h' l H; cbn in H.
  - inversion H; subst. exists []. cbn. csplit; auto using vstep_refl.
  - destruct (deser_function f h) as [[h1 x]|e] eqn:E1; [|discriminate].
    destruct (deser_functions r h1) as [[h2 l2]|e] eqn:E2; [|discriminate]. inversion H; subst; clear H.
    destruct (PF_all f _ _ _ E1) as (F & A1 & A2 & A3 & A4 & A5).
    destruct (IH _ _ _ E2) as (Fs & B1 & B2 & B3).
    pose proof (vstep_nv _ _ A4). pose proof (vstep_nv _ _ B3).
    exists (F :: Fs). cbn [fold_right]. rewrite B1. cbn [obind]. rewrite A1. cbn [obind]. csplit; auto.
    + constructor.
      * split; auto. eapply real2_f_mono; [|eapply real2_f_stable; [apply vstep_keepsP; exact B3 | exact A2]].
        intros v (V1 & V2). unfold range. lia.
      * eapply Forall2_imp; [|exact B2]. intros y G (R1 & R2). split; auto. eapply real2_f_mono; [|exact R1].
        intros v (V1 & V2). unfold range. lia.
    + eapply vstep_trans; eauto.
Qed.

Theorem punfold_real : punfold_real_spec.
Proof.
  intros p h m H. unfold deser_model in H.
  destruct (deser_graph (mp_graph p) [] empty_heap) as [[h1 gid]|e] eqn:E1; [|discriminate].
  destruct (deser_functions (mp_funcs p) h1) as [[h2 fs]|e] eqn:E2; [|discriminate]. inversion H; subst; clear H.
  destruct real_all as (Hg & _).
  destruct (Hg (mp_graph p) [] empty_heap h1 gid) as (T & A1 & A2 & A3 & A4); auto.
  { split; [exact I|]. split; intros t k v []. }
  destruct (PFs _ _ _ _ E2) as (Fs & B1 & B2 & B3).
  exists (MT (mp_tok p) T (fold_left (fun acc F => fdict_set F acc) Fs [])). split.
  - unfold pu_m. cbn [map] in A1. rewrite A1. cbn [obind]. rewrite B1. reflexivity.
  - unfold unfold2_model. cbn [m_tok m_graph m_funcs]. f_equal.
    + unfold unfold2_root. eapply real2_g_unfold.
      * destruct real2_stable as (Sg & _). eapply Sg; [apply vstep_keepsP; exact B3 | exact A2].
      * pose proof (vstep_ngr _ _ B3). unfold ser_fuel, ngr in *. lia.
    + apply Forall2_map_eq.
      set (R := fun (x : func) (F : ftree) => unfold2_function [] h x = F /\ f_id x = fid_of F).
      assert (F0 : Forall2 R fs Fs).
      { eapply Forall2_imp; [|exact B2]. intros x F (R1 & R2). split; auto. eapply real2_f_unfold; eauto. }
      pose proof (funcs_dict_fdict R (fun x F Hr => proj2 Hr) fs Fs F0 [] [] (Forall2_nil _)) as D.
      eapply Forall2_imp; [|exact D]. intros x F (R1 & _). exact R1.
Qed.


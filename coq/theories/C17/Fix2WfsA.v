(* C17/Fix2WfsA.v — list lemmas for punfold_wfs: index_last / resolve2 / trim_names / adict / fdict /
   pu_declare / pu_inits / pu_inputs.  (Stage A of Fix2Wfs.) *)
From Coq Require Import NArith List Bool Arith Lia.
From IRV Require Import Base.Exn C03.Model C03.Canon C03.Inv C03.Tree C03.TreeF C03.PayFixDefs C03.IsoSer C17.Tree2 C17.PUnfold C17.Fix2Defs.
Import ListNotations.

(* ------------------------------------------------------------------ reflection *)
Lemma memN_In k l : memN k l = true <-> In k l.
Proof.
  unfold memN. rewrite existsb_exists. split.
  - intros (x & H & E). apply N.eqb_eq in E. subst; auto.
  - intros H. exists k. split; auto. apply N.eqb_refl.
Qed.
Lemma memN_nIn k l : memN k l = false <-> ~ In k l.
Proof.
  rewrite <- memN_In. destruct (memN k l); split; intros; try discriminate; auto. exfalso; auto.
Qed.
Lemma nodup_N_NoDup l : nodup_N l = true <-> NoDup l.
Proof.
  induction l as [|x r IH]; simpl.
  - split; auto. constructor.
  - rewrite andb_true_iff, negb_true_iff, IH. change (existsb (N.eqb x) r) with (memN x r).
    rewrite memN_nIn. split.
    + intros [A B]. constructor; auto.
    + intros H. inversion H; auto.
Qed.
Lemma NoDup_snoc {A} (l : list A) x : NoDup l -> ~ In x l -> NoDup (l ++ [x]).
Proof.
  induction l as [|y r IH]; simpl; intros H N.
  - constructor; auto.
  - inversion H; subst. constructor.
    + rewrite in_app_iff. simpl. intros [?|[?|[]]]; auto.
    + apply IH; auto.
Qed.
Lemma NoDup_app_intro {A} (a b : list A) :
  NoDup a -> NoDup b -> (forall x, In x b -> ~ In x a) -> NoDup (a ++ b).
Proof.
  induction a as [|y r IH]; simpl; intros Ha Hb D; auto.
  inversion Ha; subst. constructor.
  - rewrite in_app_iff. intros [?|?]; auto. eapply D; eauto.
  - apply IH; auto. intros x Hx N. eapply D; eauto.
Qed.
Lemma filter_map_comm {A B} (f : B -> bool) (g : A -> B) l :
  filter f (map g l) = map g (filter (fun x => f (g x)) l).
Proof. induction l as [|x r IH]; simpl; auto. destruct (f (g x)); simpl; rewrite IH; auto. Qed.

Lemma forallb_map {A B} (f : B -> bool) (g : A -> B) l : forallb f (map g l) = forallb (fun x => f (g x)) l.
Proof. induction l as [|x r IH]; simpl; auto. rewrite IH. auto. Qed.
Lemma existsb_map {A B} (f : B -> bool) (g : A -> B) l : existsb f (map g l) = existsb (fun x => f (g x)) l.
Proof. induction l as [|x r IH]; simpl; auto. rewrite IH. auto. Qed.

Definition nz (k : N) : bool := negb (N.eqb k 0).

(* ------------------------------------------------------------------ index_last *)
Lemma index_last_shift k l i : index_last k l (S i) = option_map S (index_last k l i).
Proof.
  revert i. induction l as [|y r IH]; intros i; simpl; auto.
  rewrite (IH (S i)). destruct (index_last k r (S i)); simpl; auto. destruct (N.eqb k y); auto.
Qed.
Lemma index_last_none k l i : index_last k l i = None <-> ~ In k l.
Proof.
  revert i. induction l as [|y r IH]; intros i; simpl.
  - split; auto.
  - destruct (index_last k r (S i)) eqn:E.
    + split; [discriminate|]. intros N. exfalso. apply N. right.
      destruct (in_dec N.eq_dec k r) as [?|Hn]; auto. apply (IH (S i)) in Hn. congruence.
    + apply IH in E. destruct (N.eqb_spec k y).
      * split; [discriminate|]. intros N. exfalso; auto.
      * split; auto. intros _ [?|?]; auto.
Qed.
Lemma index_last_some k l i j : index_last k l i = Some j -> i <= j /\ nth_error l (j - i) = Some k.
Proof.
  revert i. induction l as [|y r IH]; intros i; simpl; [discriminate|].
  destruct (index_last k r (S i)) eqn:E.
  - intros H; inversion H; subst. apply IH in E. destruct E as [A B]. split; [lia|].
    replace (j - i) with (S (j - S i)) by lia. auto.
  - destruct (N.eqb_spec k y); [|discriminate]. intros H; inversion H; subst. split; auto.
    rewrite Nat.sub_diag. auto.
Qed.
Lemma index_last_some0 k l j : index_last k l 0 = Some j -> nth_error l j = Some k.
Proof. intros H. apply index_last_some in H. rewrite Nat.sub_0_r in H. tauto. Qed.
Lemma index_last_In k l i : In k l -> exists j, index_last k l i = Some j.
Proof.
  intros H. destruct (index_last k l i) eqn:E; eauto. apply index_last_none in E. tauto.
Qed.
Lemma index_last_app k a b i :
  index_last k (a ++ b) i = match index_last k b (i + length a) with Some j => Some j | None => index_last k a i end.
Proof.
  revert i. induction a as [|y r IH]; intros i; simpl.
  - rewrite Nat.add_0_r. destruct (index_last k b i); auto.
  - rewrite (IH (S i)). rewrite Nat.add_succ_r. simpl. destruct (index_last k b (S (i + length r))); auto.
Qed.
Lemma index_last_app_l k a b i : ~ In k b -> index_last k (a ++ b) i = index_last k a i.
Proof. intros H. rewrite index_last_app. apply (index_last_none k b (i + length a)) in H. rewrite H. auto. Qed.
Lemma index_last_mid k a b i : ~ In k b -> index_last k (a ++ k :: b) i = Some (i + length a).
Proof.
  intros H. rewrite index_last_app. simpl.
  apply (index_last_none k b (S (i + length a))) in H. rewrite H. rewrite N.eqb_refl. auto.
Qed.
Lemma index_last_rest inn rest j k :
  NoDup rest -> nth_error rest j = Some k -> index_last k (inn ++ rest) 0 = Some (length inn + j).
Proof.
  intros ND H. apply nth_error_split in H. destruct H as (l1 & l2 & E & L). subst rest.
  apply NoDup_remove_2 in ND. rewrite app_assoc. rewrite index_last_mid.
  - rewrite app_length. simpl. f_equal. lia.
  - intros N. apply ND. rewrite in_app_iff; auto.
Qed.

(* ------------------------------------------------------------------ resolve2 *)
Lemma resolve2_ext k cur E outer d :
  ~ In k E -> resolve2 k ((cur ++ E) :: outer) d = resolve2 k (cur :: outer) d.
Proof. intros H. simpl. rewrite index_last_app_l; auto. Qed.
Lemma resolve2_prefix_none k cur X outer d :
  resolve2 k ((cur ++ X) :: outer) d = None -> resolve2 k (cur :: outer) d = None.
Proof.
  simpl. destruct (index_last k (cur ++ X) 0) eqn:E; [discriminate|].
  apply index_last_none in E. assert (N : ~ In k cur) by (intros ?; apply E; rewrite in_app_iff; auto).
  apply (index_last_none k cur 0) in N. rewrite N. auto.
Qed.
Lemma resolve2_none_nIn k cur outer d : resolve2 k (cur :: outer) d = None -> ~ In k cur.
Proof. simpl. destruct (index_last k cur 0) eqn:E; [discriminate|]. intros _. apply index_last_none in E. auto. Qed.
Lemma ref_eqb_refl r : ref_eqb r r = true.
Proof. destruct r as [[a b]|]; simpl; auto. rewrite !Nat.eqb_refl. auto. Qed.

(* the level after some placeholders have been added *)
Definition ext (cur lvl : list N) : Prop := exists E, lvl = cur ++ E /\ forall k, In k E -> ~ In k cur.
Lemma ext_refl cur : ext cur cur.
Proof. exists []. rewrite app_nil_r. split; [auto|]. intros k []. Qed.
Lemma ext_trans a b c : ext a b -> ext b c -> ext a c.
Proof.
  intros (E1 & H1 & N1) (E2 & H2 & N2). subst. exists (E1 ++ E2). rewrite app_assoc. split; auto.
  intros k H. apply in_app_iff in H. destruct H as [H|H]; auto.
  intros I. apply (N2 k H). rewrite in_app_iff; auto.
Qed.

(* ------------------------------------------------------------------ pu_inputs *)
Lemma pu_inputs_ok vis outer : forall ins cur cur' its,
  pu_inputs vis outer cur ins = Some (cur', its) ->
  (exists E, cur' = cur ++ E /\ forall k, In k E -> resolve2 k (cur :: outer) 0 = None)
  /\ add_free_names outer cur its = cur'
  /\ forallb (wf2_node_in (cur' :: outer)) its = true.
Proof.
  induction ins as [|k r IH]; intros cur cur' its H.
  - simpl in H. inversion H; subst. split; [|split]; auto. exists []. rewrite app_nil_r. split; [auto|]. intros k [].
  - cbn [pu_inputs] in H. destruct (N.eqb_spec k 0) as [Z|Z].
    + destruct (pu_inputs vis outer cur r) as [[c i]|] eqn:E; cbn [obind fst snd] in H; [|discriminate].
      inversion H; subst. apply IH in E. destruct E as (A & B & C). split; [|split]; auto.
    + destruct (resolve2 k (cur :: outer) 0) as [rf|] eqn:R.
      * destruct (pu_inputs vis outer cur r) as [[c i]|] eqn:E; cbn [obind fst snd] in H; [|discriminate].
        inversion H; subst. apply IH in E. destruct E as ((E & HE & NE) & B & C). split; [|split].
        -- exists E; auto.
        -- cbn [add_free_names]. rewrite R. cbn [is_some]. auto.
        -- cbn [forallb wf2_node_in]. rewrite C, HE, resolve2_ext.
           ++ rewrite R. rewrite ref_eqb_refl. cbn [is_some]. apply N.eqb_neq in Z. rewrite Z. auto.
           ++ intros I. apply NE in I. congruence.
      * destruct (vis_pay vis k) as [p|]; cbn [obind fst snd] in H; [|discriminate].
        destruct (pu_inputs vis outer (cur ++ [k]) r) as [[c i]|] eqn:E; cbn [obind fst snd] in H; [|discriminate].
        inversion H; subst. apply IH in E. destruct E as ((E & HE & NE) & B & C). split; [|split].
        -- exists ([k] ++ E). rewrite app_assoc. split; auto. intros k' I. apply in_app_iff in I.
           destruct I as [[I|[]]|I]; [subst; auto|]. apply NE in I. eapply resolve2_prefix_none; eauto.
        -- cbn [add_free_names]. rewrite R. cbn [is_some]. auto.
        -- cbn [forallb wf2_node_in]. rewrite C, HE, resolve2_ext.
           ++ cbn [resolve2]. rewrite (index_last_mid k cur [] 0) by (intros []). cbn. rewrite Nat.eqb_refl.
              apply N.eqb_neq in Z. rewrite Z. auto.
           ++ intros I. apply NE in I. cbn [resolve2] in I. rewrite (index_last_mid k cur [] 0) in I by (intros []). discriminate.
Qed.
Lemma pu_inputs_ext vis outer ins cur cur' its : pu_inputs vis outer cur ins = Some (cur', its) -> ext cur cur'.
Proof.
  intros H. apply pu_inputs_ok in H. destruct H as ((E & HE & NE) & _). exists E. split; auto.
  intros k I. apply NE in I. eapply resolve2_none_nIn; eauto.
Qed.

(* ------------------------------------------------------------------ trim_names *)
Lemma trim_In k l : In k (trim_names l) -> In k l.
Proof.
  induction l as [|y r IH]; simpl; auto. destruct (trim_names r) eqn:E.
  - destruct (N.eqb y 0); simpl; tauto.
  - simpl. intros [?|H]; auto.
Qed.
Lemma trim_filter l : filter nz (trim_names l) = filter nz l.
Proof.
  induction l as [|y r IH]; simpl; auto. destruct (trim_names r) eqn:E.
  - simpl in IH. rewrite <- IH. unfold nz at 2. destruct (N.eqb y 0) eqn:Z; simpl; auto.
    unfold nz. rewrite Z. auto.
  - rewrite <- IH. simpl. auto.
Qed.
Lemma trim_last l : trim_names l = [] \/ exists l' k, trim_names l = l' ++ [k] /\ k <> 0%N.
Proof.
  induction l as [|y r IH]; simpl; auto. destruct (trim_names r) eqn:E.
  - destruct (N.eqb_spec y 0); auto. right. exists [], y. auto.
  - right. destruct IH as [?|(l' & k & H & Z)]; [discriminate|]. exists (y :: l'), k. rewrite H. auto.
Qed.

(* ------------------------------------------------------------------ dictionaries (adict / fdict) *)
Section Dict.
  Context {A : Type} (key : A -> N).
  Fixpoint dset (a : A) (l : list A) : list A :=
    match l with [] => [a] | b :: r => if N.eqb (key a) (key b) then a :: r else b :: dset a r end.
  Lemma dset_In a l x : In x (dset a l) -> x = a \/ In x l.
  Proof.
    induction l as [|b r IH]; simpl.
    - intros [?|[]]; auto.
    - destruct (N.eqb (key a) (key b)); simpl; intros [?|H]; auto. apply IH in H. tauto.
  Qed.
  Lemma dset_keys a l :
    map key (dset a l) = if memN (key a) (map key l) then map key l else map key l ++ [key a].
  Proof.
    induction l as [|b r IH]; simpl; auto.
    destruct (N.eqb_spec (key a) (key b)) as [E|E]; simpl.
    - rewrite E. auto.
    - rewrite IH. destruct (memN (key a) (map key r)); auto.
  Qed.
  Lemma dset_NoDup a l : NoDup (map key l) -> NoDup (map key (dset a l)).
  Proof.
    intros H. rewrite dset_keys. destruct (memN (key a) (map key l)) eqn:M; auto.
    apply NoDup_snoc; auto. apply memN_nIn; auto.
  Qed.
  Lemma dfold_ok l : forall acc, NoDup (map key acc) ->
    NoDup (map key (fold_left (fun acc a => dset a acc) l acc))
    /\ forall x, In x (fold_left (fun acc a => dset a acc) l acc) -> In x acc \/ In x l.
  Proof.
    induction l as [|a r IH]; simpl; intros acc H; auto.
    destruct (IH (dset a acc) (dset_NoDup a acc H)) as [A1 A2]. split; auto.
    intros x I. apply A2 in I. destruct I as [I|I]; auto. apply dset_In in I. destruct I; auto.
  Qed.
End Dict.
Lemma adict_set_dset a l : adict_set a l = dset aname a l.
Proof. induction l as [|b r IH]; simpl; [auto|]. rewrite IH. auto. Qed.
Lemma fdict_set_dset F l : fdict_set F l = dset fid_of F l.
Proof. induction l as [|b r IH]; simpl; [auto|]. rewrite IH. rewrite (N.eqb_sym (fid_of b)). auto. Qed.
Lemma adict_ok l : NoDup (map aname (adict l)) /\ forall x, In x (adict l) -> In x l.
Proof.
  unfold adict.
  assert (E : forall l acc, fold_left (fun acc a => adict_set a acc) l acc = fold_left (fun acc a => dset aname a acc) l acc).
  { clear. induction l as [|a r IH]; simpl; auto; intros acc; rewrite adict_set_dset; auto. }
  rewrite E. destruct (dfold_ok aname l []) as [A B]; [constructor|]. split; auto.
  intros x I. apply B in I. destruct I as [[]|]; auto.
Qed.
Lemma fdict_ok l : NoDup (map fid_of (fold_left (fun acc F => fdict_set F acc) l []))
                   /\ forall x, In x (fold_left (fun acc F => fdict_set F acc) l []) -> In x l.
Proof.
  assert (E : forall l acc, fold_left (fun acc a => fdict_set a acc) l acc = fold_left (fun acc a => dset fid_of a acc) l acc).
  { clear. induction l as [|a r IH]; simpl; auto; intros acc; rewrite fdict_set_dset; auto. }
  rewrite E. destruct (dfold_ok fid_of l []) as [A B]; [constructor|]. split; auto.
  intros x I. apply B in I. destruct I as [[]|]; auto.
Qed.

(* ------------------------------------------------------------------ pu_declare *)
Fixpoint nouts (ns : nprotos) : list N :=
  match ns with NNil => [] | NCons (Np _ _ _ _ outs _) r => outs ++ nouts r end.

Lemma pu_declare_outs_ok vis bound : forall outs acc acc',
  pu_declare_outs vis bound acc outs = Some acc' ->
  map fst acc' = map fst acc ++ filter nz outs
  /\ (NoDup (map fst acc) -> NoDup (map fst acc'))
  /\ (forall k, In k (filter nz outs) -> ~ In k bound).
Proof.
  induction outs as [|k r IH]; intros acc acc' H; cbn [pu_declare_outs] in H; cbn [filter].
  - inversion H; subst. rewrite app_nil_r. split; [|split]; auto.
  - assert (NZ : nz k = negb (N.eqb k 0)) by reflexivity. rewrite NZ. clear NZ.
    destruct (N.eqb k 0) eqn:Z; cbn [negb]; auto.
    destruct (memN k bound || memN k (map fst acc)) eqn:M; [discriminate|].
    apply orb_false_iff in M. destruct M as [M1 M2]. apply memN_nIn in M1. apply memN_nIn in M2.
    destruct (vis_pay vis k) as [p|]; cbn [obind] in H; [|discriminate].
    apply IH in H. destruct H as (A & B & C). rewrite map_app in A, B. simpl in A, B. rewrite <- app_assoc in A.
    split; [|split]; auto.
    + intros ND. apply B. apply NoDup_snoc; auto.
    + intros k' [E|I]; subst; auto.
Qed.
Lemma pu_declare_ok vis bound : forall ns acc acc',
  pu_declare vis bound acc ns = Some acc' ->
  map fst acc' = map fst acc ++ filter nz (nouts ns)
  /\ (NoDup (map fst acc) -> NoDup (map fst acc'))
  /\ (forall k, In k (filter nz (nouts ns)) -> ~ In k bound).
Proof.
  induction ns as [|n r IH]; simpl; intros acc acc' H.
  - inversion H; subst. rewrite app_nil_r. split; [|split]; auto.
  - destruct n as [nname op ntok ins outs attrs].
    destruct (pu_declare_outs vis bound acc outs) as [acc1|] eqn:E; simpl in H; [|discriminate].
    apply pu_declare_outs_ok in E. destruct E as (A1 & B1 & C1).
    apply IH in H. destruct H as (A2 & B2 & C2). rewrite filter_app. split; [|split]; auto.
    + rewrite A2, A1, app_assoc. auto.
    + intros k I. apply in_app_iff in I. destruct I; auto.
Qed.

(* ------------------------------------------------------------------ pu_inits *)
Definition inits_inv (inn newn : list N) (recs : list irec) : Prop :=
  map ir_name (filter (fun r => negb (ir_input r)) recs) = newn
  /\ NoDup (map ir_name recs)
  /\ (forall r, In r recs -> ir_name r <> 0%N /\ memN (ir_name r) inn = ir_input r)
  /\ NoDup newn /\ (forall k, In k newn -> ~ In k inn).

Lemma irec_update_some k t : forall l l', irec_update k t l = Some l' -> In k (map ir_name l).
Proof.
  induction l as [|r rest IH]; simpl; intros l' H; [discriminate|].
  destruct (N.eqb_spec (ir_name r) k) as [E|E]; auto.
  destruct (irec_update k t rest) as [l1|] eqn:U; [|discriminate]. right. eapply IH; eauto.
Qed.

(* every non-zero name is processed once (at its last tensor): records are never updated *)
Lemma pu_inits_ok vis inn : forall ts newn recs newn' recs',
  pu_inits vis inn newn recs ts = Some (newn', recs') ->
  inits_inv inn newn recs ->
  (forall r, In r recs -> ~ In (ir_name r) (map tp_name ts)) ->
  (forall r, In r recs -> ir_input r = false -> td_bad (ir_t r) = false) ->
  inits_inv inn newn' recs' /\ (forall r, In r recs' -> ir_input r = false -> td_bad (ir_t r) = false).
Proof.
  induction ts as [|t r IH]; intros newn recs newn' recs' H Inv Fr Bd; cbn [pu_inits] in H.
  - inversion H; subst; auto.
  - assert (Fr' : forall x, In x recs -> ~ In (ir_name x) (map tp_name r)).
    { intros x I J. apply (Fr x I). simpl. auto. }
    destruct (N.eqb_spec (tp_name t) 0) as [Z|Z]; [eauto|].
    destruct (existsb (fun t' => N.eqb (tp_name t') (tp_name t)) r) eqn:X; [eauto|].
    assert (Nr : ~ In (tp_name t) (map tp_name r)).
    { intros I. apply in_map_iff in I. destruct I as (t' & E1 & I1).
      assert (existsb (fun t' => N.eqb (tp_name t') (tp_name t)) r = true); [|congruence].
      apply existsb_exists. exists t'. split; auto. apply N.eqb_eq; auto. }
    assert (Nk : ~ In (tp_name t) (map ir_name recs)).
    { intros I. apply in_map_iff in I. destruct I as (x & E1 & I1). apply (Fr x I1). simpl. auto. }
    destruct (memN (tp_name t) inn || memN (tp_name t) newn) eqn:M.
    + destruct (irec_update (tp_name t) (tdesc_of t) recs) as [recs1|] eqn:U.
      * exfalso. apply irec_update_some in U. auto.
      * destruct Inv as (A & B & C & D & E).
        assert (Hin : In (tp_name t) inn).
        { apply orb_true_iff in M. destruct M as [M|M]; apply memN_In in M; auto.
          exfalso. apply Nk. rewrite <- A in M. apply in_map_iff in M. destruct M as (x & E1 & I1).
          apply filter_In in I1. apply in_map_iff. exists x. tauto. }
        eapply IH; eauto.
        -- split; [|split; [|split]]; auto.
           ++ rewrite filter_app. simpl. rewrite app_nil_r. auto.
           ++ rewrite map_app. simpl. apply NoDup_snoc; auto.
           ++ intros x I. apply in_app_iff in I. destruct I as [I|[I|[]]]; auto. subst x. simpl. split; auto.
              apply memN_In; auto.
        -- intros x I. apply in_app_iff in I. destruct I as [I|[I|[]]]; auto. subst x. auto.
        -- intros x I. apply in_app_iff in I. destruct I as [I|[I|[]]]; auto. subst x. discriminate.
    + apply orb_false_iff in M. destruct M as [M1 M2]. apply memN_nIn in M1. apply memN_nIn in M2.
      destruct (tp_bad_info t) eqn:TB; [discriminate|].
      destruct (init_pay vis t) as [p|]; cbn [obind] in H; [|discriminate].
      destruct Inv as (A & B & C & D & E).
      eapply IH; eauto.
      * split; [|split; [|split; [|split]]].
        -- rewrite filter_app, map_app. simpl. rewrite A. auto.
        -- rewrite map_app. simpl. apply NoDup_snoc; auto.
        -- intros x I. apply in_app_iff in I. destruct I as [I|[I|[]]]; auto. subst x. simpl. split; auto.
           apply memN_nIn; auto.
        -- apply NoDup_snoc; auto.
        -- intros k I. apply in_app_iff in I. destruct I as [I|[I|[]]]; auto. subst; auto.
      * intros x I. apply in_app_iff in I. destruct I as [I|[I|[]]]; auto. subst x. auto.
      * intros x I. apply in_app_iff in I. destruct I as [I|[I|[]]]; auto. subst x. simpl. auto.
Qed.
Lemma inits_inv_nil inn : inits_inv inn [] [].
Proof.
  unfold inits_inv. simpl. split; [auto|]. split; [constructor|]. split; [intros ? []|]. split; [constructor|intros ? []].
Qed.

(* C17/Fix2RealE.v — the graph case of the mutual induction for punfold_real: the final tree of pu_g in closed
   form, the correspondence final payload / out flag (heap) vs pay_fin / flag (names), gdefs of the finished
   graph = the definition part of the level, provisional nodes become real, and PG_case. *)
From Coq Require Import NArith List Bool Arith Lia.
From IRV Require Import Base.Exn C03.Model C03.Canon C03.Inv C03.Tree C03.TreeF C03.IsoDeserA C03.IsoDeserB C03.IsoDeserC
  C03.IsoDeserD
  C17.Basics C17.Specs C17.Steps C17.Phases C17.OpNode C17.OpGraph C17.Deser C17.Top C17.Tree2 C17.PUnfold C17.Fix2Defs
  C17.Fix2RealA C17.Fix2RealB C17.Fix2RealC C17.Fix2RealD.
Import ListNotations.

Arguments alloc_value : simpl never.
Arguments new_node : simpl never.
Arguments new_graph : simpl never.
Arguments lookup_scopes : simpl never.
Arguments lookup : simpl never.
Arguments alloc_inputs : simpl never.
Arguments apply_infos : simpl never.
Arguments alloc_tensors : simpl never.
Arguments deser_inits : simpl never.
Arguments declare_nodes : simpl never.
Arguments graph_outputs : simpl never.
Arguments table_of : simpl never.

(* ------------------------------------------------------------------ the final tree of pu_g in closed form *)
Definition f_orefs (lvl : list N) (outs : list vinfo) : list (ref * N * N) :=
  map (fun i => (resolve2 (vi_name i) [lvl] 0, vi_name i, vi_pay i)) outs.
Definition f_pay (orefs : list (ref * N * N)) (j : nat) (p0 : N) : N :=
  fold_left (fun acc o => match fst (fst o) with
                          | Some (_, j') => if Nat.eqb j j' then snd o else acc
                          | None => acc
                          end) orefs p0.
Definition f_flag (orefs : list (ref * N * N)) (j : nat) : bool :=
  existsb (fun o => match fst (fst o) with Some (_, j') => Nat.eqb j j' | None => false end) orefs.
Definition f_vd (defs0 : list (N * N)) (orefs : list (ref * N * N)) (k : N) : vdesc :=
  match index_last k (map fst defs0) 0 with
  | Some j => mkVD k true (f_pay orefs j (match nth_error defs0 j with Some kp => snd kp | None => 0%N end)) (f_flag orefs j)
  | None => mkVD k true 0 false
  end.
Definition f_defs (ins : list vinfo) (recs : list irec) (decl : list (N * N)) : list (N * N) :=
  map (fun i => (vi_name i, vi_pay i)) ins ++ idefs recs ++ decl.
Definition f_node (vdf : N -> vdesc) (pn : pnode) : ntree :=
  NT (pn_name pn) (pn_op pn) (pn_tok pn) (pn_ins pn)
     (map (fun k => if N.eqb k 0 then mkVD 0 true 0 false else vdf k) (pn_outs pn))
     (atrees_of (pn_attrs pn)).
Definition fin_tree (gname gtok : N) (ins outs : list vinfo) (recs : list irec) (decl : list (N * N)) (lvl : list N)
           (pns : list pnode) : gtree :=
  let defs0 := f_defs ins recs decl in
  let orefs := f_orefs lvl outs in
  GT gname gtok
     (map (fun ji => let '(j, i) := ji in mkVD (vi_name i) true (f_pay orefs j (vi_pay i)) (f_flag orefs j))
          (combine (seq 0 (length ins)) ins))
     (map (fun r => mkID (ir_name r) true (Some (ir_t r)) (ir_input r)
                         (if ir_input r
                          then match index_last (ir_name r) (map vi_name ins) 0 with
                               | Some j => f_pay orefs j (match nth_error ins j with Some i => vi_pay i | None => 0%N end)
                               | None => 0%N
                               end
                          else vd_pay (f_vd defs0 orefs (ir_name r)))) recs)
     (ntrees_of (map (f_node (f_vd defs0 orefs)) pns))
     (map (fun o => let '(r, k, p) := o in
                    (r, mkVD k true (match r with Some (_, j) => f_pay orefs j p | None => p end) true)) orefs).

Lemma pu_g_unfold outer gname gtok ins outs inits vis nodes newn recs decl lvl pns :
  existsb vi_bad ins = false -> existsb vi_bad outs = false -> existsb tp_bad_ctor inits = false ->
  pu_inits vis (map vi_name ins) [] [] inits = Some (newn, recs) ->
  pu_declare vis (map vi_name ins ++ newn) [] nodes = Some decl ->
  pu_ns vis outer (map fst (f_defs ins recs decl)) nodes = Some (lvl, pns) ->
  pu_g outer (Gp gname gtok ins outs inits vis nodes) = Some (fin_tree gname gtok ins outs recs decl lvl pns).
Proof.
  intros H1 H1' H1'' H2 H3 H4. cbn [pu_g]. rewrite H1, H1', H1''. cbn [orb]. rewrite H2. cbn [obind]. cbv beta iota.
  rewrite H3. cbn [obind].
  match goal with |- obind ?X _ = _ => change X with (pu_ns vis outer (map fst (f_defs ins recs decl)) nodes) end.
  rewrite H4. cbn [obind]. reflexivity.
Qed.

(* ------------------------------------------------------------------ small facts *)
Lemma tpay_nil x : tpay [] x = v_info x.
Proof. unfold tpay, norm_pay. rewrite lookup_nil. destruct (N.eqb_spec (v_info x) 0); congruence. Qed.
Lemma vdesc_val h v x : getv h v = Some x ->
  vdesc_of [] h v = mkVD (match v_name x with Some k => k | None => 0%N end) (match v_name x with Some _ => true | None => false end)
                         (v_info x) (v_out x).
Proof. intros H. unfold vdesc_of. rewrite H, tpay_nil. auto. Qed.
Lemma vdesc_empty_name h v : vdesc_of [] h v = empty_vd -> exists x, getv h v = Some x /\ v_name x = Some 0%N.
Proof.
  unfold vdesc_of, empty_vd. destruct (getv h v) as [x|]; [|discriminate]. intros H. exists x. split; auto.
  revert H. destruct (v_name x) as [k|]; intros H; inversion H; subst; auto.
Qed.

Lemma nz_cons' (k : N) (r : list N) : nz (k :: r) = if N.eqb k 0 then nz r else k :: nz r.
Proof. exact (nz_cons k r). Qed.
Lemma nz_trim (l : list N) : nz (trim_names l) = nz l.
Proof.
  induction l as [|k r IH]; [reflexivity|]. cbn [trim_names]. destruct (trim_names r) as [|a l'] eqn:E.
  - rewrite (nz_cons' k r), <- IH. destruct (N.eqb_spec k 0) as [Hz|Hz]; [reflexivity|].
    rewrite nz_cons'. destruct (N.eqb_spec k 0); [contradiction|reflexivity].
  - rewrite (nz_cons' k (a :: l')), (nz_cons' k r), IH. reflexivity.
Qed.

Lemma pu_ns_outs vis outer : forall ns cur lvl pns, pu_ns vis outer cur ns = Some (lvl, pns) ->
  flat_map (fun pn => nz (pn_outs pn)) pns = out_names ns.
Proof.
  induction ns as [|[nname op ntok ins outs attrs] r IH]; intros cur lvl pns H; cbn in H.
  - inversion H; reflexivity.
  - destruct (pu_inputs vis outer cur ins) as [[cur' its]|]; [|discriminate]. cbn in H.
    destruct (pu_as (cur' :: outer) attrs) as [al|]; [|discriminate]. cbn in H.
    destruct (pu_ns vis outer cur' r) as [[lvl' pns']|] eqn:Er; [|discriminate]. cbn in H. inversion H; subst.
    cbn. rewrite nz_trim. f_equal. eapply IH; eauto.
Qed.

Lemma existsb_map {A B} (f : B -> bool) (g : A -> B) l : existsb f (map g l) = existsb (fun x => f (g x)) l.
Proof. induction l; simpl; auto. rewrite IHl; auto. Qed.

(* ------------------------------------------------------------------ heap side vs name side of the graph outputs *)
Lemma sel_pos t j u i : NoDup (ids t) -> nth_error (ids t) j = Some u ->
  osel t u i = match resolve2 (vi_name i) [nms t] 0 with Some (_, j') => Nat.eqb j j' | None => false end.
Proof. intros Hnd Hu. unfold osel. apply look_pos; auto. Qed.
Lemma opay_fpay t j u outs p0 : NoDup (ids t) -> nth_error (ids t) j = Some u ->
  opay t u outs p0 = f_pay (f_orefs (nms t) outs) j p0.
Proof.
  intros Hnd Hu. unfold opay, f_pay, f_orefs. rewrite fold_left_map. apply fold_left_ext_in. intros a i _. cbn [fst snd].
  rewrite (sel_pos t j u i Hnd Hu). destruct (resolve2 (vi_name i) [nms t] 0) as [[d j']|]; auto.
Qed.
Lemma osel_fflag t j u outs : NoDup (ids t) -> nth_error (ids t) j = Some u ->
  existsb (osel t u) outs = f_flag (f_orefs (nms t) outs) j.
Proof.
  intros Hnd Hu. unfold f_flag, f_orefs. rewrite existsb_map. apply existsb_ext_in. intros i _. cbn [fst snd].
  apply sel_pos; auto.
Qed.
Lemma memb_osel t (n6 n7 : nat) (P : vinfo -> nat -> Prop) outs outvs u :
  Forall2 (fun i v => match lookup (vi_name i) t with Some w => v = w | None => n6 <= v < n7 /\ P i v end) outs outvs ->
  u < n6 -> memb u outvs = existsb (osel t u) outs.
Proof.
  intros F Hu. induction F as [|i v l l' Hiv F IH]; simpl; auto. rewrite <- IH. unfold memb at 1. simpl. f_equal.
  unfold osel. destruct (lookup (vi_name i) t) as [w|].
  - subst v. apply Nat.eqb_sym.
  - destruct Hiv as ((Hv & _) & _). apply Nat.eqb_neq. lia.
Qed.

(* ------------------------------------------------------------------ node outputs: gdefs, trimming *)
Lemma out_named (P : nat -> Prop) h h' tbl : ext h h' ->
  (forall k v, lookup k tbl = Some v -> exists x, getv h v = Some x /\ v_name x = Some k) ->
  forall vs ks, Forall2 (out_rel2 P h tbl) vs ks -> filter (named_ne h') vs = map (look tbl) (nz ks).
Proof.
  intros E HT. induction 1 as [|v k vs ks Hvk F IH]; [reflexivity|]. cbn [filter]. rewrite nz_cons.
  unfold out_rel2 in Hvk. destruct (N.eqb_spec k 0) as [Hz|Hz].
  - destruct Hvk as (_ & Hv & Hd). destruct (vdesc_empty_name _ _ Hd) as (x & Hx & Hn).
    destruct (getv_ext _ _ _ _ E Hx) as (x' & Hx' & En). unfold named_ne. rewrite Hx', En, Hn. simpl. auto.
  - destruct (HT _ _ Hvk) as (x & Hx & Hn). destruct (getv_ext _ _ _ _ E Hx) as (x' & Hx' & En).
    unfold named_ne. rewrite Hx', En, Hn. destruct (N.eqb_spec k 0); [contradiction|]. cbn [negb map]. f_equal; auto.
    unfold look. rewrite Hvk. auto.
Qed.

Lemma gdefs_nodes2 (P : nat -> Prop) h h' outer gb tbl : ext h h' ->
  (forall k v, lookup k tbl = Some v -> exists x, getv h v = Some x /\ v_name x = Some k) ->
  forall pns ns cur lvl, pre2_ns P h outer cur gb tbl ns pns lvl ->
  flat_map (fun n => match getn h' n with Some y => filter (named_ne h') (n_outputs y) | None => [] end) ns
  = map (look tbl) (flat_map (fun pn => nz (pn_outs pn)) pns).
Proof.
  intros E HT. induction pns as [|pn r IH]; intros [|n ns] cur lvl H; cbn in H; try contradiction; [reflexivity|].
  destruct H as (cur1 & Hn & Hr). cbn [flat_map]. rewrite map_app, (IH _ _ _ Hr). f_equal.
  destruct Hn as (y & outs & Hy & _ & _ & _ & _ & _ & Ho & Hf & _).
  pose proof E as (_ & _ & _ & _ & E5 & _). destruct (E5 _ _ Hy) as (y' & Hy' & Ef). apply nfix_inv in Ef.
  destruct Ef as (_ & _ & _ & _ & Eo & _). rewrite Hy', Eo, Ho, nz_trim. eapply out_named; eauto.
Qed.

(* from the provisional nodes to real nodes, once the values of the level are final *)
Lemma pre_real2_ns (P P' : nat -> Prop) h h' outer gb gb' tbl (vdf : N -> vdesc) :
  keepsP P h h' -> (forall v, P v -> P' v) -> gb <= gb' ->
  forall pns ns cur lvl, pre2_ns P h outer cur gb tbl ns pns lvl ->
  (forall k v, In k (flat_map (fun pn => nz (pn_outs pn)) pns) -> lookup k tbl = Some v ->
     P' v /\ v < nv h' /\ vdesc_of [] h' v = vdf k /\ exists x, getv h' v = Some x /\ v_name x = Some k) ->
  real2_ns P' h' outer cur gb' ns (ntrees_of (map (f_node vdf) pns)) lvl.
Proof.
  intros K HP Hg. pose proof K as (E & K').
  assert (Hnv : nv h <= nv h') by (destruct E; auto).
  induction pns as [|pn r IH]; intros [|n ns] cur lvl H HO; cbn in H; try contradiction.
  - subst. cbn. auto.
  - destruct H as (cur1 & Hn & Hr). cbn [map ntrees_of real2_ns]. exists cur1. split.
    2:{ apply IH; auto. intros k v Hk. apply HO. cbn [flat_map]. apply in_or_app; auto. }
    destruct Hn as (y & outs & Hy & H1 & H2 & H3 & H4 & H5 & H6 & H7 & H8 & H9).
    pose proof E as (_ & _ & _ & _ & E5 & _). destruct (E5 _ _ Hy) as (y' & Hy' & Ef).
    apply nfix_inv in Ef. destruct Ef as (F1 & F2 & F3 & F4 & F5 & F6).
    (* the outputs in the final heap *)
    assert (OV : Forall2 (fun v k => (P' v /\ v < nv h' /\ vdesc_of [] h' v = (if N.eqb k 0 then mkVD 0 true 0 false else vdf k)) /\
                                     exists x, getv h' v = Some x /\ v_name x = Some k) (n_outputs y) outs).
    { eapply Forall2_imp_In; [|exact H7]. intros v k _ Hk Hvk. unfold out_rel2 in Hvk.
      destruct (N.eqb_spec k 0) as [Hz|Hz].
      - destruct Hvk as (A & B & C). rewrite <- (vdesc_keepP P h h' v K A B) in C. split.
        + csplit; auto. lia.
        + subst k. apply vdesc_empty_name; auto.
      - destruct (HO k v) as (A & B & C & D); auto.
        cbn [flat_map]. apply in_or_app. left. rewrite H6, nz_trim. apply In_nz. auto. }
    unfold f_node. cbn [real2_n]. exists y'. rewrite F1, F2, F3, F4, F5, F6, H1. csplit; auto.
    + rewrite <- H5. apply in_desc_ext2; auto.
    + rewrite H6.
      apply (Forall2_map_same (vdesc_of [] h') (fun k => if N.eqb k 0 then mkVD 0 true 0 false else vdf k)).
      apply trim_Forall2. eapply Forall2_imp; [|exact OV]. intros v k ((A & B & C) & D). split; auto.
    + intros v Hv. specialize (H8 _ Hv). lia.
    + intros v Hv. destruct (Forall2_inl _ _ _ _ OV Hv) as (k & _ & (A & B & _) & _). auto.
    + destruct real2_stable as (_ & _ & _ & Sa & _). destruct real2_mono as (_ & _ & _ & Ma & _).
      eapply Ma; [exact HP | exact Hg |]. eapply Sa; eauto.
Qed.

Lemma f_pay_indep orefs j : f_flag orefs j = true -> forall p q, f_pay orefs j p = f_pay orefs j q.
Proof.
  unfold f_flag, f_pay. induction orefs as [|[[rf k] p0] r IH]; simpl; intros H p q; [discriminate|].
  destruct rf as [[d j']|]; simpl in *; auto. destruct (Nat.eqb j j'); simpl in *; auto.
Qed.
Lemma nfix_nnode gid nodes n y : nfix (nnode gid nodes n y) = nfix y.
Proof. unfold nnode. destruct (memb n nodes); reflexivity. Qed.
Lemma gval_fields gid ins outs dvs v x :
  v_name (gval gid ins outs dvs v x) = v_name x /\ v_info (gval gid ins outs dvs v x) = v_info x /\
  v_const (gval gid ins outs dvs v x) = v_const x /\ v_out (gval gid ins outs dvs v x) = (memb v outs || v_out x).
Proof. unfold gval. simpl. auto. Qed.

(* ------------------------------------------------------------------ the graph case *)
Lemma PG_case gname gtok ins outs inits vis nodes : PNs nodes -> PG (Gp gname gtok ins outs inits vis nodes).
Proof.
  intros IHn sc h h8 gid HS H. cbn [deser_graph] in H.
  set (b := nv h) in *.
  destruct (alloc_inputs h ins) as [h1 invs] eqn:E1.
  destruct (apply_infos h1 ins invs) as [h2|e] eqn:E2; [|discriminate].
  destruct (phase_inputs b h ins h1 invs h2 eq_refl E1 E2) as (B1 & B2 & B3 & B4 & B5 & B6 & B7 & HT2 & HD2 & Hids0 & S02).
  set (tbl0 := table_of [] ins invs) in *.
  set (indefs := map (fun i => (vi_name i, vi_pay i)) ins) in *.
  assert (Einn : map fst indefs = map vi_name ins) by (unfold indefs; rewrite map_map; reflexivity).
  destruct (alloc_tensors h2 inits) as [[h3 cs]|e] eqn:E3; [|discriminate].
  destruct (phase_tensors _ _ _ _ E3) as (C1 & C2 & C3 & C4 & C5 & FT).
  assert (NV3 : nv h3 = nv h2) by (unfold nv; rewrite C2; auto).
  assert (S23 : vstep h2 h3).
  { apply vstep_same_old; auto; [lia|]. intros u _. unfold getv. rewrite C2. auto. }
  assert (HT3 : TBL b h3 tbl0) by (eapply TBL_vstep; eauto).
  assert (HD3 : TD h3 tbl0 (indefs ++ idefs [])) by (cbn; rewrite app_nil_r; eapply TD_vstep; eauto).
  destruct (deser_inits h3 tbl0 vis inits cs) as [[[h4 tbl1] initvs]|e] eqn:E4; [|discriminate].
  destruct (deser_inits_pu b vis indefs inits cs h3 tbl0 [] h4 tbl1 initvs E4 FT HT3)
    as (recs & added & Q1 & Q2 & Q3 & Q4 & Q5 & Q6 & Q7 & Q8 & Q9 & Q10 & Q11 & Q12 & Q13 & Q14);
    [unfold b; lia | exact HD3 | intros r [] | intros r [] |].
  cbn [idefs filter map app] in Q1, Q5, Q7.
  destruct (declare_nodes h4 tbl1 vis nodes) as [[h5 tbl2]|e] eqn:E5; [|discriminate].
  destruct (declare_nodes_pu b vis (indefs ++ idefs recs) nodes h4 tbl1 [] h5 tbl2 E5 Q2)
    as (decl & D1 & D2 & D3 & D4 & D5 & D6 & D7 & D8 & D9 & D10 & D11 & D12 & D13 & D14);
    [unfold b; lia | rewrite app_nil_r; exact Q3 |].
  cbn [map app] in D4.
  set (defs0 := f_defs ins recs decl).
  assert (Edefs : (indefs ++ idefs recs) ++ decl = defs0) by (unfold defs0, f_defs; rewrite <- app_assoc; reflexivity).
  assert (D3' : TD h5 tbl2 defs0) by (rewrite <- Edefs; exact D3). clear D3. rename D3' into D3.
  assert (Nms2 : nms tbl2 = map fst defs0) by (apply TD_nms with (h := h5); auto).
  destruct (deser_nodes nodes tbl2 sc vis h5) as [[[h6 tbl3] nids]|e] eqn:E6; [|discriminate].
  assert (B05 : bstep b h h5).
  { eapply bstep_trans; [apply vstep_bstep; exact S02|]. eapply bstep_trans; [apply vstep_bstep; exact S23|].
    eapply bstep_trans; [exact Q10|]. apply vstep_bstep; exact D10. }
  assert (NV05 : nv h <= nv h5) by (destruct B05 as ((A & _) & _); auto).
  destruct (IHn b sc vis h5 tbl2 h6 tbl3 nids) as (pns & N1 & N2 & N3 & N4 & N5 & N6); auto.
  { eapply SCB_ext; eauto. apply (bstep_ext b); auto. }
  destruct (graph_outputs h6 tbl3 outs) as [[h7 outvs]|e] eqn:E7; [|discriminate].
  destruct (graph_outputs_inv tbl3 outs h6 h7 outvs E7) as (G1 & G2 & G3 & G4 & G5 & G6 & G7).
  { intros k v Hin. destruct (TBL_lt _ _ _ _ _ N2 Hin). auto. }
  destruct (new_graph_inv2 _ _ _ _ _ _ _ _ _ H) as (Hgid & kv & K1 & K2 & K3 & K4 & K5 & K6 & K7 & K8 & K9).
  set (lvl := nms tbl3) in *. set (orefs := f_orefs lvl outs).
  exists (fin_tree gname gtok ins outs recs decl lvl pns). split.
  { apply pu_g_unfold with (newn := map fst (idefs recs)); auto.
    - rewrite <- Einn. exact Q1.
    - rewrite <- Einn, <- map_app. exact D1.
    - fold defs0. rewrite <- Nms2. exact N1. }
  (* ---- basic order facts *)
  pose proof (vstep_nv _ _ N4) as NV56. pose proof (vstep_nn _ _ N4) as NN56. pose proof (vstep_ngr _ _ N4) as NG56.
  assert (Hnd3 : NoDup (ids tbl3)) by apply N2.
  destruct (grows_ids _ _ _ N3) as (e3 & Eids3 & He3).
  destruct (grows_nms _ _ _ N3) as (en3 & Enms3 & Hen3). fold lvl in Enms3.
  assert (Len2 : length (ids tbl2) = length defs0).
  { rewrite ids_length, <- (rev_length tbl2). apply (Forall2_len _ _ _ D3). }
  assert (HD6 : TD h6 tbl2 defs0) by (eapply TD_vstep; eauto).
  set (dvs := map snd (dict_of [] kv)) in *.
  (* ---- the values of the level in the final heap *)
  assert (LVD : forall j v, nth_error (ids tbl3) j = Some v ->
            exists k x6, nth_error lvl j = Some k /\ getv h6 v = Some x6 /\ b <= v < nv h6 /\
              vdesc_of [] h8 v = mkVD k true (f_pay orefs j (v_info x6)) (f_flag orefs j) /\
              exists x8, getv h8 v = Some x8 /\ v_name x8 = Some k /\ v_const x8 = v_const x6).
  { intros j v Hj. destruct (nth_ids_inv _ _ _ Hj) as (k & Hk & Hin).
    destruct N2 as (_ & N2'). destruct (N2' _ _ Hin) as (Hb & x6 & Hx6 & Hn6 & Ho6).
    pose proof (getv_lt _ _ _ Hx6) as Hlt.
    exists k, x6. csplit; auto.
    - rewrite (vdesc_val h8 v (gval gid invs outvs dvs v (with_info (opay tbl3 v outs (v_info x6)) x6))).
      2:{ rewrite K8, (G3 _ _ Hx6). subst gid. reflexivity. }
      destruct (gval_fields gid invs outvs dvs v (with_info (opay tbl3 v outs (v_info x6)) x6)) as (F1 & F2 & F3 & F4).
      rewrite F1, F2, F4. cbn [v_name v_info v_out with_info]. rewrite Hn6, Ho6, orb_false_r.
      rewrite (opay_fpay tbl3 j v outs _ Hnd3 Hj). fold lvl. fold orefs.
      rewrite (memb_osel tbl3 (nv h6) (nv h7) _ outs outvs v G2 Hlt), (osel_fflag tbl3 j v outs Hnd3 Hj). reflexivity.
    - eexists. split; [rewrite K8, (G3 _ _ Hx6); reflexivity|]. cbn. auto. }
  (* positions with a creation payload *)
  assert (LV2 : forall j v k p0, nth_error (ids tbl3) j = Some v -> nth_error defs0 j = Some (k, p0) ->
            vdesc_of [] h8 v = mkVD k true (f_pay orefs j p0) (f_flag orefs j)).
  { intros j v k p0 Hj Hd. destruct (LVD _ _ Hj) as (k' & x6 & L1 & L2 & L3 & L4 & _).
    assert (Hjl : j < length (ids tbl2)). { rewrite Len2. apply nth_error_Some. congruence. }
    assert (Hj2 : nth_error (ids tbl2) j = Some v). { rewrite Eids3, nth_error_app1 in Hj; auto. }
    destruct (TD_nth _ _ _ _ _ HD6 Hj2) as (k2 & p2 & x & T1 & T2 & T3 & T4).
    assert (Ekp : k2 = k /\ p2 = p0) by (rewrite Hd in T1; inversion T1; auto). destruct Ekp as (Ek & Ep).
    assert (Ex : x = x6) by congruence.
    assert (Ek' : k' = k). { rewrite Enms3, nth_error_app1 in L1; [congruence|]. rewrite nms_length, <- ids_length; auto. }
    rewrite L4, Ek', <- Ex, T4, Ep. reflexivity. }
  assert (LV3 : forall j v k p, nth_error (ids tbl3) j = Some v -> nth_error lvl j = Some k -> f_flag orefs j = true ->
            vdesc_of [] h8 v = mkVD k true (f_pay orefs j p) true).
  { intros j v k p Hj Hk Hf. destruct (LVD _ _ Hj) as (k' & x6 & L1 & L2 & L3 & L4 & _).
    assert (k' = k) by congruence. subst k'. rewrite L4, Hf, (f_pay_indep orefs j Hf _ p). reflexivity. }
  (* names bound in the definition part keep their position *)
  assert (DP : forall k, In k (map fst defs0) -> index_last k lvl 0 = index_last k (map fst defs0) 0).
  { intros k Hk. unfold lvl. rewrite <- Nms2. apply (grows_index _ _ _ _ N3). rewrite Nms2; auto. }
  (* ---- frames of the last two steps *)
  assert (X67 : ext h6 h7).
  { apply ext_same_old; auto; [apply gett_same; auto|]. intros v x Hx. rewrite (G3 _ _ Hx). eexists. split; reflexivity. }
  assert (X78 : ext h7 h8).
  { unfold ext. rewrite K6, K7, K4. csplit; auto.
    - intros v x Hx. rewrite K8, Hx. cbn. eexists. split; reflexivity.
    - intros n y Hy. rewrite K9, Hy. cbn. eexists. split; [reflexivity|]. apply nfix_nnode.
    - apply gett_same; auto. }
  assert (X68 : ext h6 h8) by (eapply ext_trans; eauto).
  assert (X48 : ext h4 h8).
  { eapply ext_trans; [apply vstep_ext; exact D10|]. eapply ext_trans; [apply vstep_ext; exact N4|]. exact X68. }
  assert (Nms0 : nms tbl0 = map vi_name ins) by (rewrite <- Einn; apply TD_nms with (h := h2); auto).
  (* ---- the initializer records in the final heap *)
  assert (RC : forall r, In r recs -> exists v x6 c t j,
            lookup (ir_name r) tbl1 = Some v /\ lookup (ir_name r) tbl3 = Some v /\
            index_last (ir_name r) lvl 0 = Some j /\ nth_error (ids tbl3) j = Some v /\
            getv h6 v = Some x6 /\ v_const x6 = Some c /\ gett h8 c = Some t /\
            ir_t r = mkTD (t_tok t) (t_pay t) (t_bad_info t) (t_fill t) /\
            mem v invs = ir_input r /\ ir_input r = memN (ir_name r) (map vi_name ins)).
  { intros r Hr. destruct (Q4 r Hr) as (A0 & v & x4 & c & t & R1 & R2 & R3 & R4 & R5).
    assert (A : ir_input r = memN (ir_name r) (map vi_name ins)) by (rewrite <- Einn; exact A0).
    pose proof (grows_lookup _ _ _ _ _ D8 R1) as L2. pose proof (grows_lookup _ _ _ _ _ N3 L2) as L3.
    destruct (lookup_some_ilast _ _ _ L3) as (j & J1 & J2). fold lvl in J1.
    assert (Hx5 : getv h5 v = Some x4) by (rewrite D9; auto; eapply getv_lt; eauto).
    destruct N4 as (_ & V56 & _). destruct (V56 _ _ Hx5) as (x6 & Hx6 & Em).
    apply vmid_inv in Em. destruct Em as (M1 & M2 & M3 & M4 & M5 & M6 & M7).
    exists v, x6, c, t, j. csplit; auto; try congruence.
    - destruct X48 as (_ & _ & _ & _ & _ & _ & X). apply X; auto.
    - rewrite A. change (memb v invs = memN (ir_name r) (map vi_name ins)).
      destruct (memN (ir_name r) (map vi_name ins)) eqn:Em.
      + apply memN_In in Em. rewrite <- Nms0 in Em. apply lookup_some_nms in Em.
        destruct (lookup (ir_name r) tbl0) as [w|] eqn:E0; [|congruence].
        pose proof (grows_lookup _ _ _ _ _ Q9 E0) as E0'. assert (w = v) by congruence. subst w.
        apply memb_In. rewrite <- Hids0. eapply In_lookup_ids; eauto.
      + apply memN_notIn in Em. apply memb_notIn. intros Hin.
        destruct (grows_inv _ _ _ _ _ Q9 (lookup_In _ _ _ R1)) as [Hc|Hc].
        * apply Em. rewrite <- Nms0. apply In_nms. eauto.
        * rewrite <- Hids0 in Hin. destruct (TBL_ids_lt _ _ _ _ HT2 Hin). lia. }
  assert (KV : kv = map (fun r => (ir_name r, look tbl1 (ir_name r))) recs).
  { apply Forall2_eq_map. rewrite Q6, <- Q5, map_map in K1. apply Forall2_map_l in K1.
    eapply Forall2_imp_In; [|exact K1]. intros r [pk pv] Hr _ (A & x7 & Hx7 & Hn7). cbn [fst snd] in *.
    destruct (RC r Hr) as (v & x6 & c & t & j & R1 & R2 & R3 & R4 & R5 & _).
    assert (Elk : look tbl1 (ir_name r) = v) by (unfold look; rewrite R1; auto). rewrite Elk in *. subst pv.
    destruct (TBL_name _ _ _ _ _ N2 (lookup_In _ _ _ R2)) as (x6' & Hx6' & Hn6').
    destruct (getv_ext _ _ _ _ X67 Hx6') as (x7' & Hx7' & En). f_equal. congruence. }
  assert (DK : dict_of [] kv = kv).
  { apply dict_of_id. rewrite KV, map_map. cbn [fst]. rewrite (map_ext _ ir_name) by reflexivity. rewrite Q5. apply pnames_nodup. }
  assert (Edvs : dvs = map (fun r => look tbl1 (ir_name r)) recs).
  { unfold dvs. rewrite DK, KV, map_map. reflexivity. }
  assert (Hinv3 : forall v, In v invs -> In v (ids tbl3)).
  { intros v Hv. rewrite <- Hids0 in Hv. apply In_ids in Hv. destruct Hv as (k & Hk). apply In_ids. exists k.
    eapply grows_in; [exact N3|]. eapply grows_in; [exact D8|]. eapply grows_in; [exact Q9|]. exact Hk. }
  assert (Hdv3 : forall v, In v dvs -> In v (ids tbl3)).
  { intros v Hv. rewrite Edvs in Hv. apply in_map_iff in Hv. destruct Hv as (r & <- & Hr).
    destruct (RC r Hr) as (v & x6 & c & t & j & R1 & R2 & _). unfold look. rewrite R1. eapply In_lookup_ids; eauto. }
  assert (Hov3 : forall w, In w outvs -> In w (ids tbl3) \/ nv h6 <= w < nv h7).
  { intros w Hw. destruct (Forall2_inr _ _ _ _ G2 Hw) as (i & _ & Hi). destruct (lookup (vi_name i) tbl3) as [u|] eqn:El.
    - subst w. left. eapply In_lookup_ids; eauto.
    - right. lia. }
  assert (Hop : forall v p, ~ In v (ids tbl3) -> opay tbl3 v outs p = p).
  { intros v p Hv. unfold opay. apply fold_sel_none.
    clear - Hv. induction outs as [|i r IH]; simpl; auto. rewrite IH, orb_false_r. unfold osel.
    destruct (lookup (vi_name i) tbl3) eqn:E; auto. apply Nat.eqb_neq. intros ->. apply Hv. eapply In_lookup_ids; eauto. }
  assert (K68 : keepsP (fun v => range h5 h6 v /\ ~ In v (ids tbl3)) h6 h8).
  { split; auto. intros v x ((V1 & V2) & V3) Hx.
    exists x. split; [|reflexivity]. rewrite K8, (G3 _ _ Hx), Hop, with_info_id by auto. cbn [option_map]. f_equal. apply gval_untouched.
    rewrite !orb_false_iff. repeat split; apply memb_notIn; intros Hin.
    - apply V3. auto.
    - destruct (Hov3 _ Hin); [auto | lia].
    - apply V3; auto. }
  assert (NN05 : nn h <= nn h5) by (destruct B05 as ((_ & A & _) & _); auto).
  assert (Hb3 : forall v, In v (ids tbl3) -> b <= v < nv h6) by (intros v Hv; eapply TBL_ids_lt; eauto).
  assert (S08 : vstep h h8).
  { assert (B07 : bstep b h h7).
    { eapply bstep_trans; [exact B05|]. eapply bstep_trans; [apply vstep_bstep; exact N4|].
      split; [exact X67|]. split.
      - intros v x Hv Hx. rewrite (G3 _ _ Hx). eexists. split; [reflexivity|].
        rewrite Hop, with_info_id; auto. intros Hin. apply Hb3 in Hin. lia.
      - intros n y Hy. unfold getn in *. rewrite G4. auto. }
    destruct B07 as (X07 & V07 & Nd07). split; [eapply ext_trans; eauto|]. split.
    - intros v x Hx. pose proof (getv_lt _ _ _ Hx) as Hv. destruct (V07 _ _ Hv Hx) as (x7 & Hx7 & Em).
      exists x7. split; auto. rewrite K8, Hx7. cbn. f_equal. apply gval_untouched.
      rewrite !orb_false_iff. repeat split; apply memb_notIn; intros Hin.
      + apply Hinv3, Hb3 in Hin. unfold b in *; lia.
      + destruct (Hov3 _ Hin) as [Hi|Hi]; [apply Hb3 in Hi|]; unfold b in *; lia.
      + apply Hdv3, Hb3 in Hin. unfold b in *; lia.
    - intros n y Hy. rewrite K9, (Nd07 _ _ Hy). cbn. f_equal. unfold nnode.
      assert (Hm : memb n nids = false).
      { apply memb_notIn. intros Hin. apply N5 in Hin. apply getn_lt in Hy. lia. }
      rewrite Hm. auto. }
  (* ---- gdefs of the finished graph = the definition part of the level *)
  set (z := mkG gname gtok invs outvs (dict_of [] kv) nids) in *.
  assert (GD : gdefs h8 z = ids tbl2).
  { unfold gdefs. cbn [g_inputs g_inits g_nodes z].
    assert (P2 : filter (fun v => negb (mem v invs)) (map snd (dict_of [] kv)) = map (look tbl1) added).
    { fold dvs. rewrite Edvs, filter_map_comm.
      rewrite (filter_ext_in _ (fun r => negb (ir_input r))).
      2:{ intros r Hr. destruct (RC r Hr) as (v & x6 & c & t & j & R1 & _ & _ & _ & _ & _ & _ & _ & R9 & _).
          unfold look. rewrite R1, R9. auto. }
      rewrite <- Q7. unfold idefs. rewrite !map_map. reflexivity. }
    assert (P3 : flat_map (fun n => match getn h8 n with Some y => filter (named_ne h8) (n_outputs y) | None => [] end) nids
                 = map (look tbl2) (out_names nodes)).
    { rewrite (gdefs_nodes2 (fun v => range h5 h6 v /\ ~ In v (ids tbl3)) h6 h8 (map ids sc) (ngr h6) tbl3 X68) with (pns := pns) (cur := ids tbl2) (lvl := ids tbl3).
      - rewrite (pu_ns_outs _ _ _ _ _ _ N1). apply map_ext_in. intros k Hk. unfold look.
        assert (Hk2 : In k (nms tbl2)).
        { rewrite Nms2. unfold defs0, f_defs. rewrite !map_app. apply in_or_app. right. apply in_or_app. right. rewrite D4. auto. }
        apply lookup_some_nms in Hk2. destruct (lookup k tbl2) as [w|] eqn:E; [|congruence].
        rewrite (grows_lookup _ _ _ _ _ N3 E). auto.
      - intros k v Hl. eapply TBL_name; eauto. apply lookup_In; auto.
      - exact N6. }
    transitivity (invs ++ map (look tbl1) added ++ map (look tbl2) (out_names nodes));
      [f_equal; f_equal; [exact P2 | exact P3]|].
    assert (I1 : ids tbl1 = ids tbl0 ++ map (look tbl1) added). { unfold ids. rewrite Q8, map_app, map_map. reflexivity. }
    assert (I2 : ids tbl2 = ids tbl1 ++ map (look tbl2) (out_names nodes)). { unfold ids at 1. rewrite D5, map_app, map_map. reflexivity. }
    rewrite I2, I1, Hids0, <- app_assoc. reflexivity. }
  assert (I12 : exists rest, ids tbl2 = invs ++ rest).
  { destruct (grows_ids _ _ _ Q9) as (e1 & Ee1 & _). destruct (grows_ids _ _ _ D8) as (e2 & Ee2 & _).
    exists (e1 ++ e2). rewrite Ee2, Ee1, Hids0, <- app_assoc. reflexivity. }
  destruct I12 as (rest2 & I12).
  (* ---- names of the definition part: position, creation payload, final description *)
  assert (DJ : forall k j, In k (map fst defs0) -> index_last k lvl 0 = Some j ->
            exists p0, nth_error defs0 j = Some (k, p0) /\ index_last k (map fst defs0) 0 = Some j).
  { intros k j Hk Hj. rewrite (DP k Hk) in Hj. pose proof (index_last_nth _ _ _ _ Hj) as Hn. rewrite Nat.sub_0_r in Hn.
    apply nth_error_map_inv in Hn. destruct Hn as ([k' p0] & Hn & Ek). cbn in Ek. subst k'. eauto. }
  assert (FV : forall k j p0, index_last k (map fst defs0) 0 = Some j -> nth_error defs0 j = Some (k, p0) ->
            f_vd defs0 orefs k = mkVD k true (f_pay orefs j p0) (f_flag orefs j)).
  { intros k j p0 Hi Hn. unfold f_vd. rewrite Hi, Hn. reflexivity. }
  assert (Nms1 : nms tbl1 = map vi_name ins ++ added).
  { unfold nms. rewrite Q8, map_app, map_map. cbn [fst]. rewrite map_id. fold (nms tbl0). rewrite Nms0. reflexivity. }
  assert (Edn : map fst defs0 = map vi_name ins ++ added ++ out_names nodes).
  { unfold defs0, f_defs. rewrite !map_app, map_map, <- Q7, D4. reflexivity. }
  (* ---- initializer descriptions *)
  assert (ID : forall r, In r recs ->
            idesc_of [] h8 z (ir_name r, look tbl1 (ir_name r)) =
            mkID (ir_name r) true (Some (ir_t r)) (ir_input r)
                 (if ir_input r
                  then match index_last (ir_name r) (map vi_name ins) 0 with
                       | Some j => f_pay orefs j (match nth_error ins j with Some i => vi_pay i | None => 0%N end)
                       | None => 0%N
                       end
                  else vd_pay (f_vd defs0 orefs (ir_name r)))).
  { intros r Hr. destruct (RC r Hr) as (v & x6 & c & t & j & R1 & R2 & R3 & R4 & R5 & R6 & R7 & R8 & R9 & R10).
    assert (Elk : look tbl1 (ir_name r) = v) by (unfold look; rewrite R1; auto). rewrite Elk.
    set (k := ir_name r) in *.
    assert (Hk1 : In k (nms tbl1)) by (apply lookup_some_nms; congruence).
    assert (Hk0 : In k (map fst defs0)).
    { rewrite Edn, app_assoc. apply in_or_app. left. rewrite Nms1 in Hk1. exact Hk1. }
    destruct (DJ k j Hk0 R3) as (p0 & Hp0 & Hi0).
    destruct (LVD _ _ R4) as (k' & x6' & L1 & L2 & L3 & L4 & x8 & Hx8 & Hn8 & Hc8).
    assert (x6' = x6) by congruence. subst x6'.
    pose proof (LV2 _ _ _ _ R4 Hp0) as Hd. rewrite (vdesc_val _ _ _ Hx8) in Hd. injection Hd as _ _ Hinfo _.
    unfold idesc_of. cbn [snd]. rewrite Hx8, Hn8, Hc8, R6, R7, tpay_nil, Hinfo. cbn [g_inputs z]. rewrite R9, R8.
    assert (k' = k).
    { pose proof (index_last_nth _ _ _ _ R3) as Hn. rewrite Nat.sub_0_r in Hn. congruence. }
    subst k'. f_equal.
    destruct (ir_input r) eqn:Ei.
    - symmetry in R10. apply memN_In in R10.
      assert (Hi1 : index_last k (map fst defs0) 0 = index_last k (map vi_name ins) 0).
      { rewrite Edn. apply index_last_app_notin. intros Hc. apply in_app_or in Hc. destruct Hc as [Hc|Hc].
        - destruct (grows_nms _ _ _ Q9) as (e1 & Ee1 & He1). rewrite Nms1, Nms0 in Ee1. apply app_inv_head in Ee1. subst e1.
          apply (He1 _ Hc). rewrite Nms0. auto.
        - apply (D7 _ Hc). rewrite Nms1. apply in_or_app; auto. }
      rewrite <- Hi1, Hi0.
      assert (Hjl : j < length ins).
      { rewrite Hi1 in Hi0. apply index_last_lt in Hi0. rewrite map_length in Hi0. lia. }
      destruct (nth_error ins j) as [i|] eqn:Eij; [|apply nth_error_None in Eij; lia].
      unfold defs0, f_defs in Hp0. rewrite nth_error_app1 in Hp0 by (rewrite map_length; auto).
      rewrite nth_error_map, Eij in Hp0. cbn in Hp0. inversion Hp0; subst. reflexivity.
    - rewrite (FV k j p0 Hi0 Hp0). reflexivity. }
  (* ---- conclusion *)
  assert (NG07 : ngr h <= ngr h7).
  { destruct B05 as ((_ & _ & A & _) & _). unfold ngr in *. rewrite G5. lia. }
  split; [|split; [exact S08 | subst gid; rewrite K4; lia]].
  unfold fin_tree. fold defs0. fold orefs. cbn [real2_g]. exists z, (ids tbl3). rewrite GD.
  cbn [g_name g_tok g_inputs g_inits g_outputs g_nodes z].
  split; [exact K2|]. split; [reflexivity|]. split; [reflexivity|].
  split.
  { apply map_combine_seq with (s := 0).
    - rewrite B2, seq_length; auto.
    - intros j v i Hv Hi. cbn [Nat.add]. apply LV2.
      + rewrite Eids3, I12. apply nth_error_app_l. apply nth_error_app_l. exact Hv.
      + unfold defs0, f_defs. apply nth_error_app_l. rewrite nth_error_map, Hi. reflexivity. }
  split.
  { rewrite DK, KV, map_map. apply map_ext_in. intros r Hr. apply ID; auto. }
  split.
  { apply Forall2_map_same. unfold orefs at 1. unfold f_orefs. apply Forall2_mapr. apply Forall2_flp.
    eapply Forall2_imp_In; [|exact G2]. intros i w Hi Hw Hiw. cbv beta in Hiw |- *.
    destruct (lookup (vi_name i) tbl3) as [u|] eqn:El.
    - subst w. destruct (lookup_some_ilast _ _ _ El) as (j & J1 & J2). fold lvl in J1.
      rewrite resolve2_one, J1.
      assert (Hfr : find_ref u [ids tbl3] 0 = Some (0, j)).
      { simpl. rewrite (index_nat_nth u _ Hnd3 j 0 J2). reflexivity. }
      rewrite Hfr. f_equal. apply LV3; auto.
      + pose proof (index_last_nth _ _ _ _ J1) as Hn. rewrite Nat.sub_0_r in Hn. exact Hn.
      + unfold f_flag, orefs, f_orefs. rewrite existsb_map. apply existsb_exists. exists i. split; auto.
        cbn [fst snd]. rewrite resolve2_one, J1. apply Nat.eqb_refl.
    - destruct Hiw as ((W1 & W2) & W3).
      assert (Ern : resolve2 (vi_name i) [lvl] 0 = None).
      { rewrite resolve2_one. apply lookup_none_ilast in El. fold lvl in El. rewrite El. reflexivity. }
      rewrite Ern.
      assert (Hfr : find_ref w [ids tbl3] 0 = None).
      { apply find_ref_None. intros l [<-|[]] Hin. apply Hb3 in Hin. lia. }
      rewrite Hfr. f_equal.
      rewrite (vdesc_val h8 w (gval gid invs outvs dvs w (fresh_value (Some (vi_name i)) None (vi_pay i)))).
      2:{ rewrite K8, W3. subst gid. reflexivity. }
      cbn. assert (Hm : memb w outvs = true) by (apply memb_In; auto). rewrite Hm. reflexivity. }
  split.
  { intros v Hv. apply Hinv3, Hb3 in Hv. unfold range, b in *. lia. }
  split.
  { intros kv0 Hin. rewrite DK, KV in Hin. apply in_map_iff in Hin. destruct Hin as (r & <- & Hr). cbn [snd]. split.
    - assert (Hd : In (look tbl1 (ir_name r)) dvs) by (rewrite Edvs; apply in_map_iff; eauto).
      apply Hdv3, Hb3 in Hd. unfold range, b in *. lia.
    - rewrite (ID r Hr). cbn. discriminate. }
  split.
  { intros v Hv. destruct (Hov3 _ Hv) as [Hi|Hi]; [apply Hb3 in Hi|]; unfold range, b in *; lia. }
  eapply pre_real2_ns with (P := fun v => range h5 h6 v /\ ~ In v (ids tbl3)) (h := h6) (gb := ngr h6) (tbl := tbl3).
  - exact K68.
  - intros v ((V1 & V2) & _). unfold range in *. lia.
  - subst gid. unfold ngr. rewrite G5. lia.
  - exact N6.
  - intros k v Hk Hl. rewrite (pu_ns_outs _ _ _ _ _ _ N1) in Hk.
    destruct (lookup_some_ilast _ _ _ Hl) as (j & J1 & J2). fold lvl in J1.
    assert (Hk0 : In k (map fst defs0)).
    { rewrite Edn. apply in_or_app. right. apply in_or_app. auto. }
    destruct (DJ k j Hk0 J1) as (p0 & Hp0 & Hi0).
    destruct (LVD _ _ J2) as (k' & x6 & L1 & L2 & L3 & L4 & x8 & Hx8 & Hn8 & _).
    assert (k' = k).
    { pose proof (index_last_nth _ _ _ _ J1) as Hn. rewrite Nat.sub_0_r in Hn. congruence. }
    subst k'. csplit.
    + unfold range, b in *. lia.
    + lia.
    + rewrite (FV k j p0 Hi0 Hp0). apply LV2; auto.
    + eauto.
Qed.

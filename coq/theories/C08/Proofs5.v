(* C08/Proofs5.v — the property-level statements derived from save_spec. *)
From Coq Require Import List Bool Arith Lia NArith.
From IRV Require Import Base.Exn C08.Model C08.Proofs1 C08.Proofs2 C08.Proofs3 C08.Proofs4.
Import ListNotations.

(* contract of tempfile.mkdtemp + shape of the destination, for one data file *)
Definition single_wf (fs0 : fsT) (sc : scn) : Prop :=
  (forall p, is_prefix (sc_tmpd sc) p = true -> lookup fs0 p = None)
  /\ is_prefix (sc_tmpd sc) (dest_of fs0 (sc_req sc)) = false
  /\ lookup fs0 (dest_of fs0 (sc_req sc)) <> Some Dir.

(* the destination was replaced by a completely written temporary file: every action between the
   creation of the temporary file and os.replace (all tensor writes, close, release, copymode) returned
   normally, and [d] is what the temporary file held at that moment *)
Definition replaced_by_complete (c : ctl) (fs0 : fsT) (tens : list tstate) (sc : scn) (d : list byte) (m : N) : Prop :=
  exists s1, InvA fs0 tens sc s1 /\ PreRepl fs0 tens sc c s1 d m.

Lemma InvA_lookup fs0 tens sc s :
  InvA fs0 tens sc s -> forall p, T (sc_tmpd sc) p = false -> lookup (s_fs s) p = lookup fs0 p.
Proof. intros [[[H _] _] _]. exact H. Qed.
Lemma InvB_lookup fs0 tens sc d m s :
  InvB fs0 tens sc d m s -> forall p, T (sc_tmpd sc) p = false ->
  lookup (s_fs s) p = lookup (insert fs0 (dest_of fs0 (sc_req sc)) (File d m)) p.
Proof. intros [[[H _] _] _]. exact H. Qed.

Lemma Forall2_nth_r {A B} (R : A -> B -> Prop) l l0 h y :
  Forall2 R l l0 -> nth_error l0 h = Some y -> exists x, nth_error l h = Some x /\ R x y.
Proof.
  intros H. revert h. induction H as [|x y0 l l0 Hxy H IH]; intros h Hh.
  - destruct h; discriminate.
  - destruct h as [|h]; simpl in *; [inversion Hh; subst; eauto | apply IH; exact Hh].
Qed.

Lemma read_tensor_ext fs fs' t : (forall p, lookup fs p = lookup fs' p) -> read_tensor fs t = read_tensor fs' t.
Proof.
  intros H. unfold read_tensor, file_at, resolve. rewrite (H (t_path t)).
  destruct (lookup fs' (t_path t)) as [[| |tg]|]; rewrite ?H; reflexivity.
Qed.

Section Thms.
  Variable fs0 : fsT.
  Variable tens : list tstate.
  Variable small : list nat.
  Variable sc : scn.
  Hypothesis Hwf : single_wf fs0 sc.
  Let dest := dest_of fs0 (sc_req sc).
  Let tmpf := tmpf_of sc dest.

  Lemma spec c :
    let r := run c fs0 tens small sc in
    FinalA fs0 tens sc c (fst r) (snd r) \/ FinalB fs0 tens sc c (fst r) (snd r).
  Proof. destruct Hwf as (H1 & H2 & H3). apply save_spec; assumption. Qed.

  (* any kill point, any single injected fault: old bytes or the bytes of the completely written temp file *)
  Theorem interrupt_atomic c :
    let s := fst (run c fs0 tens small sc) in
    lookup (s_fs s) dest = lookup fs0 dest
    \/ exists d m, lookup (s_fs s) dest = Some (File d m)
                   /\ In (OReplace tmpf dest) (s_trace s)
                   /\ replaced_by_complete c fs0 tens sc d m.
  Proof.
    destruct Hwf as (H1 & H2 & H3). cbv zeta. subst tmpf dest.
    destruct (spec c) as [(HA & _)|(d & m & s1 & HB & HA1 & HP & _)].
    - left. apply (InvA_lookup _ _ _ _ HA). exact H2.
    - right. exists d, m. split; [|split; [exact (proj1 (proj2 HB)) | exists s1; split; [exact HA1|exact HP]]].
      rewrite (InvB_lookup _ _ _ _ _ _ HB _ H2). apply lookup_insert_eq.
  Qed.

  (* nothing else that existed before is touched either (bystanders, hard links, sources) *)
  Theorem bystanders_untouched c p :
    p <> dest -> lookup fs0 p <> None ->
    lookup (s_fs (fst (run c fs0 tens small sc))) p = lookup fs0 p.
  Proof.
    intros Hp Hex. destruct Hwf as (H1 & H2 & H3). subst tmpf dest.
    assert (HT : T (sc_tmpd sc) p = false).
    { destruct (T (sc_tmpd sc) p) eqn:E; [|reflexivity]. exfalso. apply Hex. apply H1. exact E. }
    destruct (spec c) as [(HA & _)|(d & m & s1 & HB & _)].
    - apply (InvA_lookup _ _ _ _ HA). exact HT.
    - rewrite (InvB_lookup _ _ _ _ _ _ HB _ HT). apply lookup_insert_ne. intros E. apply Hp. symmetry. exact E.
  Qed.

  (* an exception (no kill), the injected fault - if any - not inside the cleanup handlers:
     the whole directory is exactly as before and no validity flag changed *)
  Theorem exception_clean c e :
    crash_at c = None ->
    snd (run c fs0 tens small sc) = SRaise e ->
    ~ In (OFail true) (s_trace (fst (run c fs0 tens small sc))) ->
    (forall p, lookup (s_fs (fst (run c fs0 tens small sc))) p = lookup fs0 p)
    /\ map t_valid (s_tens (fst (run c fs0 tens small sc))) = map t_valid tens
    /\ Forall2 trel (s_tens (fst (run c fs0 tens small sc))) tens.
  Proof.
    intros Hc Hr Hnf. destruct Hwf as (H1 & H2 & H3).
    destruct (spec c) as [(HA & _ & Hcl)|(d & m & s1 & _ & _ & _ & Hcl)].
    - pose proof (InvA_lookup _ _ _ _ HA) as HF. destruct HA as [_ HV].
      split; [|exact HV]. intros p. destruct (Hcl Hc) as [HN|X]; [|contradiction].
      destruct (T (sc_tmpd sc) p) eqn:E.
      + rewrite (HN p E). symmetry. apply H1. exact E.
      + apply HF. exact E.
    - exfalso. destruct (Hcl Hc) as [X|X]; [rewrite X in Hr; discriminate | contradiction].
  Qed.

  (* ... and every external tensor is still valid-as-before and reads the bytes it read before *)
  Theorem exception_tensors_read_old c e :
    crash_at c = None ->
    snd (run c fs0 tens small sc) = SRaise e ->
    ~ In (OFail true) (s_trace (fst (run c fs0 tens small sc))) ->
    (forall h t d, nth_error tens h = Some t -> t_map t = Some d -> exists m, file_at fs0 (t_path t) = Some (d, m)) ->
    forall h t, nth_error tens h = Some t ->
    exists t', nth_error (s_tens (fst (run c fs0 tens small sc))) h = Some t'
      /\ t_valid t' = t_valid t
      /\ read_tensor (s_fs (fst (run c fs0 tens small sc))) t' = read_tensor fs0 t.
  Proof.
    intros Hc Hr Hnf Hcoh h t Ht.
    destruct (exception_clean c e Hc Hr Hnf) as (Hfs & _ & HT).
    destruct (Forall2_nth_r _ _ _ _ _ HT Ht) as (t' & Ht' & Hrel).
    exists t'. split; [exact Ht'|]. split; [exact (proj1 (proj2 (proj2 (proj2 Hrel))))|].
    rewrite (read_tensor_ext _ fs0 t' Hfs). apply read_trel; [exact Hrel|].
    intros d Hd. eapply Hcoh; eauto.
  Qed.

  (* invalidated only if replaced *)
  Theorem invalidate_only_if_replaced c h :
    let s := fst (run c fs0 tens small sc) in
    nth_error (map t_valid (s_tens s)) h = Some false ->
    nth_error (map t_valid tens) h = Some false
    \/ (In h (overwritten fs0 tens sc) /\ realpath_is_dest fs0 tens sc h = true
        /\ In (OReplace tmpf dest) (s_trace s)
        /\ exists d m, lookup (s_fs s) dest = Some (File d m)).
  Proof.
    cbv zeta. intros Hv. destruct Hwf as (H1 & H2 & H3). subst tmpf dest.
    destruct (spec c) as [([_ [HV _]] & _)|(d & m & s1 & HB & _)].
    2: pose proof (InvB_lookup _ _ _ _ _ _ HB) as HF; destruct HB as (_ & Hin & HW).
    - left. unfold valids in HV. rewrite <- HV. exact Hv.
    - destruct (HW h) as [E|[E Ho]].
      + left. unfold valids in E. rewrite <- E. exact Hv.
      + right. unfold invalidated in Ho. apply filter_In in Ho. destruct Ho as [Ho1 Ho2].
        split; [exact Ho1|split; [exact Ho2|split; [exact Hin|]]]. exists d, m. rewrite (HF _ H2). apply lookup_insert_eq.
  Qed.
End Thms.

(* ---- a run killed before effect k has performed at most k effects *)
Lemma uncounted_trace a s : counted a = false -> s_trace (fst (sem a s)) = s_trace s.
Proof.
  destruct a; simpl; try discriminate; intros _; try reflexivity.
  - destruct (nth_error (s_tens s) t); [|reflexivity]. destruct (negb (t_valid t0)); [reflexivity|].
    destruct (file_at (s_fs s) (t_path t0)); reflexivity.
  - destruct (nth_error (s_tens s) t); [|reflexivity].
    destruct (file_at (s_fs s) (t_path t0)) as [[? ?]|]; [|reflexivity].
    destruct (slice l (t_off t0 + rel) n); reflexivity.
  - destruct (nth_error (s_tens s) t); [|reflexivity].
    destruct (file_at (s_fs s) (t_path t0)) as [[? ?]|]; [|reflexivity].
    destruct (t_off t0 + t_len t0 <=? length l); reflexivity.
  - destruct (nth_error (s_tens s) t); [|reflexivity]. destruct (read_tensor (s_fs s) t0); reflexivity.
Qed.

Lemma perform_len k f a s :
  length (s_trace s) <= k ->
  length (s_trace (fst (perform {| crash_at := Some k; fault_at := f |} a s))) <= k.
Proof.
  intros H. unfold perform. simpl. destruct (counted a) eqn:Ec.
  - destruct (Nat.eqb k (length (s_trace s))) eqn:E; [exact H|].
    apply Nat.eqb_neq in E.
    destruct (at_idx f (length (s_trace s)) && faultable a); simpl; [lia|].
    rewrite fst_commit. destruct (sem_trace a s) as [X|(o & X & _)]; rewrite X; simpl; lia.
  - rewrite fst_commit, uncounted_trace; [exact H|exact Ec].
Qed.

Lemma exec_acts_len k f l : forall s,
  length (s_trace s) <= k ->
  length (s_trace (fst (exec_acts {| crash_at := Some k; fault_at := f |} l s))) <= k.
Proof.
  induction l as [|a r IH]; intros s H; simpl; [exact H|].
  pose proof (perform_len k f a s H) as Hp.
  destruct (perform _ a s) as [s' [ |e| ]]; simpl in *; auto.
Qed.

Lemma exec_len k f p : forall s,
  length (s_trace s) <= k ->
  length (s_trace (fst (exec {| crash_at := Some k; fault_at := f |} p s))) <= k.
Proof.
  induction p as [l|a IHa b IHb|a IHa b IHb]; intros s H; simpl.
  - apply exec_acts_len; exact H.
  - pose proof (IHa s H) as Ha. destruct (exec _ a s) as [s1 [ |e| ]]; simpl in *; auto.
  - pose proof (IHa s H) as Ha. destruct (exec _ a s) as [s1 [ |e| ]]; simpl in *; auto.
    pose proof (IHb s1 Ha) as Hb. destruct (exec _ b s1) as [s2 [ |e'| ]]; simpl in *; auto.
Qed.

Lemma prefix_len k fs0 tens small sc :
  length (s_trace (fst (run_prefix k fs0 tens small sc))) <= k.
Proof. unfold run_prefix, run. apply exec_len. simpl. lia. Qed.

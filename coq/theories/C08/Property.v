(* C08/Property.v — ONLY the property theorems (each closed by a lemma of Proofs*.v) + Print Assumptions.

   Vocabulary (C08/Model.v): [run c fs0 tens small sc] executes the model of
   ir.save(..., external_data=...) -> unload_from_model -> _write_external_data on the file system fs0
   with external-tensor table tens; c = {| crash_at; fault_at |}: the process dies just before effect
   number crash_at; effect number fault_at raises OSError instead of being performed (SINGLE FAULT: a
   ctl holds at most one fault index), after which the Python finally/with handlers run.
   Tensors and callbacks may raise by themselves between effects (TLazyRaise, TMulti .. (Some j),
   short/missing sources of TExt, sc_cb = Some (Some j)).
   [single_wf] = contract of tempfile.mkdtemp (fresh name, nothing at or below it) + the destination
   is not a directory.  [dest_of fs0 req] = realpath(req) if req is a symbolic link, else req. *)
From Coq Require Import List Bool Arith Lia NArith.
From IRV Require Import Base.Exn C08.Model C08.Proofs1 C08.Proofs2 C08.Proofs3 C08.Proofs4 C08.Proofs5 C08.Proofs6 C08.Proofs7 C08.Proofs8.
From IRV Require Import C08.Skel Gen.C08Gen C08.GenEquiv C08.Cfr.
Import ListNotations.

(* Crash atomicity, full strength: for every input and every prefix length k at most k effects happened and
   the destination holds its previous node, or a file whose bytes are exactly [image fs0 tens (sc_tensors sc)]
   (every tensor's bytes at its offset, holes = zeros) - the latter only if os.replace is among the first k
   effects.  [src_wf]: the source files of the ExternalTensor inputs are not inside the temporary directory
   (part of mkdtemp's contract: its name is unpredictable). *)
Theorem C08_crash_atomic :
  forall fs0 tens small sc k, sc_par sc = None -> single_wf fs0 sc -> src_wf fs0 tens sc ->
  let dest := dest_of fs0 (sc_req sc) in
  let s := fst (run_prefix k fs0 tens small sc) in
  length (s_trace s) <= k /\
  (lookup (s_fs s) dest = lookup fs0 dest
   \/ exists m, lookup (s_fs s) dest = Some (File (image fs0 tens (sc_tensors sc)) m)
        /\ In (OReplace (tmpf_of sc dest) dest) (s_trace s)).
Proof. exact crash_atomic_image. Qed.
Print Assumptions C08_crash_atomic.

(* the same under any combination of a kill point and a single injected fault, and whatever kind of
   exception (Exception or BaseException-only, see is_base_exception) a tensor or callback raises *)
Theorem C08_interrupt_atomic :
  forall fs0 tens small sc c, sc_par sc = None -> single_wf fs0 sc -> src_wf fs0 tens sc ->
  let dest := dest_of fs0 (sc_req sc) in
  let s := fst (run c fs0 tens small sc) in
  lookup (s_fs s) dest = lookup fs0 dest
  \/ exists m, lookup (s_fs s) dest = Some (File (image fs0 tens (sc_tensors sc)) m)
       /\ In (OReplace (tmpf_of sc dest) dest) (s_trace s).
Proof. exact interrupt_atomic_image. Qed.
Print Assumptions C08_interrupt_atomic.

(* the functional core: the completely written temporary file holds exactly [image], for every tensor kind
   (in-memory, lazy, third-party multi-chunk, ExternalTensor copied in chunks of any size) *)
Theorem C08_new_is_image :
  forall fs0 tens sc c d m, sc_par sc = None -> src_wf fs0 tens sc ->
  replaced_by_complete c fs0 tens sc d m -> d = image fs0 tens (sc_tensors sc).
Proof. intros fs0 tens sc c d m Hp Hs (s1 & HA & HP). exact (prerepl_image fs0 tens sc c s1 d m Hp Hs HA HP). Qed.
Print Assumptions C08_new_is_image.

(* The PARALLEL writer (_write_parallel: sc_par = Some total; preallocation of the temporary file to [total]
   bytes, a worker's r+b handle, writes at offsets, close; under the maximally serialised schedule): the same
   crash/fault atomicity.  The complete new bytes are every tensor's bytes at its offset over [total] zero
   bytes.  Faults at open(wb)/truncate/close of the preallocation, at open(r+b), at every write and at the
   close of the worker handle are all covered (ctl), as is every kill point. *)
Theorem C08_crash_atomic_parallel :
  forall fs0 tens small sc k total, sc_par sc = Some total -> single_wf fs0 sc -> src_wf fs0 tens sc ->
  let dest := dest_of fs0 (sc_req sc) in
  let s := fst (run_prefix k fs0 tens small sc) in
  length (s_trace s) <= k /\
  (lookup (s_fs s) dest = lookup fs0 dest
   \/ exists m, lookup (s_fs s) dest = Some (File (image_from fs0 tens (repeat 0%N total) (sc_tensors sc)) m)
        /\ In (OReplace (tmpf_of sc dest) dest) (s_trace s)).
Proof. exact crash_atomic_image_par. Qed.
Print Assumptions C08_crash_atomic_parallel.

Theorem C08_interrupt_atomic_parallel :
  forall fs0 tens small sc c total, sc_par sc = Some total -> single_wf fs0 sc -> src_wf fs0 tens sc ->
  let dest := dest_of fs0 (sc_req sc) in
  let s := fst (run c fs0 tens small sc) in
  lookup (s_fs s) dest = lookup fs0 dest
  \/ exists m, lookup (s_fs s) dest = Some (File (image_from fs0 tens (repeat 0%N total) (sc_tensors sc)) m)
       /\ In (OReplace (tmpf_of sc dest) dest) (s_trace s).
Proof. exact interrupt_atomic_image_par. Qed.
Print Assumptions C08_interrupt_atomic_parallel.

(* The parallel writer's bytes ARE the serial image: writing into the zero-preallocated file is writing into the
   unpadded file and padding afterwards, as long as every range lies within the preallocated size; when that size is
   the end of the last range (what _write_parallel computes) the two images coincide. *)
Theorem C08_parallel_bytes_are_serial_bytes :
  forall fs0 tens total l,
  Forall (within fs0 tens total) l -> total <= length (image fs0 tens l) ->
  image_from fs0 tens (repeat 0%N total) l = image fs0 tens l.
Proof. exact parallel_image_eq. Qed.
Print Assumptions C08_parallel_bytes_are_serial_bytes.

Theorem C08_interrupt_atomic_parallel_serial_image :
  forall fs0 tens small sc c total, sc_par sc = Some total -> single_wf fs0 sc -> src_wf fs0 tens sc ->
  Forall (within fs0 tens total) (sc_tensors sc) -> total <= length (image fs0 tens (sc_tensors sc)) ->
  let dest := dest_of fs0 (sc_req sc) in
  let s := fst (run c fs0 tens small sc) in
  lookup (s_fs s) dest = lookup fs0 dest
  \/ exists m, lookup (s_fs s) dest = Some (File (image fs0 tens (sc_tensors sc)) m)
       /\ In (OReplace (tmpf_of sc dest) dest) (s_trace s).
Proof. exact interrupt_atomic_parallel_serial_image. Qed.
Print Assumptions C08_interrupt_atomic_parallel_serial_image.

(* without src_wf, either writer: the destination node is untouched or was moved wholesale from the temporary path after
   every action between its creation and os.replace returned normally (never a mixture or truncation) *)
Theorem C08_interrupt_structural :
  forall fs0 tens small sc c, single_wf fs0 sc ->
  let dest := dest_of fs0 (sc_req sc) in
  let s := fst (run c fs0 tens small sc) in
  lookup (s_fs s) dest = lookup fs0 dest
  \/ exists d m, lookup (s_fs s) dest = Some (File d m)
       /\ In (OReplace (tmpf_of sc dest) dest) (s_trace s)
       /\ replaced_by_complete c fs0 tens sc d m.
Proof. intros fs0 tens small sc c Hwf. exact (interrupt_atomic fs0 tens small sc Hwf c). Qed.
Print Assumptions C08_interrupt_structural.

(* Exception (no kill).  SINGLE-FAULT ASSUMPTION, in the statement: the injected OSError - if there is
   one - did not hit os.remove/os.rmdir of the cleanup itself ([OFail true] is logged exactly then).
   The exception kind e is arbitrary: RuntimeError/OSError/... as well as the BaseException-only kinds
   (KeyboardInterrupt, SystemExit = OtherError, is_base_exception) - the handlers are `finally`, not
   `except Exception`.
   Then the whole directory is exactly as before (destination = old node, no temporary file or
   directory, nothing else changed) and every ExternalTensor keeps its validity flag. *)
Theorem C08_exception_clean :
  forall fs0 tens small sc c e, single_wf fs0 sc ->
  crash_at c = None ->
  snd (run c fs0 tens small sc) = SRaise e ->
  ~ In (OFail true) (s_trace (fst (run c fs0 tens small sc))) ->
  (forall p, lookup (s_fs (fst (run c fs0 tens small sc))) p = lookup fs0 p)
  /\ map t_valid (s_tens (fst (run c fs0 tens small sc))) = map t_valid tens.
Proof.
  intros fs0 tens small sc c e Hwf Hc Hr Hn.
  destruct (exception_clean fs0 tens small sc Hwf c e Hc Hr Hn) as (H1 & H2 & _). split; assumption.
Qed.
Print Assumptions C08_exception_clean.

(* RECORD of a repaired finding (fixed: property=C08 66e131a, key samefile-valueerror-leaks-tempdir).
   Before the fix the list of overwritten tensors was computed after mkdtemp and outside the try;
   os.path.samefile raises ValueError on a location with an embedded NUL, the save raised and the fresh
   temporary directory stayed (the model of that code had `C08_samefile_valueerror_refuted`, and
   C08_exception_clean needed the hypothesis nul_free).  The code now probes before mkdtemp, the model
   follows (plan_pre), the hypothesis is gone, and the old witness leaves the directory untouched: *)
Definition nul_fs : fsT := [([1%N], File [1%N; 2%N; 3%N] 420%N)].
Definition nul_tens : list tstate :=
  [{| t_path := [0%N]; t_off := 0; t_len := 2; t_valid := true; t_map := None |}].
Definition nul_sc : scn :=
  {| sc_req := [1%N]; sc_tmpd := [7%N]; sc_tensors := [(0, TExt 0)]; sc_chunk := 4; sc_cb := None; sc_cbbase := 0;
     sc_aliases := []; sc_held := []; sc_par := None |}.
Theorem C08_samefile_valueerror_before_fix :
  snd (run no_ctl nul_fs nul_tens [] nul_sc) = SRaise ValueError
  /\ s_fs (fst (run no_ctl nul_fs nul_tens [] nul_sc)) = nul_fs.
Proof. vm_compute. split; reflexivity. Qed.
Print Assumptions C08_samefile_valueerror_before_fix.

(* ... and every external tensor (in particular those backed by the destination) is as valid as before
   and tobytes() returns what it returned before.  Coherence hypothesis: a tensor that was memory-mapped
   before the save had mapped the file's then-current content. *)
Theorem C08_exception_tensors_read_old :
  forall fs0 tens small sc c e, single_wf fs0 sc ->
  crash_at c = None ->
  snd (run c fs0 tens small sc) = SRaise e ->
  ~ In (OFail true) (s_trace (fst (run c fs0 tens small sc))) ->
  (forall h t d, nth_error tens h = Some t -> t_map t = Some d -> exists m, file_at fs0 (t_path t) = Some (d, m)) ->
  forall h t, nth_error tens h = Some t ->
  exists t', nth_error (s_tens (fst (run c fs0 tens small sc))) h = Some t'
    /\ t_valid t' = t_valid t
    /\ read_tensor (s_fs (fst (run c fs0 tens small sc))) t' = read_tensor fs0 t.
Proof. intros fs0 tens small sc c e Hwf. exact (exception_tensors_read_old fs0 tens small sc Hwf c e). Qed.
Print Assumptions C08_exception_tensors_read_old.

(* A sharded save changes no pre-existing path, whatever the interruption (pre-flight refusal when a
   shard file exists; otherwise only fresh names are written). *)
Theorem C08_sharded_never_overwrites :
  forall fs0 tens small shards c, Forall (shard_wf fs0) shards ->
  forall p, lookup fs0 p <> None ->
  lookup (s_fs (fst (run_sharded c fs0 tens small shards))) p = lookup fs0 p.
Proof. intros fs0 tens small shards c H. exact (sharded_never_overwrites c fs0 tens small shards H). Qed.
Print Assumptions C08_sharded_never_overwrites.

(* A tensor is invalid afterwards only if it was invalid before, or it passed samefile with the destination
   AND os.path.realpath(tensor.path) = os.path.realpath(destination) (its own path is the replaced one - a
   tensor reading through ANOTHER hard link of the old inode, sc_aliases, is released but stays valid;
   fixed: property=C08 8df84db) and the destination was actually replaced. *)
Theorem C08_invalidate_only_if_replaced :
  forall fs0 tens small sc c h, single_wf fs0 sc ->
  let dest := dest_of fs0 (sc_req sc) in
  let s := fst (run c fs0 tens small sc) in
  nth_error (map t_valid (s_tens s)) h = Some false ->
  nth_error (map t_valid tens) h = Some false
  \/ (In h (overwritten fs0 tens sc) /\ realpath_is_dest fs0 tens sc h = true
      /\ In (OReplace (tmpf_of sc dest) dest) (s_trace s)
      /\ exists d m, lookup (s_fs s) dest = Some (File d m)).
Proof. intros fs0 tens small sc c h Hwf. exact (invalidate_only_if_replaced fs0 tens small sc Hwf c h). Qed.
Print Assumptions C08_invalidate_only_if_replaced.

(* Nothing else that existed is ever touched by a single-file save (bystanders, sources, hard links). *)
Theorem C08_bystanders_untouched :
  forall fs0 tens small sc c p, single_wf fs0 sc ->
  p <> dest_of fs0 (sc_req sc) -> lookup fs0 p <> None ->
  lookup (s_fs (fst (run c fs0 tens small sc))) p = lookup fs0 p.
Proof. intros fs0 tens small sc c p Hwf. exact (bystanders_untouched fs0 tens small sc Hwf c p). Qed.
Print Assumptions C08_bystanders_untouched.

(* The plan of the single-file save that all theorems above are about IS the meaning (C08/Skel.v: sequential
   statements, try/finally = PTry, `with suppress(FileNotFoundError)`, the two loops over the overwritten tensors)
   of the statement sequence of external_data._write_external_data as translated from the source tree on this
   run (Gen/C08Gen.v, fail-closed: an unrecognised statement aborts the translation; a recognised but different
   sequence - a step moved, dropped or added, `finally` turned into `except` - breaks this theorem). *)
Theorem C08_plan_is_translated_source :
  forall fs tens sc, interp_fn fs tens sc write_external_data_body = Some (plan_single fs tens sc).
Proof. exact plan_from_source. Qed.
Print Assumptions C08_plan_is_translated_source.

(* The same for the sharded path: _check_no_existing_shard_files (every destination probed with os.path.exists,
   FileExistsError before anything is written) and the sharded branch of _write_external_tensors (pre-flight before
   the per-shard saves), translated from the source on this run, mean plan_sharded. *)
Theorem C08_sharded_plan_is_translated_source :
  forall fs tens small shards,
  option_map (PSeq (PActs (plan_small small))) (interp_sharded check_no_existing_body sharded_branch_body fs tens shards)
  = Some (plan_sharded fs tens small shards).
Proof. exact sharded_from_source. Qed.
Print Assumptions C08_sharded_plan_is_translated_source.

(* ir.save as the entry point (run_io: the data file(s), then ASaveModel = onnx.save of the model file).  Once the
   data write has succeeded, the destination holds exactly the complete new bytes WHATEVER happens while the model
   file is written (success, OSError - ENOSPC, a directory at the model path ... -, or death): it is never
   missing and never old-with-new-model. *)
Theorem C08_model_file_failure :
  forall fs0 tens small sc c, sc_par sc = None -> single_wf fs0 sc -> src_wf fs0 tens sc ->
  snd (run c fs0 tens small sc) = SOk ->
  (exists m, lookup (s_fs (fst (run_io c fs0 tens small sc))) (dest_of fs0 (sc_req sc))
             = Some (File (image fs0 tens (sc_tensors sc)) m))
  /\ (snd (run_io c fs0 tens small sc) = SOk \/ snd (run_io c fs0 tens small sc) = SRaise OSError
      \/ snd (run_io c fs0 tens small sc) = SCrash).
Proof. exact model_file_failure. Qed.
Print Assumptions C08_model_file_failure.

(* ... and for either writer and any outcome: through ir.save the directory and the tensors are exactly those of
   the data-file save, so every theorem above transfers to run_io. *)
Theorem C08_io_same_directory :
  forall c fs tens small sc,
  s_fs (fst (run_io c fs tens small sc)) = s_fs (fst (run c fs tens small sc))
  /\ s_tens (fst (run_io c fs tens small sc)) = s_tens (fst (run c fs tens small sc)).
Proof. exact run_io_fs. Qed.
Print Assumptions C08_io_same_directory.

Theorem C08_io_sharded_same_directory :
  forall c fs tens small shards,
  s_fs (fst (run_sharded_io c fs tens small shards)) = s_fs (fst (run_sharded c fs tens small shards)).
Proof. exact run_sharded_io_fs. Qed.
Print Assumptions C08_io_sharded_same_directory.

(* ExternalTensor.tofile on regular files (C08/Cfr.v: the copy_file_range loop with arbitrary short copies, zero
   answers, fallback and fatal errors of the kernel, then the chunked userspace loop): it returns normally only after
   exactly [n] bytes were copied, which requires the source to hold them; a source shorter than offset+length always
   raises; a long enough source is always copied completely. *)
Theorem C08_copy_file_range_complete :
  forall ans avail n chunk k u, tofile_fast ans avail n chunk = COk k u -> k + u = n /\ n <= avail.
Proof. exact tofile_fast_complete. Qed.
Print Assumptions C08_copy_file_range_complete.

Theorem C08_copy_file_range_short_source_raises :
  forall ans avail n chunk, avail < n -> exists k u, tofile_fast ans avail n chunk = CRaise k u.
Proof. exact tofile_fast_short_source_raises. Qed.
Print Assumptions C08_copy_file_range_short_source_raises.

Theorem C08_copy_file_range_total :
  forall ans avail n chunk, n <= avail -> 0 < chunk -> Forall (fun a => a <> KErrFatal) ans ->
  exists k u, tofile_fast ans avail n chunk = COk k u.
Proof. exact tofile_fast_total. Qed.
Print Assumptions C08_copy_file_range_total.

(* ---- the hypotheses are satisfiable by a non-trivial state; the model runs *)
Definition ex_fs : fsT := [([1%N], File [1%N; 2%N; 3%N; 4%N] 384%N); ([2%N], File [9%N] 420%N)].
Definition ex_tens : list tstate :=
  [{| t_path := [1%N]; t_off := 1; t_len := 2; t_valid := true; t_map := None |}].
Definition ex_sc : scn :=
  {| sc_req := [1%N]; sc_tmpd := [7%N]; sc_tensors := [(0, TExt 0); (2, TMem [5%N; 6%N; 7%N])];
     sc_chunk := 1; sc_cb := Some None; sc_cbbase := 0; sc_aliases := []; sc_held := []; sc_par := None |}.
(* Ctrl-C (KeyboardInterrupt) delivered while the progress callback of the second tensor runs *)
Definition ex_sc_kbd : scn :=
  {| sc_req := [1%N]; sc_tmpd := [7%N]; sc_tensors := [(0, TExt 0); (2, TMem [5%N; 6%N; 7%N])];
     sc_chunk := 1; sc_cb := Some (Some (1, OtherError)); sc_cbbase := 0; sc_aliases := []; sc_held := []; sc_par := None |}.

Example ex_wf : single_wf ex_fs ex_sc.
Proof.
  unfold single_wf. split; [|split; [reflexivity|discriminate]].
  intros [|x p] H; [discriminate|].
  change (is_prefix (sc_tmpd ex_sc) (x :: p)) with (N.eqb 7 x && is_prefix [] p) in H.
  apply andb_prop in H. destruct H as [H _]. apply N.eqb_eq in H. subst x. reflexivity.
Qed.
Example ex_complete :
  lookup (s_fs (fst (run no_ctl ex_fs ex_tens [] ex_sc))) [1%N] = Some (File [2%N; 3%N; 5%N; 6%N; 7%N] 384%N)
  /\ map t_valid (s_tens (fst (run no_ctl ex_fs ex_tens [] ex_sc))) = [false].
Proof. vm_compute. split; reflexivity. Qed.
Example ex_killed_mid_tensor :
  lookup (s_fs (fst (run_prefix 7 ex_fs ex_tens [] ex_sc))) [1%N] = Some (File [1%N; 2%N; 3%N; 4%N] 384%N)
  /\ lookup (s_fs (fst (run_prefix 7 ex_fs ex_tens [] ex_sc))) [7%N; 1%N] = Some (File [2%N] 420%N).
Proof. vm_compute. split; reflexivity. Qed.
Example ex_fault_clean :
  snd (run_with_fault 7 ex_fs ex_tens [] ex_sc) = SRaise OSError
  /\ s_fs (fst (run_with_fault 7 ex_fs ex_tens [] ex_sc)) = ex_fs.
Proof. vm_compute. repeat split; reflexivity. Qed.
(* the caller holds a live numpy view of the destination-backed tensor: release() raises BufferError BEFORE
   the rename, the save fails and the directory is exactly as before, the tensor still valid *)
Definition held_tens : list tstate :=
  [{| t_path := [1%N]; t_off := 1; t_len := 2; t_valid := true; t_map := Some [1%N; 2%N; 3%N; 4%N] |}].
Definition held_sc : scn :=
  {| sc_req := [1%N]; sc_tmpd := [7%N]; sc_tensors := [(0, TExt 0); (2, TMem [5%N; 6%N; 7%N])];
     sc_chunk := 8; sc_cb := None; sc_cbbase := 0; sc_aliases := []; sc_held := [0]; sc_par := None |}.
Example ex_held_view_clean :
  snd (run no_ctl ex_fs held_tens [] held_sc) = SRaise OtherError
  /\ s_fs (fst (run no_ctl ex_fs held_tens [] held_sc)) = ex_fs
  /\ map t_valid (s_tens (fst (run no_ctl ex_fs held_tens [] held_sc))) = [true].
Proof. vm_compute. repeat split; reflexivity. Qed.
(* the parallel writer on the example: same bytes as the serial image (5 = preallocated size) *)
Definition ex_sc_par : scn :=
  {| sc_req := [1%N]; sc_tmpd := [7%N]; sc_tensors := [(0, TExt 0); (2, TMem [5%N; 6%N; 7%N])];
     sc_chunk := 1; sc_cb := Some None; sc_cbbase := 0; sc_aliases := []; sc_held := []; sc_par := Some 5 |}.
Example ex_parallel_complete :
  lookup (s_fs (fst (run no_ctl ex_fs ex_tens [] ex_sc_par))) [1%N] = Some (File [2%N; 3%N; 5%N; 6%N; 7%N] 384%N)
  /\ image_from ex_fs ex_tens (repeat 0%N 5) (sc_tensors ex_sc_par) = image ex_fs ex_tens (sc_tensors ex_sc)
  /\ snd (run {| crash_at := None; fault_at := Some 14 |} ex_fs ex_tens [] ex_sc_par) = SRaise OSError
  /\ s_fs (fst (run {| crash_at := None; fault_at := Some 14 |} ex_fs ex_tens [] ex_sc_par)) = ex_fs.
Proof. vm_compute. repeat split; reflexivity. Qed.
Example ex_model_file_enospc :
  snd (run no_ctl ex_fs ex_tens [] ex_sc) = SOk
  /\ snd (run_io {| crash_at := None; fault_at := Some 21 |} ex_fs ex_tens [] ex_sc) = SRaise OSError
  /\ lookup (s_fs (fst (run_io {| crash_at := None; fault_at := Some 21 |} ex_fs ex_tens [] ex_sc))) [1%N]
     = Some (File [2%N; 3%N; 5%N; 6%N; 7%N] 384%N).
Proof. vm_compute. repeat split; reflexivity. Qed.
Example ex_within : Forall (within ex_fs ex_tens 5) (sc_tensors ex_sc_par) /\ 5 <= length (image ex_fs ex_tens (sc_tensors ex_sc_par)).
Proof. vm_compute. split; [repeat constructor|repeat constructor]. Qed.
Example ex_cfr_short_copies :
  tofile_fast [KCopy 2; KCopy 0; KCopy 9] 20 9 4 = COk 2 7 /\ tofile_fast [KCopy 3; KErrFallback] 5 9 4 = CRaise 3 2.
Proof. vm_compute. split; reflexivity. Qed.
Example ex_src_wf : src_wf ex_fs ex_tens ex_sc.
Proof. intros [|[|h]] x H; simpl in H; inversion H; subst; split; reflexivity. Qed.
Example ex_keyboard_interrupt_clean :
  snd (run no_ctl ex_fs ex_tens [] ex_sc_kbd) = SRaise OtherError /\ is_base_exception OtherError = true
  /\ s_fs (fst (run no_ctl ex_fs ex_tens [] ex_sc_kbd)) = ex_fs.
Proof. vm_compute. repeat split; reflexivity. Qed.
(* another hard link [2] of the destination's inode: the tensor reading through it is released (samefile) but
   stays valid and keeps reading the old bytes; the tensor on the destination path itself is invalidated *)
Definition hl_fs : fsT := [([1%N], File [1%N; 2%N; 3%N; 4%N] 420%N); ([2%N], File [1%N; 2%N; 3%N; 4%N] 420%N)].
Definition hl_tens : list tstate :=
  [{| t_path := [2%N]; t_off := 1; t_len := 2; t_valid := true; t_map := None |};
   {| t_path := [1%N]; t_off := 0; t_len := 2; t_valid := true; t_map := None |}].
Definition hl_sc : scn :=
  {| sc_req := [1%N]; sc_tmpd := [7%N]; sc_tensors := [(0, TExt 0); (2, TExt 1)]; sc_chunk := 8; sc_cb := None;
     sc_cbbase := 0; sc_aliases := [[2%N]]; sc_held := []; sc_par := None |}.
Example ex_hardlink_alias_stays_valid :
  overwritten hl_fs hl_tens hl_sc = [0; 1] /\ invalidated hl_fs hl_tens hl_sc = [1]
  /\ map t_valid (s_tens (fst (run no_ctl hl_fs hl_tens [] hl_sc))) = [true; false]
  /\ lookup (s_fs (fst (run no_ctl hl_fs hl_tens [] hl_sc))) [2%N] = Some (File [1%N; 2%N; 3%N; 4%N] 420%N)
  /\ lookup (s_fs (fst (run no_ctl hl_fs hl_tens [] hl_sc))) [1%N] = Some (File [2%N; 3%N; 1%N; 2%N] 420%N).
Proof. vm_compute. repeat split; reflexivity. Qed.
Example ex_image : image ex_fs ex_tens (sc_tensors ex_sc) = [2%N; 3%N; 5%N; 6%N; 7%N].
Proof. vm_compute. reflexivity. Qed.
Example ex_shard_wf : Forall (shard_wf ex_fs) [ {| sc_req := [3%N]; sc_tmpd := [7%N]; sc_tensors := [(0, TMem [5%N])];
     sc_chunk := 1; sc_cb := None; sc_cbbase := 0; sc_aliases := []; sc_held := []; sc_par := None |} ].
Proof. constructor; [|constructor]. unfold shard_wf. simpl. repeat split; discriminate. Qed.

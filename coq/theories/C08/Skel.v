(* C08/Skel.v — the statement language into which harness/props/c08.py (generate) translates the body of
   external_data._write_external_data on every run (Gen/C08Gen.v), and its meaning as a plan of the model.
   The translation is fail-closed: a statement the translator does not recognise aborts the generation, and a
   recognised statement sequence whose meaning is not the model's plan breaks C08_plan_is_translated_source. *)
From Coq Require Import List Bool Arith NArith.
From IRV Require Import Base.Exn C08.Model.
Import ListNotations.

Inductive stm :=
| SPure                       (* assignment / logging without a file-system, tensor or writer effect *)
| SAssignDest                 (* destination_path = os.path.realpath(req) if os.path.islink(req) else req *)
| SOverwritten                (* overwritten_tensors = [t for t in tensors if isinstance(t, ExternalTensor)
                                                        and _paths_refer_to_same_file(t.path, destination_path)] *)
| SMkdtemp                    (* temporary_dir = tempfile.mkdtemp(dir=destination_dir, prefix=...) *)
| SWriterWrite                (* writer.write() *)
| SReplace                    (* os.replace(temporary_path, destination_path) *)
| SRealpathDest               (* replaced_path = os.path.realpath(destination_path) *)
| SRelease                    (* tensor.release() *)
| SInvalidate                 (* tensor.invalidate() *)
| SIfRealpathDiffersContinue  (* if os.path.realpath(tensor.path) != replaced_path: continue *)
| SCopymode                   (* shutil.copymode(destination_path, temporary_path) *)
| SRemoveTmp                  (* os.remove(temporary_path) *)
| SRmdirTmp                   (* os.rmdir(temporary_dir) *)
| SForOverwritten (body : list stm)   (* for tensor in overwritten_tensors: body *)
| SIfExists (body : list stm)         (* if os.path.exists(destination_path): body *)
| SSuppressFNF (body : stm)           (* with contextlib.suppress(FileNotFoundError): body *)
| STry (body fin : list stm).         (* try: body finally: fin   (no except clause, no else) *)

Section Meaning.
  Variable fs : fsT.
  Variable tens : list tstate.
  Variable sc : scn.
  Let dest := dest_of fs (sc_req sc).
  Let tmpf := tmpf_of sc dest.

  Definition acts_of (s : stm) : option (list act) :=
    match s with
    | SPure => Some []
    | SAssignDest => Some (AIsLink (sc_req sc) :: (if is_link fs (sc_req sc) then [ARealpath (sc_req sc)] else []))
    | SOverwritten => Some (map (probe_act fs tens sc) (ext_handles (sc_tensors sc)))
    | SMkdtemp => Some [AMkdtemp (sc_tmpd sc)]
    | SForOverwritten [SRelease] => Some (map (rel_act sc) (overwritten fs tens sc))
    | SIfExists [SCopymode] => Some (AExists dest :: (if exists_ fs dest then [ACopymode dest tmpf] else []))
    | SReplace => Some [AReplace tmpf dest]
    | SSuppressFNF SRemoveTmp => Some [ARemove tmpf]
    | SSuppressFNF SRmdirTmp => Some [ARmdir (sc_tmpd sc)]
    | SRealpathDest => Some [ARealpath dest]
    | SForOverwritten [SIfRealpathDiffersContinue; SInvalidate; SPure] =>
        Some (flat_map (fun h => ARealpath (tpath tens h)
                                 :: (if realpath_is_dest fs tens sc h then [AInvalidate h] else []))
                       (overwritten fs tens sc))
    | _ => None
    end.

  Fixpoint acts_seq (l : list stm) : option (list act) :=
    match l with
    | [] => Some []
    | [s] => acts_of s
    | s :: r => match acts_of s, acts_seq r with
                | Some a, Some b => Some (a ++ b)
                | _, _ => None
                end
    end.

  Fixpoint drop_pure (l : list stm) : list stm :=
    match l with SPure :: r => drop_pure r | _ => l end.

  (* statements before the (only) try, the try, statements after it *)
  Fixpoint split_try (l : list stm) : option (list stm * (list stm * list stm) * list stm) :=
    match l with
    | [] => None
    | STry b f :: post => Some ([], (b, f), post)
    | s :: r => match split_try r with
                | Some (pre, bf, post) => Some (s :: pre, bf, post)
                | None => None
                end
    end.

  (* meaning of the whole function body: sequential statements, try/finally = PTry, writer.write() = the writer *)
  Definition interp_fn (body : list stm) : option prog :=
    match split_try body with
    | Some (pre, (tb, fin), post) =>
        match drop_pure tb with
        | SWriterWrite :: rest =>
            match acts_seq pre, acts_seq rest, acts_seq fin, acts_seq post with
            | Some a_pre, Some a_rest, Some a_fin, Some a_post =>
                Some (PSeq (PActs a_pre)
                        (PSeq (PTry (PSeq (writer tens sc tmpf) (PActs a_rest)) (PActs a_fin)) (PActs a_post)))
            | _, _, _, _ => None
            end
        | _ => None
        end
    | None => None
    end.
End Meaning.

(* ---- the sharded path: _check_no_existing_shard_files and the sharded branch of _write_external_tensors *)
Inductive pstm :=
| PExistsEach          (* existing = [os.fspath(path) for path in destination_paths if os.path.exists(path)] *)
| PIfExistingRaise.    (* if existing: ...; raise FileExistsError(...) *)

Inductive sstm :=
| SSPure               (* assignments / job bookkeeping without file-system effect *)
| SSSingleBranch       (* if max_shard_size_bytes is None: return convert_tensors_to_external(...) *)
| SSPreflight          (* _check_no_existing_shard_files(destination_paths) *)
| SSParallelShards     (* if max_workers ... > 1 and len(shard_jobs) > 1: <shard driver threads>; return *)
| SSForShardsConvert.  (* for job in shard_jobs: external_tensors.extend(convert_tensors_to_external(job...)) *)

Fixpoint drop_sspure (l : list sstm) : list sstm :=
  match l with
  | [] => []
  | SSPure :: r => drop_sspure r
  | s :: r => s :: drop_sspure r
  end.

(* meaning of the sharded branch: every destination is probed with os.path.exists (all of them, no short circuit);
   if one exists FileExistsError is raised before anything is written; otherwise one single-file save per shard,
   in order *)
Definition interp_sharded (pre : list pstm) (body : list sstm) (fs : fsT) (tens : list tstate) (shards : list scn)
  : option prog :=
  match pre, drop_sspure body with
  | [PExistsEach; PIfExistingRaise], [SSSingleBranch; SSPreflight; SSParallelShards; SSForShardsConvert] =>
      Some (if existsb (fun sc => exists_ fs (sc_req sc)) shards
            then PActs (map (fun sc => AExists (sc_req sc)) shards ++ [ARaiseExists])
            else PSeq (PActs (map (fun sc => AExists (sc_req sc)) shards)) (plan_shards fs tens shards))
  | _, _ => None
  end.

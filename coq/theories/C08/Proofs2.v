(* C08/Proofs2.v — lifting of state invariants through perform / exec_acts / exec (any crash point,
   any injected fault), the plan's tensor-writing actions never name a path, and the sharded theorem. *)
From Coq Require Import List Bool Arith Lia NArith.
From IRV Require Import Base.Exn C08.Model C08.Proofs1.
Import ListNotations.

Lemma perform_cases c a s :
  perform c a s = (s, SCrash)
  \/ perform c a s = (log (OFail (is_cleanup a)) s, SRaise OSError)
  \/ perform c a s = commit (sem a s).
Proof.
  unfold perform. destruct (counted a); [|auto].
  destruct (at_idx (crash_at c) (length (s_trace s))); [auto|].
  destruct (at_idx (fault_at c) (length (s_trace s)) && faultable a); auto.
Qed.

Lemma fst_commit r : fst (commit r) = fst r.
Proof. destruct r as [s [u|e]]; reflexivity. Qed.

Section Lift.
  Variable P : st -> Prop.
  Variable ok : act -> bool.
  Hypothesis P_log : forall o s, P s -> P (log o s).
  Hypothesis P_sem : forall a s, ok a = true -> P s -> P (fst (sem a s)).

  Lemma perform_pres c a s : ok a = true -> P s -> P (fst (perform c a s)).
  Proof.
    intros Ha Hs. destruct (perform_cases c a s) as [E|[E|E]]; rewrite E; simpl; auto.
    rewrite fst_commit. auto.
  Qed.

  Lemma exec_acts_pres c l : forall s, forallb ok l = true -> P s -> P (fst (exec_acts c l s)).
  Proof.
    induction l as [|a r IH]; intros s Hl Hs; simpl; [exact Hs|].
    simpl in Hl. apply andb_prop in Hl. destruct Hl as [Ha Hr].
    pose proof (perform_pres c a s Ha Hs) as Hp.
    destruct (perform c a s) as [s' [ |e| ]]; simpl in *; auto.
  Qed.

  Fixpoint prog_all (p : prog) : bool :=
    match p with
    | PActs l => forallb ok l
    | PSeq a b => prog_all a && prog_all b
    | PTry a b => prog_all a && prog_all b
    end.

  Lemma exec_pres c p : forall s, prog_all p = true -> P s -> P (fst (exec c p s)).
  Proof.
    induction p as [l|a IHa b IHb|a IHa b IHb]; intros s Hp Hs; simpl in *.
    - apply exec_acts_pres; assumption.
    - apply andb_prop in Hp. destruct Hp as [H1 H2].
      pose proof (IHa s H1 Hs) as Ha. destruct (exec c a s) as [s1 [ |e| ]]; simpl in *; auto.
    - apply andb_prop in Hp. destruct Hp as [H1 H2].
      pose proof (IHa s H1 Hs) as Ha. destruct (exec c a s) as [s1 [ |e| ]]; simpl in *; auto.
      pose proof (IHb s1 H2 Ha) as Hb. destruct (exec c b s1) as [s2 [ |e'| ]]; simpl in *; auto.
  Qed.
End Lift.

Lemma FInv_log base S o s : FInv base S s -> FInv base S (log o s).
Proof. intros H. eapply FInv_same_fs; [| |exact H]; simpl; auto. Qed.

(* ---- the tensor-writing part of a plan never names a path *)
Definition nofs (a : act) : bool :=
  match a with
  | AMkdtemp _ | AOpenW _ | ACopymode _ _ | AReplace _ _ | ARemove _ | ARmdir _ | AOpenRW _ => false
  | _ => true
  end.

Lemma nofs_safe S a : nofs a = true -> safeS S a = true.
Proof. destruct a; simpl; intros; try reflexivity; discriminate. Qed.

Lemma multi_nofs chunks e : forall ra, forallb nofs (multi_acts chunks ra e) = true.
Proof.
  induction chunks as [|ch r IH]; intros [[|j]|]; simpl; try reflexivity; apply IH.
Qed.

Lemma tofile_nofs tens c sp : forallb nofs (tofile_acts tens c sp) = true.
Proof.
  destruct sp as [d|h|e|chunks ra e]; simpl; try reflexivity; [|apply multi_nofs].
  rewrite forallb_app. simpl. rewrite andb_true_r.
  induction (chunk_plan _ 0 _ c) as [|x r IH]; simpl; [reflexivity|exact IH].
Qed.

Lemma cb_nofs cb i : forallb nofs (cb_acts cb i) = true.
Proof. destruct cb as [[[j e]|]|]; reflexivity. Qed.

Lemma tensors_nofs tens c cb l : forall i, forallb nofs (tensors_acts tens c cb i l) = true.
Proof.
  induction l as [|[off sp] r IH]; intros i; simpl; [reflexivity|].
  rewrite forallb_app, cb_nofs. simpl. rewrite forallb_app, tofile_nofs, IH. reflexivity.
Qed.

Lemma forallb_impl {A} (f g : A -> bool) l :
  (forall x, f x = true -> g x = true) -> forallb f l = true -> forallb g l = true.
Proof.
  intros H. induction l; simpl; [auto|]. intros E. apply andb_prop in E. destruct E as [E1 E2].
  rewrite (H _ E1), (IHl E2). reflexivity.
Qed.

Lemma forallb_map_const {A} (g : A -> act) (f : act -> bool) l :
  (forall x, f (g x) = true) -> forallb f (map g l) = true.
Proof. intros H. induction l; simpl; [reflexivity|]. rewrite H, IHl. reflexivity. Qed.

Lemma small_nofs small : forallb nofs (plan_small small) = true.
Proof. induction small; simpl; [reflexivity|exact IHsmall]. Qed.

(* ---- a single-file plan is safe for any set S containing the temp dir, the temp file and the
   destination *)
Lemma writer_safe S tens sc tmpf : S tmpf = true -> prog_all (safeS S) (writer tens sc tmpf) = true.
Proof.
  intros Hf. unfold writer. destruct (sc_par sc) as [total|].
  - unfold writer_parallel. cbn [prog_all forallb safeS]. rewrite Hf. cbn [andb].
    destruct (sc_tensors sc) as [|[off0 sp0] r]; [reflexivity|]. cbn [prog_all forallb safeS]. rewrite Hf. cbn [andb].
    rewrite (forallb_impl _ _ _ (nofs_safe S) (cb_nofs _ _)). cbn [andb].
    apply andb_true_intro; split; [|reflexivity]. rewrite forallb_app.
    apply andb_true_intro; split; (eapply forallb_impl; [apply nofs_safe|]); [apply tofile_nofs|apply tensors_nofs].
  - unfold writer_serial. simpl. rewrite Hf. simpl. rewrite andb_true_r.
    eapply forallb_impl; [apply nofs_safe | apply tensors_nofs].
Qed.

Lemma plan_single_safe S fs tens sc :
  S (sc_tmpd sc) = true -> S (tmpf_of sc (dest_of fs (sc_req sc))) = true ->
  S (dest_of fs (sc_req sc)) = true ->
  prog_all (safeS S) (plan_single fs tens sc) = true.
Proof.
  intros Hd Hf Hdest. unfold plan_single.
  cbn [prog_all]. rewrite (writer_safe S tens sc _ Hf).
  repeat (apply andb_true_intro; split); try reflexivity.
  - change (forallb (safeS S) ((if is_link fs (sc_req sc) then [ARealpath (sc_req sc)] else [])
       ++ map (probe_act fs tens sc) (ext_handles (sc_tensors sc)) ++ [AMkdtemp (sc_tmpd sc)]) = true).
    rewrite !forallb_app. apply andb_true_intro. split.
    + destruct (is_link fs (sc_req sc)); reflexivity.
    + apply andb_true_intro. split.
      * apply forallb_map_const. intros h. unfold probe_act.
        destruct (has_nul (tpath tens h)); [reflexivity|]. destruct (is_alias fs sc (tpath tens h)); reflexivity.
      * simpl. rewrite Hd. reflexivity.
  - unfold plan_tail. rewrite forallb_app. apply andb_true_intro. split.
    + apply forallb_map_const. intros h. unfold rel_act. destruct (existsb (Nat.eqb h) (sc_held sc)); reflexivity.
    + simpl. rewrite forallb_app. apply andb_true_intro. split.
      * destruct (exists_ fs (dest_of fs (sc_req sc))); simpl; [rewrite Hf|]; reflexivity.
      * simpl. rewrite Hf, Hdest. reflexivity.
  - simpl. exact Hf.
  - simpl. exact Hd.
  - change (forallb (safeS S) (flat_map (fun h => ARealpath (tpath tens h)
        :: (if realpath_is_dest fs tens sc h then [AInvalidate h] else [])) (overwritten fs tens sc)) = true).
    induction (overwritten fs tens sc) as [|h r IH]; simpl; [reflexivity|].
    destruct (realpath_is_dest fs tens sc h); simpl; exact IH.
Qed.

(* ---- sharded save: nothing that existed before is changed, whatever the interruption *)
Definition absent (fs : fsT) (p : path) : bool :=
  match lookup fs p with None => true | Some _ => false end.

(* contract of mkdtemp for one data file + "links do not point to links" *)
Definition shard_wf (fs : fsT) (sc : scn) : Prop :=
  absent fs (sc_tmpd sc) = true
  /\ absent fs (tmpf_of sc (dest_of fs (sc_req sc))) = true
  /\ (forall t t', lookup fs (sc_req sc) = Some (Link t) -> lookup fs t <> Some (Link t')).

Lemma not_exists_absent fs sc :
  shard_wf fs sc -> exists_ fs (sc_req sc) = false -> absent fs (dest_of fs (sc_req sc)) = true.
Proof.
  intros (_ & _ & Hl) He. unfold dest_of, is_link, exists_, resolve, absent in *.
  destruct (lookup fs (sc_req sc)) as [[d m| |t]|] eqn:E.
  - rewrite E in He. discriminate.
  - rewrite E in He. discriminate.
  - destruct (lookup fs t) as [[d m| |t']|] eqn:E'; try discriminate; [|reflexivity].
    exfalso. eapply Hl; eauto.
  - rewrite E. reflexivity.
Qed.

Lemma plan_shards_safe fs tens shards :
  Forall (shard_wf fs) shards ->
  existsb (fun sc => exists_ fs (sc_req sc)) shards = false ->
  prog_all (safeS (absent fs)) (plan_shards fs tens shards) = true.
Proof.
  induction shards as [|sc r IH]; intros Hwf He; simpl; [reflexivity|].
  inversion Hwf as [|? ? Hsc Hr]; subst. simpl in He. apply orb_false_elim in He. destruct He as [He1 He2].
  apply andb_true_intro. split; [|apply IH; assumption].
  destruct Hsc as (H1 & H2 & H3).
  apply plan_single_safe; auto. apply not_exists_absent; [repeat split; auto|exact He1].
Qed.

Lemma FInv_init fs tens : FInv fs (absent fs) (init fs tens).
Proof.
  unfold FInv, init. simpl. repeat split; auto; try discriminate.
  intros p t Hp. unfold absent in Hp. destruct (lookup fs p); [discriminate|discriminate].
Qed.

Lemma sharded_never_overwrites c fs tens small shards :
  Forall (shard_wf fs) shards ->
  forall p, lookup fs p <> None ->
  lookup (s_fs (fst (run_sharded c fs tens small shards))) p = lookup fs p.
Proof.
  intros Hwf p Hp. unfold run_sharded.
  assert (HI : FInv fs (absent fs) (fst (exec c (plan_sharded fs tens small shards) (init fs tens)))).
  { apply exec_pres with (ok := safeS (absent fs)).
    - intros; apply FInv_log; assumption.
    - intros; apply sem_FInv; assumption.
    - unfold plan_sharded. simpl. apply andb_true_intro. split.
      + eapply forallb_impl; [apply nofs_safe|apply small_nofs].
      + destruct (existsb (fun sc => exists_ fs (sc_req sc)) shards) eqn:E; simpl.
        * rewrite forallb_app. simpl. rewrite andb_true_r. apply forallb_map_const. reflexivity.
        * apply andb_true_intro. split; [apply forallb_map_const; reflexivity|].
          apply plan_shards_safe; assumption.
    - apply FInv_init. }
  destruct HI as (H1 & _ & _). apply H1. unfold absent. destruct (lookup fs p); [reflexivity|congruence].
Qed.

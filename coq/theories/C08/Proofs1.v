(* C08/Proofs1.v — file-system lemmas and the frame invariant: actions that only touch a set S of
   paths leave every path outside S exactly as in the base file system. *)
From Coq Require Import List Bool Arith Lia NArith.
From IRV Require Import Base.Exn C08.Model.
Import ListNotations.

Lemma path_eqb_eq a b : path_eqb a b = true <-> a = b.
Proof. unfold path_eqb. apply list_eqb_eq. intros x y. apply N.eqb_eq. Qed.
Lemma path_eqb_refl a : path_eqb a a = true.
Proof. apply path_eqb_eq. reflexivity. Qed.
Lemma path_eqb_neq a b : a <> b -> path_eqb a b = false.
Proof. intros H. destruct (path_eqb a b) eqn:E; [apply path_eqb_eq in E; contradiction | reflexivity]. Qed.
Lemma path_eqb_false a b : path_eqb a b = false -> a <> b.
Proof. intros H E. subst. rewrite path_eqb_refl in H. discriminate. Qed.

Lemma lookup_delete_eq fs p : lookup (delete fs p) p = None.
Proof.
  induction fs as [|[q n] r IH]; simpl; [reflexivity|].
  destruct (path_eqb q p) eqn:E; [exact IH|]. simpl. rewrite E. exact IH.
Qed.
Lemma lookup_delete_ne fs p q : p <> q -> lookup (delete fs p) q = lookup fs q.
Proof.
  intros Hne. induction fs as [|[x n] r IH]; simpl; [reflexivity|].
  destruct (path_eqb x p) eqn:E.
  - apply path_eqb_eq in E. subst x. rewrite (path_eqb_neq p q Hne). exact IH.
  - simpl. destruct (path_eqb x q); [reflexivity | exact IH].
Qed.
Lemma lookup_insert_eq fs p n : lookup (insert fs p n) p = Some n.
Proof. unfold insert. simpl. rewrite path_eqb_refl. reflexivity. Qed.
Lemma lookup_insert_ne fs p q n : p <> q -> lookup (insert fs p n) q = lookup fs q.
Proof. intros H. unfold insert. simpl. rewrite (path_eqb_neq p q H). apply lookup_delete_ne. exact H. Qed.

Lemma In_lookup fs p n : In (p, n) fs -> lookup fs p <> None.
Proof.
  induction fs as [|[q m] r IH]; simpl; [tauto|].
  intros [E|H].
  - inversion E; subst. rewrite path_eqb_refl. discriminate.
  - destruct (path_eqb q p); [discriminate | apply IH; exact H].
Qed.

Lemma is_prefix_refl a : is_prefix a a = true.
Proof. induction a; simpl; [reflexivity|]. rewrite N.eqb_refl. exact IHa. Qed.
Lemma is_prefix_app a b : is_prefix a (a ++ b) = true.
Proof. induction a; simpl; [reflexivity|]. rewrite N.eqb_refl. exact IHa. Qed.

(* ---- state projections of the elementary updates *)
Lemma fs_log o s : s_fs (log o s) = s_fs s. Proof. reflexivity. Qed.

(* ---- the frame invariant *)
Section Frame.
  Variable base : fsT.
  Variable S : path -> bool.

  Definition FInv (s : st) : Prop :=
    (forall p, S p = false -> lookup (s_fs s) p = lookup base p)
    /\ (forall q, s_fd s = Some q -> S q = true)
    /\ (forall p t, S p = true -> lookup (s_fs s) p <> Some (Link t)).

  Definition safeS (a : act) : bool :=
    match a with
    | AMkdtemp d => S d
    | AOpenW p => S p
    | ACopymode _ dst => S dst
    | AReplace src dst => S src && S dst
    | ARemove p => S p
    | ARmdir p => S p
    | AOpenRW p => S p
    | _ => true
    end.

  Lemma resolve_S s p : FInv s -> S p = true -> resolve (s_fs s) p = p.
  Proof.
    intros (_ & _ & H3) Hp. unfold resolve. destruct (lookup (s_fs s) p) as [[| |t]|] eqn:E; try reflexivity.
    exfalso. eapply H3; eauto.
  Qed.

  Lemma FInv_same_fs s s' :
    s_fs s' = s_fs s -> (s_fd s' = s_fd s \/ s_fd s' = None) -> FInv s -> FInv s'.
  Proof.
    intros Hfs Hfd (H1 & H2 & H3). unfold FInv. rewrite Hfs. repeat split; auto.
    intros q Hq. destruct Hfd as [E|E]; rewrite E in Hq; [auto | discriminate].
  Qed.

  Lemma FInv_fd s s' p :
    s_fs s' = s_fs s -> s_fd s' = Some p -> S p = true -> FInv s -> FInv s'.
  Proof.
    intros Hfs Hfd Hp (H1 & H2 & H3). unfold FInv. rewrite Hfs, Hfd. repeat split; auto.
    intros q Hq. inversion Hq; subst. exact Hp.
  Qed.

  Lemma FInv_insert s s' p n :
    S p = true -> (forall t, n <> Link t) ->
    s_fs s' = insert (s_fs s) p n -> (s_fd s' = s_fd s \/ s_fd s' = None \/ s_fd s' = Some p) ->
    FInv s -> FInv s'.
  Proof.
    intros Hp Hn Hfs Hfd (H1 & H2 & H3). unfold FInv. rewrite Hfs. repeat split.
    - intros q Hq. rewrite lookup_insert_ne; [auto|]. intros E; subst. congruence.
    - intros q Hq. destruct Hfd as [E|[E|E]]; rewrite E in Hq; [auto | discriminate | congruence].
    - intros q t Hq. destruct (path_eqb p q) eqn:E.
      + apply path_eqb_eq in E. subst. rewrite lookup_insert_eq. intros X. inversion X. eapply Hn; eauto.
      + rewrite lookup_insert_ne; [auto | apply path_eqb_false; exact E].
  Qed.

  Lemma FInv_delete s s' p :
    S p = true -> s_fs s' = delete (s_fs s) p -> s_fd s' = s_fd s -> FInv s -> FInv s'.
  Proof.
    intros Hp Hfs Hfd (H1 & H2 & H3). unfold FInv. rewrite Hfs, Hfd. repeat split; auto.
    - intros q Hq. rewrite lookup_delete_ne; [auto|]. intros E; subst. congruence.
    - intros q t Hq. destruct (path_eqb p q) eqn:E.
      + apply path_eqb_eq in E. subst. rewrite lookup_delete_eq. discriminate.
      + rewrite lookup_delete_ne; [auto | apply path_eqb_false; exact E].
  Qed.

  Lemma do_write_FInv s d : FInv s -> FInv (fst (do_write s d)).
  Proof.
    intros HI. unfold do_write. destruct (s_fd s) as [q|] eqn:Efd.
    - destruct (lookup (s_fs s) q) as [[f m| |t]|] eqn:El; simpl;
        try (eapply FInv_same_fs; [| |exact HI]; simpl; auto; fail).
      eapply FInv_insert with (p := q) (n := File (write_at f (s_pos s) d) m); [| | | |exact HI].
      + destruct HI as (_ & H2 & _). auto.
      + discriminate.
      + reflexivity.
      + simpl. auto.
    - simpl. eapply FInv_same_fs; [| |exact HI]; simpl; auto.
  Qed.

  Lemma sem_FInv a s : safeS a = true -> FInv s -> FInv (fst (sem a s)).
  Proof.
    intros Hs HI. destruct a as [p|p|d|p q|p|i raises|off|d| | |t|t|p|src dst|src dst|p|p|e|t|t rel n|t|t| |p q|p q|t|p|n| ];
      simpl in *; try (eapply FInv_same_fs; [| |exact HI]; simpl; auto; fail).
    - (* AMkdtemp *)
      destruct (lookup (s_fs s) d) eqn:E; [eapply FInv_same_fs; [| |exact HI]; simpl; auto|].
      destruct (parent_ok (s_fs s) d); simpl.
      + eapply FInv_insert with (p := d) (n := Dir); [exact Hs|discriminate|reflexivity| |exact HI]. simpl; auto.
      + eapply FInv_same_fs; [| |exact HI]; simpl; auto.
    - (* AOpenW *)
      rewrite (resolve_S s p HI Hs).
      destruct (lookup (s_fs s) p) as [[f m| |t]|] eqn:E; simpl.
      + eapply FInv_insert with (p := p) (n := File [] m); [exact Hs|discriminate|reflexivity| |exact HI]. simpl; auto.
      + eapply FInv_same_fs; [| |exact HI]; simpl; auto.
      + eapply FInv_same_fs; [| |exact HI]; simpl; auto.
      + destruct (parent_ok (s_fs s) p); simpl.
        * eapply FInv_insert with (p := p) (n := File [] default_mode); [exact Hs|discriminate|reflexivity| |exact HI].
          simpl; auto.
        * eapply FInv_same_fs; [| |exact HI]; simpl; auto.
    - (* ASeek *)
      destruct (s_fd s) eqn:E; simpl; eapply FInv_same_fs; [| |exact HI| | |exact HI]; simpl; auto.
    - apply do_write_FInv; exact HI.
    - apply do_write_FInv; exact HI.
    - (* ACopymode *)
      rewrite (resolve_S s dst HI Hs).
      destruct (file_at (s_fs s) src) as [[d0 m]|]; [|eapply FInv_same_fs; [| |exact HI]; simpl; auto].
      destruct (lookup (s_fs s) dst) as [[f m'| |t]|] eqn:E; simpl;
        try (eapply FInv_same_fs; [| |exact HI]; simpl; auto; fail).
      eapply FInv_insert with (p := dst) (n := File f m); [exact Hs|discriminate|reflexivity| |exact HI]. simpl; auto.
    - (* AReplace *)
      apply andb_prop in Hs. destruct Hs as [Hsrc Hdst].
      destruct (lookup (s_fs s) src) as [[d m| |t]|] eqn:E; simpl;
        try (eapply FInv_same_fs; [| |exact HI]; simpl; auto; fail).
      assert (Hdel : FInv (with_fs s (delete (s_fs s) src))).
      { eapply FInv_delete with (p := src); [exact Hsrc|reflexivity|reflexivity|exact HI]. }
      destruct (lookup (s_fs s) dst) as [[d' m'| |t]|] eqn:E'; simpl;
        try (eapply FInv_same_fs; [| |exact HI]; simpl; auto; fail);
        (eapply FInv_insert with (p := dst) (n := File d m); [exact Hdst|discriminate| | |exact Hdel]; simpl; auto).
    - (* ARemove *)
      destruct (lookup (s_fs s) p) as [[d m| |t]|] eqn:E; simpl;
        try (eapply FInv_same_fs; [| |exact HI]; simpl; auto; fail);
        (eapply FInv_delete with (p := p); [exact Hs|reflexivity|reflexivity|exact HI]).
    - (* ARmdir *)
      destruct (lookup (s_fs s) p) as [[d m| |t]|] eqn:E; simpl;
        try (eapply FInv_same_fs; [| |exact HI]; simpl; auto; fail).
      destruct (has_child (s_fs s) p); simpl.
      + eapply FInv_same_fs; [| |exact HI]; simpl; auto.
      + eapply FInv_delete with (p := p); [exact Hs|reflexivity|reflexivity|exact HI].
    - (* ATofileOpen *)
      destruct (nth_error (s_tens s) t); simpl; [|exact HI].
      destruct (negb (t_valid t0)); simpl; [exact HI|].
      destruct (file_at (s_fs s) (t_path t0)); exact HI.
    - (* ARead *)
      destruct (nth_error (s_tens s) t); simpl; [|exact HI].
      destruct (file_at (s_fs s) (t_path t0)) as [[d m]|]; simpl; [|exact HI].
      destruct (slice d (t_off t0 + rel) n); simpl; [exact HI|].
      eapply FInv_same_fs; [| |exact HI]; simpl; auto.
    - destruct (nth_error (s_tens s) t); simpl; [|exact HI].
      destruct (file_at (s_fs s) (t_path t0)) as [[d m]|]; simpl; [|exact HI].
      destruct (t_off t0 + t_len t0 <=? length d); exact HI.
    - destruct (nth_error (s_tens s) t); simpl; [|exact HI].
      destruct (read_tensor (s_fs s) t0); exact HI.
    - (* AOpenRW *)
      rewrite (resolve_S s p HI Hs).
      destruct (lookup (s_fs s) p) as [[f m| |t]|] eqn:E; simpl;
        try (eapply FInv_same_fs; [| |exact HI]; simpl; auto; fail).
      eapply FInv_fd with (s := s) (p := p); [reflexivity|reflexivity|exact Hs|exact HI].
    - (* ATruncate *)
      destruct (s_fd s) as [q|] eqn:Efd; [|eapply FInv_same_fs; [| |exact HI]; simpl; auto].
      destruct (lookup (s_fs s) q) as [[f m| |t]|] eqn:El; simpl;
        try (eapply FInv_same_fs; [| |exact HI]; simpl; auto; fail).
      eapply FInv_insert with (p := q) (n := File (firstn n (f ++ repeat 0%N (n - length f))) m); [| | | |exact HI].
      + destruct HI as (_ & H2 & _). auto.
      + discriminate.
      + reflexivity.
      + simpl. auto.
  Qed.
End Frame.

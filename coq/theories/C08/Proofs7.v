(* C08/Proofs7.v — ir.save as the entry point: the model file is written after the data file(s); whatever happens
   there (success, OSError, death) the modelled directory and the tensors are those of the data-file save. *)
From Coq Require Import List Bool Arith Lia NArith.
From IRV Require Import Base.Exn C08.Model C08.Proofs1 C08.Proofs2 C08.Proofs3 C08.Proofs4 C08.Proofs5 C08.Proofs6.
Import ListNotations.

Lemma after_save_model c p s0 :
  let r := exec c p s0 in
  let r' := exec c (PSeq p (PActs [ASaveModel])) s0 in
  s_fs (fst r') = s_fs (fst r) /\ s_tens (fst r') = s_tens (fst r)
  /\ (snd r <> SOk -> r' = r)
  /\ (snd r = SOk -> snd r' = SOk \/ snd r' = SRaise OSError \/ snd r' = SCrash).
Proof.
  cbv zeta. rewrite exec_seq. destruct (exec c p s0) as [s r]. destruct r as [ |e| ]; simpl fst; simpl snd.
  - rewrite exec_pacts, exec_acts_cons.
    destruct (perform_cases c ASaveModel s) as [E|[E|E]]; rewrite E; simpl;
      repeat split; auto; intros X; congruence.
  - repeat split; auto; try (intros X; discriminate).
  - repeat split; auto; try (intros X; discriminate).
Qed.

Lemma run_io_fs c fs tens small sc :
  s_fs (fst (run_io c fs tens small sc)) = s_fs (fst (run c fs tens small sc))
  /\ s_tens (fst (run_io c fs tens small sc)) = s_tens (fst (run c fs tens small sc)).
Proof.
  unfold run_io, run. destruct (after_save_model c (plan_save fs tens small sc) (init fs tens)) as (H1 & H2 & _).
  split; assumption.
Qed.

Lemma run_sharded_io_fs c fs tens small shards :
  s_fs (fst (run_sharded_io c fs tens small shards)) = s_fs (fst (run_sharded c fs tens small shards)).
Proof.
  unfold run_sharded_io, run_sharded.
  destruct (after_save_model c (plan_sharded fs tens small shards) (init fs tens)) as (H1 & _). exact H1.
Qed.

(* the data write succeeded (run = SOk): the destination holds the complete new bytes whatever the outcome of writing
   the model file *)
Lemma ok_is_replaced fs0 tens small sc c :
  single_wf fs0 sc -> snd (run c fs0 tens small sc) = SOk ->
  exists d m, lookup (s_fs (fst (run c fs0 tens small sc))) (dest_of fs0 (sc_req sc)) = Some (File d m)
              /\ replaced_by_complete c fs0 tens sc d m.
Proof.
  intros Hwf Hok. pose proof Hwf as (H1 & H2 & H3).
  destruct (spec fs0 tens small sc Hwf c) as [(_ & Hne & _)|(d & m & s1 & HB & HA1 & HP & _)].
  - congruence.
  - exists d, m. split; [|exists s1; split; assumption].
    rewrite (InvB_lookup _ _ _ _ _ _ HB _ H2). apply lookup_insert_eq.
Qed.

Theorem model_file_failure fs0 tens small sc c :
  sc_par sc = None -> single_wf fs0 sc -> src_wf fs0 tens sc ->
  snd (run c fs0 tens small sc) = SOk ->
  (exists m, lookup (s_fs (fst (run_io c fs0 tens small sc))) (dest_of fs0 (sc_req sc))
             = Some (File (image fs0 tens (sc_tensors sc)) m))
  /\ (snd (run_io c fs0 tens small sc) = SOk \/ snd (run_io c fs0 tens small sc) = SRaise OSError
      \/ snd (run_io c fs0 tens small sc) = SCrash).
Proof.
  intros Hser Hwf Hsrc Hok. split.
  - destruct (ok_is_replaced fs0 tens small sc c Hwf Hok) as (d & m & Hl & s1 & HA & HP).
    exists m. rewrite (proj1 (run_io_fs c fs0 tens small sc)), Hl.
    rewrite (prerepl_image fs0 tens sc c s1 d m Hser Hsrc HA HP). reflexivity.
  - unfold run_io, run in *.
    destruct (after_save_model c (plan_save fs0 tens small sc) (init fs0 tens)) as (_ & _ & _ & H4). apply H4. exact Hok.
Qed.

(* and in general (either writer, any outcome of the data write): ir.save never changes more than the data-file save *)
Theorem io_interrupt_structural fs0 tens small sc c :
  single_wf fs0 sc ->
  let dest := dest_of fs0 (sc_req sc) in
  let s := fst (run_io c fs0 tens small sc) in
  lookup (s_fs s) dest = lookup fs0 dest
  \/ exists d m, lookup (s_fs s) dest = Some (File d m) /\ replaced_by_complete c fs0 tens sc d m.
Proof.
  intros Hwf. cbv zeta. rewrite (proj1 (run_io_fs c fs0 tens small sc)).
  destruct (interrupt_atomic fs0 tens small sc Hwf c) as [H|(d & m & Hl & _ & HR)]; [left; exact H|right; eauto].
Qed.

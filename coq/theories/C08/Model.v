(* C08/Model.v — executable model of the single-file external-data save
   (external_data._write_external_data, _ExternalDataWriter._write_serial, the sharded path of
   _write_external_tensors, the "load small external tensors first" step of unload_from_model)
   over a small file-system model.  Definitions only; proofs are in Proofs*.v.

   File system: association list  path -> node  (File bytes mode | Dir | Link target).
   A save is a structured program (sequence / try-finally) of atomic actions; every action that
   reaches the operating system or a tensor/callback hook is COUNTED: the run can be killed before
   it (crash_at) or it can be made to raise OSError (fault_at).  Uncounted actions are in-memory
   computations that may raise by themselves (tensor evaluation, reading the source of a copy). *)
From Coq Require Import List Bool Arith Lia NArith.
From IRV Require Import Base.Exn.
Import ListNotations.

Definition byte := N.
Definition path := list N.
Definition path_eqb (a b : path) : bool := list_eqb N.eqb a b.

Inductive node := File (data : list byte) (mode : N) | Dir | Link (target : path).

Definition fsT := list (path * node).

Fixpoint lookup (fs : fsT) (p : path) : option node :=
  match fs with
  | [] => None
  | (q, n) :: r => if path_eqb q p then Some n else lookup r p
  end.

Fixpoint delete (fs : fsT) (p : path) : fsT :=
  match fs with
  | [] => []
  | (q, n) :: r => if path_eqb q p then delete r p else (q, n) :: delete r p
  end.

Definition insert (fs : fsT) (p : path) (n : node) : fsT := (p, n) :: delete fs p.

Fixpoint is_prefix (a b : path) : bool :=
  match a, b with
  | [], _ => true
  | x :: a', y :: b' => N.eqb x y && is_prefix a' b'
  | _ :: _, [] => false
  end.

(* the path open()/stat() act on: one level of symbolic link is followed *)
Definition resolve (fs : fsT) (p : path) : path :=
  match lookup fs p with Some (Link t) => t | _ => p end.

Definition file_at (fs : fsT) (p : path) : option (list byte * N) :=
  match lookup fs (resolve fs p) with Some (File d m) => Some (d, m) | _ => None end.

Definition is_link (fs : fsT) (p : path) : bool :=
  match lookup fs p with Some (Link _) => true | _ => false end.

Definition exists_ (fs : fsT) (p : path) : bool :=
  match lookup fs (resolve fs p) with Some (File _ _) => true | Some Dir => true | _ => false end.

Definition samefile (fs : fsT) (p q : path) : bool :=
  exists_ fs p && exists_ fs q && path_eqb (resolve fs p) (resolve fs q).

Definition parent_ok (fs : fsT) (p : path) : bool :=
  match removelast p with
  | [] => true
  | d => match lookup fs d with Some Dir => true | _ => false end
  end.

Definition has_child (fs : fsT) (d : path) : bool :=
  existsb (fun e => is_prefix d (fst e) && negb (path_eqb d (fst e))) fs.

(* token 0 stands for a path component with an embedded NUL character *)
Definition has_nul (p : path) : bool := existsb (N.eqb 0) p.

(* bytes *)
Definition slice (d : list byte) (off n : nat) : list byte := firstn n (skipn off d).
Definition write_at_raw (f : list byte) (off : nat) (d : list byte) : list byte :=
  firstn off (f ++ repeat 0%N (off - length f)) ++ d ++ skipn (off + length d) f.
(* seek + write: a hole before the data reads back as zeros; an empty write changes nothing *)
Definition write_at (f : list byte) (off : nat) (d : list byte) : list byte :=
  match d with [] => f | _ => write_at_raw f off d end.

(* external tensors (handles) *)
Record tstate := { t_path : path; t_off : nat; t_len : nat; t_valid : bool;
                   t_map : option (list byte) (* contents of the memory-mapped file, if mapped *) }.

Definition set_map (t : tstate) (m : option (list byte)) : tstate :=
  {| t_path := t_path t; t_off := t_off t; t_len := t_len t; t_valid := t_valid t; t_map := m |}.
Definition set_valid (t : tstate) (v : bool) : tstate :=
  {| t_path := t_path t; t_off := t_off t; t_len := t_len t; t_valid := v; t_map := t_map t |}.

Fixpoint upd {A} (l : list A) (i : nat) (f : A -> A) : list A :=
  match l, i with
  | [], _ => []
  | x :: r, O => f x :: r
  | x :: r, S j => x :: upd r j f
  end.

(* ExternalTensor.tobytes(): validity, (re)mapping, np.frombuffer range check, slice *)
Definition read_tensor (fs : fsT) (t : tstate) : res (list byte) :=
  if negb (t_valid t) then Raise ValueError else
  if has_nul (t_path t) then Raise ValueError else
  match (match t_map t with Some d => Some d
         | None => match file_at fs (t_path t) with Some (d, _) => Some d | None => None end end) with
  | None => Raise OSError
  | Some d => if t_off t + t_len t <=? length d then Ok (slice d (t_off t) (t_len t)) else Raise ValueError
  end.

(* observable effects (the canonical log both sides produce) *)
Inductive ob :=
| OIsLink (p : path) (r : bool)
| ORealpath (p r : path)
| OMkdtemp (d : path)
| OSameFile (p q : path) (r : bool)
| OOpenW (p : path)
| OCallback (i : nat)
| OSeek (off : nat)
| OWrite (off : nat) (d : list byte)
| OClose
| ORelease (t : nat)
| OInvalidate (t : nat)
| OExists (p : path) (r : bool)
| OCopymode (src dst : path)
| OReplace (src dst : path)
| ORemove (p : path)
| ORmdir (p : path)
| OSameFileErr (p q : path)
| OOpenRW (p : path)
| OTruncate (n : nat)
| OModelSave
| OFail (cleanup : bool).   (* an injected OSError; cleanup = the failed call was os.remove/os.rmdir of the finally *)

Inductive act :=
| AIsLink (p : path)
| ARealpath (p : path)
| AMkdtemp (d : path)
| ASameFile (p q : path)
| AOpenW (p : path)
| ACallback (i : nat) (raises : option exn)   (* the progress callback; may raise any exception kind *)
| ASeek (off : nat)
| AWrite (d : list byte)
| AWriteBuf
| AClose
| ARelease (t : nat)
| AInvalidate (t : nat)
| AExists (p : path)
| ACopymode (src dst : path)
| AReplace (src dst : path)
| ARemove (p : path)
| ARmdir (p : path)
(* uncounted: in-memory computations that may raise *)
| AEvalRaise (e : exn)
| ATofileOpen (t : nat)
| ARead (t : nat) (rel n : nat)
| ACheckFull (t : nat)
| AReadT (t : nat)
| ARaiseExists
| ASameFileNul (p q : path)   (* os.path.samefile on a path with an embedded NUL: ValueError, NOT caught by
                                  _paths_refer_to_same_file (it catches OSError only) *)
| ASameFileAlias (p q : path)  (* os.path.samefile on another HARD LINK of q's inode: True.  Hard links are given
                                  statically (sc_aliases); entries of the path map are otherwise independent
                                  files, which is exact as long as nothing is written in place *)
| AReleaseHeld (t : nat)      (* ExternalTensor.release() while the caller holds a live array from tensor.numpy():
                                  mmap.close() raises BufferError (reported as OtherError), the map stays open *)
| AOpenRW (p : path)           (* open(p, "r+b"): a worker's own handle on the preallocated temporary file *)
| ATruncate (n : nat)          (* file.truncate(n) on the open handle: preallocation, the gap reads as zeros *)
| ASaveModel.                 (* _io.save: onnx.save(proto, path) - the MODEL file, written after the data file(s);
                                  the model file itself is not part of the modelled directory *)

Definition counted (a : act) : bool :=
  match a with
  | AEvalRaise _ | ATofileOpen _ | ARead _ _ _ | ACheckFull _ | AReadT _ | ARaiseExists => false
  | _ => true
  end.

Definition faultable (a : act) : bool :=
  match a with
  | AMkdtemp _ | AOpenW _ | AWrite _ | AWriteBuf | AClose | ACopymode _ _ | AReplace _ _
  | ARemove _ | ARmdir _ | AOpenRW _ | ATruncate _ | ASaveModel => true
  | _ => false
  end.

Definition is_cleanup (a : act) : bool :=
  match a with ARemove _ | ARmdir _ => true | _ => false end.

Record st := { s_fs : fsT; s_tens : list tstate; s_fd : option path; s_pos : nat;
               s_buf : list byte; s_trace : list ob (* most recent first *) }.

Definition log (o : ob) (s : st) : st :=
  {| s_fs := s_fs s; s_tens := s_tens s; s_fd := s_fd s; s_pos := s_pos s; s_buf := s_buf s;
     s_trace := o :: s_trace s |}.
Definition with_fs (s : st) (fs : fsT) : st :=
  {| s_fs := fs; s_tens := s_tens s; s_fd := s_fd s; s_pos := s_pos s; s_buf := s_buf s;
     s_trace := s_trace s |}.
Definition with_tens (s : st) (ts : list tstate) : st :=
  {| s_fs := s_fs s; s_tens := ts; s_fd := s_fd s; s_pos := s_pos s; s_buf := s_buf s;
     s_trace := s_trace s |}.
Definition with_fd (s : st) (fd : option path) (pos : nat) : st :=
  {| s_fs := s_fs s; s_tens := s_tens s; s_fd := fd; s_pos := pos; s_buf := s_buf s;
     s_trace := s_trace s |}.
Definition with_buf (s : st) (b : list byte) : st :=
  {| s_fs := s_fs s; s_tens := s_tens s; s_fd := s_fd s; s_pos := s_pos s; s_buf := b;
     s_trace := s_trace s |}.

Definition default_mode : N := 420%N. (* 0o644 under umask 022 *)

(* write d at the current position of the open handle *)
Definition do_write (s : st) (d : list byte) : st * res unit :=
  match s_fd s with
  | None => (log (OWrite (s_pos s) d) s, Raise ValueError)
  | Some q =>
      match lookup (s_fs s) q with
      | Some (File f m) =>
          (with_fd (with_fs (log (OWrite (s_pos s) d) s) (insert (s_fs s) q (File (write_at f (s_pos s) d) m)))
                   (Some q) (s_pos s + length d), Ok tt)
      | _ => (log (OWrite (s_pos s) d) s, Raise OSError)
      end
  end.

Definition sem (a : act) (s : st) : st * res unit :=
  let fs := s_fs s in
  match a with
  | AIsLink p => (log (OIsLink p (is_link fs p)) s, Ok tt)
  | ARealpath p => (log (ORealpath p (resolve fs p)) s, Ok tt)
  | AMkdtemp d =>
      match lookup fs d with
      | None => if parent_ok fs d then (with_fs (log (OMkdtemp d) s) (insert fs d Dir), Ok tt)
                else (log (OMkdtemp d) s, Raise OSError)
      | Some _ => (log (OMkdtemp d) s, Raise OSError)
      end
  | ASameFile p q => (log (OSameFile p q (samefile fs p q)) s, Ok tt)
  | AOpenW p =>
      let q := resolve fs p in
      match lookup fs q with
      | Some (File _ m) => (with_fd (with_fs (log (OOpenW p) s) (insert fs q (File [] m))) (Some q) 0, Ok tt)
      | None => if parent_ok fs q
                then (with_fd (with_fs (log (OOpenW p) s) (insert fs q (File [] default_mode))) (Some q) 0, Ok tt)
                else (log (OOpenW p) s, Raise OSError)
      | Some _ => (log (OOpenW p) s, Raise OSError)
      end
  | ACallback i raises => (log (OCallback i) s, match raises with Some e => Raise e | None => Ok tt end)
  | ASeek off =>
      match s_fd s with
      | Some q => (with_fd (log (OSeek off) s) (Some q) off, Ok tt)
      | None => (log (OSeek off) s, Raise ValueError)
      end
  | AWrite d => do_write s d
  | AWriteBuf => do_write s (s_buf s)
  | AClose => (with_fd (log OClose s) None 0, Ok tt)
  | ARelease t => (with_tens (log (ORelease t) s) (upd (s_tens s) t (fun x => set_map x None)), Ok tt)
  | AInvalidate t => (with_tens (log (OInvalidate t) s) (upd (s_tens s) t (fun x => set_valid x false)), Ok tt)
  | AExists p => (log (OExists p (exists_ fs p)) s, Ok tt)
  | ACopymode src dst =>
      match file_at fs src, lookup fs (resolve fs dst) with
      | Some (_, m), Some (File d _) =>
          (with_fs (log (OCopymode src dst) s) (insert fs (resolve fs dst) (File d m)), Ok tt)
      | _, _ => (log (OCopymode src dst) s, Raise OSError)
      end
  | AReplace src dst =>
      match lookup fs src, lookup fs dst with
      | Some (File d m), Some Dir => (log (OReplace src dst) s, Raise OSError)
      | Some (File d m), _ =>
          (with_fs (log (OReplace src dst) s) (insert (delete fs src) dst (File d m)), Ok tt)
      | _, _ => (log (OReplace src dst) s, Raise OSError)
      end
  | ARemove p =>
      match lookup fs p with
      | None => (log (ORemove p) s, Ok tt)           (* FileNotFoundError, suppressed *)
      | Some Dir => (log (ORemove p) s, Raise OSError)
      | Some _ => (with_fs (log (ORemove p) s) (delete fs p), Ok tt)
      end
  | ARmdir p =>
      match lookup fs p with
      | None => (log (ORmdir p) s, Ok tt)            (* FileNotFoundError, suppressed *)
      | Some Dir => if has_child fs p then (log (ORmdir p) s, Raise OSError)
                    else (with_fs (log (ORmdir p) s) (delete fs p), Ok tt)
      | Some _ => (log (ORmdir p) s, Raise OSError)
      end
  | AEvalRaise e => (s, Raise e)
  | ATofileOpen t =>
      match nth_error (s_tens s) t with
      | None => (s, Raise OtherError)
      | Some x => if negb (t_valid x) then (s, Raise ValueError)
                  else match file_at fs (t_path x) with Some _ => (s, Ok tt) | None => (s, Raise OSError) end
      end
  | ARead t rel n =>
      match nth_error (s_tens s) t with
      | None => (s, Raise OtherError)
      | Some x =>
          match file_at fs (t_path x) with
          | None => (s, Raise OSError)
          | Some (d, _) =>
              match slice d (t_off x + rel) n with
              | [] => (s, Raise OSError)              (* "shorter than expected" *)
              | b => (with_buf s b, Ok tt)
              end
          end
      end
  | ACheckFull t =>
      match nth_error (s_tens s) t with
      | None => (s, Raise OtherError)
      | Some x =>
          match file_at fs (t_path x) with
          | None => (s, Raise OSError)
          | Some (d, _) => if t_off x + t_len x <=? length d then (s, Ok tt) else (s, Raise OSError)
          end
      end
  | AReadT t =>
      match nth_error (s_tens s) t with
      | None => (s, Raise OtherError)
      | Some x => match read_tensor fs x with Ok _ => (s, Ok tt) | Raise e => (s, Raise e) end
      end
  | ARaiseExists => (s, Raise OSError)
  | ASameFileNul p q => (log (OSameFileErr p q) s, Raise ValueError)
  | ASameFileAlias p q => (log (OSameFile p q true) s, Ok tt)
  | AReleaseHeld t => (log (ORelease t) s, Raise OtherError)
  | AOpenRW p =>
      let q := resolve fs p in
      match lookup fs q with
      | Some (File _ _) => (with_fd (log (OOpenRW p) s) (Some q) 0, Ok tt)
      | _ => (log (OOpenRW p) s, Raise OSError)
      end
  | ATruncate n =>
      match s_fd s with
      | None => (log (OTruncate n) s, Raise ValueError)
      | Some q =>
          match lookup fs q with
          | Some (File f m) =>
              (with_fs (log (OTruncate n) s) (insert fs q (File (firstn n (f ++ repeat 0%N (n - length f))) m)), Ok tt)
          | _ => (log (OTruncate n) s, Raise OSError)
          end
      end
  | ASaveModel => (log OModelSave s, Ok tt)
  end.

(* Exception kinds.  The shared enum (Base/Exn.v) reports everything outside the listed Exception classes
   as OtherError; in this property's inputs those are the BaseException-only kinds KeyboardInterrupt /
   SystemExit (Ctrl-C in a callback, sys.exit() in a lazily evaluated tensor) raised by tensors and callbacks,
   and the BufferError of AReleaseHeld.
   `try ... finally` (PTry) runs its handler for every kind; an `except Exception` handler would not run
   for the kinds with is_base_exception = true.  _write_external_data uses `finally`. *)
Definition is_base_exception (e : exn) : bool := match e with OtherError => true | _ => false end.

(* ---- interruption control *)
Inductive sig := SOk | SRaise (e : exn) | SCrash.
Record ctl := { crash_at : option nat; fault_at : option nat }.

Definition at_idx (o : option nat) (n : nat) : bool :=
  match o with Some k => Nat.eqb k n | None => false end.

Definition commit (r : st * res unit) : st * sig :=
  match r with (s', Ok _) => (s', SOk) | (s', Raise e) => (s', SRaise e) end.

Definition perform (c : ctl) (a : act) (s : st) : st * sig :=
  if counted a then
    if at_idx (crash_at c) (length (s_trace s)) then (s, SCrash)
    else if at_idx (fault_at c) (length (s_trace s)) && faultable a then (log (OFail (is_cleanup a)) s, SRaise OSError)
    else commit (sem a s)
  else commit (sem a s).

Inductive prog :=
| PActs (l : list act)
| PSeq (a b : prog)
| PTry (body fin : prog).

Fixpoint exec_acts (c : ctl) (l : list act) (s : st) : st * sig :=
  match l with
  | [] => (s, SOk)
  | a :: r => match perform c a s with
              | (s', SOk) => exec_acts c r s'
              | other => other
              end
  end.

Fixpoint exec (c : ctl) (p : prog) (s : st) : st * sig :=
  match p with
  | PActs l => exec_acts c l s
  | PSeq a b => match exec c a s with
                | (s', SOk) => exec c b s'
                | other => other
                end
  | PTry b f =>
      match exec c b s with
      | (s1, SCrash) => (s1, SCrash)
      | (s1, SOk) => exec c f s1
      | (s1, SRaise e) => match exec c f s1 with
                          | (s2, SOk) => (s2, SRaise e)
                          | other => other
                          end
      end
  end.

(* ---- the plan of a save *)
Inductive tspec :=
| TMem (d : list byte)
| TExt (h : nat)
| TLazyRaise (e : exn)
| TMulti (chunks : list (list byte)) (raise_after : option nat) (e : exn).

Record scn := {
  sc_req : path;                       (* os.path.join(base_dir, relative_path) *)
  sc_tmpd : path;                      (* what tempfile.mkdtemp returns (contract: fresh) *)
  sc_tensors : list (nat * tspec);     (* (offset, tensor) in write order *)
  sc_chunk : nat;                      (* _core._EXTERNAL_TENSOR_COPY_CHUNK_SIZE *)
  sc_cb : option (option (nat * exn)); (* no callback | callback (raising e at index j) *)
  sc_cbbase : nat;                     (* global index of the first tensor of this file (sharded saves) *)
  sc_aliases : list path;              (* other hard links of the destination's inode (realpaths) *)
  sc_held : list nat;                  (* mapped external tensors of which the caller holds a live numpy view *)
  sc_par : option nat;                 (* Some total: _write_parallel (max_workers > 1 and more than one tensor),
                                          total = size the temporary file is preallocated to *)
}.

Fixpoint chunk_plan (fuel rel remaining c : nat) : list (nat * nat) :=
  match fuel with
  | O => []
  | S f => if remaining =? 0 then []
           else let n := Nat.min c remaining in (rel, n) :: chunk_plan f (rel + n) (remaining - n) c
  end.

Fixpoint multi_acts (chunks : list (list byte)) (ra : option nat) (e : exn) : list act :=
  match ra with
  | Some O => [AEvalRaise e]
  | _ => match chunks with
         | [] => []
         | ch :: r => AWrite ch :: multi_acts r (match ra with Some (S j) => Some j | _ => None end) e
         end
  end.

Definition tofile_acts (tens : list tstate) (c : nat) (sp : tspec) : list act :=
  match sp with
  | TMem d => [AWrite d]
  | TExt h =>
      let len := match nth_error tens h with Some x => t_len x | None => 0 end in
      ATofileOpen h
      :: flat_map (fun rn => [ARead h (fst rn) (snd rn); AWriteBuf]) (chunk_plan len 0 len c)
      ++ [ACheckFull h]
  | TLazyRaise e => [AEvalRaise e]
  | TMulti chunks ra e => multi_acts chunks ra e
  end.

Definition cb_acts (cb : option (option (nat * exn))) (i : nat) : list act :=
  match cb with
  | None => []
  | Some None => [ACallback i None]
  | Some (Some (j, e)) => [ACallback i (if Nat.eqb i j then Some e else None)]
  end.

Fixpoint tensors_acts (tens : list tstate) (c : nat) (cb : option (option (nat * exn))) (i : nat)
         (l : list (nat * tspec)) : list act :=
  match l with
  | [] => []
  | (off, sp) :: r => cb_acts cb i ++ ASeek off :: tofile_acts tens c sp ++ tensors_acts tens c cb (S i) r
  end.

Definition ext_handles (l : list (nat * tspec)) : list nat :=
  flat_map (fun x => match snd x with TExt h => [h] | _ => [] end) l.

Definition tpath (tens : list tstate) (h : nat) : path :=
  match nth_error tens h with Some x => t_path x | None => [] end.

Definition dest_of (fs : fsT) (req : path) : path := if is_link fs req then resolve fs req else req.
Definition tmpf_of (sc : scn) (dest : path) : path := sc_tmpd sc ++ [last dest 0%N].

Definition is_alias (fs : fsT) (sc : scn) (p : path) : bool :=
  existsb (path_eqb (resolve fs p)) (sc_aliases sc).

(* tensors that pass os.path.samefile with the destination: released before the rename *)
Definition overwritten (fs : fsT) (tens : list tstate) (sc : scn) : list nat :=
  filter (fun h => samefile fs (tpath tens h) (dest_of fs (sc_req sc)) || is_alias fs sc (tpath tens h))
         (ext_handles (sc_tensors sc)).

(* ... of which only those whose own path IS the destination are invalidated afterwards:
   os.path.realpath(tensor.path) == os.path.realpath(destination_path) *)
Definition realpath_is_dest (fs : fsT) (tens : list tstate) (sc : scn) (h : nat) : bool :=
  path_eqb (resolve fs (tpath tens h)) (dest_of fs (sc_req sc)).
Definition invalidated (fs : fsT) (tens : list tstate) (sc : scn) : list nat :=
  filter (realpath_is_dest fs tens sc) (overwritten fs tens sc).

Definition probe_act (fs : fsT) (tens : list tstate) (sc : scn) (h : nat) : act :=
  let p := tpath tens h in
  let dest := dest_of fs (sc_req sc) in
  if has_nul p then ASameFileNul p dest
  else if is_alias fs sc p then ASameFileAlias p dest else ASameFile p dest.

Definition plan_post (fs : fsT) (tens : list tstate) (sc : scn) : list act :=
  ARealpath (dest_of fs (sc_req sc))
  :: flat_map (fun h => ARealpath (tpath tens h)
                        :: (if realpath_is_dest fs tens sc h then [AInvalidate h] else []))
              (overwritten fs tens sc).

Definition plan_pre (fs : fsT) (tens : list tstate) (sc : scn) : list act :=
  let dest := dest_of fs (sc_req sc) in
  AIsLink (sc_req sc) :: (if is_link fs (sc_req sc) then [ARealpath (sc_req sc)] else [])
  ++ map (probe_act fs tens sc) (ext_handles (sc_tensors sc))
  ++ [AMkdtemp (sc_tmpd sc)].

Definition rel_act (sc : scn) (h : nat) : act :=
  if existsb (Nat.eqb h) (sc_held sc) then AReleaseHeld h else ARelease h.

Definition plan_tail (fs : fsT) (tens : list tstate) (sc : scn) : list act :=
  let dest := dest_of fs (sc_req sc) in
  map (rel_act sc) (overwritten fs tens sc)
  ++ AExists dest :: (if exists_ fs dest then [ACopymode dest (tmpf_of sc dest)] else [])
  ++ [AReplace (tmpf_of sc dest) dest].

(* the writer proper, from the creation of the temporary file to the last close of a handle on it *)
Definition writer_serial (tens : list tstate) (sc : scn) (tmpf : path) : prog :=
  PSeq (PActs [AOpenW tmpf])
       (PTry (PActs (tensors_acts tens (sc_chunk sc) (sc_cb sc) (sc_cbbase sc) (sc_tensors sc)))
             (PActs [AClose])).

(* _write_parallel under the maximally serialised schedule (one task at a time, in submission order, all on one
   worker): preallocate and close; the first task opens the worker's r+b handle after its callback; every later
   task reuses it; the handle is closed in the finally.  Before the handle exists there is nothing to close, so
   the finally-close is scoped from the open on.  (Other schedules: C09; here the code path matters.) *)
Definition writer_parallel (tens : list tstate) (sc : scn) (tmpf : path) (total : nat) : prog :=
  PSeq (PSeq (PActs [AOpenW tmpf]) (PTry (PActs [ATruncate total]) (PActs [AClose])))
       (match sc_tensors sc with
        | [] => PActs []
        | (off0, sp0) :: r =>
            PSeq (PActs (cb_acts (sc_cb sc) (sc_cbbase sc)))
                 (PSeq (PActs [AOpenRW tmpf])
                       (PTry (PActs (ASeek off0 :: tofile_acts tens (sc_chunk sc) sp0
                                     ++ tensors_acts tens (sc_chunk sc) (sc_cb sc) (S (sc_cbbase sc)) r))
                             (PActs [AClose])))
        end).

Definition writer (tens : list tstate) (sc : scn) (tmpf : path) : prog :=
  match sc_par sc with
  | Some total => writer_parallel tens sc tmpf total
  | None => writer_serial tens sc tmpf
  end.

Definition plan_single (fs : fsT) (tens : list tstate) (sc : scn) : prog :=
  let dest := dest_of fs (sc_req sc) in
  let tmpf := tmpf_of sc dest in
  PSeq (PActs (plan_pre fs tens sc))
   (PSeq (PTry (PSeq (writer tens sc tmpf)
                     (PActs (plan_tail fs tens sc)))
               (PActs [ARemove tmpf; ARmdir (sc_tmpd sc)]))
         (PActs (plan_post fs tens sc))).

(* unload_from_model: small external tensors are read into memory and released first *)
Definition plan_small (small : list nat) : list act :=
  flat_map (fun h => [AReadT h; ARelease h]) small.

Definition plan_save (fs : fsT) (tens : list tstate) (small : list nat) (sc : scn) : prog :=
  PSeq (PActs (plan_small small)) (plan_single fs tens sc).

(* sharded path: pre-flight refusal, then one single-file write per shard *)
Fixpoint plan_shards (fs : fsT) (tens : list tstate) (shards : list scn) : prog :=
  match shards with
  | [] => PActs []
  | sc :: r => PSeq (plan_single fs tens sc) (plan_shards fs tens r)
  end.

Definition plan_sharded (fs : fsT) (tens : list tstate) (small : list nat) (shards : list scn) : prog :=
  PSeq (PActs (plan_small small))
    (if existsb (fun sc => exists_ fs (sc_req sc)) shards
     then PActs (map (fun sc => AExists (sc_req sc)) shards ++ [ARaiseExists])
     else PSeq (PActs (map (fun sc => AExists (sc_req sc)) shards)) (plan_shards fs tens shards)).

Definition init (fs : fsT) (tens : list tstate) : st :=
  {| s_fs := fs; s_tens := tens; s_fd := None; s_pos := 0; s_buf := []; s_trace := [] |}.

Definition run (c : ctl) (fs : fsT) (tens : list tstate) (small : list nat) (sc : scn) : st * sig :=
  exec c (plan_save fs tens small sc) (init fs tens).
Definition run_sharded (c : ctl) (fs : fsT) (tens : list tstate) (small : list nat) (shards : list scn)
  : st * sig := exec c (plan_sharded fs tens small shards) (init fs tens).

(* ir.save as the entry point: the data file(s), then the model file *)
Definition run_io (c : ctl) (fs : fsT) (tens : list tstate) (small : list nat) (sc : scn) : st * sig :=
  exec c (PSeq (plan_save fs tens small sc) (PActs [ASaveModel])) (init fs tens).
Definition run_sharded_io (c : ctl) (fs : fsT) (tens : list tstate) (small : list nat) (shards : list scn)
  : st * sig := exec c (PSeq (plan_sharded fs tens small shards) (PActs [ASaveModel])) (init fs tens).

Definition no_ctl : ctl := {| crash_at := None; fault_at := None |}.
Definition run_prefix (k : nat) := run {| crash_at := Some k; fault_at := None |}.
Definition run_with_fault (k : nat) := run {| crash_at := None; fault_at := Some k |}.

(* the complete new bytes: every tensor's bytes at its offset over an empty file *)
Definition tensor_bytes (fs : fsT) (tens : list tstate) (sp : tspec) : list byte :=
  match sp with
  | TMem d => d
  | TExt h => match nth_error tens h with
              | Some x => match file_at fs (t_path x) with
                          | Some (d, _) => slice d (t_off x) (t_len x)
                          | None => []
                          end
              | None => []
              end
  | TLazyRaise _ => []
  | TMulti chunks _ _ => concat chunks
  end.

Definition image (fs : fsT) (tens : list tstate) (l : list (nat * tspec)) : list byte :=
  fold_left (fun f x => write_at f (fst x) (tensor_bytes fs tens (snd x))) l [].

(* ---- comparison helpers used by the generated case files *)
Definition node_eqb (a b : node) : bool :=
  match a, b with
  | File d m, File d' m' => list_eqb N.eqb d d' && N.eqb m m'
  | Dir, Dir => true
  | Link t, Link t' => path_eqb t t'
  | _, _ => false
  end.

Definition fs_eqb (model observed : fsT) : bool :=
  Nat.eqb (length model) (length observed)
  && forallb (fun e => option_eqb node_eqb (lookup model (fst e)) (Some (snd e))) observed.

Definition ob_eqb (a b : ob) : bool :=
  match a, b with
  | OIsLink p r, OIsLink p' r' => path_eqb p p' && Bool.eqb r r'
  | ORealpath p r, ORealpath p' r' => path_eqb p p' && path_eqb r r'
  | OMkdtemp d, OMkdtemp d' => path_eqb d d'
  | OSameFile p q r, OSameFile p' q' r' => path_eqb p p' && path_eqb q q' && Bool.eqb r r'
  | OOpenW p, OOpenW p' => path_eqb p p'
  | OCallback i, OCallback i' => Nat.eqb i i'
  | OSeek o, OSeek o' => Nat.eqb o o'
  | OWrite o d, OWrite o' d' => Nat.eqb o o' && list_eqb N.eqb d d'
  | OClose, OClose => true
  | ORelease t, ORelease t' => Nat.eqb t t'
  | OInvalidate t, OInvalidate t' => Nat.eqb t t'
  | OExists p r, OExists p' r' => path_eqb p p' && Bool.eqb r r'
  | OCopymode a1 b1, OCopymode a2 b2 => path_eqb a1 a2 && path_eqb b1 b2
  | OReplace a1 b1, OReplace a2 b2 => path_eqb a1 a2 && path_eqb b1 b2
  | ORemove p, ORemove p' => path_eqb p p'
  | ORmdir p, ORmdir p' => path_eqb p p'
  | OSameFileErr p q, OSameFileErr p' q' => path_eqb p p' && path_eqb q q'
  | OOpenRW p, OOpenRW p' => path_eqb p p'
  | OTruncate n, OTruncate n' => Nat.eqb n n'
  | OModelSave, OModelSave => true
  | OFail a1, OFail a2 => Bool.eqb a1 a2
  | _, _ => false
  end.

Definition sig_eqb (a b : sig) : bool :=
  match a, b with
  | SOk, SOk => true
  | SCrash, SCrash => true
  | SRaise e, SRaise f => exn_eqb e f
  | _, _ => false
  end.

(* observation after an interrupted run: outcome, trace, directory, per-tensor (valid, tobytes) *)
Definition tens_obs (s : st) : list (bool * res (list byte)) :=
  map (fun t => (t_valid t, read_tensor (s_fs s) t)) (s_tens s).

Definition tobs_eqb (a b : bool * res (list byte)) : bool :=
  Bool.eqb (fst a) (fst b) && res_eqb (list_eqb N.eqb) (snd a) (snd b).

Definition agree_full (r : st * sig) (o_sig : sig) (o_trace : list ob) (o_fs : fsT)
           (o_tens : list (bool * res (list byte))) : bool :=
  sig_eqb (snd r) o_sig && list_eqb ob_eqb (rev (s_trace (fst r))) o_trace
  && fs_eqb (s_fs (fst r)) o_fs && list_eqb tobs_eqb (tens_obs (fst r)) o_tens.

Definition agree_fs (r : st * sig) (o_sig : sig) (o_fs : fsT) : bool :=
  sig_eqb (snd r) o_sig && fs_eqb (s_fs (fst r)) o_fs.

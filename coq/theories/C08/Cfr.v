(* C08/Cfr.v — ExternalTensor.tofile on regular files: the copy_file_range loop with its userspace fallback.
   The kernel may copy fewer bytes than requested (short copy), report 0 (end of the source), or fail; the answers
   are an arbitrary input stream.  [avail] = bytes the source holds from the tensor's offset on, [n] = the tensor's
   length, [chunk] = _EXTERNAL_TENSOR_COPY_CHUNK_SIZE. *)
From Coq Require Import List Bool Arith Lia.
Import ListNotations.

Inductive answer :=
| KCopy (cap : nat)        (* the kernel copies min(cap, requested, available) bytes *)
| KErrFallback             (* OSError with errno in {EINVAL, ENOSYS, EOPNOTSUPP, EPERM, EXDEV}: use the userspace loop *)
| KErrFatal.               (* any other OSError: propagates *)

Inductive outcome :=
| COk (kernel user : nat)          (* returned normally: bytes copied by the kernel loop, by the userspace loop *)
| CRaise (kernel user : nat).      (* raised OSError after having copied that much *)

(* while copied < n: k = copy_file_range(min(2^30, n - copied)); if k == 0: break; copied += k
   (the 2^30 cap of a single request is an instance of a short copy and is not modelled separately) *)
Fixpoint kernel_loop (ans : list answer) (avail n copied : nat) : nat * bool (* fatal? *) :=
  match ans with
  | [] => (copied, false)
  | a :: r =>
      if n <=? copied then (copied, false)
      else match a with
           | KCopy cap =>
               let k := Nat.min cap (Nat.min (n - copied) (avail - copied)) in
               if k =? 0 then (copied, false) else kernel_loop r avail n (copied + k)
           | KErrFallback => (copied, false)
           | KErrFatal => (copied, true)
           end
  end.

(* src.seek(off + copied); while remaining > 0: chunk = src.read(min(chunk, remaining)); if not chunk: raise; write *)
Definition user_loop (avail n chunk copied : nat) : nat * bool (* raised? *) :=
  let remaining := n - copied in
  if remaining =? 0 then (0, false)
  else if chunk =? 0 then (0, true)
  else if remaining <=? avail - copied then (remaining, false)
  else (avail - copied, true).

Definition tofile_fast (ans : list answer) (avail n chunk : nat) : outcome :=
  let '(k, fatal) := kernel_loop ans avail n 0 in
  if fatal then CRaise k 0
  else let '(u, raised) := user_loop avail n chunk k in
       if raised then CRaise k u else COk k u.

Lemma kernel_inv ans avail n : forall copied,
  copied <= n -> copied <= avail ->
  let r := fst (kernel_loop ans avail n copied) in r <= n /\ r <= avail /\ copied <= r.
Proof.
  induction ans as [|a r IH]; intros copied H1 H2; simpl; [lia|].
  destruct (n <=? copied) eqn:E; simpl; [lia|]. apply Nat.leb_gt in E.
  destruct a as [cap| |]; simpl; try lia.
  destruct (Nat.min cap (Nat.min (n - copied) (avail - copied)) =? 0) eqn:Ek; simpl; [lia|].
  specialize (IH (copied + Nat.min cap (Nat.min (n - copied) (avail - copied))) ltac:(lia) ltac:(lia)).
  simpl in IH. lia.
Qed.

Lemma kernel_not_fatal ans avail n : forall copied,
  Forall (fun a => a <> KErrFatal) ans -> snd (kernel_loop ans avail n copied) = false.
Proof.
  induction ans as [|a r IH]; intros copied H; simpl; [reflexivity|].
  inversion H as [|? ? Ha Hr]; subst.
  destruct (n <=? copied); simpl; [reflexivity|].
  destruct a as [cap| |]; simpl; try reflexivity; [|congruence].
  destruct (Nat.min cap (Nat.min (n - copied) (avail - copied)) =? 0); simpl; [reflexivity|apply IH; exact Hr].
Qed.

(* returns normally only after exactly [n] bytes were copied, which needs the source to hold them *)
Theorem tofile_fast_complete ans avail n chunk k u :
  tofile_fast ans avail n chunk = COk k u -> k + u = n /\ n <= avail.
Proof.
  unfold tofile_fast. pose proof (kernel_inv ans avail n 0 ltac:(lia) ltac:(lia)) as Hinv. simpl in Hinv.
  destruct (kernel_loop ans avail n 0) as [k0 fatal]. simpl in Hinv. destruct fatal; [discriminate|].
  unfold user_loop. destruct (n - k0 =? 0) eqn:E0.
  - apply Nat.eqb_eq in E0. intros H; inversion H; subst. lia.
  - destruct (chunk =? 0); [discriminate|]. destruct (n - k0 <=? avail - k0) eqn:E1; [|discriminate].
    apply Nat.leb_le in E1. intros H; inversion H; subst. lia.
Qed.

(* hence a source shorter than offset+length always makes tofile raise, whatever the kernel answers *)
Corollary tofile_fast_short_source_raises ans avail n chunk :
  avail < n -> exists k u, tofile_fast ans avail n chunk = CRaise k u.
Proof.
  intros H. destruct (tofile_fast ans avail n chunk) as [k u|k u] eqn:E; [|eauto].
  apply tofile_fast_complete in E. lia.
Qed.

(* and a long enough source is copied completely whatever short copies / fallbacks the kernel chooses *)
Theorem tofile_fast_total ans avail n chunk :
  n <= avail -> 0 < chunk -> Forall (fun a => a <> KErrFatal) ans ->
  exists k u, tofile_fast ans avail n chunk = COk k u.
Proof.
  intros Hn Hc Ha. unfold tofile_fast.
  pose proof (kernel_inv ans avail n 0 ltac:(lia) ltac:(lia)) as Hinv. simpl in Hinv.
  pose proof (kernel_not_fatal ans avail n 0 Ha) as Hf.
  destruct (kernel_loop ans avail n 0) as [k0 fatal]. simpl in *. subst fatal.
  unfold user_loop. destruct (n - k0 =? 0); [eauto|].
  destruct (chunk =? 0) eqn:Ec; [apply Nat.eqb_eq in Ec; lia|].
  destruct (n - k0 <=? avail - k0) eqn:E1; [eauto|]. apply Nat.leb_gt in E1. lia.
Qed.

(* comparison helper for the generated case files *)
Definition outcome_eqb (a b : outcome) : bool :=
  match a, b with
  | COk k u, COk k' u' => Nat.eqb k k' && Nat.eqb u u'
  | CRaise k u, CRaise k' u' => Nat.eqb k k' && Nat.eqb u u'
  | _, _ => false
  end.

(* C08/Proofs8.v — the parallel writer produces the same bytes as the serial one: writing into a file preallocated
   with zeros up to [n] is writing into the unpadded file and padding afterwards, as long as every range lies
   within [n]. *)
From Coq Require Import List Bool Arith Lia NArith.
From IRV Require Import Base.Exn C08.Model C08.Proofs6.
Import ListNotations.

Definition pad (f : list byte) (n : nat) : list byte := f ++ repeat 0%N (n - length f).
Notation get l i := (nth i l 0%N).

Lemma nth_firstn' {A} (d : A) : forall n i l, i < n -> nth i (firstn n l) d = nth i l d.
Proof.
  induction n as [|n IH]; intros i l H; [lia|]. destruct l as [|x l]; [destruct i; reflexivity|].
  destruct i; simpl; [reflexivity|apply IH; lia].
Qed.
Lemma nth_skipn' {A} (d : A) : forall n i l, nth i (skipn n l) d = nth (n + i) l d.
Proof.
  induction n as [|n IH]; intros i l; [reflexivity|]. destruct l as [|x l]; simpl; [destruct i; reflexivity|apply IH].
Qed.
Lemma nth_repeat0 : forall k i, get (repeat 0%N k) i = 0%N.
Proof. induction k as [|k IH]; intros [|i]; simpl; auto. Qed.
Lemma get_app_zeros l k i : get (l ++ repeat 0%N k) i = get l i.
Proof.
  destruct (lt_dec i (length l)).
  - apply app_nth1. assumption.
  - rewrite app_nth2 by lia. rewrite nth_repeat0. symmetry. apply nth_overflow. lia.
Qed.

Lemma get_write_raw f off d i :
  get (write_at_raw f off d) i =
  if i <? off then get f i else if i <? off + length d then get d (i - off) else get f i.
Proof.
  unfold write_at_raw.
  assert (HP : length (firstn off (f ++ repeat 0%N (off - length f))) = off).
  { rewrite firstn_length, app_length, repeat_length. lia. }
  destruct (i <? off) eqn:E1.
  - apply Nat.ltb_lt in E1. rewrite app_nth1 by lia. rewrite nth_firstn' by lia. apply get_app_zeros.
  - apply Nat.ltb_ge in E1. rewrite app_nth2 by lia. rewrite HP.
    destruct (i <? off + length d) eqn:E2.
    + apply Nat.ltb_lt in E2. rewrite app_nth1 by lia. reflexivity.
    + apply Nat.ltb_ge in E2. rewrite app_nth2 by lia. rewrite nth_skipn'. f_equal. lia.
Qed.

Lemma write_raw_length f off d :
  length (write_at_raw f off d) = Nat.max (length f) (off + length d).
Proof.
  unfold write_at_raw. rewrite !app_length, firstn_length, skipn_length, app_length, repeat_length. lia.
Qed.

Lemma write_at_pad f off d n :
  off + length d <= n -> write_at (pad f n) off d = pad (write_at f off d) n.
Proof.
  intros H. destruct d as [|x d]; [reflexivity|].
  change (write_at_raw (pad f n) off (x :: d) = pad (write_at_raw f off (x :: d)) n).
  assert (Lp : forall g, length (pad g n) = Nat.max (length g) n).
  { intros g. unfold pad. rewrite app_length, repeat_length. lia. }
  apply nth_ext with (d := 0%N) (d' := 0%N).
  - rewrite write_raw_length, !Lp, write_raw_length. lia.
  - intros i _. unfold pad at 2. rewrite get_app_zeros, !get_write_raw. unfold pad. rewrite !get_app_zeros. reflexivity.
Qed.

Definition within (fs0 : fsT) (tens : list tstate) (n : nat) (x : nat * tspec) : Prop :=
  fst x + length (tensor_bytes fs0 tens (snd x)) <= n.

Lemma image_from_pad fs0 tens n l : forall f,
  Forall (within fs0 tens n) l ->
  image_from fs0 tens (pad f n) l = pad (image_from fs0 tens f l) n.
Proof.
  induction l as [|x r IH]; intros f H; [reflexivity|].
  inversion H as [|? ? Hx Hr]; subst. unfold image_from in *. simpl.
  rewrite write_at_pad by exact Hx. apply IH. exact Hr.
Qed.

(* the bytes of the parallel writer are the serial image padded with zeros up to the preallocated size; when the
   preallocated size is the end of the last range they are the serial image itself *)
Theorem parallel_image_is_serial_image fs0 tens total l :
  Forall (within fs0 tens total) l ->
  image_from fs0 tens (repeat 0%N total) l = pad (image fs0 tens l) total.
Proof.
  intros H. replace (repeat 0%N total) with (pad [] total) by (unfold pad; simpl; rewrite Nat.sub_0_r; reflexivity).
  unfold image. fold (image_from fs0 tens [] l). apply image_from_pad. exact H.
Qed.

Corollary parallel_image_eq fs0 tens total l :
  Forall (within fs0 tens total) l -> total <= length (image fs0 tens l) ->
  image_from fs0 tens (repeat 0%N total) l = image fs0 tens l.
Proof.
  intros H Hl. rewrite parallel_image_is_serial_image by exact H. unfold pad.
  replace (total - length (image fs0 tens l)) with 0 by lia. apply app_nil_r.
Qed.

From IRV Require Import C08.Proofs5.

Lemma interrupt_atomic_parallel_serial_image fs0 tens small sc c total :
  sc_par sc = Some total ->
  single_wf fs0 sc -> src_wf fs0 tens sc ->
  Forall (within fs0 tens total) (sc_tensors sc) -> total <= length (image fs0 tens (sc_tensors sc)) ->
  let dest := dest_of fs0 (sc_req sc) in
  let s := fst (run c fs0 tens small sc) in
  lookup (s_fs s) dest = lookup fs0 dest
  \/ exists m, lookup (s_fs s) dest = Some (File (image fs0 tens (sc_tensors sc)) m)
       /\ In (OReplace (tmpf_of sc dest) dest) (s_trace s).
Proof.
  intros Hpar Hwf Hsrc Hin Hlen. cbv zeta.
  rewrite <- (parallel_image_eq fs0 tens total (sc_tensors sc) Hin Hlen).
  exact (interrupt_atomic_image_par fs0 tens small sc c total Hpar Hwf Hsrc).
Qed.

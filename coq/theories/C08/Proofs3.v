(* C08/Proofs3.v — invariants of the single-file save: shape of the temporary area, trace growth,
   validity flags. *)
From Coq Require Import List Bool Arith Lia NArith.
From IRV Require Import Base.Exn C08.Model C08.Proofs1 C08.Proofs2.
Import ListNotations.

Section Single.
  Variable tmpd tmpf dest : path.
  Definition T (p : path) : bool := is_prefix tmpd p.
  Hypothesis T_tmpd : T tmpd = true.
  Hypothesis T_tmpf : T tmpf = true.
  Hypothesis tmp_ne : tmpf <> tmpd.
  Hypothesis T_dest : T dest = false.

  Definition TShape (s : st) : Prop :=
    forall p, T p = true ->
      lookup (s_fs s) p = None
      \/ (p = tmpd /\ lookup (s_fs s) p = Some Dir)
      \/ (p = tmpf /\ exists d m, lookup (s_fs s) p = Some (File d m)).

  Definition okT (a : act) : bool :=
    match a with
    | AMkdtemp d => path_eqb d tmpd
    | AOpenW p => path_eqb p tmpf
    | ACopymode _ dst => path_eqb dst tmpf
    | ARemove p => path_eqb p tmpf
    | ARmdir p => path_eqb p tmpd
    | AOpenRW p => path_eqb p tmpf
    | AReplace _ _ => false
    | _ => true
    end.

  Lemma okT_safe a : okT a = true -> safeS T a = true.
  Proof.
    destruct a; simpl; intros H; try reflexivity; try discriminate;
      apply path_eqb_eq in H; subst; assumption.
  Qed.

  Lemma TShape_same s s' : s_fs s' = s_fs s -> TShape s -> TShape s'.
  Proof. intros E H p Hp. rewrite E. apply H. exact Hp. Qed.

  Lemma TShape_insert s s' p n :
    (p = tmpd /\ n = Dir) \/ (p = tmpf /\ exists d m, n = File d m) ->
    s_fs s' = insert (s_fs s) p n -> TShape s -> TShape s'.
  Proof.
    intros Hpn E H q Hq. rewrite E. destruct (path_eqb p q) eqn:Epq.
    - apply path_eqb_eq in Epq. subst q. rewrite lookup_insert_eq.
      destruct Hpn as [[-> ->]|[-> (d & m & ->)]]; [right; left; auto | right; right; eauto].
    - rewrite lookup_insert_ne; [apply H; exact Hq | apply path_eqb_false; exact Epq].
  Qed.

  Lemma TShape_delete s s' p : s_fs s' = delete (s_fs s) p -> TShape s -> TShape s'.
  Proof.
    intros E H q Hq. rewrite E. destruct (path_eqb p q) eqn:Epq.
    - apply path_eqb_eq in Epq. subst q. rewrite lookup_delete_eq. left; reflexivity.
    - rewrite lookup_delete_ne; [apply H; exact Hq | apply path_eqb_false; exact Epq].
  Qed.

  Variable base : fsT.
  Definition SInv (s : st) : Prop := FInv base T s /\ TShape s.

  Lemma fd_is_tmpf s q d m :
    SInv s -> s_fd s = Some q -> lookup (s_fs s) q = Some (File d m) -> q = tmpf.
  Proof.
    intros [(_ & H2 & _) HT] Hq Hl. specialize (H2 q Hq). destruct (HT q H2) as [E|[[_ E]|[E _]]].
    - congruence.
    - congruence.
    - exact E.
  Qed.

  Lemma do_write_TShape s d : SInv s -> TShape (fst (do_write s d)).
  Proof.
    intros HI. pose proof HI as [_ HT]. unfold do_write. destruct (s_fd s) as [q|] eqn:Efd.
    - destruct (lookup (s_fs s) q) as [[f m| |t]|] eqn:El; simpl;
        try (eapply TShape_same; [|exact HT]; reflexivity).
      eapply TShape_insert with (p := q) (n := File (write_at f (s_pos s) d) m); [|reflexivity|exact HT].
      right. split; [eapply fd_is_tmpf; eauto | eauto].
    - simpl. eapply TShape_same; [|exact HT]; reflexivity.
  Qed.

  Lemma sem_TShape a s : okT a = true -> SInv s -> TShape (fst (sem a s)).
  Proof.
    intros Hok HI. pose proof HI as [HF HT].
    destruct a as [p|p|d|p q|p|i raises|off|d| | |t|t|p|src dst|src dst|p|p|e|t|t rel n|t|t| |p q|p q|t|p|n| ];
      simpl in *; try (eapply TShape_same; [|exact HT]; reflexivity); try discriminate.
    - apply path_eqb_eq in Hok. subst d.
      destruct (lookup (s_fs s) tmpd) eqn:E; [eapply TShape_same; [|exact HT]; reflexivity|].
      destruct (parent_ok (s_fs s) tmpd); simpl.
      + eapply TShape_insert with (p := tmpd) (n := Dir); [left; auto|reflexivity|exact HT].
      + eapply TShape_same; [|exact HT]; reflexivity.
    - apply path_eqb_eq in Hok. subst p. rewrite (resolve_S base T s tmpf HF T_tmpf).
      destruct (lookup (s_fs s) tmpf) as [[f m| |t]|] eqn:E; simpl.
      + eapply TShape_insert with (p := tmpf) (n := File [] m); [right; eauto|reflexivity|exact HT].
      + eapply TShape_same; [|exact HT]; reflexivity.
      + eapply TShape_same; [|exact HT]; reflexivity.
      + destruct (parent_ok (s_fs s) tmpf); simpl.
        * eapply TShape_insert with (p := tmpf) (n := File [] default_mode); [right; eauto|reflexivity|exact HT].
        * eapply TShape_same; [|exact HT]; reflexivity.
    - destruct (s_fd s); simpl; eapply TShape_same; try exact HT; reflexivity.
    - apply do_write_TShape; exact HI.
    - apply do_write_TShape; exact HI.
    - apply path_eqb_eq in Hok. subst dst. rewrite (resolve_S base T s tmpf HF T_tmpf).
      destruct (file_at (s_fs s) src) as [[d0 m]|]; [|eapply TShape_same; [|exact HT]; reflexivity].
      destruct (lookup (s_fs s) tmpf) as [[f m'| |t]|] eqn:E; simpl;
        try (eapply TShape_same; [|exact HT]; reflexivity).
      eapply TShape_insert with (p := tmpf) (n := File f m); [right; eauto|reflexivity|exact HT].
    - destruct (lookup (s_fs s) p) as [[d m| |t]|] eqn:E; simpl;
        try (eapply TShape_same; [|exact HT]; reflexivity);
        (eapply TShape_delete; [|exact HT]; reflexivity).
    - destruct (lookup (s_fs s) p) as [[d m| |t]|] eqn:E; simpl;
        try (eapply TShape_same; [|exact HT]; reflexivity).
      destruct (has_child (s_fs s) p); simpl.
      + eapply TShape_same; [|exact HT]; reflexivity.
      + eapply TShape_delete; [|exact HT]; reflexivity.
    - destruct (nth_error (s_tens s) t); simpl; [|exact HT].
      destruct (negb (t_valid t0)); simpl; [exact HT|].
      destruct (file_at (s_fs s) (t_path t0)); exact HT.
    - destruct (nth_error (s_tens s) t); simpl; [|exact HT].
      destruct (file_at (s_fs s) (t_path t0)) as [[d m]|]; simpl; [|exact HT].
      destruct (slice d (t_off t0 + rel) n); simpl; [exact HT|].
      eapply TShape_same; [|exact HT]; reflexivity.
    - destruct (nth_error (s_tens s) t); simpl; [|exact HT].
      destruct (file_at (s_fs s) (t_path t0)) as [[d m]|]; simpl; [|exact HT].
      destruct (t_off t0 + t_len t0 <=? length d); exact HT.
    - destruct (nth_error (s_tens s) t); simpl; [|exact HT].
      destruct (read_tensor (s_fs s) t0); exact HT.
    - apply path_eqb_eq in Hok. subst p. rewrite (resolve_S base T s tmpf HF T_tmpf).
      destruct (lookup (s_fs s) tmpf) as [[f m| |t]|] eqn:E; simpl; eapply TShape_same; try exact HT; reflexivity.
    - destruct (s_fd s) as [q|] eqn:Efd; [|eapply TShape_same; [|exact HT]; reflexivity].
      destruct (lookup (s_fs s) q) as [[f m| |t]|] eqn:El; simpl;
        try (eapply TShape_same; [|exact HT]; reflexivity).
      eapply TShape_insert with (p := q) (n := File (firstn n (f ++ repeat 0%N (n - length f))) m); [|reflexivity|exact HT].
      right. split; [eapply fd_is_tmpf; eauto | eauto].
  Qed.

  Lemma sem_SInv a s : okT a = true -> SInv s -> SInv (fst (sem a s)).
  Proof.
    intros Hok HI. split; [apply sem_FInv; [apply okT_safe; exact Hok | exact (proj1 HI)] | apply sem_TShape; assumption].
  Qed.

  Lemma SInv_log o s : SInv s -> SInv (log o s).
  Proof. intros [HF HT]. split; [apply FInv_log; exact HF | eapply TShape_same; [|exact HT]; reflexivity]. Qed.
End Single.

(* ---- the trace only grows, and only AReplace logs OReplace *)
Definition is_replace (a : act) : bool := match a with AReplace _ _ => true | _ => false end.
Definition is_invalidate (a : act) : bool := match a with AInvalidate _ => true | _ => false end.

Lemma do_write_trace s d : s_trace (fst (do_write s d)) = OWrite (s_pos s) d :: s_trace s.
Proof.
  unfold do_write. destruct (s_fd s); [|reflexivity]. destruct (lookup (s_fs s) p) as [[| |]|]; reflexivity.
Qed.

Lemma sem_trace a s :
  s_trace (fst (sem a s)) = s_trace s \/ exists o, s_trace (fst (sem a s)) = o :: s_trace s
     /\ (is_replace a = false -> forall x y, o <> OReplace x y) /\ (forall b, o <> OFail b).
Proof.
  destruct a as [p|p|d|p q|p|i raises|off|d| | |t|t|p|src dst|src dst|p|p|e|t|t rel n|t|t| |p q|p q|t|p|n| ]; simpl;
    try (right; eexists; split; [reflexivity|split; [intros; discriminate|intros; discriminate]]);
    try (left; reflexivity).
  - destruct (lookup (s_fs s) d); [|destruct (parent_ok (s_fs s) d)]; simpl;
      right; eexists; (split; [reflexivity|split; intros; discriminate]).
  - destruct (lookup (s_fs s) (resolve (s_fs s) p)) as [[| |]|]; [| | |destruct (parent_ok (s_fs s) (resolve (s_fs s) p))];
      simpl; right; eexists; (split; [reflexivity|split; intros; discriminate]).
  - destruct (s_fd s); simpl; right; eexists; (split; [reflexivity|split; intros; discriminate]).
  - right. rewrite do_write_trace. eexists; (split; [reflexivity|split; intros; discriminate]).
  - right. rewrite do_write_trace. eexists; (split; [reflexivity|split; intros; discriminate]).
  - destruct (file_at (s_fs s) src) as [[? ?]|]; [destruct (lookup (s_fs s) (resolve (s_fs s) dst)) as [[| |]|]|];
      simpl; right; eexists; (split; [reflexivity|split; intros; discriminate]).
  - destruct (lookup (s_fs s) src) as [[| |]|]; [destruct (lookup (s_fs s) dst) as [[| |]|]| | |];
      simpl; right; eexists; (split; [reflexivity|split; intros; discriminate]).
  - destruct (lookup (s_fs s) p) as [[| |]|]; simpl; right; eexists; (split; [reflexivity|split; intros; discriminate]).
  - destruct (lookup (s_fs s) p) as [[| |]|]; [|destruct (has_child (s_fs s) p)| |];
      simpl; right; eexists; (split; [reflexivity|split; intros; discriminate]).
  - left. destruct (nth_error (s_tens s) t); [|reflexivity]. destruct (negb (t_valid t0)); [reflexivity|].
    destruct (file_at (s_fs s) (t_path t0)); reflexivity.
  - left. destruct (nth_error (s_tens s) t); [|reflexivity].
    destruct (file_at (s_fs s) (t_path t0)) as [[? ?]|]; [|reflexivity].
    destruct (slice l (t_off t0 + rel) n); reflexivity.
  - left. destruct (nth_error (s_tens s) t); [|reflexivity].
    destruct (file_at (s_fs s) (t_path t0)) as [[? ?]|]; [|reflexivity].
    destruct (t_off t0 + t_len t0 <=? length l); reflexivity.
  - left. destruct (nth_error (s_tens s) t); [|reflexivity]. destruct (read_tensor (s_fs s) t0); reflexivity.
  - destruct (lookup (s_fs s) (resolve (s_fs s) p)) as [[| |]|]; simpl;
      right; eexists; (split; [reflexivity|split; intros; discriminate]).
  - destruct (s_fd s) as [q|]; [destruct (lookup (s_fs s) q) as [[| |]|]|]; simpl;
      right; eexists; (split; [reflexivity|split; intros; discriminate]).
Qed.

Lemma sem_trace_mono a s o : In o (s_trace s) -> In o (s_trace (fst (sem a s))).
Proof.
  intros H. destruct (sem_trace a s) as [E|(o' & E & _)]; rewrite E; [exact H | right; exact H].
Qed.

Lemma sem_norepl a s :
  is_replace a = false -> (forall x y, ~ In (OReplace x y) (s_trace s)) ->
  forall x y, ~ In (OReplace x y) (s_trace (fst (sem a s))).
Proof.
  intros Ha H x y. destruct (sem_trace a s) as [E|(o' & E & Hn & _)]; rewrite E; [apply H|].
  intros [X|X]; [eapply Hn; eauto | eapply H; eauto].
Qed.

Lemma sem_nofail a s b : ~ In (OFail b) (s_trace s) -> ~ In (OFail b) (s_trace (fst (sem a s))).
Proof.
  intros H. destruct (sem_trace a s) as [E|(o' & E & _ & Hn)]; rewrite E; [exact H|].
  intros [X|X]; [eapply Hn; eauto | auto].
Qed.

(* ---- validity flags change only in AInvalidate *)
Definition valids (s : st) : list bool := map t_valid (s_tens s).

Lemma map_upd_same {A B} (g : A -> B) (f : A -> A) l : forall i, (forall x, g (f x) = g x) -> map g (upd l i f) = map g l.
Proof.
  induction l as [|x r IH]; intros [|i] H; simpl; try reflexivity; [rewrite H; reflexivity | rewrite IH; auto].
Qed.

Lemma do_write_tens s d : s_tens (fst (do_write s d)) = s_tens s.
Proof.
  unfold do_write. destruct (s_fd s); [|reflexivity]. destruct (lookup (s_fs s) p) as [[| |]|]; reflexivity.
Qed.

Lemma sem_valids a s : is_invalidate a = false -> valids (fst (sem a s)) = valids s.
Proof.
  intros Ha. unfold valids.
  destruct a as [p|p|d|p q|p|i raises|off|d| | |t|t|p|src dst|src dst|p|p|e|t|t rel n|t|t| |p q|p q|t|p|n| ]; simpl in *;
    try reflexivity; try discriminate.
  - destruct (lookup (s_fs s) d); [|destruct (parent_ok (s_fs s) d)]; reflexivity.
  - destruct (lookup (s_fs s) (resolve (s_fs s) p)) as [[| |]|]; [| | |destruct (parent_ok (s_fs s) (resolve (s_fs s) p))];
      reflexivity.
  - destruct (s_fd s); reflexivity.
  - rewrite do_write_tens. reflexivity.
  - rewrite do_write_tens. reflexivity.
  - apply map_upd_same. reflexivity.
  - destruct (file_at (s_fs s) src) as [[? ?]|]; [destruct (lookup (s_fs s) (resolve (s_fs s) dst)) as [[| |]|]|];
      reflexivity.
  - destruct (lookup (s_fs s) src) as [[| |]|]; [destruct (lookup (s_fs s) dst) as [[| |]|]| | |]; reflexivity.
  - destruct (lookup (s_fs s) p) as [[| |]|]; reflexivity.
  - destruct (lookup (s_fs s) p) as [[| |]|]; [|destruct (has_child (s_fs s) p)| |]; reflexivity.
  - destruct (nth_error (s_tens s) t); [|reflexivity]. destruct (negb (t_valid t0)); [reflexivity|].
    destruct (file_at (s_fs s) (t_path t0)); reflexivity.
  - destruct (nth_error (s_tens s) t); [|reflexivity].
    destruct (file_at (s_fs s) (t_path t0)) as [[? ?]|]; [|reflexivity].
    destruct (slice l (t_off t0 + rel) n); reflexivity.
  - destruct (nth_error (s_tens s) t); [|reflexivity].
    destruct (file_at (s_fs s) (t_path t0)) as [[? ?]|]; [|reflexivity].
    destruct (t_off t0 + t_len t0 <=? length l); reflexivity.
  - destruct (nth_error (s_tens s) t); [|reflexivity]. destruct (read_tensor (s_fs s) t0); reflexivity.
  - destruct (lookup (s_fs s) (resolve (s_fs s) p)) as [[| |]|]; reflexivity.
  - destruct (s_fd s) as [q|]; [destruct (lookup (s_fs s) q) as [[| |]|]|]; reflexivity.
Qed.

(* ---- the table of external tensors: only release (unmap) and invalidate touch it *)
Definition trel (t' t : tstate) : Prop :=
  t_path t' = t_path t /\ t_off t' = t_off t /\ t_len t' = t_len t /\ t_valid t' = t_valid t
  /\ (t_map t' = t_map t \/ t_map t' = None).

Lemma trel_refl t : trel t t.
Proof. unfold trel. repeat split; auto. Qed.

Lemma Forall2_upd {A B} (R : A -> B -> Prop) (f : A -> A) :
  (forall x y, R x y -> R (f x) y) ->
  forall l l0 i, Forall2 R l l0 -> Forall2 R (upd l i f) l0.
Proof.
  intros Hf l l0 i H. revert i. induction H as [|x y l l0 Hxy H IH]; intros i; simpl; [constructor|].
  destruct i; constructor; auto.
Qed.

Lemma sem_tens a s :
  is_invalidate a = false ->
  s_tens (fst (sem a s)) = s_tens s
  \/ exists t, s_tens (fst (sem a s)) = upd (s_tens s) t (fun x => set_map x None).
Proof.
  intros Ha.
  destruct a as [p|p|d|p q|p|i raises|off|d| | |t|t|p|src dst|src dst|p|p|e|t|t rel n|t|t| |p q|p q|t|p|n| ]; simpl in *;
    try (left; reflexivity); try discriminate.
  - left. destruct (lookup (s_fs s) d); [|destruct (parent_ok (s_fs s) d)]; reflexivity.
  - left. destruct (lookup (s_fs s) (resolve (s_fs s) p)) as [[| |]|]; [| | |destruct (parent_ok (s_fs s) (resolve (s_fs s) p))];
      reflexivity.
  - left. destruct (s_fd s); reflexivity.
  - left. apply do_write_tens.
  - left. apply do_write_tens.
  - right. exists t. reflexivity.
  - left. destruct (file_at (s_fs s) src) as [[? ?]|]; [destruct (lookup (s_fs s) (resolve (s_fs s) dst)) as [[| |]|]|];
      reflexivity.
  - left. destruct (lookup (s_fs s) src) as [[| |]|]; [destruct (lookup (s_fs s) dst) as [[| |]|]| | |]; reflexivity.
  - left. destruct (lookup (s_fs s) p) as [[| |]|]; reflexivity.
  - left. destruct (lookup (s_fs s) p) as [[| |]|]; [|destruct (has_child (s_fs s) p)| |]; reflexivity.
  - left. destruct (nth_error (s_tens s) t); [|reflexivity]. destruct (negb (t_valid t0)); [reflexivity|].
    destruct (file_at (s_fs s) (t_path t0)); reflexivity.
  - left. destruct (nth_error (s_tens s) t); [|reflexivity].
    destruct (file_at (s_fs s) (t_path t0)) as [[? ?]|]; [|reflexivity].
    destruct (slice l (t_off t0 + rel) n); reflexivity.
  - left. destruct (nth_error (s_tens s) t); [|reflexivity].
    destruct (file_at (s_fs s) (t_path t0)) as [[? ?]|]; [|reflexivity].
    destruct (t_off t0 + t_len t0 <=? length l); reflexivity.
  - left. destruct (nth_error (s_tens s) t); [|reflexivity]. destruct (read_tensor (s_fs s) t0); reflexivity.
  - left. destruct (lookup (s_fs s) (resolve (s_fs s) p)) as [[| |]|]; reflexivity.
  - left. destruct (s_fd s) as [q|]; [destruct (lookup (s_fs s) q) as [[| |]|]|]; reflexivity.
Qed.

Lemma sem_trel tens a s :
  is_invalidate a = false -> Forall2 trel (s_tens s) tens -> Forall2 trel (s_tens (fst (sem a s))) tens.
Proof.
  intros Ha H. destruct (sem_tens a s Ha) as [E|(t & E)]; rewrite E; [exact H|].
  apply Forall2_upd; [|exact H]. intros x y (H1 & H2 & H3 & H4 & H5). unfold trel. simpl. repeat split; auto.
Qed.

(* a tensor related to its initial state reads the same bytes from the same file system, provided its
   initial mapping (if any) showed the file's content *)
Lemma read_trel fs t' t :
  trel t' t ->
  (forall d, t_map t = Some d -> exists m, file_at fs (t_path t) = Some (d, m)) ->
  read_tensor fs t' = read_tensor fs t.
Proof.
  intros (H1 & H2 & H3 & H4 & H5) Hc. unfold read_tensor. rewrite H1, H2, H3, H4.
  destruct (negb (t_valid t)); [reflexivity|].
  destruct H5 as [E|E]; rewrite E; [reflexivity|].
  destruct (t_map t) as [d|] eqn:Em; [|reflexivity].
  destruct (Hc d eq_refl) as (m & Hf). rewrite Hf. reflexivity.
Qed.

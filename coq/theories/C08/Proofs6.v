(* C08/Proofs6.v — what the completely written temporary file holds: for saves whose tensors are
   in-memory, lazy or third-party multi-chunk tensors (no ExternalTensor input) it is exactly
   [image]: every tensor's bytes at its offset over an empty file. *)
From Coq Require Import List Bool Arith Lia NArith.
From IRV Require Import Base.Exn C08.Model C08.Proofs1 C08.Proofs2 C08.Proofs3 C08.Proofs4 C08.Proofs5.
Import ListNotations.

Lemma skipn_app_exact {A} (l r : list A) n : skipn (length l + n) (l ++ r) = skipn n r.
Proof. induction l; simpl; [reflexivity|exact IHl]. Qed.

Lemma write_at_app f off a b :
  write_at (write_at f off a) (off + length a) b = write_at f off (a ++ b).
Proof.
  unfold write_at.
  set (P := firstn off (f ++ repeat 0%N (off - length f))).
  assert (HP : length P = off).
  { unfold P. rewrite firstn_length, app_length, repeat_length. lia. }
  set (R := skipn (off + length a) f).
  assert (Hg : length (P ++ a ++ R) >= off + length a).
  { rewrite !app_length. lia. }
  replace (off + length a - length (P ++ a ++ R)) with 0 by lia. simpl repeat. rewrite app_nil_r.
  assert (E1 : firstn (off + length a) (P ++ a ++ R) = P ++ a).
  { rewrite <- HP at 1. rewrite firstn_app_2. f_equal.
    replace (length a) with (length a + 0) at 1 by lia. rewrite firstn_app_2. simpl. apply app_nil_r. }
  rewrite E1.
  assert (E2 : skipn (off + length a + length b) (P ++ a ++ R) = skipn (off + length (a ++ b)) f).
  { rewrite app_assoc. replace (off + length a + length b) with (length (P ++ a) + length b) by (rewrite app_length; lia).
    rewrite skipn_app_exact. unfold R. rewrite skipn_skipn. f_equal. rewrite app_length. lia. }
  rewrite E2. rewrite <- !app_assoc. reflexivity.
Qed.

Lemma perform_ok c a s s' : perform c a s = (s', SOk) -> sem a s = (s', Ok tt).
Proof.
  unfold perform. intros H.
  assert (X : commit (sem a s) = (s', SOk) -> sem a s = (s', Ok tt)).
  { destruct (sem a s) as [s2 [[]|e]]; simpl; intros Y; inversion Y; reflexivity. }
  destruct (counted a); [|auto].
  destruct (at_idx (crash_at c) (length (s_trace s))); [discriminate|].
  destruct (at_idx (fault_at c) (length (s_trace s)) && faultable a); [discriminate|auto].
Qed.

Definition no_ext (sp : tspec) : bool := match sp with TExt _ => false | _ => true end.

Section Image.
  Variable fs0 : fsT.
  Variable tens : list tstate.
  Variable tmpf : path.

  Definition Cont (f : list byte) (s : st) : Prop :=
    s_fd s = Some tmpf /\ exists m, lookup (s_fs s) tmpf = Some (File f m).

  Lemma do_write_Cont f s d s' :
    Cont f s -> do_write s d = (s', Ok tt) -> Cont (write_at f (s_pos s) d) s' /\ s_pos s' = s_pos s + length d.
  Proof.
    intros [Hfd (m & Hl)] H. unfold do_write in H. rewrite Hfd, Hl in H. inversion H; subst. simpl.
    split; [split; [reflexivity|]|reflexivity]. exists m. apply lookup_insert_eq.
  Qed.

  Lemma multi_Cont c chunks : forall ra f s s',
    Cont f s -> exec_acts c (multi_acts chunks ra) s = (s', SOk) ->
    Cont (write_at f (s_pos s) (concat chunks)) s'.
  Proof.
    induction chunks as [|ch r IH]; intros ra f s s' HC H.
    - destruct ra as [[|j]|]; simpl in H.
      + unfold perform in H. simpl in H. discriminate.
      + inversion H; subst. simpl. destruct HC as [Hfd (m & Hl)]. split; [exact Hfd|]. exists m.
        unfold write_at. simpl. rewrite app_nil_r.
        rewrite Hl. f_equal. f_equal.
        destruct (le_lt_dec (s_pos s') (length f)).
        * replace (s_pos s' - length f) with 0 by lia. simpl. rewrite app_nil_r. apply firstn_skipn.
        * admit.
      + admit.
    - admit.
  Abort.
End Image.

(* C08/Proofs6.v — what the completely written temporary file holds: for saves whose tensors are
   in-memory, lazy or third-party multi-chunk tensors (no ExternalTensor among the inputs) it is
   exactly [image]: every tensor's bytes at its offset over an empty file. *)
From Coq Require Import List Bool Arith Lia NArith.
From IRV Require Import Base.Exn C08.Model C08.Proofs1 C08.Proofs2 C08.Proofs3 C08.Proofs4 C08.Proofs5.
Import ListNotations.

Lemma skipn_app_exact {A} (l r : list A) n : skipn (length l + n) (l ++ r) = skipn n r.
Proof. induction l; simpl; [reflexivity|exact IHl]. Qed.

Lemma skipn_skipn' {A} (l : list A) : forall y x, skipn x (skipn y l) = skipn (y + x) l.
Proof.
  induction l as [|a l IH]; intros y x.
  - rewrite !skipn_nil. reflexivity.
  - destruct y; simpl; [reflexivity|apply IH].
Qed.

Lemma write_raw_app f off a b :
  write_at_raw (write_at_raw f off a) (off + length a) b = write_at_raw f off (a ++ b).
Proof.
  unfold write_at_raw.
  set (P := firstn off (f ++ repeat 0%N (off - length f))).
  assert (HP : length P = off).
  { unfold P. rewrite firstn_length, app_length, repeat_length. lia. }
  set (R := skipn (off + length a) f).
  assert (Hg : length (P ++ a ++ R) >= off + length a).
  { rewrite !app_length. lia. }
  replace (off + length a - length (P ++ a ++ R)) with 0 by lia. simpl repeat. rewrite app_nil_r.
  assert (E1 : firstn (off + length a) (P ++ a ++ R) = P ++ a).
  { rewrite <- HP at 1. rewrite firstn_app_2. f_equal.
    replace (length a) with (length a + 0) at 1 by lia. rewrite firstn_app_2. simpl. apply app_nil_r. }
  rewrite E1.
  assert (E2 : skipn (off + length a + length b) (P ++ a ++ R) = skipn (off + length (a ++ b)) f).
  { rewrite app_assoc. replace (off + length a + length b) with (length (P ++ a) + length b) by (rewrite app_length; lia).
    rewrite skipn_app_exact. unfold R. rewrite skipn_skipn'. f_equal. rewrite app_length. lia. }
  rewrite E2. rewrite <- !app_assoc. reflexivity.
Qed.

Lemma write_at_app f off a b :
  write_at (write_at f off a) (off + length a) b = write_at f off (a ++ b).
Proof.
  destruct a as [|x a].
  - simpl. rewrite Nat.add_0_r. reflexivity.
  - destruct b as [|y b].
    + rewrite app_nil_r. reflexivity.
    + change (write_at (write_at f off (x :: a)) (off + length (x :: a)) (y :: b))
        with (write_at_raw (write_at_raw f off (x :: a)) (off + length (x :: a)) (y :: b)).
      rewrite write_raw_app. reflexivity.
Qed.

Lemma perform_ok c a s s' : perform c a s = (s', SOk) -> sem a s = (s', Ok tt).
Proof.
  unfold perform. intros H.
  assert (X : commit (sem a s) = (s', SOk) -> sem a s = (s', Ok tt)).
  { destruct (sem a s) as [s2 [[]|e]]; simpl; intros Y; inversion Y; reflexivity. }
  destruct (counted a); [|auto].
  destruct (at_idx (crash_at c) (length (s_trace s))); [discriminate|].
  destruct (at_idx (fault_at c) (length (s_trace s)) && faultable a); [discriminate|auto].
Qed.

Lemma exec_acts_cons_ok c a r s s' :
  exec_acts c (a :: r) s = (s', SOk) -> exists s1, sem a s = (s1, Ok tt) /\ exec_acts c r s1 = (s', SOk).
Proof.
  rewrite exec_acts_cons. destruct (perform c a s) as [s1 [ |e| ]] eqn:E; try discriminate.
  intros H. exists s1. split; [apply (perform_ok c); exact E | exact H].
Qed.

Lemma exec_acts_app_ok c l1 l2 s s' :
  exec_acts c (l1 ++ l2) s = (s', SOk) -> exists s1, exec_acts c l1 s = (s1, SOk) /\ exec_acts c l2 s1 = (s', SOk).
Proof.
  rewrite exec_acts_app. destruct (exec_acts c l1 s) as [s1 [ |e| ]]; try discriminate. eauto.
Qed.

Definition no_ext (x : nat * tspec) : bool := match snd x with TExt _ => false | _ => true end.

Section Image.
  Variable fs0 : fsT.
  Variable tens : list tstate.
  Variable tmpf : path.

  Definition Cont (f : list byte) (s : st) : Prop :=
    s_fd s = Some tmpf /\ exists m, lookup (s_fs s) tmpf = Some (File f m).

  Lemma do_write_Cont f s d s' :
    Cont f s -> do_write s d = (s', Ok tt) -> Cont (write_at f (s_pos s) d) s' /\ s_pos s' = s_pos s + length d.
  Proof.
    intros [Hfd (m & Hl)] H. unfold do_write in H. rewrite Hfd, Hl in H. inversion H; subst. simpl.
    split; [split; [reflexivity|]|reflexivity]. exists m. apply lookup_insert_eq.
  Qed.

  Lemma multi_Cont c chunks : forall ra f s s',
    Cont f s -> exec_acts c (multi_acts chunks ra) s = (s', SOk) ->
    Cont (write_at f (s_pos s) (concat chunks)) s'.
  Proof.
    induction chunks as [|ch r IH]; intros ra f s s' HC H.
    - destruct ra as [[|j]|]; simpl in H.
      + unfold perform in H. simpl in H. discriminate.
      + inversion H; subst. exact HC.
      + inversion H; subst. exact HC.
    - assert (Hstep : forall ra', exec_acts c (AWrite ch :: multi_acts r ra') s = (s', SOk) ->
                Cont (write_at f (s_pos s) (concat (ch :: r))) s').
      { intros ra' H'. apply exec_acts_cons_ok in H'. destruct H' as (s1 & Hs & Hr). simpl in Hs.
        destruct (do_write_Cont f s ch s1 HC Hs) as [HC1 Hp].
        pose proof (IH ra' _ s1 s' HC1 Hr) as HC2. rewrite Hp in HC2. simpl concat.
        rewrite write_at_app in HC2. exact HC2. }
      destruct ra as [[|j]|]; simpl in H.
      + unfold perform in H. simpl in H. discriminate.
      + apply (Hstep (Some j)). exact H.
      + apply (Hstep None). exact H.
  Qed.

  Lemma tofile_Cont c chunk sp f s s' :
    no_ext (0, sp) = true -> Cont f s -> exec_acts c (tofile_acts tens chunk sp) s = (s', SOk) ->
    Cont (write_at f (s_pos s) (tensor_bytes fs0 tens sp)) s'.
  Proof.
    intros Hne HC H. destruct sp as [d|h| |chunks ra]; cbn [tofile_acts tensor_bytes] in *.
    - apply exec_acts_cons_ok in H. destruct H as (s1 & Hs & Hr). simpl in Hs, Hr. inversion Hr; subst.
      apply (do_write_Cont f s d s' HC Hs).
    - discriminate.
    - simpl in H. unfold perform in H. simpl in H. discriminate.
    - eapply multi_Cont; eauto.
  Qed.

  Lemma cb_Cont c cb i f s s' : Cont f s -> exec_acts c (cb_acts cb i) s = (s', SOk) -> Cont f s'.
  Proof.
    intros HC H. destruct cb as [[j|]|]; cbn [cb_acts] in H.
    - apply exec_acts_cons_ok in H. destruct H as (s1 & Hs & Hr). simpl in Hs, Hr. inversion Hr; subst.
      destruct (Nat.eqb i j); inversion Hs; subst; exact HC.
    - apply exec_acts_cons_ok in H. destruct H as (s1 & Hs & Hr). simpl in Hs, Hr. inversion Hr; subst.
      inversion Hs; subst; exact HC.
    - inversion H; subst. exact HC.
  Qed.

  Lemma tensors_Cont c chunk cb l : forall i f s s',
    forallb no_ext l = true -> Cont f s ->
    exec_acts c (tensors_acts tens chunk cb i l) s = (s', SOk) ->
    Cont (fold_left (fun g x => write_at g (fst x) (tensor_bytes fs0 tens (snd x))) l f) s'.
  Proof.
    induction l as [|[off sp] r IH]; intros i f s s' Hne HC H.
    - simpl in H. inversion H; subst. exact HC.
    - simpl in Hne. apply andb_prop in Hne. destruct Hne as [Hn1 Hn2].
      cbn [tensors_acts] in H. apply exec_acts_app_ok in H. destruct H as (s1 & H1 & H).
      pose proof (cb_Cont c cb i f s s1 HC H1) as HC1.
      apply exec_acts_cons_ok in H. destruct H as (s2 & Hs & H).
      assert (HC2 : Cont f s2 /\ s_pos s2 = off).
      { simpl in Hs. destruct HC1 as [Hfd Hl]. rewrite Hfd in Hs. inversion Hs; subst. simpl. split; [split; [reflexivity|exact Hl]|reflexivity]. }
      destruct HC2 as [HC2 Hp].
      apply exec_acts_app_ok in H. destruct H as (s3 & H3 & H).
      pose proof (tofile_Cont c chunk sp f s2 s3 Hn1 HC2 H3) as HC3. rewrite Hp in HC3.
      simpl fold_left. eapply IH; eauto.
  Qed.
End Image.

Lemma releases_fs c l : forall s s', exec_acts c (map ARelease l) s = (s', SOk) -> s_fs s' = s_fs s.
Proof.
  induction l as [|h r IH]; intros s s' H; simpl in H.
  - inversion H; reflexivity.
  - change (exec_acts c (ARelease h :: map ARelease r) s = (s', SOk)) in H.
    apply exec_acts_cons_ok in H. destruct H as (s1 & Hs & Hr). simpl in Hs. inversion Hs; subst.
    rewrite (IH _ _ Hr). reflexivity.
Qed.

Theorem prerepl_image fs0 tens sc c s1 d m :
  InvA fs0 tens sc s1 ->
  forallb no_ext (sc_tensors sc) = true ->
  PreRepl fs0 tens sc c s1 d m ->
  d = image fs0 tens (sc_tensors sc).
Proof.
  intros HA Hne (s3 & s4 & HB1 & HT & Hl).
  set (dest := dest_of fs0 (sc_req sc)) in *.
  set (tmpf := tmpf_of sc dest) in *.
  assert (Hres : resolve (s_fs s1) tmpf = tmpf).
  { destruct HA as [[HF _] _]. apply (resolve_S fs0 (T (sc_tmpd sc)) s1 tmpf HF). apply T_tmpf. }
  unfold B1 in HB1. fold dest in HB1. fold tmpf in HB1. rewrite exec_seq, exec_pacts in HB1.
  destruct (exec_acts c [AOpenW tmpf] s1) as [s2 r2] eqn:E2.
  destruct r2; try discriminate.
  apply exec_acts_cons_ok in E2. destruct E2 as (s2' & Hs & Hr). simpl in Hr. inversion Hr; subst s2'. clear Hr.
  assert (HC2 : Cont tmpf [] s2).
  { simpl in Hs. rewrite Hres in Hs.
    destruct (lookup (s_fs s1) tmpf) as [[f0 m0| |t]|] eqn:El; try discriminate.
    - inversion Hs; subst. split; [reflexivity|]. exists m0. simpl. apply lookup_insert_eq.
    - destruct (parent_ok (s_fs s1) tmpf); try discriminate. inversion Hs; subst.
      split; [reflexivity|]. exists default_mode. simpl. apply lookup_insert_eq. }
  rewrite exec_try, !exec_pacts in HB1. unfold TENS in HB1.
  destruct (exec_acts c (tensors_acts tens (sc_chunk sc) (sc_cb sc) (sc_cbbase sc) (sc_tensors sc)) s2) as [sx rx] eqn:Ex.
  destruct rx as [ |e| ]; cbv iota beta in HB1; rewrite ?exec_pacts in HB1.
  2:{ destruct (exec_acts c [AClose] sx) as [sy [ |e'| ]]; discriminate. }
  2:{ discriminate. }
  pose proof (tensors_Cont fs0 tens tmpf c _ _ _ _ _ _ _ Hne HC2 Ex) as HCx.
  fold (image fs0 tens (sc_tensors sc)) in HCx.
  apply exec_acts_cons_ok in HB1. destruct HB1 as (s3' & Hs3 & Hr3). simpl in Hs3, Hr3.
  inversion Hr3; subst s3'. inversion Hs3; subst s3. clear Hr3 Hs3.
  destruct HCx as [_ (mx & Hlx)].
  (* the tail before the rename *)
  unfold TAILPRE in HT. fold dest in HT. fold tmpf in HT.
  apply exec_acts_app_ok in HT. destruct HT as (s5 & H5 & HT).
  apply releases_fs in H5. simpl in H5.
  apply exec_acts_cons_ok in HT. destruct HT as (s6 & Hs6 & HT). simpl in Hs6. inversion Hs6; subst s6. clear Hs6.
  destruct (exists_ fs0 dest).
  - apply exec_acts_cons_ok in HT. destruct HT as (s7 & Hs7 & HT). simpl in HT. inversion HT; subst s7. clear HT.
    simpl in Hs7. rewrite H5 in Hs7. unfold resolve in Hs7. rewrite Hlx in Hs7. cbv iota beta in Hs7.
    destruct (file_at (s_fs sx) dest) as [[d0 m0]|]; try discriminate.
    rewrite ?Hlx in Hs7. inversion Hs7; subst s4. cbn [s_fs with_fs log] in Hl. rewrite lookup_insert_eq in Hl. inversion Hl. reflexivity.
  - simpl in HT. inversion HT; subst s4. simpl in Hl. rewrite H5, Hlx in Hl. inversion Hl. reflexivity.
Qed.

Lemma crash_atomic_image :
  forall fs0 tens small sc k, single_wf fs0 sc -> forallb no_ext (sc_tensors sc) = true ->
  let dest := dest_of fs0 (sc_req sc) in
  let s := fst (run_prefix k fs0 tens small sc) in
  length (s_trace s) <= k /\
  (lookup (s_fs s) dest = lookup fs0 dest
   \/ exists m, lookup (s_fs s) dest = Some (File (image fs0 tens (sc_tensors sc)) m)
        /\ In (OReplace (tmpf_of sc dest) dest) (s_trace s)).
Proof.
  intros fs0 tens small sc k Hwf Hne. cbv zeta. split; [apply prefix_len|].
  destruct (interrupt_atomic fs0 tens small sc Hwf {| crash_at := Some k; fault_at := None |}) as [H|(d & m & Hl & Hin & s1 & HA & HP)].
  - left. exact H.
  - right. exists m. rewrite <- (prerepl_image fs0 tens sc _ s1 d m HA Hne HP). split; assumption.
Qed.

(* C08/Proofs6.v — what the completely written temporary file holds: for saves whose tensors are
   in-memory, lazy or third-party multi-chunk tensors (no ExternalTensor among the inputs) it is
   exactly [image]: every tensor's bytes at its offset over an empty file. *)
From Coq Require Import List Bool Arith Lia NArith.
From IRV Require Import Base.Exn C08.Model C08.Proofs1 C08.Proofs2 C08.Proofs3 C08.Proofs4 C08.Proofs5.
Import ListNotations.

Lemma skipn_app_exact {A} (l r : list A) n : skipn (length l + n) (l ++ r) = skipn n r.
Proof. induction l; simpl; [reflexivity|exact IHl]. Qed.

Lemma skipn_skipn' {A} (l : list A) : forall y x, skipn x (skipn y l) = skipn (y + x) l.
Proof.
  induction l as [|a l IH]; intros y x.
  - rewrite !skipn_nil. reflexivity.
  - destruct y; simpl; [reflexivity|apply IH].
Qed.

Lemma write_raw_app f off a b :
  write_at_raw (write_at_raw f off a) (off + length a) b = write_at_raw f off (a ++ b).
Proof.
  unfold write_at_raw.
  set (P := firstn off (f ++ repeat 0%N (off - length f))).
  assert (HP : length P = off).
  { unfold P. rewrite firstn_length, app_length, repeat_length. lia. }
  set (R := skipn (off + length a) f).
  assert (Hg : length (P ++ a ++ R) >= off + length a).
  { rewrite !app_length. lia. }
  replace (off + length a - length (P ++ a ++ R)) with 0 by lia. simpl repeat. rewrite app_nil_r.
  assert (E1 : firstn (off + length a) (P ++ a ++ R) = P ++ a).
  { rewrite <- HP at 1. rewrite firstn_app_2. f_equal.
    replace (length a) with (length a + 0) at 1 by lia. rewrite firstn_app_2. simpl. apply app_nil_r. }
  rewrite E1.
  assert (E2 : skipn (off + length a + length b) (P ++ a ++ R) = skipn (off + length (a ++ b)) f).
  { rewrite app_assoc. replace (off + length a + length b) with (length (P ++ a) + length b) by (rewrite app_length; lia).
    rewrite skipn_app_exact. unfold R. rewrite skipn_skipn'. f_equal. rewrite app_length. lia. }
  rewrite E2. rewrite <- !app_assoc. reflexivity.
Qed.

Lemma write_at_app f off a b :
  write_at (write_at f off a) (off + length a) b = write_at f off (a ++ b).
Proof.
  destruct a as [|x a].
  - simpl. rewrite Nat.add_0_r. reflexivity.
  - destruct b as [|y b].
    + rewrite app_nil_r. reflexivity.
    + change (write_at (write_at f off (x :: a)) (off + length (x :: a)) (y :: b))
        with (write_at_raw (write_at_raw f off (x :: a)) (off + length (x :: a)) (y :: b)).
      rewrite write_raw_app. reflexivity.
Qed.

Lemma perform_ok c a s s' : perform c a s = (s', SOk) -> sem a s = (s', Ok tt).
Proof.
  unfold perform. intros H.
  assert (X : commit (sem a s) = (s', SOk) -> sem a s = (s', Ok tt)).
  { destruct (sem a s) as [s2 [[]|e]]; simpl; intros Y; inversion Y; reflexivity. }
  destruct (counted a); [|auto].
  destruct (at_idx (crash_at c) (length (s_trace s))); [discriminate|].
  destruct (at_idx (fault_at c) (length (s_trace s)) && faultable a); [discriminate|auto].
Qed.

Lemma exec_acts_cons_ok c a r s s' :
  exec_acts c (a :: r) s = (s', SOk) -> exists s1, sem a s = (s1, Ok tt) /\ exec_acts c r s1 = (s', SOk).
Proof.
  rewrite exec_acts_cons. destruct (perform c a s) as [s1 [ |e| ]] eqn:E; try discriminate.
  intros H. exists s1. split; [apply (perform_ok c); exact E | exact H].
Qed.

Lemma exec_acts_app_ok c l1 l2 s s' :
  exec_acts c (l1 ++ l2) s = (s', SOk) -> exists s1, exec_acts c l1 s = (s1, SOk) /\ exec_acts c l2 s1 = (s', SOk).
Proof.
  rewrite exec_acts_app. destruct (exec_acts c l1 s) as [s1 [ |e| ]]; try discriminate. eauto.
Qed.


Lemma firstn_plus {A} (l : list A) : forall n m, firstn (n + m) l = firstn n l ++ firstn m (skipn n l).
Proof.
  induction l as [|a l IH]; intros n m.
  - rewrite !firstn_nil, skipn_nil, firstn_nil. reflexivity.
  - destruct n; simpl; [reflexivity|]. rewrite IH. reflexivity.
Qed.

Lemma slice_split (D : list byte) a n r :
  n <= r -> slice D a n ++ slice D (a + n) (r - n) = slice D a r.
Proof.
  intros H. unfold slice. rewrite <- (skipn_skipn' D a n).
  replace r with (n + (r - n)) at 2 by lia. rewrite firstn_plus. reflexivity.
Qed.

Lemma slice_length (D : list byte) a n : a + n <= length D -> length (slice D a n) = n.
Proof. intros H. unfold slice. rewrite firstn_length, skipn_length. lia. Qed.

Lemma Forall2_nth_l {A B} (R : A -> B -> Prop) l l0 h x :
  Forall2 R l l0 -> nth_error l h = Some x -> exists y, nth_error l0 h = Some y /\ R x y.
Proof.
  intros H. revert h. induction H as [|x0 y l l0 Hxy H IH]; intros h Hh.
  - destruct h; discriminate.
  - destruct h as [|h]; simpl in *; [inversion Hh; subst; eauto | apply IH; exact Hh].
Qed.

Section Image.
  Variable fs0 : fsT.
  Variable tens : list tstate.
  Variable sc : scn.
  Let dest := dest_of fs0 (sc_req sc).
  Let tmpd := sc_tmpd sc.
  Let tmpf := tmpf_of sc dest.

  (* the sources of the external tensors are not inside the (unpredictably named) temporary directory *)
  Definition src_wf : Prop :=
    forall h x, nth_error tens h = Some x ->
      T tmpd (t_path x) = false /\ T tmpd (resolve fs0 (t_path x)) = false.
  Hypothesis Hsrc : src_wf.

  Definition Cont (f : list byte) (s : st) : Prop :=
    s_fd s = Some tmpf /\ exists m, lookup (s_fs s) tmpf = Some (File f m).

  Lemma step_IA a s s' : okA fs0 sc a = true -> InvA fs0 tens sc s -> sem a s = (s', Ok tt) -> InvA fs0 tens sc s'.
  Proof. intros Ha HA Hs. pose proof (InvA_sem fs0 tens sc a s Ha HA) as H. rewrite Hs in H. exact H. Qed.

  Lemma acts_IA c l s s' :
    forallb (okA fs0 sc) l = true -> InvA fs0 tens sc s -> exec_acts c l s = (s', SOk) -> InvA fs0 tens sc s'.
  Proof. intros Hl HA H. pose proof (A_acts fs0 tens sc c l s Hl HA) as X. rewrite H in X. exact X. Qed.

  Lemma src_stable s h x' :
    InvA fs0 tens sc s -> nth_error (s_tens s) h = Some x' ->
    exists x, nth_error tens h = Some x /\ t_path x' = t_path x /\ t_off x' = t_off x /\ t_len x' = t_len x
              /\ file_at (s_fs s) (t_path x') = file_at fs0 (t_path x).
  Proof.
    intros HA Hn. pose proof (InvA_lookup _ _ _ _ HA) as HL. destruct HA as (_ & _ & HT).
    destruct (Forall2_nth_l _ _ _ _ _ HT Hn) as (x & Hx & (E1 & E2 & E3 & _)).
    exists x. repeat split; auto. rewrite E1. destruct (Hsrc h x Hx) as [W1 W2].
    unfold file_at, resolve in *. rewrite (HL _ W1).
    destruct (lookup fs0 (t_path x)) as [[| |tg]|]; try (rewrite (HL _ W1); reflexivity).
    rewrite (HL _ W2). reflexivity.
  Qed.

  Lemma do_write_Cont f s d s' :
    Cont f s -> do_write s d = (s', Ok tt) -> Cont (write_at f (s_pos s) d) s' /\ s_pos s' = s_pos s + length d.
  Proof.
    intros [Hfd (m & Hl)] H. unfold do_write in H. rewrite Hfd, Hl in H. inversion H; subst. simpl.
    split; [split; [reflexivity|]|reflexivity]. exists m. apply lookup_insert_eq.
  Qed.

  Lemma multi_Cont c e chunks : forall ra f s s',
    Cont f s -> exec_acts c (multi_acts chunks ra e) s = (s', SOk) ->
    Cont (write_at f (s_pos s) (concat chunks)) s'.
  Proof.
    induction chunks as [|ch r IH]; intros ra f s s' HC H.
    - destruct ra as [[|j]|]; simpl in H.
      + unfold perform in H. simpl in H. discriminate.
      + inversion H; subst. exact HC.
      + inversion H; subst. exact HC.
    - assert (Hstep : forall ra', exec_acts c (AWrite ch :: multi_acts r ra' e) s = (s', SOk) ->
                Cont (write_at f (s_pos s) (concat (ch :: r))) s').
      { intros ra' H'. apply exec_acts_cons_ok in H'. destruct H' as (s1 & Hs & Hr). simpl in Hs.
        destruct (do_write_Cont f s ch s1 HC Hs) as [HC1 Hp].
        pose proof (IH ra' _ s1 s' HC1 Hr) as HC2. rewrite Hp in HC2. simpl concat.
        rewrite write_at_app in HC2. exact HC2. }
      destruct ra as [[|j]|]; simpl in H.
      + unfold perform in H. simpl in H. discriminate.
      + apply (Hstep (Some j)). exact H.
      + apply (Hstep None). exact H.
  Qed.

  (* the chunked copy of ExternalTensor.tofile *)
  Lemma copy_Cont c h x D mD :
    nth_error tens h = Some x -> file_at fs0 (t_path x) = Some (D, mD) -> t_off x + t_len x <= length D ->
    forall fuel rel remaining f s s',
    rel + remaining <= t_len x -> remaining <= fuel -> Cont f s -> InvA fs0 tens sc s ->
    exec_acts c (flat_map (fun rn => [ARead h (fst rn) (snd rn); AWriteBuf]) (chunk_plan fuel rel remaining (sc_chunk sc))) s
      = (s', SOk) ->
    Cont (write_at f (s_pos s) (slice D (t_off x + rel) remaining)) s' /\ InvA fs0 tens sc s'
    /\ s_pos s' = s_pos s + remaining.
  Proof.
    intros Hx HD Hb. induction fuel as [|k IH]; intros rel remaining f s s' Hr Hf HC HA H.
    - assert (remaining = 0) by lia. subst remaining. simpl in H. inversion H; subst.
      unfold slice. simpl. rewrite Nat.add_0_r. auto.
    - simpl in H. destruct (remaining =? 0) eqn:E0.
      + apply Nat.eqb_eq in E0. subst remaining. simpl in H. inversion H; subst.
        unfold slice. simpl. rewrite Nat.add_0_r. auto.
      + apply Nat.eqb_neq in E0. set (n := Nat.min (sc_chunk sc) remaining) in *.
        cbn [flat_map fst snd app] in H.
        apply exec_acts_cons_ok in H. destruct H as (s1 & Hs1 & H).
        apply exec_acts_cons_ok in H. destruct H as (s2 & Hs2 & H).
        pose proof (step_IA (ARead h rel n) s s1 eq_refl HA Hs1) as HA1.
        pose proof (step_IA AWriteBuf s1 s2 eq_refl HA1 Hs2) as HA2.
        simpl in Hs1. destruct (nth_error (s_tens s) h) as [x'|] eqn:En; [|discriminate].
        destruct (src_stable s h x' HA En) as (x0 & Hx0 & P1 & P2 & P3 & P4).
        rewrite Hx in Hx0. inversion Hx0; subst x0. rewrite P4, HD, P2 in Hs1.
        destruct (slice D (t_off x + rel) n) as [|b0 b] eqn:Eb; [discriminate|].
        inversion Hs1; subst s1. clear Hs1.
        assert (Hn : n <= remaining) by (unfold n; lia).
        assert (Hlen : length (b0 :: b) = n) by (rewrite <- Eb; apply slice_length; lia).
        assert (HC1 : Cont f (with_buf s (b0 :: b))) by exact HC.
        simpl in Hs2. destruct (do_write_Cont f _ _ s2 HC1 Hs2) as [HC2 Hp2]. cbn [s_pos with_buf] in HC2, Hp2.
        assert (Hn1 : 1 <= n) by (simpl in Hlen; lia).
        destruct (IH (rel + n) (remaining - n) _ s2 s' ltac:(lia) ltac:(lia) HC2 HA2 H) as (HC3 & HA3 & Hp3).
        split; [|split; [exact HA3|rewrite Hp3, Hp2, Hlen; lia]].
        rewrite Hp2, Hlen, Nat.add_assoc in HC3. rewrite <- Hlen in HC3 at 1.
        rewrite write_at_app in HC3. rewrite <- Eb in HC3. rewrite slice_split in HC3 by exact Hn. exact HC3.
  Qed.

  Lemma loop_okA h l :
    forallb (okA fs0 sc) (flat_map (fun rn : nat * nat => [ARead h (fst rn) (snd rn); AWriteBuf]) l) = true.
  Proof. induction l as [|rn r IHr]; simpl; [reflexivity|exact IHr]. Qed.

  Lemma tofile_Cont c sp f s s' :
    Cont f s -> InvA fs0 tens sc s -> exec_acts c (tofile_acts tens (sc_chunk sc) sp) s = (s', SOk) ->
    Cont (write_at f (s_pos s) (tensor_bytes fs0 tens sp)) s' /\ InvA fs0 tens sc s'.
  Proof.
    intros HC HA H.
    assert (HA' : InvA fs0 tens sc s').
    { eapply acts_IA; [|exact HA|exact H]. eapply forallb_impl; [apply wr_okA|apply tofile_wr]. }
    split; [|exact HA'].
    destruct sp as [d|h|e|chunks ra e]; cbn [tofile_acts tensor_bytes] in *.
    - apply exec_acts_cons_ok in H. destruct H as (s1 & Hs & Hr). simpl in Hs, Hr. inversion Hr; subst.
      apply (do_write_Cont f s d s' HC Hs).
    - apply exec_acts_cons_ok in H. destruct H as (s1 & Hs1 & H).
      assert (s1 = s).
      { simpl in Hs1. destruct (nth_error (s_tens s) h) as [x'|]; [|discriminate].
        destruct (negb (t_valid x')); [discriminate|]. destruct (file_at (s_fs s) (t_path x')); inversion Hs1; reflexivity. }
      subst s1. apply exec_acts_app_ok in H. destruct H as (s2 & Hloop & Hchk).
      assert (HA2 : InvA fs0 tens sc s2).
      { eapply acts_IA; [|exact HA|exact Hloop]. apply loop_okA. }
      apply exec_acts_cons_ok in Hchk. destruct Hchk as (s3 & Hs3 & Hr3). simpl in Hr3. inversion Hr3; subst s3. clear Hr3.
      simpl in Hs3. destruct (nth_error (s_tens s2) h) as [x2|] eqn:En2; [|discriminate].
      destruct (src_stable s2 h x2 HA2 En2) as (x & Hx & P1 & P2 & P3 & P4).
      rewrite P4, P2, P3 in Hs3. destruct (file_at fs0 (t_path x)) as [[D mD]|] eqn:HD; [|discriminate].
      destruct (t_off x + t_len x <=? length D) eqn:Hb; [|discriminate]. apply Nat.leb_le in Hb.
      inversion Hs3; subst s'. clear Hs3.
      rewrite Hx in *. 
      destruct (copy_Cont c h x D mD Hx HD Hb (t_len x) 0 (t_len x) f s s2 ltac:(lia) ltac:(lia) HC HA Hloop) as (HC2 & _ & _).
      rewrite Nat.add_0_r in HC2. rewrite HD. exact HC2.
    - simpl in H. unfold perform in H. simpl in H. discriminate.
    - eapply multi_Cont; eauto.
  Qed.

  Lemma cb_Cont c cb i f s s' : Cont f s -> exec_acts c (cb_acts cb i) s = (s', SOk) -> Cont f s'.
  Proof.
    intros HC H. destruct cb as [[[j e]|]|]; cbn [cb_acts] in H.
    - apply exec_acts_cons_ok in H. destruct H as (s1 & Hs & Hr). simpl in Hs, Hr. inversion Hr; subst.
      destruct (Nat.eqb i j); inversion Hs; subst; exact HC.
    - apply exec_acts_cons_ok in H. destruct H as (s1 & Hs & Hr). simpl in Hs, Hr. inversion Hr; subst.
      inversion Hs; subst; exact HC.
    - inversion H; subst. exact HC.
  Qed.

  Lemma tensors_Cont c cb l : forall i f s s',
    Cont f s -> InvA fs0 tens sc s ->
    exec_acts c (tensors_acts tens (sc_chunk sc) cb i l) s = (s', SOk) ->
    Cont (fold_left (fun g x => write_at g (fst x) (tensor_bytes fs0 tens (snd x))) l f) s'.
  Proof.
    induction l as [|[off sp] r IH]; intros i f s s' HC HA H.
    - simpl in H. inversion H; subst. exact HC.
    - cbn [tensors_acts] in H. apply exec_acts_app_ok in H. destruct H as (s1 & H1 & H).
      pose proof (cb_Cont c cb i f s s1 HC H1) as HC1.
      assert (HA1 : InvA fs0 tens sc s1).
      { eapply acts_IA; [|exact HA|exact H1]. eapply forallb_impl; [apply wr_okA|apply cb_wr]. }
      apply exec_acts_cons_ok in H. destruct H as (s2 & Hs & H).
      pose proof (step_IA (ASeek off) s1 s2 eq_refl HA1 Hs) as HA2.
      assert (HC2 : Cont f s2 /\ s_pos s2 = off).
      { simpl in Hs. destruct HC1 as [Hfd Hl]. rewrite Hfd in Hs. inversion Hs; subst. simpl. split; [split; [reflexivity|exact Hl]|reflexivity]. }
      destruct HC2 as [HC2 Hp].
      apply exec_acts_app_ok in H. destruct H as (s3 & H3 & H).
      destruct (tofile_Cont c sp f s2 s3 HC2 HA2 H3) as [HC3 HA3]. rewrite Hp in HC3.
      simpl fold_left. eapply IH; eauto.
  Qed.
End Image.

Lemma releases_fs c sc l : forall s s', exec_acts c (map (rel_act sc) l) s = (s', SOk) -> s_fs s' = s_fs s.
Proof.
  induction l as [|h r IH]; intros s s' H; simpl in H.
  - inversion H; reflexivity.
  - change (exec_acts c (rel_act sc h :: map (rel_act sc) r) s = (s', SOk)) in H.
    apply exec_acts_cons_ok in H. destruct H as (s1 & Hs & Hr). unfold rel_act in Hs.
    destruct (existsb (Nat.eqb h) (sc_held sc)); simpl in Hs; [discriminate|]. inversion Hs; subst.
    rewrite (IH _ _ Hr). reflexivity.
Qed.

Theorem prerepl_image fs0 tens sc c s1 d m :
  sc_par sc = None ->
  src_wf fs0 tens sc ->
  InvA fs0 tens sc s1 ->
  PreRepl fs0 tens sc c s1 d m ->
  d = image fs0 tens (sc_tensors sc).
Proof.
  intros Hser Hsrc HA (s3 & s4 & HB1 & HT & Hl).
  set (dest := dest_of fs0 (sc_req sc)) in *.
  set (tmpf := tmpf_of sc dest) in *.
  assert (Hres : resolve (s_fs s1) tmpf = tmpf).
  { destruct HA as [[HF _] _]. apply (resolve_S fs0 (T (sc_tmpd sc)) s1 tmpf HF). apply T_tmpf. }
  rewrite (B1_serial fs0 tens sc Hser) in HB1. unfold B1ser in HB1. fold dest in HB1. fold tmpf in HB1.
  rewrite exec_seq, exec_pacts in HB1.
  destruct (exec_acts c [AOpenW tmpf] s1) as [s2 r2] eqn:E2.
  destruct r2; try discriminate.
  apply exec_acts_cons_ok in E2. destruct E2 as (s2' & Hs & Hr). simpl in Hr. inversion Hr; subst s2'. clear Hr.
  assert (HA2 : InvA fs0 tens sc s2).
  { eapply step_IA; [|exact HA|exact Hs]. unfold okA. simpl. fold dest. fold tmpf. rewrite path_eqb_refl. reflexivity. }
  assert (HC2 : Cont fs0 sc [] s2).
  { simpl in Hs. rewrite Hres in Hs.
    destruct (lookup (s_fs s1) tmpf) as [[f0 m0| |t]|] eqn:El; try discriminate.
    - inversion Hs; subst. split; [reflexivity|]. exists m0. simpl. apply lookup_insert_eq.
    - destruct (parent_ok (s_fs s1) tmpf); try discriminate. inversion Hs; subst.
      split; [reflexivity|]. exists default_mode. simpl. apply lookup_insert_eq. }
  rewrite exec_try, !exec_pacts in HB1. unfold TENS in HB1.
  destruct (exec_acts c (tensors_acts tens (sc_chunk sc) (sc_cb sc) (sc_cbbase sc) (sc_tensors sc)) s2) as [sx rx] eqn:Ex.
  destruct rx as [ |e| ]; cbv iota beta in HB1; rewrite ?exec_pacts in HB1.
  2:{ destruct (exec_acts c [AClose] sx) as [sy [ |e'| ]]; discriminate. }
  2:{ discriminate. }
  pose proof (tensors_Cont fs0 tens sc Hsrc c _ _ _ _ _ _ HC2 HA2 Ex) as HCx.
  fold (image fs0 tens (sc_tensors sc)) in HCx.
  apply exec_acts_cons_ok in HB1. destruct HB1 as (s3' & Hs3 & Hr3). simpl in Hs3, Hr3.
  inversion Hr3; subst s3'. inversion Hs3; subst s3. clear Hr3 Hs3.
  destruct HCx as [_ (mx & Hlx)]. fold dest in Hlx. fold tmpf in Hlx.
  unfold TAILPRE in HT. fold dest in HT. fold tmpf in HT.
  apply exec_acts_app_ok in HT. destruct HT as (s5 & H5 & HT).
  apply releases_fs in H5. simpl in H5.
  apply exec_acts_cons_ok in HT. destruct HT as (s6 & Hs6 & HT). simpl in Hs6. inversion Hs6; subst s6. clear Hs6.
  destruct (exists_ fs0 dest).
  - apply exec_acts_cons_ok in HT. destruct HT as (s7 & Hs7 & HT). simpl in HT. inversion HT; subst s7. clear HT.
    simpl in Hs7. rewrite H5 in Hs7. unfold resolve in Hs7. rewrite Hlx in Hs7. cbv iota beta in Hs7.
    destruct (file_at (s_fs sx) dest) as [[d0 m0]|]; try discriminate.
    rewrite ?Hlx in Hs7. inversion Hs7; subst s4. cbn [s_fs with_fs log] in Hl. rewrite lookup_insert_eq in Hl. inversion Hl. reflexivity.
  - simpl in HT. inversion HT; subst s4. simpl in Hl. rewrite H5, Hlx in Hl. inversion Hl. reflexivity.
Qed.

Lemma interrupt_atomic_image fs0 tens small sc c :
  sc_par sc = None ->
  single_wf fs0 sc -> src_wf fs0 tens sc ->
  let dest := dest_of fs0 (sc_req sc) in
  let s := fst (run c fs0 tens small sc) in
  lookup (s_fs s) dest = lookup fs0 dest
  \/ exists m, lookup (s_fs s) dest = Some (File (image fs0 tens (sc_tensors sc)) m)
       /\ In (OReplace (tmpf_of sc dest) dest) (s_trace s).
Proof.
  intros Hser Hwf Hsrc. cbv zeta.
  destruct (interrupt_atomic fs0 tens small sc Hwf c) as [H|(d & m & Hl & Hin & s1 & HA & HP)].
  - left. exact H.
  - right. exists m. rewrite <- (prerepl_image fs0 tens sc c s1 d m Hser Hsrc HA HP). split; assumption.
Qed.

Lemma crash_atomic_image fs0 tens small sc k :
  sc_par sc = None ->
  single_wf fs0 sc -> src_wf fs0 tens sc ->
  let dest := dest_of fs0 (sc_req sc) in
  let s := fst (run_prefix k fs0 tens small sc) in
  length (s_trace s) <= k /\
  (lookup (s_fs s) dest = lookup fs0 dest
   \/ exists m, lookup (s_fs s) dest = Some (File (image fs0 tens (sc_tensors sc)) m)
        /\ In (OReplace (tmpf_of sc dest) dest) (s_trace s)).
Proof.
  intros Hser Hwf Hsrc. cbv zeta. split; [apply prefix_len|].
  apply (interrupt_atomic_image fs0 tens small sc _ Hser Hwf Hsrc).
Qed.

(* ---- the parallel writer: preallocation to [total] zero bytes, then the same writes through an r+b handle *)
Definition image_from (fs0 : fsT) (tens : list tstate) (f0 : list byte) (l : list (nat * tspec)) : list byte :=
  fold_left (fun g x => write_at g (fst x) (tensor_bytes fs0 tens (snd x))) l f0.

Lemma firstn_repeat_all {A} (x : A) n : firstn n (repeat x n) = repeat x n.
Proof. rewrite <- (repeat_length x n) at 1. apply firstn_all. Qed.

Theorem prerepl_image_par fs0 tens sc c s1 d m total :
  sc_par sc = Some total ->
  src_wf fs0 tens sc ->
  InvA fs0 tens sc s1 ->
  PreRepl fs0 tens sc c s1 d m ->
  d = image_from fs0 tens (repeat 0%N total) (sc_tensors sc).
Proof.
  intros Hpar Hsrc HA (s3 & s4 & HB1 & HT & Hl).
  set (dest := dest_of fs0 (sc_req sc)) in *.
  set (tmpf := tmpf_of sc dest) in *.
  assert (Hres : forall s, InvA fs0 tens sc s -> resolve (s_fs s) tmpf = tmpf).
  { intros s [[HF _] _]. apply (resolve_S fs0 (T (sc_tmpd sc)) s tmpf HF). apply T_tmpf. }
  unfold B1, writer in HB1. rewrite Hpar in HB1. unfold writer_parallel in HB1. fold dest in HB1. fold tmpf in HB1.
  rewrite exec_seq in HB1.
  (* preallocation *)
  destruct (exec c (PSeq (PActs [AOpenW tmpf]) (PTry (PActs [ATruncate total]) (PActs [AClose]))) s1) as [sp rp] eqn:Ep.
  destruct rp; try discriminate.
  rewrite exec_seq, exec_pacts in Ep.
  destruct (exec_acts c [AOpenW tmpf] s1) as [s2 r2] eqn:E2. destruct r2; try discriminate.
  apply exec_acts_cons_ok in E2. destruct E2 as (s2' & Hs & Hr). simpl in Hr. inversion Hr; subst s2'. clear Hr.
  assert (HA2 : InvA fs0 tens sc s2).
  { eapply step_IA; [|exact HA|exact Hs]. apply okA_openw. }
  assert (HC2 : Cont fs0 sc [] s2).
  { simpl in Hs. rewrite (Hres s1 HA) in Hs.
    destruct (lookup (s_fs s1) tmpf) as [[f0 m0| |t]|] eqn:El; try discriminate.
    - inversion Hs; subst. split; [reflexivity|]. exists m0. simpl. apply lookup_insert_eq.
    - destruct (parent_ok (s_fs s1) tmpf); try discriminate. inversion Hs; subst.
      split; [reflexivity|]. exists default_mode. simpl. apply lookup_insert_eq. }
  rewrite exec_try, !exec_pacts in Ep.
  destruct (exec_acts c [ATruncate total] s2) as [st rt] eqn:Et.
  destruct rt as [ |e| ]; cbv iota beta in Ep; rewrite ?exec_pacts in Ep.
  2:{ destruct (exec_acts c [AClose] st) as [sy [ |e'| ]]; discriminate. }
  2:{ discriminate. }
  apply exec_acts_cons_ok in Et. destruct Et as (st' & Hst & Hrt). simpl in Hrt. inversion Hrt; subst st'. clear Hrt.
  assert (HAt : InvA fs0 tens sc st) by (eapply step_IA; [|exact HA2|exact Hst]; reflexivity).
  assert (Hzt : exists mz, lookup (s_fs st) tmpf = Some (File (repeat 0%N total) mz)).
  { destruct HC2 as [Hfd (m0 & Hl0)]. simpl in Hst. rewrite Hfd, Hl0 in Hst. inversion Hst; subst. cbn [s_fs with_fs log].
    exists m0. rewrite lookup_insert_eq. cbn [app length]. rewrite Nat.sub_0_r, firstn_repeat_all. reflexivity. }
  apply exec_acts_cons_ok in Ep. destruct Ep as (sp' & Hsp & Hrp). simpl in Hrp, Hsp.
  inversion Hrp; subst sp'. inversion Hsp; subst sp. clear Hrp Hsp.
  assert (HAp : InvA fs0 tens sc (with_fd (log OClose st) None 0)).
  { eapply step_IA with (a := AClose) (s := st); [reflexivity|exact HAt|reflexivity]. }
  destruct Hzt as (mz & Hzt).
  (* the tasks *)
  destruct (sc_tensors sc) as [|[off0 sp0] r] eqn:Ets.
  { (* no tensor: nothing is written *)
    rewrite exec_pacts in HB1. simpl in HB1. inversion HB1; subst s3.
    unfold TAILPRE in HT. fold dest in HT. fold tmpf in HT.
    apply exec_acts_app_ok in HT. destruct HT as (s5 & H5 & HT).
    apply releases_fs in H5. simpl in H5.
    apply exec_acts_cons_ok in HT. destruct HT as (s6 & Hs6 & HT). simpl in Hs6. inversion Hs6; subst s6. clear Hs6.
    destruct (exists_ fs0 dest).
    - apply exec_acts_cons_ok in HT. destruct HT as (s7 & Hs7 & HT). simpl in HT. inversion HT; subst s7. clear HT.
      simpl in Hs7. rewrite H5 in Hs7. unfold resolve in Hs7. rewrite Hzt in Hs7. cbv iota beta in Hs7.
      destruct (file_at (s_fs st) dest) as [[d0 m0]|]; try discriminate.
      rewrite ?Hzt in Hs7. inversion Hs7; subst s4. cbn [s_fs with_fs log] in Hl. rewrite lookup_insert_eq in Hl.
      inversion Hl. reflexivity.
    - simpl in HT. inversion HT; subst s4. simpl in Hl. rewrite H5, Hzt in Hl. inversion Hl. reflexivity. }
  rewrite exec_seq, exec_pacts in HB1.
  destruct (exec_acts c (cb_acts (sc_cb sc) (sc_cbbase sc)) (with_fd (log OClose st) None 0)) as [sc1 rc1] eqn:Ec1.
  destruct rc1; try discriminate.
  assert (HAc : InvA fs0 tens sc sc1).
  { eapply acts_IA; [|exact HAp|exact Ec1]. eapply forallb_impl; [apply wr_okA|apply cb_wr]. }
  assert (Hzc : lookup (s_fs sc1) tmpf = Some (File (repeat 0%N total) mz)).
  { destruct (sc_cb sc) as [[[j e]|]|]; cbn [cb_acts] in Ec1.
    - apply exec_acts_cons_ok in Ec1. destruct Ec1 as (sx & Hsx & Hrx). simpl in Hsx, Hrx. inversion Hrx; subst.
      destruct (Nat.eqb (sc_cbbase sc) j); inversion Hsx; subst; exact Hzt.
    - apply exec_acts_cons_ok in Ec1. destruct Ec1 as (sx & Hsx & Hrx). simpl in Hsx, Hrx. inversion Hrx; subst.
      inversion Hsx; subst; exact Hzt.
    - simpl in Ec1. inversion Ec1; subst. exact Hzt. }
  rewrite exec_seq, exec_pacts in HB1.
  destruct (exec_acts c [AOpenRW tmpf] sc1) as [so ro] eqn:Eo. destruct ro; try discriminate.
  apply exec_acts_cons_ok in Eo. destruct Eo as (so' & Hso & Hro). simpl in Hro. inversion Hro; subst so'. clear Hro.
  assert (HAo : InvA fs0 tens sc so) by (eapply step_IA; [|exact HAc|exact Hso]; apply okA_openrw).
  assert (HCo : Cont fs0 sc (repeat 0%N total) so).
  { simpl in Hso. rewrite (Hres sc1 HAc), Hzc in Hso. inversion Hso; subst. split; [reflexivity|]. exists mz. exact Hzc. }
  rewrite exec_try, !exec_pacts in HB1.
  destruct (exec_acts c (ASeek off0 :: tofile_acts tens (sc_chunk sc) sp0
                         ++ tensors_acts tens (sc_chunk sc) (sc_cb sc) (S (sc_cbbase sc)) r) so) as [sx rx] eqn:Ex.
  destruct rx as [ |e| ]; cbv iota beta in HB1; rewrite ?exec_pacts in HB1.
  2:{ destruct (exec_acts c [AClose] sx) as [sy [ |e'| ]]; discriminate. }
  2:{ discriminate. }
  apply exec_acts_cons_ok in Ex. destruct Ex as (sk & Hsk & Ex).
  pose proof (step_IA fs0 tens sc (ASeek off0) so sk eq_refl HAo Hsk) as HAk.
  assert (HCk : Cont fs0 sc (repeat 0%N total) sk /\ s_pos sk = off0).
  { simpl in Hsk. destruct HCo as [Hfd Hlo]. rewrite Hfd in Hsk. inversion Hsk; subst. simpl.
    split; [split; [reflexivity|exact Hlo]|reflexivity]. }
  destruct HCk as [HCk Hpk].
  apply exec_acts_app_ok in Ex. destruct Ex as (s3t & H3t & Ex).
  destruct (tofile_Cont fs0 tens sc Hsrc c sp0 _ sk s3t HCk HAk H3t) as [HC3 HA3]. rewrite Hpk in HC3.
  pose proof (tensors_Cont fs0 tens sc Hsrc c _ _ _ _ _ _ HC3 HA3 Ex) as HCx.
  apply exec_acts_cons_ok in HB1. destruct HB1 as (s3' & Hs3 & Hr3). simpl in Hs3, Hr3.
  inversion Hr3; subst s3'. inversion Hs3; subst s3. clear Hr3 Hs3.
  destruct HCx as [_ (mx & Hlx)]. fold dest in Hlx. fold tmpf in Hlx.
  unfold TAILPRE in HT. fold dest in HT. fold tmpf in HT.
  apply exec_acts_app_ok in HT. destruct HT as (s5 & H5 & HT).
  apply releases_fs in H5. simpl in H5.
  apply exec_acts_cons_ok in HT. destruct HT as (s6 & Hs6 & HT). simpl in Hs6. inversion Hs6; subst s6. clear Hs6.
  unfold image_from. simpl fold_left.
  destruct (exists_ fs0 dest).
  - apply exec_acts_cons_ok in HT. destruct HT as (s7 & Hs7 & HT). simpl in HT. inversion HT; subst s7. clear HT.
    simpl in Hs7. rewrite H5 in Hs7. unfold resolve in Hs7. rewrite Hlx in Hs7. cbv iota beta in Hs7.
    destruct (file_at (s_fs sx) dest) as [[d0 m0]|]; try discriminate.
    rewrite ?Hlx in Hs7. inversion Hs7; subst s4. cbn [s_fs with_fs log] in Hl. rewrite lookup_insert_eq in Hl.
    inversion Hl. reflexivity.
  - simpl in HT. inversion HT; subst s4. simpl in Hl. rewrite H5, Hlx in Hl. inversion Hl. reflexivity.
Qed.

Lemma interrupt_atomic_image_par fs0 tens small sc c total :
  sc_par sc = Some total ->
  single_wf fs0 sc -> src_wf fs0 tens sc ->
  let dest := dest_of fs0 (sc_req sc) in
  let s := fst (run c fs0 tens small sc) in
  lookup (s_fs s) dest = lookup fs0 dest
  \/ exists m, lookup (s_fs s) dest = Some (File (image_from fs0 tens (repeat 0%N total) (sc_tensors sc)) m)
       /\ In (OReplace (tmpf_of sc dest) dest) (s_trace s).
Proof.
  intros Hpar Hwf Hsrc. cbv zeta.
  destruct (interrupt_atomic fs0 tens small sc Hwf c) as [H|(d & m & Hl & Hin & s1 & HA & HP)].
  - left. exact H.
  - right. exists m. rewrite <- (prerepl_image_par fs0 tens sc c s1 d m total Hpar Hsrc HA HP). split; assumption.
Qed.

Lemma crash_atomic_image_par fs0 tens small sc k total :
  sc_par sc = Some total ->
  single_wf fs0 sc -> src_wf fs0 tens sc ->
  let dest := dest_of fs0 (sc_req sc) in
  let s := fst (run_prefix k fs0 tens small sc) in
  length (s_trace s) <= k /\
  (lookup (s_fs s) dest = lookup fs0 dest
   \/ exists m, lookup (s_fs s) dest = Some (File (image_from fs0 tens (repeat 0%N total) (sc_tensors sc)) m)
        /\ In (OReplace (tmpf_of sc dest) dest) (s_trace s)).
Proof.
  intros Hpar Hwf Hsrc. cbv zeta. split; [apply prefix_len|].
  apply (interrupt_atomic_image_par fs0 tens small sc _ total Hpar Hwf Hsrc).
Qed.

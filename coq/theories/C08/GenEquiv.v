(* C08/GenEquiv.v — the model's plan of the single-file save IS the meaning of the translated source. *)
From Coq Require Import List Bool Arith NArith.
From IRV Require Import Base.Exn C08.Model C08.Skel Gen.C08Gen.
Import ListNotations.

Lemma plan_from_source fs tens sc :
  interp_fn fs tens sc write_external_data_body = Some (plan_single fs tens sc).
Proof. reflexivity. Qed.

Lemma sharded_from_source fs tens small shards :
  option_map (PSeq (PActs (plan_small small))) (interp_sharded check_no_existing_body sharded_branch_body fs tens shards)
  = Some (plan_sharded fs tens small shards).
Proof. reflexivity. Qed.

(* C08/Proofs4.v — decomposition of the single-file save along its try/finally structure. *)
From Coq Require Import List Bool Arith Lia NArith.
From IRV Require Import Base.Exn C08.Model C08.Proofs1 C08.Proofs2 C08.Proofs3.
Import ListNotations.

Lemma exec_acts_app c l1 l2 s :
  exec_acts c (l1 ++ l2) s =
  match exec_acts c l1 s with (s', SOk) => exec_acts c l2 s' | other => other end.
Proof.
  revert s. induction l1 as [|a r IH]; intros s; simpl; [reflexivity|].
  destruct (perform c a s) as [s' [ |e| ]]; [apply IH|reflexivity|reflexivity].
Qed.

Lemma exec_acts_cons c a r s :
  exec_acts c (a :: r) s = match perform c a s with (s', SOk) => exec_acts c r s' | other => other end.
Proof. reflexivity. Qed.

Lemma exec_try c b f s :
  exec c (PTry b f) s =
  match exec c b s with
  | (s1, SCrash) => (s1, SCrash)
  | (s1, SOk) => exec c f s1
  | (s1, SRaise e) => match exec c f s1 with (s2, SOk) => (s2, SRaise e) | other => other end
  end.
Proof. reflexivity. Qed.
Lemma exec_seq c a b s :
  exec c (PSeq a b) s = match exec c a s with (s', SOk) => exec c b s' | other => other end.
Proof. reflexivity. Qed.
Lemma exec_pacts c l s : exec c (PActs l) s = exec_acts c l s.
Proof. reflexivity. Qed.

(* no kill point: the run never ends in SCrash *)
Lemma perform_nocrash c a s : crash_at c = None -> snd (perform c a s) <> SCrash.
Proof.
  intros Hc. unfold perform. rewrite Hc. simpl.
  destruct (counted a); [destruct (at_idx (fault_at c) (length (s_trace s)) && faultable a)|];
    simpl; try discriminate; destruct (sem a s) as [s' [u|e]]; discriminate.
Qed.
Lemma exec_acts_nocrash c l : forall s, crash_at c = None -> snd (exec_acts c l s) <> SCrash.
Proof.
  induction l as [|a r IH]; intros s Hc; simpl; [discriminate|].
  pose proof (perform_nocrash c a s Hc) as H. destruct (perform c a s) as [s' [ |e| ]]; simpl in *;
    [apply IH; exact Hc | discriminate | congruence].
Qed.
Lemma exec_nocrash c p : forall s, crash_at c = None -> snd (exec c p s) <> SCrash.
Proof.
  induction p as [l|a IHa b IHb|a IHa b IHb]; intros s Hc; simpl.
  - apply exec_acts_nocrash; exact Hc.
  - pose proof (IHa s Hc) as H. destruct (exec c a s) as [s' [ |e| ]]; simpl in *; [apply IHb; exact Hc|discriminate|congruence].
  - pose proof (IHa s Hc) as H. destruct (exec c a s) as [s' [ |e| ]]; simpl in *; [apply IHb; exact Hc| |congruence].
    pose proof (IHb s' Hc) as H'. destruct (exec c b s') as [s2 [ |e'| ]]; simpl in *; [discriminate|discriminate|congruence].
Qed.

(* actions of the tensor-writing phase *)
Definition wr (a : act) : bool :=
  match a with
  | ACallback _ _ | ASeek _ | AWrite _ | AWriteBuf | AEvalRaise _ | ATofileOpen _ | ARead _ _ _ | ACheckFull _ => true
  | _ => false
  end.
Lemma multi_wr chunks e : forall ra, forallb wr (multi_acts chunks ra e) = true.
Proof. induction chunks as [|ch r IH]; intros [[|j]|]; simpl; try reflexivity; apply IH. Qed.
Lemma tofile_wr tens c sp : forallb wr (tofile_acts tens c sp) = true.
Proof.
  destruct sp as [d|h|e|chunks ra e]; simpl; try reflexivity; [|apply multi_wr].
  rewrite forallb_app. simpl. rewrite andb_true_r.
  induction (chunk_plan _ 0 _ c) as [|x r IH]; simpl; [reflexivity|exact IH].
Qed.
Lemma cb_wr cb i : forallb wr (cb_acts cb i) = true.
Proof. destruct cb as [[[j e]|]|]; reflexivity. Qed.
Lemma tensors_wr tens c cb l : forall i, forallb wr (tensors_acts tens c cb i l) = true.
Proof.
  induction l as [|[off sp] r IH]; intros i; simpl; [reflexivity|].
  rewrite forallb_app, cb_wr. simpl. rewrite forallb_app, tofile_wr, IH. reflexivity.
Qed.

Section Decomp.
  Variable fs0 : fsT.
  Variable tens : list tstate.
  Variable small : list nat.
  Variable sc : scn.
  Let dest := dest_of fs0 (sc_req sc).
  Let tmpd := sc_tmpd sc.
  Let tmpf := tmpf_of sc dest.
  Let ov := overwritten fs0 tens sc.
  Let inv := invalidated fs0 tens sc.
  Let valids0 := map t_valid tens.

  (* contract of mkdtemp: a fresh name, nothing at or below it; the destination is not below it and
     is not a directory *)
  Hypothesis H_fresh : forall p, T tmpd p = true -> lookup fs0 p = None.
  Hypothesis H_dest : T tmpd dest = false.
  Hypothesis H_nodir : lookup fs0 dest <> Some Dir.

  Lemma T_tmpd : T tmpd tmpd = true. Proof. apply is_prefix_refl. Qed.
  Lemma T_tmpf : T tmpd tmpf = true. Proof. unfold tmpf, tmpf_of, T. apply is_prefix_app. Qed.
  Lemma tmp_ne : tmpf <> tmpd.
  Proof.
    unfold tmpf, tmpf_of. fold tmpd. intros E. apply (f_equal (@length N)) in E. rewrite app_length in E. simpl in E. lia.
  Qed.

  Definition InvA (s : st) : Prop :=
    SInv tmpd tmpf fs0 s /\ valids s = valids0 /\ Forall2 trel (s_tens s) tens.
  Definition VWeak (s : st) : Prop :=
    forall h, nth_error (valids s) h = nth_error valids0 h
              \/ (nth_error (valids s) h = Some false /\ In h inv).
  Definition InvB (d : list byte) (m : N) (s : st) : Prop :=
    SInv tmpd tmpf (insert fs0 dest (File d m)) s /\ In (OReplace tmpf dest) (s_trace s) /\ VWeak s.

  Definition okA (a : act) : bool := okT tmpd tmpf a && negb (is_invalidate a).
  Definition okB (a : act) : bool :=
    okT tmpd tmpf a && match a with AInvalidate h => existsb (Nat.eqb h) inv | _ => true end.

  Lemma InvA_log o s : InvA s -> InvA (log o s).
  Proof. intros [H1 H2]. split; [apply SInv_log; exact H1 | exact H2]. Qed.
  Lemma InvA_sem a s : okA a = true -> InvA s -> InvA (fst (sem a s)).
  Proof.
    intros Ha (H1 & H2 & H3). apply andb_prop in Ha. destruct Ha as [Ha1 Ha2].
    assert (Hi : is_invalidate a = false) by (destruct (is_invalidate a); [discriminate|reflexivity]).
    split; [|split].
    - apply sem_SInv; auto using T_tmpd, T_tmpf, tmp_ne.
    - rewrite sem_valids; [exact H2 | exact Hi].
    - apply sem_trel; assumption.
  Qed.
  Lemma A_acts c l s : forallb okA l = true -> InvA s -> InvA (fst (exec_acts c l s)).
  Proof. apply exec_acts_pres; [apply InvA_log | apply InvA_sem]. Qed.
  Lemma A_prog c p s : prog_all okA p = true -> InvA s -> InvA (fst (exec c p s)).
  Proof. apply exec_pres; [apply InvA_log | apply InvA_sem]. Qed.

  Lemma nth_valids_invalidate l h j :
    nth_error (map t_valid (upd l h (fun x => set_valid x false))) j =
    if Nat.eqb j h then match nth_error l h with Some _ => Some false | None => None end
    else nth_error (map t_valid l) j.
  Proof.
    revert h j. induction l as [|x r IH]; intros h j.
    - simpl. destruct (Nat.eqb j h); destruct h; destruct j; reflexivity.
    - destruct h as [|h]; destruct j as [|j]; simpl; try reflexivity. apply IH.
  Qed.

  Lemma InvB_log d m o s : InvB d m s -> InvB d m (log o s).
  Proof. intros (H1 & H2 & H3). split; [apply SInv_log; exact H1|]. split; [right; exact H2 | exact H3]. Qed.
  Lemma InvB_sem d m a s : okB a = true -> InvB d m s -> InvB d m (fst (sem a s)).
  Proof.
    intros Ha (H1 & H2 & H3). apply andb_prop in Ha. destruct Ha as [Ha1 Ha2]. split; [|split].
    - apply sem_SInv; auto using T_tmpd, T_tmpf, tmp_ne.
    - apply sem_trace_mono. exact H2.
    - destruct (is_invalidate a) eqn:Ei.
      + destruct a; try discriminate. simpl. intros h. unfold valids. simpl.
        rewrite nth_valids_invalidate. destruct (Nat.eqb h t) eqn:E.
        * apply Nat.eqb_eq in E. subst t. destruct (nth_error (s_tens s) h) eqn:En.
          -- right. split; [reflexivity|]. apply existsb_exists in Ha2. destruct Ha2 as (x & Hx & Ex).
             apply Nat.eqb_eq in Ex. subst. exact Hx.
          -- specialize (H3 h). unfold valids in H3. rewrite nth_error_map, En in H3. simpl in H3.
             destruct H3 as [H3|[H3 _]]; [left; exact H3 | discriminate].
        * apply H3.
      + intros h. rewrite sem_valids; [apply H3 | exact Ei].
  Qed.
  Lemma B_acts d m c l s : forallb okB l = true -> InvB d m s -> InvB d m (fst (exec_acts c l s)).
  Proof. apply exec_acts_pres; [apply InvB_log | apply InvB_sem]. Qed.

  (* the plan, cut into its pieces *)
  Definition PRE := plan_pre fs0 tens sc.
  Definition TENS := tensors_acts tens (sc_chunk sc) (sc_cb sc) (sc_cbbase sc) (sc_tensors sc).
  Definition B1 := writer tens sc tmpf.
  Definition B1ser := PSeq (PActs [AOpenW tmpf]) (PTry (PActs TENS) (PActs [AClose])).
  Lemma B1_serial : sc_par sc = None -> B1 = B1ser.
  Proof. intros H. unfold B1, writer. rewrite H. reflexivity. Qed.
  Definition TAILPRE :=
    map (rel_act sc) ov ++ AExists dest :: (if exists_ fs0 dest then [ACopymode dest tmpf] else []).
  Definition FIN := [ARemove tmpf; ARmdir tmpd].
  Definition POST := plan_post fs0 tens sc.

  Lemma plan_tail_split : plan_tail fs0 tens sc = TAILPRE ++ [AReplace tmpf dest].
  Proof. unfold plan_tail, TAILPRE. fold dest. fold tmpf. fold ov. rewrite <- !app_assoc. simpl. rewrite <- ?app_assoc. reflexivity. Qed.

  Lemma plan_single_eq :
    plan_single fs0 tens sc =
    PSeq (PActs PRE) (PSeq (PTry (PSeq B1 (PActs (TAILPRE ++ [AReplace tmpf dest]))) (PActs FIN)) (PActs POST)).
  Proof. unfold plan_single. rewrite plan_tail_split. reflexivity. Qed.

  Lemma wr_okA a : wr a = true -> okA a = true.
  Proof. destruct a; simpl; intros; try reflexivity; discriminate. Qed.

  Lemma PRE_okA : forallb okA PRE = true.
  Proof.
    unfold PRE, plan_pre. simpl. rewrite !forallb_app. apply andb_true_intro. split.
    - destruct (is_link fs0 (sc_req sc)); reflexivity.
    - apply andb_true_intro. split.
      + apply forallb_map_const. intros h. unfold probe_act.
        destruct (has_nul (tpath tens h)); [reflexivity|]. destruct (is_alias fs0 sc (tpath tens h)); reflexivity.
      + simpl. unfold okA. simpl. fold tmpd. rewrite path_eqb_refl. reflexivity.
  Qed.
  Lemma okA_openw : okA (AOpenW tmpf) = true.
  Proof. unfold okA. simpl. rewrite path_eqb_refl. reflexivity. Qed.
  Lemma okA_openrw : okA (AOpenRW tmpf) = true.
  Proof. unfold okA. simpl. rewrite path_eqb_refl. reflexivity. Qed.

  Lemma B1_okA : prog_all okA B1 = true.
  Proof.
    unfold B1, writer. destruct (sc_par sc) as [total|].
    - unfold writer_parallel. cbn [prog_all forallb]. fold dest. fold tmpf. rewrite okA_openw. cbn [andb].
      destruct (sc_tensors sc) as [|[off0 sp0] r]; [reflexivity|]. cbn [prog_all forallb]. rewrite okA_openrw.
      rewrite (forallb_impl _ _ _ wr_okA (cb_wr _ _)). cbn [andb].
      apply andb_true_intro; split; [reflexivity|].
      apply andb_true_intro; split; [|reflexivity]. apply andb_true_intro; split; [reflexivity|].
      rewrite forallb_app.
      apply andb_true_intro; split; (eapply forallb_impl; [apply wr_okA|]); [apply tofile_wr|apply tensors_wr].
    - unfold writer_serial. cbn [prog_all forallb]. fold dest. fold tmpf. rewrite okA_openw. cbn [andb].
      rewrite andb_true_r. eapply forallb_impl; [apply wr_okA | apply tensors_wr].
  Qed.
  Lemma TAILPRE_okA : forallb okA TAILPRE = true.
  Proof.
    unfold TAILPRE. rewrite forallb_app. apply andb_true_intro.
    split; [apply forallb_map_const; intros h; unfold rel_act; destruct (existsb (Nat.eqb h) (sc_held sc)); reflexivity|].
    simpl. destruct (exists_ fs0 dest); simpl; [|reflexivity]. unfold okA. simpl. rewrite path_eqb_refl. reflexivity.
  Qed.
  Lemma FIN_okA : forallb okA FIN = true.
  Proof. unfold FIN, okA. simpl. rewrite !path_eqb_refl. reflexivity. Qed.
  Lemma FIN_okB : forallb okB FIN = true.
  Proof. unfold FIN, okB. simpl. rewrite !path_eqb_refl. reflexivity. Qed.
  Lemma POST_okB : forallb okB POST = true.
  Proof.
    unfold POST, plan_post. simpl.
    assert (H : forall l, (forall h, In h l -> In h ov) ->
              forallb okB (flat_map (fun h => ARealpath (tpath tens h)
                  :: (if realpath_is_dest fs0 tens sc h then [AInvalidate h] else [])) l) = true).
    { induction l as [|h r IH]; intros Hl; simpl; [reflexivity|].
      destruct (realpath_is_dest fs0 tens sc h) eqn:E; simpl.
      - rewrite IH; [|intros; apply Hl; right; assumption]. rewrite andb_true_r.
        unfold okB. simpl. apply existsb_exists. exists h. split; [|apply Nat.eqb_refl].
        unfold inv, invalidated. apply filter_In. split; [apply Hl; left; reflexivity|exact E].
      - apply IH. intros; apply Hl; right; assumption. }
    apply H. auto.
  Qed.
  Lemma small_okA : forallb okA (plan_small small) = true.
  Proof. induction small as [|h r IH]; simpl; [reflexivity|exact IH]. Qed.

  Lemma InvA_init : InvA (init fs0 tens).
  Proof.
    split; [|split; [reflexivity|simpl; induction tens; constructor; [apply trel_refl|assumption]]]. split.
    - unfold FInv, init. simpl. repeat split; auto; try discriminate.
      intros p t Hp. rewrite (H_fresh p Hp). discriminate.
    - intros p Hp. left. simpl. apply H_fresh. exact Hp.
  Qed.

  (* the replace step *)
  Lemma replace_step c s :
    InvA s ->
    (InvA (fst (perform c (AReplace tmpf dest) s)) /\ snd (perform c (AReplace tmpf dest) s) <> SOk)
    \/ (snd (perform c (AReplace tmpf dest) s) = SOk
        /\ exists d m, lookup (s_fs s) tmpf = Some (File d m) /\ InvB d m (fst (perform c (AReplace tmpf dest) s))).
  Proof.
    intros HA. destruct (perform_cases c (AReplace tmpf dest) s) as [E|[E|E]]; rewrite E; simpl.
    - left. split; [exact HA|discriminate].
    - left. split; [apply InvA_log; exact HA|discriminate].
    - destruct HA as [[HF HT] HV]. pose proof HF as (H1 & H2 & H3).
      assert (Hd : lookup (s_fs s) dest = lookup fs0 dest) by (apply H1; exact H_dest).
      destruct (lookup (s_fs s) tmpf) as [[d m| |t]|] eqn:El;
        try (left; split; [|discriminate]; split; [split|]; [eapply FInv_same_fs; [| |exact HF]; simpl; auto
             | eapply TShape_same; [|exact HT]; reflexivity | exact HV]).
      rewrite Hd.
      assert (Hok : forall n, n <> Dir -> lookup fs0 dest = Some n \/ lookup fs0 dest = None ->
              match lookup fs0 dest with
              | Some Dir => (log (OReplace tmpf dest) s, Raise OSError)
              | _ => (with_fs (log (OReplace tmpf dest) s) (insert (delete (s_fs s) tmpf) dest (File d m)), Ok tt)
              end = (with_fs (log (OReplace tmpf dest) s) (insert (delete (s_fs s) tmpf) dest (File d m)), Ok tt)).
      { intros n Hn [X|X]; rewrite X; [destruct n; try reflexivity; congruence | reflexivity]. }
      assert (Hsem : match lookup fs0 dest with
              | Some Dir => (log (OReplace tmpf dest) s, Raise OSError)
              | _ => (with_fs (log (OReplace tmpf dest) s) (insert (delete (s_fs s) tmpf) dest (File d m)), Ok tt)
              end = (with_fs (log (OReplace tmpf dest) s) (insert (delete (s_fs s) tmpf) dest (File d m)), Ok tt)).
      { destruct (lookup fs0 dest) as [n|] eqn:X; [|reflexivity]. destruct n; try reflexivity. congruence. }
      rewrite Hsem. simpl. right. split; [reflexivity|]. exists d, m. split; [reflexivity|].
      assert (Hne : tmpf <> dest) by (intros X; pose proof T_tmpf as Y; rewrite X in Y; congruence).
      unfold InvB, SInv.
      remember (insert (delete (s_fs s) tmpf) dest (File d m)) as fs' eqn:Efs'.
      remember (insert fs0 dest (File d m)) as base1 eqn:Eb1.
      assert (L1 : forall p, T tmpd p = false -> lookup fs' p = lookup base1 p).
      { intros p Hp. subst fs' base1. destruct (path_eqb dest p) eqn:Edp.
        - apply path_eqb_eq in Edp. subst p. rewrite !lookup_insert_eq. reflexivity.
        - apply path_eqb_false in Edp. rewrite !lookup_insert_ne by exact Edp.
          rewrite lookup_delete_ne; [apply H1; exact Hp|]. intros X; subst p. pose proof T_tmpf. congruence. }
      assert (L2 : forall p, T tmpd p = true -> lookup fs' p = if path_eqb tmpf p then None else lookup (s_fs s) p).
      { intros p Hp. subst fs'. assert (dest <> p) by (intros X; subst p; congruence).
        rewrite lookup_insert_ne by assumption. destruct (path_eqb tmpf p) eqn:Etp.
        - apply path_eqb_eq in Etp. subst p. apply lookup_delete_eq.
        - apply lookup_delete_ne. apply path_eqb_false; exact Etp. }
      split; [split|split].
      + unfold FInv. simpl. repeat split.
        * exact L1.
        * exact H2.
        * intros p t Hp. rewrite (L2 p Hp). destruct (path_eqb tmpf p); [discriminate|apply H3; exact Hp].
      + intros p Hp. simpl. rewrite (L2 p Hp). destruct (path_eqb tmpf p); [left; reflexivity|apply HT; exact Hp].
      + simpl. left; reflexivity.
      + intros h. left. unfold valids in *. simpl. rewrite (proj1 HV). reflexivity.
  Qed.

  (* the cleanup handlers: they complete, or the injected fault hit one of them *)
  Lemma perform_remove c base s :
    SInv tmpd tmpf base s -> crash_at c = None ->
    (exists s1, perform c (ARemove tmpf) s = (s1, SOk) /\ lookup (s_fs s1) tmpf = None /\ SInv tmpd tmpf base s1)
    \/ perform c (ARemove tmpf) s = (log (OFail true) s, SRaise OSError).
  Proof.
    intros [HF HT] Hc. unfold perform. simpl. rewrite Hc. simpl.
    destruct (at_idx (fault_at c) (length (s_trace s))); simpl; [right; reflexivity|left].
    destruct (HT tmpf T_tmpf) as [E|[[E _]|[_ (d & m & E)]]].
    - rewrite E. eexists. split; [reflexivity|]. split; [exact E|]. apply SInv_log. split; assumption.
    - exfalso. apply tmp_ne. exact E.
    - rewrite E. eexists. split; [reflexivity|]. simpl. split; [apply lookup_delete_eq|].
      split.
      + eapply FInv_delete with (p := tmpf); [apply T_tmpf|reflexivity|reflexivity|exact HF].
      + eapply TShape_delete; [|exact HT]. reflexivity.
  Qed.

  Lemma perform_rmdir c base s :
    SInv tmpd tmpf base s -> lookup (s_fs s) tmpf = None -> crash_at c = None ->
    (exists s1, perform c (ARmdir tmpd) s = (s1, SOk) /\ lookup (s_fs s1) tmpf = None /\ lookup (s_fs s1) tmpd = None)
    \/ perform c (ARmdir tmpd) s = (log (OFail true) s, SRaise OSError).
  Proof.
    intros [HF HT] Hl Hc. unfold perform. simpl. rewrite Hc. simpl.
    destruct (at_idx (fault_at c) (length (s_trace s))); simpl; [right; reflexivity|left].
    destruct (HT tmpd T_tmpd) as [E|[[_ E]|[E _]]].
    - rewrite E. simpl. eexists. split; [reflexivity|]. simpl. split; assumption.
    - rewrite E.
      assert (Hc0 : has_child (s_fs s) tmpd = false).
      { destruct (has_child (s_fs s) tmpd) eqn:X; [|reflexivity]. exfalso.
        unfold has_child in X. apply existsb_exists in X. destruct X as ([p n] & Hin & Hp). simpl in Hp.
        apply andb_prop in Hp. destruct Hp as [Hp1 Hp2].
        apply In_lookup in Hin. destruct (HT p Hp1) as [Y|[[Y _]|[Y _]]].
        - contradiction.
        - subst p. rewrite path_eqb_refl in Hp2. discriminate.
        - subst p. contradiction. }
      rewrite Hc0. simpl. eexists. split; [reflexivity|]. simpl. split.
      + rewrite lookup_delete_ne; [exact Hl | intros X; apply tmp_ne; symmetry; exact X].
      + apply lookup_delete_eq.
    - exfalso. apply tmp_ne. symmetry. exact E.
  Qed.

  Lemma fin_spec c base s :
    SInv tmpd tmpf base s -> crash_at c = None ->
    (snd (exec_acts c FIN s) = SOk /\ lookup (s_fs (fst (exec_acts c FIN s))) tmpf = None
       /\ lookup (s_fs (fst (exec_acts c FIN s))) tmpd = None)
    \/ (exists e, snd (exec_acts c FIN s) = SRaise e /\ In (OFail true) (s_trace (fst (exec_acts c FIN s)))).
  Proof.
    intros HI Hc. unfold FIN. simpl.
    destruct (perform_remove c base s HI Hc) as [(s1 & E1 & Hl1 & HI1)|E1]; rewrite E1.
    - destruct (perform_rmdir c base s1 HI1 Hl1 Hc) as [(s2 & E2 & Hl2 & Hd2)|E2]; rewrite E2; simpl.
      + left. auto.
      + right. exists OSError. split; [reflexivity|left; reflexivity].
    - simpl. right. exists OSError. split; [reflexivity|left; reflexivity].
  Qed.

  (* ---- the whole single-file save *)
  Definition PreRepl (c : ctl) (s1 : st) (d : list byte) (m : N) : Prop :=
    exists s3 s4, exec c B1 s1 = (s3, SOk) /\ exec_acts c TAILPRE s3 = (s4, SOk)
                  /\ lookup (s_fs s4) tmpf = Some (File d m).

  Definition BODY := PSeq B1 (PActs (TAILPRE ++ [AReplace tmpf dest])).

  Lemma body_spec c s1 :
    InvA s1 ->
    (InvA (fst (exec c BODY s1)) /\ snd (exec c BODY s1) <> SOk)
    \/ (snd (exec c BODY s1) = SOk /\ exists d m, InvB d m (fst (exec c BODY s1)) /\ PreRepl c s1 d m).
  Proof.
    intros HA. unfold BODY. rewrite exec_seq.
    pose proof (A_prog c B1 s1 B1_okA HA) as H3.
    destruct (exec c B1 s1) as [s3 r3] eqn:E3. simpl in H3.
    destruct r3; [|left; split; [exact H3|discriminate]|left; split; [exact H3|discriminate]].
    rewrite exec_pacts, exec_acts_app.
    pose proof (A_acts c TAILPRE s3 TAILPRE_okA H3) as H4.
    destruct (exec_acts c TAILPRE s3) as [s4 r4] eqn:E4. simpl in H4.
    destruct r4; [|left; split; [exact H4|discriminate]|left; split; [exact H4|discriminate]].
    simpl. destruct (replace_step c s4 H4) as [[HA' Hr]|[Hr (d & m & Hl & HB)]].
    - left. destruct (perform c (AReplace tmpf dest) s4) as [s5 [ |e| ]]; simpl in *; [congruence| |]; split; auto; discriminate.
    - right. destruct (perform c (AReplace tmpf dest) s4) as [s5 r5]; simpl in *. subst r5. simpl.
      split; [reflexivity|]. exists d, m. split; [exact HB|]. exists s3, s4. auto.
  Qed.

  Definition TRY := PTry BODY (PActs FIN).
  Arguments BODY : simpl never.
  Arguments TRY : simpl never.
  Arguments FIN : simpl never.
  Arguments POST : simpl never.
  Arguments PRE : simpl never.

  (* outcome classes of the try/finally block *)
  Definition TryA (c : ctl) (s : st) (r : sig) : Prop :=
    InvA s /\ r <> SOk
    /\ (crash_at c = None ->
        (exists e, r = SRaise e) /\
        ((lookup (s_fs s) tmpf = None /\ lookup (s_fs s) tmpd = None) \/ In (OFail true) (s_trace s))).
  Definition TryB (c : ctl) (s1 s : st) (r : sig) : Prop :=
    exists d m, InvB d m s /\ PreRepl c s1 d m
      /\ (crash_at c = None -> r = SOk \/ ((exists e, r = SRaise e) /\ In (OFail true) (s_trace s))).

  Lemma try_spec c s1 :
    InvA s1 -> TryA c (fst (exec c TRY s1)) (snd (exec c TRY s1)) \/ TryB c s1 (fst (exec c TRY s1)) (snd (exec c TRY s1)).
  Proof.
    intros HA. unfold TRY. rewrite exec_try.
    destruct (body_spec c s1 HA) as [[HA2 Hr]|[Hr (d & m & HB & HP)]].
    - pose proof (exec_nocrash c BODY s1) as Hnc.
      destruct (exec c BODY s1) as [s2 r2]. cbn [fst snd] in *. destruct r2 as [ |e| ]; [congruence| |]; rewrite ?exec_pacts.
      + left. pose proof (A_acts c FIN s2 FIN_okA HA2) as HA3.
        pose proof (fin_spec c fs0 s2 (proj1 HA2)) as Hfin.
        destruct (exec_acts c FIN s2) as [s3 r3]. cbn [fst snd] in *.
        destruct r3 as [ |e'| ]; cbn [fst snd]; (split; [exact HA3|split; [discriminate|]]); intros Hc;
          destruct (Hfin Hc) as [(X1 & X2 & X3)|(e2 & X1 & X2)]; try discriminate.
        * split; [eauto|left; auto].
        * split; [eauto|right; exact X2].
      + left. split; [exact HA2|split; [discriminate|]]. intros Hc. exfalso. apply (Hnc Hc). reflexivity.
    - destruct (exec c BODY s1) as [s2 r2]. cbn [fst snd] in *. subst r2. rewrite exec_pacts.
      right. exists d, m. pose proof (B_acts d m c FIN s2 FIN_okB HB) as HB3.
      pose proof (fin_spec c _ s2 (proj1 HB)) as Hfin.
      destruct (exec_acts c FIN s2) as [s3 r3]. cbn [fst snd] in *.
      split; [exact HB3|split; [exact HP|]]. intros Hc.
      destruct (Hfin Hc) as [(X1 & _)|(e2 & X1 & X2)]; [left; exact X1 | right; split; [eauto|exact X2]].
  Qed.


  (* final outcome of plan_save *)
  Definition FinalA (c : ctl) (s : st) (r : sig) : Prop :=
    InvA s /\ r <> SOk
    /\ (crash_at c = None ->
        (forall p, T tmpd p = true -> lookup (s_fs s) p = None) \/ In (OFail true) (s_trace s)).
  Definition FinalB (c : ctl) (s : st) (r : sig) : Prop :=
    exists d m s1, InvB d m s /\ InvA s1 /\ PreRepl c s1 d m
      /\ (crash_at c = None -> r = SOk \/ In (OFail true) (s_trace s)).

  Lemma TNone_of_shape s :
    SInv tmpd tmpf fs0 s -> lookup (s_fs s) tmpf = None -> lookup (s_fs s) tmpd = None ->
    forall p, T tmpd p = true -> lookup (s_fs s) p = None.
  Proof.
    intros [_ HT] H1 H2 p Hp. destruct (HT p Hp) as [E|[[-> _]|[-> _]]]; assumption.
  Qed.

  (* a state in which nothing of the temporary area exists yet *)
  Definition TNone (s : st) : Prop := forall p, T tmpd p = true -> lookup (s_fs s) p = None.

  (* every action of PRE before mkdtemp is a probe: the file system is untouched whatever happens *)
  Definition is_probe (a : act) : bool :=
    match a with
    | AIsLink _ | ARealpath _ | ASameFile _ _ | ASameFileNul _ _ | ASameFileAlias _ _ => true
    | _ => false
    end.

  Lemma probe_fs c a s : is_probe a = true -> s_fs (fst (perform c a s)) = s_fs s.
  Proof.
    intros Ha. destruct (perform_cases c a s) as [E|[E|E]]; rewrite E; try reflexivity.
    rewrite fst_commit. destruct a; try discriminate; reflexivity.
  Qed.

  Lemma probes_fs c l : forall s, forallb is_probe l = true -> s_fs (fst (exec_acts c l s)) = s_fs s.
  Proof.
    induction l as [|a r IH]; intros s Hl; [reflexivity|].
    simpl in Hl. apply andb_prop in Hl. destruct Hl as [Ha Hr]. rewrite exec_acts_cons.
    pose proof (probe_fs c a s Ha) as Hp. destruct (perform c a s) as [s' [ |e| ]]; simpl in *; [|exact Hp|exact Hp].
    rewrite IH; assumption.
  Qed.

  Lemma pre_raise_TNone c s :
    InvA s -> TNone s -> forall e, snd (exec_acts c PRE s) = SRaise e -> TNone (fst (exec_acts c PRE s)).
  Proof.
    intros HA HN e. unfold PRE, plan_pre.
    set (probes := (if is_link fs0 (sc_req sc) then [ARealpath (sc_req sc)] else [])
                   ++ map (probe_act fs0 tens sc) (ext_handles (sc_tensors sc))).
    replace (AIsLink (sc_req sc) :: (if is_link fs0 (sc_req sc) then [ARealpath (sc_req sc)] else [])
               ++ map (probe_act fs0 tens sc) (ext_handles (sc_tensors sc)) ++ [AMkdtemp (sc_tmpd sc)])
      with ((AIsLink (sc_req sc) :: probes) ++ [AMkdtemp (sc_tmpd sc)])
      by (unfold probes; simpl; rewrite <- app_assoc; reflexivity).
    assert (Hp : forallb is_probe (AIsLink (sc_req sc) :: probes) = true).
    { simpl. unfold probes. rewrite forallb_app. apply andb_true_intro. split.
      - destruct (is_link fs0 (sc_req sc)); reflexivity.
      - apply forallb_map_const. intros h. unfold probe_act.
        destruct (has_nul (tpath tens h)); [reflexivity|]. destruct (is_alias fs0 sc (tpath tens h)); reflexivity. }
    rewrite exec_acts_app. pose proof (probes_fs c _ s Hp) as Hfs.
    destruct (exec_acts c (AIsLink (sc_req sc) :: probes) s) as [s1 r1]. simpl in Hfs.
    assert (HN1 : TNone s1) by (intros p Hq; rewrite Hfs; apply HN; exact Hq).
    destruct r1; intros Hr; [|exact HN1|exact HN1].
    rewrite exec_acts_cons in *.
    destruct (perform_cases c (AMkdtemp (sc_tmpd sc)) s1) as [E|[E|E]]; rewrite E in *.
    - exact HN1.
    - exact HN1.
    - unfold sem in Hr |- *. change (sc_tmpd sc) with tmpd in Hr |- *. rewrite (HN1 tmpd T_tmpd) in Hr |- *.
      destruct (parent_ok (s_fs s1) tmpd); cbn [commit] in Hr |- *.
      + simpl in Hr. discriminate.
      + exact HN1.
  Qed.

  Lemma small_fs c s : s_fs (fst (exec_acts c (plan_small small) s)) = s_fs s.
  Proof.
    revert s. induction small as [|h r IH]; intros s; [reflexivity|].
    change (plan_small (h :: r)) with ([AReadT h; ARelease h] ++ plan_small r).
    rewrite exec_acts_app.
    assert (H : s_fs (fst (exec_acts c [AReadT h; ARelease h] s)) = s_fs s).
    { assert (H1 : exists r1, perform c (AReadT h) s = (s, r1)).
      { unfold perform. simpl. destruct (nth_error (s_tens s) h) as [x|]; simpl; [|eauto].
        destruct (read_tensor (s_fs s) x); simpl; eauto. }
      assert (H2 : s_fs (fst (perform c (ARelease h) s)) = s_fs s).
      { unfold perform. simpl. rewrite andb_false_r. destruct (at_idx (crash_at c) (length (s_trace s))); reflexivity. }
      destruct H1 as [r1 E1]. rewrite exec_acts_cons, E1. destruct r1; try reflexivity.
      cbv iota beta. rewrite exec_acts_cons.
      destruct (perform c (ARelease h) s) as [s2 [ |e2| ]]; simpl in *; exact H2. }
    destruct (exec_acts c [AReadT h; ARelease h] s) as [s' [ |e| ]]; simpl in *; [rewrite IH; exact H|exact H|exact H].
  Qed.


  Lemma save_spec c :
    let r := run c fs0 tens small sc in FinalA c (fst r) (snd r) \/ FinalB c (fst r) (snd r).
  Proof.
    unfold run, plan_save. rewrite plan_single_eq. rewrite exec_seq, exec_pacts.
    fold BODY. fold TRY.
    pose proof (A_acts c (plan_small small) (init fs0 tens) small_okA InvA_init) as H0.
    pose proof (small_fs c (init fs0 tens)) as Hfs0.
    destruct (exec_acts c (plan_small small) (init fs0 tens)) as [s0 r0]. cbn [fst snd] in *.
    assert (HN0 : TNone s0) by (intros p Hp; rewrite Hfs0; apply H_fresh; exact Hp).
    destruct r0 as [ |e| ]; [|left; split; [exact H0|split; [discriminate|intros; left; exact HN0]]
                             |left; split; [exact H0|split; [discriminate|intros; left; exact HN0]]].
    rewrite exec_seq, exec_pacts.
    pose proof (A_acts c PRE s0 PRE_okA H0) as H1.
    pose proof (pre_raise_TNone c s0 H0 HN0) as Hpr.
    pose proof (exec_acts_nocrash c PRE s0) as Hnc1.
    destruct (exec_acts c PRE s0) as [s1 r1]. cbn [fst snd] in *.
    destruct r1 as [ |e| ].
    2:{ left. split; [exact H1|split; [discriminate|]]. intros _. left. eapply Hpr. reflexivity. }
    2:{ left. split; [exact H1|split; [discriminate|]]. intros Hc. exfalso. apply (Hnc1 Hc). reflexivity. }
    rewrite exec_seq.
    destruct (try_spec c s1 H1) as [(HA & Hr & Hc)|(d & m & HB & HP & Hc)].
    - destruct (exec c TRY s1) as [s2 r2]. cbn [fst snd] in *. left.
      destruct r2 as [ |e| ]; [congruence| |]; (split; [exact HA|split; [discriminate|]]); intros Hcr;
        destruct (Hc Hcr) as [_ [[X1 X2]|X]];
        solve [left; apply TNone_of_shape; [exact (proj1 HA)|exact X1|exact X2] | right; exact X].
    - destruct (exec c TRY s1) as [s2 r2]. cbn [fst snd] in *. right.
      destruct r2 as [ |e| ]; rewrite ?exec_pacts.
      + pose proof (B_acts d m c POST s2 POST_okB HB) as HB3.
        assert (Hpost : snd (exec_acts c POST s2) = SOk \/ snd (exec_acts c POST s2) = SCrash).
        { assert (Hall : forallb (fun a => match a with ARealpath _ | AInvalidate _ => true | _ => false end) POST = true).
          { unfold POST, plan_post. simpl.
            assert (X : forall l0, forallb (fun a => match a with ARealpath _ | AInvalidate _ => true | _ => false end)
                      (flat_map (fun h => ARealpath (tpath tens h)
                         :: (if realpath_is_dest fs0 tens sc h then [AInvalidate h] else [])) l0) = true).
            { induction l0 as [|h r IH]; simpl; [reflexivity|].
              destruct (realpath_is_dest fs0 tens sc h); simpl; exact IH. }
            apply X. }
          revert Hall. generalize POST. intros l. generalize s2. induction l as [|a r IH]; intros s Hl; [left; reflexivity|].
          simpl in Hl. apply andb_prop in Hl. destruct Hl as [Ha Hr]. rewrite exec_acts_cons.
          assert (Hs : snd (perform c a s) = SOk \/ snd (perform c a s) = SCrash).
          { unfold perform. destruct a; try discriminate; simpl; rewrite ?andb_false_r;
              destruct (at_idx (crash_at c) (length (s_trace s))); simpl; auto. }
          destruct (perform c a s) as [s' r']; simpl in Hs. destruct Hs as [-> | ->]; [apply IH; exact Hr|right; reflexivity]. }
        pose proof (exec_acts_nocrash c POST s2) as Hnc.
        destruct (exec_acts c POST s2) as [s3 r3]. cbn [fst snd] in *.
        exists d, m, s1. split; [exact HB3|split; [exact H1|split; [exact HP|]]]. intros Hcr.
        destruct Hpost as [-> | ->]; [left; reflexivity|exfalso; apply (Hnc Hcr); reflexivity].
      + exists d, m, s1. split; [exact HB|split; [exact H1|split; [exact HP|]]]. intros Hcr.
        destruct (Hc Hcr) as [X|[_ X]]; [discriminate|right; exact X].
      + exists d, m, s1. split; [exact HB|split; [exact H1|split; [exact HP|]]]. intros Hcr.
        destruct (Hc Hcr) as [X|[[e X] _]]; discriminate.
  Qed.
End Decomp.

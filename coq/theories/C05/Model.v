(* C05/Model.v — executable model: graph IR terms, denotational semantics over uninterpreted
   operators, and the built-in passes as functions on terms.  Definitions only.

   Term language (what harness/props/c05.py converts an onnx_ir.Model to):
     * values are object identities (vid : N); a Value object keeps its vid across a pass, objects
       created by a pass get vids >= the `fresh` counter handed to the pass;
     * a model is a FLAT table of graphs: the main graph, every subgraph (attribute graphs of nodes,
       also those inside function bodies) under a gid, and the functions (body = a graph without
       initializers).  Graph-valued attributes refer to gids.  The table may contain graphs that are
       no longer reachable (subgraphs of removed nodes): their nodes still count as users of outer
       values, exactly as the Python Value._uses keeps them.
     * attributes are sorted by name by the converter (ONNX attributes are a named set). *)
From Coq Require Import ZArith NArith List Bool Lia.
From IRV Require Import Base.Exn Gen.C05Gen.
Import ListNotations.
Open Scope N_scope.

Definition vid := N.
Definition gid := N.
Definition str := list N.
Definition str_eqb : str -> str -> bool := list_eqb N.eqb.
Definition opid := (str * str * str)%type.           (* domain, op_type, overload *)
Definition opid_eqb (a b : opid) : bool :=
  let '(d1, n1, o1) := a in let '(d2, n2, o2) := b in str_eqb d1 d2 && str_eqb n1 n2 && str_eqb o1 o2.

(* ONNX AttributeType codes *)
Definition TY_FLOAT := 1. Definition TY_INT := 2. Definition TY_STRING := 3. Definition TY_TENSOR := 4.
Definition TY_GRAPH := 5. Definition TY_FLOATS := 6. Definition TY_INTS := 7. Definition TY_STRINGS := 8.
Definition TY_GRAPHS := 10.
Definition DT_STRING : Z := 8%Z.

(* payload of a data attribute (canonical encoding produced by the converter):
     INT [i] ; INTS is ; FLOAT [double bits] ; FLOATS [double bits ...] ;
     STRING bytes ; STRINGS len-prefixed (len, bytes...)* ;
     TENSOR dtype :: rank :: dims ++ data   (data = bytes, or for STRING tensors (len, bytes...)* ) ;
     other types: an injective encoding. *)
Inductive attr : Type :=
| AData (ty : N) (payload : list Z)
| AGraph (g : gid)
| AGraphs (gs : list gid)
| ARef (ty : N) (r : str).

Record node := mkNode { n_op : opid; n_attrs : list (str * attr); n_ins : list (option vid); n_outs : list vid }.
Record tensor := mkTensor { t_dtype : Z; t_shape : list Z; t_data : list Z }.
Record graph := mkGraph { g_ins : list vid; g_inits : list (vid * tensor); g_nodes : list node; g_outs : list vid }.
Record func := mkFunc { f_id : opid; f_body : graph; f_defaults : list (str * attr) }.
Record model := mkModel { m_main : graph; m_subs : list (gid * graph); m_funcs : list func }.

(* ---------------------------------------------------------------- equality (for the case files) *)
Definition attr_eqb (a b : attr) : bool :=
  match a, b with
  | AData t p, AData t' p' => N.eqb t t' && list_eqb Z.eqb p p'
  | AGraph g, AGraph g' => N.eqb g g'
  | AGraphs g, AGraphs g' => list_eqb N.eqb g g'
  | ARef t r, ARef t' r' => N.eqb t t' && str_eqb r r'
  | _, _ => false
  end.
Definition nattr_eqb (a b : str * attr) := str_eqb (fst a) (fst b) && attr_eqb (snd a) (snd b).
Definition node_eqb (a b : node) : bool :=
  opid_eqb (n_op a) (n_op b) && list_eqb nattr_eqb (n_attrs a) (n_attrs b)
  && list_eqb (option_eqb N.eqb) (n_ins a) (n_ins b) && list_eqb N.eqb (n_outs a) (n_outs b).
Definition tensor_eqb (a b : tensor) : bool :=
  Z.eqb (t_dtype a) (t_dtype b) && list_eqb Z.eqb (t_shape a) (t_shape b) && list_eqb Z.eqb (t_data a) (t_data b).
Definition init_eqb (a b : vid * tensor) := N.eqb (fst a) (fst b) && tensor_eqb (snd a) (snd b).
Definition graph_eqb (a b : graph) : bool :=
  list_eqb N.eqb (g_ins a) (g_ins b) && list_eqb init_eqb (g_inits a) (g_inits b)
  && list_eqb node_eqb (g_nodes a) (g_nodes b) && list_eqb N.eqb (g_outs a) (g_outs b).
Definition func_eqb (a b : func) : bool :=
  opid_eqb (f_id a) (f_id b) && graph_eqb (f_body a) (f_body b) && list_eqb nattr_eqb (f_defaults a) (f_defaults b).

(* ---------------------------------------------------------------- lookups *)
Fixpoint alookup {A} (l : list (N * A)) (k : N) : option A :=
  match l with [] => None | (k', a) :: r => if N.eqb k' k then Some a else alookup r k end.
Fixpoint slookup {A} (l : list (str * A)) (k : str) : option A :=
  match l with [] => None | (k', a) :: r => if str_eqb k' k then Some a else slookup r k end.
Definition memN (v : N) (l : list N) : bool := existsb (N.eqb v) l.
Fixpoint index_of (v : vid) (l : list vid) : option nat :=
  match l with [] => None | x :: r => if N.eqb x v then Some O else option_map S (index_of v r) end.
Fixpoint find_prod (ns : list node) (v : vid) : option (node * nat) :=
  match ns with
  | [] => None
  | n :: r => match index_of v (n_outs n) with Some i => Some (n, i) | None => find_prod r v end
  end.

Definition graphs_of (m : model) : list graph := m_main m :: map snd (m_subs m) ++ map f_body (m_funcs m).
Definition all_nodes (m : model) : list node := flat_map g_nodes (graphs_of m).
Definition all_inits (m : model) : list (vid * tensor) := flat_map g_inits (graphs_of m).
Definition find_func (fs : list func) (op : opid) : option func := find (fun f => opid_eqb (f_id f) op) fs.

Record sem := mkSem { s_prod : vid -> option (node * nat); s_init : vid -> option tensor;
                      s_func : opid -> option func; s_graph : gid -> option graph }.
Definition sem_of (m : model) : sem :=
  mkSem (find_prod (all_nodes m)) (alookup (all_inits m)) (find_func (m_funcs m)) (alookup (m_subs m)).

Fixpoint map_opt {A B} (f : A -> option B) (l : list A) : option (list B) :=
  match l with
  | [] => Some []
  | x :: r => match f x with None => None | Some y => match map_opt f r with None => None | Some ys => Some (y :: ys) end end
  end.

Definition attr_graphs (attrs : list (str * attr)) : list gid :=
  flat_map (fun ka => match snd ka with AGraph g => [g] | AGraphs gs => gs | _ => [] end) attrs.
Definition is_graph_attr (a : attr) : bool := match a with AGraph _ | AGraphs _ => true | _ => false end.
Definition is_ref_attr (a : attr) : bool := match a with ARef _ _ => true | _ => false end.

(* reference attributes are resolved through the attribute environment of the enclosing function
   call; an unresolved reference is an absent attribute (ONNX optional attribute parameter) *)
Definition resolve (aenv attrs : list (str * attr)) : list (str * attr) :=
  flat_map (fun ka => match snd ka with
                      | ARef _ r => match slookup aenv r with Some a => [(fst ka, a)] | None => [] end
                      | _ => [ka] end) attrs.

(* ---------------------------------------------------------------- denotational semantics *)
Section Den.
  Variable T : Type.                       (* runtime values (tensors, sequences, ...) *)
  Variable absent : T.                     (* an omitted optional input *)
  Variable tensor_val : tensor -> T.       (* value of an initializer tensor *)
  Definition subfn := list T -> option (list T).
  (* uninterpreted operator semantics: op id, attributes (type and value), body denotations,
     input values, number of outputs; None = no result (divergence / not enough fuel below) *)
  Variable interp : opid -> list (str * attr) -> list subfn -> list T -> nat -> option (list T).
  Variable s : sem.

  Fixpoint bind (ins : list vid) (args : list T) : list (vid * T) :=
    match ins with
    | [] => []
    | v :: r => match args with [] => (v, absent) :: bind r [] | a :: ar => (v, a) :: bind r ar end
    end.

  Fixpoint den (fuel : nat) (aenv : list (str * attr)) (env : list (vid * T)) (v : vid) {struct fuel} : option T :=
    match fuel with
    | O => None
    | S f =>
      match alookup env v with
      | Some t => Some t
      | None =>
        match s_init s v with
        | Some t => Some (tensor_val t)
        | None =>
          match s_prod s v with
          | None => None
          | Some (n, i) =>
            match map_opt (fun o => match o with None => Some absent | Some w => den f aenv env w end) (n_ins n) with
            | None => None
            | Some tins =>
              let attrs := resolve aenv (n_attrs n) in
              match s_func s (n_op n) with
              | Some fn =>
                match nth_error (g_outs (f_body fn)) i with
                | Some o => den f (attrs ++ f_defaults fn) (bind (g_ins (f_body fn)) tins) o
                | None => None
                end
              | None =>
                let subs := map (fun g args => match s_graph s g with
                                               | None => None
                                               | Some gr => map_opt (den f aenv (bind (g_ins gr) args ++ env)) (g_outs gr)
                                               end) (attr_graphs attrs) in
                match interp (n_op n) attrs subs tins (length (n_outs n)) with
                | Some outs => nth_error outs i
                | None => None
                end
              end
            end
          end
        end
      end
    end.

  Definition den_list (fuel : nat) (aenv : list (str * attr)) (env : list (vid * T)) (vs : list vid) : option (list T) :=
    map_opt (den fuel aenv env) vs.
End Den.

(* what the model computes on an input environment (main-graph inputs by identity): the list of
   main-graph output values, position by position, with some fuel. *)
Definition computes {T} (absent : T) tensor_val interp (m : model) (env : list (vid * T)) (r : list T) : Prop :=
  exists fuel, den_list T absent tensor_val interp (sem_of m) fuel [] env (g_outs (m_main m)) = Some r.

(* ---------------------------------------------------------------- structural predicates of Value *)
Definition is_graph_input (m : model) (v : vid) : bool := existsb (fun g => memN v (g_ins g)) (graphs_of m).
Definition is_graph_output (m : model) (v : vid) : bool := existsb (fun g => memN v (g_outs g)) (graphs_of m).
Definition is_initializer (m : model) (v : vid) : bool := existsb (fun g => memN v (map fst (g_inits g))) (graphs_of m).
Definition node_uses (v : vid) (n : node) : bool := existsb (fun o => match o with Some w => N.eqb w v | None => false end) (n_ins n).
Definition has_uses (m : model) (v : vid) : bool := existsb (node_uses v) (all_nodes m).

(* signature: non-initializer inputs (in order) and number of outputs of the main graph *)
Definition noninit_inputs (m : model) : list vid :=
  filter (fun v => negb (memN v (map fst (g_inits (m_main m))))) (g_ins (m_main m)).

(* ---------------------------------------------------------------- generic rewriting helpers *)
Definition map_graphs (F : graph -> graph) (m : model) : model :=
  mkModel (F (m_main m)) (map (fun p => (fst p, F (snd p))) (m_subs m))
          (map (fun f => mkFunc (f_id f) (F (f_body f)) (f_defaults f)) (m_funcs m)).
Definition set_nodes (g : graph) (ns : list node) : graph := mkGraph (g_ins g) (g_inits g) ns (g_outs g).
Definition set_outs (g : graph) (os : list vid) : graph := mkGraph (g_ins g) (g_inits g) (g_nodes g) os.
Definition set_inits (g : graph) (is : list (vid * tensor)) : graph := mkGraph (g_ins g) is (g_nodes g) (g_outs g).
Definition set_ins (g : graph) (is : list vid) : graph := mkGraph is (g_inits g) (g_nodes g) (g_outs g).
Definition map_nodes (F : node -> node) (g : graph) : graph := set_nodes g (map F (g_nodes g)).

Definition sub1 (v w x : vid) : vid := if N.eqb x v then w else x.
Definition subst_node (v w : vid) (n : node) : node :=
  mkNode (n_op n) (n_attrs n) (map (option_map (sub1 v w)) (n_ins n)) (n_outs n).
(* Value.replace_all_uses_with(w, replace_graph_outputs=outs): every node input equal to v, in every
   graph, becomes w; graph outputs as well when `outs` (on models where outputs are local to their
   graph — Valid — this is what the code does: it rewrites the outputs of the value's own graph) *)
Definition subst_graph (outs : bool) (v w : vid) (g : graph) : graph :=
  mkGraph (g_ins g) (g_inits g) (map (subst_node v w) (g_nodes g))
          (if outs then map (sub1 v w) (g_outs g) else g_outs g).
Definition replace_uses (outs : bool) (v w : vid) (m : model) : model := map_graphs (subst_graph outs v w) m.

(* a node is identified by its first output (every node of a valid model has one) *)
Definition node_key (n : node) : vid := match n_outs n with v :: _ => v | [] => 0 end.
Definition has_key (k : vid) (n : node) : bool := N.eqb (node_key n) k.
Definition remove_node (k : vid) (m : model) : model :=
  map_graphs (fun g => set_nodes g (filter (fun n => negb (has_key k n)) (g_nodes g))) m.
Definition update_node (k : vid) (F : node -> node) (m : model) : model :=
  map_graphs (map_nodes (fun n => if has_key k n then F n else n)) m.
Definition get_node (m : model) (k : vid) : option node := find (has_key k) (all_nodes m).

(* which graph of the table *)
Inductive gref := GMain | GSub (g : gid) | GFunc (i : nat).
Definition get_gref (m : model) (r : gref) : option graph :=
  match r with
  | GMain => Some (m_main m)
  | GSub g => alookup (m_subs m) g
  | GFunc i => option_map f_body (nth_error (m_funcs m) i)
  end.
Fixpoint upd_nth {A} (i : nat) (F : A -> A) (l : list A) : list A :=
  match l, i with [], _ => [] | x :: r, O => F x :: r | x :: r, S j => x :: upd_nth j F r end.
Definition upd_gref (r : gref) (F : graph -> graph) (m : model) : model :=
  match r with
  | GMain => mkModel (F (m_main m)) (m_subs m) (m_funcs m)
  | GSub g => mkModel (m_main m) (map (fun p => if N.eqb (fst p) g then (fst p, F (snd p)) else p) (m_subs m)) (m_funcs m)
  | GFunc i => mkModel (m_main m) (m_subs m) (upd_nth i (fun f => mkFunc (f_id f) (F (f_body f)) (f_defaults f)) (m_funcs m))
  end.

(* pre-order traversal of RecursiveGraphIterator: node, then the nodes of its attribute graphs.
   Returns node keys with the gref of the owning graph; computed on a snapshot (the passes below
   that use it only remove the current node or rewrite inputs, which does not change the order of
   the remaining traversal; nodes removed meanwhile are skipped because get_node fails). *)
Fixpoint rec_nodes (fuel : nat) (m : model) (r : gref) : list (gref * vid) :=
  match fuel with
  | O => []
  | S f =>
    match get_gref m r with
    | None => []
    | Some g => flat_map (fun n => (r, node_key n) :: flat_map (fun sg => rec_nodes f m (GSub sg)) (attr_graphs (n_attrs n)))
                         (g_nodes g)
    end
  end.
Definition func_refs (m : model) : list gref := map GFunc (seq 0 (length (m_funcs m))).

(* ---------------------------------------------------------------- RemoveUnusedNodesPass *)
Fixpoint strip_trailing_none (l : list (option vid)) : list (option vid) :=
  match l with
  | [] => []
  | x :: r => match strip_trailing_none r with
              | [] => match x with None => [] | Some _ => [x] end
              | r' => x :: r'
              end
  end.
Definition trim_node (n : node) : node := mkNode (n_op n) (n_attrs n) (strip_trailing_none (n_ins n)) (n_outs n).

Definition STR_BatchNormalization : str :=
  [66;97;116;99;104;78;111;114;109;97;108;105;122;97;116;105;111;110].
Definition STR_training_mode : str := [116;114;97;105;110;105;110;103;95;109;111;100;101].
Definition STR_onnx_ai : str := [111;110;110;120;46;97;105].
Definition dom_onnx (d : str) : bool := str_eqb d [] || str_eqb d STR_onnx_ai.

(* schema knowledge handed in by the harness (from onnx.defs for the model's opset):
   op_type -> optional flag per formal output ([] when there is no schema, the op has a variadic
   output, or the domain is not the ONNX one). *)
Definition schema := list (str * list bool).
Definition opt_flags (sc : schema) (op : opid) : option (list bool) :=
  let '(d, n, _) := op in if dom_onnx d then slookup sc n else None.

(* _remove_unused_optional_outputs: names of unused optional outputs are cleared (names are not
   part of this model) and TRAILING cleared/unnamed outputs are dropped.  `unnamed` = outputs whose
   name is already empty before the pass (given by the converter).  BatchNormalization: nothing is
   dropped, but training_mode is popped when outputs 1 and 2 are unused. *)
Fixpoint drop_trailing (keep : vid -> bool) (l : list vid) : list vid :=
  match l with
  | [] => []
  | x :: r => match drop_trailing keep r with
              | [] => if keep x then [x] else []
              | r' => x :: r'
              end
  end.
Definition trim_outputs (sc : schema) (unnamed : list vid) (has_opset : bool) (m : model) (gouts : list vid) (n : node) : node :=
  if negb has_opset then n else
  match opt_flags sc (n_op n) with
  | None => n
  | Some flags =>
    let used v := memN v gouts || has_uses m v in
    if str_eqb (snd (fst (n_op n))) STR_BatchNormalization then
      let u i := match nth_error (n_outs n) i with Some v => used v | None => false end in
      if u 1%nat || u 2%nat then n
      else mkNode (n_op n) (filter (fun ka => negb (str_eqb (fst ka) STR_training_mode)) (n_attrs n)) (n_ins n) (n_outs n)
    else
      match flags with
      | [] => n
      | _ =>
        let cleared := map fst (filter (fun vi => negb (used (fst vi)) && nth (snd vi) flags false)
                                       (combine (n_outs n) (seq 0 (length (n_outs n))))) in
        mkNode (n_op n) (n_attrs n) (n_ins n)
               (drop_trailing (fun v => negb (memN v cleared) && negb (memN v unnamed)) (n_outs n))
      end
  end.

Section DCE.
  Variable sc : schema.
  Variable unnamed : list vid.
  Variable opset_graphs : list gref.     (* graphs/functions whose opset_imports has the "" domain *)
  Definition gref_eqb (a b : gref) : bool :=
    match a, b with GMain, GMain => true | GSub x, GSub y => N.eqb x y | GFunc i, GFunc j => Nat.eqb i j | _, _ => false end.

  Fixpoint dce_graph (fuel : nat) (r : gref) (m : model) : model :=
    match fuel with
    | O => m
    | S f =>
      match get_gref m r with
      | None => m
      | Some g0 =>
        let gouts := g_outs g0 in
        let has_opset := existsb (gref_eqb r) opset_graphs in
        (fix loop (keys : list vid) (m : model) : model :=
           match keys with
           | [] => m
           | k :: rest =>
             match get_node m k with
             | None => loop rest m
             | Some n =>
               (* `output in graph_outputs or output.uses()`: on valid models (outputs local to their
                  graph, checked by outputs_localb) "is an output of this graph" = "is a graph output" *)
               if forallb (fun o => negb (is_graph_output m o) && negb (has_uses m o)) (n_outs n)
               then loop rest (remove_node k m)
               else
                 let m1 := update_node k trim_node m in
                 let m2 := update_node k (trim_outputs sc unnamed has_opset m1 gouts) m1 in
                 let m3 := fold_left (fun m sg => dce_graph f (GSub sg) m)
                                     (attr_graphs (n_attrs (trim_outputs sc unnamed has_opset m1 gouts (trim_node n)))) m2 in
                 loop rest m3
             end
           end) (rev (map node_key (g_nodes g0))) m
      end
    end.

  Definition remove_unused_inits (m : model) : model :=
    let g := m_main m in
    mkModel (set_inits g (filter (fun vt => has_uses m (fst vt) || memN (fst vt) (g_outs g) || memN (fst vt) (g_ins g)) (g_inits g)))
            (m_subs m) (m_funcs m).

  Definition dce (fuel : nat) (m : model) : model :=
    let m1 := dce_graph fuel GMain m in
    let m2 := remove_unused_inits m1 in
    fold_left (fun m r => dce_graph fuel r m) (func_refs m2) m2.
End DCE.

(* ---------------------------------------------------------------- IdentityEliminationPass *)
Definition STR_Identity : str := [73;100;101;110;116;105;116;121].
Definition OP_Identity : opid := ([], STR_Identity, []).
Definition is_identity_op (op : opid) : bool := let '(d, n, _) := op in str_eqb d [] && str_eqb n STR_Identity.

(* x is produced by a node of the graph that holds node k (input_value.producer().graph is node.graph) *)
Definition produced_beside (m : model) (k x : vid) : bool :=
  existsb (fun g => existsb (has_key k) (g_nodes g) && memN x (flat_map n_outs (g_nodes g))) (graphs_of m).
Definition try_elim_identity (m : model) (k : vid) : model :=
  match get_node m k with
  | None => m
  | Some n =>
    if negb (is_identity_op (n_op n)) then m else
    match n_ins n, n_outs n with
    | [Some x], [y] =>
      if is_graph_output m y && (is_graph_input m x || is_initializer m x) then m
      else if is_graph_output m y && is_graph_output m x then m               (* af1b46d: both are graph outputs *)
      else if is_graph_output m y && negb (produced_beside m k x) then m      (* 0f568df: outer-scope input *)
      else remove_node k (replace_uses true y x m)
    | _, _ => m
    end
  end.

Definition identity_elim (fuel : nat) (m : model) : model :=
  let m1 := fold_left (fun m rk => try_elim_identity m (snd rk)) (rec_nodes fuel m GMain) m in
  fold_left (fun m r => fold_left (fun m rk => try_elim_identity m (snd rk)) (rec_nodes fuel m r) m) (func_refs m1) m1.

(* ---------------------------------------------------------------- CommonSubexpressionEliminationPass *)
(* Python float equality on IEEE-754 double bit patterns: +0.0 == -0.0, NaN != NaN *)
Definition dbl_is_nan (b : Z) : bool :=
  let e := Z.land (Z.shiftr b 52) 2047 in let f := Z.land b 4503599627370495 in Z.eqb e 2047 && negb (Z.eqb f 0).
Definition dbl_is_zero (b : Z) : bool := Z.eqb (Z.land b 9223372036854775807) 0.
Definition pyfloat_eqb (a b : Z) : bool :=
  if dbl_is_nan a || dbl_is_nan b then false else (dbl_is_zero a && dbl_is_zero b) || Z.eqb a b.

(* numpy fixed-width bytes view of a string tensor: (len, bytes)* -> width, NUL-padded rows *)
Fixpoint split_strings (fuel : nat) (l : list Z) : list (list Z) :=
  match fuel with
  | O => []
  | S f => match l with
           | [] => []
           | n :: r => firstn (Z.to_nat (Z.min n 4096)) r :: split_strings f (skipn (Z.to_nat (Z.min n 4096)) r)
           end
  end.
Definition pad_to (w : nat) (s : list Z) : list Z := s ++ repeat 0%Z (w - length s).
Definition np_S_view (data : list Z) : Z * list Z :=
  let ss := split_strings (S (length data)) data in
  let w := fold_left Nat.max (map (@length Z) ss) 1%nat in
  (Z.of_nat w, flat_map (pad_to w) ss).

(* ranks are clamped so that a malformed payload can never make Z.to_nat build a huge nat *)
Definition rk (rank : Z) : nat := Z.to_nat (Z.min rank 32).
(* the hashable key the pass builds from one attribute value *)
Definition tensor_payload_size (p : list Z) : Z :=
  match p with
  | _ :: rank :: r => fold_left Z.mul (firstn (rk rank) r) 1%Z
  | _ => 0%Z
  end.
(* af1d2e4: FLOAT/FLOATS are compared through float.hex() (bit pattern; every NaN prints "nan": the converter
   canonicalises NaN payloads), string tensors through their exact byte strings: the key is the payload itself *)
Definition cse_value_eqb (ty : N) (p q : list Z) : bool := list_eqb Z.eqb p q.
Definition cse_attr_eqb (a b : str * attr) : bool :=
  str_eqb (fst a) (fst b) &&
  match snd a, snd b with
  | AData t p, AData t' q => if N.eqb t t' then cse_value_eqb t p q else false   (* `if`, not &&: vm_compute is eager *)
  | ARef t r, ARef t' r' => N.eqb t t' && str_eqb r r'
  | _, _ => false
  end.

Definition is_nondet (op : opid) : bool := let '(d, n, _) := op in existsb (str_eqb n) nondet_ops && str_eqb d [].

Definition cse_skip (size_limit : Z) (n : node) : bool :=
  existsb (fun ka => is_graph_attr (snd ka)) (n_attrs n)
  || existsb (fun ka => match snd ka with AData t p => if N.eqb t TY_TENSOR then Z.ltb size_limit (tensor_payload_size p) else false | _ => false end) (n_attrs n)
  || is_nondet (n_op n).
Definition cse_key_eqb (a b : node) : bool :=
  opid_eqb (n_op a) (n_op b) && Nat.eqb (length (n_outs a)) (length (n_outs b))
  && list_eqb (option_eqb N.eqb) (n_ins a) (n_ins b) && list_eqb cse_attr_eqb (n_attrs a) (n_attrs b).

(* _remove_node_and_replace_values on the main graph: graph outputs first (an Identity node with a
   fresh output when the surviving value is itself a graph input/output), then all uses, then
   removal.  Returns the model and the fresh-id counter. *)
Definition insert_before (k : vid) (nn : node) (ns : list node) : list node :=
  flat_map (fun n => if has_key k n then [nn; n] else [n]) ns.
(* The output list of the main graph is rewritten position by position (af1d2e4: a value met again reuses its
   replacement).  `done` = the already rewritten prefix (reversed), `todo` = the untouched suffix: is_graph_output of a
   candidate is evaluated on the CURRENT list done ++ todo and on the other graphs.  Result: new outputs, the Identity
   nodes to insert before the removed node, next fresh id. *)
Definition other_graphs (m : model) : list graph := map snd (m_subs m) ++ map f_body (m_funcs m).
Fixpoint alias_plan (m : model) (pairs aliases : list (vid * vid)) (done todo : list vid) (fresh : N)
  : list vid * list node * N :=
  match todo with
  | [] => (rev done, [], fresh)
  | o :: rest =>
    match alookup aliases o with
    | Some r => alias_plan m pairs aliases (r :: done) rest fresh
    | None =>
      match alookup pairs o with
      | Some w =>
        if memN w done || memN w todo || existsb (fun g => memN w (g_outs g)) (other_graphs m) || is_graph_input m w then
          let '(outs, ids, fr) := alias_plan m pairs ((o, fresh) :: aliases) (fresh :: done) rest (fresh + 1) in
          (outs, mkNode OP_Identity [] [Some w] [fresh] :: ids, fr)
        else alias_plan m pairs ((o, w) :: aliases) (w :: done) rest fresh
      | None => alias_plan m pairs aliases (o :: done) rest fresh
      end
    end
  end.

Definition cse_replace (m : model) (rem keep : node) (fresh : N) : model * N :=
  let pairs := combine (n_outs rem) (n_outs keep) in
  let k := node_key rem in
  let '(outs, ids, fr) :=
      if existsb (is_graph_output m) (n_outs rem)
      then alias_plan m pairs [] [] (g_outs (m_main m)) fresh
      else (g_outs (m_main m), [], fresh) in
  let m2 := fold_left (fun m vw => replace_uses false (fst vw) (snd vw) m) pairs m in
  let g := m_main m2 in
  let g' := mkGraph (g_ins g) (g_inits g) (flat_map (fun n => if has_key k n then ids ++ [n] else [n]) (g_nodes g)) outs in
  (remove_node k (mkModel g' (m_subs m2) (m_funcs m2)), fr).

(* 87b8ce6: the key also says WHICH outputs are omitted (empty name; `omitted` = the identities of such outputs): a node that
   omits an optional output is not merged with one that uses it *)
Definition cse_key_eqb_u (omitted : list vid) (a b : node) : bool :=
  list_eqb Bool.eqb (map (fun v => memN v omitted) (n_outs a)) (map (fun v => memN v omitted) (n_outs b)) && cse_key_eqb a b.
Fixpoint cse_loop (omitted : list vid) (size_limit : Z) (keys : list vid) (seen : list vid) (m : model) (fresh : N) : model * N :=
  match keys with
  | [] => (m, fresh)
  | k :: rest =>
    match find (has_key k) (g_nodes (m_main m)) with
    | None => cse_loop omitted size_limit rest seen m fresh
    | Some n =>
      if cse_skip size_limit n then cse_loop omitted size_limit rest seen m fresh
      else
        match find (fun k' => match find (has_key k') (g_nodes (m_main m)) with
                              | Some n' => cse_key_eqb_u omitted n' n | None => false end) seen with
        | Some k' =>
          match find (has_key k') (g_nodes (m_main m)) with
          | Some keep => let '(m', fr) := cse_replace m n keep fresh in cse_loop omitted size_limit rest seen m' fr
          | None => cse_loop omitted size_limit rest seen m fresh
          end
        | None => cse_loop omitted size_limit rest (seen ++ [k]) m fresh
        end
    end
  end.
Definition cse (omitted : list vid) (size_limit : Z) (m : model) (fresh : N) : model * N :=
  cse_loop omitted size_limit (map node_key (g_nodes (m_main m))) [] m fresh.

(* ---------------------------------------------------------------- DeduplicateInitializersPass *)
Definition tensor_size (t : tensor) : Z := fold_left Z.mul (t_shape t) 1%Z.
(* `keyeq`: equality of the dictionary keys.  DeduplicateInitializersPass: the key is (dtype, shape, bytes) itself
   (tensor_eqb).  DeduplicateHashedInitializersPass: (dtype, shape, sha512 of the numpy buffer) — modelled as equality of
   the hashed buffer, which for string tensors is the NUL-padded fixed-width view — followed by the exact comparison; on
   a key match with different contents the initializer is skipped WITHOUT being registered. *)
Definition tensor_hash_eqb (a b : tensor) : bool :=
  Z.eqb (t_dtype a) (t_dtype b) && list_eqb Z.eqb (t_shape a) (t_shape b)
  && (if Z.eqb (t_dtype a) DT_STRING
      then let '(w, x) := np_S_view (t_data a) in let '(w', x') := np_S_view (t_data b) in Z.eqb w w' && list_eqb Z.eqb x x'
      else list_eqb Z.eqb (t_data a) (t_data b)).
Definition dedup_graph_loop (keyeq : tensor -> tensor -> bool) (size_limit : Z) (r : gref)
  : list (vid * tensor) -> list (vid * tensor) -> model -> model :=
  fix loop (inits : list (vid * tensor)) (seen : list (vid * tensor)) (m : model) : model :=
    match inits with
    | [] => m
    | (v, t) :: rest =>
      if is_graph_input m v || is_graph_output m v || Z.ltb size_limit (tensor_size t) then loop rest seen m
      else match find (fun wt => keyeq (snd wt) t) seen with
           | Some (w, t') =>
             if tensor_eqb t' t then
               let m1 := replace_uses false v w m in
               loop rest seen (map_graphs (fun g => set_inits g (filter (fun vt => negb (N.eqb (fst vt) v)) (g_inits g))) m1)
             else loop rest seen m
           | None => loop rest (seen ++ [(v, t)]) m
           end
    end.
(* model.graphs(): the main graph and every subgraph reachable from it (given as grefs) *)
Definition dedup_inits (keyeq : tensor -> tensor -> bool) (size_limit : Z) (order : list gref) (m : model) : model :=
  fold_left (fun m r => match get_gref m r with
                        | Some g => dedup_graph_loop keyeq size_limit r (g_inits g) [] m
                        | None => m end) order m.

(* ---------------------------------------------------------------- LiftConstantsToInitializersPass *)
Definition STR_Constant : str := [67;111;110;115;116;97;110;116].
Definition STR_value : str := [118;97;108;117;101].
Definition is_constant_op (op : opid) : bool := let '(d, n, _) := op in dom_onnx d && str_eqb n STR_Constant.
(* the tensor a Constant attribute denotes is computed by the harness-independent function below for
   `value` (payload = dtype :: rank :: dims ++ data); the other attribute forms are converted by
   numpy in the code and are given to the model as a table kind -> tensor by the converter
   (const_tensors: node key -> tensor), modelled not verified. *)
Definition tensor_of_value_payload (p : list Z) : option tensor :=
  match p with
  | dt :: rank :: r => Some (mkTensor dt (firstn (rk rank) r) (skipn (rk rank) r))
  | _ => None
  end.
Definition lift_tensor (lift_all : bool) (size_limit : Z) (other : list (vid * tensor)) (k : vid) (name : str) (a : attr) : option tensor :=
  match a with
  | AData ty p =>
    let t := if str_eqb name STR_value then (if N.eqb ty TY_TENSOR then tensor_of_value_payload p else None)
             else if lift_all then alookup other k else None in
    match t with
    | Some t => if Z.ltb (tensor_size t) size_limit then None else Some t
    | None => None
    end
  | _ => None
  end.
Definition owner_of (m : model) (k : vid) : option gref :=
  if existsb (has_key k) (g_nodes (m_main m)) then Some GMain
  else match find (fun p => existsb (has_key k) (g_nodes (snd p))) (m_subs m) with
       | Some p => Some (GSub (fst p))
       | None => None
       end.
Definition try_lift_constant (lift_all : bool) (size_limit : Z) (other : list (vid * tensor)) (st : model * N) (rk : gref * vid) : model * N :=
  let '(m, fresh) := st in
  let k := snd rk in
  match get_node m k with
  | None => st
  | Some n =>
    if negb (is_constant_op (n_op n)) then st else
    match n_outs n, n_attrs n with
    | y :: _, [(name, a)] =>
      if is_graph_output m y then st else
      match lift_tensor lift_all size_limit other k name a with
      | None => st
      | Some t =>
        let m1 := map_graphs (fun g => if existsb (has_key k) (g_nodes g) then set_inits g (g_inits g ++ [(fresh, t)]) else g) m in
        let m2 := replace_uses false y fresh m1 in
        (remove_node k m2, fresh + 1)
      end
    | _, _ => st
    end
  end.
Definition lift_constants (fuel : nat) (lift_all : bool) (size_limit : Z) (other : list (vid * tensor)) (m : model) (fresh : N) : model * N :=
  fold_left (try_lift_constant lift_all size_limit other) (rec_nodes fuel m GMain) (m, fresh).

(* ---------------------------------------------------------------- OutputFixPass *)
Fixpoint alias_multi (outs : list vid) (seen : list vid) (fresh : N) : list vid * list node * N :=
  match outs with
  | [] => ([], [], fresh)
  | o :: r =>
    if memN o seen then
      let '(r', ns, fr) := alias_multi r seen (fresh + 1) in
      (fresh :: r', mkNode OP_Identity [] [Some o] [fresh] :: ns, fr)
    else let '(r', ns, fr) := alias_multi r (o :: seen) fresh in (o :: r', ns, fr)
  end.
Fixpoint alias_direct (m : model) (outs : list vid) (fresh : N) : list vid * list node * N :=
  match outs with
  | [] => ([], [], fresh)
  | o :: r =>
    if is_graph_input m o then
      let '(r', ns, fr) := alias_direct m r (fresh + 1) in
      (fresh :: r', mkNode OP_Identity [] [Some o] [fresh] :: ns, fr)
    else let '(r', ns, fr) := alias_direct m r fresh in (o :: r', ns, fr)
  end.
Definition fix_graph_multi (st : model * N) (r : gref) : model * N :=
  let '(m, fresh) := st in
  match get_gref m r with
  | None => st
  | Some g => let '(outs, ns, fr) := alias_multi (g_outs g) [] fresh in
              (upd_gref r (fun g => mkGraph (g_ins g) (g_inits g) (g_nodes g ++ ns) outs) m, fr)
  end.
Definition fix_graph_direct (st : model * N) (r : gref) : model * N :=
  let '(m, fresh) := st in
  match get_gref m r with
  | None => st
  | Some g => let '(outs, ns, fr) := alias_direct m (g_outs g) fresh in
              (* the old output is renamed "<name>_orig": renaming a Value that is an initializer re-registers it,
                 which moves it to the end of the initializer table *)
              let renamed := filter (is_graph_input m) (g_outs g) in
              let inits' := fold_left (fun l o => match alookup l o with
                                                  | Some t => filter (fun vt => negb (N.eqb (fst vt) o)) l ++ [(o, t)]
                                                  | None => l end) renamed (g_inits g) in
              (upd_gref r (fun g => mkGraph (g_ins g) inits' (g_nodes g ++ ns) outs) m, fr)
  end.
(* `scopes`: per graph-like (main, then each function) the list [itself; its subgraphs...] in the
   order of Graph.subgraphs(), given by the converter *)
Definition output_fix (scopes : list (list gref)) (m : model) (fresh : N) : model * N :=
  fold_left (fun st sc => fold_left fix_graph_direct sc (fold_left fix_graph_multi sc st)) scopes (m, fresh).

(* ---------------------------------------------------------------- input/initializer conversions *)
Definition remove_inits_from_inputs (order : list gref) (m : model) : model :=
  fold_left (fun m r => upd_gref r (fun g => set_ins g (filter (fun v => negb (memN v (map fst (g_inits g)))) (g_ins g))) m) order m.
Definition add_inits_to_inputs (order : list gref) (m : model) : model :=
  fold_left (fun m r => upd_gref r (fun g => set_ins g (g_ins g ++ filter (fun v => negb (memN v (g_ins g))) (map fst (g_inits g)))) m) order m.

(* LiftSubgraphInitializersToMainGraphPass (names are outside the model: only the move) *)
Definition lift_subgraph_inits (order : list gref) (m : model) : model :=
  fold_left (fun m r =>
    match r, get_gref m r with
    | GSub _, Some g =>
      let moved := filter (fun vt => negb (is_graph_input m (fst vt)) && negb (is_graph_output m (fst vt))) (g_inits g) in
      let kept := filter (fun vt => is_graph_input m (fst vt) || is_graph_output m (fst vt)) (g_inits g) in
      let m1 := upd_gref r (fun g => set_inits g kept) m in
      upd_gref GMain (fun g => set_inits g (g_inits g ++ moved)) m1
    | _, _ => m
    end) order m.

(* ---------------------------------------------------------------- AddDefaultAttributesPass *)
(* `defaults`: per operator id the schema's optional attributes that have a default value (name, value), as read by
   the harness from onnx.defs with the calls the pass makes (modelled, not verified).  A default is added when the node
   has no attribute of that name; the converter lists attributes sorted by name, so the model inserts in name order. *)
Fixpoint str_ltb (a b : str) : bool :=
  match a, b with
  | [], [] => false
  | [], _ :: _ => true
  | _ :: _, [] => false
  | x :: a', y :: b' => if N.ltb x y then true else if N.eqb x y then str_ltb a' b' else false
  end.
Fixpoint insert_attr (ka : str * attr) (l : list (str * attr)) : list (str * attr) :=
  match l with
  | [] => [ka]
  | x :: r => if str_ltb (fst ka) (fst x) then ka :: l else x :: insert_attr ka r
  end.
Definition has_attr (name : str) (l : list (str * attr)) : bool := existsb (fun ka => str_eqb (fst ka) name) l.
Definition add_attrs (attrs defs : list (str * attr)) : list (str * attr) :=
  fold_left (fun acc d => if has_attr (fst d) attrs then acc else insert_attr d acc) defs attrs.
Definition defaults_table := list (opid * list (str * attr)).
Definition op_defaults (tbl : defaults_table) (op : opid) : list (str * attr) :=
  match find (fun e => opid_eqb (fst e) op) tbl with Some e => snd e | None => [] end.
Definition add_defaults_node (tbl : defaults_table) (n : node) : node :=
  mkNode (n_op n) (add_attrs (n_attrs n) (op_defaults tbl (n_op n))) (n_ins n) (n_outs n).
(* only the nodes met by RecursiveGraphIterator from the main graph and the functions (`keys`) are visited; subgraphs of
   removed nodes that still hold uses stay in the table untouched *)
Definition add_defaults_at (tbl : defaults_table) (keys : list vid) (n : node) : node :=
  if memN (node_key n) keys then add_defaults_node tbl n else n.
Definition add_default_attrs_keys (tbl : defaults_table) (keys : list vid) (m : model) : model :=
  map_graphs (map_nodes (add_defaults_at tbl keys)) m.
Definition add_default_attrs (tbl : defaults_table) (fuel : nat) (m : model) : model :=
  add_default_attrs_keys tbl (map snd (rec_nodes fuel m GMain ++ flat_map (rec_nodes fuel m) (func_refs m))) m.

(* ---------------------------------------------------------------- RemoveUnusedFunctionsPass *)
Fixpoint used_funcs (fuel : nat) (m : model) (r : gref) (used : list opid) : list opid :=
  match fuel with
  | O => used
  | S f =>
    fold_left (fun used rk =>
      match get_node m (snd rk) with
      | None => used
      | Some n =>
        if existsb (opid_eqb (n_op n)) used then used else
        match find (fun i => match nth_error (m_funcs m) i with Some fn => opid_eqb (f_id fn) (n_op n) | None => false end)
                   (seq 0 (length (m_funcs m))) with
        | Some i => used_funcs f m (GFunc i) (n_op n :: used)
        | None => used
        end
      end) (rec_nodes (S f) m r) used
  end.
Definition keep_func (ids : list opid) (fn : func) : bool := existsb (opid_eqb (f_id fn)) ids.
Definition drop_funcs (ids : list opid) (m : model) : model :=
  mkModel (m_main m) (m_subs m) (filter (keep_func ids) (m_funcs m)).
Definition remove_unused_funcs (fuel : nat) (m : model) : model := drop_funcs (used_funcs fuel m GMain []) m.

(* A decidable certificate that dropping the functions outside `ids` cannot be observed from the main graph: `LN` is a set
   of node keys (the live region) containing the main graph and the kept function bodies, closed under "subgraph of a live
   node", whose calls go to kept functions only and whose inputs / outputs are never produced by a node outside LN.  Attribute
   parameters never carry graphs (so resolving a reference attribute cannot make a subgraph appear). *)
Definition no_graph_attrs (l : list (str * attr)) : bool := forallb (fun ka => negb (is_graph_attr (snd ka))) l.
Definition live_value (m : model) (LN : list vid) (w : vid) : bool :=
  match find_prod (all_nodes m) w with None => true | Some (n, _) => memN (node_key n) LN end.
Definition nodes_live (LN : list vid) (ns : list node) : bool := forallb (fun n => memN (node_key n) LN) ns.
Definition live_node_ok (m : model) (ids : list opid) (LN : list vid) (n : node) : bool :=
  forallb (fun g => match alookup (m_subs m) g with
                    | Some gr => nodes_live LN (g_nodes gr) && forallb (live_value m LN) (g_outs gr)
                    | None => true end) (attr_graphs (n_attrs n))
  && match find_func (m_funcs m) (n_op n) with
     | Some fn => keep_func ids fn && no_graph_attrs (n_attrs n) && no_graph_attrs (f_defaults fn)
                  && forallb (live_value m LN) (g_outs (f_body fn))
     | None => true end
  && forallb (fun o => match o with Some w => live_value m LN w | None => true end) (n_ins n).
Definition drop_closedb (m : model) (ids : list opid) (LN : list vid) : bool :=
  nodes_live LN (g_nodes (m_main m))
  && forallb (fun fn => negb (keep_func ids fn) || nodes_live LN (g_nodes (f_body fn))) (m_funcs m)
  && forallb (fun n => negb (memN (node_key n) LN) || live_node_ok m ids LN n) (all_nodes m)
  && forallb (live_value m LN) (g_outs (m_main m)).
(* the certificate RemoveUnusedFunctionsPass's model produces for itself *)
Definition kept_refs (ids : list opid) (m : model) : list gref :=
  map GFunc (filter (fun i => match nth_error (m_funcs m) i with Some fn => keep_func ids fn | None => false end)
                    (seq 0 (length (m_funcs m)))).
Definition live_keys (fuel : nat) (ids : list opid) (m : model) : list vid :=
  map snd (rec_nodes fuel m GMain ++ flat_map (rec_nodes fuel m) (kept_refs ids m)).
Definition rmfunc_ok (fuel : nat) (m : model) : bool :=
  let ids := used_funcs fuel m GMain [] in drop_closedb m ids (live_keys fuel ids m).
Definition dropped_bodies_no_inits (m : model) (ids : list opid) : bool :=
  forallb (fun fn => keep_func ids fn || match g_inits (f_body fn) with [] => true | _ :: _ => false end) (m_funcs m).
(* the pass as the proofs see it: the functions are dropped when the certificate holds (it does on every model whose
   scoping is sane: the correspondence would show a difference otherwise) *)
Definition remove_unused_funcs_checked (fuel : nat) (m : model) : model :=
  if rmfunc_ok fuel m && dropped_bodies_no_inits m (used_funcs fuel m GMain []) then remove_unused_funcs fuel m else m.

(* ---------------------------------------------------------------- reordering (TopologicalSortPass) *)
(* The exact order is C12's subject.  Here: the relation the sort must satisfy for semantics. *)
Fixpoint remove_first (n : node) (l : list node) : option (list node) :=
  match l with
  | [] => None
  | x :: r => if node_eqb x n then Some r else option_map (cons x) (remove_first n r)
  end.
Fixpoint perm_nodesb (a b : list node) : bool :=
  match a with
  | [] => match b with [] => true | _ => false end
  | x :: r => match remove_first x b with Some b' => perm_nodesb r b' | None => false end
  end.
Definition reorder_graphb (a b : graph) : bool :=
  list_eqb N.eqb (g_ins a) (g_ins b) && list_eqb init_eqb (g_inits a) (g_inits b)
  && perm_nodesb (g_nodes a) (g_nodes b) && list_eqb N.eqb (g_outs a) (g_outs b).
Definition reorder_modelb (a b : model) : bool :=
  reorder_graphb (m_main a) (m_main b)
  && list_eqb (fun p q => N.eqb (fst p) (fst q) && reorder_graphb (snd p) (snd q)) (m_subs a) (m_subs b)
  && list_eqb (fun f g => opid_eqb (f_id f) (f_id g) && reorder_graphb (f_body f) (f_body g)
                          && list_eqb nattr_eqb (f_defaults f) (f_defaults g)) (m_funcs a) (m_funcs b).

(* ---------------------------------------------------------------- structural validity *)
Fixpoint nodupN (l : list N) : bool := match l with [] => true | x :: r => negb (memN x r) && nodupN r end.
Definition all_formals (m : model) : list vid := flat_map g_ins (graphs_of m).
Definition all_outs (m : model) : list vid := flat_map n_outs (all_nodes m).
Definition defined_in (g : graph) (v : vid) : bool :=
  memN v (g_ins g) || memN v (map fst (g_inits g)) || memN v (flat_map n_outs (g_nodes g)).
(* the part of well-formedness the semantic theorems need *)
Definition wfb (m : model) : bool :=
  nodupN (all_outs m)                                          (* a value has one producer *)
  && nodupN (map fst (all_inits m))                            (* ... is registered once as initializer *)
  && forallb (fun v => negb (memN v (all_outs m))) (all_formals m)            (* formals are not produced *)
  && forallb (fun v => negb (memN v (all_outs m))) (map fst (all_inits m))    (* initializers are not produced *)
  && nodupN (map fst (m_subs m))
  && forallb (fun n => match n_outs n with [] => false | _ => true end) (all_nodes m).
(* what the ONNX checker additionally demands of graph outputs: they are defined in that very graph *)
Definition outputs_localb (m : model) : bool :=
  forallb (fun g => forallb (defined_in g) (g_outs g)) (graphs_of m).

(* ---------------------------------------------------------------- comparison used by the case files *)
(* renumber pass-created ids (>= base) by first occurrence so that both sides agree up to the
   choice of fresh identities *)
Definition graph_vids (g : graph) : list vid :=
  g_ins g ++ map fst (g_inits g)
  ++ flat_map (fun n => flat_map (fun o => match o with Some v => [v] | None => [] end) (n_ins n) ++ n_outs n) (g_nodes g)
  ++ g_outs g.
Fixpoint dedup_keep (l : list N) (seen : list N) : list N :=
  match l with [] => [] | x :: r => if memN x seen then dedup_keep r seen else x :: dedup_keep r (x :: seen) end.
Definition fresh_order (base : N) (m : model) : list vid :=
  dedup_keep (filter (fun v => N.leb base v) (flat_map graph_vids (graphs_of m))) [].
Fixpoint pos_in (v : vid) (l : list vid) (i : N) : option N :=
  match l with [] => None | x :: r => if N.eqb x v then Some i else pos_in v r (i + 1) end.
Definition renum (base : N) (ord : list vid) (v : vid) : vid :=
  if N.leb base v then match pos_in v ord 0 with Some i => base + i | None => v end else v.
Definition renum_node (f : vid -> vid) (n : node) : node :=
  mkNode (n_op n) (n_attrs n) (map (option_map f) (n_ins n)) (map f (n_outs n)).
Definition renum_graph (f : vid -> vid) (g : graph) : graph :=
  mkGraph (map f (g_ins g)) (map (fun vt => (f (fst vt), snd vt)) (g_inits g)) (map (renum_node f) (g_nodes g)) (map f (g_outs g)).
Definition canon (base : N) (m : model) : model := let f := renum base (fresh_order base m) in map_graphs (renum_graph f) m.

(* `impl` lists only the graphs reachable in the implementation's result; the model's table may
   keep unreachable ones (compared only through `orphans`, see the harness) *)
Definition model_agree (base : N) (mdl impl : model) : bool :=
  let a := canon base mdl in let b := canon base impl in
  graph_eqb (m_main a) (m_main b)
  && forallb (fun p => match alookup (m_subs a) (fst p) with Some g => graph_eqb g (snd p) | None => false end) (m_subs b)
  && list_eqb func_eqb (m_funcs a) (m_funcs b).

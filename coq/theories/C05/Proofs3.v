(* C05/Proofs3.v — per-pass preservation: each pass is a sequence of `rw` steps; `Pres` is the
   invariant carried through the folds. *)
From Coq Require Import ZArith NArith List Bool Lia.
From IRV Require Import Base.Exn Gen.C05Gen C05.Model C05.Proofs C05.Proofs2.
Import ListNotations.
Open Scope N_scope.

(* ---------------------------------------------------------------- syntactic facts *)
Lemma map_graphs_comp F G m : map_graphs G (map_graphs F m) = map_graphs (fun g => G (F g)) m.
Proof. unfold map_graphs. simpl. rewrite !map_map. reflexivity. Qed.
Lemma map_graphs_ext F G m : (forall g, F g = G g) -> map_graphs F m = map_graphs G m.
Proof.
  intros H. unfold map_graphs. rewrite H. f_equal.
  - apply map_ext. intros [k g]. simpl. rewrite H. reflexivity.
  - apply map_ext. intros f. rewrite H. reflexivity.
Qed.
Lemma map_graphs_id m : map_graphs (fun g => g) m = m.
Proof.
  unfold map_graphs. destruct m as [mm ss ff]. simpl. f_equal.
  - rewrite <- (map_id ss) at 2. apply map_ext. intros [k g]. reflexivity.
  - rewrite <- (map_id ff) at 2. apply map_ext. intros [i b d]. reflexivity.
Qed.

Lemma subst_ins_id n : subst_ins (fun v => v) n = n.
Proof.
  destruct n as [op at_ ins outs]. unfold subst_ins. simpl. f_equal.
  rewrite <- (map_id ins) at 2. apply map_ext. intros [v|]; reflexivity.
Qed.
Lemma has_key_subst k sg n : has_key k (subst_ins sg n) = has_key k n.
Proof. reflexivity. Qed.

Lemma sub1_notin v w l : ~ In v l -> map (sub1 v w) l = l.
Proof.
  induction l as [|x l IH]; simpl; intros H; [reflexivity|].
  rewrite IH by tauto. unfold sub1. destruct (N.eqb x v) eqn:E; [apply N.eqb_eq in E; subst; tauto | reflexivity].
Qed.

Lemma NoDup_flat_map_same {A B} (f : A -> list B) l a b x :
  NoDup (flat_map f l) -> In a l -> In b l -> In x (f a) -> In x (f b) -> a = b \/ False.
Proof.
  induction l as [|c l IH]; simpl; intros Hnd Ha Hb Hxa Hxb; [contradiction|].
  assert (Hsplit : forall y, In y (f c) -> In y (flat_map f l) -> False).
  { clear - Hnd. induction (f c) as [|z fc IHf]; simpl in *; intros y [].
    - subst. inversion Hnd; subst. intros Hy. apply H1. apply in_app_iff. right. exact Hy.
    - inversion Hnd; subst. apply IHf; assumption. }
  destruct Ha as [<-|Ha], Hb as [<-|Hb].
  - left. reflexivity.
  - exfalso. apply (Hsplit x Hxa). apply in_flat_map. eauto.
  - exfalso. apply (Hsplit x Hxb). apply in_flat_map. eauto.
  - apply IH; auto. eapply NoDup_app_remove_l. exact Hnd.
Qed.

Lemma producer_unique m n n' x : WF m -> In n (all_nodes m) -> In n' (all_nodes m) -> In x (n_outs n) -> In x (n_outs n') -> n = n'.
Proof. intros HW H1 H2 H3 H4. destruct (NoDup_flat_map_same n_outs _ n n' x (wf_outs m HW) H1 H2 H3 H4); tauto. Qed.

Lemma get_node_spec m k n : get_node m k = Some n -> In n (all_nodes m) /\ has_key k n = true.
Proof. unfold get_node. intros E. apply find_some in E. exact E. Qed.

Lemma has_key_first k n : has_key k n = true -> n_outs n <> [] -> In k (n_outs n).
Proof.
  unfold has_key, node_key. destruct (n_outs n) as [|y r]; [congruence|]. intros E _. apply N.eqb_eq in E. left. exact E.
Qed.

Lemma strip_spec l : exists k, l = strip_trailing_none l ++ repeat None k.
Proof.
  induction l as [|x l [k IH]]; [exists O; reflexivity|]. simpl.
  destruct (strip_trailing_none l) as [|y r] eqn:E.
  - destruct x as [v|].
    + exists k. simpl. f_equal. exact IH.
    + exists (S k). simpl. f_equal. exact IH.
  - exists k. simpl. f_equal. exact IH.
Qed.

Definition trim_at (k : vid) (n : node) : node := if has_key k n then trim_node n else n.
Lemma tr_ok_trim k : tr_ok (trim_at k).
Proof.
  intros n. unfold trim_at. destruct (has_key k n); [|apply tr_ok_id].
  simpl. repeat split. destruct (strip_spec (n_ins n)) as [j Hj].
  exists (strip_trailing_none (n_ins n)), j, O. simpl. rewrite app_nil_r. auto.
Qed.

Section Passes.
  Variable T : Type.
  Variable absent : T.
  Variable tensor_val : tensor -> T.
  Variable interp : opid -> list (str * attr) -> list (subfn T) -> list T -> nat -> option (list T).
  Hypothesis interp_mono : forall op attrs subs subs' ins k r,
      Forall2 (sub_le T) subs subs' -> interp op attrs subs ins k = Some r -> interp op attrs subs' ins k = Some r.
  Hypothesis interp_identity : forall op attrs subs x,
      is_identity_op op = true -> interp op attrs subs [x] 1%nat = Some [x].
  Hypothesis interp_trailing_absent : forall op attrs subs ins k,
      interp op attrs subs (ins ++ [absent]) k = interp op attrs subs ins k.

  Notation computes := (computes absent tensor_val interp).

  (* no model-local function shadows the Identity / Constant operators *)
  Definition NoOpFunc (m : model) : Prop :=
    forall op, is_identity_op op = true \/ is_constant_op op = true -> find_func (m_funcs m) op = None.

  Record Pres (m m' : model) : Prop := {
    pr_wf : WF m';
    pr_nf : NoOpFunc m';
    pr_formals : all_formals m' = all_formals m;
    pr_comp : forall env r, env_ok T (formal_of m) env -> computes m env r -> computes m' env r;
    pr_ins : g_ins (m_main m') = g_ins (m_main m);
    pr_nouts : length (g_outs (m_main m')) = length (g_outs (m_main m)) }.

  Lemma Pres_refl m : WF m -> NoOpFunc m -> Pres m m.
  Proof. intros. constructor; auto. Qed.
  Lemma Pres_trans m1 m2 m3 : Pres m1 m2 -> Pres m2 m3 -> Pres m1 m3.
  Proof.
    intros [a1 b1 c1 d1 e1 f1] [a2 b2 c2 d2 e2 f2]. constructor; auto; try congruence.
    intros env r He Hc. apply d2; [|apply d1; assumption].
    intros v t Hv. unfold formal_of. rewrite c1. apply (He v t Hv).
  Qed.
  Lemma Pres_fold {A} (step : model -> A -> model) l :
    (forall m a, WF m -> NoOpFunc m -> Pres m (step m a)) ->
    forall m, WF m -> NoOpFunc m -> Pres m (fold_left step l m).
  Proof.
    intros Hs. induction l as [|a l IH]; intros m HW HN; simpl; [apply Pres_refl; assumption|].
    eapply Pres_trans; [apply Hs; assumption|]. destruct (Hs m a HW HN). apply IH; assumption.
  Qed.

  Lemma NoOpFunc_rw tr sg p inits m : NoOpFunc m -> NoOpFunc (rw tr sg p inits m).
  Proof. intros H op Hop. unfold rw, mk2. simpl. rewrite find_func_map, (H op Hop). reflexivity. Qed.


  (* a generic step whose initializer tables are unchanged and L = everything *)
  Lemma rw_pres_total tr sg p m :
    WF m -> NoOpFunc m -> tr_ok tr ->
    (forall v, formal_of m v -> sg v = v) ->
    (forall v t, alookup (all_inits m) v = Some t -> sg v = v) ->
    (forall v n i, alookup (all_inits m) v = None -> find_prod (all_nodes m) v = Some (n, i) ->
                   (p n = true /\ sg v = v)
                   \/ (i = O /\ is_identity_op (n_op n) = true /\ length (n_outs n) = 1%nat /\ exists x, n_ins n = [Some x] /\ sg v = sg x)) ->
    Pres m (rw tr sg p (fun _ => g_inits) m).
  Proof.
    intros HW HN Htr Hfix Hinit Hnode.
    assert (Hinits : all_inits (rw tr sg p (fun _ => g_inits) m) = all_inits m) by apply all_inits_rw_same.
    constructor.
    - apply WF_rw; auto; rewrite Hinits; [apply (wf_init_prod m HW) | apply (wf_inits_nodup m HW)].
    - apply NoOpFunc_rw. exact HN.
    - apply all_formals_rw.
    - intros env r He Hc.
      eapply (step_computes T absent tensor_val interp interp_mono interp_identity interp_trailing_absent
                            tr sg p (fun _ => g_inits) m (fun _ => True)); eauto.
      + intros g _. apply Forall_forall. auto.
      + intros v t _ Ei. rewrite Hinits, (Hinit v t Ei). auto.
      + intros v n i _ Ei Ep. destruct (Hnode v n i Ei Ep) as [[Hp Hs] | [Hi [Hid [Hlen Hx]]]].
        * left. rewrite Hinits. auto.
        * right. right. left. repeat split; auto.
    - reflexivity.
    - unfold rw, mk2. simpl. apply map_length.
  Qed.

  (* ------------------------------------------------------------ IdentityEliminationPass *)
  Lemma elim_eq k y x m :
    remove_node k (replace_uses true y x m) = rw (fun n => n) (sub1 y x) (fun n => negb (has_key k n)) (fun _ => g_inits) m.
  Proof.
    rewrite rw_map_graphs. unfold remove_node, replace_uses. rewrite map_graphs_comp. apply map_graphs_ext. intros g.
    unfold rw_graph, subst_graph, set_nodes. simpl. f_equal.
    rewrite filter_map_comm. reflexivity.
  Qed.

  Lemma ident_step m k : WF m -> NoOpFunc m -> Pres m (try_elim_identity m k).
  Proof.
    intros HW HN. unfold try_elim_identity.
    destruct (get_node m k) as [n|] eqn:Eg; [|apply Pres_refl; assumption].
    destruct (is_identity_op (n_op n)) eqn:Eid; simpl; [|apply Pres_refl; assumption].
    destruct (n_ins n) as [|[x|] [|? ?]] eqn:Ei; try (apply Pres_refl; assumption).
    destruct (n_outs n) as [|y [|? ?]] eqn:Eo; try (apply Pres_refl; assumption).
    destruct (is_graph_output m y && (is_graph_input m x || is_initializer m x)); [apply Pres_refl; assumption|].
    destruct (is_graph_output m y && is_graph_output m x); [apply Pres_refl; assumption|].
    destruct (is_graph_output m y && negb (produced_beside m k x)); [apply Pres_refl; assumption|].
    destruct (get_node_spec _ _ _ Eg) as [Hin Hk].
    assert (Hky : k = y). { unfold has_key, node_key in Hk. rewrite Eo in Hk. apply N.eqb_eq in Hk. auto. }
    assert (Hyout : In y (all_outs m)). { unfold all_outs. apply in_flat_map. exists n. rewrite Eo. simpl. auto. }
    rewrite elim_eq. apply rw_pres_total; auto using tr_ok_id.
    - intros v Hf. unfold sub1. destruct (N.eqb v y) eqn:E; [|reflexivity].
      apply N.eqb_eq in E. subst v. exfalso. exact (wf_formal m HW y Hf Hyout).
    - intros v t Et. unfold sub1. destruct (N.eqb v y) eqn:E; [|reflexivity].
      apply N.eqb_eq in E. subst v. exfalso. apply (wf_init_prod m HW y); [|exact Hyout].
      apply alookup_In in Et. apply in_map_iff. exists (y, t). auto.
    - intros v n0 i _ Ep. destruct (find_prod_In _ _ _ _ Ep) as [Hin0 Hidx]. apply index_of_In in Hidx as Hv.
      destruct (N.eqb v y) eqn:E.
      + apply N.eqb_eq in E. subst v. right.
        assert (n0 = n). { eapply producer_unique; eauto. rewrite Eo. left. reflexivity. } subst n0.
        rewrite Eo in Hidx. simpl in Hidx. rewrite N.eqb_refl in Hidx. injection Hidx as <-.
        repeat split; auto. { rewrite Eo. reflexivity. }
        exists x. split; [exact Ei|]. unfold sub1. rewrite N.eqb_refl. destruct (N.eqb x y) eqn:Ex; reflexivity.
      + left. split; [|unfold sub1; rewrite E; reflexivity].
        apply negb_true_iff. destruct (has_key k n0) eqn:Hk0; [|reflexivity]. exfalso.
        assert (In k (n_outs n0)). { apply has_key_first; auto. intros Hnil. rewrite Hnil in Hv. contradiction. }
        assert (n0 = n). { eapply producer_unique; eauto. rewrite Eo, Hky. left. reflexivity. } subst n0.
        rewrite Eo in Hv. simpl in Hv. apply N.eqb_neq in E. destruct Hv; [congruence | contradiction].
  Qed.

  Theorem identity_elim_pres fuel m : WF m -> NoOpFunc m -> Pres m (identity_elim fuel m).
  Proof.
    intros HW HN. unfold identity_elim.
    eapply Pres_trans.
    - apply (Pres_fold (fun m (rk : gref * vid) => try_elim_identity m (snd rk))); auto. intros; apply ident_step; assumption.
    - set (m1 := fold_left _ (rec_nodes fuel m GMain) m).
      assert (P1 : Pres m m1) by (apply (Pres_fold (fun m (rk : gref * vid) => try_elim_identity m (snd rk))); auto; intros; apply ident_step; assumption).
      destruct P1 as [HW1 HN1 _ _ _ _].
      apply (Pres_fold (fun m r => fold_left (fun m (rk : gref * vid) => try_elim_identity m (snd rk)) (rec_nodes fuel m r) m)); auto.
      intros m0 r HW0 HN0. apply (Pres_fold (fun m (rk : gref * vid) => try_elim_identity m (snd rk))); auto. intros; apply ident_step; assumption.
  Qed.

  (* ------------------------------------------------------------ RemoveUnusedNodesPass *)
  Lemma filter_true {A} (l : list A) : filter (fun _ => true) l = l.
  Proof. induction l; simpl; [reflexivity | rewrite IHl; reflexivity]. Qed.
  Lemma map_subst_id l : map (fun n => subst_ins (fun v => v) n) l = l.
  Proof. rewrite <- (map_id l) at 2. apply map_ext. intros; apply subst_ins_id. Qed.

  Lemma remove_eq k m : remove_node k m = rw (fun n => n) (fun v => v) (fun n => negb (has_key k n)) (fun _ => g_inits) m.
  Proof.
    rewrite rw_map_graphs. unfold remove_node. apply map_graphs_ext. intros g. unfold rw_graph, set_nodes.
    rewrite map_subst_id, map_id. reflexivity.
  Qed.
  Lemma update_trim_eq k m : update_node k trim_node m = rw (trim_at k) (fun v => v) (fun _ => true) (fun _ => g_inits) m.
  Proof.
    rewrite rw_map_graphs. unfold update_node. apply map_graphs_ext. intros g. unfold rw_graph, map_nodes, set_nodes.
    rewrite filter_true, map_id. f_equal. apply map_ext. intros n. rewrite subst_ins_id. reflexivity.
  Qed.
  Lemma update_id_eq k F m : (forall n, F n = n) -> update_node k F m = m.
  Proof.
    intros HF. unfold update_node. rewrite <- (map_graphs_id m) at 2. apply map_graphs_ext. intros g.
    unfold map_nodes, set_nodes. destruct g as [i t ns o]. simpl. f_equal.
    rewrite <- (map_id ns) at 2. apply map_ext. intros n. destruct (has_key k n); [apply HF | reflexivity].
  Qed.

  Lemma node_uses_false w n : node_uses w n = false -> ~ In (Some w) (n_ins n).
  Proof.
    unfold node_uses. intros H Hin. assert (existsb (fun o => match o with Some w0 => N.eqb w0 w | None => false end) (n_ins n) = true).
    { apply existsb_exists. exists (Some w). split; [exact Hin | apply N.eqb_refl]. } congruence.
  Qed.
  Lemma has_uses_false m w : has_uses m w = false -> forall n, In n (all_nodes m) -> ~ In (Some w) (n_ins n).
  Proof.
    unfold has_uses. intros H n Hn. apply node_uses_false.
    destruct (node_uses w n) eqn:E; [|reflexivity]. exfalso.
    assert (existsb (node_uses w) (all_nodes m) = true) by (apply existsb_exists; eauto). congruence.
  Qed.
  Lemma is_graph_output_false m o : is_graph_output m o = false -> forall g, In g (graphs_of m) -> ~ In o (g_outs g).
  Proof.
    unfold is_graph_output. intros H g Hg Hin.
    assert (existsb (fun g => memN o (g_outs g)) (graphs_of m) = true) by (apply existsb_exists; exists g; split; [exact Hg | apply memN_In; exact Hin]).
    congruence.
  Qed.

  Lemma dead_step m k n : WF m -> NoOpFunc m -> get_node m k = Some n ->
    forallb (fun o => negb (is_graph_output m o) && negb (has_uses m o)) (n_outs n) = true -> Pres m (remove_node k m).
  Proof.
    intros HW HN Eg Hdead. destruct (get_node_spec _ _ _ Eg) as [Hin Hk].
    assert (Hd : forall o, In o (n_outs n) -> is_graph_output m o = false /\ has_uses m o = false).
    { intros o Ho. rewrite forallb_forall in Hdead. specialize (Hdead o Ho). apply andb_prop in Hdead.
      destruct Hdead as [A B]. apply negb_true_iff in A. apply negb_true_iff in B. auto. }
    rewrite remove_eq.
    assert (Hinits : all_inits (rw (fun n => n) (fun v => v) (fun n => negb (has_key k n)) (fun _ => g_inits) m) = all_inits m) by apply all_inits_rw_same.
    constructor.
    - apply WF_rw; auto using tr_ok_id; rewrite Hinits; [apply (wf_init_prod m HW) | apply (wf_inits_nodup m HW)].
    - apply NoOpFunc_rw. exact HN.
    - apply all_formals_rw.
    - intros env r He Hc.
      eapply (step_computes T absent tensor_val interp interp_mono interp_identity interp_trailing_absent
                            (fun n => n) (fun v => v) (fun n => negb (has_key k n)) (fun _ => g_inits) m (fun v => ~ In v (n_outs n)));
        eauto using tr_ok_id.
      + intros n0 w Hn0 _ Hw Hwn. destruct (Hd w Hwn) as [_ Hu]. exact (has_uses_false m w Hu n0 Hn0 Hw).
      + intros g Hg. apply Forall_forall. intros o Ho Hon. destruct (Hd o Hon) as [Hgo _]. exact (is_graph_output_false m o Hgo g Hg Ho).
      + intros v t _ Ei. rewrite Hinits. auto.
      + intros v n0 i HL Ei Ep. left. rewrite Hinits. repeat split; auto.
        destruct (find_prod_In _ _ _ _ Ep) as [Hin0 Hidx]. apply index_of_In in Hidx as Hv.
        apply negb_true_iff. destruct (has_key k n0) eqn:Hk0; [|reflexivity]. exfalso.
        assert (In k (n_outs n0)). { apply has_key_first; auto. intros Hnil. rewrite Hnil in Hv. contradiction. }
        assert (Hne : n_outs n <> []) by (apply (wf_nonempty m HW); exact Hin).
        assert (n0 = n). { eapply producer_unique; eauto. apply has_key_first; auto. } subst n0. exact (HL Hv).
    - reflexivity.
    - unfold rw, mk2. simpl. apply map_length.
  Qed.

  Lemma trim_step m k : WF m -> NoOpFunc m -> Pres m (update_node k trim_node m).
  Proof.
    intros HW HN. rewrite update_trim_eq. apply rw_pres_total; auto using tr_ok_trim.
  Qed.

  (* what DCE never touches: the main initializer table (until remove_unused_inits) and the outputs of the other graphs *)
  Definition frame (m : model) : list (vid * tensor) * list vid :=
    (g_inits (m_main m), flat_map g_outs (map snd (m_subs m) ++ map f_body (m_funcs m))).
  Lemma frame_rw_id tr p m : frame (rw tr (fun v => v) p (fun _ => g_inits) m) = frame m.
  Proof.
    unfold frame, rw, mk2. simpl. f_equal. rewrite !map_map. rewrite !flat_map_app, !flat_map_map. simpl.
    f_equal; apply flat_map_ext'; intros; apply map_id.
  Qed.

  Definition PresF (m m' : model) : Prop := Pres m m' /\ frame m' = frame m.
  Lemma PresF_refl m : WF m -> NoOpFunc m -> PresF m m.
  Proof. intros. split; [apply Pres_refl; assumption | reflexivity]. Qed.
  Lemma PresF_trans a b c : PresF a b -> PresF b c -> PresF a c.
  Proof. intros [P1 F1] [P2 F2]. split; [eapply Pres_trans; eauto | congruence]. Qed.
  Lemma PresF_fold {A} (step : model -> A -> model) l :
    (forall m a, WF m -> NoOpFunc m -> PresF m (step m a)) ->
    forall m, WF m -> NoOpFunc m -> PresF m (fold_left step l m).
  Proof.
    intros Hs. induction l as [|a l IH]; intros m HW HN; simpl; [apply PresF_refl; assumption|].
    eapply PresF_trans; [apply Hs; assumption|]. destruct (Hs m a HW HN) as [[] _]. apply IH; assumption.
  Qed.

  Lemma trim_outputs_nil u ho m1 gouts n : trim_outputs [] u ho m1 gouts n = n.
  Proof.
    unfold trim_outputs. destruct (negb ho); [reflexivity|]. unfold opt_flags. destruct (n_op n) as [[d nm] ov].
    destruct (dom_onnx d); reflexivity.
  Qed.

  Lemma dce_graph_pres u ops : forall fuel r m, WF m -> NoOpFunc m -> PresF m (dce_graph [] u ops fuel r m).
  Proof.
    induction fuel as [|f IHf]; intros r m HW HN; simpl; [apply PresF_refl; assumption|].
    destruct (get_gref m r) as [g0|]; [|apply PresF_refl; assumption].
    generalize (rev (map node_key (g_nodes g0))) as keys. intros keys. revert m HW HN.
    induction keys as [|k rest IHk]; intros m HW HN; [apply PresF_refl; assumption|].
    destruct (get_node m k) as [n|] eqn:Eg; [|apply IHk; assumption].
    destruct (forallb _ (n_outs n)) eqn:Edead.
    - assert (P : Pres m (remove_node k m)) by (eapply dead_step; eauto).
      eapply PresF_trans; [split; [exact P | rewrite remove_eq; apply frame_rw_id]|].
      destruct P. apply IHk; assumption.
    - set (m1 := update_node k trim_node m).
      assert (P1 : Pres m m1) by (apply trim_step; assumption).
      assert (F1 : frame m1 = frame m) by (unfold m1; rewrite update_trim_eq; apply frame_rw_id).
      rewrite (update_id_eq k _ m1) by (intros; apply trim_outputs_nil).
      rewrite trim_outputs_nil.
      eapply PresF_trans; [split; [exact P1 | exact F1]|].
      destruct P1 as [HW1 HN1 _ _ _ _].
      eapply PresF_trans.
      + apply (PresF_fold (fun m sg => dce_graph [] u ops f (GSub sg) m)); auto.
      + destruct (PresF_fold (fun m sg => dce_graph [] u ops f (GSub sg) m) (attr_graphs (n_attrs (trim_node n)))
                             (fun m a HWm HNm => IHf (GSub a) m HWm HNm) m1 HW1 HN1) as [[] _].
        apply IHk; assumption.
  Qed.

  Lemma rw_graph_id g : rw_graph (fun n => n) (fun v => v) (fun _ => true) g_inits g = g.
  Proof. unfold rw_graph. rewrite filter_true, map_subst_id, map_id. destruct g; reflexivity. Qed.

  Definition keep_init (m : model) (vt : vid * tensor) : bool :=
    has_uses m (fst vt) || memN (fst vt) (g_outs (m_main m)) || memN (fst vt) (g_ins (m_main m)).
  Lemma remove_unused_inits_eq m :
    remove_unused_inits m = rw (fun n => n) (fun v => v) (fun _ => true)
                               (fun b g => if b then filter (keep_init m) (g_inits g) else g_inits g) m.
  Proof.
    unfold remove_unused_inits, rw, mk2. destruct m as [mm ss ff]. simpl. f_equal.
    - unfold rw_graph, set_inits. rewrite filter_true, map_subst_id, map_id. reflexivity.
    - rewrite <- (map_id ss) at 1. apply map_ext. intros [k g]. simpl. rewrite rw_graph_id. reflexivity.
    - rewrite <- (map_id ff) at 1. apply map_ext. intros [i b d]. simpl. rewrite rw_graph_id. reflexivity.
  Qed.

  Lemma alookup_app {A} (l1 l2 : list (N * A)) k :
    alookup (l1 ++ l2) k = match alookup l1 k with Some a => Some a | None => alookup l2 k end.
  Proof. induction l1 as [|[k' a] l1 IH]; simpl; [reflexivity|]. destruct (N.eqb k' k); [reflexivity | exact IH]. Qed.
  Lemma alookup_filter_keep {A} (q : N * A -> bool) (l : list (N * A)) k a :
    alookup l k = Some a -> (forall a', q (k, a') = true) -> alookup (filter q l) k = Some a.
  Proof.
    induction l as [|[k' a'] l IH]; simpl; intros E Hq; [discriminate|].
    destruct (N.eqb k' k) eqn:Ek.
    - apply N.eqb_eq in Ek. subst k'. injection E as <-. rewrite Hq. simpl. rewrite N.eqb_refl. reflexivity.
    - destruct (q (k', a')); simpl; [rewrite Ek|]; apply IH; assumption.
  Qed.
  Lemma alookup_filter_none {A} (q : N * A -> bool) (l : list (N * A)) k : alookup l k = None -> alookup (filter q l) k = None.
  Proof.
    induction l as [|[k' a'] l IH]; simpl; intros E; [reflexivity|].
    destruct (N.eqb k' k) eqn:Ek; [discriminate|]. destruct (q (k', a')); simpl; [rewrite Ek|]; apply IH; assumption.
  Qed.
  Lemma alookup_None_notin {A} (l : list (N * A)) k : alookup l k = None -> ~ In k (map fst l).
  Proof.
    induction l as [|[k' a'] l IH]; simpl; intros E; [tauto|].
    destruct (N.eqb k' k) eqn:Ek; [discriminate|]. apply N.eqb_neq in Ek. intros [H|H]; [congruence | exact (IH E H)].
  Qed.

  Lemma NoDup_map_fst_filter_app {A} (q : N * A -> bool) (a b : list (N * A)) :
    NoDup (map fst (a ++ b)) -> NoDup (map fst (filter q a ++ b)).
  Proof.
    induction a as [|x a IH]; simpl; intros H; [exact H|]. inversion H; subst.
    destruct (q x); simpl; [|apply IH; assumption]. constructor; [|apply IH; assumption].
    intros Hin. apply H2. rewrite map_app, in_app_iff in *. destruct Hin as [Hin|Hin]; [left|right; exact Hin].
    apply in_map_iff in Hin. destruct Hin as [y [E Hy]]. apply filter_In in Hy. apply in_map_iff. exists y. tauto.
  Qed.

  Lemma unused_inits_step m : WF m -> NoOpFunc m ->
    (forall o, In o (snd (frame m)) -> ~ In o (map fst (fst (frame m)))) -> Pres m (remove_unused_inits m).
  Proof.
    intros HW HN Hfr. rewrite remove_unused_inits_eq.
    set (inits := fun (b : bool) g => if b then filter (keep_init m) (g_inits g) else g_inits g).
    set (rest := flat_map g_inits (map snd (m_subs m) ++ map f_body (m_funcs m))).
    assert (Hall : all_inits m = g_inits (m_main m) ++ rest) by reflexivity.
    assert (Hall' : all_inits (rw (fun n => n) (fun v => v) (fun _ => true) inits m) = filter (keep_init m) (g_inits (m_main m)) ++ rest).
    { unfold all_inits, rw, mk2, graphs_of. simpl. f_equal. unfold rest. rewrite !map_map, !flat_map_app, !flat_map_map. reflexivity. }
    constructor.
    - apply WF_rw; auto using tr_ok_id.
      + intros v Hv. apply (wf_init_prod m HW). rewrite Hall', map_app, in_app_iff in Hv.
        rewrite Hall, map_app, in_app_iff. destruct Hv as [Hv|Hv]; [left|right; exact Hv].
        apply in_map_iff in Hv. destruct Hv as [vt [<- Hvt]]. apply filter_In in Hvt. apply in_map. tauto.
      + rewrite Hall'. pose proof (wf_inits_nodup m HW) as Hnd. rewrite Hall in Hnd.
        apply NoDup_map_fst_filter_app. exact Hnd.
    - apply NoOpFunc_rw. exact HN.
    - apply all_formals_rw.
    - intros env r He Hc.
      eapply (step_computes T absent tensor_val interp interp_mono interp_identity interp_trailing_absent
                            (fun n => n) (fun v => v) (fun _ => true) inits m
                            (fun v => forall t, alookup (g_inits (m_main m)) v = Some t -> keep_init m (v, t) = true));
        eauto using tr_ok_id.
      + intros n0 w Hn0 _ Hw t Et. unfold keep_init. simpl.
        destruct (has_uses m w) eqn:Eu; [reflexivity|]. exfalso. exact (has_uses_false m w Eu n0 Hn0 Hw).
      + intros g Hg. apply Forall_forall. intros o Ho t Et. unfold keep_init. simpl.
        destruct Hg as [<-|Hg].
        * apply memN_In in Ho. rewrite Ho. rewrite orb_true_r. reflexivity.
        * exfalso. apply (Hfr o).
          -- unfold frame. simpl. apply in_flat_map. exists g. split; [exact Hg | exact Ho].
          -- unfold frame. simpl. apply alookup_In in Et. apply in_map_iff. exists (o, t). auto.
      + intros v t HL Ei. rewrite Hall'. rewrite Hall, alookup_app in Ei. rewrite alookup_app. split; [|left; reflexivity].
        destruct (alookup (g_inits (m_main m)) v) as [t0|] eqn:E0.
        * injection Ei as <-. rewrite (alookup_filter_keep _ _ v t0 E0); [reflexivity|].
          intros a'. unfold keep_init. simpl. specialize (HL t0 eq_refl). unfold keep_init in HL. simpl in HL. exact HL.
        * rewrite (alookup_filter_none _ _ v E0). exact Ei.
      + intros v n0 i HL Ei Ep. left. repeat split; auto. rewrite Hall'. rewrite Hall, alookup_app in Ei. rewrite alookup_app.
        destruct (alookup (g_inits (m_main m)) v) eqn:E0; [discriminate|]. rewrite (alookup_filter_none _ _ v E0). exact Ei.
    - reflexivity.
    - unfold rw, mk2. simpl. apply map_length.
  Qed.

  Theorem dce_pres u ops fuel m : WF m -> NoOpFunc m ->
    (forall o, In o (snd (frame m)) -> ~ In o (map fst (fst (frame m)))) -> Pres m (dce [] u ops fuel m).
  Proof.
    intros HW HN Hfr. unfold dce.
    destruct (dce_graph_pres u ops fuel GMain m HW HN) as [P1 F1].
    set (m1 := dce_graph [] u ops fuel GMain m) in *.
    destruct P1 as [HW1 HN1 a1 b1 c1 d1].
    assert (P2 : Pres m1 (remove_unused_inits m1)) by (apply unused_inits_step; auto; rewrite F1; exact Hfr).
    set (m2 := remove_unused_inits m1) in *.
    eapply Pres_trans; [constructor; eassumption|]. eapply Pres_trans; [exact P2|].
    destruct P2 as [HW2 HN2 _ _ _ _].
    assert (H := PresF_fold (fun m r => dce_graph [] u ops fuel r m) (func_refs m2) (fun m a HWm HNm => dce_graph_pres u ops fuel a m HWm HNm) m2 HW2 HN2).
    exact (proj1 H).
  Qed.

  (* ------------------------------------------------------------ generic packaging with L = everything *)
  Lemma rw_pres_gen tr sg p inits m :
    WF m -> NoOpFunc m -> tr_ok tr ->
    NoDup (map fst (all_inits (rw tr sg p inits m))) ->
    (forall v, In v (map fst (all_inits (rw tr sg p inits m))) -> ~ In v (all_outs m)) ->
    (forall v, formal_of m v -> sg v = v) ->
    (forall v t, alookup (all_inits m) v = Some t ->
                 alookup (all_inits (rw tr sg p inits m)) (sg v) = Some t /\ (sg v = v \/ ~ formal_of m (sg v))) ->
    (forall v n i, alookup (all_inits m) v = None -> find_prod (all_nodes m) v = Some (n, i) ->
      (p n = true /\ sg v = v /\ alookup (all_inits (rw tr sg p inits m)) v = None)
      \/ (exists nk, find_prod (all_nodes m) (sg v) = Some (nk, i) /\ p nk = true /\ alookup (all_inits (rw tr sg p inits m)) (sg v) = None
                     /\ n_op nk = n_op n /\ n_attrs nk = n_attrs n /\ length (n_outs nk) = length (n_outs n)
                     /\ map (option_map sg) (n_ins nk) = map (option_map sg) (n_ins n))
      \/ (i = O /\ is_identity_op (n_op n) = true /\ length (n_outs n) = 1%nat /\ find_func (m_funcs m) (n_op n) = None
          /\ exists x, n_ins n = [Some x] /\ sg v = sg x)
      \/ (i = O /\ n_ins n = [] /\ length (n_outs n) = 1%nat /\ find_func (m_funcs m) (n_op n) = None
          /\ exists t, (forall aenv subs, interp (n_op n) (resolve aenv (n_attrs n)) subs [] 1%nat = Some [tensor_val t])
                       /\ alookup (all_inits (rw tr sg p inits m)) (sg v) = Some t /\ ~ formal_of m (sg v))) ->
    Pres m (rw tr sg p inits m).
  Proof.
    intros HW HN Htr Hnd Hnp Hfix Hinit Hnode. constructor.
    - apply WF_rw; auto.
    - apply NoOpFunc_rw. exact HN.
    - apply all_formals_rw.
    - intros env r He Hc.
      eapply (step_computes T absent tensor_val interp interp_mono interp_identity interp_trailing_absent
                            tr sg p inits m (fun _ => True)); eauto.
      intros g _. apply Forall_forall. auto.
    - reflexivity.
    - unfold rw, mk2. simpl. apply map_length.
  Qed.

  (* ------------------------------------------------------------ DeduplicateInitializersPass *)
  Lemma Zlist_eqb_eq a b : list_eqb Z.eqb a b = true -> a = b.
  Proof. apply list_eqb_eq. intros; apply Z.eqb_eq. Qed.
  Lemma tensor_eqb_eq a b : tensor_eqb a b = true -> a = b.
  Proof.
    unfold tensor_eqb. intros H. apply andb_prop in H. destruct H as [H H3]. apply andb_prop in H. destruct H as [H1 H2].
    apply Z.eqb_eq in H1. apply Zlist_eqb_eq in H2. apply Zlist_eqb_eq in H3. destruct a, b. simpl in *. congruence.
  Qed.

  Lemma map_graphs_ext_in F G m : (forall g, In g (graphs_of m) -> F g = G g) -> map_graphs F m = map_graphs G m.
  Proof.
    intros H. unfold map_graphs. f_equal.
    - apply H. left. reflexivity.
    - apply map_ext_in. intros [k g] Hin. simpl. rewrite H; [reflexivity|]. right. apply in_app_iff. left. apply in_map_iff. exists (k, g). auto.
    - apply map_ext_in. intros f Hin. rewrite H; [reflexivity|]. right. apply in_app_iff. right. apply in_map_iff. exists f. auto.
  Qed.

  Lemma alookup_NoDup_In {A} (l : list (N * A)) k a : NoDup (map fst l) -> In (k, a) l -> alookup l k = Some a.
  Proof.
    induction l as [|[k' a'] l IH]; simpl; intros Hnd Hin; [contradiction|]. inversion Hnd; subst.
    destruct Hin as [E|Hin].
    - injection E as -> ->. rewrite N.eqb_refl. reflexivity.
    - destruct (N.eqb k' k) eqn:Ek; [|apply IH; assumption]. apply N.eqb_eq in Ek. subst k'. exfalso. apply H1.
      apply in_map_iff. exists (k, a). auto.
  Qed.
  Lemma is_graph_input_false m v : is_graph_input m v = false -> ~ formal_of m v.
  Proof.
    unfold is_graph_input, formal_of, all_formals. intros H Hin. apply in_flat_map in Hin. destruct Hin as [g [Hg Hv]].
    assert (existsb (fun g => memN v (g_ins g)) (graphs_of m) = true) by (apply existsb_exists; exists g; split; [exact Hg | apply memN_In; exact Hv]).
    congruence.
  Qed.
  Lemma NoDup_map_fst_filter {A} (q : N * A -> bool) (l : list (N * A)) : NoDup (map fst l) -> NoDup (map fst (filter q l)).
  Proof. intros H. rewrite <- (app_nil_r (filter q l)). apply NoDup_map_fst_filter_app. rewrite app_nil_r. exact H. Qed.

  Definition drop_init (v : vid) (g : graph) : list (vid * tensor) := filter (fun vt => negb (N.eqb (fst vt) v)) (g_inits g).

  Lemma dedup_step m v w t : WF m -> NoOpFunc m -> In (v, t) (all_inits m) -> In (w, t) (all_inits m) -> v <> w ->
    is_graph_input m v = false -> is_graph_output m v = false -> is_graph_input m w = false ->
    Pres m (map_graphs (fun g => set_inits g (drop_init v g)) (replace_uses false v w m)).
  Proof.
    intros HW HN Hv Hw Hne Hvi Hvo Hwi.
    assert (Eq : map_graphs (fun g => set_inits g (drop_init v g)) (replace_uses false v w m)
                 = rw (fun n => n) (sub1 v w) (fun _ => true) (fun _ => drop_init v) m).
    { rewrite rw_map_graphs. unfold replace_uses. rewrite map_graphs_comp. apply map_graphs_ext_in. intros g Hg.
      unfold rw_graph, subst_graph, set_inits, drop_init. simpl. rewrite filter_true.
      rewrite (sub1_notin v w (g_outs g)); [reflexivity|]. exact (is_graph_output_false m v Hvo g Hg). }
    rewrite Eq.
    assert (Hall' : all_inits (rw (fun n => n) (sub1 v w) (fun _ => true) (fun _ => drop_init v) m)
                    = filter (fun vt => negb (N.eqb (fst vt) v)) (all_inits m)).
    { unfold all_inits, rw. rewrite (flat_map_mk2 g_inits (drop_init v)); try reflexivity. unfold drop_init. rewrite filter_flat_map. reflexivity. }
    pose proof (wf_inits_nodup m HW) as Hnd.
    assert (Ev : alookup (all_inits m) v = Some t) by (apply alookup_NoDup_In; assumption).
    assert (Ew : alookup (all_inits m) w = Some t) by (apply alookup_NoDup_In; assumption).
    assert (Hvnp : ~ In v (all_outs m)). { apply (wf_init_prod m HW). apply in_map_iff. exists (v, t). auto. }
    apply rw_pres_gen; auto using tr_ok_id.
    - rewrite Hall'. apply NoDup_map_fst_filter. exact Hnd.
    - intros u Hu. apply (wf_init_prod m HW). rewrite Hall' in Hu. apply in_map_iff in Hu. destruct Hu as [vt [<- Hvt]].
      apply filter_In in Hvt. apply in_map. tauto.
    - intros u Hf. unfold sub1. destruct (N.eqb u v) eqn:E; [|reflexivity]. apply N.eqb_eq in E. subst u.
      exfalso. exact (is_graph_input_false m v Hvi Hf).
    - intros u t0 Eu. rewrite Hall'. unfold sub1. destruct (N.eqb u v) eqn:E.
      + apply N.eqb_eq in E. subst u. assert (t0 = t) by congruence. subst t0. split.
        * apply alookup_filter_keep; [exact Ew|]. intros a'. simpl. apply negb_true_iff. apply N.eqb_neq. auto.
        * right. apply is_graph_input_false. exact Hwi.
      + split; [|left; reflexivity]. apply alookup_filter_keep; [exact Eu|]. intros a'. simpl. rewrite E. reflexivity.
    - intros u n i Eu Ep. left. split; [reflexivity|].
      assert (u <> v). { intros ->. apply Hvnp. destruct (find_prod_In _ _ _ _ Ep) as [Hin Hidx]. unfold all_outs. apply in_flat_map.
                         exists n. split; [exact Hin | eapply index_of_In; eauto]. }
      split; [unfold sub1; destruct (N.eqb u v) eqn:E; [apply N.eqb_eq in E; congruence | reflexivity]|].
      rewrite Hall'. apply alookup_filter_none. exact Eu.
  Qed.

  Lemma dedup_step_inits m v w : is_graph_output m v = false ->
    all_inits (map_graphs (fun g => set_inits g (drop_init v g)) (replace_uses false v w m))
    = filter (fun vt => negb (N.eqb (fst vt) v)) (all_inits m).
  Proof.
    intros Hvo. unfold all_inits. rewrite graphs_of_map_graphs, flat_map_map. unfold replace_uses.
    rewrite graphs_of_map_graphs, flat_map_map. rewrite filter_flat_map. apply flat_map_ext'. intros g _. reflexivity.
  Qed.

  Lemma is_graph_input_formal m v : is_graph_input m v = true <-> formal_of m v.
  Proof.
    unfold is_graph_input, formal_of, all_formals. rewrite existsb_exists, in_flat_map.
    split; intros [g [Hg Hv]]; exists g; (split; [exact Hg|]); apply memN_In; exact Hv.
  Qed.
  Lemma is_graph_input_pres m m' v : all_formals m' = all_formals m -> is_graph_input m' v = is_graph_input m v.
  Proof.
    intros E. destruct (is_graph_input m v) eqn:A.
    - apply is_graph_input_formal. unfold formal_of. rewrite E. apply is_graph_input_formal. exact A.
    - destruct (is_graph_input m' v) eqn:B; [|reflexivity]. apply is_graph_input_formal in B. unfold formal_of in B. rewrite E in B.
      apply is_graph_input_formal in B. congruence.
  Qed.

  Lemma get_gref_In m r g : get_gref m r = Some g -> In g (graphs_of m).
  Proof.
    destruct r as [|k|i]; simpl; intros E.
    - injection E as <-. left. reflexivity.
    - right. apply in_app_iff. left. apply alookup_In in E. apply in_map_iff. exists (k, g). auto.
    - right. apply in_app_iff. right. destruct (nth_error (m_funcs m) i) as [f|] eqn:En; [|discriminate]. injection E as <-.
      apply in_map. eapply nth_error_In; eauto.
  Qed.
  Lemma NoDup_map_flat_map_elem {A B C} (h : B -> C) (f : A -> list B) l x : NoDup (map h (flat_map f l)) -> In x l -> NoDup (map h (f x)).
  Proof.
    induction l as [|a l IH]; simpl; intros H Hin; [contradiction|]. rewrite map_app in H.
    destruct Hin as [<-|Hin].
    - clear IH. induction (map h (f a)) as [|c r IHr]; [constructor|]. simpl in H. inversion H; subst. constructor; [|auto].
      intros Hc. apply H2. apply in_app_iff. left. exact Hc.
    - apply IH; [|exact Hin]. eapply NoDup_app_remove_l. exact H.
  Qed.

  Lemma dedup_loop_pres keyeq sl r : forall inits seen m, WF m -> NoOpFunc m ->
    NoDup (map fst inits) -> (forall vt, In vt inits -> In vt (all_inits m)) ->
    (forall wt, In wt seen -> In wt (all_inits m) /\ is_graph_input m (fst wt) = false /\ ~ In (fst wt) (map fst inits)) ->
    Pres m (dedup_graph_loop keyeq sl r inits seen m).
  Proof.
    induction inits as [|[v t] rest IH]; intros seen m HW HN Hnd Hin Hseen; simpl; [apply Pres_refl; assumption|].
    inversion Hnd; subst.
    assert (Hrest : forall vt, In vt rest -> In vt (all_inits m)) by (intros; apply Hin; right; assumption).
    destruct (is_graph_input m v || is_graph_output m v || Z.ltb sl (tensor_size t)) eqn:Eskip.
    { apply IH; auto. intros wt Hwt. destruct (Hseen wt Hwt) as [A [B C]]. repeat split; auto. simpl in C. tauto. }
    apply orb_false_iff in Eskip. destruct Eskip as [Eskip _]. apply orb_false_iff in Eskip. destruct Eskip as [Hvi Hvo].
    destruct (find (fun wt => keyeq (snd wt) t) seen) as [[w t']|] eqn:Ef.
    - apply find_some in Ef. destruct Ef as [Hws _].
      destruct (tensor_eqb t' t) eqn:Heq.
      2:{ apply IH; auto. intros wt Hwt. destruct (Hseen wt Hwt) as [A [B C]]. repeat split; auto. simpl in C. tauto. }
      apply tensor_eqb_eq in Heq. subst t'.
      destruct (Hseen _ Hws) as [Hwin [Hwi Hwk]]. simpl in Hwi, Hwk.
      assert (Hne : v <> w) by (intros ->; apply Hwk; left; reflexivity).
      assert (P : Pres m (map_graphs (fun g => set_inits g (drop_init v g)) (replace_uses false v w m))).
      { apply (dedup_step m v w t); auto. apply Hin. left. reflexivity. }
      eapply Pres_trans; [exact P|]. destruct P as [HW' HN' Hf' _ _ _].
      assert (Hdi := dedup_step_inits m v w Hvo). unfold drop_init in Hdi.
      apply IH; auto.
      + intros vt Hvt. rewrite Hdi. apply filter_In. split; [apply Hrest; exact Hvt|].
        apply negb_true_iff. apply N.eqb_neq. intros E. apply H1. rewrite <- E. apply in_map. exact Hvt.
      + intros wt Hwt. destruct (Hseen wt Hwt) as [A [B C]]. simpl in C. repeat split.
        * rewrite Hdi. apply filter_In. split; [exact A|]. apply negb_true_iff. apply N.eqb_neq. intros E. apply C. left. auto.
        * transitivity (is_graph_input m (fst wt)); [apply is_graph_input_pres; exact Hf' | exact B].
        * tauto.
    - apply IH; auto. intros wt Hwt. apply in_app_iff in Hwt. destruct Hwt as [Hwt|[<-|[]]].
      + destruct (Hseen wt Hwt) as [A [B C]]. simpl in C. repeat split; auto.
      + simpl. repeat split; auto. apply Hin. left. reflexivity.
  Qed.

  Theorem dedup_inits_pres keyeq sl order m : WF m -> NoOpFunc m -> Pres m (dedup_inits keyeq sl order m).
  Proof.
    intros HW HN. unfold dedup_inits. apply (Pres_fold (fun m r => match get_gref m r with Some g => dedup_graph_loop keyeq sl r (g_inits g) [] m | None => m end)); auto.
    intros m0 r HW0 HN0. destruct (get_gref m0 r) as [g|] eqn:Eg; [|apply Pres_refl; assumption].
    apply get_gref_In in Eg. apply dedup_loop_pres; auto.
    - apply (NoDup_map_flat_map_elem fst g_inits (graphs_of m0) g); [apply (wf_inits_nodup m0 HW0) | exact Eg].
    - intros vt Hvt. unfold all_inits. apply in_flat_map. eauto.
    - intros wt [].
  Qed.

  (* ------------------------------------------------------------ sequences of the proved passes *)
  Inductive pass : Type :=
  | PIdent (fuel : nat)
  | PDedup (keyeq : tensor -> tensor -> bool) (size_limit : Z) (order : list gref)
  | PDce (unnamed : list vid) (opset_graphs : list gref) (fuel : nat).
  Definition apply_pass (m : model) (p : pass) : model :=
    match p with
    | PIdent fuel => identity_elim fuel m
    | PDedup keyeq sl order => dedup_inits keyeq sl order m
    | PDce u ops fuel => dce [] u ops fuel m
    end.
  Definition frame_ok (m : model) : Prop := forall o, In o (snd (frame m)) -> ~ In o (map fst (fst (frame m))).
  (* side condition of DCE at the point where it runs *)
  Fixpoint seq_ok (ps : list pass) (m : model) : Prop :=
    match ps with
    | [] => True
    | p :: r => (match p with PDce _ _ _ => frame_ok m | _ => True end) /\ seq_ok r (apply_pass m p)
    end.
  Lemma apply_pass_pres m p : WF m -> NoOpFunc m -> (match p with PDce _ _ _ => frame_ok m | _ => True end) -> Pres m (apply_pass m p).
  Proof.
    intros HW HN Hc. destruct p; simpl.
    - apply identity_elim_pres; assumption.
    - apply dedup_inits_pres; assumption.
    - apply dce_pres; [assumption | assumption | exact Hc].
  Qed.
  Theorem sequence_pres : forall ps m, WF m -> NoOpFunc m -> seq_ok ps m -> Pres m (fold_left apply_pass ps m).
  Proof.
    induction ps as [|p ps IH]; intros m HW HN Hok; simpl; [apply Pres_refl; assumption|].
    destruct Hok as [Hc Hr]. pose proof (apply_pass_pres m p HW HN Hc) as P.
    eapply Pres_trans; [exact P|]. destruct P. apply IH; assumption.
  Qed.
End Passes.

(* ---------------------------------------------------------------- signature / validity: independent of the operator semantics *)
Definition triv_interp : opid -> list (str * attr) -> list (subfn unit) -> list unit -> nat -> option (list unit) :=
  fun _ _ _ _ k => Some (repeat tt k).
Lemma triv_mono : forall op attrs subs subs' ins k r,
    Forall2 (sub_le unit) subs subs' -> triv_interp op attrs subs ins k = Some r -> triv_interp op attrs subs' ins k = Some r.
Proof. intros. assumption. Qed.
Lemma triv_identity : forall op attrs subs x, is_identity_op op = true -> triv_interp op attrs subs [x] 1%nat = Some [x].
Proof. intros op attrs subs []. reflexivity. Qed.
Lemma triv_trailing : forall op attrs subs ins k, triv_interp op attrs subs (ins ++ [tt]) k = triv_interp op attrs subs ins k.
Proof. reflexivity. Qed.

Definition SigKept (m m' : model) : Prop :=
  g_ins (m_main m') = g_ins (m_main m) /\ length (g_outs (m_main m')) = length (g_outs (m_main m))
  /\ all_formals m' = all_formals m /\ WF m' /\ NoOpFunc m'.
Lemma Pres_sig m m' : Pres unit tt (fun _ => tt) triv_interp m m' -> SigKept m m'.
Proof. intros [a b c d e f]. unfold SigKept. split; [exact e | split; [exact f | split; [exact c | split; [exact a | exact b]]]]. Qed.

Theorem sequence_sig ps m : WF m -> NoOpFunc m -> seq_ok ps m -> SigKept m (fold_left apply_pass ps m).
Proof. intros. apply Pres_sig. apply (sequence_pres unit tt (fun _ => tt) triv_interp triv_mono triv_identity triv_trailing); assumption. Qed.

(* ---------------------------------------------------------------- refutation witnesses (findings) *)
Definition wit_ident : model := mkModel (mkGraph [1; 2] [] [mkNode ([], [78;101;103], []) [] [Some 1] [3]; mkNode ([], [73;102], []) [([101;108;115;101;95;98;114;97;110;99;104], AGraph 1); ([116;104;101;110;95;98;114;97;110;99;104], AGraph 2)] [Some 2] [4]; mkNode ([], [65;98;115], []) [] [Some 3] [5]] [4; 5]) [(1, mkGraph [] [] [mkNode ([], [73;100;101;110;116;105;116;121], []) [] [Some 1] [6]] [6]); (2, mkGraph [] [] [mkNode ([], [73;100;101;110;116;105;116;121], []) [] [Some 3] [7]] [7])] [].
(* 0f568df: the witness of the former defect now keeps its outer-scope Identity *)
Lemma ident_valid_witness : wfb wit_ident = true /\ outputs_localb wit_ident = true /\ outputs_localb (identity_elim 12 wit_ident) = true.
Proof. vm_compute. repeat split. Qed.

Definition wit_dce : model := mkModel (mkGraph [1; 2; 3; 4; 5] [] [mkNode ([], [65;98;115], []) [] [Some 5] [6]; mkNode ([], STR_BatchNormalization, []) [(STR_training_mode, AData 2 [1%Z])] [Some 1; Some 2; Some 3; Some 4; Some 6] [7; 8; 9]] [7]) [] [].
Definition wit_dce_schema : schema := [([65;98;115], [false]); (STR_BatchNormalization, [false; true; true])].
(* the live BatchNormalization node keeps its three outputs but loses training_mode *)
Lemma dce_batchnorm_refuted :
  option_map n_attrs (get_node wit_dce 7) = Some [(STR_training_mode, AData 2 [1%Z])]
  /\ option_map n_attrs (get_node (dce wit_dce_schema [] [GMain] 12 wit_dce) 7) = Some []
  /\ g_outs (m_main (dce wit_dce_schema [] [GMain] 12 wit_dce)) = [7].
Proof. vm_compute. repeat split. Qed.

(* af1d2e4: the CSE key is faithful: equal keys are equal attributes *)
Lemma cse_attr_eqb_eq a b : cse_attr_eqb a b = true -> a = b.
Proof.
  destruct a as [ka a], b as [kb b]. unfold cse_attr_eqb. simpl. intros H. apply andb_prop in H. destruct H as [Hk H].
  assert (ka = kb) by (revert Hk; apply list_eqb_eq; intros; apply N.eqb_eq). subst kb.
  destruct a, b; try discriminate.
  - destruct (N.eqb ty ty0) eqn:E; [|discriminate]. apply N.eqb_eq in E. unfold cse_value_eqb in H. apply Zlist_eqb_eq in H. congruence.
  - apply andb_prop in H. destruct H as [H1 H2]. apply N.eqb_eq in H1.
    assert (r = r0) by (revert H2; apply list_eqb_eq; intros; apply N.eqb_eq). congruence.
Qed.
Lemma cse_key_signed_zero_distinct :
  cse_attr_eqb ([97], AData TY_FLOAT [0%Z]) ([97], AData TY_FLOAT [9223372036854775808%Z]) = false
  /\ cse_attr_eqb ([97], AData TY_TENSOR [8; 1; 2; 1; 97; 2; 98; 98]%Z) ([97], AData TY_TENSOR [8; 1; 2; 2; 97; 0; 2; 98; 98]%Z) = false.
Proof. vm_compute. split; reflexivity. Qed.
(* ... while the attribute TYPE is part of the key (the defect fixed by 187cb2f): INT 1 vs FLOAT 1.0 *)
Lemma cse_key_type_sensitive :
  cse_attr_eqb ([97], AData TY_INT [1%Z]) ([97], AData TY_FLOAT [4607182418800017408%Z]) = false.
Proof. reflexivity. Qed.

(* C05/Proofs3.v — per-pass preservation: each pass is a sequence of `rw` steps; `Pres` is the
   invariant carried through the folds. *)
From Coq Require Import ZArith NArith List Bool Lia.
From IRV Require Import Base.Exn Gen.C05Gen C05.Model C05.Proofs C05.Proofs2.
Import ListNotations.
Open Scope N_scope.

(* ---------------------------------------------------------------- syntactic facts *)
Lemma map_graphs_comp F G m : map_graphs G (map_graphs F m) = map_graphs (fun g => G (F g)) m.
Proof. unfold map_graphs. simpl. rewrite !map_map. reflexivity. Qed.
Lemma map_graphs_ext F G m : (forall g, F g = G g) -> map_graphs F m = map_graphs G m.
Proof.
  intros H. unfold map_graphs. rewrite H. f_equal.
  - apply map_ext. intros [k g]. simpl. rewrite H. reflexivity.
  - apply map_ext. intros f. rewrite H. reflexivity.
Qed.
Lemma map_graphs_id m : map_graphs (fun g => g) m = m.
Proof.
  unfold map_graphs. destruct m as [mm ss ff]. simpl. f_equal.
  - rewrite <- (map_id ss) at 2. apply map_ext. intros [k g]. reflexivity.
  - rewrite <- (map_id ff) at 2. apply map_ext. intros [i b d]. reflexivity.
Qed.

Lemma subst_ins_id n : subst_ins (fun v => v) n = n.
Proof.
  destruct n as [op at_ ins outs]. unfold subst_ins. simpl. f_equal.
  rewrite <- (map_id ins) at 2. apply map_ext. intros [v|]; reflexivity.
Qed.
Lemma has_key_subst k sg n : has_key k (subst_ins sg n) = has_key k n.
Proof. reflexivity. Qed.

Lemma sub1_notin v w l : ~ In v l -> map (sub1 v w) l = l.
Proof.
  induction l as [|x l IH]; simpl; intros H; [reflexivity|].
  rewrite IH by tauto. unfold sub1. destruct (N.eqb x v) eqn:E; [apply N.eqb_eq in E; subst; tauto | reflexivity].
Qed.

Lemma NoDup_flat_map_same {A B} (f : A -> list B) l a b x :
  NoDup (flat_map f l) -> In a l -> In b l -> In x (f a) -> In x (f b) -> a = b \/ False.
Proof.
  induction l as [|c l IH]; simpl; intros Hnd Ha Hb Hxa Hxb; [contradiction|].
  assert (Hsplit : forall y, In y (f c) -> In y (flat_map f l) -> False).
  { clear - Hnd. induction (f c) as [|z fc IHf]; simpl in *; intros y [].
    - subst. inversion Hnd; subst. intros Hy. apply H1. apply in_app_iff. right. exact Hy.
    - inversion Hnd; subst. apply IHf; assumption. }
  destruct Ha as [<-|Ha], Hb as [<-|Hb].
  - left. reflexivity.
  - exfalso. apply (Hsplit x Hxa). apply in_flat_map. eauto.
  - exfalso. apply (Hsplit x Hxb). apply in_flat_map. eauto.
  - apply IH; auto. eapply NoDup_app_remove_l. exact Hnd.
Qed.

Lemma producer_unique m n n' x : WF m -> In n (all_nodes m) -> In n' (all_nodes m) -> In x (n_outs n) -> In x (n_outs n') -> n = n'.
Proof. intros HW H1 H2 H3 H4. destruct (NoDup_flat_map_same n_outs _ n n' x (wf_outs m HW) H1 H2 H3 H4); tauto. Qed.

Lemma get_node_spec m k n : get_node m k = Some n -> In n (all_nodes m) /\ has_key k n = true.
Proof. unfold get_node. intros E. apply find_some in E. exact E. Qed.

Lemma has_key_first k n : has_key k n = true -> n_outs n <> [] -> In k (n_outs n).
Proof.
  unfold has_key, node_key. destruct (n_outs n) as [|y r]; [congruence|]. intros E _. apply N.eqb_eq in E. left. exact E.
Qed.

Lemma strip_spec l : exists k, l = strip_trailing_none l ++ repeat None k.
Proof.
  induction l as [|x l [k IH]]; [exists O; reflexivity|]. simpl.
  destruct (strip_trailing_none l) as [|y r] eqn:E.
  - destruct x as [v|].
    + exists k. simpl. f_equal. exact IH.
    + exists (S k). simpl. f_equal. exact IH.
  - exists k. simpl. f_equal. exact IH.
Qed.

Definition trim_at (k : vid) (n : node) : node := if has_key k n then trim_node n else n.
Lemma tr_ok_trim k : tr_ok (trim_at k).
Proof.
  intros n. unfold trim_at. destruct (has_key k n); [|apply tr_ok_id].
  simpl. repeat split. destruct (strip_spec (n_ins n)) as [j Hj].
  exists (strip_trailing_none (n_ins n)), j, O. simpl. rewrite app_nil_r. auto.
Qed.

Section Passes.
  Variable T : Type.
  Variable absent : T.
  Variable tensor_val : tensor -> T.
  Variable interp : opid -> list (str * attr) -> list (subfn T) -> list T -> nat -> option (list T).
  Hypothesis interp_mono : forall op attrs subs subs' ins k r,
      Forall2 (sub_le T) subs subs' -> interp op attrs subs ins k = Some r -> interp op attrs subs' ins k = Some r.
  Hypothesis interp_identity : forall op attrs subs x,
      is_identity_op op = true -> interp op attrs subs [x] 1%nat = Some [x].
  Hypothesis interp_trailing_absent : forall op attrs subs ins k,
      interp op attrs subs (ins ++ [absent]) k = interp op attrs subs ins k.

  Notation computes := (computes absent tensor_val interp).

  (* no model-local function shadows the Identity / Constant operators *)
  Definition NoOpFunc (m : model) : Prop :=
    forall op, is_identity_op op = true \/ is_constant_op op = true -> find_func (m_funcs m) op = None.

  Record Pres (m m' : model) : Prop := {
    pr_wf : WF m';
    pr_nf : NoOpFunc m';
    pr_formals : all_formals m' = all_formals m;
    pr_comp : forall env r, env_ok T (formal_of m) env -> computes m env r -> computes m' env r;
    pr_ins : g_ins (m_main m') = g_ins (m_main m);
    pr_nouts : length (g_outs (m_main m')) = length (g_outs (m_main m)) }.

  Lemma Pres_refl m : WF m -> NoOpFunc m -> Pres m m.
  Proof. intros. constructor; auto. Qed.
  Lemma Pres_trans m1 m2 m3 : Pres m1 m2 -> Pres m2 m3 -> Pres m1 m3.
  Proof.
    intros [a1 b1 c1 d1 e1 f1] [a2 b2 c2 d2 e2 f2]. constructor; auto; try congruence.
    intros env r He Hc. apply d2; [|apply d1; assumption].
    intros v t Hv. unfold formal_of. rewrite c1. apply (He v t Hv).
  Qed.
  Lemma Pres_fold {A} (step : model -> A -> model) l :
    (forall m a, WF m -> NoOpFunc m -> Pres m (step m a)) ->
    forall m, WF m -> NoOpFunc m -> Pres m (fold_left step l m).
  Proof.
    intros Hs. induction l as [|a l IH]; intros m HW HN; simpl; [apply Pres_refl; assumption|].
    eapply Pres_trans; [apply Hs; assumption|]. destruct (Hs m a HW HN). apply IH; assumption.
  Qed.

  Lemma NoOpFunc_rw tr sg p inits m : NoOpFunc m -> NoOpFunc (rw tr sg p inits m).
  Proof. intros H op Hop. unfold rw, mk2. simpl. rewrite find_func_map, (H op Hop). reflexivity. Qed.


  (* a generic step whose initializer tables are unchanged and L = everything *)
  Lemma rw_pres_total tr sg p m :
    WF m -> NoOpFunc m -> tr_ok tr ->
    (forall v, formal_of m v -> sg v = v) ->
    (forall v t, alookup (all_inits m) v = Some t -> sg v = v) ->
    (forall v n i, alookup (all_inits m) v = None -> find_prod (all_nodes m) v = Some (n, i) ->
                   (p n = true /\ sg v = v)
                   \/ (i = O /\ is_identity_op (n_op n) = true /\ length (n_outs n) = 1%nat /\ exists x, n_ins n = [Some x] /\ sg v = sg x)) ->
    Pres m (rw tr sg p (fun _ => g_inits) m).
  Proof.
    intros HW HN Htr Hfix Hinit Hnode.
    assert (Hinits : all_inits (rw tr sg p (fun _ => g_inits) m) = all_inits m) by apply all_inits_rw_same.
    constructor.
    - apply WF_rw; auto. rewrite Hinits. apply (wf_init_prod m HW).
    - apply NoOpFunc_rw. exact HN.
    - apply all_formals_rw.
    - intros env r He Hc.
      eapply (step_computes T absent tensor_val interp interp_mono interp_identity interp_trailing_absent
                            tr sg p (fun _ => g_inits) m (fun _ => True)); eauto.
      + intros g _. apply Forall_forall. auto.
      + intros v t _ Ei. rewrite Hinits, (Hinit v t Ei). auto.
      + intros v n i _ Ei Ep. destruct (Hnode v n i Ei Ep) as [[Hp Hs] | [Hi [Hid [Hlen Hx]]]].
        * left. rewrite Hinits. auto.
        * right. right. left. repeat split; auto.
    - reflexivity.
    - unfold rw, mk2. simpl. apply map_length.
  Qed.

  (* ------------------------------------------------------------ IdentityEliminationPass *)
  Lemma elim_eq k y x m :
    remove_node k (replace_uses true y x m) = rw (fun n => n) (sub1 y x) (fun n => negb (has_key k n)) (fun _ => g_inits) m.
  Proof.
    rewrite rw_map_graphs. unfold remove_node, replace_uses. rewrite map_graphs_comp. apply map_graphs_ext. intros g.
    unfold rw_graph, subst_graph, set_nodes. simpl. f_equal.
    rewrite filter_map_comm. reflexivity.
  Qed.

  Lemma ident_step m k : WF m -> NoOpFunc m -> Pres m (try_elim_identity m k).
  Proof.
    intros HW HN. unfold try_elim_identity.
    destruct (get_node m k) as [n|] eqn:Eg; [|apply Pres_refl; assumption].
    destruct (is_identity_op (n_op n)) eqn:Eid; simpl; [|apply Pres_refl; assumption].
    destruct (n_ins n) as [|[x|] [|? ?]] eqn:Ei; try (apply Pres_refl; assumption).
    destruct (n_outs n) as [|y [|? ?]] eqn:Eo; try (apply Pres_refl; assumption).
    destruct (is_graph_output m y && (is_graph_input m x || is_initializer m x)); [apply Pres_refl; assumption|].
    destruct (get_node_spec _ _ _ Eg) as [Hin Hk].
    assert (Hky : k = y). { unfold has_key, node_key in Hk. rewrite Eo in Hk. apply N.eqb_eq in Hk. auto. }
    assert (Hyout : In y (all_outs m)). { unfold all_outs. apply in_flat_map. exists n. rewrite Eo. simpl. auto. }
    rewrite elim_eq. apply rw_pres_total; auto using tr_ok_id.
    - intros v Hf. unfold sub1. destruct (N.eqb v y) eqn:E; [|reflexivity].
      apply N.eqb_eq in E. subst v. exfalso. exact (wf_formal m HW y Hf Hyout).
    - intros v t Et. unfold sub1. destruct (N.eqb v y) eqn:E; [|reflexivity].
      apply N.eqb_eq in E. subst v. exfalso. apply (wf_init_prod m HW y); [|exact Hyout].
      apply alookup_In in Et. apply in_map_iff. exists (y, t). auto.
    - intros v n0 i _ Ep. destruct (find_prod_In _ _ _ _ Ep) as [Hin0 Hidx]. apply index_of_In in Hidx as Hv.
      destruct (N.eqb v y) eqn:E.
      + apply N.eqb_eq in E. subst v. right.
        assert (n0 = n). { eapply producer_unique; eauto. rewrite Eo. left. reflexivity. } subst n0.
        rewrite Eo in Hidx. simpl in Hidx. rewrite N.eqb_refl in Hidx. injection Hidx as <-.
        repeat split; auto. { rewrite Eo. reflexivity. }
        exists x. split; [exact Ei|]. unfold sub1. rewrite N.eqb_refl. destruct (N.eqb x y) eqn:Ex; reflexivity.
      + left. split; [|unfold sub1; rewrite E; reflexivity].
        apply negb_true_iff. destruct (has_key k n0) eqn:Hk0; [|reflexivity]. exfalso.
        assert (In k (n_outs n0)). { apply has_key_first; auto. intros Hnil. rewrite Hnil in Hv. contradiction. }
        assert (n0 = n). { eapply producer_unique; eauto. rewrite Eo, Hky. left. reflexivity. } subst n0.
        rewrite Eo in Hv. simpl in Hv. apply N.eqb_neq in E. destruct Hv; [congruence | contradiction].
  Qed.

  Theorem identity_elim_pres fuel m : WF m -> NoOpFunc m -> Pres m (identity_elim fuel m).
  Proof.
    intros HW HN. unfold identity_elim.
    eapply Pres_trans.
    - apply (Pres_fold (fun m (rk : gref * vid) => try_elim_identity m (snd rk))); auto. intros; apply ident_step; assumption.
    - set (m1 := fold_left _ (rec_nodes fuel m GMain) m).
      assert (P1 : Pres m m1) by (apply (Pres_fold (fun m (rk : gref * vid) => try_elim_identity m (snd rk))); auto; intros; apply ident_step; assumption).
      destruct P1 as [HW1 HN1 _ _ _ _].
      apply (Pres_fold (fun m r => fold_left (fun m (rk : gref * vid) => try_elim_identity m (snd rk)) (rec_nodes fuel m r) m)); auto.
      intros m0 r HW0 HN0. apply (Pres_fold (fun m (rk : gref * vid) => try_elim_identity m (snd rk))); auto. intros; apply ident_step; assumption.
  Qed.

  (* ------------------------------------------------------------ RemoveUnusedNodesPass *)
  Lemma filter_true {A} (l : list A) : filter (fun _ => true) l = l.
  Proof. induction l; simpl; [reflexivity | rewrite IHl; reflexivity]. Qed.
  Lemma map_subst_id l : map (fun n => subst_ins (fun v => v) n) l = l.
  Proof. rewrite <- (map_id l) at 2. apply map_ext. intros; apply subst_ins_id. Qed.

  Lemma remove_eq k m : remove_node k m = rw (fun n => n) (fun v => v) (fun n => negb (has_key k n)) (fun _ => g_inits) m.
  Proof.
    rewrite rw_map_graphs. unfold remove_node. apply map_graphs_ext. intros g. unfold rw_graph, set_nodes.
    rewrite map_subst_id, map_id. reflexivity.
  Qed.
  Lemma update_trim_eq k m : update_node k trim_node m = rw (trim_at k) (fun v => v) (fun _ => true) (fun _ => g_inits) m.
  Proof.
    rewrite rw_map_graphs. unfold update_node. apply map_graphs_ext. intros g. unfold rw_graph, map_nodes, set_nodes.
    rewrite filter_true, map_id. f_equal. apply map_ext. intros n. rewrite subst_ins_id. reflexivity.
  Qed.
  Lemma update_id_eq k F m : (forall n, F n = n) -> update_node k F m = m.
  Proof.
    intros HF. unfold update_node. rewrite <- (map_graphs_id m) at 2. apply map_graphs_ext. intros g.
    unfold map_nodes, set_nodes. destruct g as [i t ns o]. simpl. f_equal.
    rewrite <- (map_id ns) at 2. apply map_ext. intros n. destruct (has_key k n); [apply HF | reflexivity].
  Qed.

  Lemma node_uses_false w n : node_uses w n = false -> ~ In (Some w) (n_ins n).
  Proof.
    unfold node_uses. intros H Hin. assert (existsb (fun o => match o with Some w0 => N.eqb w0 w | None => false end) (n_ins n) = true).
    { apply existsb_exists. exists (Some w). split; [exact Hin | apply N.eqb_refl]. } congruence.
  Qed.
  Lemma has_uses_false m w : has_uses m w = false -> forall n, In n (all_nodes m) -> ~ In (Some w) (n_ins n).
  Proof.
    unfold has_uses. intros H n Hn. apply node_uses_false.
    destruct (node_uses w n) eqn:E; [|reflexivity]. exfalso.
    assert (existsb (node_uses w) (all_nodes m) = true) by (apply existsb_exists; eauto). congruence.
  Qed.
  Lemma is_graph_output_false m o : is_graph_output m o = false -> forall g, In g (graphs_of m) -> ~ In o (g_outs g).
  Proof.
    unfold is_graph_output. intros H g Hg Hin.
    assert (existsb (fun g => memN o (g_outs g)) (graphs_of m) = true) by (apply existsb_exists; exists g; split; [exact Hg | apply memN_In; exact Hin]).
    congruence.
  Qed.

  Lemma dead_step m k n : WF m -> NoOpFunc m -> get_node m k = Some n ->
    forallb (fun o => negb (is_graph_output m o) && negb (has_uses m o)) (n_outs n) = true -> Pres m (remove_node k m).
  Proof.
    intros HW HN Eg Hdead. destruct (get_node_spec _ _ _ Eg) as [Hin Hk].
    assert (Hd : forall o, In o (n_outs n) -> is_graph_output m o = false /\ has_uses m o = false).
    { intros o Ho. rewrite forallb_forall in Hdead. specialize (Hdead o Ho). apply andb_prop in Hdead.
      destruct Hdead as [A B]. apply negb_true_iff in A. apply negb_true_iff in B. auto. }
    rewrite remove_eq.
    assert (Hinits : all_inits (rw (fun n => n) (fun v => v) (fun n => negb (has_key k n)) (fun _ => g_inits) m) = all_inits m) by apply all_inits_rw_same.
    constructor.
    - apply WF_rw; auto using tr_ok_id. rewrite Hinits. apply (wf_init_prod m HW).
    - apply NoOpFunc_rw. exact HN.
    - apply all_formals_rw.
    - intros env r He Hc.
      eapply (step_computes T absent tensor_val interp interp_mono interp_identity interp_trailing_absent
                            (fun n => n) (fun v => v) (fun n => negb (has_key k n)) (fun _ => g_inits) m (fun v => ~ In v (n_outs n)));
        eauto using tr_ok_id.
      + intros n0 w Hn0 _ Hw Hwn. destruct (Hd w Hwn) as [_ Hu]. exact (has_uses_false m w Hu n0 Hn0 Hw).
      + intros g Hg. apply Forall_forall. intros o Ho Hon. destruct (Hd o Hon) as [Hgo _]. exact (is_graph_output_false m o Hgo g Hg Ho).
      + intros v t _ Ei. rewrite Hinits. auto.
      + intros v n0 i HL Ei Ep. left. rewrite Hinits. repeat split; auto.
        destruct (find_prod_In _ _ _ _ Ep) as [Hin0 Hidx]. apply index_of_In in Hidx as Hv.
        apply negb_true_iff. destruct (has_key k n0) eqn:Hk0; [|reflexivity]. exfalso.
        assert (In k (n_outs n0)). { apply has_key_first; auto. intros Hnil. rewrite Hnil in Hv. contradiction. }
        assert (Hne : n_outs n <> []) by (apply (wf_nonempty m HW); exact Hin).
        assert (n0 = n). { eapply producer_unique; eauto. apply has_key_first; auto. } subst n0. exact (HL Hv).
    - reflexivity.
    - unfold rw, mk2. simpl. apply map_length.
  Qed.
End Passes.

(* C05/Proofs19.v — executable checks of the side conditions of Proofs12 (extra / Inv / seq_ok), their soundness,
   and the checked form of the composition theorem: when the boolean tests evaluate to true on a concrete model
   and a concrete sequence of passes, the sequence refines the model. *)
From Coq Require Import ZArith NArith List Bool Lia Permutation.
From IRV Require Import Base.Exn Gen.C05Gen C05.Model C05.Proofs C05.Proofs2 C05.Proofs3 C05.Proofs4 C05.Proofs5 C05.Proofs6
     C05.Proofs7 C05.Proofs8 C05.Proofs9 C05.Proofs10 C05.Proofs11 C05.Proofs13 C05.Proofs14 C05.Proofs16
     C05.Inline C05.InlineCert C05.InlinePass C05.Proofs17 C05.Proofs12.
Import ListNotations.
Open Scope N_scope.

(* ---------- small helpers ---------- *)
Lemma negb_memN_notin v l : negb (memN v l) = true -> ~ In v l.
Proof. intros H. apply negb_true_iff in H. apply memN_false in H. exact H. Qed.

Definition ltall (fr : N) (l : list N) : bool := forallb (fun v => N.ltb v fr) l.
Lemma ltall_sound fr l v : ltall fr l = true -> In v l -> v < fr.
Proof. intros H Hv. apply N.ltb_lt. exact (forallb_In _ _ _ H Hv). Qed.

(* ---------- one boolean test per conjunct ---------- *)
Definition nobntrainingb (m : model) : bool :=
  forallb (fun n => negb (str_eqb (snd (fst (n_op n))) STR_BatchNormalization)
                    || forallb (fun ka : str * attr => negb (str_eqb (fst ka) STR_training_mode)) (n_attrs n))
          (all_nodes m).
Lemma nobntrainingb_sound m : nobntrainingb m = true -> NoBNTraining m.
Proof.
  intros H n Hn Hb ka Hka. pose proof (forallb_In _ _ _ H Hn) as Hq. simpl in Hq. rewrite Hb in Hq. simpl in Hq.
  pose proof (forallb_In _ _ _ Hq Hka) as Hr. simpl in Hr. apply negb_true_iff in Hr. exact Hr.
Qed.

Definition nofuncopb (sc : schema) (m : model) : bool :=
  forallb (fun n => match opt_flags sc (n_op n) with
                    | None => true
                    | Some _ => match find_func (m_funcs m) (n_op n) with None => true | Some _ => false end
                    end) (all_nodes m).
Lemma nofuncopb_sound sc m : nofuncopb sc m = true -> NoFuncOp sc m.
Proof.
  intros H n Hn Ho. pose proof (forallb_In _ _ _ H Hn) as Hq. simpl in Hq.
  destruct (opt_flags sc (n_op n)); [|congruence]. destruct (find_func (m_funcs m) (n_op n)); [discriminate | reflexivity].
Qed.

Definition olb (m : model) : bool :=
  let go := flat_map g_outs (graphs_of m) in
  forallb (fun g => forallb (fun n => forallb (fun x => negb (memN x go) || memN x (g_outs g)) (n_outs n)) (g_nodes g))
          (graphs_of m).
Lemma olb_sound m : olb m = true -> OL m.
Proof.
  intros H g n x g2 Hg Hn Hx Hg2 Hx2. unfold olb in H.
  pose proof (forallb_In _ _ _ H Hg) as H1. cbv beta in H1. pose proof (forallb_In _ _ _ H1 Hn) as H2. cbv beta in H2.
  pose proof (forallb_In _ _ _ H2 Hx) as H3. cbv beta in H3.
  assert (Hm : memN x (flat_map g_outs (graphs_of m)) = true).
  { apply memN_In. apply in_flat_map. exists g2. split; assumption. }
  rewrite Hm in H3. simpl in H3. apply memN_In. exact H3.
Qed.

Definition unnameddeadb (u : list vid) (m : model) : bool :=
  forallb (fun n => forallb (fun i : option vid => match i with Some w => negb (memN w u) | None => true end) (n_ins n))
          (all_nodes m)
  && forallb (fun x => negb (memN x u)) (flat_map g_outs (graphs_of m)).
Lemma unnameddeadb_sound u m : unnameddeadb u m = true -> UnnamedDead u m.
Proof.
  intros H v Hv. apply andb_true_iff in H. destruct H as [H1 H2]. split.
  - intros n Hn Hi. pose proof (forallb_In _ _ _ H1 Hn) as Hq. simpl in Hq. pose proof (forallb_In _ _ _ Hq Hi) as Hr.
    simpl in Hr. apply negb_memN_notin in Hr. contradiction.
  - intros g Hg Ho. assert (Hin : In v (flat_map g_outs (graphs_of m))) by (apply in_flat_map; exists g; split; assumption).
    pose proof (forallb_In _ _ _ H2 Hin) as Hr. simpl in Hr. apply negb_memN_notin in Hr. contradiction.
Qed.

Definition frame_okb (m : model) : bool :=
  let ks := map fst (fst (frame m)) in forallb (fun o => negb (memN o ks)) (snd (frame m)).
Lemma frame_okb_sound m : frame_okb m = true -> frame_ok m.
Proof. intros H o Ho. unfold frame_okb in H. pose proof (forallb_In _ _ _ H Ho) as Hq. simpl in Hq. apply negb_memN_notin. exact Hq. Qed.

Definition constokb (m : model) : bool :=
  forallb (fun n => negb (is_constant_op (n_op n))
                    || (match n_ins n with [] => true | _ => false end && Nat.eqb (length (n_outs n)) 1))
          (all_nodes m).
Lemma constokb_sound m : constokb m = true -> ConstOK m.
Proof.
  intros H n Hn Hc. pose proof (forallb_In _ _ _ H Hn) as Hq. simpl in Hq. rewrite Hc in Hq. simpl in Hq.
  apply andb_true_iff in Hq. destruct Hq as [A B]. split; [destruct (n_ins n); [reflexivity | discriminate] | apply Nat.eqb_eq; exact B].
Qed.

Definition freshokb (m : model) (fr : N) : bool :=
  ltall fr (all_outs m) && ltall fr (all_formals m) && ltall fr (map fst (all_inits m)).
Lemma freshokb_sound m fr : freshokb m fr = true -> FreshOK m fr.
Proof.
  intros H v Hv. unfold freshokb in H. apply andb_true_iff in H. destruct H as [H H3]. apply andb_true_iff in H. destruct H as [H1 H2].
  destruct Hv as [Hv | [Hv | Hv]];
    [exact (ltall_sound _ _ _ H1 Hv) | exact (ltall_sound _ _ _ H2 Hv) | exact (ltall_sound _ _ _ H3 Hv)].
Qed.

Definition mainlocalb (m : model) : bool :=
  let go := flat_map g_outs (other_graphs m) in
  forallb (fun n => forallb (fun x => negb (memN x go)) (n_outs n)) (g_nodes (m_main m)).
Lemma mainlocalb_sound m : mainlocalb m = true -> MainLocal m.
Proof.
  intros H g Hg n Hn x Hx Ho. unfold mainlocalb in H. pose proof (forallb_In _ _ _ H Hn) as H1. simpl in H1.
  pose proof (forallb_In _ _ _ H1 Hx) as H2. simpl in H2. apply negb_memN_notin in H2. apply H2.
  apply in_flat_map. exists g. split; assumption.
Qed.

Definition freshbb (m : model) (fr : N) : bool :=
  ltall fr (all_outs m) && ltall fr (all_formals m) && ltall fr (map fst (all_inits m))
  && ltall fr (flat_map g_outs (graphs_of m)).
Lemma freshbb_sound m fr : freshbb m fr = true -> FreshB m fr.
Proof.
  intros H v Hv. unfold freshbb in H. apply andb_true_iff in H. destruct H as [H H4]. apply andb_true_iff in H. destruct H as [H H3].
  apply andb_true_iff in H. destruct H as [H1 H2].
  destruct Hv as [Hv | [Hv | [Hv | Hv]]];
    [exact (ltall_sound _ _ _ H1 Hv) | exact (ltall_sound _ _ _ H2 Hv) | exact (ltall_sound _ _ _ H3 Hv)
     | exact (ltall_sound _ _ _ H4 Hv)].
Qed.

Definition subs_nodupb (m : model) : bool := nodupN (map fst (m_subs m)).
Lemma subs_nodupb_sound m : subs_nodupb m = true -> NoDup (map fst (m_subs m)).
Proof. apply nodupN_NoDup. Qed.

Definition freshallb (m : model) (fr : N) : bool := subs_nodupb m && freshbb m fr.
Lemma freshallb_sound m fr : freshallb m fr = true -> FreshAll m fr.
Proof.
  intros H. apply andb_true_iff in H. destruct H as [H1 H2]. split; [apply subs_nodupb_sound; exact H1 | exact (freshbb_sound m fr H2)].
Qed.

(* the first clause of TblOK quantifies over all operators; op_defaults is a lookup in the finite table *)
Definition tbl_datab (tbl : defaults_table) : bool :=
  forallb (fun e : opid * list (str * attr) => forallb is_data_attr (snd e)) tbl.
Lemma tbl_datab_sound tbl : tbl_datab tbl = true -> forall op, forallb is_data_attr (op_defaults tbl op) = true.
Proof.
  intros H op. unfold op_defaults.
  destruct (find (fun e : opid * list (str * attr) => opid_eqb (fst e) op) tbl) as [e|] eqn:E; [|reflexivity].
  apply find_some in E. destruct E as [E _]. exact (forallb_In _ _ _ H E).
Qed.
Definition tblokb (tbl : defaults_table) (m : model) : bool :=
  tbl_datab tbl
  && forallb (fun n => match op_defaults tbl (n_op n) with
                       | [] => true
                       | _ :: _ => match find_func (m_funcs m) (n_op n) with None => true | Some _ => false end
                       end) (all_nodes m).
Lemma tblokb_sound tbl m : tblokb tbl m = true -> TblOK tbl m.
Proof.
  intros H. apply andb_true_iff in H. destruct H as [H1 H2]. split; [apply tbl_datab_sound; exact H1|].
  intros n Hn Hd. pose proof (forallb_In _ _ _ H2 Hn) as Hq. simpl in Hq.
  destruct (op_defaults tbl (n_op n)); [congruence|]. destruct (find_func (m_funcs m) (n_op n)); [discriminate | reflexivity].
Qed.

(* ---------- the side condition of each pass ---------- *)
Definition extra_okb (tbl : defaults_table) (p : Proofs12.pass) (m : model) : bool :=
  match p with
  | Proofs12.PIdent _ | Proofs12.PDedup _ _ _ | Proofs12.PAddInit | Proofs12.PRmInit
  | Proofs12.PRmFunc _ | Proofs12.PInline _ _ _ => true
  | Proofs12.PDce sc u _ _ => nobntrainingb m && nofuncopb sc m && olb m && unnameddeadb u m && frame_okb m
  | Proofs12.PLift _ _ _ fresh => constokb m && freshokb m fresh
  | Proofs12.PCse _ fresh _ => mainlocalb m && freshbb m fresh
  | Proofs12.POutFix _ fresh => freshallb m fresh
  | Proofs12.PReorder m' => reorder_modelb m m'
  | Proofs12.PLiftSub _ => subs_nodupb m
  | Proofs12.PDefAttr _ => tblokb tbl m
  end.

Lemma extra_okb_sound tbl p m : extra_okb tbl p m = true -> Proofs12.extra tbl p m.
Proof.
  destruct p; simpl; intros H; try exact I.
  - apply andb_true_iff in H. destruct H as [H H5]. apply andb_true_iff in H. destruct H as [H H4].
    apply andb_true_iff in H. destruct H as [H H3]. apply andb_true_iff in H. destruct H as [H1 H2].
    split; [|split; [|split; [|split]]].
    + apply nobntrainingb_sound; exact H1.
    + apply nofuncopb_sound; exact H2.
    + apply olb_sound; exact H3.
    + apply unnameddeadb_sound; exact H4.
    + apply frame_okb_sound; exact H5.
  - apply andb_true_iff in H. destruct H as [H1 H2]. split; [apply constokb_sound; exact H1 | apply freshokb_sound; exact H2].
  - apply andb_true_iff in H. destruct H as [H1 H2]. split; [apply mainlocalb_sound; exact H1 | apply freshbb_sound; exact H2].
  - apply freshallb_sound; exact H.
  - exact H.
  - apply subs_nodupb_sound; exact H.
  - apply tblokb_sound; exact H.
Qed.

Definition invb (m : model) : bool := wfb m && noopfuncb m.
Lemma invb_sound m : invb m = true -> Proofs12.Inv m.
Proof. intros H. apply andb_true_iff in H. destruct H as [H1 H2]. split; [apply wfb_WF; exact H1 | apply noopfuncb_sound; exact H2]. Qed.

Fixpoint seq_okb (other : list (vid * tensor)) (tbl : defaults_table) (ps : list Proofs12.pass) (m : model) : bool :=
  match ps with
  | [] => true
  | p :: r => if extra_okb tbl p m then seq_okb other tbl r (Proofs12.apply_pass other tbl m p) else false
  end.
Lemma seq_okb_sound other tbl ps m : seq_okb other tbl ps m = true -> Proofs12.seq_ok other tbl ps m.
Proof.
  revert m. induction ps as [|p r IH]; intros m H; simpl in *; [exact I|].
  destruct (extra_okb tbl p m) eqn:E; [|discriminate]. split; [apply extra_okb_sound; exact E | apply IH; exact H].
Qed.

(* ---------- the checked composition theorem ---------- *)
Section SeqChecked.
  Variable T : Type.
  Variable absent : T.
  Variable tensor_val : tensor -> T.
  Variable interp : opid -> list (str * attr) -> list (subfn T) -> list T -> nat -> option (list T).
  Hypothesis interp_mono : forall op attrs subs subs' ins k r,
      Forall2 (sub_le T) subs subs' -> interp op attrs subs ins k = Some r -> interp op attrs subs' ins k = Some r.
  Hypothesis interp_identity : forall op attrs subs x,
      is_identity_op op = true -> interp op attrs subs [x] 1%nat = Some [x].
  Hypothesis interp_trailing_absent : forall op attrs subs ins k,
      interp op attrs subs (ins ++ [absent]) k = interp op attrs subs ins k.
  Hypothesis interp_fewer_outputs : forall op attrs subs ins k k' outs, (0 < k')%nat -> (k' <= k)%nat ->
      interp op attrs subs ins k = Some outs ->
      exists outs', interp op attrs subs ins k' = Some outs' /\ forall j, (j < k')%nat -> nth_error outs' j = nth_error outs j.
  Variable other : list (vid * tensor).
  Hypothesis interp_constant : forall lift_all size_limit op k name a t subs,
      is_constant_op op = true -> lift_tensor lift_all size_limit other k name a = Some t ->
      interp op [(name, a)] subs [] 1%nat = Some [tensor_val t].
  Variable tbl : defaults_table.
  Hypothesis interp_defaults : forall op attrs aenv subs ins k,
      interp op (resolve aenv (add_attrs attrs (op_defaults tbl op))) subs ins k = interp op (resolve aenv attrs) subs ins k.
  Hypothesis interp_graph_ids : forall op attrs attrs' subs ins k,
      Forall2 (fun x y => fst x = fst y /\ (snd x = snd y \/ (is_graph_attr (snd x) = true /\ is_graph_attr (snd y) = true
                                                              /\ length (attr_graphs [x]) = length (attr_graphs [y])))) attrs attrs' ->
      interp op attrs subs ins k = interp op attrs' subs ins k.

  Theorem sequence_checked ps m : invb m = true -> seq_okb other tbl ps m = true ->
    Proofs12.Inv (fold_left (Proofs12.apply_pass other tbl) ps m)
    /\ Proofs12.Refines T absent tensor_val interp m (fold_left (Proofs12.apply_pass other tbl) ps m).
  Proof.
    intros HI HS.
    exact (Proofs12.sequence_all T absent tensor_val interp interp_mono interp_identity interp_trailing_absent
             interp_fewer_outputs other interp_constant tbl interp_defaults interp_graph_ids ps m
             (invb_sound m HI) (seq_okb_sound other tbl ps m HS)).
  Qed.
End SeqChecked.

(* ---------- the tests are not vacuous: concrete instances ---------- *)
Module Proofs19Examples.
  Definition OP (s : str) : opid := ([], s, []).
  Definition S_Relu : str := [82;101;108;117].
  Definition S_Neg : str := [78;101;103].
  Definition S_F : str := [70].
  Definition S_alpha : str := [97].
  Definition S_body : str := [98].
  Definition t0 := mkTensor 1 [1%Z] [7%Z].

  (* main: y = Relu(x); z = Identity(y); outputs [z] *)
  Definition ex0 : model :=
    mkModel (mkGraph [1] [] [mkNode (OP S_Relu) [] [Some 1] [2]; mkNode (OP STR_Identity) [] [Some 2] [3]] [3]) [] [].

  (* main(x=1; initializer 5): c = Constant[value]; y = Relu(x); (b, b2) = BatchNormalization(y, 5) (no training_mode);
     w = F(b) [body = subgraph 1]; z = Identity(w); outputs [z].  subgraph 1: Neg(y) -> 20.  F(a) = Neg(a). *)
  Definition ex1 : model :=
    mkModel (mkGraph [1] [(5, t0)]
                     [mkNode (OP STR_Constant) [(STR_value, AData 1 [1%Z; 0%Z; 7%Z])] [] [4];
                      mkNode (OP S_Relu) [] [Some 1] [2];
                      mkNode (OP STR_BatchNormalization) [(S_alpha, AData 1 [0%Z])] [Some 2; Some 5] [6; 7];
                      mkNode (OP S_F) [(S_body, AGraph 1)] [Some 6] [8];
                      mkNode (OP STR_Identity) [] [Some 8] [3]] [3])
            [(1, mkGraph [] [] [mkNode (OP S_Neg) [] [Some 2] [20]] [20])]
            [mkFunc (OP S_F) (mkGraph [10] [] [mkNode (OP S_Neg) [] [Some 10] [11]] [11]) []].

  Definition sc1 : schema := [(STR_BatchNormalization, [false; true; true]); (S_Relu, [false])].
  Definition tbl1 : defaults_table := [(OP S_Relu, [(S_alpha, AData 1 [0%Z])])].

  Example invb_ex0 : invb ex0 = true.  Proof. vm_compute. reflexivity. Qed.
  Example invb_ex1 : invb ex1 = true.  Proof. vm_compute. reflexivity. Qed.

  Example dce_ex0 : extra_okb tbl1 (Proofs12.PDce sc1 [99] [GMain] 8) ex0 = true.  Proof. vm_compute. reflexivity. Qed.
  Example dce_ex1 : extra_okb tbl1 (Proofs12.PDce sc1 [99] [GMain; GSub 1] 8) ex1 = true.  Proof. vm_compute. reflexivity. Qed.
  Example lift_ex1 : extra_okb tbl1 (Proofs12.PLift 8 true 0%Z 100) ex1 = true.  Proof. vm_compute. reflexivity. Qed.
  Example cse_ex1 : extra_okb tbl1 (Proofs12.PCse 0%Z 100 []) ex1 = true.  Proof. vm_compute. reflexivity. Qed.
  Example outfix_ex1 : extra_okb tbl1 (Proofs12.POutFix [[GMain; GSub 1]] 100) ex1 = true.  Proof. vm_compute. reflexivity. Qed.
  Example reorder_ex1 : extra_okb tbl1 (Proofs12.PReorder ex1) ex1 = true.  Proof. vm_compute. reflexivity. Qed.
  Example liftsub_ex1 : extra_okb tbl1 (Proofs12.PLiftSub [GMain; GSub 1]) ex1 = true.  Proof. vm_compute. reflexivity. Qed.
  Example defattr_ex1 : extra_okb tbl1 (Proofs12.PDefAttr 8) ex1 = true.  Proof. vm_compute. reflexivity. Qed.

  (* conditions that fail *)
  (* fresh counter below an existing identity *)
  Example lift_small_fresh : extra_okb tbl1 (Proofs12.PLift 8 true 0%Z 8) ex1 = false.  Proof. vm_compute. reflexivity. Qed.
  Example cse_small_fresh : extra_okb tbl1 (Proofs12.PCse 0%Z 20 []) ex1 = false.  Proof. vm_compute. reflexivity. Qed.
  Example outfix_small_fresh : extra_okb tbl1 (Proofs12.POutFix [] 3) ex0 = false.  Proof. vm_compute. reflexivity. Qed.
  (* an "unnamed" value that is used *)
  Example dce_unnamed_used : extra_okb tbl1 (Proofs12.PDce sc1 [2] [GMain] 8) ex0 = false.  Proof. vm_compute. reflexivity. Qed.
  (* the schema lists an operator that the model defines as a function *)
  Example dce_schema_func : extra_okb tbl1 (Proofs12.PDce ((S_F, [false]) :: sc1) [99] [GMain] 8) ex1 = false.
  Proof. vm_compute. reflexivity. Qed.
  (* BatchNormalization with training_mode *)
  Example dce_bn_training :
    nobntrainingb (mkModel (mkGraph [1] [] [mkNode (OP STR_BatchNormalization) [(STR_training_mode, AData 2 [1%Z])] [Some 1] [2]] [2]) [] [])
    = false.
  Proof. vm_compute. reflexivity. Qed.
  (* a table entry with a graph-valued default / for an operator defined as a function *)
  Example defattr_graph_default : extra_okb [(OP S_Neg, [(S_body, AGraph 1)])] (Proofs12.PDefAttr 8) ex1 = false.
  Proof. vm_compute. reflexivity. Qed.
  Example defattr_func_op : extra_okb [(OP S_F, [(S_alpha, AData 1 [0%Z])])] (Proofs12.PDefAttr 8) ex1 = false.
  Proof. vm_compute. reflexivity. Qed.
  (* two subgraphs with the same identity *)
  Example liftsub_dup :
    extra_okb tbl1 (Proofs12.PLiftSub [])
              (mkModel (m_main ex0) [(1, mkGraph [] [] [] []); (1, mkGraph [] [] [] [])] []) = false.
  Proof. vm_compute. reflexivity. Qed.
  (* a different model is not a reordering *)
  Example reorder_other : extra_okb tbl1 (Proofs12.PReorder ex0) ex1 = false.  Proof. vm_compute. reflexivity. Qed.
  (* a function named Identity breaks the invariant *)
  Example invb_identity_func :
    invb (mkModel (m_main ex0) [] [mkFunc (OP STR_Identity) (mkGraph [10] [] [] [10]) []]) = false.
  Proof. vm_compute. reflexivity. Qed.

  (* a whole sequence, each condition evaluated on the model produced by the passes before it *)
  Definition seq1 : list Proofs12.pass :=
    [Proofs12.PReorder ex1; Proofs12.PDefAttr 8; Proofs12.PLift 8 true 0%Z 100; Proofs12.PCse 0%Z 200 [];
     Proofs12.PIdent 8; Proofs12.PDce sc1 [99] [GMain; GSub 1] 8; Proofs12.PLiftSub [GMain; GSub 1];
     Proofs12.POutFix [[GMain; GSub 1]] 300; Proofs12.PRmFunc 8; Proofs12.PAddInit; Proofs12.PRmInit].
  Example seq_ex1 : seq_okb [] tbl1 seq1 ex1 = true.  Proof. vm_compute. reflexivity. Qed.
  Example seq_ex1_bad : seq_okb [] tbl1 (seq1 ++ [Proofs12.PCse 0%Z 2 []]) ex1 = false.  Proof. vm_compute. reflexivity. Qed.
End Proofs19Examples.

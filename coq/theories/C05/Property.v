(* C05/Property.v — ONLY the property theorems, each closed by a lemma of Proofs*.v and followed by
   Print Assumptions.

   Statement of the property: for every valid model m, every built-in pass P or sequence of passes, every input
   environment env (values for the non-initializer inputs of the main graph) and result r:
        computes m env r  ->  computes (P m) env r                 (outputs position by position)
   the number/order of graph outputs and of non-initializer inputs is kept, and validity is kept.
   `computes` quantifies over ALL operator semantics `interp` satisfying the hypotheses written in each theorem
   (operators are functions of (op id, attributes with type, body denotations, inputs, #outputs) — the type of interp —
   and monotone in their body denotations; Identity is the identity; trailing absent inputs are ignored; for DCE:
   leading outputs do not depend on how many trailing outputs are requested; for constant lifting: Constant returns
   its attribute).  By C05_computes_deterministic the transformed model computes nothing else; OutOfFuel is excluded by
   the existential in `computes`.

   Proved for all models / inputs / fuel:
     toolkit        C05_den_fuel_monotone, C05_computes_deterministic, C05_sim_refines (replace-uses, remove-dead,
                    eliminate-identity, lift-constant, trim-outputs as cases of one simulation), C05_alias_refines
                    (insert Identity in front of outputs), C05_wfb_sound
     passes         C05_identity_elim_preserves, C05_cse_preserves (whole pass; C05_cse_key_faithful), C05_dedup_preserves
                    (plain and hashed), C05_dce_preserves (incl. schema-driven optional-output trimming; the
                    BatchNormalization training_mode branch is excluded: C05_dce_batchnorm_refuted, known finding),
                    C05_lift_constants_preserves, C05_output_fix_preserves, C05_lift_subgraph_inits_preserves,
                    C05_add_inits_to_inputs_preserves, C05_remove_inits_from_inputs_preserves, C05_add_default_attributes_preserves,
                    C05_reorder_preserves
                    (TopologicalSort as the relation checked on the implementation's result; exact order = C12)
     more passes    C05_remove_unused_functions_preserves (Proofs14/16), C05_inline_simulation (one inlining step: the
                    environment-changing simulation of Proofs15 instantiated through the executable certificate
                    InlineCert.inline_certb), C05_inline_preserves (the whole InlinePass: calls in the main graph and its
                    subgraphs, nested calls, attribute parameters and defaults, omitted arguments, pass-through outputs,
                    rewriting/deleting the then-dead functions: Proofs17/18), C05_frame_passes_preserve (NameFix,
                    ClearMetadataAndDocString, ShapeInference, RemoveUnusedOpsets: the term is unchanged; names, metadata,
                    value_info, opset table are an annotation `computes` does not read).
                    RemoveUnusedFunctions and Inline are stated for the CHECKED models (remove_unused_funcs_checked,
                    inline_pass_c): the implementation's rewrite guarded by an executable certificate that is proved sound;
                    where a certificate does not hold the checked model keeps the model unchanged, which the structural
                    correspondence (run on every check) would report as a mismatch with the implementation.
     composition    C05_sequence: any sequence of the thirteen modelled passes (InlinePass and RemoveUnusedFunctionsPass
                    included) refines the model w.r.t. the non-initializer inputs, keeps them (identities and order), keeps
                    the number of outputs and WF/NoOpFunc; each pass's own side condition (fresh counter above all
                    identities, locality of outputs, ...) is required at the point where it runs.
                    C05_sequence_checked: the same with EXECUTABLE hypotheses (invb, seq_okb / extra_okb: Proofs19), which the
                    check evaluates in Coq on every step of every generated sequence.
     opsets         C05_remove_unused_opsets_keeps_versions (Opsets.v: the term extended by the opset-import tables; the pass
                    prunes them; every node of every scope, every function domain and the default domain keep resolving to
                    the same version; the term is unchanged; nothing is added).
   Excluded (known finding, refuted in Coq): RemoveUnusedNodes on BatchNormalization with training_mode=1. *)
From Coq Require Import ZArith NArith List Bool Lia.
From IRV Require Import Base.Exn Gen.C05Gen C05.Model C05.Proofs C05.Proofs2 C05.Proofs3 C05.Proofs4 C05.Proofs5 C05.Proofs6
     C05.Proofs7 C05.Proofs8 C05.Proofs9 C05.Proofs10 C05.Proofs11 C05.Proofs12 C05.Proofs13 C05.Proofs14 C05.Proofs15
     C05.Proofs16 C05.Inline C05.InlineCert C05.InlinePass C05.Proofs17 C05.Proofs19 C05.Opsets
     Gen.C05GenTrim Gen.C05GenOpsets C05.GenEquiv C05.GenEquivOpsets.
Import ListNotations.
Open Scope N_scope.

(* ---- toolkit *)
Theorem C05_den_fuel_monotone :
  forall (T : Type) (absent : T) tensor_val interp,
    (forall op attrs subs subs' ins k r, Forall2 (sub_le T) subs subs' -> interp op attrs subs ins k = Some r -> interp op attrs subs' ins k = Some r) ->
    forall s f f' aenv env v r, (f <= f')%nat ->
      den T absent tensor_val interp s f aenv env v = Some r -> den T absent tensor_val interp s f' aenv env v = Some r.
Proof. intros. eapply den_mono_le; eauto. Qed.
Print Assumptions C05_den_fuel_monotone.

Theorem C05_computes_deterministic :
  forall (T : Type) (absent : T) tensor_val interp,
    (forall op attrs subs subs' ins k r, Forall2 (sub_le T) subs subs' -> interp op attrs subs ins k = Some r -> interp op attrs subs' ins k = Some r) ->
    forall m env r r', computes absent tensor_val interp m env r -> computes absent tensor_val interp m env r' -> r = r'.
Proof.
  intros T absent tv interp Hm m env r r' [f E] [f' E'].
  apply (den_list_mono_le T absent tv interp Hm _ f (Nat.max f f')) in E; [|lia].
  apply (den_list_mono_le T absent tv interp Hm _ f' (Nat.max f f')) in E'; [|lia]. congruence.
Qed.
Print Assumptions C05_computes_deterministic.

Theorem C05_sim_refines :
  forall (T : Type) (absent : T) tensor_val interp,
    (forall op attrs subs subs' ins k r, Forall2 (sub_le T) subs subs' -> interp op attrs subs ins k = Some r -> interp op attrs subs' ins k = Some r) ->
    (forall op attrs subs x, is_identity_op op = true -> interp op attrs subs [x] 1%nat = Some [x]) ->
    (forall op attrs subs ins k, interp op attrs subs (ins ++ [absent]) k = interp op attrs subs ins k) ->
    forall L formal sg s s', Sim T tensor_val interp L formal sg s s' ->
    forall f aenv env v r, env_ok T formal env -> L v ->
      den T absent tensor_val interp s f aenv env v = Some r -> den T absent tensor_val interp s' f aenv env (sg v) = Some r.
Proof. intros. eapply sim_refines; eauto. Qed.
Print Assumptions C05_sim_refines.

Theorem C05_alias_refines :
  forall (T : Type) (absent : T) tensor_val interp,
    (forall op attrs subs subs' ins k r, Forall2 (sub_le T) subs subs' -> interp op attrs subs ins k = Some r -> interp op attrs subs' ins k = Some r) ->
    (forall op attrs subs x, is_identity_op op = true -> interp op attrs subs [x] 1%nat = Some [x]) ->
    forall s s' F formal, AliasSim s s' F formal ->
    forall f aenv env v r, env_ok T formal env ->
      den T absent tensor_val interp s f aenv env v = Some r -> den T absent tensor_val interp s' (2 * f) aenv env v = Some r.
Proof. intros. eapply alias_refines; eauto. Qed.
Print Assumptions C05_alias_refines.

Theorem C05_wfb_sound : forall m, wfb m = true -> WF m.
Proof. exact wfb_WF. Qed.
Print Assumptions C05_wfb_sound.

(* ---- passes.  Pres m m' (Proofs3): WF/NoOpFunc kept, formals kept, computes m env r -> computes m' env r for every env
   over the formals, main-graph inputs kept, number of outputs kept.  The *_signature lemmas add: non-initializer inputs kept. *)
Theorem C05_identity_elim_preserves :
  forall (T : Type) (absent : T) tensor_val interp,
    (forall op attrs subs subs' ins k r, Forall2 (sub_le T) subs subs' -> interp op attrs subs ins k = Some r -> interp op attrs subs' ins k = Some r) ->
    (forall op attrs subs x, is_identity_op op = true -> interp op attrs subs [x] 1%nat = Some [x]) ->
    (forall op attrs subs ins k, interp op attrs subs (ins ++ [absent]) k = interp op attrs subs ins k) ->
    forall fuel m, WF m -> NoOpFunc m -> Pres T absent tensor_val interp m (identity_elim fuel m).
Proof. intros. apply identity_elim_pres; assumption. Qed.
Print Assumptions C05_identity_elim_preserves.

Theorem C05_cse_key_faithful : forall a b, cse_attr_eqb a b = true -> a = b.
Proof. exact cse_attr_eqb_eq. Qed.
Print Assumptions C05_cse_key_faithful.

Theorem C05_cse_key_distinguishes_attribute_type :
  cse_attr_eqb ([97], AData TY_INT [1%Z]) ([97], AData TY_FLOAT [4607182418800017408%Z]) = false.
Proof. exact cse_key_type_sensitive. Qed.
Print Assumptions C05_cse_key_distinguishes_attribute_type.

(* the whole pass, incl. the graph-output path (output aliasing, Identity insertion).  MainLocal: values produced by
   main-graph nodes are not outputs of subgraphs/functions; FreshB: `fresh` is above every identity. *)
Theorem C05_cse_preserves :
  forall (T : Type) (absent : T) tensor_val interp,
    (forall op attrs subs subs' ins k r, Forall2 (sub_le T) subs subs' -> interp op attrs subs ins k = Some r -> interp op attrs subs' ins k = Some r) ->
    (forall op attrs subs x, is_identity_op op = true -> interp op attrs subs [x] 1%nat = Some [x]) ->
    (forall op attrs subs ins k, interp op attrs subs (ins ++ [absent]) k = interp op attrs subs ins k) ->
    forall omitted size_limit m fresh, WF m -> NoOpFunc m -> MainLocal m -> FreshB m fresh ->
    Pres T absent tensor_val interp m (fst (cse omitted size_limit m fresh)).
Proof. intros. apply cse_pres; assumption. Qed.
Print Assumptions C05_cse_preserves.

Theorem C05_dedup_preserves :
  forall (T : Type) (absent : T) tensor_val interp,
    (forall op attrs subs subs' ins k r, Forall2 (sub_le T) subs subs' -> interp op attrs subs ins k = Some r -> interp op attrs subs' ins k = Some r) ->
    (forall op attrs subs x, is_identity_op op = true -> interp op attrs subs [x] 1%nat = Some [x]) ->
    (forall op attrs subs ins k, interp op attrs subs (ins ++ [absent]) k = interp op attrs subs ins k) ->
    (* keyeq = tensor_eqb: DeduplicateInitializersPass; tensor_hash_eqb: the hashed variant; any key is sound
       because a merge is only made after the exact comparison *)
    forall keyeq size_limit order m, WF m -> NoOpFunc m -> Pres T absent tensor_val interp m (dedup_inits keyeq size_limit order m).
Proof. intros. apply dedup_inits_pres; assumption. Qed.
Print Assumptions C05_dedup_preserves.

(* RemoveUnusedNodesPass with the ONNX schema table `sc` of optional outputs.  Excluded (NoBNTraining): a
   BatchNormalization node carrying training_mode — there the code changes the result (C05_dce_batchnorm_refuted). *)
Theorem C05_dce_preserves :
  forall (T : Type) (absent : T) tensor_val interp,
    (forall op attrs subs subs' ins k r, Forall2 (sub_le T) subs subs' -> interp op attrs subs ins k = Some r -> interp op attrs subs' ins k = Some r) ->
    (forall op attrs subs x, is_identity_op op = true -> interp op attrs subs [x] 1%nat = Some [x]) ->
    (forall op attrs subs ins k, interp op attrs subs (ins ++ [absent]) k = interp op attrs subs ins k) ->
    forall sc,
    (forall op attrs subs ins k k' outs, opt_flags sc op <> None -> (0 < k')%nat -> (k' <= k)%nat ->
        interp op attrs subs ins k = Some outs ->
        exists outs', interp op attrs subs ins k' = Some outs' /\ forall j, (j < k')%nat -> nth_error outs' j = nth_error outs j) ->
    forall unnamed opset_graphs fuel m, wfb m = true -> outputs_localb m = true -> NoOpFunc m -> NoBNTraining m -> NoFuncOp sc m ->
    (forall v, In v unnamed -> has_uses m v = false /\ is_graph_output m v = false) ->
    (forall o, In o (snd (frame m)) -> ~ In o (map fst (fst (frame m)))) ->
    Pres T absent tensor_val interp m (dce sc unnamed opset_graphs fuel m).
Proof. intros. eapply dce_schema_pres_checked; eauto. Qed.
Print Assumptions C05_dce_preserves.

Theorem C05_dce_batchnorm_refuted :
  exists sc m k, option_map n_attrs (get_node m k) <> option_map n_attrs (get_node (dce sc [] [GMain] 12 m) k)
                 /\ In k (g_outs (m_main (dce sc [] [GMain] 12 m))).
Proof.
  exists wit_dce_schema, wit_dce, 7. destruct dce_batchnorm_refuted as [A [B C]]. rewrite A, B, C. split; [discriminate | left; reflexivity].
Qed.
Print Assumptions C05_dce_batchnorm_refuted.

Theorem C05_lift_constants_preserves :
  forall (T : Type) (absent : T) tensor_val interp,
    (forall op attrs subs subs' ins k r, Forall2 (sub_le T) subs subs' -> interp op attrs subs ins k = Some r -> interp op attrs subs' ins k = Some r) ->
    (forall op attrs subs x, is_identity_op op = true -> interp op attrs subs [x] 1%nat = Some [x]) ->
    (forall op attrs subs ins k, interp op attrs subs (ins ++ [absent]) k = interp op attrs subs ins k) ->
    forall lift_all size_limit other,
    (forall op k name a t subs, is_constant_op op = true -> lift_tensor lift_all size_limit other k name a = Some t ->
                                interp op [(name, a)] subs [] 1%nat = Some [tensor_val t]) ->
    forall fuel m fresh, WF m -> NoOpFunc m -> ConstOK m -> FreshOK m fresh ->
    Pres T absent tensor_val interp m (fst (lift_constants fuel lift_all size_limit other m fresh)).
Proof. intros. apply lift_constants_pres; assumption. Qed.
Print Assumptions C05_lift_constants_preserves.

Theorem C05_output_fix_preserves :
  forall (T : Type) (absent : T) tensor_val interp,
    (forall op attrs subs subs' ins k r, Forall2 (sub_le T) subs subs' -> interp op attrs subs ins k = Some r -> interp op attrs subs' ins k = Some r) ->
    (forall op attrs subs x, is_identity_op op = true -> interp op attrs subs [x] 1%nat = Some [x]) ->
    forall scopes m fresh, WF m -> NoOpFunc m -> FreshAll m fresh ->
    Pres T absent tensor_val interp m (fst (output_fix scopes m fresh)).
Proof. intros. apply output_fix_pres; assumption. Qed.
Print Assumptions C05_output_fix_preserves.

Theorem C05_lift_subgraph_inits_preserves :
  forall (T : Type) (absent : T) tensor_val interp,
    (forall op attrs subs subs' ins k r, Forall2 (sub_le T) subs subs' -> interp op attrs subs ins k = Some r -> interp op attrs subs' ins k = Some r) ->
    (forall op attrs subs x, is_identity_op op = true -> interp op attrs subs [x] 1%nat = Some [x]) ->
    (forall op attrs subs ins k, interp op attrs subs (ins ++ [absent]) k = interp op attrs subs ins k) ->
    forall order m, NoDup (map fst (m_subs m)) -> WF m ->
    forall env r, env_ok T (formal_of m) env -> computes absent tensor_val interp m env r ->
                  computes absent tensor_val interp (lift_subgraph_inits order m) env r.
Proof. intros. eapply lift_subgraph_inits_computes; eauto. Qed.
Print Assumptions C05_lift_subgraph_inits_preserves.

(* the inputs of the main graph are not part of the semantics of a model: both conversions leave `computes` unchanged *)
Theorem C05_add_inits_to_inputs_preserves :
  forall (T : Type) (absent : T) tensor_val interp m env r,
    computes absent tensor_val interp (add_inits_to_inputs [GMain] m) env r <-> computes absent tensor_val interp m env r.
Proof. intros. apply add_inits_main_computes_iff. Qed.
Print Assumptions C05_add_inits_to_inputs_preserves.

Theorem C05_remove_inits_from_inputs_preserves :
  forall (T : Type) (absent : T) tensor_val interp m env r,
    computes absent tensor_val interp (remove_inits_from_inputs [GMain] m) env r <-> computes absent tensor_val interp m env r.
Proof. intros. apply remove_inits_main_computes_iff. Qed.
Print Assumptions C05_remove_inits_from_inputs_preserves.

(* AddDefaultAttributesPass: tbl = schema defaults (read from onnx.defs by the harness: modelled, not verified) *)
Theorem C05_add_default_attributes_preserves :
  forall (T : Type) (absent : T) tensor_val interp,
    (forall op attrs subs subs' ins k r, Forall2 (sub_le T) subs subs' -> interp op attrs subs ins k = Some r -> interp op attrs subs' ins k = Some r) ->
    (forall op attrs subs x, is_identity_op op = true -> interp op attrs subs [x] 1%nat = Some [x]) ->
    (forall op attrs subs ins k, interp op attrs subs (ins ++ [absent]) k = interp op attrs subs ins k) ->
    forall tbl,
    (forall op attrs aenv subs ins k,
        interp op (resolve aenv (add_attrs attrs (op_defaults tbl op))) subs ins k = interp op (resolve aenv attrs) subs ins k) ->
    forall fuel m, WF m -> NoOpFunc m -> TblOK tbl m -> Pres T absent tensor_val interp m (add_default_attrs tbl fuel m).
Proof. intros. apply add_default_attrs_pres; assumption. Qed.
Print Assumptions C05_add_default_attributes_preserves.

Theorem C05_reorder_preserves :
  forall (T : Type) (absent : T) tensor_val interp,
    (forall op attrs subs subs' ins k r, Forall2 (sub_le T) subs subs' -> interp op attrs subs ins k = Some r -> interp op attrs subs' ins k = Some r) ->
    (forall op attrs subs x, is_identity_op op = true -> interp op attrs subs [x] 1%nat = Some [x]) ->
    (forall op attrs subs ins k, interp op attrs subs (ins ++ [absent]) k = interp op attrs subs ins k) ->
    forall m m', WF m -> reorder_modelb m m' = true ->
    forall env r, env_ok T (formal_of m) env -> computes absent tensor_val interp m env r -> computes absent tensor_val interp m' env r.
Proof. intros T a tv i H1 H2 H3 m m' HW HR. apply (reorder_computes T a tv i H1 H2 H3 m m' HW). apply reorder_modelb_sound. exact HR. Qed.
Print Assumptions C05_reorder_preserves.

(* RemoveUnusedFunctionsPass.  remove_unused_funcs_checked = the implementation's rule (drop the functions not reachable
   from the main graph) guarded by the executable closedness certificate Model.drop_closedb; the structural
   correspondence compares this guarded function with the implementation on every run. *)
Theorem C05_remove_unused_functions_preserves :
  forall (T : Type) (absent : T) tensor_val interp,
    (forall op attrs subs subs' ins k r, Forall2 (sub_le T) subs subs' -> interp op attrs subs ins k = Some r -> interp op attrs subs' ins k = Some r) ->
    (forall op attrs subs x, is_identity_op op = true -> interp op attrs subs [x] 1%nat = Some [x]) ->
    (forall op attrs subs ins k, interp op attrs subs (ins ++ [absent]) k = interp op attrs subs ins k) ->
    forall fuel m, WF m -> NoOpFunc m ->
      (forall env r, env_ok T (formal_of m) env -> computes absent tensor_val interp m env r ->
                     computes absent tensor_val interp (remove_unused_funcs_checked fuel m) env r)
      /\ WF (remove_unused_funcs_checked fuel m) /\ NoOpFunc (remove_unused_funcs_checked fuel m)
      /\ m_main (remove_unused_funcs_checked fuel m) = m_main m.
Proof.
  intros T a tv i H1 H2 H3 fuel m HW HN. split; [|split; [|split]].
  - apply (rmfunc_checked_computes T a tv i H1 H2 H3 fuel m HW).
  - apply rmfunc_checked_WF; exact HW.
  - apply rmfunc_checked_NoOpFunc; exact HN.
  - apply rmfunc_checked_main.
Qed.
Print Assumptions C05_remove_unused_functions_preserves.

(* InlinePass, the semantic core (Proofs15): whenever the relation InlineSim holds between a model and the model with ONE
   call replaced by a copy of the callee's body (formals bound to the arguments / omitted, attribute parameters resolved
   through the call's attributes and the defaults, subgraphs copied, results renamed or passed through an Identity), every
   value of the old model has the same denotation in the new one, with fuel phi f = f*f + 2f. *)
Theorem C05_inline_simulation :
  forall (T : Type) (absent : T) tensor_val interp,
    (forall op attrs subs subs' ins k r, Forall2 (sub_le T) subs subs' -> interp op attrs subs ins k = Some r -> interp op attrs subs' ins k = Some r) ->
    (forall op attrs subs x, is_identity_op op = true -> interp op attrs subs [x] 1%nat = Some [x]) ->
    (forall op attrs attrs' subs ins k,
      Forall2 (fun x y => fst x = fst y /\ (snd x = snd y \/ (is_graph_attr (snd x) = true /\ is_graph_attr (snd y) = true
                                                              /\ length (attr_graphs [x]) = length (attr_graphs [y])))) attrs attrs' ->
      interp op attrs subs ins k = interp op attrs' subs ins k) ->
    forall m st fv, WF m -> NoOpFunc m -> inline_certb m st fv = true ->
      (forall env r, env_ok T (formal_of m) env -> computes absent tensor_val interp m env r -> computes absent tensor_val interp (is_m st) env r)
      /\ WF (is_m st) /\ NoOpFunc (is_m st) /\ noninit_inputs (is_m st) = noninit_inputs m
      /\ length (g_outs (m_main (is_m st))) = length (g_outs (m_main m)).
Proof.
  intros T a tv i H1 H2 H7 m st fv HW HN Hc. split.
  - apply (inline_step_computes T a tv i H1 H2 H7 m st fv HW HN Hc).
  - destruct (inline_step_valid m st fv HW HN Hc) as [A [B [C [D _]]]]. auto.
Qed.
Print Assumptions C05_inline_simulation.

(* InlinePass, the whole pass (call sites in the main graph and its subgraphs, nested calls — the copied calls are
   revisited —, attribute parameters and defaults, final deletion of the inlined functions).  inline_pass_c = the
   executable inliner of C05/Inline.v in which every step / the final deletion is applied only with its executable
   certificate (InlineCert.inline_certb / Model.drop_closedb / Proofs18.live_agreeb); the structural correspondence compares
   THIS function with the implementation's result on every run (a rejected certificate would show as a mismatch). *)
Theorem C05_inline_preserves :
  forall (T : Type) (absent : T) tensor_val interp,
    (forall op attrs subs subs' ins k r, Forall2 (sub_le T) subs subs' -> interp op attrs subs ins k = Some r -> interp op attrs subs' ins k = Some r) ->
    (forall op attrs subs x, is_identity_op op = true -> interp op attrs subs [x] 1%nat = Some [x]) ->
    (forall op attrs subs ins k, interp op attrs subs (ins ++ [absent]) k = interp op attrs subs ins k) ->
    (forall op attrs attrs' subs ins k,
      Forall2 (fun x y => fst x = fst y /\ (snd x = snd y \/ (is_graph_attr (snd x) = true /\ is_graph_attr (snd y) = true
                                                              /\ length (attr_graphs [x]) = length (attr_graphs [y])))) attrs attrs' ->
      interp op attrs subs ins k = interp op attrs' subs ins k) ->
    forall fuel m fv fg, WF m -> NoOpFunc m ->
      let m' := inline_pass_c fuel m fv fg in
      (forall env r, env_ok T (fun v => In v (noninit_inputs m)) env -> computes absent tensor_val interp m env r -> computes absent tensor_val interp m' env r)
      /\ WF m' /\ NoOpFunc m' /\ noninit_inputs m' = noninit_inputs m
      /\ length (g_outs (m_main m')) = length (g_outs (m_main m)).
Proof.
  intros T a tv i H1 H2 H3 H7 fuel m fv fg HW HN.
  destruct (inline_pass_c_good T a tv i H1 H2 H3 H7 fuel m fv fg HW HN) as [G1 G2 G3 G4 G5]. cbv zeta. auto.
Qed.
Print Assumptions C05_inline_preserves.

(* NameFix / ClearMetadataAndDocString / ShapeInference / RemoveUnusedOpsets: names, doc strings, metadata, value_info and
   the opset table are an opaque annotation next to the term; `computes` ignores it, so a pass that leaves the term
   unchanged (checked on every run: term before = term after) preserves what the model computes. *)
Theorem C05_frame_passes_preserve :
  forall (T Ann : Type) (absent : T) tensor_val interp (P : amodel Ann -> amodel Ann),
    (forall am, fst (P am) = fst am) ->
    forall am env r, computes_a absent tensor_val interp am env r <-> computes_a absent tensor_val interp (P am) env r.
Proof. intros. apply frame_pass_preserves. assumption. Qed.
Print Assumptions C05_frame_passes_preserve.

(* ---- signatures: the non-initializer inputs (identities, order) are kept *)
Theorem C05_passes_signature :
  (forall fuel m, noninit_inputs (identity_elim fuel m) = noninit_inputs m)
  /\ (forall keyeq sl order m, noninit_inputs (dedup_inits keyeq sl order m) = noninit_inputs m)
  /\ (forall sc u ops fuel m, noninit_inputs (dce sc u ops fuel m) = noninit_inputs m)
  /\ (forall u sl m fresh, noninit_inputs (fst (cse u sl m fresh)) = noninit_inputs m)
  /\ (forall fuel la sl other m fresh, FreshOK m fresh -> noninit_inputs (fst (lift_constants fuel la sl other m fresh)) = noninit_inputs m)
  /\ (forall scopes m fresh, WF m -> NoOpFunc m -> FreshAll m fresh -> noninit_inputs (fst (output_fix scopes m fresh)) = noninit_inputs m)
  /\ (forall order m, NoDup (map fst (m_subs m)) -> noninit_inputs (lift_subgraph_inits order m) = noninit_inputs m)
  /\ (forall m, noninit_inputs (add_inits_to_inputs [GMain] m) = noninit_inputs m)
  /\ (forall m, noninit_inputs (remove_inits_from_inputs [GMain] m) = noninit_inputs m).
Proof.
  repeat split; intros.
  - apply identity_elim_signature. - apply dedup_inits_signature. - apply dce_signature. - apply cse_signature.
  - apply lift_constants_signature_FreshOK; assumption.
  - destruct (output_fix_signature scopes m fresh) as [_ [A _]]; assumption.
  - apply lift_subgraph_inits_signature; assumption.
  - apply add_inits_main_noninit. - apply remove_inits_main_noninit.
Qed.
Print Assumptions C05_passes_signature.

(* ---- composition over all thirteen modelled passes, InlinePass and RemoveUnusedFunctionsPass included
   (Proofs12: pass, apply_pass, extra, seq_ok, Refines, Inv) *)
Theorem C05_sequence :
  forall (T : Type) (absent : T) tensor_val interp,
    (forall op attrs subs subs' ins k r, Forall2 (sub_le T) subs subs' -> interp op attrs subs ins k = Some r -> interp op attrs subs' ins k = Some r) ->
    (forall op attrs subs x, is_identity_op op = true -> interp op attrs subs [x] 1%nat = Some [x]) ->
    (forall op attrs subs ins k, interp op attrs subs (ins ++ [absent]) k = interp op attrs subs ins k) ->
    (forall op attrs subs ins k k' outs, (0 < k')%nat -> (k' <= k)%nat -> interp op attrs subs ins k = Some outs ->
        exists outs', interp op attrs subs ins k' = Some outs' /\ forall j, (j < k')%nat -> nth_error outs' j = nth_error outs j) ->
    forall other,
    (forall lift_all size_limit op k name a t subs, is_constant_op op = true -> lift_tensor lift_all size_limit other k name a = Some t ->
        interp op [(name, a)] subs [] 1%nat = Some [tensor_val t]) ->
    forall tbl,
    (forall op attrs aenv subs ins k,
        interp op (resolve aenv (add_attrs attrs (op_defaults tbl op))) subs ins k = interp op (resolve aenv attrs) subs ins k) ->
    (forall op attrs attrs' subs ins k,
      Forall2 (fun x y => fst x = fst y /\ (snd x = snd y \/ (is_graph_attr (snd x) = true /\ is_graph_attr (snd y) = true
                                                              /\ length (attr_graphs [x]) = length (attr_graphs [y])))) attrs attrs' ->
      interp op attrs subs ins k = interp op attrs' subs ins k) ->
    forall ps m, Inv m -> seq_ok other tbl ps m ->
    Inv (fold_left (apply_pass other tbl) ps m)
    /\ Refines T absent tensor_val interp m (fold_left (apply_pass other tbl) ps m).
Proof. intros T a tv i H1 H2 H3 H4 other H5 tbl H6 H7 ps m HI Hok. exact (sequence_all T a tv i H1 H2 H3 H4 other H5 tbl H6 H7 ps m HI Hok). Qed.
Print Assumptions C05_sequence.

(* ---- the same composition theorem with EXECUTABLE hypotheses (Proofs19): validity (wfb, noopfuncb) and every pass's own
   side condition at the point where it runs (extra_okb: fresh counters above all identities, locality of outputs, no
   BatchNormalization training_mode, schema table / defaults table consistent with the functions, ...) are boolean tests;
   the check evaluates them in Coq on every step of every generated sequence, so the theorem applies to that very input
   (steps where a test is false are counted as outside the hypotheses in the evidence). *)
Theorem C05_sequence_checked :
  forall (T : Type) (absent : T) tensor_val interp,
    (forall op attrs subs subs' ins k r, Forall2 (sub_le T) subs subs' -> interp op attrs subs ins k = Some r -> interp op attrs subs' ins k = Some r) ->
    (forall op attrs subs x, is_identity_op op = true -> interp op attrs subs [x] 1%nat = Some [x]) ->
    (forall op attrs subs ins k, interp op attrs subs (ins ++ [absent]) k = interp op attrs subs ins k) ->
    (forall op attrs subs ins k k' outs, (0 < k')%nat -> (k' <= k)%nat -> interp op attrs subs ins k = Some outs ->
        exists outs', interp op attrs subs ins k' = Some outs' /\ forall j, (j < k')%nat -> nth_error outs' j = nth_error outs j) ->
    forall other,
    (forall lift_all size_limit op k name a t subs, is_constant_op op = true -> lift_tensor lift_all size_limit other k name a = Some t ->
        interp op [(name, a)] subs [] 1%nat = Some [tensor_val t]) ->
    forall tbl,
    (forall op attrs aenv subs ins k,
        interp op (resolve aenv (add_attrs attrs (op_defaults tbl op))) subs ins k = interp op (resolve aenv attrs) subs ins k) ->
    (forall op attrs attrs' subs ins k,
      Forall2 (fun x y => fst x = fst y /\ (snd x = snd y \/ (is_graph_attr (snd x) = true /\ is_graph_attr (snd y) = true
                                                              /\ length (attr_graphs [x]) = length (attr_graphs [y])))) attrs attrs' ->
      interp op attrs subs ins k = interp op attrs' subs ins k) ->
    forall ps m, invb m = true -> seq_okb other tbl ps m = true ->
    Inv (fold_left (apply_pass other tbl) ps m)
    /\ Refines T absent tensor_val interp m (fold_left (apply_pass other tbl) ps m).
Proof. intros T a tv i H1 H2 H3 H4 other H5 tbl H6 H7 ps m HI Hok. exact (sequence_checked T a tv i H1 H2 H3 H4 other H5 tbl H6 H7 ps m HI Hok). Qed.
Print Assumptions C05_sequence_checked.

(* ---- RemoveUnusedOpsetsPass (Opsets.v): the term is unchanged; every node of the main graph and its subgraphs, every
   function's domain and the default domain resolve to the same version in the pruned model table; every node of a
   function body (and the default domain) resolves to the same version in the function's pruned table; nothing is added. *)
Theorem C05_remove_unused_opsets_keeps_versions :
  forall fuel pf om,
    let om' := remove_unused_opsets fuel pf om in
    o_model om' = o_model om
    /\ (forall op, In op (rec_ops fuel (o_model om) GMain)
                   \/ (exists fn, In fn (m_funcs (o_model om)) /\ op_domain op = op_domain (f_id fn)) \/ op_domain op = [] ->
                   resolve_version om' GMain op = resolve_version om GMain op)
    /\ (forall i op, In op (rec_ops fuel (o_model om) (GFunc i)) \/ op_domain op = [] ->
                     resolve_version om' (GFunc i) op = resolve_version om (GFunc i) op)
    /\ (forall dv, In dv (o_imports om') -> In dv (o_imports om))
    /\ length (o_fimports om') = length (o_fimports om).
Proof.
  intros fuel pf om. cbv zeta. split; [apply remove_unused_opsets_term|].
  split; [intros op H; apply remove_unused_opsets_main; exact H|].
  split; [intros i op H; apply remove_unused_opsets_func; exact H|].
  apply remove_unused_opsets_incl.
Qed.
Print Assumptions C05_remove_unused_opsets_keeps_versions.

(* InlinePass and the opset tables (Opsets.v): the imports of an inlined function are merged into the model's table; under
   the compatibility the implementation enforces (it raises on a version mismatch) every domain keeps the version it had in
   the model's table AND every domain of the function's table resolves, in the merged table, to the function's version — so
   the nodes already in the main graph and the copied body nodes denote the same operators as before.  The check evaluates
   inline_opsets_okb on every InlinePass step (old table is a prefix, additions come from function tables, every node of the
   main graph of the result has an import). *)
Theorem C05_inline_merges_opset_imports :
  forall imp fimp, compatible imp fimp ->
    (forall d v, slookup imp d = Some v -> slookup (merge_imports imp fimp) d = Some v)
    /\ (forall d v, slookup fimp d = Some v -> slookup (merge_imports imp fimp) d = Some v)
    /\ (forall fuel m r op, coveredb fuel m r (merge_imports imp fimp) = true -> In op (rec_ops fuel m r) ->
                             exists v, slookup (merge_imports imp fimp) (op_domain op) = Some v).
Proof.
  intros imp fimp Hc. split; [intros d v H; apply merge_keeps; exact H|].
  split; [intros d v H; apply merge_adds; assumption|].
  intros fuel m r op H Hin. eapply coveredb_sound; eauto.
Qed.
Print Assumptions C05_inline_merges_opset_imports.

(* ---- per-run translations of pass bodies (Gen/C05GenTrim.v, Gen/C05GenOpsets.v are regenerated from /repo/src on every
   run by a fail-closed ast -> Gallina translator) and their equivalence with the hand models the theorems above are about *)
(* unused_removal.py::_remove_trailing_empty_inputs = Model.strip_trailing_none (what dce's trim_node applies), and its
   return value says whether the list changed *)
Theorem C05_trim_translation_equiv :
  forall l : list (option N),
    fst (gen_remove_trailing_empty_inputs l) = strip_trailing_none l
    /\ snd (gen_remove_trailing_empty_inputs l) = negb (Nat.eqb (length (strip_trailing_none l)) (length l)).
Proof. exact gen_trim_equiv. Qed.
Print Assumptions C05_trim_translation_equiv.

(* RemoveUnusedOpsetsPass._process_graph_like applied as call() applies it = Opsets.remove_unused_opsets *)
Theorem C05_remove_unused_opsets_translation_equiv :
  forall fuel pf om,
  o_imports (remove_unused_opsets fuel pf om)
  = fst (gen_process_graph_like (map op_domain (rec_ops fuel (o_model om) GMain)) (o_imports om)
                                ([] :: map (fun fn => op_domain (f_id fn)) (m_funcs (o_model om))))
  /\ (pf = true -> forall i, nth i (o_fimports (remove_unused_opsets fuel pf om)) []
                             = fst (gen_process_graph_like (map op_domain (rec_ops fuel (o_model om) (GFunc i))) (nth i (o_fimports om) []) [[]])).
Proof. exact remove_unused_opsets_is_translation. Qed.
Print Assumptions C05_remove_unused_opsets_translation_equiv.

(* 0f568df: the former witness (Identity of an outer-scope value as a subgraph output) is kept: outputs stay local *)
Theorem C05_identity_elim_outer_scope_witness :
  wfb wit_ident = true /\ outputs_localb wit_ident = true /\ outputs_localb (identity_elim 12 wit_ident) = true.
Proof. exact ident_valid_witness. Qed.
Print Assumptions C05_identity_elim_outer_scope_witness.

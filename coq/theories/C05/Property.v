(* C05/Property.v — ONLY the property theorems, each closed by a lemma of Proofs*.v and followed by
   Print Assumptions.

   Full statement of the property (kept visible):
     for every valid model m, every built-in pass P (or sequence of passes), every input environment env
     and result r:   computes m env r  ->  computes (P m) env r            (outputs position by position)
     and the number/order of graph outputs and of non-initializer inputs is kept, and a checker-valid
     model stays checker-valid.
   `computes` quantifies over ALL operator semantics `interp` satisfying the hypotheses named in each
   theorem (monotone in body denotations; Identity is the identity; trailing absent inputs ignored).
   By C05_computes_deterministic the transformed model computes nothing else, so on every input on which
   the original model has a value the two agree (OutOfFuel is excluded by the existential in `computes`).

   Proved here (for all models, all inputs, all fuel): the semantic toolkit (fuel monotonicity,
   determinism, the generic simulation C05_sim_refines which subsumes replace-uses / remove-dead /
   rename-free reorder / lift-constant / eliminate-identity), and the passes
     IdentityEliminationPass           C05_identity_elim_preserves        (full: main graph, subgraphs, functions)
     DeduplicateInitializersPass       C05_dedup_preserves                (full; also the hashed variant: same model)
     RemoveUnusedNodesPass             C05_dce_preserves_partial          (node/initializer removal + trailing-None
                                        trimming; the schema-driven optional-output trimming is switched off (sc = []);
                                        with it the statement is FALSE: C05_dce_batchnorm_refuted)
     sequences of these                C05_sequence
     LiftConstantsToInitializersPass   C05_lift_constants_preserves       (full, all parameter settings)
     TopologicalSortPass               C05_reorder_preserves              (any graph-wise permutation: the relation the
                                        harness checks on the implementation's result; exact order = C12)
   Not proved in Coq (covered by the structural correspondence and the execution oracle only):
     CommonSubexpressionEliminationPass as a whole (only C05_cse_step_preserves_partial; its key is not injective:
     C05_cse_key_refuted), OutputFix,
     LiftSubgraphInitializers, Add/RemoveInitializersFromInputs, Inline, NameFix/ClearMetadata/ShapeInference/
     RemoveUnusedOpsets (frame-checked: they may only touch what is outside the term language), AddDefaultAttributes,
     RemoveUnusedFunctions.
   Checker-validity: C05_identity_elim_valid_refuted shows IdentityElimination does NOT keep "graph outputs
   are defined in their graph". *)
From Coq Require Import ZArith NArith List Bool Lia.
From IRV Require Import Base.Exn Gen.C05Gen C05.Model C05.Proofs C05.Proofs2 C05.Proofs3 C05.Proofs4 C05.Proofs5 C05.Proofs6.
Import ListNotations.
Open Scope N_scope.

(* ---- toolkit *)
Theorem C05_den_fuel_monotone :
  forall (T : Type) (absent : T) tensor_val interp,
    (forall op attrs subs subs' ins k r, Forall2 (sub_le T) subs subs' -> interp op attrs subs ins k = Some r -> interp op attrs subs' ins k = Some r) ->
    forall s f f' aenv env v r, (f <= f')%nat ->
      den T absent tensor_val interp s f aenv env v = Some r -> den T absent tensor_val interp s f' aenv env v = Some r.
Proof. intros. eapply den_mono_le; eauto. Qed.
Print Assumptions C05_den_fuel_monotone.

Theorem C05_computes_deterministic :
  forall (T : Type) (absent : T) tensor_val interp,
    (forall op attrs subs subs' ins k r, Forall2 (sub_le T) subs subs' -> interp op attrs subs ins k = Some r -> interp op attrs subs' ins k = Some r) ->
    forall m env r r', computes absent tensor_val interp m env r -> computes absent tensor_val interp m env r' -> r = r'.
Proof.
  intros T absent tv interp Hm m env r r' [f E] [f' E'].
  apply (den_list_mono_le T absent tv interp Hm _ f (Nat.max f f')) in E; [|lia].
  apply (den_list_mono_le T absent tv interp Hm _ f' (Nat.max f f')) in E'; [|lia]. congruence.
Qed.
Print Assumptions C05_computes_deterministic.

(* the generic simulation: sem_replace_uses / sem_remove_dead / sem_insert(eliminate)_identity / sem_lift_constant
   are its instances (cases VNode, VIdent, VConst, restriction to a closed live set L) *)
Theorem C05_sim_refines :
  forall (T : Type) (absent : T) tensor_val interp,
    (forall op attrs subs subs' ins k r, Forall2 (sub_le T) subs subs' -> interp op attrs subs ins k = Some r -> interp op attrs subs' ins k = Some r) ->
    (forall op attrs subs x, is_identity_op op = true -> interp op attrs subs [x] 1%nat = Some [x]) ->
    (forall op attrs subs ins k, interp op attrs subs (ins ++ [absent]) k = interp op attrs subs ins k) ->
    forall L formal sg s s', Sim T tensor_val interp L formal sg s s' ->
    forall f aenv env v r, env_ok T formal env -> L v ->
      den T absent tensor_val interp s f aenv env v = Some r -> den T absent tensor_val interp s' f aenv env (sg v) = Some r.
Proof. intros. eapply sim_refines; eauto. Qed.
Print Assumptions C05_sim_refines.

(* reordering (TopologicalSortPass, any permutation of node lists): the producer lookup only depends on
   the set of nodes when every value has one producer *)
Theorem C05_wfb_sound : forall m, wfb m = true -> WF m.
Proof. exact wfb_WF. Qed.
Print Assumptions C05_wfb_sound.

(* ---- passes.  Pres m m' = WF/NoOpFunc kept, formals kept, `computes m env r -> computes m' env r` for every env
   over the formals, main-graph inputs kept (same values, same order), number of outputs kept. *)
Theorem C05_identity_elim_preserves :
  forall (T : Type) (absent : T) tensor_val interp,
    (forall op attrs subs subs' ins k r, Forall2 (sub_le T) subs subs' -> interp op attrs subs ins k = Some r -> interp op attrs subs' ins k = Some r) ->
    (forall op attrs subs x, is_identity_op op = true -> interp op attrs subs [x] 1%nat = Some [x]) ->
    (forall op attrs subs ins k, interp op attrs subs (ins ++ [absent]) k = interp op attrs subs ins k) ->
    forall fuel m, WF m -> NoOpFunc m ->
    forall env r, env_ok T (formal_of m) env -> computes absent tensor_val interp m env r ->
                  computes absent tensor_val interp (identity_elim fuel m) env r.
Proof. intros T a tv i H1 H2 H3 fuel m HW HN. exact (pr_comp T a tv i _ _ (identity_elim_pres T a tv i H1 H2 H3 fuel m HW HN)). Qed.
Print Assumptions C05_identity_elim_preserves.

Theorem C05_dedup_preserves :
  forall (T : Type) (absent : T) tensor_val interp,
    (forall op attrs subs subs' ins k r, Forall2 (sub_le T) subs subs' -> interp op attrs subs ins k = Some r -> interp op attrs subs' ins k = Some r) ->
    (forall op attrs subs x, is_identity_op op = true -> interp op attrs subs [x] 1%nat = Some [x]) ->
    (forall op attrs subs ins k, interp op attrs subs (ins ++ [absent]) k = interp op attrs subs ins k) ->
    (* keyeq = tensor_eqb: DeduplicateInitializersPass; keyeq = tensor_hash_eqb: DeduplicateHashedInitializersPass;
       any key works because a merge is only made after the exact comparison *)
    forall keyeq size_limit order m, WF m -> NoOpFunc m ->
    forall env r, env_ok T (formal_of m) env -> computes absent tensor_val interp m env r ->
                  computes absent tensor_val interp (dedup_inits keyeq size_limit order m) env r.
Proof. intros T a tv i H1 H2 H3 ke sl order m HW HN. exact (pr_comp T a tv i _ _ (dedup_inits_pres T a tv i H1 H2 H3 ke sl order m HW HN)). Qed.
Print Assumptions C05_dedup_preserves.

Theorem C05_dce_preserves_partial :
  forall (T : Type) (absent : T) tensor_val interp,
    (forall op attrs subs subs' ins k r, Forall2 (sub_le T) subs subs' -> interp op attrs subs ins k = Some r -> interp op attrs subs' ins k = Some r) ->
    (forall op attrs subs x, is_identity_op op = true -> interp op attrs subs [x] 1%nat = Some [x]) ->
    (forall op attrs subs ins k, interp op attrs subs (ins ++ [absent]) k = interp op attrs subs ins k) ->
    forall unnamed opset_graphs fuel m, WF m -> NoOpFunc m ->
    (* no subgraph / function returns a main-graph initializer directly (part of "outputs are local") *)
    (forall o, In o (snd (frame m)) -> ~ In o (map fst (fst (frame m)))) ->
    forall env r, env_ok T (formal_of m) env -> computes absent tensor_val interp m env r ->
                  computes absent tensor_val interp (dce [] unnamed opset_graphs fuel m) env r.
Proof. intros T a tv i H1 H2 H3 u ops fuel m HW HN Hfr. exact (pr_comp T a tv i _ _ (dce_pres T a tv i H1 H2 H3 u ops fuel m HW HN Hfr)). Qed.
Print Assumptions C05_dce_preserves_partial.


(* ---- TopologicalSortPass (and any reordering): the relation the harness checks on the implementation's
   output (reorder_modelb before after = true) implies the same results.  The exact order is property C12. *)
Theorem C05_reorder_preserves :
  forall (T : Type) (absent : T) tensor_val interp,
    (forall op attrs subs subs' ins k r, Forall2 (sub_le T) subs subs' -> interp op attrs subs ins k = Some r -> interp op attrs subs' ins k = Some r) ->
    (forall op attrs subs x, is_identity_op op = true -> interp op attrs subs [x] 1%nat = Some [x]) ->
    (forall op attrs subs ins k, interp op attrs subs (ins ++ [absent]) k = interp op attrs subs ins k) ->
    forall m m', WF m -> reorder_modelb m m' = true ->
    forall env r, env_ok T (formal_of m) env -> computes absent tensor_val interp m env r -> computes absent tensor_val interp m' env r.
Proof. intros T a tv i H1 H2 H3 m m' HW HR. apply (reorder_computes T a tv i H1 H2 H3 m m' HW). apply reorder_modelb_sound. exact HR. Qed.
Print Assumptions C05_reorder_preserves.

Theorem C05_reorder_signature :
  forall m m', reorder_modelb m m' = true ->
    g_ins (m_main m') = g_ins (m_main m) /\ g_outs (m_main m') = g_outs (m_main m) /\ g_inits (m_main m') = g_inits (m_main m).
Proof. intros m m' H. apply reorder_modelb_sound in H. destruct H as [[A [B [_ C]]] _ _]. auto. Qed.
Print Assumptions C05_reorder_signature.

(* ---- LiftConstantsToInitializersPass (all parameter settings).  `other` is the table of numpy conversions of the
   value_int(s)/float(s)/string(s) forms handed to the model (modelled, not verified); the hypothesis on Constant says
   "Constant returns its attribute", i.e. the tensor the pass extracts.  ConstOK = schema of Constant (no inputs, one
   output); FreshOK = `fresh` is above every identity of the model. *)
Theorem C05_lift_constants_preserves :
  forall (T : Type) (absent : T) tensor_val interp,
    (forall op attrs subs subs' ins k r, Forall2 (sub_le T) subs subs' -> interp op attrs subs ins k = Some r -> interp op attrs subs' ins k = Some r) ->
    (forall op attrs subs x, is_identity_op op = true -> interp op attrs subs [x] 1%nat = Some [x]) ->
    (forall op attrs subs ins k, interp op attrs subs (ins ++ [absent]) k = interp op attrs subs ins k) ->
    forall lift_all size_limit other,
    (forall op k name a t subs, is_constant_op op = true -> lift_tensor lift_all size_limit other k name a = Some t ->
                                interp op [(name, a)] subs [] 1%nat = Some [tensor_val t]) ->
    forall fuel m fresh, WF m -> NoOpFunc m -> ConstOK m -> FreshOK m fresh ->
    forall env r, env_ok T (formal_of m) env -> computes absent tensor_val interp m env r ->
                  computes absent tensor_val interp (fst (lift_constants fuel lift_all size_limit other m fresh)) env r.
Proof.
  intros T a tv i H1 H2 H3 la sl other Hc fuel m fresh HW HN HC HF.
  exact (pr_comp T a tv i _ _ (lift_constants_pres T a tv i H1 H2 H3 la sl other Hc fuel m fresh HW HN HC HF)).
Qed.
Print Assumptions C05_lift_constants_preserves.


(* ---- CommonSubexpressionEliminationPass: ONE merge step (node `rem` removed, its values replaced by those of `keep`).
   FULL statement (not proved): forall m, Valid m -> computes m env r -> computes (fst (cse size_limit m fresh)) env r.
   It is FALSE for the code as it exists (C05_cse_key_refuted: the key identifies +0.0/-0.0 and NUL-padded strings).
   Proved: a merge step preserves the results when the key is faithful on the two nodes' attributes and no value of
   `rem` is a graph output.  Missing for the whole pass: the loop over the main graph (invariant: `seen` nodes stay in
   the graph) and the graph-output path (output list rewriting + Identity insertion; see the findings
   cse-graph-output-type-lost / cse-duplicate-graph-output-identity-names). *)
Theorem C05_cse_step_preserves_partial :
  forall (T : Type) (absent : T) tensor_val interp,
    (forall op attrs subs subs' ins k r, Forall2 (sub_le T) subs subs' -> interp op attrs subs ins k = Some r -> interp op attrs subs' ins k = Some r) ->
    (forall op attrs subs x, is_identity_op op = true -> interp op attrs subs [x] 1%nat = Some [x]) ->
    (forall op attrs subs ins k, interp op attrs subs (ins ++ [absent]) k = interp op attrs subs ins k) ->
    forall m rem keep fresh, WF m -> NoOpFunc m -> In rem (all_nodes m) -> In keep (all_nodes m) -> rem <> keep ->
    cse_key_eqb keep rem = true ->
    (forall a b, In a (n_attrs keep) -> In b (n_attrs rem) -> cse_attr_eqb a b = true -> a = b) ->
    existsb (is_graph_output m) (n_outs rem) = false ->
    forall env r, env_ok T (formal_of m) env -> computes absent tensor_val interp m env r ->
                  computes absent tensor_val interp (fst (cse_replace m rem keep fresh)) env r.
Proof.
  intros T a tv i H1 H2 H3 m rem keep fresh HW HN Hr Hk Hne Hkey Hf Ho.
  exact (pr_comp T a tv i _ _ (cse_step_pres T a tv i H1 H2 H3 m rem keep fresh HW HN Hr Hk Hne Hkey Hf Ho)).
Qed.
Print Assumptions C05_cse_step_preserves_partial.

(* ---- composition: any sequence of the proved passes *)
Theorem C05_sequence :
  forall (T : Type) (absent : T) tensor_val interp,
    (forall op attrs subs subs' ins k r, Forall2 (sub_le T) subs subs' -> interp op attrs subs ins k = Some r -> interp op attrs subs' ins k = Some r) ->
    (forall op attrs subs x, is_identity_op op = true -> interp op attrs subs [x] 1%nat = Some [x]) ->
    (forall op attrs subs ins k, interp op attrs subs (ins ++ [absent]) k = interp op attrs subs ins k) ->
    forall ps m, WF m -> NoOpFunc m -> seq_ok ps m ->
    forall env r, env_ok T (formal_of m) env -> computes absent tensor_val interp m env r ->
                  computes absent tensor_val interp (fold_left apply_pass ps m) env r.
Proof. intros T a tv i H1 H2 H3 ps m HW HN Hok. exact (pr_comp T a tv i _ _ (sequence_pres T a tv i H1 H2 H3 ps m HW HN Hok)). Qed.
Print Assumptions C05_sequence.

(* signature and Valid -> Valid for the proved passes and their sequences: main-graph inputs (identities and
   order, hence the non-initializer inputs: no proved pass removes an initializer that is a graph input), number of
   outputs, the set of formals, well-formedness and "no function shadows Identity/Constant" *)
Theorem C05_sequence_signature :
  forall ps m, WF m -> NoOpFunc m -> seq_ok ps m -> SigKept m (fold_left apply_pass ps m).
Proof. exact sequence_sig. Qed.
Print Assumptions C05_sequence_signature.

(* ---- findings: the faithful model violates the statement where the code does *)
(* 0f568df: the former witness (Identity of an outer-scope value as a subgraph output) is kept: outputs stay local *)
Theorem C05_identity_elim_outer_scope_witness :
  wfb wit_ident = true /\ outputs_localb wit_ident = true /\ outputs_localb (identity_elim 12 wit_ident) = true.
Proof. exact ident_valid_witness. Qed.
Print Assumptions C05_identity_elim_outer_scope_witness.

(* RemoveUnusedNodesPass with the ONNX schema table changes an attribute of a LIVE node (training_mode) *)
Theorem C05_dce_batchnorm_refuted :
  exists sc m k, option_map n_attrs (get_node m k) <> option_map n_attrs (get_node (dce sc [] [GMain] 12 m) k)
                 /\ In k (g_outs (m_main (dce sc [] [GMain] 12 m))).
Proof.
  exists wit_dce_schema, wit_dce, 7. destruct dce_batchnorm_refuted as [A [B C]]. rewrite A, B, C. split; [discriminate | left; reflexivity].
Qed.
Print Assumptions C05_dce_batchnorm_refuted.

(* af1d2e4: the CSE key is faithful — equal keys are equal (name, type, value) — and the former witnesses differ *)
Theorem C05_cse_key_faithful : forall a b, cse_attr_eqb a b = true -> a = b.
Proof. exact cse_attr_eqb_eq. Qed.
Print Assumptions C05_cse_key_faithful.

Theorem C05_cse_key_distinguishes_attribute_type :
  cse_attr_eqb ([97], AData TY_INT [1%Z]) ([97], AData TY_FLOAT [4607182418800017408%Z]) = false.
Proof. exact cse_key_type_sensitive. Qed.
Print Assumptions C05_cse_key_distinguishes_attribute_type.

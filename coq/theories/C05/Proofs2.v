(* C05/Proofs2.v — from term-level rewriting steps to the simulation of Proofs.v:
   well-formedness, producer lookup under map/filter of the node table, the generic step lemma. *)
From Coq Require Import ZArith NArith List Bool Lia.
From IRV Require Import Base.Exn Gen.C05Gen C05.Model C05.Proofs.
Import ListNotations.
Open Scope N_scope.

(* ---------------------------------------------------------------- lists *)
Lemma memN_In v l : memN v l = true <-> In v l.
Proof.
  unfold memN. rewrite existsb_exists. split.
  - intros [x [Hin E]]. apply N.eqb_eq in E. subst. exact Hin.
  - intros Hin. exists v. split; [exact Hin | apply N.eqb_refl].
Qed.
Lemma memN_false v l : memN v l = false <-> ~ In v l.
Proof.
  split; intros H.
  - intros Hin. apply memN_In in Hin. congruence.
  - destruct (memN v l) eqn:E; [exfalso; apply H; apply memN_In; exact E | reflexivity].
Qed.

Lemma nodupN_NoDup l : nodupN l = true -> NoDup l.
Proof.
  induction l as [|x l IH]; simpl; intros H; [constructor|].
  apply andb_prop in H. destruct H as [H1 H2]. constructor; [|auto].
  apply negb_true_iff in H1. apply memN_false in H1. exact H1.
Qed.

Lemma flat_map_map {A B C} (f : B -> list C) (g : A -> B) l : flat_map f (map g l) = flat_map (fun x => f (g x)) l.
Proof. induction l; simpl; [reflexivity|]. rewrite IHl. reflexivity. Qed.
Lemma flat_map_ext' {A B} (f g : A -> list B) l : (forall x, In x l -> f x = g x) -> flat_map f l = flat_map g l.
Proof. induction l; simpl; intros H; [reflexivity|]. rewrite (H a), IHl; auto. Qed.
Lemma filter_flat_map {A B} (p : B -> bool) (f : A -> list B) l : filter p (flat_map f l) = flat_map (fun x => filter p (f x)) l.
Proof. induction l; simpl; [reflexivity|]. rewrite filter_app, IHl. reflexivity. Qed.
Lemma map_flat_map {A B C} (h : B -> C) (f : A -> list B) l : map h (flat_map f l) = flat_map (fun x => map h (f x)) l.
Proof. induction l; simpl; [reflexivity|]. rewrite map_app, IHl. reflexivity. Qed.
Lemma filter_map_comm {A B} (p : B -> bool) (h : A -> B) l : filter p (map h l) = map h (filter (fun x => p (h x)) l).
Proof. induction l; simpl; [reflexivity|]. destruct (p (h a)); simpl; rewrite IHl; reflexivity. Qed.

Lemma NoDup_app_remove_l {A} (l l' : list A) : NoDup (l ++ l') -> NoDup l'.
Proof. induction l as [|a l IH]; simpl; intros H; [exact H|]. inversion H; subst. apply IH. assumption. Qed.

(* ---------------------------------------------------------------- producers *)
Definition subst_ins (sg : vid -> vid) (n : node) : node :=
  mkNode (n_op n) (n_attrs n) (map (option_map sg) (n_ins n)) (n_outs n).

Lemma index_of_In v l i : index_of v l = Some i -> In v l.
Proof.
  revert i. induction l as [|x l IH]; simpl; intros i E; [discriminate|].
  destruct (N.eqb x v) eqn:Ex; [apply N.eqb_eq in Ex; left; exact Ex|].
  destruct (index_of v l); [|discriminate]. right. eapply IH. reflexivity.
Qed.
Lemma index_of_nth v l i : index_of v l = Some i -> nth_error l i = Some v.
Proof.
  revert i. induction l as [|x l IH]; simpl; intros i E; [discriminate|].
  destruct (N.eqb x v) eqn:Ex.
  - apply N.eqb_eq in Ex. injection E as <-. simpl. congruence.
  - destruct (index_of v l) as [j|]; [|discriminate]. injection E as <-. simpl. apply IH. reflexivity.
Qed.
Lemma index_of_None v l : index_of v l = None -> ~ In v l.
Proof.
  induction l as [|x l IH]; simpl; intros E; [tauto|].
  destruct (N.eqb x v) eqn:Ex; [discriminate|]. apply N.eqb_neq in Ex.
  destruct (index_of v l); [discriminate|]. intros [H|H]; [congruence | exact (IH eq_refl H)].
Qed.
Lemma index_of_Some_In v l : In v l -> exists i, index_of v l = Some i.
Proof. intros H. destruct (index_of v l) eqn:E; [eauto|]. exfalso. exact (index_of_None _ _ E H). Qed.

Lemma find_prod_In ns v n i : find_prod ns v = Some (n, i) -> In n ns /\ index_of v (n_outs n) = Some i.
Proof.
  induction ns as [|x ns IH]; simpl; intros E; [discriminate|].
  destruct (index_of v (n_outs x)) as [j|] eqn:Ej.
  - injection E as <- <-. auto.
  - destruct (IH E). auto.
Qed.
Lemma find_prod_None ns v : find_prod ns v = None -> ~ In v (flat_map n_outs ns).
Proof.
  induction ns as [|x ns IH]; simpl; intros E; [tauto|].
  destruct (index_of v (n_outs x)) eqn:Ej; [discriminate|].
  rewrite in_app_iff. intros [H|H]; [exact (index_of_None _ _ Ej H) | exact (IH E H)].
Qed.
Lemma find_prod_notin ns v : ~ In v (flat_map n_outs ns) -> find_prod ns v = None.
Proof.
  intros H. destruct (find_prod ns v) as [[n i]|] eqn:E; [|reflexivity]. exfalso. apply H.
  destruct (find_prod_In _ _ _ _ E) as [Hin Hi]. apply in_flat_map. exists n. split; [exact Hin | eapply index_of_In; eauto].
Qed.

Lemma find_prod_map_filter ns (h : node -> node) (p : node -> bool) u :
  (forall n, n_outs (h n) = n_outs n) -> NoDup (flat_map n_outs ns) ->
  find_prod (map h (filter p ns)) u =
  match find_prod ns u with Some (n, i) => if p n then Some (h n, i) else None | None => None end.
Proof.
  intros Hh. induction ns as [|n ns IH]; simpl; intros Hnd; [reflexivity|].
  apply NoDup_app_remove_l in Hnd as Hnd'.
  destruct (index_of u (n_outs n)) as [i|] eqn:Ei.
  - destruct (p n) eqn:Ep; simpl.
    + rewrite Hh, Ei. reflexivity.
    + rewrite IH by exact Hnd'. rewrite find_prod_notin; [reflexivity|].
      intros Hin. apply index_of_In in Ei.
      clear - Hnd Ei Hin. induction (n_outs n) as [|a l IHl]; [contradiction|].
      simpl in Hnd. inversion Hnd; subst. destruct Ei as [->|Ei].
      * apply H1. apply in_app_iff. right. exact Hin.
      * apply IHl; assumption.
  - destruct (p n); simpl; [rewrite Hh, Ei|]; apply IH; exact Hnd'.
Qed.

(* ---------------------------------------------------------------- well-formedness *)
Record WF (m : model) : Prop := {
  wf_outs : NoDup (all_outs m);
  wf_formal : forall v, In v (all_formals m) -> ~ In v (all_outs m);
  wf_init_prod : forall v, In v (map fst (all_inits m)) -> ~ In v (all_outs m);
  wf_nonempty : forall n, In n (all_nodes m) -> n_outs n <> [];
  wf_inits_nodup : NoDup (map fst (all_inits m)) }.

Lemma forallb_In {A} (p : A -> bool) l x : forallb p l = true -> In x l -> p x = true.
Proof. rewrite forallb_forall. auto. Qed.

Lemma wfb_WF m : wfb m = true -> WF m.
Proof.
  unfold wfb. intros H.
  apply andb_prop in H. destruct H as [H Hne]. apply andb_prop in H. destruct H as [H _].
  apply andb_prop in H. destruct H as [H Hi]. apply andb_prop in H. destruct H as [H Hf].
  apply andb_prop in H. destruct H as [Ho Hnd].
  constructor.
  - apply nodupN_NoDup. assumption.
  - intros v Hin. apply memN_false. apply negb_true_iff. exact (forallb_In _ _ v Hf Hin).
  - intros v Hin. apply memN_false. apply negb_true_iff. exact (forallb_In _ _ v Hi Hin).
  - intros n Hin E. pose proof (forallb_In _ _ n Hne Hin) as Hn. simpl in Hn. rewrite E in Hn. discriminate.
  - apply nodupN_NoDup. assumption.
Qed.

Definition formal_of (m : model) (v : vid) : Prop := In v (all_formals m).

(* ---------------------------------------------------------------- lookups in rewritten tables *)
Lemma graphs_of_map_graphs F m : graphs_of (map_graphs F m) = map F (graphs_of m).
Proof. unfold graphs_of, map_graphs. simpl. rewrite map_app, !map_map. reflexivity. Qed.

Lemma alookup_map_snd {A B} (F : A -> B) (l : list (N * A)) k :
  alookup (map (fun p => (fst p, F (snd p))) l) k = option_map F (alookup l k).
Proof. induction l as [|[k' a] l IH]; simpl; [reflexivity|]. destruct (N.eqb k' k); [reflexivity | exact IH]. Qed.

Lemma find_func_map F fs op :
  find_func (map (fun f => mkFunc (f_id f) (F (f_body f)) (f_defaults f)) fs) op
  = option_map (fun f => mkFunc (f_id f) (F (f_body f)) (f_defaults f)) (find_func fs op).
Proof. unfold find_func. induction fs as [|f fs IH]; simpl; [reflexivity|]. destruct (opid_eqb (f_id f) op); [reflexivity | exact IH]. Qed.

Lemma alookup_In {A} (l : list (N * A)) k a : alookup l k = Some a -> In (k, a) l.
Proof.
  induction l as [|[k' a'] l IH]; simpl; intros E; [discriminate|].
  destruct (N.eqb k' k) eqn:Ek; [apply N.eqb_eq in Ek; injection E as <-; left; congruence | right; auto].
Qed.
Lemma find_func_In fs op f : find_func fs op = Some f -> In f fs.
Proof. unfold find_func. intros E. apply find_some in E. tauto. Qed.

Lemma formal_sub m g gr : alookup (m_subs m) g = Some gr -> Forall (formal_of m) (g_ins gr).
Proof.
  intros E. apply alookup_In in E. apply Forall_forall. intros v Hv. unfold formal_of, all_formals.
  apply in_flat_map. exists gr. split; [|exact Hv]. unfold graphs_of. right. apply in_app_iff. left.
  apply in_map_iff. exists (g, gr). auto.
Qed.
Lemma formal_func m op fn : find_func (m_funcs m) op = Some fn -> Forall (formal_of m) (g_ins (f_body fn)).
Proof.
  intros E. apply find_func_In in E. apply Forall_forall. intros v Hv. unfold formal_of, all_formals.
  apply in_flat_map. exists (f_body fn). split; [|exact Hv]. unfold graphs_of. right. apply in_app_iff. right.
  apply in_map_iff. exists fn. auto.
Qed.

(* ---------------------------------------------------------------- the generic rewriting step *)
(* m' is obtained from m by: substituting sg in every node input and every graph/function output,
   keeping the nodes selected by p (others removed), and replacing the initializer table. *)
Definition rw_graph (tr : node -> node) (sg : vid -> vid) (p : node -> bool) (inits : graph -> list (vid * tensor)) (g : graph) : graph :=
  mkGraph (g_ins g) (inits g) (map (fun n => tr (subst_ins sg n)) (filter p (g_nodes g))) (map sg (g_outs g)).
Definition mk2 (F1 F2 : graph -> graph) (m : model) : model :=
  mkModel (F1 (m_main m)) (map (fun q => (fst q, F2 (snd q))) (m_subs m))
          (map (fun f => mkFunc (f_id f) (F2 (f_body f)) (f_defaults f)) (m_funcs m)).
(* `inits true` rewrites the initializer table of the main graph, `inits false` those of the others *)
Definition rw (tr : node -> node) (sg : vid -> vid) (p : node -> bool) (inits : bool -> graph -> list (vid * tensor)) (m : model) : model :=
  mk2 (rw_graph tr sg p (inits true)) (rw_graph tr sg p (inits false)) m.
Lemma rw_map_graphs tr sg p i m : rw tr sg p (fun _ => i) m = map_graphs (rw_graph tr sg p i) m.
Proof. reflexivity. Qed.
Lemma flat_map_mk2 {X} (proj : graph -> list X) (q : graph -> list X) F1 F2 m :
  (forall g, proj (F1 g) = q g) -> (forall g, proj (F2 g) = q g) -> flat_map proj (graphs_of (mk2 F1 F2 m)) = flat_map q (graphs_of m).
Proof.
  intros H1 H2. unfold graphs_of, mk2. simpl. rewrite H1. f_equal.
  rewrite !flat_map_app. rewrite !map_map. f_equal; rewrite !flat_map_map; apply flat_map_ext'; intros; simpl; apply H2.
Qed.
Definition tr_ok (tr : node -> node) : Prop :=
  forall n, n_op (tr n) = n_op n /\ n_attrs (tr n) = n_attrs n /\ n_outs (tr n) = n_outs n
            /\ exists c k k', n_ins n = c ++ repeat None k /\ n_ins (tr n) = c ++ repeat None k'.
Lemma tr_ok_id : tr_ok (fun n => n).
Proof. intros n. repeat split. exists (n_ins n), O, O. simpl. rewrite app_nil_r. auto. Qed.

Lemma all_nodes_rw tr sg p inits m : all_nodes (rw tr sg p inits m) = map (fun n => tr (subst_ins sg n)) (filter p (all_nodes m)).
Proof.
  unfold all_nodes, rw. rewrite (flat_map_mk2 g_nodes (fun g => map (fun n => tr (subst_ins sg n)) (filter p (g_nodes g)))); try reflexivity.
  rewrite filter_flat_map, map_flat_map. reflexivity.
Qed.
Lemma all_formals_rw tr sg p inits m : all_formals (rw tr sg p inits m) = all_formals m.
Proof. unfold all_formals, rw. apply flat_map_mk2; reflexivity. Qed.
Lemma all_inits_rw_same tr sg p m : all_inits (rw tr sg p (fun _ => g_inits) m) = all_inits m.
Proof. unfold all_inits, rw. apply flat_map_mk2; reflexivity. Qed.
Lemma all_outs_rw_incl tr sg p inits m v : tr_ok tr -> In v (all_outs (rw tr sg p inits m)) -> In v (all_outs m).
Proof.
  intros Htr. unfold all_outs. rewrite all_nodes_rw, flat_map_map. rewrite !in_flat_map.
  intros [n [Hn Hv]]. apply filter_In in Hn. exists n. destruct (Htr (subst_ins sg n)) as [_ [_ [Ho _]]]. rewrite Ho in Hv. tauto.
Qed.
Lemma NoDup_flat_map_filter {A B} (f : A -> list B) p l : NoDup (flat_map f l) -> NoDup (flat_map f (filter p l)).
Proof.
  induction l as [|x l IH]; simpl; intros H; [constructor|].
  destruct (p x); simpl.
  - revert H. generalize (f x) as fx. intros fx. induction fx as [|a fx IHf]; simpl; intros H; [apply IH; exact H|].
    inversion H; subst. constructor.
    + rewrite in_app_iff in *. intros [Hi|Hi]; apply H2; [left; exact Hi|right].
      clear - Hi. induction l as [|y l IHl]; simpl in *; [contradiction|].
      destruct (p y); simpl in *; rewrite in_app_iff in *; tauto.
    + apply IHf. exact H3.
  - apply IH. eapply NoDup_app_remove_l. exact H.
Qed.

Lemma WF_rw tr sg p inits m : tr_ok tr ->
  WF m -> (forall v, In v (map fst (all_inits (rw tr sg p inits m))) -> ~ In v (all_outs m)) ->
  NoDup (map fst (all_inits (rw tr sg p inits m))) -> WF (rw tr sg p inits m).
Proof.
  intros Htr [H1 H2 H3 H4 H5] Hi Hnd. constructor.
  5:{ exact Hnd. }
  4:{ intros n Hn. rewrite all_nodes_rw in Hn. apply in_map_iff in Hn. destruct Hn as [n0 [<- Hn0]].
      apply filter_In in Hn0. destruct (Htr (subst_ins sg n0)) as [_ [_ [Ho _]]]. rewrite Ho. simpl. apply H4. tauto. }
  - unfold all_outs. rewrite all_nodes_rw, flat_map_map.
    rewrite (flat_map_ext' _ n_outs); [apply NoDup_flat_map_filter; exact H1|].
    intros n _. destruct (Htr (subst_ins sg n)) as [_ [_ [Ho _]]]. exact Ho.
  - intros v Hv Ho. rewrite all_formals_rw in Hv. apply all_outs_rw_incl in Ho; [|exact Htr]. exact (H2 v Hv Ho).
  - intros v Hv Ho. apply all_outs_rw_incl in Ho; [|exact Htr]. apply (Hi v); assumption.
Qed.

Section Step.
  Variable T : Type.
  Variable absent : T.
  Variable tensor_val : tensor -> T.
  Variable interp : opid -> list (str * attr) -> list (subfn T) -> list T -> nat -> option (list T).
  Hypothesis interp_mono : forall op attrs subs subs' ins k r,
      Forall2 (sub_le T) subs subs' -> interp op attrs subs ins k = Some r -> interp op attrs subs' ins k = Some r.
  Hypothesis interp_identity : forall op attrs subs x,
      is_identity_op op = true -> interp op attrs subs [x] 1%nat = Some [x].
  Hypothesis interp_trailing_absent : forall op attrs subs ins k,
      interp op attrs subs (ins ++ [absent]) k = interp op attrs subs ins k.

  Variables (tr : node -> node) (sg : vid -> vid) (p : node -> bool) (inits : bool -> graph -> list (vid * tensor)) (m : model).
  Variable L : vid -> Prop.
  Hypothesis HWF : WF m.
  Hypothesis Htr : tr_ok tr.
  Let m' := rw tr sg p inits m.
  Let s := sem_of m.
  Let s' := sem_of m'.

  (* obligations of a step, all stated on the ORIGINAL model *)
  Hypothesis H_fix_formal : forall v, formal_of m v -> sg v = v.
  Hypothesis H_closed : forall n w, In n (all_nodes m) -> (exists o, In o (n_outs n) /\ L o) -> In (Some w) (n_ins n) -> L w.
  Hypothesis H_outs_L : forall g, In g (graphs_of m) -> Forall L (g_outs g).
  (* initializers *)
  Hypothesis H_init : forall v t, L v -> alookup (all_inits m) v = Some t ->
                                  alookup (all_inits m') (sg v) = Some t /\ (sg v = v \/ ~ formal_of m (sg v)).
  (* values produced by a node *)
  Hypothesis H_node : forall v n i, L v -> alookup (all_inits m) v = None -> find_prod (all_nodes m) v = Some (n, i) ->
      (* kept, not renamed *)
      (p n = true /\ sg v = v /\ alookup (all_inits m') v = None)
      (* merged into another kept node with the same operator, attributes, inputs (after substitution) *)
      \/ (exists nk, find_prod (all_nodes m) (sg v) = Some (nk, i) /\ p nk = true /\ alookup (all_inits m') (sg v) = None
                     /\ n_op nk = n_op n /\ n_attrs nk = n_attrs n /\ length (n_outs nk) = length (n_outs n)
                     /\ map (option_map sg) (n_ins nk) = map (option_map sg) (n_ins n))
      (* an eliminated Identity *)
      \/ (i = O /\ is_identity_op (n_op n) = true /\ length (n_outs n) = 1%nat /\ find_func (m_funcs m) (n_op n) = None
          /\ exists x, n_ins n = [Some x] /\ sg v = sg x)
      (* a Constant turned into an initializer *)
      \/ (i = O /\ n_ins n = [] /\ length (n_outs n) = 1%nat /\ find_func (m_funcs m) (n_op n) = None
          /\ exists t, (forall aenv subs, interp (n_op n) (resolve aenv (n_attrs n)) subs [] 1%nat = Some [tensor_val t])
                       /\ alookup (all_inits m') (sg v) = Some t /\ ~ formal_of m (sg v)).
  Hypothesis H_undef : forall v, L v -> alookup (all_inits m) v = None -> find_prod (all_nodes m) v = None -> True.

  Lemma prod_rw u : find_prod (all_nodes m') u =
                    match find_prod (all_nodes m) u with Some (n, i) => if p n then Some (tr (subst_ins sg n), i) else None | None => None end.
  Proof.
    unfold m'. rewrite all_nodes_rw. apply (find_prod_map_filter _ (fun n => tr (subst_ins sg n))); [|apply (wf_outs m HWF)].
    intros n. destruct (Htr (subst_ins sg n)) as [_ [_ [Ho _]]]. exact Ho.
  Qed.
  Lemma tr_rel n0 n : n_op n0 = n_op n -> n_attrs n0 = n_attrs n -> length (n_outs n0) = length (n_outs n) ->
                      map (option_map sg) (n_ins n0) = map (option_map sg) (n_ins n) -> node_rel sg n (tr (subst_ins sg n0)).
  Proof.
    intros Hop Hat Hno Hins. destruct (Htr (subst_ins sg n0)) as [Ho [Ha [Hou [c [k [k' [Hc Hc']]]]]]].
    constructor; [rewrite Ho; exact Hop | rewrite Ha; exact Hat | rewrite Hou; exact Hno |].
    exists c, k, k'. simpl in Hc. rewrite <- Hins, Hc. auto.
  Qed.

  Lemma produced_not_formal v n i : find_prod (all_nodes m) v = Some (n, i) -> ~ formal_of m v.
  Proof.
    intros E Hf. apply (wf_formal m HWF v Hf). destruct (find_prod_In _ _ _ _ E) as [Hin Hi].
    unfold all_outs. apply in_flat_map. exists n. split; [exact Hin | eapply index_of_In; eauto].
  Qed.

  Theorem step_sim : Sim T tensor_val interp L (formal_of m) sg s s'.
  Proof.
    constructor.
    - exact H_fix_formal.
    - intros v HL. unfold s, s'. simpl.
      destruct (alookup (all_inits m) v) as [t|] eqn:Ei.
      + destruct (H_init v t HL Ei) as [Hi' Hd]. eapply VInit; simpl; eauto.
      + destruct (find_prod (all_nodes m) v) as [[n i]|] eqn:Ep; [|apply VNone; simpl; assumption].
        destruct (find_prod_In _ _ _ _ Ep) as [Hnin Hidx].
        assert (Hclosed : forall w, In (Some w) (n_ins n) -> L w).
        { intros w Hw. eapply H_closed; eauto. exists v. split; [eapply index_of_In; eauto | exact HL]. }
        destruct (H_node v n i HL Ei Ep) as [[Hp [Hsg Hi']] | [[nk [Epk [Hpk [Hi' [Hop [Hat [Hno Hins]]]]]]] | [[-> [Hid [Hlen [Hfn [x [Hins Hsg]]]]]] | [-> [Hins [Hlen [Hfn [t [Hc [Hi' Hnf]]]]]]]]]].
        * eapply VNode with (n := n) (i := i) (n' := tr (subst_ins sg n)); simpl; eauto.
          -- rewrite Hsg. exact Hi'.
          -- rewrite Hsg, prod_rw, Ep, Hp. reflexivity.
          -- apply tr_rel; reflexivity.
        * eapply VNode with (n := n) (i := i) (n' := tr (subst_ins sg nk)); simpl; eauto.
          -- rewrite prod_rw, Epk, Hpk. reflexivity.
          -- right. eapply produced_not_formal; eauto.
          -- apply tr_rel; assumption.
        * eapply VIdent with (n := n) (x := x); simpl; eauto.
          apply Hclosed. rewrite Hins. left. reflexivity.
        * eapply VConst with (n := n) (t := t); simpl; eauto.
    - intros g gr Eg. unfold s, s' in *. simpl in *. unfold m', rw, mk2. simpl.
      rewrite alookup_map_snd, Eg. simpl. eexists. split; [reflexivity|]. simpl. auto.
    - intros g gr Eg. unfold s in Eg. simpl in Eg. split; [eapply formal_sub; eauto|].
      apply H_outs_L. apply alookup_In in Eg. unfold graphs_of. right. apply in_app_iff. left. apply in_map_iff. exists (g, gr). auto.
    - intros op fn Ef. unfold s, s' in *. simpl in *. unfold m', rw, mk2. simpl.
      rewrite find_func_map, Ef. simpl. eexists. split; [reflexivity|]. simpl. auto.
    - intros op Ef. unfold s, s' in *. simpl in *. unfold m', rw, mk2. simpl. rewrite find_func_map, Ef. reflexivity.
    - intros op fn Ef. unfold s in Ef. simpl in Ef. split; [eapply formal_func; eauto|].
      apply H_outs_L. apply find_func_In in Ef. unfold graphs_of. right. apply in_app_iff. right. apply in_map_iff. exists fn. auto.
  Qed.

  (* consequence for the whole model: what m computes, m' computes *)
  Theorem step_computes env r :
    env_ok T (formal_of m) env -> computes absent tensor_val interp m env r -> computes absent tensor_val interp m' env r.
  Proof.
    intros He [f E]. exists f. unfold den_list in *. unfold m' at 2. unfold rw, mk2. simpl. rewrite map_opt_map.
    eapply map_opt_impl; [|exact E]. intros x y Hx Hy.
    eapply (sim_refines T absent tensor_val interp interp_mono interp_identity interp_trailing_absent L (formal_of m) sg s s' step_sim); eauto.
    assert (HF := H_outs_L (m_main m) (or_introl eq_refl)). rewrite Forall_forall in HF. auto.
  Qed.
End Step.

(* C05/Proofs12.v — composition: any sequence of the proved passes refines the model, keeps the non-initializer
   inputs and the number of outputs, and keeps the structural validity (WF, NoOpFunc).  Each pass's own side
   condition (fresh counters above all identities, locality of outputs, ...) is required at the point where it runs. *)
From Coq Require Import ZArith NArith List Bool Lia Permutation.
From IRV Require Import Base.Exn Gen.C05Gen C05.Model C05.Proofs C05.Proofs2 C05.Proofs3 C05.Proofs4 C05.Proofs5 C05.Proofs6
     C05.Proofs7 C05.Proofs8 C05.Proofs9 C05.Proofs10 C05.Proofs11 C05.Proofs13 C05.Proofs14 C05.Proofs16
     C05.Inline C05.InlineCert C05.InlinePass C05.Proofs17.
Import ListNotations.
Open Scope N_scope.

(* reordering keeps the structural validity *)
Lemma reorder_WF a b : WF a -> Reorder a b -> WF b.
Proof.
  intros [H1 H2 H3 H4 H5] HR.
  pose proof (reorder_all_nodes a b HR) as HP. pose proof (reorder_all_inits a b HR) as HI. pose proof (reorder_all_formals a b HR) as HFm.
  assert (HPo : Permutation (all_outs a) (all_outs b)) by (unfold all_outs; apply flat_map_perm; exact HP).
  constructor.
  - eapply Permutation_NoDup; eauto.
  - intros v Hv Ho. rewrite <- HFm in Hv. apply (H2 v Hv). eapply Permutation_in; [apply Permutation_sym; exact HPo | exact Ho].
  - intros v Hv Ho. rewrite <- HI in Hv. apply (H3 v Hv). eapply Permutation_in; [apply Permutation_sym; exact HPo | exact Ho].
  - intros n Hn. apply H4. eapply Permutation_in; [apply Permutation_sym; exact HP | exact Hn].
  - rewrite <- HI. exact H5.
Qed.
Lemma reorder_NoOpFunc a b : NoOpFunc a -> Reorder a b -> NoOpFunc b.
Proof. intros H HR op Hop. eapply reorder_func_none; eauto. Qed.
Lemma reorder_noninit a b : Reorder a b -> noninit_inputs b = noninit_inputs a /\ g_outs (m_main b) = g_outs (m_main a).
Proof. intros [[A [B [_ C]]] _ _]. unfold noninit_inputs. rewrite <- A, <- B. auto. Qed.

Section Seq.
  Variable T : Type.
  Variable absent : T.
  Variable tensor_val : tensor -> T.
  Variable interp : opid -> list (str * attr) -> list (subfn T) -> list T -> nat -> option (list T).
  Hypothesis interp_mono : forall op attrs subs subs' ins k r,
      Forall2 (sub_le T) subs subs' -> interp op attrs subs ins k = Some r -> interp op attrs subs' ins k = Some r.
  Hypothesis interp_identity : forall op attrs subs x,
      is_identity_op op = true -> interp op attrs subs [x] 1%nat = Some [x].
  Hypothesis interp_trailing_absent : forall op attrs subs ins k,
      interp op attrs subs (ins ++ [absent]) k = interp op attrs subs ins k.
  (* used by RemoveUnusedNodes (optional outputs) only *)
  Hypothesis interp_fewer_outputs : forall op attrs subs ins k k' outs, (0 < k')%nat -> (k' <= k)%nat ->
      interp op attrs subs ins k = Some outs ->
      exists outs', interp op attrs subs ins k' = Some outs' /\ forall j, (j < k')%nat -> nth_error outs' j = nth_error outs j.
  (* used by LiftConstantsToInitializers only: Constant returns its attribute (other = table of numpy conversions) *)
  Variable other : list (vid * tensor).
  Hypothesis interp_constant : forall lift_all size_limit op k name a t subs,
      is_constant_op op = true -> lift_tensor lift_all size_limit other k name a = Some t ->
      interp op [(name, a)] subs [] 1%nat = Some [tensor_val t].

  (* used by AddDefaultAttributes only: tbl = the schema defaults; an operator does not distinguish an absent optional
     attribute from its default *)
  Variable tbl : defaults_table.
  Hypothesis interp_defaults : forall op attrs aenv subs ins k,
      interp op (resolve aenv (add_attrs attrs (op_defaults tbl op))) subs ins k = interp op (resolve aenv attrs) subs ins k.

  (* used by InlinePass only: operators see the denotations of their bodies, not the identities of the graphs *)
  Hypothesis interp_graph_ids : forall op attrs attrs' subs ins k,
      Forall2 (fun x y => fst x = fst y /\ (snd x = snd y \/ (is_graph_attr (snd x) = true /\ is_graph_attr (snd y) = true
                                                              /\ length (attr_graphs [x]) = length (attr_graphs [y])))) attrs attrs' ->
      interp op attrs subs ins k = interp op attrs' subs ins k.

  Notation computes := (computes absent tensor_val interp).
  Notation Pres := (Pres T absent tensor_val interp).

  (* the interface of the property: inputs are the non-initializer inputs of the main graph *)
  Definition NIenv (m : model) (env : list (vid * T)) : Prop := env_ok T (fun v => In v (noninit_inputs m)) env.
  Record Refines (m m' : model) : Prop := {
    rf_comp : forall env r, NIenv m env -> computes m env r -> computes m' env r;
    rf_inputs : noninit_inputs m' = noninit_inputs m;
    rf_nouts : length (g_outs (m_main m')) = length (g_outs (m_main m)) }.

  Lemma NI_formal m v : In v (noninit_inputs m) -> formal_of m v.
  Proof.
    unfold noninit_inputs, formal_of, all_formals, graphs_of. intros H. apply filter_In in H. destruct H as [H _].
    simpl. apply in_app_iff. left. exact H.
  Qed.
  Lemma NIenv_formal m env : NIenv m env -> env_ok T (formal_of m) env.
  Proof. intros H v t Hv. apply NI_formal. eapply H; eauto. Qed.

  Lemma Refines_refl m : Refines m m.
  Proof. constructor; auto. Qed.
  Lemma Refines_trans a b c : Refines a b -> Refines b c -> Refines a c.
  Proof.
    intros [A1 A2 A3] [B1 B2 B3]. constructor; try congruence.
    intros env r He Hc. apply B1; [|apply A1; assumption]. unfold NIenv in *. rewrite A2. exact He.
  Qed.
  Lemma Pres_Refines m m' : Pres m m' -> noninit_inputs m' = noninit_inputs m -> Refines m m'.
  Proof.
    intros [a b c d e f] Hni. constructor; auto. intros env r He Hc. apply d; [apply NIenv_formal; exact He | exact Hc].
  Qed.

  Inductive pass : Type :=
  | PIdent (fuel : nat)
  | PDedup (keyeq : tensor -> tensor -> bool) (size_limit : Z) (order : list gref)
  | PDce (sc : schema) (unnamed : list vid) (opset_graphs : list gref) (fuel : nat)
  | PLift (fuel : nat) (lift_all : bool) (size_limit : Z) (fresh : N)
  | PCse (size_limit : Z) (fresh : N) (omitted : list vid)
  | POutFix (scopes : list (list gref)) (fresh : N)
  | PReorder (m' : model)                       (* TopologicalSortPass: any result with reorder_modelb m m' = true *)
  | PLiftSub (order : list gref)
  | PAddInit
  | PRmInit
  | PDefAttr (fuel : nat)
  | PRmFunc (fuel : nat)                        (* RemoveUnusedFunctionsPass *)
  | PInline (fuel : nat) (fv fg : N).           (* InlinePass; fv / fg = counters for fresh value / graph identities *)

  Definition apply_pass (m : model) (p : pass) : model :=
    match p with
    | PIdent fuel => identity_elim fuel m
    | PDedup ke sl order => dedup_inits ke sl order m
    | PDce sc u ops fuel => dce sc u ops fuel m
    | PLift fuel la sl fresh => fst (lift_constants fuel la sl other m fresh)
    | PCse sl fresh u => fst (cse u sl m fresh)
    | POutFix scopes fresh => fst (output_fix scopes m fresh)
    | PReorder m' => m'
    | PLiftSub order => lift_subgraph_inits order m
    | PAddInit => add_inits_to_inputs [GMain] m
    | PRmInit => remove_inits_from_inputs [GMain] m
    | PDefAttr fuel => add_default_attrs tbl fuel m
    | PRmFunc fuel => remove_unused_funcs_checked fuel m
    | PInline fuel fv fg => inline_pass_c fuel m fv fg
    end.

  (* what a pass needs beyond WF / NoOpFunc, at the point where it runs *)
  Definition extra (p : pass) (m : model) : Prop :=
    match p with
    | PIdent _ | PDedup _ _ _ | PAddInit | PRmInit | PRmFunc _ | PInline _ _ _ => True
    | PDce sc u _ _ => NoBNTraining m /\ NoFuncOp sc m /\ OL m /\ UnnamedDead u m /\ frame_ok m
    | PLift _ _ _ fresh => ConstOK m /\ FreshOK m fresh
    | PCse _ fresh _ => MainLocal m /\ FreshB m fresh
    | POutFix _ fresh => FreshAll m fresh
    | PReorder m' => reorder_modelb m m' = true
    | PLiftSub _ => NoDup (map fst (m_subs m))
    | PDefAttr _ => TblOK tbl m
    end.

  Definition Inv (m : model) : Prop := WF m /\ NoOpFunc m.

  Lemma pass_ok p m : Inv m -> extra p m -> Inv (apply_pass m p) /\ Refines m (apply_pass m p).
  Proof.
    intros [HW HN] Hx. destruct p; simpl in *.
    - pose proof (identity_elim_pres T absent tensor_val interp interp_mono interp_identity interp_trailing_absent fuel m HW HN) as P.
      split; [destruct P; split; assumption | apply Pres_Refines; [exact P | apply identity_elim_signature]].
    - pose proof (dedup_inits_pres T absent tensor_val interp interp_mono interp_identity interp_trailing_absent keyeq size_limit order m HW HN) as P.
      split; [destruct P; split; assumption | apply Pres_Refines; [exact P | apply dedup_inits_signature]].
    - destruct Hx as [H1 [H2 [H3 [H4 H5]]]].
      assert (P : Pres m (dce sc unnamed opset_graphs fuel m)).
      { apply (dce_schema_pres T absent tensor_val interp interp_mono interp_identity interp_trailing_absent sc); auto.
        intros op attrs subs ins k k' outs _ Hk Hle. apply interp_fewer_outputs; assumption. }
      split; [destruct P; split; assumption | apply Pres_Refines; [exact P | apply dce_signature]].
    - destruct Hx as [H1 H2].
      assert (P : Pres m (fst (lift_constants fuel lift_all size_limit other m fresh))).
      { apply (lift_constants_pres T absent tensor_val interp interp_mono interp_identity interp_trailing_absent lift_all size_limit other); auto.
        intros op k name a t subs. apply interp_constant. }
      split; [destruct P; split; assumption | apply Pres_Refines; [exact P | apply lift_constants_signature_FreshOK; exact H2]].
    - destruct Hx as [H1 H2].
      pose proof (cse_pres T absent tensor_val interp interp_mono interp_identity interp_trailing_absent omitted size_limit m fresh HW HN H1 H2) as P.
      split; [destruct P; split; assumption | apply Pres_Refines; [exact P | apply cse_signature]].
    - pose proof (output_fix_pres T absent tensor_val interp interp_mono interp_identity scopes m fresh HW HN Hx) as P.
      split; [destruct P; split; assumption | apply Pres_Refines; [exact P|]].
      destruct (output_fix_signature scopes m fresh HW HN Hx) as [_ [A _]]. exact A.
    - apply reorder_modelb_sound in Hx. split; [split; [eapply reorder_WF; eauto | eapply reorder_NoOpFunc; eauto]|].
      destruct (reorder_noninit m m' Hx) as [A B]. constructor; [|exact A | f_equal; exact B].
      intros env r He Hc. eapply (reorder_computes T absent tensor_val interp interp_mono interp_identity interp_trailing_absent m m' HW Hx); eauto.
      apply NIenv_formal. exact He.
    - split; [split; [apply lift_subgraph_inits_WF | apply lift_subgraph_inits_NoOpFunc]; assumption|].
      destruct (lift_subgraph_inits_signature order m Hx) as [_ A]. destruct (lift_subgraph_inits_main_io order m Hx) as [_ B].
      constructor; [|exact A | f_equal; exact B].
      intros env r He Hc. eapply (lift_subgraph_inits_computes T absent tensor_val interp interp_mono interp_identity interp_trailing_absent order m Hx HW); eauto.
      apply NIenv_formal. exact He.
    - split; [split; [apply add_inits_main_WF | apply add_inits_main_NoOpFunc]; assumption|].
      constructor; [|apply add_inits_main_noninit | f_equal; apply add_inits_main_outs].
      intros env r _ Hc. apply add_inits_main_computes_iff. exact Hc.
    - split; [split; [apply remove_inits_main_WF | apply remove_inits_main_NoOpFunc]; assumption|].
      constructor; [|apply remove_inits_main_noninit | f_equal; apply remove_inits_main_outs].
      intros env r _ Hc. apply remove_inits_main_computes_iff. exact Hc.
    - pose proof (add_default_attrs_pres T absent tensor_val interp interp_mono interp_identity interp_trailing_absent tbl interp_defaults fuel m HW HN Hx) as P.
      split; [destruct P; split; assumption | apply Pres_Refines; [exact P | reflexivity]].
    - split; [split; [apply rmfunc_checked_WF | apply rmfunc_checked_NoOpFunc]; assumption|].
      constructor; [| unfold noninit_inputs; rewrite rmfunc_checked_main; reflexivity | rewrite rmfunc_checked_main; reflexivity].
      intros env r He Hc.
      apply (rmfunc_checked_computes T absent tensor_val interp interp_mono interp_identity interp_trailing_absent fuel m HW); [|exact Hc].
      apply NIenv_formal. exact He.
    - destruct (inline_pass_c_good T absent tensor_val interp interp_mono interp_identity interp_trailing_absent interp_graph_ids
                                   fuel m fv fg HW HN) as [G1 G2 G3 G4 G5].
      split; [split; assumption|]. constructor; assumption.
  Qed.

  Fixpoint seq_ok (ps : list pass) (m : model) : Prop :=
    match ps with [] => True | p :: r => extra p m /\ seq_ok r (apply_pass m p) end.

  Theorem sequence_all : forall ps m, Inv m -> seq_ok ps m ->
    Inv (fold_left apply_pass ps m) /\ Refines m (fold_left apply_pass ps m).
  Proof.
    induction ps as [|p ps IH]; intros m HI Hok; simpl; [split; [exact HI | apply Refines_refl]|].
    destruct Hok as [Hx Hr]. destruct (pass_ok p m HI Hx) as [HI' R1]. destruct (IH _ HI' Hr) as [HI'' R2].
    split; [exact HI'' | eapply Refines_trans; eauto].
  Qed.
End Seq.

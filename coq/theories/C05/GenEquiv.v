(* The generated translation of unused_removal.py::_remove_trailing_empty_inputs
   (Gen/C05GenTrim.v) agrees with the hand-written model strip_trailing_none (C05/Model.v). *)
From Coq Require Import ZArith NArith List Bool Lia.
From IRV Require Import Base.Exn Gen.C05Gen Gen.C05GenTrim C05.Model.
Import ListNotations.
Local Open Scope nat_scope.

(* number of leading None entries (used on the reversed list: trailing None of the original) *)
Fixpoint leading_nones (r : list (option N)) : nat :=
  match r with
  | None :: r' => S (leading_nones r')
  | _ => 0
  end.

Definition trailing_nones (l : list (option N)) : nat := leading_nones (rev l).

Lemma trailing_nones_snoc_none p : trailing_nones (p ++ [None]) = S (trailing_nones p).
Proof. unfold trailing_nones. rewrite rev_app_distr. reflexivity. Qed.

Lemma trailing_nones_snoc_some p v : trailing_nones (p ++ [Some v]) = 0.
Proof. unfold trailing_nones. rewrite rev_app_distr. reflexivity. Qed.

(* ---- py_for_break unfolding ---- *)

Lemma fold_broken {S : Type} (body : nat -> S -> S * bool) idx (s : S) :
  fold_left (fun (st : S * bool) i => if snd st then st else body i (fst st)) idx (s, true) = (s, true).
Proof. induction idx as [|i idx IH]; simpl; auto. Qed.

Lemma py_for_break_cons {S : Type} i rest (body : nat -> S -> S * bool) (s : S) :
  py_for_break (i :: rest) body s =
  if snd (body i s) then fst (body i s) else py_for_break rest body (fst (body i s)).
Proof.
  unfold py_for_break. simpl.
  destruct (body i s) as [s' b]. simpl. destruct b.
  - rewrite fold_broken. reflexivity.
  - reflexivity.
Qed.

Lemma py_for_break_nil {S : Type} (body : nat -> S -> S * bool) (s : S) :
  py_for_break [] body s = s.
Proof. reflexivity. Qed.

(* ---- the loop value ---- *)

Lemma loop_value (l : list (option N)) : forall (tail : list (option N)) (c0 : Z),
  py_for_break (rev (seq 0 (length l)))
    (fun i c => if py_is_none (nth i (l ++ tail) None) then ((c - 1)%Z, false) else (c, true)) c0
  = (c0 - Z.of_nat (trailing_nones l))%Z.
Proof.
  induction l as [|x p IH] using rev_ind; intros tail c0.
  - simpl. rewrite py_for_break_nil. unfold trailing_nones. simpl. lia.
  - rewrite app_length. simpl length. rewrite Nat.add_1_r.
    rewrite seq_S, rev_app_distr. simpl rev. simpl app. simpl plus.
    rewrite py_for_break_cons.
    rewrite <- app_assoc. simpl app.
    rewrite nth_middle.
    destruct x as [v|]; simpl py_is_none; cbv iota; simpl snd; simpl fst; cbv iota.
    + rewrite trailing_nones_snoc_some. simpl. lia.
    + rewrite trailing_nones_snoc_none.
      rewrite (IH (None :: tail) (c0 - 1)%Z). lia.
Qed.

Lemma loop_value' (l : list (option N)) (c0 : Z) :
  py_for_break (rev (seq 0 (length l)))
    (fun i c => if py_is_none (nth i l None) then ((c - 1)%Z, false) else (c, true)) c0
  = (c0 - Z.of_nat (trailing_nones l))%Z.
Proof.
  pose proof (loop_value l [] c0) as H. rewrite app_nil_r in H. exact H.
Qed.

(* ---- the model ---- *)

Lemma strip_snoc_none p : strip_trailing_none (p ++ [None]) = strip_trailing_none p.
Proof.
  induction p as [|a p IH]; simpl.
  - reflexivity.
  - rewrite IH. reflexivity.
Qed.

Lemma strip_snoc_some p v : strip_trailing_none (p ++ [Some v]) = p ++ [Some v].
Proof.
  induction p as [|a p IH]; simpl.
  - reflexivity.
  - rewrite IH. destruct p; simpl; reflexivity.
Qed.

Lemma trailing_nones_le l : trailing_nones l <= length l.
Proof.
  induction l as [|x p IH] using rev_ind.
  - unfold trailing_nones. simpl. lia.
  - rewrite app_length. simpl. destruct x.
    + rewrite trailing_nones_snoc_some. lia.
    + rewrite trailing_nones_snoc_none. lia.
Qed.

Lemma strip_firstn l :
  strip_trailing_none l = firstn (length l - trailing_nones l) l.
Proof.
  induction l as [|x p IH] using rev_ind.
  - reflexivity.
  - pose proof (trailing_nones_le p) as Hle.
    rewrite app_length. simpl length. destruct x as [v|].
    + rewrite trailing_nones_snoc_some, strip_snoc_some.
      rewrite Nat.sub_0_r. symmetry. apply firstn_all2. rewrite app_length. simpl. lia.
    + rewrite trailing_nones_snoc_none, strip_snoc_none.
      replace (length p + 1 - S (trailing_nones p)) with (length p - trailing_nones p) by lia.
      rewrite firstn_app.
      replace (length p - trailing_nones p - length p) with 0 by lia.
      simpl. rewrite app_nil_r. exact IH.
Qed.

Lemma strip_length l :
  length (strip_trailing_none l) = length l - trailing_nones l.
Proof.
  rewrite strip_firstn. rewrite firstn_length. lia.
Qed.

(* ---- the equivalence ---- *)

Theorem gen_trim_equiv (l : list (option N)) :
    fst (gen_remove_trailing_empty_inputs l) = strip_trailing_none l
    /\ snd (gen_remove_trailing_empty_inputs l) = negb (Nat.eqb (length (strip_trailing_none l)) (length l)).
Proof.
  pose proof (trailing_nones_le l) as Hle.
  unfold gen_remove_trailing_empty_inputs.
  rewrite Nat2Z.id. rewrite loop_value'.
  rewrite strip_length.
  destruct (Z.eqb_spec (Z.of_nat (length l) - Z.of_nat (trailing_nones l))%Z (Z.of_nat (length l))) as [He|Hne].
  - assert (Hk : trailing_nones l = 0) by lia.
    simpl fst; simpl snd. rewrite strip_firstn, Hk, Nat.sub_0_r, firstn_all, Nat.eqb_refl.
    split; reflexivity.
  - assert (Hk : trailing_nones l <> 0) by lia.
    simpl fst; simpl snd. split.
    + unfold py_resize_inputs. rewrite <- Nat2Z.inj_sub by lia. rewrite Nat2Z.id.
      symmetry. apply strip_firstn.
    + symmetry. apply negb_true_iff. apply Nat.eqb_neq. unfold vid in *. lia.
Qed.

Example gen_trim_ex1 :
  gen_remove_trailing_empty_inputs [Some 1%N; None; Some 2%N; None; None]
  = ([Some 1%N; None; Some 2%N], true).
Proof. vm_compute. reflexivity. Qed.

Example gen_trim_ex2 :
  gen_remove_trailing_empty_inputs [Some 1%N] = ([Some 1%N], false).
Proof. vm_compute. reflexivity. Qed.

Print Assumptions gen_trim_equiv.

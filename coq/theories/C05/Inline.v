(* C05/Inline.v — executable model of InlinePass (definitions only; separate from Model.v).

   _instantiate_call + Cloner: the body of the called function is copied with fresh value identities, the function's
   inputs replaced by the call's inputs (None when omitted), reference attributes replaced through the call's attributes
   and the function's defaults, nested subgraphs copied (fresh graph ids, fresh formal/initializer values); the call's
   outputs are replaced everywhere (graph outputs included) by the copies of the function's outputs (an Identity of the
   argument when the function returns one of its inputs, d768234); the copies take the place of the call node. *)
From Coq Require Import ZArith NArith List Bool Lia.
From IRV Require Import Base.Exn Gen.C05Gen C05.Model.
Import ListNotations.
Open Scope N_scope.

Definition vmap := list (vid * option vid).
Record cst := mkCst { c_fv : N; c_fg : N; c_vm : vmap; c_subs : list (gid * graph); c_gm : list (gid * gid) }.

(* an input of a copied node: through the value map (a value outside the map would make the code raise; kept as is) *)
Definition map_in (vm : vmap) (o : option vid) : option vid :=
  match o with
  | None => None
  | Some w => match alookup vm w with Some r => r | None => Some w end
  end.

(* attributes = {**node.attributes, **defaults not named by the call} *)
Definition call_attr_map (A D : list (str * attr)) : list (str * attr) :=
  A ++ filter (fun d => negb (has_attr (fst d) A)) D.

Definition fresh_values (vs : list vid) (st : cst) : list vid * cst :=
  fold_left (fun (acc : list vid * cst) v =>
               let '(l, st) := acc in
               (l ++ [c_fv st], mkCst (c_fv st + 1) (c_fg st) ((v, Some (c_fv st)) :: c_vm st) (c_subs st) (c_gm st)))
            vs ([], st).

Fixpoint clone_node (fuel : nat) (m : model) (AM : list (str * attr)) (n : node) (st : cst) {struct fuel} : node * cst :=
  match fuel with
  | O => (n, st)
  | S f =>
    let ins' := map (map_in (c_vm st)) (n_ins n) in
    let clone_g (g : gid) (st : cst) : gid * cst :=
        match alookup (m_subs m) g with
        | None => (g, st)
        | Some gr =>
          let '(ins2, st1) := fresh_values (g_ins gr) st in
          let '(ik, st2) := fresh_values (map fst (g_inits gr)) st1 in
          let '(ns2, st3) :=
              (fix go (ns : list node) (st : cst) : list node * cst :=
                 match ns with
                 | [] => ([], st)
                 | x :: r => let '(x', sa) := clone_node f m AM x st in
                             let '(r', sb) := go r sa in (x' :: r', sb)
                 end) (g_nodes gr) st2 in
          let outs2 := flat_map (fun o => match map_in (c_vm st3) (Some o) with Some w => [w] | None => [] end) (g_outs gr) in
          let g' := c_fg st3 in
          (g', mkCst (c_fv st3) (g' + 1) (c_vm st3)
                     (c_subs st3 ++ [(g', mkGraph ins2 (combine ik (map snd (g_inits gr))) ns2 outs2)])
                     ((g, g') :: c_gm st3))
        end in
    let '(attrs', st1) :=
        fold_left (fun (acc : list (str * attr) * cst) (ka : str * attr) =>
                     let '(l, st) := acc in
                     match snd ka with
                     | ARef _ r =>
                       match slookup AM r with
                       | Some (AData t p) => (l ++ [(fst ka, AData t p)], st)
                       | Some (ARef t r2) => (l ++ [(fst ka, ARef t r2)], st)
                       | _ => (l, st)
                       end
                     | AGraph g => let '(g', st') := clone_g g st in (l ++ [(fst ka, AGraph g')], st')
                     | AGraphs gs =>
                       let '(gs', st') := fold_left (fun (a : list gid * cst) g => let '(l2, s2) := a in
                                                       let '(g', s3) := clone_g g s2 in (l2 ++ [g'], s3)) gs ([], st) in
                       (l ++ [(fst ka, AGraphs gs')], st')
                     | AData _ _ => (l ++ [ka], st)
                     end) (n_attrs n) ([], st) in
    let '(outs', st2) := fresh_values (n_outs n) st1 in
    (mkNode (n_op n) attrs' ins' outs', st2)
  end.

Fixpoint clone_nodes (fuel : nat) (m : model) (AM : list (str * attr)) (ns : list node) (st : cst) : list node * cst :=
  match ns with
  | [] => ([], st)
  | x :: r => let '(x', sa) := clone_node fuel m AM x st in
              let '(r', sb) := clone_nodes fuel m AM r sa in (x' :: r', sb)
  end.

Fixpoint bind_formals (xs : list vid) (args : list (option vid)) : vmap :=
  match xs with
  | [] => []
  | x :: r => match args with [] => (x, None) :: bind_formals r [] | a :: ar => (x, a) :: bind_formals r ar end
  end.

(* the values that replace the call's outputs; Identity nodes for pass-through outputs *)
Fixpoint call_results (xs : list vid) (vm : vmap) (outs : list vid) (fv : N) : list (option vid) * list node * N :=
  match outs with
  | [] => ([], [], fv)
  | o :: r =>
    match alookup vm o with
    | Some (Some w) =>
      if memN o xs then
        let '(rs, ids, fv') := call_results xs vm r (fv + 1) in
        (Some fv :: rs, mkNode OP_Identity [] [Some w] [fv] :: ids, fv')
      else let '(rs, ids, fv') := call_results xs vm r fv in (Some w :: rs, ids, fv')
    | _ => let '(rs, ids, fv') := call_results xs vm r fv in (None :: rs, ids, fv')
    end
  end.

(* the call node with key k is inlined.  Returns None when k is not a call / the code would raise.
   The raw step also returns what a certificate checker needs: the call node, the function, the final value map, the
   graph map, and the (call output, replacement) pairs. *)
Record inl_step := mkStep { is_m : model; is_fv : N; is_fg : N; is_call : node; is_fn : func; is_vm : vmap;
                            is_gm : list (gid * gid); is_pairs : list (vid * vid) }.
Definition inline_at_raw (fuel : nat) (m : model) (k : vid) (fv fg : N) : option inl_step :=
  match get_node m k with
  | None => None
  | Some c =>
    match find_func (m_funcs m) (n_op c) with
    | None => None
    | Some fn =>
      let body := f_body fn in
      let AM := call_attr_map (n_attrs c) (f_defaults fn) in
      if Nat.ltb (length (g_ins body)) (length (n_ins c)) || negb (no_graph_attrs AM) then None else
      let st0 := mkCst fv fg (bind_formals (g_ins body) (n_ins c)) [] [] in
      let '(nodes', st1) := clone_nodes fuel m AM (g_nodes body) st0 in
      let '(results, ids, fv') := call_results (g_ins body) (c_vm st1) (g_outs body) (c_fv st1) in
      let pairs := flat_map (fun yr => match snd yr with Some r => [(fst yr, r)] | None => [] end) (combine (n_outs c) results) in
      let m1 := fold_left (fun m yr => replace_uses true (fst yr) (snd yr) m) pairs m in
      let m2 := map_graphs (fun g => set_nodes g (flat_map (fun n => if has_key k n then nodes' ++ ids else [n]) (g_nodes g))) m1 in
      Some (mkStep (mkModel (m_main m2) (m_subs m2 ++ c_subs st1) (m_funcs m2)) fv' (c_fg st1) c fn (c_vm st1) (c_gm st1) pairs)
    end
  end.
Definition inline_at (fuel : nat) (m : model) (k : vid) (fv fg : N) : option (model * N * N) :=
  match inline_at_raw fuel m k fv fg with Some st => Some (is_m st, is_fv st, is_fg st) | None => None end.

(* _inline_calls_in: nodes are visited in order, copies inserted in place of a call are visited next; subgraphs of the
   other nodes are processed recursively.  `pos` = position in the node list of graph r. *)
Definition is_call_node (m : model) (n : node) : bool := match find_func (m_funcs m) (n_op n) with Some _ => true | None => false end.

Fixpoint inline_graph (fuel : nat) (r : gref) (st : model * N * N * list opid) {struct fuel} : model * N * N * list opid :=
  match fuel with
  | O => st
  | S f =>
    (fix loop (steps : nat) (pos : nat) (st : model * N * N * list opid) {struct steps} : model * N * N * list opid :=
       match steps with
       | O => st
       | S steps' =>
         let '(m, fv, fg, inld) := st in
         match get_gref m r with
         | None => st
         | Some g =>
           match nth_error (g_nodes g) pos with
           | None => st
           | Some n =>
             if is_call_node m n then
               match inline_at f m (node_key n) fv fg with
               | Some (m', fv', fg') => loop steps' pos (m', fv', fg', n_op n :: inld)
               | None => loop steps' (S pos) st
               end
             else
               let st' := fold_left (fun st sg => inline_graph f (GSub sg) st) (attr_graphs (n_attrs n)) st in
               loop steps' (S pos) st'
           end
         end
       end) (fuel * 16)%nat O st
  end.

Definition inline_pass (fuel : nat) (m : model) (fv fg : N) : model * N * N :=
  let '(m1, fv1, fg1, inlA) := inline_graph fuel GMain (m, fv, fg, []) in
  (* functions that were not inlined: calls inside their bodies are inlined too *)
  let '(m2, fv2, fg2, inlB) :=
      fold_left (fun st i =>
                   let '(mm, _, _, inld) := st in
                   match nth_error (m_funcs mm) i with
                   | Some fn => if existsb (opid_eqb (f_id fn)) inlA then st else inline_graph fuel (GFunc i) st
                   | None => st
                   end) (seq 0 (length (m_funcs m1))) (m1, fv1, fg1, inlA) in
  (mkModel (m_main m2) (m_subs m2) (filter (fun fn => negb (existsb (opid_eqb (f_id fn)) inlB)) (m_funcs m2)), fv2, fg2).

(* ---------------------------------------------------------------- structural comparison that follows graph references
   (graph ids and fresh value ids are compared up to renaming: values renumbered by first occurrence in a traversal of
   the reachable structure, graphs compared through the references) *)
Fixpoint reach_vids (fuel : nat) (m : model) (g : graph) : list vid :=
  match fuel with
  | O => []
  | S f =>
    g_ins g ++ map fst (g_inits g)
    ++ flat_map (fun n => flat_map (fun o => match o with Some v => [v] | None => [] end) (n_ins n) ++ n_outs n
                          ++ flat_map (fun sg => match alookup (m_subs m) sg with Some gr => reach_vids f m gr | None => [] end)
                                      (attr_graphs (n_attrs n))) (g_nodes g)
    ++ g_outs g
  end.
Definition fresh_order_deep (fuel : nat) (base : N) (m : model) : list vid :=
  dedup_keep (filter (fun v => N.leb base v)
                     (reach_vids fuel m (m_main m) ++ flat_map (fun fn => reach_vids fuel m (f_body fn)) (m_funcs m))) [].

Fixpoint graph_deep_eqb (fuel : nat) (fa fb : vid -> vid) (ma mb : model) (a b : graph) : bool :=
  match fuel with
  | O => false
  | S f =>
    let attr_deep (x y : str * attr) : bool :=
        str_eqb (fst x) (fst y) &&
        match snd x, snd y with
        | AGraph g, AGraph g' =>
          match alookup (m_subs ma) g, alookup (m_subs mb) g' with
          | Some ga, Some gb => graph_deep_eqb f fa fb ma mb ga gb
          | None, None => true
          | _, _ => false
          end
        | AGraphs gs, AGraphs gs' =>
          list_eqb (fun g g' => match alookup (m_subs ma) g, alookup (m_subs mb) g' with
                                | Some ga, Some gb => graph_deep_eqb f fa fb ma mb ga gb
                                | None, None => true
                                | _, _ => false end) gs gs'
        | u, v => attr_eqb u v
        end in
    list_eqb N.eqb (map fa (g_ins a)) (map fb (g_ins b))
    && list_eqb (fun p q => N.eqb (fa (fst p)) (fb (fst q)) && tensor_eqb (snd p) (snd q)) (g_inits a) (g_inits b)
    && list_eqb (fun x y => opid_eqb (n_op x) (n_op y) && list_eqb attr_deep (n_attrs x) (n_attrs y)
                            && list_eqb (option_eqb N.eqb) (map (option_map fa) (n_ins x)) (map (option_map fb) (n_ins y))
                            && list_eqb N.eqb (map fa (n_outs x)) (map fb (n_outs y))) (g_nodes a) (g_nodes b)
    && list_eqb N.eqb (map fa (g_outs a)) (map fb (g_outs b))
  end.

Definition model_agree_deep (fuel : nat) (base : N) (a b : model) : bool :=
  let fa := renum base (fresh_order_deep fuel base a) in
  let fb := renum base (fresh_order_deep fuel base b) in
  graph_deep_eqb fuel fa fb a b (m_main a) (m_main b)
  && list_eqb (fun f g => opid_eqb (f_id f) (f_id g) && list_eqb nattr_eqb (f_defaults f) (f_defaults g)
                          && graph_deep_eqb fuel fa fb a b (f_body f) (f_body g)) (m_funcs a) (m_funcs b).

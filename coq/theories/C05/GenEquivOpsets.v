(* C05/GenEquivOpsets.v — the per-run translation of RemoveUnusedOpsetsPass._process_graph_like (Gen/C05GenOpsets.v) computes
   the pruning the hand model Opsets.remove_unused_opsets uses, so the model of the pass is the translated code applied to the
   model-level table (used = {""} + function domains) and to every function's table (used = {""}). *)
From Coq Require Import ZArith NArith List Bool Lia.
From IRV Require Import Base.Exn Gen.C05Gen Gen.C05GenOpsets C05.Model C05.Proofs2 C05.Proofs4 C05.Opsets.
Import ListNotations.

Definition smem (x : str) (s : list str) : bool := existsb (py_str_eqb x) s.

Lemma py_str_eqb_eq a b : py_str_eqb a b = true -> a = b.
Proof. exact (str_eqb_eq a b). Qed.
Lemma py_str_eqb_refl a : py_str_eqb a a = true.
Proof. exact (str_eqb_refl' a). Qed.

Lemma smem_set_add x s d : smem x (py_set_add s d) = smem x s || py_str_eqb x d.
Proof.
  unfold py_set_add, smem. destruct (existsb (py_str_eqb d) s) eqn:E.
  - destruct (py_str_eqb x d) eqn:Ex; [|rewrite orb_false_r; reflexivity].
    apply py_str_eqb_eq in Ex. subst x. rewrite E. reflexivity.
  - rewrite existsb_app. simpl. rewrite orb_false_r. reflexivity.
Qed.

Lemma smem_fold_add x doms : forall s, smem x (fold_left (fun s d => py_set_add s d) doms s) = smem x s || smem x doms.
Proof.
  induction doms as [|d doms IH]; intros s; simpl; [rewrite orb_false_r; reflexivity|].
  rewrite IH, smem_set_add. unfold smem at 3. simpl. rewrite orb_assoc. reflexivity.
Qed.

Lemma filter_filter {A} (f g : A -> bool) l : filter f (filter g l) = filter (fun x => g x && f x) l.
Proof. induction l as [|x l IH]; simpl; [reflexivity|]. destruct (g x); simpl; [destruct (f x); rewrite IH; reflexivity | exact IH]. Qed.

Lemma fold_del {V} (U : list str) : forall (d : list (str * V)),
  fold_left (fun d k => py_dict_del d k) U d = filter (fun kv => negb (existsb (fun u => py_str_eqb (fst kv) u) U)) d.
Proof.
  induction U as [|u U IH]; intros d; simpl.
  - induction d as [|x d IHd]; simpl; [reflexivity | rewrite <- IHd; reflexivity].
  - rewrite IH. unfold py_dict_del. rewrite filter_filter. apply filter_ext. intros kv. rewrite negb_orb. reflexivity.
Qed.

Theorem gen_process_graph_like_prunes doms (imp : imports) used :
  fst (gen_process_graph_like doms imp used) = prune (used ++ doms) imp.
Proof.
  unfold gen_process_graph_like. cbn [fst]. rewrite fold_del. unfold prune. apply filter_ext_in. intros [k v] Hin. cbn [fst].
  set (S' := fold_left (fun s d => py_set_add s d) doms used).
  assert (HS : forall x, smem x S' = dom_used (used ++ doms) x).
  { intros x. unfold S'. rewrite smem_fold_add. unfold dom_used, smem. rewrite existsb_app. reflexivity. }
  rewrite <- HS. unfold py_keys_minus.
  destruct (smem k S') eqn:Ek.
  - apply negb_true_iff. apply not_true_is_false. intros H. apply existsb_exists in H. destruct H as [u [Hu Hk]].
    apply filter_In in Hu. destruct Hu as [_ Hu]. apply py_str_eqb_eq in Hk. subst u. unfold smem in Ek. rewrite Ek in Hu. discriminate.
  - apply negb_false_iff. apply existsb_exists. exists k. split; [|apply py_str_eqb_refl].
    apply filter_In. split; [apply in_map_iff; exists (k, v); auto|]. unfold smem in Ek. rewrite Ek. reflexivity.
Qed.

(* the whole pass (call()): the translated function on the model table with used = {""} + the function domains, and on each
   function's table with used = {""} *)
Theorem remove_unused_opsets_is_translation fuel pf om :
  o_imports (remove_unused_opsets fuel pf om)
  = fst (gen_process_graph_like (map op_domain (rec_ops fuel (o_model om) GMain)) (o_imports om)
                                ([] :: map (fun fn => op_domain (f_id fn)) (m_funcs (o_model om))))
  /\ (pf = true -> forall i, nth i (o_fimports (remove_unused_opsets fuel pf om)) []
                             = fst (gen_process_graph_like (map op_domain (rec_ops fuel (o_model om) (GFunc i))) (nth i (o_fimports om) []) [[]])).
Proof.
  split.
  - rewrite gen_process_graph_like_prunes. reflexivity.
  - intros -> i. cbn [remove_unused_opsets o_fimports]. rewrite nth_prune_funcs, gen_process_graph_like_prunes. reflexivity.
Qed.

Example gen_process_ex :
  gen_process_graph_like [[97%N]] [([], 18%Z); ([97%N], 3%Z); ([98%N], 1%Z)] [[]] = ([([], 18%Z); ([97%N], 3%Z)], true).
Proof. vm_compute. reflexivity. Qed.
Print Assumptions remove_unused_opsets_is_translation.

(* C05/Proofs4.v — reordering (TopologicalSortPass and any other permutation of node lists) preserves
   what the model computes; soundness of the boolean relation the harness evaluates on the
   implementation's output. *)
From Coq Require Import ZArith NArith List Bool Lia Permutation.
From IRV Require Import Base.Exn Gen.C05Gen C05.Model C05.Proofs C05.Proofs2 C05.Proofs3.
Import ListNotations.
Open Scope N_scope.

(* ---------------------------------------------------------------- boolean equalities are equalities *)
Lemma Nlist_eqb_eq a b : list_eqb N.eqb a b = true -> a = b.
Proof. apply list_eqb_eq. intros; apply N.eqb_eq. Qed.
Lemma str_eqb_eq a b : str_eqb a b = true -> a = b.
Proof. apply Nlist_eqb_eq. Qed.
Lemma opid_eqb_eq a b : opid_eqb a b = true -> a = b.
Proof.
  destruct a as [[d n] o], b as [[d' n'] o']. simpl. intros H.
  apply andb_prop in H. destruct H as [H H3]. apply andb_prop in H. destruct H as [H1 H2].
  apply str_eqb_eq in H1, H2, H3. congruence.
Qed.
Lemma attr_eqb_eq a b : attr_eqb a b = true -> a = b.
Proof.
  destruct a, b; simpl; intros H; try discriminate.
  - apply andb_prop in H. destruct H as [H1 H2]. apply N.eqb_eq in H1. apply Zlist_eqb_eq in H2. congruence.
  - apply N.eqb_eq in H. congruence.
  - apply Nlist_eqb_eq in H. congruence.
  - apply andb_prop in H. destruct H as [H1 H2]. apply N.eqb_eq in H1. apply str_eqb_eq in H2. congruence.
Qed.
Lemma nattr_eqb_eq a b : nattr_eqb a b = true -> a = b.
Proof.
  destruct a, b. unfold nattr_eqb. simpl. intros H. apply andb_prop in H. destruct H as [H1 H2].
  apply str_eqb_eq in H1. apply attr_eqb_eq in H2. congruence.
Qed.
Lemma list_eqb_sound {A} (eqb : A -> A -> bool) : (forall x y, eqb x y = true -> x = y) -> forall a b, list_eqb eqb a b = true -> a = b.
Proof.
  intros H a. induction a as [|x a IH]; intros [|y b] E; simpl in E; try discriminate; [reflexivity|].
  apply andb_prop in E. destruct E as [E1 E2]. f_equal; auto.
Qed.
Lemma option_N_eqb_eq (a b : option N) : option_eqb N.eqb a b = true -> a = b.
Proof. destruct a, b; simpl; intros H; try discriminate; [apply N.eqb_eq in H; congruence | reflexivity]. Qed.
Lemma node_eqb_eq a b : node_eqb a b = true -> a = b.
Proof.
  destruct a, b. unfold node_eqb. simpl. intros H.
  apply andb_prop in H. destruct H as [H H4]. apply andb_prop in H. destruct H as [H H3]. apply andb_prop in H. destruct H as [H1 H2].
  apply opid_eqb_eq in H1. apply (list_eqb_sound _ nattr_eqb_eq) in H2. apply (list_eqb_sound _ option_N_eqb_eq) in H3.
  apply Nlist_eqb_eq in H4. congruence.
Qed.
Lemma init_eqb_eq a b : init_eqb a b = true -> a = b.
Proof.
  destruct a, b. unfold init_eqb. simpl. intros H. apply andb_prop in H. destruct H as [H1 H2].
  apply N.eqb_eq in H1. apply tensor_eqb_eq in H2. congruence.
Qed.

Lemma remove_first_perm n l l' : remove_first n l = Some l' -> Permutation l (n :: l').
Proof.
  revert l'. induction l as [|x l IH]; simpl; intros l' E; [discriminate|].
  destruct (node_eqb x n) eqn:Ex.
  - apply node_eqb_eq in Ex. injection E as <-. subst. apply Permutation_refl.
  - destruct (remove_first n l) as [r|]; [|discriminate]. injection E as <-.
    eapply Permutation_trans; [apply perm_skip; apply IH; reflexivity|]. apply perm_swap.
Qed.
Lemma perm_nodesb_sound a b : perm_nodesb a b = true -> Permutation a b.
Proof.
  revert b. induction a as [|x a IH]; intros b E; simpl in E.
  - destruct b; [constructor | discriminate].
  - destruct (remove_first x b) as [b'|] eqn:Er; [|discriminate].
    apply Permutation_sym. eapply Permutation_trans; [apply remove_first_perm; exact Er|]. apply perm_skip. apply Permutation_sym. auto.
Qed.

(* ---------------------------------------------------------------- the relation *)
Definition reorder_graph (a b : graph) : Prop :=
  g_ins a = g_ins b /\ g_inits a = g_inits b /\ Permutation (g_nodes a) (g_nodes b) /\ g_outs a = g_outs b.
Record Reorder (a b : model) : Prop := {
  ro_main : reorder_graph (m_main a) (m_main b);
  ro_subs : Forall2 (fun p q => fst p = fst q /\ reorder_graph (snd p) (snd q)) (m_subs a) (m_subs b);
  ro_funcs : Forall2 (fun f g => f_id f = f_id g /\ f_defaults f = f_defaults g /\ reorder_graph (f_body f) (f_body g)) (m_funcs a) (m_funcs b) }.

Lemma list_eqb_Forall2 {A} (eqb : A -> A -> bool) (R : A -> A -> Prop) : (forall x y, eqb x y = true -> R x y) ->
  forall a b, list_eqb eqb a b = true -> Forall2 R a b.
Proof.
  intros H a. induction a as [|x a IH]; intros [|y b] E; simpl in E; try discriminate; [constructor|].
  apply andb_prop in E. destruct E. constructor; auto.
Qed.
Lemma reorder_graphb_sound a b : reorder_graphb a b = true -> reorder_graph a b.
Proof.
  unfold reorder_graphb. intros H. apply andb_prop in H. destruct H as [H H4]. apply andb_prop in H. destruct H as [H H3].
  apply andb_prop in H. destruct H as [H1 H2]. repeat split.
  - apply Nlist_eqb_eq; assumption. - apply (list_eqb_sound _ init_eqb_eq); assumption.
  - apply perm_nodesb_sound; assumption. - apply Nlist_eqb_eq; assumption.
Qed.
Theorem reorder_modelb_sound a b : reorder_modelb a b = true -> Reorder a b.
Proof.
  unfold reorder_modelb. intros H. apply andb_prop in H. destruct H as [H H3]. apply andb_prop in H. destruct H as [H1 H2].
  constructor.
  - apply reorder_graphb_sound; assumption.
  - eapply list_eqb_Forall2; [|exact H2]. intros [k g] [k' g'] E. simpl in E. apply andb_prop in E. destruct E as [E1 E2].
    simpl. split; [apply N.eqb_eq; assumption | apply reorder_graphb_sound; assumption].
  - eapply list_eqb_Forall2; [|exact H3]. intros f g E. apply andb_prop in E. destruct E as [E E3]. apply andb_prop in E. destruct E as [E1 E2].
    split; [apply opid_eqb_eq; assumption|]. split; [apply (list_eqb_sound _ nattr_eqb_eq); assumption | apply reorder_graphb_sound; assumption].
Qed.

(* ---------------------------------------------------------------- lookups are order-independent *)
Lemma find_prod_perm ns ns' v : Permutation ns ns' -> NoDup (flat_map n_outs ns) -> find_prod ns' v = find_prod ns v.
Proof.
  intros HP. induction HP as [|x l l' HP IH|x y l|l l' l'' HP1 IH1 HP2 IH2]; intros Hnd.
  - reflexivity.
  - simpl. destruct (index_of v (n_outs x)); [reflexivity|]. apply IH. simpl in Hnd. eapply NoDup_app_remove_l; eauto.
  - simpl. destruct (index_of v (n_outs x)) as [i|] eqn:Ex, (index_of v (n_outs y)) as [j|] eqn:Ey; try reflexivity.
    exfalso. simpl in Hnd. apply index_of_In in Ex. apply index_of_In in Ey.
    clear - Hnd Ex Ey. induction (n_outs y) as [|a r IHr]; [contradiction|]. simpl in Hnd. inversion Hnd; subst.
    destruct Ey as [->|Ey]; [apply H1; apply in_app_iff; right; apply in_app_iff; left; exact Ex | apply IHr; assumption].
  - rewrite IH2, IH1; auto.
    assert (Permutation (flat_map n_outs l) (flat_map n_outs l')).
    { clear - HP1. induction HP1; simpl; auto using Permutation_app_head, perm_skip.
      - rewrite !app_assoc. apply Permutation_app_tail. apply Permutation_app_comm.
      - eapply Permutation_trans; eauto. }
    eapply Permutation_NoDup; eauto.
Qed.

Lemma flat_map_perm {A B} (f : A -> list B) l l' : Permutation l l' -> Permutation (flat_map f l) (flat_map f l').
Proof.
  induction 1; simpl; auto using Permutation_app_head.
  - rewrite !app_assoc. apply Permutation_app_tail. apply Permutation_app_comm.
  - eapply Permutation_trans; eauto.
Qed.

Lemma Forall2_flat_map_perm {A B C} (R : A -> B -> Prop) (f : A -> list C) (g : B -> list C) l l' :
  (forall x y, R x y -> Permutation (f x) (g y)) -> Forall2 R l l' -> Permutation (flat_map f l) (flat_map g l').
Proof. intros H. induction 1; simpl; [constructor|]. apply Permutation_app; auto. Qed.
Lemma Forall2_flat_map_eq {A B C} (R : A -> B -> Prop) (f : A -> list C) (g : B -> list C) l l' :
  (forall x y, R x y -> f x = g y) -> Forall2 R l l' -> flat_map f l = flat_map g l'.
Proof. intros H. induction 1; simpl; [reflexivity|]. f_equal; auto. Qed.

Lemma reorder_all_nodes a b : Reorder a b -> Permutation (all_nodes a) (all_nodes b).
Proof.
  intros [[_ [_ [Hm _]]] Hs Hf]. unfold all_nodes, graphs_of. simpl. apply Permutation_app; [exact Hm|].
  rewrite !flat_map_app. apply Permutation_app.
  - rewrite !flat_map_map. eapply Forall2_flat_map_perm; [|exact Hs]. intros x y [_ [_ [_ [H _]]]]. exact H.
  - rewrite !flat_map_map. eapply Forall2_flat_map_perm; [|exact Hf]. intros x y [_ [_ [_ [_ [H _]]]]]. exact H.
Qed.
Lemma reorder_all_inits a b : Reorder a b -> all_inits a = all_inits b.
Proof.
  intros [[_ [Hm _]] Hs Hf]. unfold all_inits, graphs_of. simpl. rewrite Hm. f_equal.
  rewrite !flat_map_app. f_equal.
  - rewrite !flat_map_map. eapply Forall2_flat_map_eq; [|exact Hs]. intros x y [_ [_ [H _]]]. exact H.
  - rewrite !flat_map_map. eapply Forall2_flat_map_eq; [|exact Hf]. intros x y [_ [_ [_ [H _]]]]. exact H.
Qed.
Lemma reorder_all_formals a b : Reorder a b -> all_formals a = all_formals b.
Proof.
  intros [[Hm _] Hs Hf]. unfold all_formals, graphs_of. simpl. rewrite Hm. f_equal.
  rewrite !flat_map_app. f_equal.
  - rewrite !flat_map_map. eapply Forall2_flat_map_eq; [|exact Hs]. intros x y [_ [H _]]. exact H.
  - rewrite !flat_map_map. eapply Forall2_flat_map_eq; [|exact Hf]. intros x y [_ [_ [H _]]]. exact H.
Qed.

Lemma reorder_sub a b g gr : Reorder a b -> alookup (m_subs a) g = Some gr ->
  exists gr', alookup (m_subs b) g = Some gr' /\ g_ins gr' = g_ins gr /\ g_outs gr' = g_outs gr.
Proof.
  intros [_ Hs _]. induction Hs as [|[k x] [k' y] l l' [Hk [Hi [_ [_ Ho]]]] Hs IH]; simpl; intros E; [discriminate|].
  simpl in Hk, Hi, Ho. rewrite <- Hk. destruct (N.eqb k g); [|auto]. injection E as <-. exists y. auto.
Qed.
Lemma reorder_func a b op fn : Reorder a b -> find_func (m_funcs a) op = Some fn ->
  exists fn', find_func (m_funcs b) op = Some fn' /\ g_ins (f_body fn') = g_ins (f_body fn)
              /\ g_outs (f_body fn') = g_outs (f_body fn) /\ f_defaults fn' = f_defaults fn.
Proof.
  intros [_ _ Hf]. unfold find_func. induction Hf as [|x y l l' [Hid [Hd [Hi [_ [_ Ho]]]]] Hf IH]; simpl; intros E; [discriminate|].
  rewrite <- Hid. destruct (opid_eqb (f_id x) op); [|auto]. injection E as <-. exists y. auto.
Qed.
Lemma reorder_func_none a b op : Reorder a b -> find_func (m_funcs a) op = None -> find_func (m_funcs b) op = None.
Proof.
  intros [_ _ Hf]. unfold find_func. induction Hf as [|x y l l' [Hid _] Hf IH]; simpl; intros E; [reflexivity|].
  rewrite <- Hid. destruct (opid_eqb (f_id x) op); [discriminate | auto].
Qed.

Section Reorder.
  Variable T : Type.
  Variable absent : T.
  Variable tensor_val : tensor -> T.
  Variable interp : opid -> list (str * attr) -> list (subfn T) -> list T -> nat -> option (list T).
  Hypothesis interp_mono : forall op attrs subs subs' ins k r,
      Forall2 (sub_le T) subs subs' -> interp op attrs subs ins k = Some r -> interp op attrs subs' ins k = Some r.
  Hypothesis interp_identity : forall op attrs subs x,
      is_identity_op op = true -> interp op attrs subs [x] 1%nat = Some [x].
  Hypothesis interp_trailing_absent : forall op attrs subs ins k,
      interp op attrs subs (ins ++ [absent]) k = interp op attrs subs ins k.

  Theorem reorder_sim a b : WF a -> Reorder a b ->
    Sim T tensor_val interp (fun _ => True) (formal_of a) (fun v => v) (sem_of a) (sem_of b).
  Proof.
    intros HW HR.
    assert (Hprod : forall v, find_prod (all_nodes b) v = find_prod (all_nodes a) v).
    { intros v. apply find_prod_perm; [apply reorder_all_nodes; exact HR | apply (wf_outs a HW)]. }
    constructor.
    - reflexivity.
    - intros v _. simpl. destruct (alookup (all_inits a) v) as [t|] eqn:Ei.
      + eapply VInit; simpl; eauto. rewrite <- (reorder_all_inits a b HR). exact Ei.
      + destruct (find_prod (all_nodes a) v) as [[n i]|] eqn:Ep; [|apply VNone; simpl; assumption].
        eapply VNode with (n := n) (i := i) (n' := n); simpl; eauto.
        * rewrite <- (reorder_all_inits a b HR). exact Ei.
        * rewrite Hprod. exact Ep.
        * constructor; try reflexivity. exists (map (option_map (fun v => v)) (n_ins n)), O, O. simpl. rewrite !app_nil_r. split; [reflexivity|].
          rewrite <- (map_id (n_ins n)) at 1. apply map_ext. intros [w|]; reflexivity.
    - intros g gr Eg. simpl in *. destruct (reorder_sub a b g gr HR Eg) as [gr' [E1 [E2 E3]]]. exists gr'. rewrite map_id. auto.
    - intros g gr Eg. simpl in Eg. split; [eapply formal_sub; eauto | apply Forall_forall; auto].
    - intros op fn Ef. simpl in *. destruct (reorder_func a b op fn HR Ef) as [fn' [E1 [E2 [E3 E4]]]]. exists fn'. rewrite map_id. auto.
    - intros op Ef. simpl in *. eapply reorder_func_none; eauto.
    - intros op fn Ef. simpl in Ef. split; [eapply formal_func; eauto | apply Forall_forall; auto].
  Qed.

  Theorem reorder_computes a b : WF a -> Reorder a b ->
    forall env r, env_ok T (formal_of a) env -> computes absent tensor_val interp a env r -> computes absent tensor_val interp b env r.
  Proof.
    intros HW HR env r He [f E]. exists f. unfold den_list in *.
    assert (Ho : g_outs (m_main a) = g_outs (m_main b)) by (destruct HR as [[_ [_ [_ Ho]]] _ _]; exact Ho).
    rewrite <- Ho.
    eapply map_opt_impl; [|exact E]. intros x y _ Hy.
    exact (sim_refines T absent tensor_val interp interp_mono interp_identity interp_trailing_absent
                       (fun _ => True) (formal_of a) (fun v => v) (sem_of a) (sem_of b) (reorder_sim a b HW HR)
                       f [] env x y He I Hy).
  Qed.
End Reorder.

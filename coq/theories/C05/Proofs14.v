(* C05/Proofs14.v — RemoveUnusedFunctionsPass: dropping the functions outside `ids` preserves what the model
   computes, given the decidable certificate drop_closedb (Model.v) and two further decidable facts that
   drop_closedb does not imply (extra_ok below):
     * dropped_dead: no node of a DROPPED function body has its key in the live region LN (drop_closedb only says the
       converse inclusion "kept bodies are inside LN"; a live node may read a value produced inside a dropped body
       as far as drop_closedb is concerned, and that value loses its producer);
     * dropped_no_inits: dropped function bodies hold no initializers (function bodies have none in converted
       models; an initializer registered in a dropped body disappears from the initializer table).
   For the certificate the pass model builds for itself (live_keys) dropped_dead is PROVED from WF. *)
From Coq Require Import ZArith NArith List Bool Lia Permutation.
From IRV Require Import Base.Exn Gen.C05Gen C05.Model C05.Proofs C05.Proofs2 C05.Proofs3 C05.Proofs4 C05.Proofs5.
Import ListNotations. Open Scope N_scope.

(* ---------------------------------------------------------------- the extra executable conditions *)
Definition dropped_dead (m : model) (ids : list opid) (LN : list vid) : bool :=
  forallb (fun fn => keep_func ids fn || forallb (fun n => negb (memN (node_key n) LN)) (g_nodes (f_body fn))) (m_funcs m).
Definition dropped_no_inits (m : model) (ids : list opid) : bool :=
  forallb (fun fn => keep_func ids fn || match g_inits (f_body fn) with [] => true | _ :: _ => false end) (m_funcs m).
Definition extra_ok (m : model) (ids : list opid) (LN : list vid) : bool :=
  dropped_dead m ids LN && dropped_no_inits m ids.

Definition dropped_funcs (ids : list opid) (m : model) : list func :=
  filter (fun fn => negb (keep_func ids fn)) (m_funcs m).

(* ---------------------------------------------------------------- list facts *)
Lemma rf_flat_map_filter_perm {A B} (f : A -> list B) (p : A -> bool) l :
  Permutation (flat_map f l) (flat_map f (filter p l) ++ flat_map f (filter (fun x => negb (p x)) l)).
Proof.
  induction l as [|x l IH]; simpl; [constructor|].
  destruct (p x); simpl.
  - rewrite <- app_assoc. apply Permutation_app_head. exact IH.
  - eapply Permutation_trans; [apply Permutation_app_head; exact IH|].
    rewrite !app_assoc. apply Permutation_app_tail. apply Permutation_app_comm.
Qed.

Lemma rf_flat_map_flat_map {A B C} (f : B -> list C) (g : A -> list B) l :
  flat_map f (flat_map g l) = flat_map (fun x => flat_map f (g x)) l.
Proof. induction l as [|x l IH]; simpl; [reflexivity|]. rewrite flat_map_app, IH. reflexivity. Qed.

Lemma rf_flat_map_filter_nil {A B} (f : A -> list B) (p : A -> bool) l :
  (forall x, In x l -> p x = false -> f x = []) -> flat_map f (filter p l) = flat_map f l.
Proof.
  induction l as [|x l IH]; simpl; intros H; [reflexivity|].
  destruct (p x) eqn:E; simpl.
  - f_equal. apply IH. intros y Hy. apply H. right. exact Hy.
  - rewrite (H x (or_introl eq_refl) E). simpl. apply IH. intros y Hy. apply H. right. exact Hy.
Qed.

Lemma rf_find_func_filter_some p fs op fn :
  find_func fs op = Some fn -> p fn = true -> find_func (filter p fs) op = Some fn.
Proof.
  unfold find_func. induction fs as [|f fs IH]; simpl; intros E Hp; [discriminate|].
  destruct (opid_eqb (f_id f) op) eqn:Eo.
  - injection E as E. subst f. rewrite Hp. simpl. rewrite Eo. reflexivity.
  - destruct (p f); simpl; [rewrite Eo|]; apply IH; assumption.
Qed.
Lemma rf_find_func_filter_none p fs op : find_func fs op = None -> find_func (filter p fs) op = None.
Proof.
  unfold find_func. induction fs as [|f fs IH]; simpl; intros E; [reflexivity|].
  destruct (opid_eqb (f_id f) op) eqn:Eo; [discriminate|].
  destruct (p f); simpl; [rewrite Eo|]; apply IH; assumption.
Qed.

(* ---------------------------------------------------------------- the graph table of drop_funcs *)
Lemma drop_funcs_main m ids : m_main (drop_funcs ids m) = m_main m.
Proof. reflexivity. Qed.
Lemma drop_funcs_subs m ids : m_subs (drop_funcs ids m) = m_subs m.
Proof. reflexivity. Qed.
Lemma drop_funcs_noninit_inputs m ids : noninit_inputs (drop_funcs ids m) = noninit_inputs m.
Proof. reflexivity. Qed.
Lemma drop_funcs_outputs m ids : g_outs (m_main (drop_funcs ids m)) = g_outs (m_main m).
Proof. reflexivity. Qed.

Lemma graphs_split {X} (proj : graph -> list X) m ids :
  Permutation (flat_map proj (graphs_of m))
              (flat_map proj (graphs_of (drop_funcs ids m)) ++ flat_map proj (map f_body (dropped_funcs ids m))).
Proof.
  unfold graphs_of, drop_funcs, dropped_funcs. cbn [m_main m_subs m_funcs flat_map].
  rewrite !flat_map_app, <- !app_assoc. apply Permutation_app_head. apply Permutation_app_head.
  rewrite !flat_map_map. apply rf_flat_map_filter_perm.
Qed.
Lemma graphs_incl {X} (proj : graph -> list X) m ids x :
  In x (flat_map proj (graphs_of (drop_funcs ids m))) -> In x (flat_map proj (graphs_of m)).
Proof.
  intros H. eapply Permutation_in; [apply Permutation_sym; apply (graphs_split proj m ids)|].
  apply in_app_iff. left. exact H.
Qed.
Lemma graphs_NoDup {X} (proj : graph -> list X) m ids :
  NoDup (flat_map proj (graphs_of m)) -> NoDup (flat_map proj (graphs_of (drop_funcs ids m))).
Proof.
  intros H. eapply NoDup_app_l. eapply Permutation_NoDup; [apply (graphs_split proj m ids) | exact H].
Qed.

Lemma all_outs_flat m : all_outs m = flat_map (fun g => flat_map n_outs (g_nodes g)) (graphs_of m).
Proof. unfold all_outs, all_nodes. apply rf_flat_map_flat_map. Qed.
Lemma init_keys_flat m : map fst (all_inits m) = flat_map (fun g => map fst (g_inits g)) (graphs_of m).
Proof. unfold all_inits. apply map_flat_map. Qed.

Lemma all_nodes_drop_incl m ids n : In n (all_nodes (drop_funcs ids m)) -> In n (all_nodes m).
Proof. unfold all_nodes. apply graphs_incl. Qed.
Lemma all_outs_drop_incl m ids v : In v (all_outs (drop_funcs ids m)) -> In v (all_outs m).
Proof. rewrite !all_outs_flat. apply graphs_incl. Qed.
Lemma all_formals_drop_incl m ids v : In v (all_formals (drop_funcs ids m)) -> In v (all_formals m).
Proof. unfold all_formals. apply graphs_incl. Qed.
Lemma init_keys_drop_incl m ids v : In v (map fst (all_inits (drop_funcs ids m))) -> In v (map fst (all_inits m)).
Proof. rewrite !init_keys_flat. apply graphs_incl. Qed.

Theorem drop_funcs_WF m ids : WF m -> WF (drop_funcs ids m).
Proof.
  intros [H1 H2 H3 H4 H5]. constructor.
  - rewrite all_outs_flat. apply graphs_NoDup. rewrite <- all_outs_flat. exact H1.
  - intros v Hv Ho. apply (H2 v); [eapply all_formals_drop_incl | eapply all_outs_drop_incl]; eauto.
  - intros v Hv Ho. apply (H3 v); [eapply init_keys_drop_incl | eapply all_outs_drop_incl]; eauto.
  - intros n Hn. apply H4. eapply all_nodes_drop_incl; eauto.
  - rewrite init_keys_flat. apply graphs_NoDup. rewrite <- init_keys_flat. exact H5.
Qed.

Theorem drop_funcs_NoOpFunc m ids : NoOpFunc m -> NoOpFunc (drop_funcs ids m).
Proof. intros H op Hop. unfold drop_funcs. cbn [m_funcs]. apply rf_find_func_filter_none. apply H. exact Hop. Qed.

(* nodes of the result and nodes of dropped bodies are different nodes *)
Lemma kept_dropped_disjoint m ids x : WF m ->
  In x (all_outs (drop_funcs ids m)) ->
  In x (flat_map (fun g => flat_map n_outs (g_nodes g)) (map f_body (dropped_funcs ids m))) -> False.
Proof.
  intros HW H1 H2. rewrite all_outs_flat in H1.
  eapply NoDup_app_disj; [|exact H1|exact H2].
  eapply Permutation_NoDup; [apply (graphs_split (fun g => flat_map n_outs (g_nodes g)) m ids)|].
  rewrite <- all_outs_flat. apply (wf_outs m HW).
Qed.

(* ---------------------------------------------------------------- attributes *)
Lemma slookup_In {A} (l : list (str * A)) k a : slookup l k = Some a -> exists k', In (k', a) l.
Proof.
  induction l as [|[k' a'] l IH]; simpl; intros E; [discriminate|].
  destruct (str_eqb k' k).
  - injection E as <-. exists k'. left. reflexivity.
  - destruct (IH E) as [k2 H]. exists k2. right. exact H.
Qed.
Lemma nga_In l k a : no_graph_attrs l = true -> In (k, a) l -> is_graph_attr a = false.
Proof. intros H Hin. apply negb_true_iff. exact (forallb_In _ _ (k, a) H Hin). Qed.
Lemma nga_app a b : no_graph_attrs a = true -> no_graph_attrs b = true -> no_graph_attrs (a ++ b) = true.
Proof. intros Ha Hb. unfold no_graph_attrs in *. rewrite forallb_app, Ha, Hb. reflexivity. Qed.

Lemma resolve_In aenv attrs x : In x (resolve aenv attrs) ->
  In x attrs \/ exists ka ty r a, In ka attrs /\ snd ka = ARef ty r /\ slookup aenv r = Some a /\ x = (fst ka, a).
Proof.
  unfold resolve. intros H. apply in_flat_map in H. destruct H as [[k a] [Hka Hx]]. simpl in Hx.
  destruct a as [ty p|g|gs|ty r].
  - destruct Hx as [<-|[]]. left. exact Hka.
  - destruct Hx as [<-|[]]. left. exact Hka.
  - destruct Hx as [<-|[]]. left. exact Hka.
  - destruct (slookup aenv r) as [a|] eqn:El; [|contradiction]. destruct Hx as [<-|[]].
    right. exists (k, ARef ty r), ty, r, a. auto.
Qed.

Lemma resolve_nga aenv attrs :
  no_graph_attrs aenv = true -> no_graph_attrs attrs = true -> no_graph_attrs (resolve aenv attrs) = true.
Proof.
  intros Ha Hat. unfold no_graph_attrs. apply forallb_forall. intros x Hx.
  destruct (resolve_In _ _ _ Hx) as [Hin | [ka [ty [r [a [Hka [Hs [El ->]]]]]]]].
  - exact (forallb_In _ _ x Hat Hin).
  - simpl. apply negb_true_iff. destruct (slookup_In _ _ _ El) as [k' Hk']. exact (nga_In _ _ _ Ha Hk').
Qed.

Lemma attr_graphs_resolve_incl aenv attrs g :
  no_graph_attrs aenv = true -> In g (attr_graphs (resolve aenv attrs)) -> In g (attr_graphs attrs).
Proof.
  intros Ha H. unfold attr_graphs in *. apply in_flat_map in H. destruct H as [x [Hx Hg]].
  destruct (resolve_In _ _ _ Hx) as [Hin | [ka [ty [r [a [Hka [Hs [El ->]]]]]]]].
  - apply in_flat_map. exists x. auto.
  - exfalso. simpl in Hg. destruct (slookup_In _ _ _ El) as [k' Hk']. pose proof (nga_In _ _ _ Ha Hk') as Hn.
    destruct a; simpl in Hn; try discriminate; contradiction.
Qed.

(* ---------------------------------------------------------------- reading live_node_ok *)
Lemma lno_func m ids LN n fn : live_node_ok m ids LN n = true -> find_func (m_funcs m) (n_op n) = Some fn ->
  keep_func ids fn = true /\ no_graph_attrs (n_attrs n) = true /\ no_graph_attrs (f_defaults fn) = true
  /\ forallb (live_value m LN) (g_outs (f_body fn)) = true.
Proof.
  unfold live_node_ok. intros H Ef. apply andb_prop in H. destruct H as [H _]. apply andb_prop in H. destruct H as [_ H].
  rewrite Ef in H. apply andb_prop in H. destruct H as [H H4]. apply andb_prop in H. destruct H as [H H3].
  apply andb_prop in H. destruct H as [H1 H2]. auto.
Qed.
Lemma lno_sub m ids LN n g gr : live_node_ok m ids LN n = true -> In g (attr_graphs (n_attrs n)) ->
  alookup (m_subs m) g = Some gr -> forallb (live_value m LN) (g_outs gr) = true.
Proof.
  unfold live_node_ok. intros H Hg Eg. apply andb_prop in H. destruct H as [H _]. apply andb_prop in H. destruct H as [H _].
  pose proof (forallb_In _ _ g H Hg) as Hx. simpl in Hx. rewrite Eg in Hx. apply andb_prop in Hx. tauto.
Qed.
Lemma lno_ins m ids LN n w : live_node_ok m ids LN n = true -> In (Some w) (n_ins n) -> live_value m LN w = true.
Proof.
  unfold live_node_ok. intros H Hw. apply andb_prop in H. destruct H as [_ H].
  exact (forallb_In _ _ (Some w) H Hw).
Qed.

Section RmFuncs.
  Variable T : Type.
  Variable absent : T.
  Variable tensor_val : tensor -> T.
  Variable interp : opid -> list (str * attr) -> list (subfn T) -> list T -> nat -> option (list T).
  Hypothesis interp_mono : forall op attrs subs subs' ins k r,
      Forall2 (sub_le T) subs subs' -> interp op attrs subs ins k = Some r -> interp op attrs subs' ins k = Some r.
  Hypothesis interp_identity : forall op attrs subs x,
      is_identity_op op = true -> interp op attrs subs [x] 1%nat = Some [x].
  Hypothesis interp_trailing_absent : forall op attrs subs ins k,
      interp op attrs subs (ins ++ [absent]) k = interp op attrs subs ins k.

  Notation computes := (computes absent tensor_val interp).

  Section Drop.
    Variables (m : model) (ids : list opid) (LN : list vid).
    Hypothesis HW : WF m.
    Hypothesis HC : drop_closedb m ids LN = true.
    Hypothesis HD : dropped_dead m ids LN = true.
    Hypothesis HI : dropped_no_inits m ids = true.

    Lemma closed_parts :
      forallb (fun n => negb (memN (node_key n) LN) || live_node_ok m ids LN n) (all_nodes m) = true
      /\ forallb (live_value m LN) (g_outs (m_main m)) = true.
    Proof.
      unfold drop_closedb in HC. apply andb_prop in HC. destruct HC as [H H4]. apply andb_prop in H. destruct H as [_ H3]. auto.
    Qed.

    Lemma live_ok v n i : live_value m LN v = true -> find_prod (all_nodes m) v = Some (n, i) ->
      memN (node_key n) LN = true /\ live_node_ok m ids LN n = true.
    Proof.
      unfold live_value. intros HL Ep. rewrite Ep in HL. split; [exact HL|].
      destruct closed_parts as [H3 _]. destruct (find_prod_In _ _ _ _ Ep) as [Hin _].
      pose proof (forallb_In _ _ n H3 Hin) as Hx. simpl in Hx. rewrite HL in Hx. exact Hx.
    Qed.

    (* a node of the live region is still there *)
    Lemma live_in n : In n (all_nodes m) -> memN (node_key n) LN = true -> In n (all_nodes (drop_funcs ids m)).
    Proof.
      unfold all_nodes, graphs_of, drop_funcs. cbn [m_main m_subs m_funcs flat_map].
      rewrite !flat_map_app, !in_app_iff. intros [H|[H|H]] Hk; auto.
      right. right. rewrite flat_map_map in *. apply in_flat_map in H. destruct H as [fn [Hfn Hn]].
      apply in_flat_map. exists fn. split; [|exact Hn]. apply filter_In. split; [exact Hfn|].
      destruct (keep_func ids fn) eqn:E; [reflexivity|]. exfalso.
      pose proof (forallb_In _ _ fn HD Hfn) as Hx. simpl in Hx. rewrite E in Hx. simpl in Hx.
      pose proof (forallb_In _ _ n Hx Hn) as Hy. simpl in Hy. rewrite Hk in Hy. discriminate.
    Qed.

    Lemma prod_same v n i : find_prod (all_nodes m) v = Some (n, i) -> In n (all_nodes (drop_funcs ids m)) ->
      find_prod (all_nodes (drop_funcs ids m)) v = Some (n, i).
    Proof.
      intros Ep Hin'. destruct (find_prod_In _ _ _ _ Ep) as [Hin Hidx].
      destruct (find_prod (all_nodes (drop_funcs ids m)) v) as [[n2 i2]|] eqn:E2.
      - destruct (find_prod_In _ _ _ _ E2) as [Hin2 Hidx2].
        assert (n2 = n).
        { apply (producer_unique m n2 n v HW); [eapply all_nodes_drop_incl; eauto | exact Hin | eapply index_of_In; eauto | eapply index_of_In; eauto]. }
        subst n2. congruence.
      - exfalso. apply (find_prod_None _ _ E2). apply in_flat_map. exists n. split; [exact Hin' | eapply index_of_In; eauto].
    Qed.

    Lemma inits_same : all_inits (drop_funcs ids m) = all_inits m.
    Proof.
      unfold all_inits, graphs_of, drop_funcs. cbn [m_main m_subs m_funcs flat_map]. f_equal.
      rewrite !flat_map_app. f_equal. rewrite !flat_map_map. apply rf_flat_map_filter_nil.
      intros fn Hfn E. pose proof (forallb_In _ _ fn HI Hfn) as Hx. simpl in Hx. rewrite E in Hx. simpl in Hx.
      destruct (g_inits (f_body fn)); [reflexivity | discriminate].
    Qed.

    Lemma live_Forall l : forallb (live_value m LN) l = true -> Forall (fun v => live_value m LN v = true) l.
    Proof. intros H. apply Forall_forall. intros x Hx. exact (forallb_In _ _ x H Hx). Qed.

    Lemma drop_simg :
      SimG T tensor_val interp (fun v => live_value m LN v = true) (formal_of m) (fun v => v)
           (sem_of m) (sem_of (drop_funcs ids m)) (fun aenv => no_graph_attrs aenv = true).
    Proof.
      constructor.
      - (* attribute environments never hold graphs *)
        intros v n i fn aenv HL Ep Ef Ha. simpl in Ep, Ef.
        destruct (live_ok v n i HL Ep) as [Hk Hok]. destruct (lno_func _ _ _ _ _ Hok Ef) as [_ [Hna [Hnd _]]].
        apply nga_app; [apply resolve_nga; assumption | exact Hnd].
      - reflexivity.
      - intros v HL. simpl.
        destruct (alookup (all_inits m) v) as [t|] eqn:Ei.
        + eapply VInit; simpl; eauto. rewrite inits_same. exact Ei.
        + destruct (find_prod (all_nodes m) v) as [[n i]|] eqn:Ep; [|apply VNone; simpl; assumption].
          destruct (live_ok v n i HL Ep) as [Hk Hok]. destruct (find_prod_In _ _ _ _ Ep) as [Hin _].
          eapply VNode with (n := n) (i := i) (n' := n); simpl; eauto.
          * rewrite inits_same. exact Ei.
          * apply prod_same; [exact Ep | apply live_in; assumption].
          * constructor; try reflexivity. exists (map (option_map (fun v => v)) (n_ins n)), O, O. simpl. rewrite !app_nil_r.
            split; [reflexivity|]. rewrite <- (map_id (n_ins n)) at 1. apply map_ext. intros [w|]; reflexivity.
          * intros w Hw. eapply lno_ins; eauto.
      - intros g _ gr Eg. simpl in *. exists gr. rewrite map_id. auto.
      - intros g [v [n [i [aenv [Ha [HL [Ep Hg]]]]]]] gr Eg. simpl in *.
        split; [eapply formal_sub; eauto|].
        destruct (live_ok v n i HL Ep) as [Hk Hok]. apply live_Forall.
        eapply lno_sub; eauto. eapply attr_graphs_resolve_incl; eauto.
      - intros op [v [n [i [HL [Ep Hop]]]]] fn Ef. simpl in *. subst op.
        destruct (live_ok v n i HL Ep) as [Hk Hok]. destruct (lno_func _ _ _ _ _ Hok Ef) as [Hkeep _].
        exists fn. rewrite map_id. split; [apply rf_find_func_filter_some; assumption | auto].
      - intros op _ Ef. simpl in *. apply rf_find_func_filter_none. exact Ef.
      - intros op [v [n [i [HL [Ep Hop]]]]] fn Ef. simpl in *. subst op.
        split; [eapply formal_func; eauto|].
        destruct (live_ok v n i HL Ep) as [Hk Hok]. destruct (lno_func _ _ _ _ _ Hok Ef) as [_ [_ [_ Ho]]].
        apply live_Forall. exact Ho.
    Qed.

    Lemma drop_funcs_computes_sec env r :
      env_ok T (formal_of m) env -> computes m env r -> computes (drop_funcs ids m) env r.
    Proof.
      intros He [f E]. exists f. unfold den_list in *.
      change (g_outs (m_main (drop_funcs ids m))) with (g_outs (m_main m)).
      eapply map_opt_impl; [|exact E]. intros x y Hx Hy.
      destruct closed_parts as [_ H4].
      exact (simg_refines T absent tensor_val interp interp_mono interp_identity interp_trailing_absent
                          (fun v => live_value m LN v = true) (formal_of m) (fun v => v) (sem_of m) (sem_of (drop_funcs ids m))
                          (fun aenv => no_graph_attrs aenv = true) drop_simg
                          f [] env x y eq_refl He (forallb_In _ _ x H4 Hx) Hy).
    Qed.
  End Drop.

  Theorem drop_funcs_computes m ids LN :
    WF m -> drop_closedb m ids LN = true -> extra_ok m ids LN = true ->
    forall env r, env_ok T (formal_of m) env -> computes m env r -> computes (drop_funcs ids m) env r.
  Proof.
    intros HW HC HE env r. unfold extra_ok in HE. apply andb_prop in HE. destruct HE as [HD HI].
    apply (drop_funcs_computes_sec m ids LN HW HC HD HI).
  Qed.
End RmFuncs.

(* ---------------------------------------------------------------- the pass's own certificate *)
Definition good_ref (m : model) (ids : list opid) (r : gref) : Prop :=
  match r with GFunc i => exists fn, nth_error (m_funcs m) i = Some fn /\ keep_func ids fn = true | _ => True end.

Lemma good_ref_graph m ids r g : good_ref m ids r -> get_gref m r = Some g -> In g (graphs_of (drop_funcs ids m)).
Proof.
  unfold graphs_of, drop_funcs. cbn [m_main m_subs m_funcs].
  destruct r as [|x|i]; simpl; intros Hg E.
  - injection E as <-. left. reflexivity.
  - right. apply in_app_iff. left. apply alookup_In in E. apply in_map_iff. exists (x, g). auto.
  - destruct Hg as [fn [En Hk]]. rewrite En in E. simpl in E. injection E as <-. right. apply in_app_iff. right.
    apply in_map_iff. exists fn. split; [reflexivity|]. apply filter_In. split; [eapply nth_error_In; eauto | exact Hk].
Qed.

Lemma rec_nodes_kept m ids fuel : forall r rk, good_ref m ids r -> In rk (rec_nodes fuel m r) ->
  exists n, In n (all_nodes (drop_funcs ids m)) /\ node_key n = snd rk.
Proof.
  induction fuel as [|f IH]; intros r rk Hg Hin; cbn [rec_nodes] in Hin; [contradiction|].
  destruct (get_gref m r) as [g|] eqn:Eg; [|contradiction].
  apply in_flat_map in Hin. destruct Hin as [n [Hn Hrk]].
  destruct Hrk as [<-|Hrk].
  - exists n. split; [|reflexivity]. unfold all_nodes. apply in_flat_map. exists g. split; [eapply good_ref_graph; eauto | exact Hn].
  - apply in_flat_map in Hrk. destruct Hrk as [sg [_ Hrk]]. apply (IH (GSub sg) rk I Hrk).
Qed.

Lemma live_keys_kept fuel ids m k : In k (live_keys fuel ids m) ->
  exists n, In n (all_nodes (drop_funcs ids m)) /\ node_key n = k.
Proof.
  unfold live_keys. intros H. apply in_map_iff in H. destruct H as [rk [<- H]]. apply in_app_iff in H. destruct H as [H|H].
  - eapply rec_nodes_kept; [|exact H]. exact I.
  - apply in_flat_map in H. destruct H as [r [Hr H]]. eapply rec_nodes_kept; [|exact H].
    unfold kept_refs in Hr. apply in_map_iff in Hr. destruct Hr as [i [<- Hi]]. apply filter_In in Hi. destruct Hi as [_ Hi].
    simpl. destruct (nth_error (m_funcs m) i) as [fn|]; [|discriminate]. exists fn. auto.
Qed.

Theorem live_keys_dropped_dead fuel ids m : WF m -> dropped_dead m ids (live_keys fuel ids m) = true.
Proof.
  intros HW. unfold dropped_dead. apply forallb_forall. intros fn Hfn.
  destruct (keep_func ids fn) eqn:Ek; [reflexivity|]. simpl. apply forallb_forall. intros n Hn.
  apply negb_true_iff. apply memN_false. intros Hk.
  destruct (live_keys_kept _ _ _ _ Hk) as [n2 [Hn2 Hkey]].
  assert (Hnall : In n (all_nodes m)).
  { unfold all_nodes, graphs_of. cbn [flat_map]. apply in_app_iff. right. rewrite flat_map_app. apply in_app_iff. right.
    rewrite flat_map_map. apply in_flat_map. exists fn. auto. }
  assert (Hne : n_outs n <> []) by (apply (wf_nonempty m HW); exact Hnall).
  assert (Hne2 : n_outs n2 <> []) by (apply (wf_nonempty m HW); eapply all_nodes_drop_incl; eauto).
  assert (Hk1 : In (node_key n) (n_outs n)) by (apply has_key_first; [unfold has_key; apply N.eqb_refl | exact Hne]).
  assert (Hk2 : In (node_key n) (n_outs n2)) by (apply has_key_first; [unfold has_key; apply N.eqb_eq; exact Hkey | exact Hne2]).
  apply (kept_dropped_disjoint m ids (node_key n) HW).
  - unfold all_outs. apply in_flat_map. exists n2. auto.
  - rewrite flat_map_map. apply in_flat_map. exists fn. split.
    + unfold dropped_funcs. apply filter_In. split; [exact Hfn | rewrite Ek; reflexivity].
    + apply in_flat_map. exists n. auto.
Qed.

Section RmFuncsPass.
  Variable T : Type.
  Variable absent : T.
  Variable tensor_val : tensor -> T.
  Variable interp : opid -> list (str * attr) -> list (subfn T) -> list T -> nat -> option (list T).
  Hypothesis interp_mono : forall op attrs subs subs' ins k r,
      Forall2 (sub_le T) subs subs' -> interp op attrs subs ins k = Some r -> interp op attrs subs' ins k = Some r.
  Hypothesis interp_identity : forall op attrs subs x,
      is_identity_op op = true -> interp op attrs subs [x] 1%nat = Some [x].
  Hypothesis interp_trailing_absent : forall op attrs subs ins k,
      interp op attrs subs (ins ++ [absent]) k = interp op attrs subs ins k.

  Notation computes := (computes absent tensor_val interp).

  Corollary remove_unused_funcs_computes fuel m :
    WF m -> rmfunc_ok fuel m = true -> dropped_no_inits m (used_funcs fuel m GMain []) = true ->
    forall env r, env_ok T (formal_of m) env -> computes m env r -> computes (remove_unused_funcs fuel m) env r.
  Proof.
    intros HW HC HI env r. unfold remove_unused_funcs. unfold rmfunc_ok in HC. cbv zeta in HC.
    apply (drop_funcs_computes T absent tensor_val interp interp_mono interp_identity interp_trailing_absent
             m (used_funcs fuel m GMain []) (live_keys fuel (used_funcs fuel m GMain []) m) HW HC).
    unfold extra_ok. rewrite (live_keys_dropped_dead fuel _ m HW), HI. reflexivity.
  Qed.

  Corollary remove_unused_funcs_WF fuel m : WF m -> WF (remove_unused_funcs fuel m).
  Proof. apply drop_funcs_WF. Qed.
  Corollary remove_unused_funcs_NoOpFunc fuel m : NoOpFunc m -> NoOpFunc (remove_unused_funcs fuel m).
  Proof. apply drop_funcs_NoOpFunc. Qed.
  Corollary remove_unused_funcs_main fuel m : m_main (remove_unused_funcs fuel m) = m_main m.
  Proof. reflexivity. Qed.
End RmFuncsPass.

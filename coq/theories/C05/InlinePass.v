(* C05/InlinePass.v — the inliner as the proofs see it: every step produced by Inline.inline_at_raw is accepted only with
   its certificate (InlineCert.inline_certb), the final deletion of the inlined functions only with the closedness
   certificate of Model.drop_closedb.  On well-formed models the certificates hold, so this is Inline.inline_pass (the
   structural correspondence compares THIS function with the implementation). *)
From Coq Require Import ZArith NArith List Bool Lia.
From IRV Require Import Base.Exn Gen.C05Gen C05.Model C05.Inline C05.InlineCert C05.Proofs18.
Import ListNotations.
Open Scope N_scope.

Definition inline_at_c (fuel : nat) (m : model) (k : vid) (fv fg : N) : option (model * N * N) :=
  match inline_at_raw fuel m k fv fg with
  | Some st => if inline_certb m st fv then Some (is_m st, is_fv st, is_fg st) else None
  | None => None
  end.

Definition istate := (model * N * N * list opid)%type.

Definition ig_loop (rec : gref -> istate -> istate) (f : nat) (r : gref) :=
  fix loop (steps : nat) (pos : nat) (st : istate) {struct steps} : istate :=
    match steps with
    | O => st
    | S steps' =>
      let '(m, fv, fg, inld) := st in
      match get_gref m r with
      | None => st
      | Some g =>
        match nth_error (g_nodes g) pos with
        | None => st
        | Some n =>
          if is_call_node m n then
            match inline_at_c f m (node_key n) fv fg with
            | Some (m', fv', fg') => loop steps' pos (m', fv', fg', n_op n :: inld)
            | None => loop steps' (S pos) st
            end
          else
            let st' := fold_left (fun st sg => rec (GSub sg) st) (attr_graphs (n_attrs n)) st in
            loop steps' (S pos) st'
        end
      end
    end.

Fixpoint inline_graph_c (fuel : nat) (r : gref) (st : istate) {struct fuel} : istate :=
  match fuel with
  | O => st
  | S f => ig_loop (inline_graph_c f) f r (fuel * 16)%nat O st
  end.

Definition inline_funcs_c (fuel : nat) (done : list opid) (st : istate) : istate :=
  fold_left (fun (st : istate) i =>
               let '(mm, _, _, _) := st in
               match nth_error (m_funcs mm) i with
               | Some fn => if existsb (opid_eqb (f_id fn)) done then st else inline_graph_c fuel (GFunc i) st
               | None => st
               end) (seq 0 (length (m_funcs (fst (fst (fst st)))))) st.

(* the inlined functions are deleted when nothing live can reach them any more *)
Definition delete_inlined (fuel : nat) (inld : list opid) (m : model) : model :=
  let keep := filter (fun op => negb (existsb (opid_eqb op) inld)) (map f_id (m_funcs m)) in
  let LN := live_keys fuel keep m in
  if drop_closedb m keep LN && dropped_bodies_no_inits m keep then drop_funcs keep m else m.

(* After the certified steps over the main graph and its subgraphs no call is left there: the functions are dead code.
   What Inline.inline_pass then does (inline the calls inside the bodies of the functions that were not inlined, delete the
   inlined ones) only changes dead code: accepted with the certificate that the result agrees with m1 on everything that
   is live from the main graph (Model.drop_closedb + Proofs18.live_agreeb). *)
Definition inline_rest_raw (fuel : nat) (st1 : istate) : model :=
  let '(m1, fv1, fg1, inlA) := st1 in
  let '(m2, fv2, fg2, inlB) :=
      fold_left (fun (st : istate) i =>
                   let '(mm, _, _, inld) := st in
                   match nth_error (m_funcs mm) i with
                   | Some fn => if existsb (opid_eqb (f_id fn)) inlA then st else inline_graph fuel (GFunc i) st
                   | None => st
                   end) (seq 0 (length (m_funcs m1))) (m1, fv1, fg1, inlA) in
  mkModel (m_main m2) (m_subs m2) (filter (fun fn => negb (existsb (opid_eqb (f_id fn)) inlB)) (m_funcs m2)).

Definition noopfuncb (m : model) : bool :=
  forallb (fun fn => negb (is_identity_op (f_id fn) || is_constant_op (f_id fn))) (m_funcs m).

Definition dead_rest_okb (fuel : nat) (m1 mf : model) : bool :=
  let LN := live_keys fuel [] m1 in
  if drop_closedb m1 [] LN then if live_agreeb m1 mf [] LN then if wfb mf then noopfuncb mf else false else false else false.

Definition inline_pass_c (fuel : nat) (m : model) (fv fg : N) : model :=
  let st1 := inline_graph_c fuel GMain (m, fv, fg, []) in
  let mf := inline_rest_raw fuel st1 in
  if dead_rest_okb fuel (fst (fst (fst st1))) mf then mf
  else (* a call is left in the live region: certified steps inside the function bodies, certified deletion *)
    let st2 := inline_funcs_c fuel (snd st1) st1 in
    delete_inlined fuel (snd st2) (fst (fst (fst st2))).

(* C05/InlinePass.v — the inliner as the proofs see it: every step produced by Inline.inline_at_raw is accepted only with
   its certificate (InlineCert.inline_certb), the final deletion of the inlined functions only with the closedness
   certificate of Model.drop_closedb.  On well-formed models the certificates hold, so this is Inline.inline_pass (the
   structural correspondence compares THIS function with the implementation). *)
From Coq Require Import ZArith NArith List Bool Lia.
From IRV Require Import Base.Exn Gen.C05Gen C05.Model C05.Inline C05.InlineCert.
Import ListNotations.
Open Scope N_scope.

Definition inline_at_c (fuel : nat) (m : model) (k : vid) (fv fg : N) : option (model * N * N) :=
  match inline_at_raw fuel m k fv fg with
  | Some st => if inline_certb m st fv then Some (is_m st, is_fv st, is_fg st) else None
  | None => None
  end.

Definition istate := (model * N * N * list opid)%type.

Fixpoint inline_graph_c (fuel : nat) (r : gref) (st : istate) {struct fuel} : istate :=
  match fuel with
  | O => st
  | S f =>
    (fix loop (steps : nat) (pos : nat) (st : istate) {struct steps} : istate :=
       match steps with
       | O => st
       | S steps' =>
         let '(m, fv, fg, inld) := st in
         match get_gref m r with
         | None => st
         | Some g =>
           match nth_error (g_nodes g) pos with
           | None => st
           | Some n =>
             if is_call_node m n then
               match inline_at_c f m (node_key n) fv fg with
               | Some (m', fv', fg') => loop steps' pos (m', fv', fg', n_op n :: inld)
               | None => loop steps' (S pos) st
               end
             else
               let st' := fold_left (fun st sg => inline_graph_c f (GSub sg) st) (attr_graphs (n_attrs n)) st in
               loop steps' (S pos) st'
           end
         end
       end) (fuel * 16)%nat O st
  end.

Definition inline_funcs_c (fuel : nat) (done : list opid) (st : istate) : istate :=
  fold_left (fun (st : istate) i =>
               let '(mm, _, _, _) := st in
               match nth_error (m_funcs mm) i with
               | Some fn => if existsb (opid_eqb (f_id fn)) done then st else inline_graph_c fuel (GFunc i) st
               | None => st
               end) (seq 0 (length (m_funcs (fst (fst (fst st)))))) st.

(* the inlined functions are deleted when nothing live can reach them any more *)
Definition delete_inlined (fuel : nat) (inld : list opid) (m : model) : model :=
  let keep := filter (fun op => negb (existsb (opid_eqb op) inld)) (map f_id (m_funcs m)) in
  let LN := live_keys fuel keep m in
  if drop_closedb m keep LN && dropped_bodies_no_inits m keep then drop_funcs keep m else m.

Definition inline_pass_c (fuel : nat) (m : model) (fv fg : N) : model :=
  let st1 := inline_graph_c fuel GMain (m, fv, fg, []) in
  let st2 := inline_funcs_c fuel (snd st1) st1 in
  delete_inlined fuel (snd st2) (fst (fst (fst st2))).

(* C05/Opsets.v — RemoveUnusedOpsetsPass.  The term language is extended by the opset-import tables (one for the model,
   one per function); the operator a node denotes is determined by its op id and the version its domain resolves to in the
   table of the scope the node lives in (main graph incl. its subgraphs: the model's table; a function body incl. its
   subgraphs: the function's table).  The pass leaves the term unchanged and prunes the tables; theorem: every node of
   every scope — and every function domain at model level — still resolves to the same version. *)
From Coq Require Import ZArith NArith List Bool Lia.
From IRV Require Import Base.Exn Gen.C05Gen C05.Model C05.Proofs2 C05.Proofs4.
Import ListNotations.
Open Scope N_scope.

Definition imports := list (str * Z).
Record omodel := mkO { o_model : model; o_imports : imports; o_fimports : list imports }.

Definition op_domain (op : opid) : str := fst (fst op).

(* ir.traversal.RecursiveGraphIterator: the nodes of a graph and, recursively, of the graphs in their attributes *)
Fixpoint rec_ops (fuel : nat) (m : model) (r : gref) : list opid :=
  match fuel with
  | O => []
  | S f =>
    match get_gref m r with
    | None => []
    | Some g => flat_map (fun n => n_op n :: flat_map (fun sg => rec_ops f m (GSub sg)) (attr_graphs (n_attrs n))) (g_nodes g)
    end
  end.

Definition dom_used (used : list str) (d : str) : bool := existsb (str_eqb d) used.
Definition prune (used : list str) (imp : imports) : imports := filter (fun dv => dom_used used (fst dv)) imp.

(* call(): used_domains = {""} + the domains of all functions + the domains of the nodes of the main graph *)
Definition main_used (fuel : nat) (m : model) : list str :=
  [] :: map (fun fn => op_domain (f_id fn)) (m_funcs m) ++ map op_domain (rec_ops fuel m GMain).
(* _process_graph_like(function, {""}) *)
Definition func_used (fuel : nat) (m : model) (i : nat) : list str := [] :: map op_domain (rec_ops fuel m (GFunc i)).

Definition remove_unused_opsets (fuel : nat) (process_functions : bool) (om : omodel) : omodel :=
  let m := o_model om in
  mkO m (prune (main_used fuel m) (o_imports om))
      (if process_functions
       then map (fun ii => prune (func_used fuel m (fst ii)) (snd ii)) (combine (seq 0 (length (o_fimports om))) (o_fimports om))
       else o_fimports om).

(* the version a domain resolves to in a scope *)
Definition scope_imports (om : omodel) (r : gref) : imports :=
  match r with GFunc i => nth i (o_fimports om) [] | _ => o_imports om end.
Definition resolve_version (om : omodel) (r : gref) (op : opid) : option Z := slookup (scope_imports om r) (op_domain op).

(* comparison used by the structural correspondence *)
Definition imports_eqb (a b : imports) : bool := list_eqb (fun x y => str_eqb (fst x) (fst y) && Z.eqb (snd x) (snd y)) a b.
Definition opsets_agree (a b : omodel) : bool :=
  imports_eqb (o_imports a) (o_imports b) && list_eqb imports_eqb (o_fimports a) (o_fimports b).

(* ---------------------------------------------------------------- proofs *)
Lemma str_eqb_refl' a : str_eqb a a = true.
Proof. unfold str_eqb. induction a as [|x a IH]; simpl; [reflexivity|]. rewrite N.eqb_refl. exact IH. Qed.

Lemma dom_used_In used d : In d used -> dom_used used d = true.
Proof. intros H. unfold dom_used. apply existsb_exists. exists d. split; [exact H | apply str_eqb_refl']. Qed.

Lemma slookup_prune used (imp : imports) d : dom_used used d = true -> slookup (prune used imp) d = slookup imp d.
Proof.
  intros Hd. induction imp as [|[k v] imp IH]; [reflexivity|]. cbn [prune filter fst slookup].
  destruct (str_eqb k d) eqn:E.
  - apply str_eqb_eq in E. subst k. rewrite Hd. cbn [slookup]. rewrite str_eqb_refl'. reflexivity.
  - destruct (dom_used used k); cbn [slookup]; rewrite ?E; exact IH.
Qed.

(* nothing is added and no version changes: the pruned table is a sub-list of the old one *)
Lemma prune_incl used imp dv : In dv (prune used imp) -> In dv imp.
Proof. unfold prune. intros H. apply filter_In in H. tauto. Qed.

Lemma nth_prune_funcs fuel m (fi : list imports) i :
  nth i (map (fun ii => prune (func_used fuel m (fst ii)) (snd ii)) (combine (seq 0 (length fi)) fi)) []
  = prune (func_used fuel m i) (nth i fi []).
Proof.
  assert (G : forall (l : list imports) s i,
             nth i (map (fun ii => prune (func_used fuel m (fst ii)) (snd ii)) (combine (seq s (length l)) l)) []
             = prune (func_used fuel m (s + i)) (nth i l [])).
  { induction l as [|x l IH]; intros s j.
    - destruct j; reflexivity.
    - cbn [length seq combine map]. destruct j as [|j]; cbn [nth].
      + rewrite Nat.add_0_r. reflexivity.
      + rewrite IH. f_equal. f_equal. lia. }
  rewrite G. reflexivity.
Qed.

Theorem remove_unused_opsets_term fuel pf om : o_model (remove_unused_opsets fuel pf om) = o_model om.
Proof. reflexivity. Qed.

(* main scope: every node reachable from the main graph, and every function's domain, resolves as before *)
Theorem remove_unused_opsets_main fuel pf om op :
  In op (rec_ops fuel (o_model om) GMain) \/ (exists fn, In fn (m_funcs (o_model om)) /\ op_domain op = op_domain (f_id fn)) \/ op_domain op = [] ->
  resolve_version (remove_unused_opsets fuel pf om) GMain op = resolve_version om GMain op.
Proof.
  intros H. unfold resolve_version. cbn [scope_imports remove_unused_opsets o_imports]. apply slookup_prune. apply dom_used_In.
  unfold main_used. destruct H as [H|[[fn [Hf E]]|E]].
  - right. apply in_or_app. right. apply in_map. exact H.
  - right. apply in_or_app. left. rewrite E. apply (in_map (fun fn => op_domain (f_id fn))). exact Hf.
  - left. symmetry. exact E.
Qed.

(* function scopes *)
Theorem remove_unused_opsets_func fuel pf om i op :
  In op (rec_ops fuel (o_model om) (GFunc i)) \/ op_domain op = [] ->
  resolve_version (remove_unused_opsets fuel pf om) (GFunc i) op = resolve_version om (GFunc i) op.
Proof.
  intros H. unfold resolve_version. cbn [scope_imports remove_unused_opsets o_fimports]. destruct pf; [|reflexivity].
  rewrite nth_prune_funcs. apply slookup_prune. apply dom_used_In. unfold func_used.
  destruct H as [H|E]; [right; apply in_map; exact H | left; symmetry; exact E].
Qed.

(* and nothing new appears *)
Theorem remove_unused_opsets_incl fuel pf om :
  (forall dv, In dv (o_imports (remove_unused_opsets fuel pf om)) -> In dv (o_imports om))
  /\ length (o_fimports (remove_unused_opsets fuel pf om)) = length (o_fimports om).
Proof.
  split.
  - intros dv. apply prune_incl.
  - cbn [remove_unused_opsets o_fimports]. destruct pf; [|reflexivity]. rewrite map_length, combine_length, seq_length. lia.
Qed.

(* ---------------------------------------------------------------- InlinePass and the opset tables.
   _instantiate_call merges the imports of the inlined function into the MODEL's table: a domain the model does not
   import yet is appended with the function's version; a domain imported with another version raises.  So the nodes
   already in the main graph and the copied body nodes both keep resolving to the version they had. *)
Definition merge_imports (imp fimp : imports) : imports :=
  fold_left (fun acc dv => match slookup acc (fst dv) with Some _ => acc | None => acc ++ [dv] end) fimp imp.
Definition compatible (imp fimp : imports) : Prop :=
  forall d v v', slookup imp d = Some v -> slookup fimp d = Some v' -> v = v'.

Lemma slookup_app' {A} (a b : list (str * A)) k :
  slookup (a ++ b) k = match slookup a k with Some x => Some x | None => slookup b k end.
Proof. induction a as [|[k' x] a IH]; simpl; [reflexivity|]. destruct (str_eqb k' k); [reflexivity | exact IH]. Qed.

Theorem merge_keeps fimp : forall imp d v, slookup imp d = Some v -> slookup (merge_imports imp fimp) d = Some v.
Proof.
  unfold merge_imports. induction fimp as [|dv fimp IH]; intros imp d v H; simpl; [exact H|].
  apply IH. destruct (slookup imp (fst dv)); [exact H|]. rewrite slookup_app', H. reflexivity.
Qed.

Lemma merge_adds_aux fimp : forall imp d v, (slookup imp d = None \/ slookup imp d = Some v) -> slookup fimp d = Some v ->
  slookup (merge_imports imp fimp) d = Some v.
Proof.
  induction fimp as [|[k w] fimp IH]; intros imp d v Hi Hf; [discriminate|].
  cbn [slookup] in Hf. change (merge_imports imp ((k, w) :: fimp))
    with (merge_imports (match slookup imp k with Some _ => imp | None => imp ++ [(k, w)] end) fimp).
  destruct (str_eqb k d) eqn:E.
  - apply str_eqb_eq in E. subst k. inversion Hf; subst w. apply merge_keeps.
    destruct Hi as [Hi|Hi]; rewrite Hi; [|exact Hi]. rewrite slookup_app', Hi. cbn [slookup]. rewrite str_eqb_refl'. reflexivity.
  - apply IH; [|exact Hf].
    destruct (slookup imp k); [exact Hi|]. rewrite slookup_app'. cbn [slookup]. rewrite E.
    destruct Hi as [Hi|Hi]; rewrite Hi; auto.
Qed.

Theorem merge_adds imp fimp d v : compatible imp fimp -> slookup fimp d = Some v -> slookup (merge_imports imp fimp) d = Some v.
Proof.
  intros Hc Hf. apply merge_adds_aux; [|exact Hf].
  destruct (slookup imp d) as [v0|] eqn:E; [right | left; reflexivity]. f_equal. eapply Hc; eauto.
Qed.

(* what the correspondence checks on every InlinePass step (b = before, a = after): the old table is a prefix of the new
   one, every added entry is an import of some function of b (same version), and every node of the main graph of a
   (recursively) has an import for its domain *)
Fixpoint imports_prefixb (x y : imports) : bool :=
  match x, y with
  | [], _ => true
  | p :: x', q :: y' => str_eqb (fst p) (fst q) && Z.eqb (snd p) (snd q) && imports_prefixb x' y'
  | _ :: _, [] => false
  end.
Definition coveredb (fuel : nat) (m : model) (r : gref) (imp : imports) : bool :=
  forallb (fun op => match slookup imp (op_domain op) with Some _ => true | None => false end) (rec_ops fuel m r).
Definition inline_opsets_okb (fuel : nat) (b a : omodel) : bool :=
  imports_prefixb (o_imports b) (o_imports a)
  && forallb (fun dv => existsb (fun fi => match slookup fi (fst dv) with Some v => Z.eqb v (snd dv) | None => false end) (o_fimports b))
             (skipn (length (o_imports b)) (o_imports a))
  && coveredb fuel (o_model a) GMain (o_imports a).

Lemma coveredb_sound fuel m r imp op : coveredb fuel m r imp = true -> In op (rec_ops fuel m r) -> exists v, slookup imp (op_domain op) = Some v.
Proof.
  unfold coveredb. intros H Hin. rewrite forallb_forall in H. specialize (H op Hin).
  destruct (slookup imp (op_domain op)) as [v|]; [exists v; reflexivity | discriminate].
Qed.

(* non-vacuity: a model-level import that no node / function uses is dropped, a used one is kept with its version *)
Module OpsetsExample.
  Definition dA : str := [97]. Definition dB : str := [98].
  Definition n1 : node := mkNode (dA, [82], []) [] [Some 1] [2].
  Definition m : model := mkModel (mkGraph [1] [] [n1] [2]) [] [].
  Definition om : omodel := mkO m [([], 18%Z); (dA, 3%Z); (dB, 1%Z)] [].
  Example ex_prune : o_imports (remove_unused_opsets 8 true om) = [([], 18%Z); (dA, 3%Z)].
  Proof. vm_compute. reflexivity. Qed.
  Example ex_merge : merge_imports [([], 18%Z)] [([], 18%Z); (dA, 3%Z)] = [([], 18%Z); (dA, 3%Z)].
  Proof. vm_compute. reflexivity. Qed.
  Example ex_inline_ok : inline_opsets_okb 8 (mkO (mkModel (mkGraph [1] [] [] [1]) [] []) [([], 18%Z)] [[([], 18%Z); (dA, 3%Z)]])
                                             (mkO m [([], 18%Z); (dA, 3%Z)] []) = true.
  Proof. vm_compute. reflexivity. Qed.
  Example ex_inline_missing : inline_opsets_okb 8 (mkO (mkModel (mkGraph [1] [] [] [1]) [] []) [([], 18%Z)] [[([], 18%Z); (dA, 3%Z)]])
                                                  (mkO m [([], 18%Z)] []) = false.
  Proof. vm_compute. reflexivity. Qed.
  Example ex_resolve : resolve_version (remove_unused_opsets 8 true om) GMain (n_op n1) = Some 3%Z.
  Proof. vm_compute. reflexivity. Qed.
End OpsetsExample.

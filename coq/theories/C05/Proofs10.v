(* C05/Proofs10.v — RemoveUnusedNodesPass (dce) for a GENERAL output schema `sc`:
   the step `update_node k (trim_outputs sc unnamed has_opset m1 gouts) m1` drops trailing unused
   optional / unnamed outputs.  It is not an `rw` step (outputs change): its simulation is built
   directly with VNodeTrim.  The BatchNormalization branch (training_mode popped: recorded defect
   dce_batchnorm_refuted) is excluded by NoBNTraining. *)
From Coq Require Import ZArith NArith List Bool Lia Permutation.
From IRV Require Import Base.Exn Gen.C05Gen C05.Model C05.Proofs C05.Proofs2 C05.Proofs3 C05.Proofs4 C05.Proofs5.
Import ListNotations. Open Scope N_scope.

(* ---------------------------------------------------------------- lists *)
Lemma filter_all_true {A} (p : A -> bool) l : (forall x, In x l -> p x = true) -> filter p l = l.
Proof.
  induction l as [|a l IH]; simpl; intros H; [reflexivity|].
  rewrite (H a (or_introl eq_refl)). rewrite IH; [reflexivity|]. intros x Hx. apply H. right. exact Hx.
Qed.

Lemma forallb_false_ex {A} (p : A -> bool) l : forallb p l = false -> exists x, In x l /\ p x = false.
Proof.
  induction l as [|a l IH]; simpl; intros H; [discriminate|].
  destruct (p a) eqn:Ea.
  - simpl in H. destruct (IH H) as [x [Hx Hp]]. exists x. auto.
  - exists a. auto.
Qed.

Lemma flat_map_flat_map {A B C} (f : B -> list C) (g : A -> list B) l :
  flat_map f (flat_map g l) = flat_map (fun x => flat_map f (g x)) l.
Proof. induction l as [|a l IH]; simpl; [reflexivity|]. rewrite flat_map_app, IH. reflexivity. Qed.

Lemma NoDup_firstn {A} j (l : list A) : NoDup l -> NoDup (firstn j l).
Proof. intros H. rewrite <- (firstn_skipn j l) in H. eapply NoDup_app_l. exact H. Qed.

Lemma In_firstn {A} j (l : list A) x : In x (firstn j l) -> In x l.
Proof. intros H. rewrite <- (firstn_skipn j l). apply in_app_iff. left. exact H. Qed.

Lemma NoDup_flat_map_prefix {A B} (f f' : A -> list B) l :
  (forall x, In x l -> exists j, f' x = firstn j (f x)) -> NoDup (flat_map f l) -> NoDup (flat_map f' l).
Proof.
  induction l as [|a l IH]; simpl; intros Hp Hnd; [constructor|].
  assert (Hincl : forall y, In y (flat_map f' l) -> In y (flat_map f l)).
  { intros y Hy. apply in_flat_map in Hy. destruct Hy as [b [Hb Hy]]. apply in_flat_map. exists b. split; [exact Hb|].
    destruct (Hp b (or_intror Hb)) as [j Hj]. rewrite Hj in Hy. eapply In_firstn. exact Hy. }
  destruct (Hp a (or_introl eq_refl)) as [j Hj].
  apply NoDup_app_intro.
  - rewrite Hj. apply NoDup_firstn. eapply NoDup_app_l. exact Hnd.
  - apply IH; [intros x Hx; apply Hp; right; exact Hx | eapply NoDup_app_remove_l; exact Hnd].
  - intros y Hy1 Hy2. rewrite Hj in Hy1. apply In_firstn in Hy1. apply Hincl in Hy2.
    exact (NoDup_app_disj _ _ y Hnd Hy1 Hy2).
Qed.

Lemma index_of_firstn v l : forall j i, index_of v l = Some i -> In v (firstn j l) ->
  index_of v (firstn j l) = Some i /\ (i < length (firstn j l))%nat.
Proof.
  induction l as [|x l IH]; intros j i E Hin; [discriminate|].
  destruct j as [|j]; [contradiction|]. simpl in *.
  destruct (N.eqb x v) eqn:Ex.
  - injection E as <-. split; [reflexivity | lia].
  - destruct (index_of v l) as [i0|] eqn:E0; [|discriminate]. injection E as <-.
    destruct Hin as [Hin|Hin]; [apply N.eqb_neq in Ex; congruence|].
    destruct (IH j i0 eq_refl Hin) as [E1 Hlt]. rewrite E1. split; [reflexivity | lia].
Qed.

Lemma firstn_head_key j (l : list vid) : firstn j l <> [] ->
  match firstn j l with v :: _ => v | [] => 0 end = match l with v :: _ => v | [] => 0 end.
Proof. destruct j, l; simpl; intros H; congruence. Qed.

(* ---------------------------------------------------------------- drop_trailing *)
Lemma drop_trailing_prefix keep l : exists j, drop_trailing keep l = firstn j l.
Proof.
  induction l as [|x l [j IH]]; [exists O; reflexivity|]. simpl.
  destruct (drop_trailing keep l) as [|y r] eqn:E.
  - destruct (keep x); [exists 1%nat | exists O]; reflexivity.
  - exists (S j). simpl. rewrite <- IH. reflexivity.
Qed.

Lemma drop_trailing_keep keep l x : In x l -> keep x = true -> In x (drop_trailing keep l).
Proof.
  induction l as [|a l IH]; intros Hin Hk; [contradiction|]. simpl.
  destruct Hin as [->|Hin].
  - destruct (drop_trailing keep l); [rewrite Hk|]; left; reflexivity.
  - specialize (IH Hin Hk). destruct (drop_trailing keep l) as [|y r]; [contradiction|]. right. exact IH.
Qed.

(* ---------------------------------------------------------------- producers under an output-shrinking map *)
Lemma find_prod_map_shrink (U : node -> node) ns v n i :
  (forall n0, In n0 ns -> exists j, n_outs (U n0) = firstn j (n_outs n0)) ->
  find_prod ns v = Some (n, i) -> In v (n_outs (U n)) -> find_prod (map U ns) v = Some (U n, i).
Proof.
  induction ns as [|a ns IH]; simpl; intros Hp E Hin; [discriminate|].
  destruct (Hp a (or_introl eq_refl)) as [j Hj].
  destruct (index_of v (n_outs a)) as [i0|] eqn:Ea.
  - injection E as -> ->. rewrite Hj in Hin. destruct (index_of_firstn v _ j i Ea Hin) as [E1 _].
    rewrite Hj, E1. reflexivity.
  - assert (En : index_of v (n_outs (U a)) = None).
    { destruct (index_of v (n_outs (U a))) as [i1|] eqn:E1; [|reflexivity]. exfalso.
      apply index_of_In in E1. rewrite Hj in E1. apply In_firstn in E1. exact (index_of_None _ _ Ea E1). }
    rewrite En. apply IH; auto.
Qed.

(* ---------------------------------------------------------------- liveness of a value *)
Definition Dead (m : model) (v : vid) : Prop :=
  (forall n, In n (all_nodes m) -> ~ In (Some v) (n_ins n)) /\ (forall g, In g (graphs_of m) -> ~ In v (g_outs g)).
Definition Live (m : model) (v : vid) : Prop :=
  (exists n, In n (all_nodes m) /\ In (Some v) (n_ins n)) \/ (exists g, In g (graphs_of m) /\ In v (g_outs g)).

Lemma has_uses_true m v : has_uses m v = true -> exists n, In n (all_nodes m) /\ In (Some v) (n_ins n).
Proof.
  unfold has_uses. intros H. apply existsb_exists in H. destruct H as [n [Hn Hu]]. exists n. split; [exact Hn|].
  unfold node_uses in Hu. apply existsb_exists in Hu. destruct Hu as [[w|] [Hw E]]; [|discriminate].
  apply N.eqb_eq in E. subst w. exact Hw.
Qed.
Lemma is_graph_output_true m v : is_graph_output m v = true -> exists g, In g (graphs_of m) /\ In v (g_outs g).
Proof.
  unfold is_graph_output. intros H. apply existsb_exists in H. destruct H as [g [Hg Hv]]. exists g. split; [exact Hg|].
  apply memN_In. exact Hv.
Qed.
Lemma Dead_of_bools m v : has_uses m v = false -> is_graph_output m v = false -> Dead m v.
Proof. intros A B. split; [apply has_uses_false; exact A | apply is_graph_output_false; exact B]. Qed.
Lemma Dead_not_Live m v : Dead m v -> Live m v -> False.
Proof. intros [A B] [[n [Hn Hu]]|[g [Hg Ho]]]; [exact (A n Hn Hu) | exact (B g Hg Ho)]. Qed.

(* ---------------------------------------------------------------- structural "shrinks" relation *)
(* m' is obtained from m by removing nodes, removing inputs/outputs of nodes, changing initializer
   tables: graph outputs, operators, attributes and keys of the remaining nodes are unchanged *)
Record NR (n n' : node) : Prop := {
  nr_op' : n_op n' = n_op n;
  nr_attrs' : n_attrs n' = n_attrs n;
  nr_key : node_key n' = node_key n;
  nr_outs : forall x, In x (n_outs n') -> In x (n_outs n);
  nr_uses : forall w, In (Some w) (n_ins n') -> In (Some w) (n_ins n) }.
Definition GR (g g' : graph) : Prop :=
  g_outs g' = g_outs g /\ forall n', In n' (g_nodes g') -> exists n, In n (g_nodes g) /\ NR n n'.
Record Shr (m m' : model) : Prop := {
  shr_graphs : forall g', In g' (graphs_of m') -> exists g, In g (graphs_of m) /\ GR g g';
  shr_funcs : forall op, find_func (m_funcs m) op = None -> find_func (m_funcs m') op = None }.

Lemma NR_refl n : NR n n.
Proof. constructor; auto. Qed.
Lemma NR_trans a b c : NR a b -> NR b c -> NR a c.
Proof. intros [a1 a2 a3 a4 a5] [b1 b2 b3 b4 b5]. constructor; try congruence; auto. Qed.
Lemma GR_refl g : GR g g.
Proof. split; [reflexivity|]. intros n Hn. exists n. split; [exact Hn | apply NR_refl]. Qed.
Lemma Shr_refl m : Shr m m.
Proof. constructor; [|auto]. intros g Hg. exists g. split; [exact Hg | apply GR_refl]. Qed.
Lemma Shr_trans a b c : Shr a b -> Shr b c -> Shr a c.
Proof.
  intros [G1 F1] [G2 F2]. constructor; [|auto].
  intros g'' Hg''. destruct (G2 g'' Hg'') as [g' [Hg' [Ho2 Hn2]]]. destruct (G1 g' Hg') as [g [Hg [Ho1 Hn1]]].
  exists g. split; [exact Hg|]. split; [congruence|].
  intros n'' Hn''. destruct (Hn2 n'' Hn'') as [n' [Hn' R2]]. destruct (Hn1 n' Hn') as [n [Hn R1]].
  exists n. split; [exact Hn | eapply NR_trans; eauto].
Qed.

Lemma Shr_node m m' n' : Shr m m' -> In n' (all_nodes m') ->
  exists g' g n, In g' (graphs_of m') /\ In n' (g_nodes g') /\ In g (graphs_of m) /\ g_outs g' = g_outs g /\ In n (g_nodes g) /\ NR n n'.
Proof.
  intros HS Hn'. unfold all_nodes in Hn'. apply in_flat_map in Hn'. destruct Hn' as [g' [Hg' Hn']].
  destruct (shr_graphs _ _ HS g' Hg') as [g [Hg [Ho Hns]]]. destruct (Hns n' Hn') as [n [Hn R]].
  exists g', g, n. auto 10.
Qed.
Lemma in_all_nodes m g n : In g (graphs_of m) -> In n (g_nodes g) -> In n (all_nodes m).
Proof. intros Hg Hn. unfold all_nodes. apply in_flat_map. eauto. Qed.

Lemma Shr_mk2 F1 F2 m :
  (forall g, In g (graphs_of m) -> GR g (F1 g)) -> (forall g, In g (graphs_of m) -> GR g (F2 g)) -> Shr m (mk2 F1 F2 m).
Proof.
  intros H1 H2. constructor.
  - intros g' Hg'. unfold graphs_of, mk2 in Hg'. simpl in Hg'. rewrite !map_map in Hg'. simpl in Hg'.
    destruct Hg' as [<-|Hg'].
    + exists (m_main m). split; [left; reflexivity | apply H1; left; reflexivity].
    + apply in_app_iff in Hg'. destruct Hg' as [Hg'|Hg']; apply in_map_iff in Hg'; destruct Hg' as [x [<- Hx]].
      * assert (Hin : In (snd x) (graphs_of m)) by (right; apply in_app_iff; left; apply in_map; exact Hx).
        exists (snd x). split; [exact Hin | apply H2; exact Hin].
      * assert (Hin : In (f_body x) (graphs_of m)) by (right; apply in_app_iff; right; apply in_map; exact Hx).
        exists (f_body x). split; [exact Hin | apply H2; exact Hin].
  - intros op E. unfold mk2. simpl. rewrite find_func_map, E. reflexivity.
Qed.

Lemma NR_tr tr n : tr_ok tr -> NR n (tr n).
Proof.
  intros Htr. destruct (Htr n) as [Ho [Ha [Hou [c [k [k' [Hc Hc']]]]]]]. constructor; auto.
  - unfold node_key. rewrite Hou. reflexivity.
  - intros x. rewrite Hou. auto.
  - intros w. rewrite Hc, Hc'. rewrite !in_app_iff. intros [H|H]; [left; exact H|].
    apply repeat_spec in H. discriminate.
Qed.
Lemma Shr_rw_id tr p inits m : tr_ok tr -> Shr m (rw tr (fun v => v) p inits m).
Proof.
  intros Htr. unfold rw. apply Shr_mk2; intros g _; (split; [simpl; apply map_id|]); simpl;
    intros n' Hn'; apply in_map_iff in Hn'; destruct Hn' as [n [<- Hn]]; apply filter_In in Hn;
    exists n; (split; [tauto|]); rewrite subst_ins_id; apply NR_tr; exact Htr.
Qed.

(* ---------------------------------------------------------------- side conditions carried along the DCE loop *)
Definition NoBNTraining (m : model) : Prop :=
  forall n, In n (all_nodes m) -> str_eqb (snd (fst (n_op n))) STR_BatchNormalization = true ->
            forall ka, In ka (n_attrs n) -> str_eqb (fst ka) STR_training_mode = false.
(* a value produced by a node of graph g is an output of no other graph (unless also of g) *)
Definition OL (m : model) : Prop :=
  forall g n x g2, In g (graphs_of m) -> In n (g_nodes g) -> In x (n_outs n) -> In g2 (graphs_of m) -> In x (g_outs g2) -> In x (g_outs g).
(* unnamed values (the empty name denotes an omitted value) are neither used nor graph outputs *)
Definition UnnamedDead (unnamed : list vid) (m : model) : Prop := forall v, In v unnamed -> Dead m v.
(* the outputs of the nodes whose key is in `keys` can only be outputs of the graph being processed *)
Definition QK (gouts : list vid) (keys : list vid) (m : model) : Prop :=
  forall n x g, In n (all_nodes m) -> In (node_key n) keys -> In x (n_outs n) -> In g (graphs_of m) -> In x (g_outs g) -> In x gouts.

Lemma Shr_Dead m m' v : Shr m m' -> Dead m v -> Dead m' v.
Proof.
  intros HS [A B]. split.
  - intros n' Hn' Hu. destruct (Shr_node _ _ _ HS Hn') as [g' [g [n [_ [_ [Hg [_ [Hn R]]]]]]]].
    apply (A n (in_all_nodes _ _ _ Hg Hn)). apply (nr_uses _ _ R). exact Hu.
  - intros g' Hg' Ho. destruct (shr_graphs _ _ HS g' Hg') as [g [Hg [Eo _]]]. rewrite Eo in Ho. exact (B g Hg Ho).
Qed.
Lemma Shr_NoBN m m' : Shr m m' -> NoBNTraining m -> NoBNTraining m'.
Proof.
  intros HS H n' Hn' Hbn ka Hka. destruct (Shr_node _ _ _ HS Hn') as [g' [g [n [_ [_ [Hg [_ [Hn R]]]]]]]].
  rewrite (nr_op' _ _ R) in Hbn. rewrite (nr_attrs' _ _ R) in Hka. exact (H n (in_all_nodes _ _ _ Hg Hn) Hbn ka Hka).
Qed.
Lemma Shr_OL m m' : Shr m m' -> OL m -> OL m'.
Proof.
  intros HS H g' n' x g2' Hg' Hn' Hx Hg2' Hx2.
  destruct (shr_graphs _ _ HS g' Hg') as [g [Hg [Eo Hns]]]. destruct (Hns n' Hn') as [n [Hn R]].
  destruct (shr_graphs _ _ HS g2' Hg2') as [g2 [Hg2 [Eo2 _]]].
  rewrite Eo. rewrite Eo2 in Hx2. apply (H g n x g2); auto. apply (nr_outs _ _ R). exact Hx.
Qed.
Lemma Shr_QK gouts keys m m' : Shr m m' -> QK gouts keys m -> QK gouts keys m'.
Proof.
  intros HS H n' x g2' Hn' Hk Hx Hg2' Hx2.
  destruct (Shr_node _ _ _ HS Hn') as [g' [g [n [_ [_ [Hg [_ [Hn R]]]]]]]].
  destruct (shr_graphs _ _ HS g2' Hg2') as [g2 [Hg2 [Eo2 _]]]. rewrite Eo2 in Hx2.
  apply (H n x g2); auto.
  - exact (in_all_nodes _ _ _ Hg Hn).
  - rewrite <- (nr_key _ _ R). exact Hk.
  - apply (nr_outs _ _ R). exact Hx.
Qed.
Lemma QK_tail gouts k keys m : QK gouts (k :: keys) m -> QK gouts keys m.
Proof. intros H n x g Hn Hk. apply H; [exact Hn | right; exact Hk]. Qed.

Lemma key_unique m k a b : WF m -> In a (all_nodes m) -> In b (all_nodes m) -> has_key k a = true -> has_key k b = true -> a = b.
Proof.
  intros HW Ha Hb Ka Kb. apply (producer_unique m a b k HW Ha Hb).
  - apply has_key_first; [exact Ka | apply (wf_nonempty m HW); exact Ha].
  - apply has_key_first; [exact Kb | apply (wf_nonempty m HW); exact Hb].
Qed.

Lemma QK_entry m r g0 : WF m -> OL m -> get_gref m r = Some g0 -> QK (g_outs g0) (rev (map node_key (g_nodes g0))) m.
Proof.
  intros HW HO Eg n x g Hn Hk Hx Hg Hxg. apply get_gref_In in Eg.
  apply in_rev in Hk. apply in_map_iff in Hk. destruct Hk as [n0 [Ek Hn0]].
  assert (n0 = n).
  { apply (key_unique m (node_key n) n0 n HW); [exact (in_all_nodes _ _ _ Eg Hn0) | exact Hn | |]; unfold has_key.
    - rewrite Ek. apply N.eqb_refl.
    - apply N.eqb_refl. }
  subst n0. exact (HO g0 n x g Eg Hn0 Hx Hg Hxg).
Qed.

(* the ONNX-checker notion (outputs_localb) implies OL on well-formed models *)
Lemma outputs_localb_OL m : WF m -> outputs_localb m = true -> OL m.
Proof.
  intros HW Hl g n x g2 Hg Hn Hx Hg2 Hx2.
  unfold outputs_localb in Hl. rewrite forallb_forall in Hl. specialize (Hl g2 Hg2). rewrite forallb_forall in Hl.
  specialize (Hl x Hx2). unfold defined_in in Hl.
  assert (Hall : In x (all_outs m)).
  { unfold all_outs. apply in_flat_map. exists n. split; [exact (in_all_nodes _ _ _ Hg Hn) | exact Hx]. }
  apply orb_prop in Hl. destruct Hl as [Hl|Hl]; [apply orb_prop in Hl; destruct Hl as [Hl|Hl]|]; apply memN_In in Hl.
  - exfalso. apply (wf_formal m HW x); [|exact Hall]. unfold all_formals. apply in_flat_map. exists g2. auto.
  - exfalso. apply (wf_init_prod m HW x); [|exact Hall]. unfold all_inits. rewrite map_flat_map. apply in_flat_map. exists g2. auto.
  - apply in_flat_map in Hl. destruct Hl as [n2 [Hn2 Hx2']].
    assert (n2 = n) by (apply (producer_unique m n2 n x HW); auto; [exact (in_all_nodes _ _ _ Hg2 Hn2) | exact (in_all_nodes _ _ _ Hg Hn)]). subst n2.
    assert (Eg : g2 = g).
    { pose proof (wf_outs m HW) as Hnd. unfold all_outs, all_nodes in Hnd. rewrite flat_map_flat_map in Hnd.
      destruct (NoDup_flat_map_same (fun g => flat_map n_outs (g_nodes g)) (graphs_of m) g2 g x Hnd Hg2 Hg) as [E|[]]; auto;
        apply in_flat_map; exists n; auto. }
    subst g2. exact Hx2.
Qed.

Lemma map_option_id (l : list (option vid)) : map (option_map (fun v : vid => v)) l = l.
Proof. rewrite <- (map_id l) at 2. apply map_ext. intros [v|]; reflexivity. Qed.

Lemma trim_nodes_outs k m n1 : In n1 (all_nodes (update_node k trim_node m)) -> exists n, In n (all_nodes m) /\ n_outs n1 = n_outs n.
Proof.
  rewrite update_trim_eq, all_nodes_rw, filter_true. intros H. apply in_map_iff in H. destruct H as [n [<- Hn]].
  exists n. split; [exact Hn|]. rewrite subst_ins_id. destruct (tr_ok_trim k n) as [_ [_ [Ho _]]]. exact Ho.
Qed.
Lemma Live_trim k m o : Live m o -> Live (update_node k trim_node m) o.
Proof.
  rewrite update_trim_eq. intros [[n [Hn Hu]]|[g [Hg Ho]]].
  - left. exists (trim_at k n). split.
    + rewrite all_nodes_rw, filter_true. apply in_map_iff. exists n. rewrite subst_ins_id. auto.
    + destruct (tr_ok_trim k n) as [_ [_ [_ [c [j [j' [Hc Hc']]]]]]]. rewrite Hc'. rewrite Hc in Hu.
      rewrite in_app_iff in *. destruct Hu as [Hu|Hu]; [left; exact Hu|]. apply repeat_spec in Hu. discriminate.
  - right. exists (rw_graph (trim_at k) (fun v => v) (fun _ => true) g_inits g). split.
    + rewrite rw_map_graphs, graphs_of_map_graphs. apply in_map. exact Hg.
    + simpl. rewrite map_id. exact Ho.
Qed.

Section Schema.
  Variable T : Type.
  Variable absent : T.
  Variable tensor_val : tensor -> T.
  Variable interp : opid -> list (str * attr) -> list (subfn T) -> list T -> nat -> option (list T).
  Hypothesis interp_mono : forall op attrs subs subs' ins k r,
      Forall2 (sub_le T) subs subs' -> interp op attrs subs ins k = Some r -> interp op attrs subs' ins k = Some r.
  Hypothesis interp_identity : forall op attrs subs x,
      is_identity_op op = true -> interp op attrs subs [x] 1%nat = Some [x].
  Hypothesis interp_trailing_absent : forall op attrs subs ins k,
      interp op attrs subs (ins ++ [absent]) k = interp op attrs subs ins k.

  Variable sc : schema.
  (* operators that have a schema entry compute their leading outputs independently of how many
     trailing outputs are requested (at least one output is always requested) *)
  Hypothesis interp_fewer_outputs : forall op attrs subs ins k k' outs,
      opt_flags sc op <> None -> (0 < k')%nat -> (k' <= k)%nat ->
      interp op attrs subs ins k = Some outs ->
      exists outs', interp op attrs subs ins k' = Some outs' /\ forall j, (j < k')%nat -> nth_error outs' j = nth_error outs j.

  Notation Pres := (Pres T absent tensor_val interp).

  Definition FewerOK (op : opid) (k k' : nat) : Prop :=
    forall attrs subs ins outs, interp op attrs subs ins k = Some outs ->
      exists outs', interp op attrs subs ins k' = Some outs' /\ forall j, (j < k')%nat -> nth_error outs' j = nth_error outs j.

  (* n' is n, or n with dead trailing outputs dropped *)
  Definition shrink_ok (m : model) (n n' : node) : Prop :=
    n' = n \/
    (n_op n' = n_op n /\ n_attrs n' = n_attrs n /\ n_ins n' = n_ins n /\ (exists j, n_outs n' = firstn j (n_outs n))
     /\ n_outs n' <> [] /\ find_func (m_funcs m) (n_op n) = None
     /\ FewerOK (n_op n) (length (n_outs n)) (length (n_outs n'))
     /\ forall x, In x (n_outs n) -> ~ In x (n_outs n') -> Dead m x).

  Lemma so_prefix m n n' : shrink_ok m n n' -> exists j, n_outs n' = firstn j (n_outs n).
  Proof. intros [->|[_ [_ [_ [H _]]]]]; [exists (length (n_outs n)); symmetry; apply firstn_all | exact H]. Qed.
  Lemma so_nonempty m n n' : shrink_ok m n n' -> n_outs n <> [] -> n_outs n' <> [].
  Proof. intros [->|[_ [_ [_ [_ [H _]]]]]] Hne; [exact Hne | exact H]. Qed.
  Lemma so_dead m n n' x : shrink_ok m n n' -> In x (n_outs n) -> ~ In x (n_outs n') -> Dead m x.
  Proof. intros [->|[_ [_ [_ [_ [_ [_ [_ H]]]]]]]] Hx Hnx; [contradiction | apply H; assumption]. Qed.
  Lemma so_NR m n n' : shrink_ok m n n' -> NR n n'.
  Proof.
    intros [->|[Hop [Hat [Hins [[j Hj] [Hne _]]]]]]; [apply NR_refl|]. constructor; auto.
    - unfold node_key. rewrite Hj in Hne |- *. apply firstn_head_key. exact Hne.
    - intros x Hx. rewrite Hj in Hx. eapply In_firstn. exact Hx.
    - intros w. rewrite Hins. auto.
  Qed.

  Definition PS (m m' : model) : Prop := Pres m m' /\ frame m' = frame m /\ Shr m m'.

  Lemma shrink_pres m U : WF m -> NoOpFunc m -> (forall n, In n (all_nodes m) -> shrink_ok m n (U n)) ->
    PS m (map_graphs (map_nodes U) m).
  Proof.
    intros HW HN HU. set (m' := map_graphs (map_nodes U) m).
    assert (Hnodes : all_nodes m' = map U (all_nodes m)).
    { unfold all_nodes, m'. rewrite graphs_of_map_graphs, flat_map_map, map_flat_map. reflexivity. }
    assert (Hinits : all_inits m' = all_inits m).
    { unfold all_inits, m'. rewrite graphs_of_map_graphs, flat_map_map. reflexivity. }
    assert (Hformals : all_formals m' = all_formals m).
    { unfold all_formals, m'. rewrite graphs_of_map_graphs, flat_map_map. reflexivity. }
    set (Kept := fun v : vid => forall n, In n (all_nodes m) -> In v (n_outs n) -> In v (n_outs (U n))).
    assert (live_kept : forall v, Live m v -> Kept v).
    { intros v HL n Hn Hv. destruct (in_dec N.eq_dec v (n_outs (U n))) as [Hin|Hno]; [exact Hin|]. exfalso.
      apply (Dead_not_Live m v); [|exact HL]. eapply so_dead; [apply HU; exact Hn | exact Hv | exact Hno]. }
    assert (Hsub : forall g gr, alookup (m_subs m) g = Some gr -> In gr (graphs_of m)).
    { intros g gr Eg. apply alookup_In in Eg. right. apply in_app_iff. left. apply in_map_iff. exists (g, gr). auto. }
    assert (Hfun : forall op fn, find_func (m_funcs m) op = Some fn -> In (f_body fn) (graphs_of m)).
    { intros op fn Ef. apply find_func_In in Ef. right. apply in_app_iff. right. apply in_map. exact Ef. }
    assert (HS : Sim T tensor_val interp Kept (formal_of m) (fun v => v) (sem_of m) (sem_of m')).
    { constructor.
      - reflexivity.
      - intros v HK. simpl.
        destruct (alookup (all_inits m) v) as [t|] eqn:Ei.
        + eapply VInit; simpl; [exact Ei | rewrite Hinits; exact Ei | left; reflexivity].
        + destruct (find_prod (all_nodes m) v) as [[n i]|] eqn:Ep; [|apply VNone; simpl; assumption].
          destruct (find_prod_In _ _ _ _ Ep) as [Hn Hidx]. apply index_of_In in Hidx as Hv.
          assert (Hkept : In v (n_outs (U n))) by (apply HK; assumption).
          assert (Ep' : find_prod (all_nodes m') v = Some (U n, i)).
          { rewrite Hnodes. apply find_prod_map_shrink; auto. intros n0 Hn0. apply (so_prefix m). apply HU. exact Hn0. }
          assert (Hclosed : forall w, In (Some w) (n_ins n) -> Kept w).
          { intros w Hw. apply live_kept. left. exists n. auto. }
          destruct (HU n Hn) as [Eq | [Hop [Hat [Hins [[j Hj] [Hne [Hfn [Hfew Hdead]]]]]]]].
          * eapply VNode with (n := n) (i := i) (n' := U n); simpl; auto.
            -- rewrite Hinits. exact Ei.
            -- rewrite Eq. constructor; auto. exists (n_ins n), O, O. simpl. rewrite app_nil_r, map_option_id. auto.
          * eapply VNodeTrim with (n := n) (i := i) (n' := U n); simpl; auto.
            -- rewrite Hinits. exact Ei.
            -- exists (n_ins n), O, O. simpl. rewrite app_nil_r, map_option_id, Hins. auto.
            -- rewrite Hj in Hkept |- *. exact (proj2 (index_of_firstn v _ j i Hidx Hkept)).
      - intros g gr Eg. simpl in *. unfold m', map_graphs. simpl. rewrite alookup_map_snd, Eg. simpl.
        eexists. split; [reflexivity|]. simpl. split; [reflexivity | symmetry; apply map_id].
      - intros g gr Eg. simpl in Eg. split; [eapply formal_sub; eauto|]. apply Forall_forall. intros o Ho.
        apply live_kept. right. exists gr. split; [eapply Hsub; eauto | exact Ho].
      - intros op fn Ef. simpl in *. unfold m', map_graphs. simpl. rewrite find_func_map, Ef. simpl.
        eexists. split; [reflexivity|]. simpl. repeat split. symmetry. apply map_id.
      - intros op Ef. simpl in *. unfold m', map_graphs. simpl. rewrite find_func_map, Ef. reflexivity.
      - intros op fn Ef. simpl in Ef. split; [eapply formal_func; eauto|]. apply Forall_forall. intros o Ho.
        apply live_kept. right. exists (f_body fn). split; [eapply Hfun; eauto | exact Ho]. }
    assert (Hincl : forall v, In v (all_outs m') -> In v (all_outs m)).
    { intros v Hv. unfold all_outs in *. rewrite Hnodes, flat_map_map in Hv. apply in_flat_map in Hv. destruct Hv as [n [Hn Hv]].
      apply in_flat_map. exists n. split; [exact Hn|]. destruct (so_prefix m n (U n) (HU n Hn)) as [j Hj]. rewrite Hj in Hv.
      eapply In_firstn. exact Hv. }
    split; [|split].
    - constructor.
      + constructor.
        * unfold all_outs. rewrite Hnodes, flat_map_map.
          apply (NoDup_flat_map_prefix n_outs (fun n => n_outs (U n))); [|apply (wf_outs m HW)].
          intros n Hn. apply (so_prefix m). apply HU. exact Hn.
        * intros v Hv Ho. rewrite Hformals in Hv. exact (wf_formal m HW v Hv (Hincl v Ho)).
        * intros v Hv Ho. rewrite Hinits in Hv. exact (wf_init_prod m HW v Hv (Hincl v Ho)).
        * intros n' Hn'. rewrite Hnodes in Hn'. apply in_map_iff in Hn'. destruct Hn' as [n [<- Hn]].
          apply (so_nonempty m n); [apply HU; exact Hn | apply (wf_nonempty m HW); exact Hn].
        * rewrite Hinits. apply (wf_inits_nodup m HW).
      + intros op Hop. unfold m', map_graphs. simpl. rewrite find_func_map, (HN op Hop). reflexivity.
      + exact Hformals.
      + intros env r He [f E]. exists f. unfold den_list in *.
        change (g_outs (m_main m')) with (g_outs (m_main m)).
        eapply map_opt_impl; [|exact E]. intros x y Hx Hy.
        apply (sim_refines T absent tensor_val interp interp_mono interp_identity interp_trailing_absent
                           Kept (formal_of m) (fun v => v) (sem_of m) (sem_of m') HS f [] env x y He); [|exact Hy].
        apply live_kept. right. exists (m_main m). split; [left; reflexivity | exact Hx].
      + reflexivity.
      + reflexivity.
    - unfold frame, m', map_graphs. simpl. f_equal. rewrite !map_map, !flat_map_app, !flat_map_map. reflexivity.
    - change (Shr m (mk2 (map_nodes U) (map_nodes U) m)).
      apply Shr_mk2; intros g Hg; (split; [reflexivity|]); simpl; intros n' Hn'; apply in_map_iff in Hn';
        destruct Hn' as [n [<- Hn]]; exists n; (split; [exact Hn|]); apply (so_NR m); apply HU;
        exact (in_all_nodes _ _ _ Hg Hn).
  Qed.

  (* ------------------------------------------------------------ the output-trimming step *)
  (* a node whose outputs may be trimmed is not a call of a model-local function *)
  Definition NoFuncOp (m : model) : Prop :=
    forall n, In n (all_nodes m) -> opt_flags sc (n_op n) <> None -> find_func (m_funcs m) (n_op n) = None.
  Lemma Shr_NoFuncOp m m' : Shr m m' -> NoFuncOp m -> NoFuncOp m'.
  Proof.
    intros HS H n' Hn' Hfl. destruct (Shr_node _ _ _ HS Hn') as [g' [g [n [_ [_ [Hg [_ [Hn R]]]]]]]].
    rewrite (nr_op' _ _ R) in *. apply (shr_funcs _ _ HS). apply H; [exact (in_all_nodes _ _ _ Hg Hn) | exact Hfl].
  Qed.

  Lemma trim_outputs_cases u ho m1 gouts n :
    (str_eqb (snd (fst (n_op n))) STR_BatchNormalization = true ->
     forall ka, In ka (n_attrs n) -> str_eqb (fst ka) STR_training_mode = false) ->
    trim_outputs sc u ho m1 gouts n = n \/
    (opt_flags sc (n_op n) <> None /\
     exists keep, trim_outputs sc u ho m1 gouts n = mkNode (n_op n) (n_attrs n) (n_ins n) (drop_trailing keep (n_outs n)) /\
       forall x, In x (n_outs n) -> keep x = false -> (memN x gouts = false /\ has_uses m1 x = false) \/ In x u).
  Proof.
    intros HBN. unfold trim_outputs. destruct (negb ho); [left; reflexivity|].
    destruct (opt_flags sc (n_op n)) as [flags|] eqn:Ef; [|left; reflexivity].
    destruct (str_eqb (snd (fst (n_op n))) STR_BatchNormalization) eqn:Ebn.
    - left. match goal with |- (if ?c then _ else _) = _ => destruct c end; [reflexivity|].
      rewrite filter_all_true; [destruct n; reflexivity|].
      intros ka Hka. rewrite (HBN eq_refl ka Hka). reflexivity.
    - destruct flags as [|fl flags]; [left; reflexivity|]. right. split; [congruence|].
      eexists. split; [reflexivity|]. intros x Hx Hk. cbv beta in Hk.
      apply andb_false_iff in Hk. destruct Hk as [Hk|Hk]; apply negb_false_iff in Hk; apply memN_In in Hk.
      + left. apply in_map_iff in Hk. destruct Hk as [[y i] [Ey Hy]]. simpl in Ey. subst y.
        apply filter_In in Hy. destruct Hy as [_ Hy]. simpl in Hy. apply andb_prop in Hy. destruct Hy as [Hy _].
        apply negb_true_iff in Hy. apply orb_false_iff in Hy. exact Hy.
      + right. exact Hk.
  Qed.

  Lemma trim_outputs_step u ho m1 gouts k :
    WF m1 -> NoOpFunc m1 -> NoBNTraining m1 -> NoFuncOp m1 -> UnnamedDead u m1 -> QK gouts [k] m1 ->
    (forall n, In n (all_nodes m1) -> has_key k n = true -> exists o, In o (n_outs n) /\ Live m1 o) ->
    PS m1 (update_node k (trim_outputs sc u ho m1 gouts) m1).
  Proof.
    intros HW HN HBN HNF HUD HQ Hlive. unfold update_node. apply shrink_pres; auto.
    intros n Hn. destruct (has_key k n) eqn:Hk; [|left; reflexivity].
    destruct (trim_outputs_cases u ho m1 gouts n (HBN n Hn)) as [E | [Hfl [keep [E Hkeep]]]]; [left; exact E|].
    right. rewrite E. simpl.
    destruct (drop_trailing_prefix keep (n_outs n)) as [j Hj].
    assert (Hdead : forall x, In x (n_outs n) -> ~ In x (drop_trailing keep (n_outs n)) -> Dead m1 x).
    { intros x Hx Hnx. destruct (keep x) eqn:Ekx; [exfalso; apply Hnx; apply drop_trailing_keep; assumption|].
      destruct (Hkeep x Hx Ekx) as [[Hg Hu]|Hun]; [|apply HUD; exact Hun].
      split; [apply has_uses_false; exact Hu|]. intros g Hg0 Hxg. apply memN_false in Hg. apply Hg.
      apply (HQ n x g); auto. left. unfold has_key in Hk. apply N.eqb_eq in Hk. symmetry. exact Hk. }
    assert (Hne : drop_trailing keep (n_outs n) <> []).
    { destruct (Hlive n Hn Hk) as [o [Ho HL]]. intros Enil. apply (Dead_not_Live m1 o); [|exact HL].
      apply Hdead; [exact Ho | rewrite Enil; intros []]. }
    split; [reflexivity|]. split; [reflexivity|]. split; [reflexivity|]. split; [exists j; exact Hj|].
    split; [exact Hne|]. split; [apply HNF; assumption|]. split; [|exact Hdead].
    intros attrs subs ins outs Ei. apply (interp_fewer_outputs _ _ _ _ (length (n_outs n))); auto.
    - destruct (drop_trailing keep (n_outs n)); [congruence | simpl; lia].
    - rewrite Hj, firstn_length. lia.
  Qed.

  (* ------------------------------------------------------------ the invariant of the DCE loops *)
  Record Inv (u : list vid) (m : model) : Prop := {
    inv_wf : WF m; inv_nf : NoOpFunc m; inv_bn : NoBNTraining m; inv_fo : NoFuncOp m; inv_ol : OL m; inv_ud : UnnamedDead u m }.

  Lemma Inv_step u m m' : Inv u m -> Pres m m' -> Shr m m' -> Inv u m'.
  Proof.
    intros [a b c d e f] P HS. destruct P as [HW HN _ _ _ _]. constructor; auto.
    - eapply Shr_NoBN; eauto.
    - eapply Shr_NoFuncOp; eauto.
    - eapply Shr_OL; eauto.
    - intros v Hv. eapply Shr_Dead; eauto.
  Qed.
  Lemma Inv_PS u m m' : Inv u m -> PS m m' -> Inv u m'.
  Proof. intros HI [P [_ HS]]. eapply Inv_step; eauto. Qed.
  Lemma PS_refl m : WF m -> NoOpFunc m -> PS m m.
  Proof. intros. split; [apply Pres_refl; assumption | split; [reflexivity | apply Shr_refl]]. Qed.
  Lemma PS_trans a b c : PS a b -> PS b c -> PS a c.
  Proof.
    intros [P1 [F1 S1]] [P2 [F2 S2]]. split; [eapply Pres_trans; eauto | split; [congruence | eapply Shr_trans; eauto]].
  Qed.
  Lemma PS_fold {A} u (step : model -> A -> model) l :
    (forall m a, Inv u m -> PS m (step m a)) -> forall m, Inv u m -> PS m (fold_left step l m).
  Proof.
    intros Hs. induction l as [|a l IH]; intros m HI; simpl; [apply PS_refl; apply HI|].
    eapply PS_trans; [apply Hs; exact HI|]. apply IH. eapply Inv_PS; [exact HI | apply Hs; exact HI].
  Qed.

  Lemma PS_rw_id tr p m : WF m -> tr_ok tr ->
    Pres m (rw tr (fun v => v) p (fun _ => g_inits) m) -> PS m (rw tr (fun v => v) p (fun _ => g_inits) m).
  Proof. intros HW Htr P. split; [exact P | split; [apply frame_rw_id | apply Shr_rw_id; exact Htr]]. Qed.

  Lemma dce_graph_schema u ops : forall fuel r m, Inv u m -> PS m (dce_graph sc u ops fuel r m).
  Proof.
    induction fuel as [|f IHf]; intros r m HI; simpl; [apply PS_refl; apply HI|].
    destruct (get_gref m r) as [g0|] eqn:Eg0; [|apply PS_refl; apply HI].
    pose proof (QK_entry m r g0 (inv_wf u m HI) (inv_ol u m HI) Eg0) as HQ. clear Eg0.
    revert HQ. generalize (rev (map node_key (g_nodes g0))) as keys. intros keys. revert m HI.
    induction keys as [|k rest IHk]; intros m HI HQ; [apply PS_refl; apply HI|].
    destruct (get_node m k) as [n|] eqn:Eg; [|apply IHk; [exact HI | eapply QK_tail; exact HQ]].
    destruct (forallb _ (n_outs n)) eqn:Edead.
    - assert (P : PS m (remove_node k m)).
      { rewrite remove_eq. apply PS_rw_id; [apply HI | apply tr_ok_id|]. rewrite <- remove_eq.
        eapply (dead_step T absent tensor_val interp interp_mono interp_identity interp_trailing_absent); eauto; apply HI. }
      eapply PS_trans; [exact P|].
      apply IHk; [eapply Inv_PS; eauto | eapply Shr_QK; [apply P | eapply QK_tail; exact HQ]].
    - set (m1 := update_node k trim_node m).
      assert (P1 : PS m m1).
      { unfold m1. rewrite update_trim_eq. apply PS_rw_id; [apply HI | apply tr_ok_trim|]. rewrite <- update_trim_eq.
        apply (trim_step T absent tensor_val interp interp_mono interp_identity interp_trailing_absent); apply HI. }
      assert (I1 : Inv u m1) by (eapply Inv_PS; eauto).
      assert (Q1 : QK (g_outs g0) (k :: rest) m1) by (eapply Shr_QK; [apply P1 | exact HQ]).
      set (F := trim_outputs sc u (existsb (gref_eqb r) ops) m1 (g_outs g0)).
      assert (P2 : PS m1 (update_node k F m1)).
      { apply trim_outputs_step; try apply I1.
        - intros n0 x g Hn0 [Hk|[]] Hx Hg Hxg. apply (Q1 n0 x g); auto. left. exact Hk.
        - intros n1 Hn1 Hk1. destruct (get_node_spec _ _ _ Eg) as [Hn Hk].
          destruct (trim_nodes_outs k m n1 Hn1) as [n' [Hn' Eo]].
          assert (Hk' : has_key k n' = true) by (unfold has_key, node_key in *; rewrite <- Eo; exact Hk1).
          assert (n' = n) by (eapply key_unique; eauto; apply HI). subst n'.
          destruct (forallb_false_ex _ _ Edead) as [o [Ho Hp]]. exists o. split; [rewrite Eo; exact Ho|].
          apply Live_trim. apply andb_false_iff in Hp. destruct Hp as [Hp|Hp]; apply negb_false_iff in Hp.
          + right. apply is_graph_output_true. exact Hp.
          + left. apply has_uses_true. exact Hp. }
      set (m2 := update_node k F m1) in *.
      assert (I2 : Inv u m2) by (eapply Inv_PS; eauto).
      assert (P3 : PS m2 (fold_left (fun m sg => dce_graph sc u ops f (GSub sg) m) (attr_graphs (n_attrs (F (trim_node n)))) m2)).
      { apply (PS_fold u); [|exact I2]. intros m0 a HI0. apply IHf. exact HI0. }
      eapply PS_trans; [exact P1|]. eapply PS_trans; [exact P2|]. eapply PS_trans; [exact P3|].
      apply IHk.
      + eapply Inv_PS; eauto.
      + eapply Shr_QK; [apply P3|]. eapply Shr_QK; [apply P2|]. eapply QK_tail. exact Q1.
  Qed.

  (* ------------------------------------------------------------ the pass *)
  Theorem dce_schema_pres unnamed ops fuel m :
    WF m -> NoOpFunc m -> NoBNTraining m -> NoFuncOp m -> OL m -> UnnamedDead unnamed m ->
    (forall o, In o (snd (frame m)) -> ~ In o (map fst (fst (frame m)))) ->
    Pres m (dce sc unnamed ops fuel m).
  Proof.
    intros HW HN HBN HFO HOL HUD Hfr. unfold dce.
    assert (HI : Inv unnamed m) by (constructor; assumption).
    pose proof (dce_graph_schema unnamed ops fuel GMain m HI) as P1.
    set (m1 := dce_graph sc unnamed ops fuel GMain m) in *.
    assert (I1 : Inv unnamed m1) by (eapply Inv_PS; eauto).
    assert (P2 : Pres m1 (remove_unused_inits m1)).
    { apply (unused_inits_step T absent tensor_val interp interp_mono interp_identity interp_trailing_absent); try apply I1.
      destruct P1 as [_ [F1 _]]. rewrite F1. exact Hfr. }
    assert (S2 : Shr m1 (remove_unused_inits m1)).
    { rewrite remove_unused_inits_eq. apply Shr_rw_id. apply tr_ok_id. }
    set (m2 := remove_unused_inits m1) in *.
    assert (I2 : Inv unnamed m2) by (eapply Inv_step; eauto).
    eapply Pres_trans; [apply P1|]. eapply Pres_trans; [exact P2|].
    apply (PS_fold unnamed (fun m r => dce_graph sc unnamed ops fuel r m) (func_refs m2)); [|exact I2].
    intros m0 a HI0. apply dce_graph_schema. exact HI0.
  Qed.

  (* the same with the executable validity checks of Model.v *)
  Corollary dce_schema_pres_checked unnamed ops fuel m :
    wfb m = true -> outputs_localb m = true -> NoOpFunc m -> NoBNTraining m -> NoFuncOp m ->
    (forall v, In v unnamed -> has_uses m v = false /\ is_graph_output m v = false) ->
    (forall o, In o (snd (frame m)) -> ~ In o (map fst (fst (frame m)))) ->
    Pres m (dce sc unnamed ops fuel m).
  Proof.
    intros Hwf Hol HN HBN HFO HU Hfr. pose proof (wfb_WF m Hwf) as HW.
    apply dce_schema_pres; auto.
    - apply outputs_localb_OL; assumption.
    - intros v Hv. destruct (HU v Hv) as [A B]. apply Dead_of_bools; assumption.
  Qed.
End Schema.

(* ---------------------------------------------------------------- the operator hypotheses are consistent; signature *)
Lemma triv_fewer (sc : schema) : forall op attrs subs ins k k' outs,
    opt_flags sc op <> None -> (0 < k')%nat -> (k' <= k)%nat ->
    triv_interp op attrs subs ins k = Some outs ->
    exists outs', triv_interp op attrs subs ins k' = Some outs' /\ forall j, (j < k')%nat -> nth_error outs' j = nth_error outs j.
Proof.
  intros op attrs subs ins k k' outs _ _ Hle E. unfold triv_interp in *. injection E as <-.
  exists (repeat tt k'). split; [reflexivity|]. intros j Hj.
  rewrite !nth_error_repeat by lia. reflexivity.
Qed.

Theorem dce_schema_sig sc unnamed ops fuel m :
  WF m -> NoOpFunc m -> NoBNTraining m -> NoFuncOp sc m -> OL m -> UnnamedDead unnamed m ->
  (forall o, In o (snd (frame m)) -> ~ In o (map fst (fst (frame m)))) ->
  SigKept m (dce sc unnamed ops fuel m).
Proof.
  intros. apply Pres_sig.
  apply (dce_schema_pres unit tt (fun _ => tt) triv_interp triv_mono triv_identity triv_trailing sc (triv_fewer sc)); assumption.
Qed.

(* ---------------------------------------------------------------- non-vacuity: a model on which an output IS trimmed *)
Definition wit_trim_schema : schema := [([70;111;111], [false; true])].
Definition wit_trim : model :=
  mkModel (mkGraph [1] [] [mkNode ([], [70;111;111], []) [] [Some 1] [3; 4]] [3]) [] [].
Lemma wit_trim_ok :
  wfb wit_trim = true /\ outputs_localb wit_trim = true
  /\ option_map n_outs (get_node wit_trim 3) = Some [3; 4]
  /\ option_map n_outs (get_node (dce wit_trim_schema [] [GMain] 12 wit_trim) 3) = Some [3].
Proof. vm_compute. repeat split. Qed.

(* ... and it satisfies every hypothesis of dce_schema_pres *)
Lemma wit_trim_hyps :
  WF wit_trim /\ NoOpFunc wit_trim /\ NoBNTraining wit_trim /\ NoFuncOp wit_trim_schema wit_trim /\ OL wit_trim
  /\ UnnamedDead [] wit_trim /\ (forall o, In o (snd (frame wit_trim)) -> ~ In o (map fst (fst (frame wit_trim)))).
Proof.
  assert (HW : WF wit_trim) by (apply wfb_WF; vm_compute; reflexivity).
  split; [exact HW|]. split; [intros op _; reflexivity|].
  split; [intros n [<-|[]] Hbn; vm_compute in Hbn; discriminate|].
  split; [intros n _ _; reflexivity|].
  split; [apply outputs_localb_OL; [exact HW | vm_compute; reflexivity]|].
  split; [intros v []|]. intros o [].
Qed.

(* C05/Proofs5.v — LiftConstantsToInitializersPass preserves what the model computes. *)
From Coq Require Import ZArith NArith List Bool Lia.
From IRV Require Import Base.Exn Gen.C05Gen C05.Model C05.Proofs C05.Proofs2 C05.Proofs3.
Import ListNotations.
Open Scope N_scope.

Definition add_init_at (k fresh : vid) (t : tensor) (g : graph) : list (vid * tensor) :=
  if existsb (has_key k) (g_nodes g) then g_inits g ++ [(fresh, t)] else g_inits g.

Lemma alookup_add_other gs k fresh t u : u <> fresh ->
  alookup (flat_map (add_init_at k fresh t) gs) u = alookup (flat_map g_inits gs) u.
Proof.
  intros Hne. induction gs as [|g gs IH]; simpl; [reflexivity|]. rewrite !alookup_app, IH. unfold add_init_at.
  destruct (existsb (has_key k) (g_nodes g)); [|reflexivity]. rewrite alookup_app. simpl.
  destruct (N.eqb fresh u) eqn:E; [apply N.eqb_eq in E; congruence|]. destruct (alookup (g_inits g) u); reflexivity.
Qed.
Lemma alookup_add_fresh gs k fresh t : ~ In fresh (map fst (flat_map g_inits gs)) ->
  (exists g, In g gs /\ existsb (has_key k) (g_nodes g) = true) ->
  alookup (flat_map (add_init_at k fresh t) gs) fresh = Some t.
Proof.
  induction gs as [|g gs IH]; simpl; intros Hni [g0 [Hg Hk]]; [contradiction|].
  rewrite map_app, in_app_iff in Hni. rewrite alookup_app. unfold add_init_at at 1.
  assert (Hn : alookup (g_inits g) fresh = None).
  { destruct (alookup (g_inits g) fresh) as [t0|] eqn:E; [|reflexivity]. exfalso. apply Hni. left. apply alookup_In in E.
    apply in_map_iff. exists (fresh, t0). auto. }
  destruct (existsb (has_key k) (g_nodes g)) eqn:Ek.
  - rewrite alookup_app, Hn. simpl. rewrite N.eqb_refl. reflexivity.
  - rewrite Hn. apply IH.
    + intros H. apply Hni. right. exact H.
    + destruct Hg as [<-|Hg]; [congruence|]. exists g0. auto.
Qed.
Lemma keys_add gs k fresh t u : In u (map fst (flat_map (add_init_at k fresh t) gs)) -> u = fresh \/ In u (map fst (flat_map g_inits gs)).
Proof.
  induction gs as [|g gs IH]; simpl; intros H; [contradiction|]. rewrite map_app, in_app_iff in *.
  destruct H as [H|H]; [|destruct (IH H); tauto]. unfold add_init_at in H.
  destruct (existsb (has_key k) (g_nodes g)); [|tauto]. rewrite map_app, in_app_iff in H. simpl in H. destruct H as [H|[H|[]]]; [tauto | subst; tauto].
Qed.
Lemma NoDup_app_disj {A} (a b : list A) x : NoDup (a ++ b) -> In x a -> In x b -> False.
Proof.
  induction a as [|y a IH]; simpl; intros H Ha Hb; [contradiction|]. inversion H; subst.
  destruct Ha as [->|Ha]; [apply H2; apply in_app_iff; right; exact Hb | apply IH; assumption].
Qed.
Lemma NoDup_app_intro {A} (a b : list A) : NoDup a -> NoDup b -> (forall x, In x a -> In x b -> False) -> NoDup (a ++ b).
Proof.
  induction a as [|y a IH]; simpl; intros Ha Hb Hd; [exact Hb|]. inversion Ha; subst. constructor.
  - rewrite in_app_iff. intros [H|H]; [contradiction | exact (Hd y (or_introl eq_refl) H)].
  - apply IH; auto. intros x Hx. apply Hd. right. exact Hx.
Qed.
Lemma NoDup_app_l {A} (a b : list A) : NoDup (a ++ b) -> NoDup a.
Proof.
  induction a as [|y a IH]; simpl; intros H; [constructor|]. inversion H; subst. constructor; [|auto].
  intros Hy. apply H2. apply in_app_iff. left. exact Hy.
Qed.

Definition owns (k : vid) (g : graph) : bool := existsb (has_key k) (g_nodes g).
Lemma owns_out k g : owns k g = true -> (forall n, In n (g_nodes g) -> n_outs n <> []) -> In k (flat_map n_outs (g_nodes g)).
Proof.
  unfold owns. intros H Hne. apply existsb_exists in H. destruct H as [n [Hn Hk]]. apply in_flat_map. exists n. split; [exact Hn|].
  apply has_key_first; auto.
Qed.

Lemma add_no_owner gs k fr t : (forall g, In g gs -> owns k g = false) -> flat_map (add_init_at k fr t) gs = flat_map g_inits gs.
Proof. intros H. apply flat_map_ext'. intros g Hg. unfold add_init_at. fold (owns k g). rewrite (H g Hg). reflexivity. Qed.

Lemma NoDup_keys_add gs k fr t :
  NoDup (map fst (flat_map g_inits gs)) -> ~ In fr (map fst (flat_map g_inits gs)) ->
  NoDup (flat_map n_outs (flat_map g_nodes gs)) -> (forall n, In n (flat_map g_nodes gs) -> n_outs n <> []) ->
  NoDup (map fst (flat_map (add_init_at k fr t) gs)).
Proof.
  induction gs as [|g gs IH]; simpl; intros Hnd Hni Hout Hne; [constructor|].
  rewrite map_app in *. rewrite flat_map_app in Hout.
  assert (Hnd2 : NoDup (map fst (flat_map g_inits gs))) by (eapply NoDup_app_remove_l; eauto).
  assert (Hni1 : ~ In fr (map fst (g_inits g))) by (intros H; apply Hni; apply in_app_iff; left; exact H).
  assert (Hni2 : ~ In fr (map fst (flat_map g_inits gs))) by (intros H; apply Hni; apply in_app_iff; right; exact H).
  assert (Hout2 : NoDup (flat_map n_outs (flat_map g_nodes gs))) by (eapply NoDup_app_remove_l; eauto).
  assert (Hne1 : forall n, In n (g_nodes g) -> n_outs n <> []) by (intros n Hn; apply Hne; apply in_app_iff; left; exact Hn).
  assert (Hne2 : forall n, In n (flat_map g_nodes gs) -> n_outs n <> []) by (intros n Hn; apply Hne; apply in_app_iff; right; exact Hn).
  unfold add_init_at at 1. fold (owns k g). destruct (owns k g) eqn:Eown.
  - (* g owns the node: no later graph does *)
    assert (Hno : forall g', In g' gs -> owns k g' = false).
    { intros g' Hg'. destruct (owns k g') eqn:E'; [|reflexivity]. exfalso.
      apply (NoDup_app_disj _ _ k Hout); [apply owns_out; assumption|].
      unfold owns in E'. apply existsb_exists in E'. destruct E' as [n [Hn Hkn]].
      assert (Hn2 : In n (flat_map g_nodes gs)) by (apply in_flat_map; eauto).
      apply in_flat_map. exists n. split; [exact Hn2|]. apply has_key_first; auto. }
    rewrite (add_no_owner gs k fr t Hno). rewrite map_app. simpl. rewrite <- app_assoc. simpl.
    apply NoDup_app_intro; [eapply NoDup_app_l; eauto | constructor; assumption |].
    intros x Hx [<-|Hx2]; [exact (Hni1 Hx) | exact (NoDup_app_disj _ _ x Hnd Hx Hx2)].
  - apply NoDup_app_intro; [eapply NoDup_app_l; eauto | apply IH; assumption |].
    intros x Hx Hx2. apply keys_add in Hx2. destruct Hx2 as [->|Hx2]; [exact (Hni1 Hx) | exact (NoDup_app_disj _ _ x Hnd Hx Hx2)].
Qed.

Section Lift.
  Variable T : Type.
  Variable absent : T.
  Variable tensor_val : tensor -> T.
  Variable interp : opid -> list (str * attr) -> list (subfn T) -> list T -> nat -> option (list T).
  Hypothesis interp_mono : forall op attrs subs subs' ins k r,
      Forall2 (sub_le T) subs subs' -> interp op attrs subs ins k = Some r -> interp op attrs subs' ins k = Some r.
  Hypothesis interp_identity : forall op attrs subs x,
      is_identity_op op = true -> interp op attrs subs [x] 1%nat = Some [x].
  Hypothesis interp_trailing_absent : forall op attrs subs ins k,
      interp op attrs subs (ins ++ [absent]) k = interp op attrs subs ins k.
  (* the pass parameters and the table of numpy conversions for the non-`value` attribute forms *)
  Variables (lift_all : bool) (size_limit : Z) (other : list (vid * tensor)).
  (* Constant returns its attribute: the tensor the pass extracts from the single attribute of node k *)
  Hypothesis interp_constant : forall op k name a t subs,
      is_constant_op op = true -> lift_tensor lift_all size_limit other k name a = Some t ->
      interp op [(name, a)] subs [] 1%nat = Some [tensor_val t].

  Notation Pres := (Pres T absent tensor_val interp).

  (* schema of Constant: no inputs, one output *)
  Definition ConstOK (m : model) : Prop :=
    forall n, In n (all_nodes m) -> is_constant_op (n_op n) = true -> n_ins n = [] /\ length (n_outs n) = 1%nat.
  Definition FreshOK (m : model) (fr : N) : Prop :=
    forall v, In v (all_outs m) \/ In v (all_formals m) \/ In v (map fst (all_inits m)) -> v < fr.

  Lemma lift_eq k y fresh t m : is_graph_output m y = false ->
    remove_node k (replace_uses false y fresh
       (map_graphs (fun g => if existsb (has_key k) (g_nodes g) then set_inits g (g_inits g ++ [(fresh, t)]) else g) m))
    = rw (fun n => n) (sub1 y fresh) (fun n => negb (has_key k n)) (fun _ => add_init_at k fresh t) m.
  Proof.
    intros Hy. rewrite rw_map_graphs. unfold remove_node, replace_uses. rewrite !map_graphs_comp.
    apply map_graphs_ext_in. intros g Hg. unfold rw_graph, subst_graph, set_nodes, add_init_at.
    rewrite (sub1_notin y fresh (g_outs g)) by exact (is_graph_output_false m y Hy g Hg).
    destruct (existsb (has_key k) (g_nodes g)); simpl; rewrite filter_map_comm; reflexivity.
  Qed.

  Lemma lift_step m fr rk : WF m -> NoOpFunc m -> ConstOK m -> FreshOK m fr ->
    let st' := try_lift_constant lift_all size_limit other (m, fr) rk in
    Pres m (fst st') /\ ConstOK (fst st') /\ FreshOK (fst st') (snd st').
  Proof.
    intros HW HN HC HF. unfold try_lift_constant. cbv zeta.
    assert (Hsame : Pres m m /\ ConstOK m /\ FreshOK m fr) by (split; [apply Pres_refl; assumption | auto]).
    destruct (get_node m (snd rk)) as [n|] eqn:Eg; [|exact Hsame].
    destruct (is_constant_op (n_op n)) eqn:Ec; simpl; [|exact Hsame].
    destruct (n_outs n) as [|y outs'] eqn:Eo; [exact Hsame|].
    destruct (n_attrs n) as [|[name a] [|? ?]] eqn:Ea; try exact Hsame.
    destruct (is_graph_output m y) eqn:Eyo; [exact Hsame|].
    destruct (lift_tensor lift_all size_limit other (snd rk) name a) as [t|] eqn:El; [|exact Hsame].
    set (k := snd rk) in *. simpl.
    destruct (get_node_spec _ _ _ Eg) as [Hin Hk].
    destruct (HC n Hin Ec) as [Hins Hlen]. rewrite Eo in Hlen. destruct outs'; [|discriminate].
    assert (Hky : k = y). { unfold has_key, node_key in Hk. rewrite Eo in Hk. apply N.eqb_eq in Hk. auto. }
    assert (Hyout : In y (all_outs m)). { unfold all_outs. apply in_flat_map. exists n. rewrite Eo. simpl. auto. }
    assert (Hfr_out : ~ In fr (all_outs m)) by (intros H; specialize (HF fr (or_introl H)); lia).
    assert (Hfr_formal : ~ formal_of m fr) by (intros H; specialize (HF fr (or_intror (or_introl H))); lia).
    assert (Hfr_init : ~ In fr (map fst (all_inits m))) by (intros H; specialize (HF fr (or_intror (or_intror H))); lia).
    assert (Hyfr : y <> fr) by (intros ->; auto).
    cbv zeta. simpl fst. simpl snd. pose proof (lift_eq k y fr t m Eyo) as Heq. unfold vid in Heq |- *. rewrite Heq. clear Heq.
    set (m' := rw (fun n => n) (sub1 y fr) (fun n => negb (has_key k n)) (fun _ => add_init_at k fr t) m).
    assert (Hall' : all_inits m' = flat_map (add_init_at k fr t) (graphs_of m)).
    { unfold all_inits, m', rw. apply flat_map_mk2; reflexivity. }
    assert (Hown : exists g, In g (graphs_of m) /\ existsb (has_key k) (g_nodes g) = true).
    { unfold all_nodes in Hin. apply in_flat_map in Hin. destruct Hin as [g [Hg Hn]]. exists g. split; [exact Hg|].
      apply existsb_exists. exists n. auto. }
    assert (Hdata : exists ty p, a = AData ty p). { unfold lift_tensor in El. destruct a; try discriminate. eauto. }
    destruct Hdata as [ty [p ->]].
    assert (Hkeys' : forall u, In u (map fst (all_inits m')) -> u = fr \/ In u (map fst (all_inits m))).
    { intros u Hu. rewrite Hall' in Hu. apply keys_add in Hu. exact Hu. }
    assert (Hlk_other : forall u, u <> fr -> alookup (all_inits m') u = alookup (all_inits m) u).
    { intros u Hu. rewrite Hall'. apply alookup_add_other. exact Hu. }
    assert (Hlk_fr : alookup (all_inits m') fr = Some t).
    { rewrite Hall'. apply alookup_add_fresh; [exact Hfr_init | exact Hown]. }
    assert (P : Pres m m').
    { apply rw_pres_gen; auto using tr_ok_id; fold m'.
      - rewrite Hall'. apply NoDup_keys_add; [apply (wf_inits_nodup m HW) | exact Hfr_init | apply (wf_outs m HW) | apply (wf_nonempty m HW)].
      - intros u Hu. destruct (Hkeys' u Hu) as [->|Hu2]; [exact Hfr_out | exact (wf_init_prod m HW u Hu2)].
      - intros u Hf. unfold sub1. destruct (N.eqb u y) eqn:E; [|reflexivity]. apply N.eqb_eq in E. subst u.
        exfalso. exact (wf_formal m HW y Hf Hyout).
      - intros u t0 Eu.
        assert (Hu_y : u <> y). { intros ->. apply (wf_init_prod m HW y); [|exact Hyout]. apply alookup_In in Eu. apply in_map_iff. exists (y, t0). auto. }
        assert (Hu_fr : u <> fr). { intros ->. apply Hfr_init. apply alookup_In in Eu. apply in_map_iff. exists (fr, t0). auto. }
        unfold sub1. destruct (N.eqb u y) eqn:E; [apply N.eqb_eq in E; congruence|]. split; [|left; reflexivity].
        rewrite Hlk_other by exact Hu_fr. exact Eu.
      - intros v n0 i Ev Ep. destruct (find_prod_In _ _ _ _ Ep) as [Hin0 Hidx]. apply index_of_In in Hidx as Hv.
        assert (Hv_fr : v <> fr). { intros ->. apply Hfr_out. unfold all_outs. apply in_flat_map. eauto. }
        destruct (N.eqb v y) eqn:E.
        + apply N.eqb_eq in E. subst v. right. right. right.
          assert (n0 = n). { eapply producer_unique; eauto. rewrite Eo. left. reflexivity. } subst n0.
          rewrite Eo in Hidx. simpl in Hidx. rewrite N.eqb_refl in Hidx. injection Hidx as <-.
          split; [reflexivity|]. split; [exact Hins|]. split; [rewrite Eo; reflexivity|]. split; [apply HN; right; exact Ec|].
          exists t. split; [|split].
          * intros aenv subs. rewrite Ea. simpl. apply (interp_constant (n_op n) k _ _ t subs Ec El).
          * unfold sub1. rewrite N.eqb_refl. exact Hlk_fr.
          * unfold sub1. rewrite N.eqb_refl. exact Hfr_formal.
        + left. split; [|split; [unfold sub1; rewrite E; reflexivity|]].
          * apply negb_true_iff. destruct (has_key k n0) eqn:Hk0; [|reflexivity]. exfalso.
            assert (In k (n_outs n0)). { apply has_key_first; auto. intros Hnil. rewrite Hnil in Hv. contradiction. }
            assert (n0 = n). { eapply producer_unique; eauto. rewrite Eo, Hky. left. reflexivity. } subst n0.
            rewrite Eo in Hv. simpl in Hv. apply N.eqb_neq in E. destruct Hv; [congruence | contradiction].
          * rewrite Hlk_other by exact Hv_fr. exact Ev. }
    split; [exact P|]. split.
    - (* ConstOK is kept: nodes are input-substituted copies of kept nodes *)
      intros n1 Hn1 Hc1. unfold m' in Hn1. rewrite all_nodes_rw in Hn1. apply in_map_iff in Hn1. destruct Hn1 as [n2 [<- Hn2]].
      apply filter_In in Hn2. destruct Hn2 as [Hn2 _]. simpl in *. destruct (HC n2 Hn2 Hc1) as [A B]. rewrite A. auto.
    - (* all identities stay below the next fresh counter *)
      intros v Hv. assert (v < fr \/ v = fr) as [Hlt| ->]; [|lia|lia].
      destruct Hv as [Hv|[Hv|Hv]].
      + left. apply HF. left. unfold m' in Hv. eapply all_outs_rw_incl; eauto using tr_ok_id.
      + left. apply HF. right. left. unfold m' in Hv. rewrite all_formals_rw in Hv. exact Hv.
      + destruct (Hkeys' v Hv) as [->|Hv2]; [right; reflexivity | left; apply HF; right; right; exact Hv2].
  Qed.

  Theorem lift_constants_pres fuel m fr : WF m -> NoOpFunc m -> ConstOK m -> FreshOK m fr ->
    Pres m (fst (lift_constants fuel lift_all size_limit other m fr)).
  Proof.
    intros HW HN HC HF. unfold lift_constants.
    generalize (rec_nodes fuel m GMain) as keys. intros keys.
    assert (G : forall keys m0 fr0, WF m0 -> NoOpFunc m0 -> ConstOK m0 -> FreshOK m0 fr0 ->
                Pres m0 (fst (fold_left (try_lift_constant lift_all size_limit other) keys (m0, fr0)))).
    { clear HW HN HC HF. intros keys0. induction keys0 as [|rk keys0 IH]; intros m0 fr0 HW HN HC HF; [apply Pres_refl; assumption|].
      cbn [fold_left]. pose proof (lift_step m0 fr0 rk HW HN HC HF) as Hs. cbv zeta in Hs.
      remember (try_lift_constant lift_all size_limit other (m0, fr0) rk) as st eqn:E. destruct st as [m1 fr1]. simpl in Hs.
      destruct Hs as [P [HC' HF']]. eapply Pres_trans; [exact P|]. destruct P as [HW1 HN1 _ _ _ _]. apply IH; assumption. }
    apply G; assumption.
  Qed.
End Lift.

(* C05/Proofs13.v — AddDefaultAttributesPass: making schema defaults explicit preserves what the model computes, for every
   operator semantics that does not distinguish an absent optional attribute from its default (the table `tbl` is the
   schema knowledge handed to the model: modelled, not verified). *)
From Coq Require Import ZArith NArith List Bool Lia.
From IRV Require Import Base.Exn Gen.C05Gen C05.Model C05.Proofs C05.Proofs2 C05.Proofs3 C05.Proofs4.
Import ListNotations.
Open Scope N_scope.

Definition is_data_attr (ka : str * attr) : bool := match snd ka with AData _ _ => true | _ => false end.

Lemma attr_graphs_data l : forallb is_data_attr l = true -> attr_graphs l = [].
Proof.
  induction l as [|[k a] l IH]; simpl; intros H; [reflexivity|]. apply andb_prop in H. destruct H as [H1 H2].
  unfold attr_graphs in *. simpl. destruct a; try discriminate. simpl. apply IH. exact H2.
Qed.

Lemma resolve_app aenv a b : resolve aenv (a ++ b) = resolve aenv a ++ resolve aenv b.
Proof. unfold resolve. apply flat_map_app. Qed.
Lemma attr_graphs_app a b : attr_graphs (a ++ b) = attr_graphs a ++ attr_graphs b.
Proof. unfold attr_graphs. apply flat_map_app. Qed.

(* inserting a data attribute anywhere does not change the graph attributes *)
Lemma insert_attr_split d l : exists l1 l2, l = l1 ++ l2 /\ insert_attr d l = l1 ++ d :: l2.
Proof.
  induction l as [|x l [l1 [l2 [E1 E2]]]]; simpl.
  - exists [], []. auto.
  - destruct (str_ltb (fst d) (fst x)).
    + exists [], (x :: l). auto.
    + exists (x :: l1), l2. simpl. rewrite <- E1, E2. auto.
Qed.
Lemma attr_graphs_insert aenv d l : is_data_attr d = true ->
  attr_graphs (resolve aenv (insert_attr d l)) = attr_graphs (resolve aenv l).
Proof.
  intros Hd. destruct (insert_attr_split d l) as [l1 [l2 [E1 E2]]]. rewrite E2, E1.
  rewrite !resolve_app, !attr_graphs_app. f_equal.
  change (d :: l2) with ([d] ++ l2). rewrite resolve_app, attr_graphs_app.
  destruct d as [k a]. unfold is_data_attr in Hd. simpl in Hd. destruct a; try discriminate. reflexivity.
Qed.
Lemma attr_graphs_add aenv attrs defs : forallb is_data_attr defs = true ->
  attr_graphs (resolve aenv (add_attrs attrs defs)) = attr_graphs (resolve aenv attrs).
Proof.
  unfold add_attrs. intros Hd.
  assert (G : forall acc, attr_graphs (resolve aenv (fold_left (fun acc d => if has_attr (fst d) attrs then acc else insert_attr d acc) defs acc))
                          = attr_graphs (resolve aenv acc)).
  { induction defs as [|d defs IH]; intros acc; simpl; [reflexivity|]. simpl in Hd. apply andb_prop in Hd. destruct Hd as [H1 H2].
    rewrite (IH H2). destruct (has_attr (fst d) attrs); [reflexivity | apply attr_graphs_insert; exact H1]. }
  apply G.
Qed.

Section Defaults.
  Variable T : Type.
  Variable absent : T.
  Variable tensor_val : tensor -> T.
  Variable interp : opid -> list (str * attr) -> list (subfn T) -> list T -> nat -> option (list T).
  Hypothesis interp_mono : forall op attrs subs subs' ins k r,
      Forall2 (sub_le T) subs subs' -> interp op attrs subs ins k = Some r -> interp op attrs subs' ins k = Some r.
  Hypothesis interp_identity : forall op attrs subs x,
      is_identity_op op = true -> interp op attrs subs [x] 1%nat = Some [x].
  Hypothesis interp_trailing_absent : forall op attrs subs ins k,
      interp op attrs subs (ins ++ [absent]) k = interp op attrs subs ins k.
  Variable tbl : defaults_table.
  (* an operator does not distinguish "optional attribute absent" from "optional attribute = its schema default" *)
  Hypothesis interp_defaults : forall op attrs aenv subs ins k,
      interp op (resolve aenv (add_attrs attrs (op_defaults tbl op))) subs ins k = interp op (resolve aenv attrs) subs ins k.
  Notation Pres := (Pres T absent tensor_val interp).
  Notation vcase := Proofs.vcase.

  (* the table only holds data attributes, and no entry for an operator that is a model-local function *)
  Definition TblOK (m : model) : Prop :=
    (forall op, forallb is_data_attr (op_defaults tbl op) = true)
    /\ (forall n, In n (all_nodes m) -> op_defaults tbl (n_op n) <> [] -> find_func (m_funcs m) (n_op n) = None).

  Lemma add_defaults_nil n : op_defaults tbl (n_op n) = [] -> add_defaults_node tbl n = n.
  Proof. intros E. unfold add_defaults_node. rewrite E. unfold add_attrs. simpl. destruct n; reflexivity. Qed.

  Section Keys.
  Variable keys : list vid.
  Notation hK := (add_defaults_at tbl keys).
  Lemma hK_outs n : n_outs (hK n) = n_outs n.
  Proof. unfold add_defaults_at. destruct (memN (node_key n) keys); reflexivity. Qed.

  Lemma all_nodes_add m : all_nodes (add_default_attrs_keys tbl keys m) = map hK (all_nodes m).
  Proof.
    unfold all_nodes, add_default_attrs_keys. rewrite graphs_of_map_graphs, flat_map_map, map_flat_map. reflexivity.
  Qed.

  Theorem add_default_attrs_keys_pres m : WF m -> NoOpFunc m -> TblOK m -> Pres m (add_default_attrs_keys tbl keys m).
  Proof.
    intros HW HN [Hdata Hnf].
    set (m' := add_default_attrs_keys tbl keys m).
    assert (Hnodes : all_nodes m' = map hK (filter (fun _ => true) (all_nodes m))).
    { unfold m'. rewrite all_nodes_add, filter_true. reflexivity. }
    assert (Hprod : forall u, find_prod (all_nodes m') u =
                              match find_prod (all_nodes m) u with Some (n, i) => Some (hK n, i) | None => None end).
    { intros u. rewrite Hnodes. rewrite (find_prod_map_filter _ hK (fun _ => true)); [|apply hK_outs|apply (wf_outs m HW)].
      destruct (find_prod (all_nodes m) u) as [[n i]|]; reflexivity. }
    assert (Hinits : all_inits m' = all_inits m).
    { unfold m', all_inits, add_default_attrs_keys. rewrite graphs_of_map_graphs, flat_map_map. reflexivity. }
    assert (Hforms : all_formals m' = all_formals m).
    { unfold m', all_formals, add_default_attrs_keys. rewrite graphs_of_map_graphs, flat_map_map. reflexivity. }
    assert (Houts : all_outs m' = all_outs m).
    { unfold all_outs. rewrite Hnodes, filter_true, flat_map_map. apply flat_map_ext'. intros n _. apply hK_outs. }
    constructor.
    - constructor.
      + rewrite Houts. apply (wf_outs m HW).
      + intros v Hv. rewrite Houts. rewrite Hforms in Hv. apply (wf_formal m HW v Hv).
      + intros v Hv. rewrite Houts. rewrite Hinits in Hv. apply (wf_init_prod m HW v Hv).
      + intros n Hn. rewrite Hnodes, filter_true in Hn. apply in_map_iff in Hn. destruct Hn as [n0 [<- Hn0]]. rewrite hK_outs. apply (wf_nonempty m HW n0 Hn0).
      + rewrite Hinits. apply (wf_inits_nodup m HW).
    - intros op Hop. unfold m', add_default_attrs_keys, map_graphs. simpl. rewrite find_func_map, (HN op Hop). reflexivity.
    - exact Hforms.
    - intros env r He [f E]. exists f. unfold den_list in *.
      assert (HS : Sim T tensor_val interp (fun _ => True) (formal_of m) (fun v => v) (sem_of m) (sem_of m')).
      { constructor.
        - reflexivity.
        - intros v _. simpl. destruct (alookup (all_inits m) v) as [t|] eqn:Ei.
          + eapply VInit; simpl; eauto. rewrite Hinits. exact Ei.
          + destruct (find_prod (all_nodes m) v) as [[n i]|] eqn:Ep; [|apply VNone; simpl; assumption].
            destruct (find_prod_In _ _ _ _ Ep) as [Hn_in _].
            assert (Hsame : hK n = n -> vcase T tensor_val interp (fun _ => True) (formal_of m) (fun v => v) (sem_of m) (sem_of m') v).
            { intros Hh. eapply VNode with (n := n) (i := i) (n' := n); simpl; eauto.
              - rewrite Hinits. exact Ei.
              - rewrite Hprod, Ep, Hh. reflexivity.
              - constructor; try reflexivity. exists (map (option_map (fun v => v)) (n_ins n)), O, O. simpl. rewrite !app_nil_r. split; [reflexivity|].
                rewrite <- (map_id (n_ins n)) at 1. apply map_ext. intros [w|]; reflexivity. }
            unfold add_defaults_at in Hsame, Hprod. destruct (memN (node_key n) keys) eqn:Ek; [|apply Hsame; reflexivity].
            destruct (op_defaults tbl (n_op n)) as [|d ds] eqn:Ed; [apply Hsame; apply add_defaults_nil; exact Ed|].
            eapply VNodeAttrs with (n := n) (i := i) (n' := add_defaults_node tbl n); simpl; eauto.
            * rewrite Hinits. exact Ei.
            * rewrite Hprod, Ep, Ek. reflexivity.
            * exists (map (option_map (fun v => v)) (n_ins n)), O, O. simpl. rewrite !app_nil_r. split; [reflexivity|].
              rewrite <- (map_id (n_ins n)) at 1. apply map_ext. intros [w|]; reflexivity.
            * apply Hnf; [exact Hn_in | rewrite Ed; discriminate].
            * intros aenv. apply attr_graphs_add. apply Hdata.
        - intros g gr Eg. simpl in *. unfold m', add_default_attrs_keys, map_graphs. simpl. rewrite alookup_map_snd, Eg. simpl.
          eexists. split; [reflexivity|]. simpl. rewrite map_id. auto.
        - intros g gr Eg. simpl in Eg. split; [eapply formal_sub; eauto | apply Forall_forall; auto].
        - intros op fn Ef. simpl in *. unfold m', add_default_attrs_keys, map_graphs. simpl. rewrite find_func_map, Ef. simpl.
          eexists. split; [reflexivity|]. simpl. rewrite map_id. auto.
        - intros op Ef. simpl in *. unfold m', add_default_attrs_keys, map_graphs. simpl. rewrite find_func_map, Ef. reflexivity.
        - intros op fn Ef. simpl in Ef. split; [eapply formal_func; eauto | apply Forall_forall; auto]. }
      unfold m' at 2. unfold add_default_attrs_keys, map_graphs, map_nodes, set_nodes. simpl.
      eapply map_opt_impl; [|exact E]. intros x y _ Hy.
      exact (sim_refines T absent tensor_val interp interp_mono interp_identity interp_trailing_absent
                         (fun _ => True) (formal_of m) (fun v => v) (sem_of m) (sem_of m') HS f [] env x y He I Hy).
    - reflexivity.
    - reflexivity.
  Qed.

  End Keys.

  Theorem add_default_attrs_pres fuel m : WF m -> NoOpFunc m -> TblOK m -> Pres m (add_default_attrs tbl fuel m).
  Proof. intros. unfold add_default_attrs. apply add_default_attrs_keys_pres; assumption. Qed.
End Defaults.

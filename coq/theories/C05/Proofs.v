(* C05/Proofs.v — semantic toolkit: fuel monotonicity of `den` and the generic simulation theorem
   (`sim_refines`) from which every per-pass preservation theorem is derived. *)
From Coq Require Import ZArith NArith List Bool Lia.
From IRV Require Import Base.Exn Gen.C05Gen C05.Model.
Import ListNotations.
Open Scope N_scope.

(* ---------------------------------------------------------------- small list facts *)
Lemma map_opt_impl {A B} (F G : A -> option B) l ys :
  (forall x y, In x l -> F x = Some y -> G x = Some y) -> map_opt F l = Some ys -> map_opt G l = Some ys.
Proof.
  revert ys. induction l as [|x l IH]; intros ys H E; simpl in *; [exact E|].
  destruct (F x) as [y|] eqn:Fx; [|discriminate].
  destruct (map_opt F l) as [ys'|] eqn:Fl; [|discriminate].
  rewrite (H x y (or_introl eq_refl) Fx). rewrite (IH ys'); auto.
Qed.

Lemma map_opt_map {A B C} (F : B -> option C) (h : A -> B) l : map_opt F (map h l) = map_opt (fun x => F (h x)) l.
Proof. induction l as [|x l IH]; simpl; [reflexivity|]. rewrite IH. reflexivity. Qed.

Lemma map_opt_ext {A B} (F G : A -> option B) l : (forall x, In x l -> F x = G x) -> map_opt F l = map_opt G l.
Proof.
  induction l as [|x l IH]; intros H; simpl; [reflexivity|].
  rewrite (H x (or_introl eq_refl)). rewrite IH; auto. intros; apply H; right; assumption.
Qed.

Lemma map_opt_app {A B} (F : A -> option B) l1 l2 :
  map_opt F (l1 ++ l2) = match map_opt F l1 with None => None | Some a => match map_opt F l2 with None => None | Some b => Some (a ++ b) end end.
Proof.
  induction l1 as [|x l1 IH]; simpl.
  - destruct (map_opt F l2); reflexivity.
  - destruct (F x); [|reflexivity]. rewrite IH. destruct (map_opt F l1); [|reflexivity]. destruct (map_opt F l2); reflexivity.
Qed.

Lemma map_opt_repeat {A B} (F : A -> option B) x y k : F x = Some y -> map_opt F (repeat x k) = Some (repeat y k).
Proof. intros E. induction k as [|k IH]; simpl; [reflexivity|]. rewrite E, IH. reflexivity. Qed.

Lemma map_opt_In {A B} (F : A -> option B) l ys x : map_opt F l = Some ys -> In x l -> exists y, F x = Some y.
Proof.
  revert ys. induction l as [|a l IH]; intros ys E Hin; [contradiction|].
  simpl in E. destruct (F a) as [y|] eqn:Fa; [|discriminate]. destruct (map_opt F l) eqn:Fl; [|discriminate].
  destruct Hin as [<-|Hin]; [eauto | eapply IH; eauto].
Qed.

Section Sem.
  Variable T : Type.
  Variable absent : T.
  Variable tensor_val : tensor -> T.
  Variable interp : opid -> list (str * attr) -> list (subfn T) -> list T -> nat -> option (list T).

  Definition sub_le (a b : subfn T) : Prop := forall args r, a args = Some r -> b args = Some r.

  (* operators are monotone in the denotations of their bodies (a body that is more defined —
     evaluated with more fuel — cannot change a result already obtained) *)
  Hypothesis interp_mono : forall op attrs subs subs' ins k r,
      Forall2 sub_le subs subs' -> interp op attrs subs ins k = Some r -> interp op attrs subs' ins k = Some r.

  Notation D := (den T absent tensor_val interp).
  Notation inval := (fun (d : vid -> option T) (o : option vid) => match o with None => Some absent | Some w => d w end).

  Lemma Forall2_map_same {A} (F G : A -> subfn T) l :
    (forall g, In g l -> sub_le (F g) (G g)) -> Forall2 sub_le (map F l) (map G l).
  Proof. induction l as [|x l IH]; intros H; simpl; constructor; [apply H; left; reflexivity | apply IH; intros; apply H; right; assumption]. Qed.

  (* ------------------------------------------------------------ fuel monotonicity *)
  Lemma den_mono s : forall f aenv env v r, D s f aenv env v = Some r -> D s (S f) aenv env v = Some r.
  Proof.
    induction f as [|f IH]; intros aenv env v r E; [discriminate|].
    cbn [den] in E. cbn [den].
    destruct (alookup env v) as [t|]; [exact E|].
    destruct (s_init s v) as [t|]; [exact E|].
    destruct (s_prod s v) as [[n i]|]; [|discriminate].
    destruct (map_opt _ (n_ins n)) as [tins|] eqn:Eins; [|discriminate].
    erewrite (map_opt_impl _ (inval (D s (S f) aenv env))); [|clear E|exact Eins].
    2:{ intros [w|] y _ Hy; [apply IH; exact Hy | exact Hy]. }
    destruct (s_func s (n_op n)) as [fn|].
    - destruct (nth_error (g_outs (f_body fn)) i) as [o|]; [|discriminate]. apply IH. exact E.
    - destruct (interp (n_op n) (resolve aenv (n_attrs n)) _ tins (length (n_outs n))) as [outs|] eqn:Ei; [|discriminate].
      erewrite interp_mono; [exact E| |exact Ei].
      apply Forall2_map_same. intros g _ args r' Hr.
      destruct (s_graph s g) as [gr|]; [|discriminate].
      eapply map_opt_impl; [|exact Hr]. intros x y _ Hy. apply IH. exact Hy.
  Qed.

  Lemma den_mono_le s f f' aenv env v r : (f <= f')%nat -> D s f aenv env v = Some r -> D s f' aenv env v = Some r.
  Proof. induction 1; intros E; [exact E|]. apply den_mono. auto. Qed.

  Lemma den_det s f f' aenv env v r r' : D s f aenv env v = Some r -> D s f' aenv env v = Some r' -> r = r'.
  Proof.
    intros E E'. apply (den_mono_le s f (Nat.max f f')) in E; [|lia].
    apply (den_mono_le s f' (Nat.max f f')) in E'; [|lia]. congruence.
  Qed.

  Lemma den_list_mono_le s f f' aenv env vs r : (f <= f')%nat ->
    den_list T absent tensor_val interp s f aenv env vs = Some r -> den_list T absent tensor_val interp s f' aenv env vs = Some r.
  Proof. intros Hle E. unfold den_list in *. eapply map_opt_impl; [|exact E]. intros x y _ Hy. eapply den_mono_le; eauto. Qed.

  (* ------------------------------------------------------------ hypotheses on operators the passes rely on *)
  Hypothesis interp_identity : forall op attrs subs x,
      is_identity_op op = true -> interp op attrs subs [x] 1%nat = Some [x].
  Hypothesis interp_trailing_absent : forall op attrs subs ins k,
      interp op attrs subs (ins ++ [absent]) k = interp op attrs subs ins k.

  Lemma interp_repeat_absent op attrs subs ins k j : interp op attrs subs (ins ++ repeat absent j) k = interp op attrs subs ins k.
  Proof.
    induction j as [|j IH]; simpl; [rewrite app_nil_r; reflexivity|].
    replace (ins ++ absent :: repeat absent j) with ((ins ++ repeat absent j) ++ [absent]).
    - rewrite interp_trailing_absent. exact IH.
    - rewrite <- app_assoc. f_equal. clear. induction j; simpl; [reflexivity|]. f_equal. exact IHj.
  Qed.

  Lemma bind_repeat ins j : bind T absent ins (repeat absent j) = bind T absent ins [].
  Proof.
    revert j. induction ins as [|x ins IH]; intros j; simpl; [reflexivity|].
    destruct j; simpl; [reflexivity | rewrite IH; reflexivity].
  Qed.
  Lemma bind_app_repeat ins l j j' : bind T absent ins (l ++ repeat absent j) = bind T absent ins (l ++ repeat absent j').
  Proof.
    revert l. induction ins as [|x ins IH]; intros l; [reflexivity|].
    destruct l as [|a l].
    - simpl app. rewrite (bind_repeat (x :: ins) j), (bind_repeat (x :: ins) j'). reflexivity.
    - simpl. f_equal. apply IH.
  Qed.

  (* ------------------------------------------------------------ the simulation *)
  Definition env_ok (formal : vid -> Prop) (env : list (vid * T)) : Prop := forall v t, alookup env v = Some t -> formal v.

  Definition ins_rel (sg : vid -> vid) (ins ins' : list (option vid)) : Prop :=
    exists c k k', map (option_map sg) ins = c ++ repeat None k /\ ins' = c ++ repeat None k'.

  Record node_rel (sg : vid -> vid) (n n' : node) : Prop := {
    nr_op : n_op n' = n_op n;
    nr_attrs : n_attrs n' = n_attrs n;
    nr_nouts : length (n_outs n') = length (n_outs n);
    nr_ins : ins_rel sg (n_ins n) (n_ins n') }.

  Section Sim.
    Variables (L formal : vid -> Prop) (sg : vid -> vid) (s s' : sem).

    Inductive vcase (v : vid) : Prop :=
    | VInit t : s_init s v = Some t -> s_init s' (sg v) = Some t -> (sg v = v \/ ~ formal (sg v)) -> vcase v
    | VNode n i n' : s_init s v = None -> s_prod s v = Some (n, i) ->
                     s_init s' (sg v) = None -> s_prod s' (sg v) = Some (n', i) -> (sg v = v \/ ~ formal (sg v)) ->
                     node_rel sg n n' -> (forall w, In (Some w) (n_ins n) -> L w) -> vcase v
    (* the same node with TRAILING outputs dropped (optional outputs): its remaining results are unchanged *)
    | VNodeTrim n i n' : s_init s v = None -> s_prod s v = Some (n, i) ->
                     s_init s' (sg v) = None -> s_prod s' (sg v) = Some (n', i) -> (sg v = v \/ ~ formal (sg v)) ->
                     n_op n' = n_op n -> n_attrs n' = n_attrs n -> ins_rel sg (n_ins n) (n_ins n') ->
                     (forall w, In (Some w) (n_ins n) -> L w) ->
                     s_func s (n_op n) = None -> (i < length (n_outs n'))%nat ->
                     (forall attrs subs ins outs, interp (n_op n) attrs subs ins (length (n_outs n)) = Some outs ->
                        exists outs', interp (n_op n) attrs subs ins (length (n_outs n')) = Some outs'
                                      /\ forall j, (j < length (n_outs n'))%nat -> nth_error outs' j = nth_error outs j) ->
                     vcase v
    | VIdent n x : s_init s v = None -> s_prod s v = Some (n, O) -> is_identity_op (n_op n) = true ->
                   n_ins n = [Some x] -> length (n_outs n) = 1%nat -> s_func s (n_op n) = None ->
                   L x -> sg v = sg x -> vcase v
    | VConst n t : s_init s v = None -> s_prod s v = Some (n, O) -> n_ins n = [] -> length (n_outs n) = 1%nat ->
                   s_func s (n_op n) = None ->
                   (forall aenv subs, interp (n_op n) (resolve aenv (n_attrs n)) subs [] 1%nat = Some [tensor_val t]) ->
                   s_init s' (sg v) = Some t -> ~ formal (sg v) -> vcase v
    | VNone : s_init s v = None -> s_prod s v = None -> vcase v
    (* the same node with attributes the operator does not distinguish (schema defaults made explicit) *)
    | VNodeAttrs n i n' : s_init s v = None -> s_prod s v = Some (n, i) ->
                     s_init s' (sg v) = None -> s_prod s' (sg v) = Some (n', i) -> (sg v = v \/ ~ formal (sg v)) ->
                     n_op n' = n_op n -> length (n_outs n') = length (n_outs n) -> ins_rel sg (n_ins n) (n_ins n') ->
                     (forall w, In (Some w) (n_ins n) -> L w) ->
                     s_func s (n_op n) = None ->
                     (forall aenv, attr_graphs (resolve aenv (n_attrs n')) = attr_graphs (resolve aenv (n_attrs n))) ->
                     (forall aenv subs ins k, interp (n_op n) (resolve aenv (n_attrs n')) subs ins k
                                              = interp (n_op n) (resolve aenv (n_attrs n)) subs ins k) ->
                     vcase v.

    Record Sim : Prop := {
      sim_fix : forall v, formal v -> sg v = v;
      sim_case : forall v, L v -> vcase v;
      sim_graph : forall g gr, s_graph s g = Some gr ->
                               exists gr', s_graph s' g = Some gr' /\ g_ins gr' = g_ins gr /\ g_outs gr' = map sg (g_outs gr);
      sim_graph_formal : forall g gr, s_graph s g = Some gr -> Forall formal (g_ins gr) /\ Forall L (g_outs gr);
      sim_func : forall op fn, s_func s op = Some fn ->
                               exists fn', s_func s' op = Some fn' /\ g_ins (f_body fn') = g_ins (f_body fn)
                                           /\ g_outs (f_body fn') = map sg (g_outs (f_body fn)) /\ f_defaults fn' = f_defaults fn;
      sim_func_none : forall op, s_func s op = None -> s_func s' op = None;
      sim_func_formal : forall op fn, s_func s op = Some fn -> Forall formal (g_ins (f_body fn)) /\ Forall L (g_outs (f_body fn)) }.

    (* the same, with the function / subgraph conditions required only for what a live node can reach *)
    Definition used (op : opid) : Prop := exists v n i, L v /\ s_prod s v = Some (n, i) /\ n_op n = op.
    (* AE: an invariant of the attribute environments that can occur (True, or "holds no graph attribute") *)
    Definition usedg (AE : list (str * attr) -> Prop) (g : gid) : Prop :=
      exists v n i aenv, AE aenv /\ L v /\ s_prod s v = Some (n, i) /\ In g (attr_graphs (resolve aenv (n_attrs n))).
    Record SimG (AE : list (str * attr) -> Prop) : Prop := {
      sim_aenv_g : forall v n i fn aenv, L v -> s_prod s v = Some (n, i) -> s_func s (n_op n) = Some fn -> AE aenv ->
                                         AE (resolve aenv (n_attrs n) ++ f_defaults fn);
      sim_fix_g : forall v, formal v -> sg v = v;
      sim_case_g : forall v, L v -> vcase v;
      sim_graph_g : forall g, usedg AE g -> forall gr, s_graph s g = Some gr ->
                               exists gr', s_graph s' g = Some gr' /\ g_ins gr' = g_ins gr /\ g_outs gr' = map sg (g_outs gr);
      sim_graphformal_g : forall g, usedg AE g -> forall gr, s_graph s g = Some gr -> Forall formal (g_ins gr) /\ Forall L (g_outs gr);
      sim_func_g : forall op, used op -> forall fn, s_func s op = Some fn ->
                               exists fn', s_func s' op = Some fn' /\ g_ins (f_body fn') = g_ins (f_body fn)
                                           /\ g_outs (f_body fn') = map sg (g_outs (f_body fn)) /\ f_defaults fn' = f_defaults fn;
      sim_funcnone_g : forall op, used op -> s_func s op = None -> s_func s' op = None;
      sim_funcformal_g : forall op, used op -> forall fn, s_func s op = Some fn ->
                               Forall formal (g_ins (f_body fn)) /\ Forall L (g_outs (f_body fn)) }.
    Lemma Sim_SimG : Sim -> SimG (fun _ => True).
    Proof. intros [a b c d e f g]. constructor; eauto. Qed.

    Lemma env_ok_bind ins args env : Forall formal ins -> env_ok formal env -> env_ok formal (bind T absent ins args ++ env).
    Proof.
      intros Hf He. revert args. induction ins as [|x ins IH]; intros args v t; simpl; [apply He|].
      inversion Hf; subst.
      destruct args as [|a args]; simpl; (destruct (N.eqb x v) eqn:E; [apply N.eqb_eq in E; subst; intros _; assumption | apply IH; assumption]).
    Qed.
    Lemma env_ok_bind0 ins args : Forall formal ins -> env_ok formal (bind T absent ins args).
    Proof. intros Hf. rewrite <- (app_nil_r (bind T absent ins args)). apply env_ok_bind; [assumption|]. intros v t; discriminate. Qed.

    Lemma env_none env v : env_ok formal env -> alookup env v = None -> (sg v = v \/ ~ formal (sg v)) -> alookup env (sg v) = None.
    Proof.
      intros He Hn [E|Hnf]; [rewrite E; exact Hn|].
      destruct (alookup env (sg v)) as [t|] eqn:El; [|reflexivity]. exfalso. apply Hnf. eapply He; eauto.
    Qed.

    Theorem simg_refines AE : SimG AE ->
      forall f aenv env v r, AE aenv -> env_ok formal env -> L v -> D s f aenv env v = Some r -> D s' f aenv env (sg v) = Some r.
    Proof.
      intros HS. induction f as [|f IH]; intros aenv env v r Ha He HL E; [discriminate|].
      cbn [den] in E.
      destruct (alookup env v) as [t|] eqn:Eenv.
      { assert (Hfv : formal v) by (eapply He; eauto). rewrite (sim_fix_g AE HS v Hfv). cbn [den]. rewrite Eenv. exact E. }
      destruct (sim_case_g AE HS v HL) as [t Hi Hi' Hd | n i n' Hi Hp Hi' Hp' Hd Hrel Hin
                                      | n i n' Hi Hp Hi' Hp' Hd Hop Hat [c [k [k' [Hc Hc']]]] Hin Hfn Hlt Htrim
                                      | n x Hi Hp Hid Hins Hlen Hfn HLx Hsg
                                      | n t Hi Hp Hins Hlen Hfn Hc Hi' Hnf | Hi Hp
                                      | n i n' Hi Hp Hi' Hp' Hd Hop Hno [c [k [k' [Hc Hc']]]] Hin Hfn Hag Hat].
      - (* initializer *)
        rewrite Hi in E. cbn [den]. rewrite (env_none env v He Eenv Hd), Hi'. exact E.
      - (* node mapped to a node *)
        rewrite Hi, Hp in E. assert (Hu : used (n_op n)) by (exists v, n, i; auto). cbn [den]. rewrite (env_none env v He Eenv Hd), Hi', Hp'.
        destruct (map_opt _ (n_ins n)) as [tins|] eqn:Eins; [|discriminate].
        destruct Hrel as [Hop Hat Hno [c [k [k' [Hc Hc']]]]].
        (* evaluate the mapped inputs in s' *)
        assert (Emap : map_opt (inval (D s' f aenv env)) (map (option_map sg) (n_ins n)) = Some tins).
        { rewrite map_opt_map. eapply map_opt_impl; [|exact Eins].
          intros [w|] y Hw Hy; simpl; [apply IH; auto | exact Hy]. }
        rewrite Hc, map_opt_app in Emap.
        destruct (map_opt _ c) as [tc|] eqn:Ec; [|discriminate].
        rewrite (map_opt_repeat _ None absent k eq_refl) in Emap. injection Emap as <-.
        rewrite Hc', map_opt_app, Ec, (map_opt_repeat _ None absent k' eq_refl).
        rewrite Hop, Hat, Hno.
        destruct (s_func s (n_op n)) as [fn|] eqn:Efn.
        + destruct (sim_func_g AE HS _ Hu _ Efn) as [fn' [Efn' [Hfi [Hfo Hfd]]]]. rewrite Efn'.
          destruct (sim_funcformal_g AE HS _ Hu _ Efn) as [Hff HfL].
          destruct (nth_error (g_outs (f_body fn)) i) as [o|] eqn:Eo; [|discriminate].
          rewrite Hfo, (map_nth_error sg _ _ Eo), Hfi, Hfd.
          rewrite (bind_app_repeat (g_ins (f_body fn)) tc k' k).
          apply IH; [eapply (sim_aenv_g AE HS v n i fn aenv); eauto | apply env_ok_bind0; exact Hff | | exact E].
          rewrite Forall_forall in HfL. apply HfL. eapply nth_error_In; eauto.
        + rewrite (sim_funcnone_g AE HS _ Hu Efn).
          destruct (interp (n_op n) _ _ (tc ++ repeat absent k) _) as [outs|] eqn:Ei; [|discriminate].
          rewrite interp_repeat_absent in Ei. rewrite interp_repeat_absent.
          erewrite interp_mono; [exact E| |exact Ei].
          apply Forall2_map_same. intros g Hg args r' Hr. assert (Hug : usedg AE g) by (exists v, n, i, aenv; auto).
          destruct (s_graph s g) as [gr|] eqn:Eg; [|discriminate].
          destruct (sim_graph_g AE HS _ Hug _ Eg) as [gr' [Eg' [Hgi Hgo]]]. rewrite Eg', Hgi, Hgo, map_opt_map.
          destruct (sim_graphformal_g AE HS _ Hug _ Eg) as [Hgf HgL].
          eapply map_opt_impl; [|exact Hr]. intros x y Hx Hy. apply IH; [exact Ha | apply env_ok_bind; assumption | | exact Hy].
          rewrite Forall_forall in HgL. apply HgL. exact Hx.
      - (* node with trailing outputs dropped *)
        rewrite Hi, Hp in E. assert (Hu : used (n_op n)) by (exists v, n, i; auto). cbn [den]. rewrite (env_none env v He Eenv Hd), Hi', Hp'.
        destruct (map_opt _ (n_ins n)) as [tins|] eqn:Eins; [|discriminate].
        assert (Emap : map_opt (inval (D s' f aenv env)) (map (option_map sg) (n_ins n)) = Some tins).
        { rewrite map_opt_map. eapply map_opt_impl; [|exact Eins].
          intros [w|] y Hw Hy; simpl; [apply IH; auto | exact Hy]. }
        rewrite Hc, map_opt_app in Emap.
        destruct (map_opt _ c) as [tc|] eqn:Ec; [|discriminate].
        rewrite (map_opt_repeat _ None absent k eq_refl) in Emap. injection Emap as <-.
        rewrite Hc', map_opt_app, Ec, (map_opt_repeat _ None absent k' eq_refl).
        rewrite Hop, Hat. rewrite Hfn in E. rewrite (sim_funcnone_g AE HS _ Hu Hfn).
        destruct (interp (n_op n) _ _ (tc ++ repeat absent k) _) as [outs|] eqn:Ei; [|discriminate].
        rewrite interp_repeat_absent in Ei. rewrite interp_repeat_absent.
        assert (Ei' : interp (n_op n) (resolve aenv (n_attrs n))
                        (map (fun g args => match s_graph s' g with
                                            | None => None
                                            | Some gr => map_opt (D s' f aenv (bind T absent (g_ins gr) args ++ env)) (g_outs gr)
                                            end) (attr_graphs (resolve aenv (n_attrs n)))) tc (length (n_outs n)) = Some outs).
        { eapply interp_mono; [|exact Ei].
          apply Forall2_map_same. intros g Hg args r' Hr. assert (Hug : usedg AE g) by (exists v, n, i, aenv; auto).
          destruct (s_graph s g) as [gr|] eqn:Eg; [|discriminate].
          destruct (sim_graph_g AE HS _ Hug _ Eg) as [gr' [Eg' [Hgi Hgo]]]. rewrite Eg', Hgi, Hgo, map_opt_map.
          destruct (sim_graphformal_g AE HS _ Hug _ Eg) as [Hgf HgL].
          eapply map_opt_impl; [|exact Hr]. intros x y Hx Hy. apply IH; [exact Ha | apply env_ok_bind; assumption | | exact Hy].
          rewrite Forall_forall in HgL. apply HgL. exact Hx. }
        destruct (Htrim _ _ _ _ Ei') as [outs' [Eo Hnth]]. rewrite Eo, (Hnth i Hlt). exact E.
      - (* eliminated Identity *)
        rewrite Hi, Hp, Hins, Hfn, Hlen in E. simpl in E.
        destruct (D s f aenv env x) as [tx|] eqn:Ex; [|discriminate].
        rewrite (interp_identity _ _ _ tx Hid) in E. simpl in E. injection E as <-.
        rewrite Hsg. apply den_mono. apply IH; assumption.
      - (* lifted Constant *)
        rewrite Hi, Hp, Hins, Hfn, Hlen in E. simpl in E. rewrite Hc in E. simpl in E.
        cbn [den]. rewrite (env_none env v He Eenv (or_intror Hnf)), Hi'. exact E.
      - rewrite Hi, Hp in E. discriminate.
      - (* node with equivalent attributes *)
        rewrite Hi, Hp in E. assert (Hu : used (n_op n)) by (exists v, n, i; auto). cbn [den]. rewrite (env_none env v He Eenv Hd), Hi', Hp'.
        destruct (map_opt _ (n_ins n)) as [tins|] eqn:Eins; [|discriminate].
        assert (Emap : map_opt (inval (D s' f aenv env)) (map (option_map sg) (n_ins n)) = Some tins).
        { rewrite map_opt_map. eapply map_opt_impl; [|exact Eins].
          intros [w|] y Hw Hy; simpl; [apply IH; auto | exact Hy]. }
        rewrite Hc, map_opt_app in Emap.
        destruct (map_opt _ c) as [tc|] eqn:Ec; [|discriminate].
        rewrite (map_opt_repeat _ None absent k eq_refl) in Emap. injection Emap as <-.
        rewrite Hc', map_opt_app, Ec, (map_opt_repeat _ None absent k' eq_refl).
        rewrite Hop, Hno. rewrite Hfn in E. rewrite (sim_funcnone_g AE HS _ Hu Hfn). rewrite Hag, Hat.
        destruct (interp (n_op n) _ _ (tc ++ repeat absent k) _) as [outs|] eqn:Ei; [|discriminate].
        rewrite interp_repeat_absent in Ei. rewrite interp_repeat_absent.
        erewrite interp_mono; [exact E| |exact Ei].
        apply Forall2_map_same. intros g Hg args r' Hr. assert (Hug : usedg AE g) by (exists v, n, i, aenv; auto).
        destruct (s_graph s g) as [gr|] eqn:Eg; [|discriminate].
        destruct (sim_graph_g AE HS _ Hug _ Eg) as [gr' [Eg' [Hgi Hgo]]]. rewrite Eg', Hgi, Hgo, map_opt_map.
        destruct (sim_graphformal_g AE HS _ Hug _ Eg) as [Hgf HgL].
        eapply map_opt_impl; [|exact Hr]. intros x y Hx Hy. apply IH; [exact Ha | apply env_ok_bind; assumption | | exact Hy].
        rewrite Forall_forall in HgL. apply HgL. exact Hx.
    Qed.
    Theorem sim_refines : Sim ->
      forall f aenv env v r, env_ok formal env -> L v -> D s f aenv env v = Some r -> D s' f aenv env (sg v) = Some r.
    Proof. intros HS f aenv env v r. apply (simg_refines (fun _ => True)); [apply Sim_SimG; exact HS | exact I]. Qed.
  End Sim.
End Sem.

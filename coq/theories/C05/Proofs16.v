(* C05/Proofs16.v — RemoveUnusedFunctionsPass (checked model) and the passes that only touch annotations. *)
From Coq Require Import ZArith NArith List Bool Lia.
From IRV Require Import Base.Exn Gen.C05Gen C05.Model C05.Proofs C05.Proofs2 C05.Proofs3 C05.Proofs14.
Import ListNotations.
Open Scope N_scope.

Section RmFunc.
  Variable T : Type.
  Variable absent : T.
  Variable tensor_val : tensor -> T.
  Variable interp : opid -> list (str * attr) -> list (subfn T) -> list T -> nat -> option (list T).
  Hypothesis interp_mono : forall op attrs subs subs' ins k r,
      Forall2 (sub_le T) subs subs' -> interp op attrs subs ins k = Some r -> interp op attrs subs' ins k = Some r.
  Hypothesis interp_identity : forall op attrs subs x,
      is_identity_op op = true -> interp op attrs subs [x] 1%nat = Some [x].
  Hypothesis interp_trailing_absent : forall op attrs subs ins k,
      interp op attrs subs (ins ++ [absent]) k = interp op attrs subs ins k.

  Theorem rmfunc_checked_computes fuel m : WF m ->
    forall env r, env_ok T (formal_of m) env -> computes absent tensor_val interp m env r ->
                  computes absent tensor_val interp (remove_unused_funcs_checked fuel m) env r.
  Proof.
    intros HW env r He Hc. unfold remove_unused_funcs_checked.
    destruct (rmfunc_ok fuel m && dropped_bodies_no_inits m (used_funcs fuel m GMain [])) eqn:E; [|exact Hc].
    apply andb_prop in E. destruct E as [E1 E2].
    eapply (remove_unused_funcs_computes T absent tensor_val interp interp_mono interp_identity interp_trailing_absent fuel m HW E1); eauto.
  Qed.
  Lemma rmfunc_checked_WF fuel m : WF m -> WF (remove_unused_funcs_checked fuel m).
  Proof. intros HW. unfold remove_unused_funcs_checked. destruct (_ && _); [apply remove_unused_funcs_WF; exact HW | exact HW]. Qed.
  Lemma rmfunc_checked_NoOpFunc fuel m : NoOpFunc m -> NoOpFunc (remove_unused_funcs_checked fuel m).
  Proof. intros HN. unfold remove_unused_funcs_checked. destruct (_ && _); [apply remove_unused_funcs_NoOpFunc; exact HN | exact HN]. Qed.
  Lemma rmfunc_checked_main fuel m : m_main (remove_unused_funcs_checked fuel m) = m_main m.
  Proof. unfold remove_unused_funcs_checked. destruct (_ && _); [apply remove_unused_funcs_main | reflexivity]. Qed.
End RmFunc.

(* ---------------------------------------------------------------- annotated models: names, doc strings, metadata,
   value_info (types, shapes), opset tables are an opaque annotation next to the term; the semantics ignores it, so a
   pass that changes nothing but the annotation (NameFix, ClearMetadataAndDocString, ShapeInference, RemoveUnusedOpsets
   — the harness checks on every run that the term is unchanged) preserves what the model computes. *)
Definition amodel (Ann : Type) : Type := (model * Ann)%type.
Definition computes_a {T Ann} (absent : T) tensor_val interp (am : amodel Ann) (env : list (vid * T)) (r : list T) : Prop :=
  computes absent tensor_val interp (fst am) env r.
Theorem annotation_irrelevant {T Ann} (absent : T) tensor_val interp (m : model) (a a' : Ann) env r :
  computes_a absent tensor_val interp (m, a) env r <-> computes_a absent tensor_val interp (m, a') env r.
Proof. unfold computes_a. simpl. tauto. Qed.
Theorem frame_pass_preserves {T Ann} (absent : T) tensor_val interp (P : amodel Ann -> amodel Ann) :
  (forall am, fst (P am) = fst am) ->
  forall am env r, computes_a absent tensor_val interp am env r <-> computes_a absent tensor_val interp (P am) env r.
Proof. intros H am env r. unfold computes_a. rewrite H. tauto. Qed.

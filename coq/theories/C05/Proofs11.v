(* C05/Proofs11.v — CommonSubexpressionEliminationPass as a whole: stage A (substitute the removed node's values by the
   kept node's, everywhere incl. graph outputs) composed with stage B (aliasing of graph outputs by Identity nodes,
   Proofs7/Proofs8), then the loop over the main graph. *)
From Coq Require Import ZArith NArith List Bool Lia Permutation.
From IRV Require Import Base.Exn Gen.C05Gen C05.Model C05.Proofs C05.Proofs2 C05.Proofs3 C05.Proofs4 C05.Proofs5 C05.Proofs6 C05.Proofs7 C05.Proofs8.
Import ListNotations.
Open Scope N_scope.


(* ---------------------------------------------------------------- the output plan of _remove_node_and_replace_values *)
Lemma alookup_combine_Some (vs ws : list vid) o w : alookup (combine vs ws) o = Some w ->
  exists i, nth_error vs i = Some o /\ nth_error ws i = Some w.
Proof.
  revert ws. induction vs as [|a vs IH]; intros [|b ws] E; simpl in E; try discriminate.
  destruct (N.eqb a o) eqn:Ea.
  - apply N.eqb_eq in Ea. subst a. injection E as <-. exists O. auto.
  - destruct (IH ws E) as [i [A B]]. exists (S i). auto.
Qed.
Lemma alookup_combine_None (vs ws : list vid) o : length vs = length ws -> alookup (combine vs ws) o = None -> ~ In o vs.
Proof.
  revert ws. induction vs as [|a vs IH]; intros ws Hl E Hin; [contradiction|].
  destruct ws as [|b ws]; [discriminate|]. simpl in E, Hl.
  destruct (N.eqb a o) eqn:Ea; [discriminate|]. apply N.eqb_neq in Ea. destruct Hin as [H|H]; [congruence|].
  apply (IH ws); auto.
Qed.

Section Plan.
  Variables (m : model) (pairs : list (vid * vid)) (sg : vid -> vid).
  Hypothesis pairs_sg : forall o w, alookup pairs o = Some w -> sg o = w.
  Hypothesis pairs_none : forall o, alookup pairs o = None -> sg o = o.

  Definition PR (acc : list node) (o o' : vid) : Prop := o' = sg o \/ In (mkNode OP_Identity [] [Some (sg o)] [o']) acc.
  Lemma PR_mono acc acc' o o' : PR acc o o' -> PR (acc ++ acc') o o'.
  Proof. intros [H|H]; [left; exact H | right; apply in_app_iff; left; exact H]. Qed.

  Lemma alias_plan_spec : forall todo aliases done fresh outs ids fr acc,
    alias_plan m pairs aliases done todo fresh = (outs, ids, fr) ->
    (forall o r, alookup aliases o = Some r -> PR acc o r) ->
    fresh <= fr /\ exists X, outs = rev done ++ X /\ Forall2 (PR (acc ++ ids)) todo X
      /\ (forall n, In n ids -> exists w f, n = mkNode OP_Identity [] [Some w] [f] /\ fresh <= f < fr)
      /\ NoDup (flat_map n_outs ids).
  Proof.
    induction todo as [|o rest IH]; intros aliases done fresh outs ids fr acc E Hal; simpl in E.
    - inversion E; subst; clear E. split; [lia|]. exists []. rewrite app_nil_r. repeat split; [constructor | intros n [] | constructor].
    - destruct (alookup aliases o) as [r|] eqn:Ea.
      + destruct (IH _ _ _ _ _ _ acc E Hal) as [Hle [X [HX [HF [Hids Hnd]]]]]. split; [exact Hle|].
        exists (r :: X). split; [rewrite HX; simpl; rewrite <- app_assoc; reflexivity|].
        split; [constructor; [apply PR_mono; apply Hal; exact Ea | exact HF] | auto].
      + destruct (alookup pairs o) as [w|] eqn:Ep.
        * match type of E with context [if ?c then _ else _] => destruct c end.
          -- destruct (alias_plan m pairs ((o, fresh) :: aliases) (fresh :: done) rest (fresh + 1)) as [[outs' ids'] fr'] eqn:E'.
             cbv beta iota zeta in E. inversion E; subst; clear E.
             set (idn := mkNode OP_Identity [] [Some w] [fresh]).
             assert (Hal' : forall o0 r, alookup ((o, fresh) :: aliases) o0 = Some r -> PR (acc ++ [idn]) o0 r).
             { intros o0 r H. simpl in H. destruct (N.eqb o o0) eqn:Eo.
               - apply N.eqb_eq in Eo. subst o0. injection H as <-. right. apply in_app_iff. right. left.
                 unfold idn. rewrite (pairs_sg o w Ep). reflexivity.
               - apply PR_mono. apply Hal. exact H. }
             destruct (IH _ _ _ _ _ _ (acc ++ [idn]) E' Hal') as [Hle [X [HX [HF [Hids Hnd]]]]].
             split; [lia|]. exists (fresh :: X). split; [rewrite HX; simpl; rewrite <- app_assoc; reflexivity|].
             rewrite <- app_assoc in HF. simpl in HF.
             split; [constructor; [|exact HF]|].
             { right. apply in_app_iff. right. left. unfold idn. rewrite (pairs_sg o w Ep). reflexivity. }
             split.
             { intros n [<-|Hn]; [exists w, fresh; split; [reflexivity | lia]|].
               destruct (Hids n Hn) as [w0 [f0 [Hn0 Hf0]]]. exists w0, f0. split; [exact Hn0 | lia]. }
             simpl. constructor; [|exact Hnd]. intros Hin. apply in_flat_map in Hin. destruct Hin as [n [Hn Hfn]].
             destruct (Hids n Hn) as [w0 [f0 [Hn0 Hf0]]]. subst n. simpl in Hfn. destruct Hfn as [<-|[]]. lia.
          -- assert (Hal' : forall o0 r, alookup ((o, w) :: aliases) o0 = Some r -> PR acc o0 r).
             { intros o0 r H. simpl in H. destruct (N.eqb o o0) eqn:Eo.
               - apply N.eqb_eq in Eo. subst o0. injection H as <-. left. symmetry. apply pairs_sg. exact Ep.
               - apply Hal. exact H. }
             destruct (IH _ _ _ _ _ _ acc E Hal') as [Hle [X [HX [HF [Hids Hnd]]]]]. split; [exact Hle|].
             exists (w :: X). split; [rewrite HX; simpl; rewrite <- app_assoc; reflexivity|].
             split; [constructor; [left; symmetry; apply pairs_sg; exact Ep | exact HF] | auto].
        * destruct (IH _ _ _ _ _ _ acc E Hal) as [Hle [X [HX [HF [Hids Hnd]]]]]. split; [exact Hle|].
          exists (o :: X). split; [rewrite HX; simpl; rewrite <- app_assoc; reflexivity|].
          split; [constructor; [left; symmetry; apply pairs_none; exact Ep | exact HF] | auto].
  Qed.
End Plan.

Section CSE2.
  Variable T : Type.
  Variable absent : T.
  Variable tensor_val : tensor -> T.
  Variable interp : opid -> list (str * attr) -> list (subfn T) -> list T -> nat -> option (list T).
  Hypothesis interp_mono : forall op attrs subs subs' ins k r,
      Forall2 (sub_le T) subs subs' -> interp op attrs subs ins k = Some r -> interp op attrs subs' ins k = Some r.
  Hypothesis interp_identity : forall op attrs subs x,
      is_identity_op op = true -> interp op attrs subs [x] 1%nat = Some [x].
  Hypothesis interp_trailing_absent : forall op attrs subs ins k,
      interp op attrs subs (ins ++ [absent]) k = interp op attrs subs ins k.
  Notation Pres := (Pres T absent tensor_val interp).

  Definition cse_sg (rem keep : node) : vid -> vid := sg_pairs (combine (n_outs rem) (n_outs keep)).
  Definition stageA (m : model) (rem keep : node) : model :=
    rw (fun n => n) (cse_sg rem keep) (fun n => negb (has_key (node_key rem) n)) (fun _ => g_inits) m.

  (* facts about the substitution *)
  Lemma cse_sg_other rem keep x : length (n_outs keep) = length (n_outs rem) -> ~ In x (n_outs rem) -> cse_sg rem keep x = x.
  Proof. intros Hlen Hx. apply sg_pairs_notin. rewrite map_fst_combine; [exact Hx | symmetry; exact Hlen]. Qed.
  Lemma cse_sg_at m rem keep i v w : WF m -> In rem (all_nodes m) -> In keep (all_nodes m) -> rem <> keep ->
    length (n_outs keep) = length (n_outs rem) -> nth_error (n_outs rem) i = Some v -> nth_error (n_outs keep) i = Some w ->
    cse_sg rem keep v = w.
  Proof.
    intros HW Hrem Hkeep Hne Hlen Hv Hw. unfold cse_sg. eapply sg_pairs_combine; eauto.
    - eapply node_outs_nodup; eauto.
    - intros x Hk Hr. apply Hne. symmetry. eapply producer_unique; eauto.
  Qed.

  Theorem cse_stageA_pres m rem keep :
    WF m -> NoOpFunc m -> In rem (all_nodes m) -> In keep (all_nodes m) -> rem <> keep ->
    cse_key_eqb keep rem = true -> Pres m (stageA m rem keep).
  Proof.
    intros HW HN Hrem Hkeep Hne Hkey.
    unfold cse_key_eqb in Hkey. apply andb_prop in Hkey. destruct Hkey as [Hkey Hat]. apply andb_prop in Hkey. destruct Hkey as [Hkey Hins].
    apply andb_prop in Hkey. destruct Hkey as [Hop Hlen]. apply opid_eqb_eq in Hop. apply Nat.eqb_eq in Hlen.
    apply (list_eqb_sound _ option_N_eqb_eq) in Hins. apply (list_eqb_sound _ cse_attr_eqb_eq) in Hat.
    unfold stageA. set (k := node_key rem). set (sg := cse_sg rem keep).
    assert (Hsg_other : forall x, ~ In x (n_outs rem) -> sg x = x) by (intros x Hx; eapply cse_sg_other; eauto).
    assert (Hrem_ne : n_outs rem <> []) by (apply (wf_nonempty m HW); exact Hrem).
    assert (Hkrem : has_key k rem = true) by (unfold has_key, k; apply N.eqb_refl).
    assert (Hk_only : forall n0, In n0 (all_nodes m) -> has_key k n0 = true -> n0 = rem).
    { intros n0 Hn0 Hk0.
      assert (In k (n_outs n0)) by (apply has_key_first; [exact Hk0 | apply (wf_nonempty m HW); exact Hn0]).
      assert (In k (n_outs rem)) by (apply has_key_first; [exact Hkrem | exact Hrem_ne]).
      eapply producer_unique; eauto. }
    assert (Hinits : all_inits (rw (fun n => n) sg (fun n => negb (has_key k n)) (fun _ => g_inits) m) = all_inits m) by apply all_inits_rw_same.
    apply rw_pres_gen; auto using tr_ok_id; rewrite ?Hinits.
    - apply (wf_inits_nodup m HW).
    - apply (wf_init_prod m HW).
    - intros u Hf. apply Hsg_other. intros Hr. apply (wf_formal m HW u Hf). unfold all_outs. apply in_flat_map. eauto.
    - intros u t0 Eu. assert (Hu : ~ In u (n_outs rem)).
      { intros Hr. apply (wf_init_prod m HW u); [apply alookup_In in Eu; apply in_map_iff; exists (u, t0); auto|].
        unfold all_outs. apply in_flat_map. eauto. }
      rewrite (Hsg_other u Hu). auto.
    - intros v n0 i Ev Ep. destruct (find_prod_In _ _ _ _ Ep) as [Hin0 Hidx]. apply index_of_In in Hidx as Hv.
      destruct (has_key k n0) eqn:Hk0.
      + assert (n0 = rem) by (apply Hk_only; assumption). subst n0. right. left.
        apply index_of_nth in Hidx as Hnth.
        assert (Hi : (i < length (n_outs keep))%nat). { rewrite Hlen. apply nth_error_Some. congruence. }
        destruct (nth_error (n_outs keep) i) as [w|] eqn:Hw; [|apply nth_error_None in Hw; lia].
        assert (Hsgv : sg v = w) by (eapply cse_sg_at; eauto).
        exists keep. rewrite Hsgv.
        assert (Hw_in : In w (n_outs keep)) by (eapply nth_error_In; eauto).
        assert (Epw : find_prod (all_nodes m) w = Some (keep, i)).
        { destruct (find_prod (all_nodes m) w) as [[nk j]|] eqn:E.
          - destruct (find_prod_In _ _ _ _ E) as [Hnk Hj]. assert (nk = keep) by (eapply producer_unique; eauto; eapply index_of_In; eauto). subst nk.
            apply index_of_nth in Hj. f_equal. f_equal.
            assert (Hndk : NoDup (n_outs keep)) by (eapply node_outs_nodup; eauto).
            eapply NoDup_nth_error; eauto. { apply nth_error_Some. congruence. } congruence.
          - exfalso. apply find_prod_None in E. apply E. apply in_flat_map. eauto. }
        split; [exact Epw|]. split.
        { apply negb_true_iff. destruct (has_key k keep) eqn:Hkk; [|reflexivity]. exfalso. apply Hne. symmetry. apply Hk_only; assumption. }
        split.
        { destruct (alookup (all_inits m) w) as [t0|] eqn:E; [|reflexivity]. exfalso.
          apply (wf_init_prod m HW w); [apply alookup_In in E; apply in_map_iff; exists (w, t0); auto|]. unfold all_outs. apply in_flat_map. eauto. }
        repeat split; auto. rewrite Hins. reflexivity.
      + left. split; [reflexivity|]. split; [|exact Ev].
        apply Hsg_other. intros Hr. assert (n0 = rem) by (eapply producer_unique; eauto). subst n0. congruence.
  Qed.

  (* ------------------------------------------------------------ stage B: the actual result of cse_replace *)
  Definition AMP := alias_model_pres T absent tensor_val interp interp_mono interp_identity.

  (* every identity of the model (incl. graph outputs) is below the fresh counter *)
  Definition FreshB (m : model) (fr : N) : Prop :=
    forall v, In v (all_outs m) \/ In v (all_formals m) \/ In v (map fst (all_inits m)) \/ In v (flat_map g_outs (graphs_of m)) -> v < fr.

  Lemma Forall2_map_both {A B C} (R : B -> C -> Prop) (f : A -> B) (g : A -> C) l :
    (forall x, In x l -> R (f x) (g x)) -> Forall2 R (map f l) (map g l).
  Proof. induction l as [|x l IH]; intros H; simpl; constructor; [apply H; left; reflexivity | apply IH; intros; apply H; right; assumption]. Qed.
  Lemma Forall2_map_l {A B C} (R : B -> C -> Prop) (f : A -> B) l l' : Forall2 (fun x y => R (f x) y) l l' -> Forall2 R (map f l) l'.
  Proof. induction 1; simpl; constructor; auto. Qed.
  Lemma Forall2_same {A} (R : A -> A -> Prop) l : (forall x, In x l -> R x x) -> Forall2 R l l.
  Proof. induction l as [|x l IH]; intros H; constructor; [apply H; left; reflexivity | apply IH; intros; apply H; right; assumption]. Qed.

  Lemma Forall2_impl_in {A B} (R R' : A -> B -> Prop) l l' :
    (forall x y, In x l -> In y l' -> R x y -> R' x y) -> Forall2 R l l' -> Forall2 R' l l'.
  Proof.
    intros H HF. induction HF as [|x y l l' Hxy HF IH]; constructor; [apply H; simpl; auto|].
    apply IH. intros; apply H; simpl; auto.
  Qed.

  Lemma Forall2_in_r {A B} (R : A -> B -> Prop) l l' y : Forall2 R l l' -> In y l' -> exists x, In x l /\ R x y.
  Proof.
    induction 1 as [|a b l l' Hab HF IH]; intros Hin; [contradiction|]. destruct Hin as [<-|Hin]; [exists a; simpl; auto|].
    destruct (IH Hin) as [x [Hx HR]]. exists x. simpl. auto.
  Qed.

  Lemma all_nodes_remove k M : all_nodes (remove_node k M) = filter (fun n => negb (has_key k n)) (all_nodes M).
  Proof.
    unfold all_nodes, remove_node. rewrite graphs_of_map_graphs, flat_map_map, filter_flat_map. reflexivity.
  Qed.

  (* inserting `ids` in front of the unique node with key k, then dropping that node *)
  Lemma insert_filter_perm k ids l1 x l2 :
    has_key k x = true -> (forall n, In n (l1 ++ l2) -> has_key k n = false) -> (forall n, In n ids -> has_key k n = false) ->
    Permutation (filter (fun n => negb (has_key k n)) (flat_map (fun n => if has_key k n then ids ++ [n] else [n]) (l1 ++ x :: l2)))
                (filter (fun n => negb (has_key k n)) (l1 ++ x :: l2) ++ ids).
  Proof.
    intros Hx Hl Hids.
    assert (Hfix : forall l, (forall n, In n l -> has_key k n = false) ->
                   filter (fun n => negb (has_key k n)) (flat_map (fun n => if has_key k n then ids ++ [n] else [n]) l) = l
                   /\ filter (fun n => negb (has_key k n)) l = l).
    { induction l as [|a l IH]; intros H; [split; reflexivity|]. simpl.
      rewrite (H a (or_introl eq_refl)). simpl. rewrite (H a (or_introl eq_refl)). simpl.
      destruct (IH (fun n Hn => H n (or_intror Hn))) as [A B]. rewrite A, B. split; reflexivity. }
    assert (Hidsf : filter (fun n => negb (has_key k n)) ids = ids).
    { clear - Hids. induction ids as [|a l IH]; [reflexivity|]. simpl. rewrite (Hids a (or_introl eq_refl)). simpl. f_equal.
      apply IH. intros; apply Hids; right; assumption. }
    destruct (Hfix l1 (fun n Hn => Hl n (proj2 (in_app_iff _ _ _) (or_introl Hn)))) as [A1 B1].
    destruct (Hfix l2 (fun n Hn => Hl n (proj2 (in_app_iff _ _ _) (or_intror Hn)))) as [A2 B2].
    rewrite flat_map_app, !filter_app. simpl. rewrite Hx. rewrite !filter_app. simpl. rewrite Hx. simpl.
    rewrite A1, A2, B1, B2, Hidsf, app_nil_r.
    rewrite <- !app_assoc. apply Permutation_app_head. apply Permutation_app_comm.
  Qed.

  Lemma split_unique k l rem : In rem l -> (forall n, In n l -> has_key k n = true -> n = rem) ->
    NoDup (flat_map n_outs l) -> n_outs rem <> [] ->
    exists l1 l2, l = l1 ++ rem :: l2 /\ forall n, In n (l1 ++ l2) -> has_key k n = false.
  Proof.
    intros Hin Honly Hnd Hne. destruct (in_split _ _ Hin) as [l1 [l2 ->]]. exists l1, l2. split; [reflexivity|].
    intros n Hn. destruct (has_key k n) eqn:Hk; [|reflexivity]. exfalso.
    assert (n = rem). { apply Honly; [|exact Hk]. apply in_app_iff in Hn. apply in_app_iff. simpl. tauto. } subst n.
    destruct (n_outs rem) as [|x r] eqn:Eo; [congruence|].
    rewrite flat_map_app in Hnd. simpl in Hnd. rewrite Eo in Hnd.
    apply in_app_iff in Hn. destruct Hn as [Hn|Hn].
    - apply (NoDup_app_disj _ _ x Hnd); [apply in_flat_map; exists rem; rewrite Eo; simpl; auto | simpl; auto].
    - apply NoDup_app_remove_l in Hnd. simpl in Hnd. inversion Hnd; subst. apply H1. apply in_app_iff. right.
      apply in_flat_map. exists rem. rewrite Eo. simpl. auto.
  Qed.

  (* values produced by main-graph nodes are not outputs of subgraphs / functions (part of "outputs are local") *)
  Definition MainLocal (m : model) : Prop :=
    forall g, In g (other_graphs m) -> forall n, In n (g_nodes (m_main m)) -> forall x, In x (n_outs n) -> ~ In x (g_outs g).

  Theorem cse_replace_pres m rem keep fresh :
    WF m -> NoOpFunc m -> In rem (g_nodes (m_main m)) -> In keep (all_nodes m) -> rem <> keep ->
    cse_key_eqb keep rem = true ->
    MainLocal m ->
    FreshB m fresh ->
    Pres m (fst (cse_replace m rem keep fresh)) /\ fresh <= snd (cse_replace m rem keep fresh)
    /\ FreshB (fst (cse_replace m rem keep fresh)) (snd (cse_replace m rem keep fresh))
    /\ MainLocal (fst (cse_replace m rem keep fresh)).
  Proof.
    intros HW HN Hrem_main Hkeep Hne Hkey HML HF.
    assert (Hloc : forall g, In g (other_graphs m) -> forall x, In x (n_outs rem) -> ~ In x (g_outs g)).
    { intros g Hg x Hx. exact (HML g Hg rem Hrem_main x Hx). }
    assert (Hrem : In rem (all_nodes m)) by (unfold all_nodes, graphs_of; simpl; apply in_app_iff; left; exact Hrem_main).
    pose proof (cse_stageA_pres m rem keep HW HN Hrem Hkeep Hne Hkey) as PA.
    assert (Hlen : length (n_outs keep) = length (n_outs rem)).
    { unfold cse_key_eqb in Hkey. apply andb_prop in Hkey. destruct Hkey as [Hkey _]. apply andb_prop in Hkey. destruct Hkey as [Hkey _].
      apply andb_prop in Hkey. destruct Hkey as [_ Hl]. apply Nat.eqb_eq in Hl. exact Hl. }
    set (pairs := combine (n_outs rem) (n_outs keep)). set (k := node_key rem). set (sg := cse_sg rem keep).
    assert (Hp_sg : forall o w, alookup pairs o = Some w -> sg o = w).
    { intros o w E. destruct (alookup_combine_Some _ _ _ _ E) as [i [A B]]. eapply cse_sg_at; eauto. }
    assert (Hp_none : forall o, alookup pairs o = None -> sg o = o).
    { intros o E. eapply cse_sg_other; eauto. eapply alookup_combine_None; [|exact E]. symmetry. exact Hlen. }
    assert (Hsg_other : forall x, ~ In x (n_outs rem) -> sg x = x) by (intros; eapply cse_sg_other; eauto).
    assert (Hrem_ne : n_outs rem <> []) by (apply (wf_nonempty m HW); exact Hrem).
    assert (Hkrem : has_key k rem = true) by (unfold has_key, k; apply N.eqb_refl).
    assert (Hk_only : forall n0, In n0 (all_nodes m) -> has_key k n0 = true -> n0 = rem).
    { intros n0 Hn0 Hk0.
      assert (In k (n_outs n0)) by (apply has_key_first; [exact Hk0 | apply (wf_nonempty m HW); exact Hn0]).
      assert (In k (n_outs rem)) by (apply has_key_first; [exact Hkrem | exact Hrem_ne]).
      eapply producer_unique; eauto. }
    (* the plan *)
    assert (Hplan : exists outs ids fr,
               (if existsb (is_graph_output m) (n_outs rem) then alias_plan m pairs [] [] (g_outs (m_main m)) fresh
                else (g_outs (m_main m), [], fresh)) = (outs, ids, fr)
               /\ fresh <= fr /\ Forall2 (PR sg ids) (g_outs (m_main m)) outs
               /\ (forall n, In n ids -> exists w f, n = mkNode OP_Identity [] [Some w] [f] /\ fresh <= f < fr)
               /\ NoDup (flat_map n_outs ids)).
    { destruct (existsb (is_graph_output m) (n_outs rem)) eqn:Eg.
      - destruct (alias_plan m pairs [] [] (g_outs (m_main m)) fresh) as [[outs ids] fr] eqn:Epl.
        exists outs, ids, fr. split; [reflexivity|].
        destruct (alias_plan_spec m pairs sg Hp_sg Hp_none _ _ _ _ _ _ _ [] Epl) as [Hle [X [HX [HFa [Hids Hnd]]]]].
        { intros o r H. discriminate. }
        simpl in HX. subst X. simpl in HFa. auto.
      - exists (g_outs (m_main m)), [], fresh. split; [reflexivity|]. split; [lia|]. split; [|split; [intros n []|constructor]].
        apply Forall2_same. intros o Ho. left. symmetry. apply Hsg_other. intros Hr.
        assert (is_graph_output m o = true). { unfold is_graph_output. apply existsb_exists. exists (m_main m). split; [left; reflexivity | apply memN_In; exact Ho]. }
        assert (existsb (is_graph_output m) (n_outs rem) = true) by (apply existsb_exists; eauto). congruence. }
    destruct Hplan as [outs [ids [fr [Epl [Hle [HPR [Hids Hnd_ids]]]]]]].
    unfold cse_replace. fold pairs k. rewrite Epl. cbv zeta. simpl fst. simpl snd.
    rewrite fold_replace_eq. fold sg.
    set (m2 := map_graphs (fun g => mkGraph (g_ins g) (g_inits g) (map (subst_ins sg) (g_nodes g)) (g_outs g)) m).
    set (M := mkModel (mkGraph (g_ins (m_main m2)) (g_inits (m_main m2))
                               (flat_map (fun n => if has_key k n then ids ++ [n] else [n]) (g_nodes (m_main m2))) outs)
                      (m_subs m2) (m_funcs m2)).
    set (m' := remove_node k M).
    set (ma := stageA m rem keep) in *.
    destruct PA as [HWa HNa Hfa Hca Hia Hna].
    (* bounds *)
    assert (Hids_lt : forall f, In f (flat_map n_outs ids) -> fresh <= f < fr).
    { intros f Hf. apply in_flat_map in Hf. destruct Hf as [n [Hn Hfn]]. destruct (Hids n Hn) as [w [f0 [-> Hb]]]. simpl in Hfn. destruct Hfn as [<-|[]]. exact Hb. }
    assert (Hold_a : forall v, In v (all_outs ma) -> v < fresh).
    { intros v Hv. apply HF. left. unfold ma, stageA in Hv. eapply all_outs_rw_incl; eauto using tr_ok_id. }
    assert (Hinits_a : all_inits ma = all_inits m) by apply all_inits_rw_same.
    assert (Hforms_a : all_formals ma = all_formals m) by apply all_formals_rw.
    assert (Hsg_lt : forall o, In o (g_outs (m_main m)) -> sg o < fresh).
    { intros o Ho. destruct (alookup pairs o) as [w|] eqn:E.
      - rewrite (Hp_sg o w E). destruct (alookup_combine_Some _ _ _ _ E) as [i [_ B]]. apply HF. left. unfold all_outs. apply in_flat_map.
        exists keep. split; [exact Hkeep | eapply nth_error_In; eauto].
      - rewrite (Hp_none o E). apply HF. right. right. right. apply in_flat_map. exists (m_main m). split; [left; reflexivity | exact Ho]. }
    assert (Hperm : Permutation (all_nodes m') (all_nodes ma ++ ids)).
    {
        unfold m'. rewrite all_nodes_remove. unfold ma, stageA. rewrite all_nodes_rw.
        unfold all_nodes at 1. unfold graphs_of, M. simpl.
        unfold all_nodes, graphs_of. simpl. rewrite !flat_map_app, !filter_app, !map_app.
        (* main part *)
        destruct (split_unique k (g_nodes (m_main m)) rem Hrem_main) as [l1 [l2 [Hsplit Hno]]].
        { intros n Hn Hk. apply Hk_only; [|exact Hk]. unfold all_nodes, graphs_of. simpl. apply in_app_iff. left. exact Hn. }
        { pose proof (wf_outs m HW) as H. unfold all_outs, all_nodes, graphs_of in H. simpl in H. rewrite flat_map_app in H. eapply NoDup_app_l; eauto. }
        { exact Hrem_ne. }
        rewrite Hsplit. rewrite map_app. simpl map.
        eapply Permutation_trans.
        { apply Permutation_app_tail.
          apply (insert_filter_perm k ids (map (subst_ins sg) l1) (subst_ins sg rem) (map (subst_ins sg) l2)).
          - exact Hkrem.
          - intros n Hn. rewrite <- map_app in Hn. apply in_map_iff in Hn. destruct Hn as [n0 [<- Hn0]]. change (has_key k n0 = false). apply Hno. exact Hn0.
          - intros n Hn. destruct (Hids n Hn) as [w [f [-> Hb]]]. unfold has_key, node_key. simpl. apply N.eqb_neq. intros ->.
            assert (k < fresh). { apply HF. left. unfold all_outs. apply in_flat_map. exists rem. split; [exact Hrem | apply has_key_first; auto]. }
            lia. }
        set (pk := fun n : node => negb (has_key k n)). set (h := subst_ins sg).
        assert (EA : filter pk (map h l1 ++ h rem :: map h l2) = map h (filter pk (l1 ++ rem :: l2))).
        { change (h rem :: map h l2) with (map h (rem :: l2)). rewrite <- map_app. rewrite filter_map_comm. reflexivity. }
        assert (EB : forall (A : Type) (proj : A -> graph) (F : graph -> graph) (xs : list A),
                   (forall g, g_nodes (F g) = map h (g_nodes g)) ->
                   filter pk (flat_map g_nodes (map (fun x => F (proj x)) xs)) = map h (filter pk (flat_map g_nodes (map proj xs)))).
        { intros A proj F xs HFn. rewrite !flat_map_map, filter_flat_map, filter_flat_map, map_flat_map.
          apply flat_map_ext'. intros x _. rewrite HFn, filter_map_comm. reflexivity. }
        rewrite EA. rewrite !map_map. cbn [snd f_body].
        rewrite (EB _ snd (fun g => mkGraph (g_ins g) (g_inits g) (map h (g_nodes g)) (g_outs g)) (m_subs m)) by reflexivity.
        rewrite (EB _ f_body (fun g => mkGraph (g_ins g) (g_inits g) (map h (g_nodes g)) (g_outs g)) (m_funcs m)) by reflexivity.
        change (fun n : node => subst_ins (cse_sg rem keep) n) with h. change (fun n : node => negb (has_key (node_key rem) n)) with pk.
        rewrite <- !app_assoc. apply Permutation_app_head.
        match goal with |- Permutation (ids ++ _) (?B ++ ?C ++ ids) => rewrite (app_assoc B C ids); apply Permutation_app_comm end.
    }
    assert (Hi' : all_inits m' = all_inits ma).
    {
        rewrite Hinits_a. unfold m', all_inits, remove_node. rewrite graphs_of_map_graphs, flat_map_map. unfold M, graphs_of. simpl.
        f_equal. rewrite !flat_map_app, !flat_map_map. simpl. reflexivity.
    }
    assert (PB : Pres ma m').
    { apply (AMP ma m' ids); auto.
      - (* identity nodes *)
        apply Forall_forall. intros n Hn. destruct (Hids n Hn) as [w [f [-> _]]]. split; [reflexivity | exists w, f; auto].
      - (* NoDup *)
        apply NoDup_app_intro; [apply (wf_outs ma HWa) | exact Hnd_ids |].
        intros x Hx Hx2. specialize (Hold_a x Hx). specialize (Hids_lt x Hx2). lia.
      - intros f Hf. specialize (Hids_lt f Hf). rewrite Hforms_a, Hinits_a. split; intros H.
        + assert (f < fresh) by (apply HF; right; left; exact H). lia.
        + assert (f < fresh) by (apply HF; right; right; left; exact H). lia.
      - (* main graph *)
        split; [reflexivity|]. simpl. apply Forall2_map_l.
        eapply Forall2_impl_in; [|exact HPR]. intros o o' Ho _ [->|Hin]; [left; reflexivity|].
        right. eexists. split; [exact Hin|]. split; [reflexivity|]. split; [reflexivity|]. split; [reflexivity|].
        intros Hf. pose proof (Hids_lt _ Hf) as H1. pose proof (Hsg_lt o Ho) as H2. fold sg in H1. lia.
      - (* subgraphs: outputs untouched, and sg fixes them *)
        unfold ma, stageA, rw, mk2, m', remove_node, map_graphs, M, m2, map_graphs. simpl. rewrite !map_map.
        apply Forall2_map_both. intros q Hq. simpl. split; [reflexivity|]. split; [reflexivity|]. simpl.
        apply Forall2_map_l. apply Forall2_same. intros o Ho. left. symmetry. apply Hsg_other.
        intros Hr. assert (Hg' : In (snd q) (other_graphs m)) by (unfold other_graphs; apply in_app_iff; left; apply in_map; exact Hq).
        exact (Hloc (snd q) Hg' o Hr Ho).
      - unfold ma, stageA, rw, mk2, m', remove_node, map_graphs, M, m2, map_graphs. simpl. rewrite !map_map.
        apply Forall2_map_both. intros f Hf. simpl. split; [reflexivity|]. split; [reflexivity|]. split; [reflexivity|]. simpl.
        apply Forall2_map_l. apply Forall2_same. intros o Ho. left. symmetry. apply Hsg_other.
        intros Hr. assert (Hg' : In (f_body f) (other_graphs m)) by (unfold other_graphs; apply in_app_iff; right; apply in_map; exact Hf).
        exact (Hloc (f_body f) Hg' o Hr Ho). }
    assert (PM : Pres m m').
    { eapply Pres_trans; [|exact PB]. constructor; assumption. }
    split; [exact PM|]. split; [exact Hle|].
    (* all identities of the result are below the new counter *)
    split.
    2:{ (* MainLocal of the result *)
      change (MainLocal m'). intros g' Hg' n' Hn' x Hx Hxg.
      assert (Hgo : exists g, In g (other_graphs m) /\ g_outs g' = g_outs g).
      { unfold m', remove_node, M, m2, other_graphs, map_graphs in Hg'. simpl in Hg'. rewrite !map_map in Hg'. simpl in Hg'.
        apply in_app_iff in Hg'. destruct Hg' as [Hg'|Hg']; apply in_map_iff in Hg'; destruct Hg' as [q [<- Hq]]; simpl.
        - exists (snd q). split; [unfold other_graphs; apply in_app_iff; left; apply in_map; exact Hq | reflexivity].
        - exists (f_body q). split; [unfold other_graphs; apply in_app_iff; right; apply in_map; exact Hq | reflexivity]. }
      destruct Hgo as [g [Hg Ego]]. rewrite Ego in Hxg.
      unfold m', remove_node, M, m2, map_graphs in Hn'. simpl in Hn'. apply filter_In in Hn'. destruct Hn' as [Hn' _].
      apply in_flat_map in Hn'. destruct Hn' as [n1 [Hn1 Hn']]. apply in_map_iff in Hn1. destruct Hn1 as [n0 [<- Hn0]].
      assert (Hcase : In n' ids \/ n' = subst_ins sg n0).
      { destruct (has_key k (subst_ins sg n0)); [apply in_app_iff in Hn'; simpl in Hn'; destruct Hn' as [H|[H|[]]]; [left; exact H | right; symmetry; exact H] | simpl in Hn'; destruct Hn' as [H|[]]; right; symmetry; exact H]. }
      destruct Hcase as [Hid| ->].
      - assert (fresh <= x < fr) by (apply Hids_lt; apply in_flat_map; eauto).
        assert (x < fresh); [|lia]. apply HF. right. right. right. apply in_flat_map. exists g. split; [|exact Hxg].
        unfold graphs_of. right. exact Hg.
      - simpl in Hx. exact (HML g Hg n0 Hn0 x Hx Hxg). }
    change (FreshB m' fr). intros v Hv. destruct PM as [HW' HN' Hf' _ _ _].
    destruct Hv as [Hv|[Hv|[Hv|Hv]]].
    - unfold all_outs in Hv. apply in_flat_map in Hv. destruct Hv as [n [Hn Hvn]].
      apply (Permutation_in _ Hperm) in Hn. apply in_app_iff in Hn. destruct Hn as [Hn|Hn].
      + assert (v < fresh) by (apply Hold_a; unfold all_outs; apply in_flat_map; eauto). lia.
      + assert (fresh <= v < fr) by (apply Hids_lt; apply in_flat_map; eauto). lia.
    - rewrite Hf' in Hv. assert (v < fresh) by (apply HF; right; left; exact Hv). lia.
    - rewrite Hi', Hinits_a in Hv. assert (v < fresh) by (apply HF; right; right; left; exact Hv). lia.
    - (* graph outputs of the result *)
      unfold m', remove_node, M, m2 in Hv. rewrite graphs_of_map_graphs, flat_map_map in Hv. unfold graphs_of in Hv. simpl in Hv.
      rewrite !map_map in Hv. simpl in Hv. apply in_app_iff in Hv. destruct Hv as [Hv|Hv].
      + (* main outputs: sg of an old output, or a fresh identity *)
        destruct (Forall2_in_r _ _ _ _ HPR Hv) as [o [Ho [Hvo|Hvo]]].
        * subst v. pose proof (Hsg_lt o Ho). lia.
        * assert (fresh <= v < fr). { apply Hids_lt. apply in_flat_map. eexists. split; [exact Hvo|]. simpl. auto. } lia.
      + assert (v < fresh); [|lia]. apply HF. right. right. right. unfold graphs_of. simpl. apply in_app_iff. right.
        rewrite flat_map_app in *. rewrite !flat_map_map in *. simpl in Hv. exact Hv.
  Qed.


  (* ------------------------------------------------------------ the loop over the main graph *)
  Lemma NoDup_remove_mid {A} (a : list A) x b : NoDup (a ++ x :: b) -> NoDup (a ++ b) /\ ~ In x (a ++ b).
  Proof. intros H. split; [eapply NoDup_remove_1; eauto | eapply NoDup_remove_2; eauto]. Qed.

  Lemma node_keys_nodup l : NoDup (flat_map n_outs l) -> (forall n, In n l -> n_outs n <> []) -> NoDup (map node_key l).
  Proof.
    induction l as [|n l IH]; simpl; intros Hnd Hne; [constructor|].
    constructor; [|apply IH; [eapply NoDup_app_remove_l; eauto | intros; apply Hne; auto]].
    intros Hin. apply in_map_iff in Hin. destruct Hin as [n2 [Hk Hn2]].
    assert (Hne1 := Hne n (or_introl eq_refl)). assert (Hne2 := Hne n2 (or_intror Hn2)).
    unfold node_key in Hk. destruct (n_outs n) as [|x r] eqn:E1; [congruence|]. destruct (n_outs n2) as [|y r2] eqn:E2; [congruence|]. subst y.
    apply (NoDup_app_disj _ _ x Hnd); [left; reflexivity|]. apply in_flat_map. exists n2. rewrite E2. simpl. auto.
  Qed.

  Lemma cse_loop_pres u sl : forall keys seen m fresh,
    WF m -> NoOpFunc m -> MainLocal m -> FreshB m fresh -> NoDup (seen ++ keys) ->
    Pres m (fst (cse_loop u sl keys seen m fresh)).
  Proof.
    induction keys as [|k rest IH]; intros seen m fresh HW HN HML HF Hnd; simpl; [apply Pres_refl; assumption|].
    destruct (NoDup_remove_mid _ _ _ Hnd) as [Hnd' Hk].
    destruct (find (has_key k) (g_nodes (m_main m))) as [n|] eqn:En; [|apply IH; assumption].
    destruct (cse_skip sl n); [apply IH; assumption|].
    destruct (find _ seen) as [k'|] eqn:Es.
    - apply find_some in Es. destruct Es as [Hk's Hpred].
      destruct (find (has_key k') (g_nodes (m_main m))) as [keep|] eqn:Ek; [|apply IH; assumption].
      apply find_some in En. destruct En as [Hn_in Hn_k]. apply find_some in Ek. destruct Ek as [Hkeep_in Hkeep_k].
      assert (Hkeep_all : In keep (all_nodes m)) by (unfold all_nodes, graphs_of; simpl; apply in_app_iff; left; exact Hkeep_in).
      unfold cse_key_eqb_u in Hpred. apply andb_prop in Hpred. destruct Hpred as [_ Hpred].
      assert (Hne : n <> keep).
      { intros ->. unfold has_key in Hn_k, Hkeep_k. apply N.eqb_eq in Hn_k. apply N.eqb_eq in Hkeep_k.
        apply Hk. apply in_app_iff. left. congruence. }
      destruct (cse_replace_pres m n keep fresh HW HN Hn_in Hkeep_all Hne Hpred HML HF) as [P [Hle [HF' HML']]].
      destruct (cse_replace m n keep fresh) as [m' fr] eqn:Er. simpl in *.
      eapply Pres_trans; [exact P|]. destruct P as [HW' HN' _ _ _ _]. apply IH; assumption.
    - apply IH; auto. rewrite <- app_assoc. simpl. exact Hnd.
  Qed.

  Theorem cse_pres u sl m fresh : WF m -> NoOpFunc m -> MainLocal m -> FreshB m fresh -> Pres m (fst (cse u sl m fresh)).
  Proof.
    intros HW HN HML HF. unfold cse. apply cse_loop_pres; auto. simpl.
    apply node_keys_nodup.
    - pose proof (wf_outs m HW) as H. unfold all_outs, all_nodes, graphs_of in H. simpl in H. rewrite flat_map_app in H. eapply NoDup_app_l; eauto.
    - intros n Hn. apply (wf_nonempty m HW). unfold all_nodes, graphs_of. simpl. apply in_app_iff. left. exact Hn.
  Qed.
End CSE2.

(* C05/Proofs6.v — CommonSubexpressionEliminationPass: one merge step (remove `rem`, reuse `keep`) preserves
   what the model computes when (a) the key is faithful on the two nodes' attributes (it is not in general:
   signed zero, NUL-padded strings — Proofs3.cse_key_refuted) and (b) no output of `rem` is a graph output
   (otherwise the pass also rewrites the output list and may insert Identity nodes; not covered here). *)
From Coq Require Import ZArith NArith List Bool Lia.
From IRV Require Import Base.Exn Gen.C05Gen C05.Model C05.Proofs C05.Proofs2 C05.Proofs3 C05.Proofs4 C05.Proofs5.
Import ListNotations.
Open Scope N_scope.

(* sequential substitution performed by the fold of replace_all_uses_with over zip(remove_values, new_values) *)
Fixpoint sg_pairs (pairs : list (vid * vid)) (x : vid) : vid :=
  match pairs with [] => x | (v, w) :: r => sg_pairs r (sub1 v w x) end.

Lemma fold_replace_eq pairs m :
  fold_left (fun m vw => replace_uses false (fst vw) (snd vw) m) pairs m
  = map_graphs (fun g => mkGraph (g_ins g) (g_inits g) (map (subst_ins (sg_pairs pairs)) (g_nodes g)) (g_outs g)) m.
Proof.
  revert m. induction pairs as [|[v w] r IH]; intros m; simpl.
  - rewrite <- (map_graphs_id m) at 1. apply map_graphs_ext. intros g. destruct g as [i t ns o]. simpl. f_equal.
    rewrite <- (map_id ns) at 1. apply map_ext. intros n. symmetry. apply subst_ins_id.
  - rewrite IH. unfold replace_uses. rewrite map_graphs_comp. apply map_graphs_ext. intros g. simpl. f_equal.
    rewrite map_map. apply map_ext. intros n. unfold subst_ins, subst_node. simpl. f_equal.
    rewrite map_map. apply map_ext. intros [x|]; reflexivity.
Qed.

Lemma sg_pairs_notin pairs x : ~ In x (map fst pairs) -> sg_pairs pairs x = x.
Proof.
  revert x. induction pairs as [|[v w] r IH]; intros x H; simpl; [reflexivity|]. simpl in H.
  unfold sub1. destruct (N.eqb x v) eqn:E; [apply N.eqb_eq in E; subst; tauto|]. apply IH. tauto.
Qed.
Lemma sg_pairs_combine vs : forall ws i v w, NoDup vs -> (forall x, In x ws -> ~ In x vs) -> length vs = length ws ->
  nth_error vs i = Some v -> nth_error ws i = Some w -> sg_pairs (combine vs ws) v = w.
Proof.
  induction vs as [|a vs IH]; intros [|b ws] i v w Hnd Hd Hl Hv Hw; try (destruct i; discriminate).
  inversion Hnd; subst. simpl. destruct i as [|i]; simpl in Hv, Hw.
  - injection Hv as Hv. injection Hw as Hw. subst a b. unfold sub1. rewrite N.eqb_refl.
    apply sg_pairs_notin. intros Hin. apply in_map_iff in Hin. destruct Hin as [[x y] [Hx Hxy]]. simpl in Hx. subst x.
    apply in_combine_l in Hxy. apply (Hd w); [left; reflexivity | right; exact Hxy].
  - unfold sub1. destruct (N.eqb v a) eqn:E.
    + apply N.eqb_eq in E. subst a. exfalso. apply H1. eapply nth_error_In; eauto.
    + apply (IH ws i v w); auto. intros x Hx Hxv. apply (Hd x); [right; exact Hx | right; exact Hxv].
Qed.
Lemma map_fst_combine {A B} (a : list A) (b : list B) : length a = length b -> map fst (combine a b) = a.
Proof. revert b. induction a as [|x a IH]; intros [|y b] H; simpl in *; try discriminate; [reflexivity|]. f_equal. apply IH. lia. Qed.

Lemma list_eqb_sound_in {A} (eqb : A -> A -> bool) a b :
  (forall x y, In x a -> In y b -> eqb x y = true -> x = y) -> list_eqb eqb a b = true -> a = b.
Proof.
  revert b. induction a as [|x a IH]; intros [|y b] H E; simpl in E; try discriminate; [reflexivity|].
  apply andb_prop in E. destruct E as [E1 E2]. f_equal; [apply H; simpl; auto|]. apply IH; [|exact E2].
  intros; apply H; simpl; auto.
Qed.

Lemma node_outs_nodup m n : WF m -> In n (all_nodes m) -> NoDup (n_outs n).
Proof.
  intros HW. pose proof (wf_outs m HW) as H. unfold all_outs in H. revert H. induction (all_nodes m) as [|x l IH]; intros H Hn; [contradiction|].
  simpl in H. destruct Hn as [->|Hn]; [eapply NoDup_app_l; eauto | apply IH; [eapply NoDup_app_remove_l; eauto | exact Hn]].
Qed.

Section CSE.
  Variable T : Type.
  Variable absent : T.
  Variable tensor_val : tensor -> T.
  Variable interp : opid -> list (str * attr) -> list (subfn T) -> list T -> nat -> option (list T).
  Hypothesis interp_mono : forall op attrs subs subs' ins k r,
      Forall2 (sub_le T) subs subs' -> interp op attrs subs ins k = Some r -> interp op attrs subs' ins k = Some r.
  Hypothesis interp_identity : forall op attrs subs x,
      is_identity_op op = true -> interp op attrs subs [x] 1%nat = Some [x].
  Hypothesis interp_trailing_absent : forall op attrs subs ins k,
      interp op attrs subs (ins ++ [absent]) k = interp op attrs subs ins k.
  Notation Pres := (Pres T absent tensor_val interp).

  Theorem cse_step_pres m rem keep fresh :
    WF m -> NoOpFunc m -> In rem (all_nodes m) -> In keep (all_nodes m) -> rem <> keep ->
    cse_key_eqb keep rem = true ->
    (forall a b, In a (n_attrs keep) -> In b (n_attrs rem) -> cse_attr_eqb a b = true -> a = b) ->   (* key faithful here *)
    existsb (is_graph_output m) (n_outs rem) = false ->
    Pres m (fst (cse_replace m rem keep fresh)).
  Proof.
    intros HW HN Hrem Hkeep Hne Hkey Hfaith Hnout.
    unfold cse_key_eqb in Hkey. apply andb_prop in Hkey. destruct Hkey as [Hkey Hat]. apply andb_prop in Hkey. destruct Hkey as [Hkey Hins].
    apply andb_prop in Hkey. destruct Hkey as [Hop Hlen]. apply opid_eqb_eq in Hop. apply Nat.eqb_eq in Hlen.
    apply (list_eqb_sound _ option_N_eqb_eq) in Hins. apply (list_eqb_sound_in _ _ _ Hfaith) in Hat.
    unfold cse_replace. rewrite Hnout. cbv zeta. simpl fst.
    assert (Hgen : forall (F : node -> list node) (l : list node), (forall n, F n = [n]) -> flat_map F l = l).
    { intros F l HF. induction l as [|x l IHl]; simpl; [reflexivity|]. rewrite HF, IHl. reflexivity. }
    rewrite Hgen by (intros n; destruct (has_key (node_key rem) n); reflexivity).
    match goal with |- context [mkModel (mkGraph (g_ins ?g) (g_inits ?g) (g_nodes ?g) (g_outs (m_main m))) ?ss ?ff] =>
      assert (Hm2 : mkModel (mkGraph (g_ins g) (g_inits g) (g_nodes g) (g_outs (m_main m))) ss ff
                    = fold_left (fun m vw => replace_uses false (fst vw) (snd vw) m) (combine (n_outs rem) (n_outs keep)) m)
    end.
    { rewrite fold_replace_eq. unfold map_graphs. simpl. reflexivity. }
    rewrite Hm2. clear Hm2.
    set (pairs := combine (n_outs rem) (n_outs keep)). set (k := node_key rem). set (sg := sg_pairs pairs).
    rewrite fold_replace_eq.
    assert (Hnd_rem : NoDup (n_outs rem)) by (eapply node_outs_nodup; eauto).
    assert (Hdisj : forall x, In x (n_outs keep) -> ~ In x (n_outs rem)).
    { intros x Hk Hr. apply Hne. symmetry. eapply producer_unique; eauto. }
    assert (Hfst : map fst pairs = n_outs rem) by (apply map_fst_combine; symmetry; exact Hlen).
    assert (Hsg_other : forall x, ~ In x (n_outs rem) -> sg x = x) by (intros x Hx; apply sg_pairs_notin; rewrite Hfst; exact Hx).
    assert (Hrem_ne : n_outs rem <> []) by (apply (wf_nonempty m HW); exact Hrem).
    assert (Hkrem : has_key k rem = true) by (unfold has_key, k; apply N.eqb_refl).
    assert (Hk_only : forall n0, In n0 (all_nodes m) -> has_key k n0 = true -> n0 = rem).
    { intros n0 Hn0 Hk0.
      assert (In k (n_outs n0)) by (apply has_key_first; [exact Hk0 | apply (wf_nonempty m HW); exact Hn0]).
      assert (In k (n_outs rem)) by (apply has_key_first; [exact Hkrem | exact Hrem_ne]).
      eapply producer_unique; eauto. }
    assert (Hout_not : forall g, In g (graphs_of m) -> forall x, In x (n_outs rem) -> ~ In x (g_outs g)).
    { intros g Hg x Hx. apply (is_graph_output_false m x); [|exact Hg].
      destruct (is_graph_output m x) eqn:E; [|reflexivity]. exfalso.
      assert (existsb (is_graph_output m) (n_outs rem) = true) by (apply existsb_exists; eauto). congruence. }
    assert (Eq : remove_node k (map_graphs (fun g => mkGraph (g_ins g) (g_inits g) (map (subst_ins sg) (g_nodes g)) (g_outs g)) m)
                 = rw (fun n => n) sg (fun n => negb (has_key k n)) (fun _ => g_inits) m).
    { rewrite rw_map_graphs. unfold remove_node. rewrite map_graphs_comp. apply map_graphs_ext_in. intros g Hg.
      unfold rw_graph, set_nodes. simpl. rewrite filter_map_comm. f_equal.
      rewrite <- (map_id (g_outs g)) at 1. apply map_ext_in. intros x Hx. symmetry. apply Hsg_other. intros Hr. exact (Hout_not g Hg x Hr Hx). }
    unfold sg in Eq. fold pairs k in Eq |- *. rewrite Eq. fold sg.
    assert (Hinits : all_inits (rw (fun n => n) sg (fun n => negb (has_key k n)) (fun _ => g_inits) m) = all_inits m) by apply all_inits_rw_same.
    apply rw_pres_gen; auto using tr_ok_id; rewrite ?Hinits.
    - apply (wf_inits_nodup m HW).
    - apply (wf_init_prod m HW).
    - intros u Hf. apply Hsg_other. intros Hr. apply (wf_formal m HW u Hf). unfold all_outs. apply in_flat_map. eauto.
    - intros u t0 Eu. assert (Hu : ~ In u (n_outs rem)).
      { intros Hr. apply (wf_init_prod m HW u); [apply alookup_In in Eu; apply in_map_iff; exists (u, t0); auto|].
        unfold all_outs. apply in_flat_map. eauto. }
      rewrite (Hsg_other u Hu). auto.
    - intros v n0 i Ev Ep. destruct (find_prod_In _ _ _ _ Ep) as [Hin0 Hidx]. apply index_of_In in Hidx as Hv.
      destruct (has_key k n0) eqn:Hk0.
      + (* v is an output of rem: merged into keep *)
        assert (n0 = rem) by (apply Hk_only; assumption). subst n0. right. left.
        apply index_of_nth in Hidx as Hnth.
        assert (Hi : (i < length (n_outs keep))%nat). { rewrite Hlen. apply nth_error_Some. congruence. }
        destruct (nth_error (n_outs keep) i) as [w|] eqn:Hw; [|apply nth_error_None in Hw; lia].
        assert (Hsgv : sg v = w). { unfold sg, pairs. eapply sg_pairs_combine; eauto. }
        exists keep. rewrite Hsgv.
        assert (Hw_in : In w (n_outs keep)) by (eapply nth_error_In; eauto).
        assert (Epw : find_prod (all_nodes m) w = Some (keep, i)).
        { destruct (find_prod (all_nodes m) w) as [[nk j]|] eqn:E.
          - destruct (find_prod_In _ _ _ _ E) as [Hnk Hj]. assert (nk = keep) by (eapply producer_unique; eauto; eapply index_of_In; eauto). subst nk.
            apply index_of_nth in Hj. f_equal. f_equal.
            assert (Hndk : NoDup (n_outs keep)) by (eapply node_outs_nodup; eauto).
            eapply NoDup_nth_error; eauto. { apply nth_error_Some. congruence. } congruence.
          - exfalso. apply find_prod_None in E. apply E. apply in_flat_map. eauto. }
        split; [exact Epw|]. split.
        { apply negb_true_iff. destruct (has_key k keep) eqn:Hkk; [|reflexivity]. exfalso. apply Hne. symmetry. apply Hk_only; assumption. }
        split.
        { destruct (alookup (all_inits m) w) as [t0|] eqn:E; [|reflexivity]. exfalso.
          apply (wf_init_prod m HW w); [apply alookup_In in E; apply in_map_iff; exists (w, t0); auto|]. unfold all_outs. apply in_flat_map. eauto. }
        repeat split; auto. rewrite Hins. reflexivity.
      + left. split; [reflexivity|]. split; [|exact Ev].
        apply Hsg_other. intros Hr. assert (n0 = rem) by (eapply producer_unique; eauto). subst n0. congruence.
  Qed.
End CSE.

(* C05/Proofs15.v — the SEMANTIC core of InlinePass: inlining ONE call of a model-local function preserves what the
   model computes.  Stated, like Proofs7.v, as an abstract simulation between two `sem` records (record `InlineSim`,
   theorem `inline_refines`); nothing is proved here about the executable inliner of Inline.v (`inline_at`): a later
   file shows that `sem_of m` / `sem_of (inline_at .. m ..)` satisfy `InlineSim` (the record only mentions the two pure
   functions `call_attr_map` and `bind_formals` of Inline.v, through which the copies are described).

   Setting: s = before, s' = after inlining the call node c (s_func s (n_op c) = Some fn).
     cl  : the copy map of the Cloner (None = not in the map, Some None = an omitted argument, Some (Some r));
     gm  : the copy map of graph ids (subgraphs nested in the body);
     tau : identity except on the outputs of c, which it maps to the values that replace them;
     Fresh : the identities created by the pass.
   The fuel is NOT preserved (a formal input is looked up in the callee's environment for free, its copy must
   evaluate the argument): fuel f becomes phi f = f * f + 2 * f. *)
From Coq Require Import ZArith NArith List Bool Lia.
From IRV Require Import Base.Exn Gen.C05Gen C05.Model C05.Inline C05.Proofs C05.Proofs7.
Import ListNotations.
Open Scope N_scope.

(* ---------------------------------------------------------------- lookups *)
Lemma il_str_eqb_eq a b : str_eqb a b = true -> a = b.
Proof. apply list_eqb_eq. intros; apply N.eqb_eq. Qed.

Lemma il_alookup_app {A} (l1 l2 : list (N * A)) k :
  alookup (l1 ++ l2) k = match alookup l1 k with Some a => Some a | None => alookup l2 k end.
Proof. induction l1 as [|[k' a] l1 IH]; simpl; [reflexivity|]. destruct (N.eqb k' k); [reflexivity | exact IH]. Qed.

Lemma il_slookup_app {A} (l1 l2 : list (str * A)) k :
  slookup (l1 ++ l2) k = match slookup l1 k with Some a => Some a | None => slookup l2 k end.
Proof. induction l1 as [|[k' a] l1 IH]; simpl; [reflexivity|]. destruct (str_eqb k' k); [reflexivity | exact IH]. Qed.

Lemma il_has_attr_slookup k (l : list (str * attr)) : has_attr k l = false <-> slookup l k = None.
Proof.
  unfold has_attr. induction l as [|[k' a] l IH]; simpl; [tauto|].
  destruct (str_eqb k' k); simpl; [split; discriminate | exact IH].
Qed.

Lemma il_slookup_In {A} (l : list (str * A)) k a : slookup l k = Some a -> exists k', In (k', a) l.
Proof.
  induction l as [|[k' a'] l IH]; simpl; [discriminate|].
  destruct (str_eqb k' k).
  - intros E. injection E as <-. exists k'. left. reflexivity.
  - intros E. destruct (IH E) as [k2 H]. exists k2. right. exact H.
Qed.

(* ---------------------------------------------------------------- attribute environments *)
(* an attribute environment that binds no graph attribute *)
Definition NG (aenv : list (str * attr)) : Prop := forall r a, slookup aenv r = Some a -> is_graph_attr a = false.
Definition no_ref_attrs (l : list (str * attr)) : bool := forallb (fun ka => negb (is_ref_attr (snd ka))) l.

Lemma NG_of_bool l : no_graph_attrs l = true -> NG l.
Proof.
  intros H r a E. destruct (il_slookup_In _ _ _ E) as [k' Hin].
  unfold no_graph_attrs in H. rewrite forallb_forall in H. specialize (H _ Hin). simpl in H.
  apply negb_true_iff in H. exact H.
Qed.

Lemma NG_app a b : NG a -> NG b -> NG (a ++ b).
Proof.
  intros Ha Hb r x E. rewrite il_slookup_app in E.
  destruct (slookup a r) as [y|] eqn:El; [injection E as <-; eapply Ha; eauto | eapply Hb; eauto].
Qed.

Lemma resolve_cons aenv ka l :
  resolve aenv (ka :: l) =
  (match snd ka with
   | ARef _ r => match slookup aenv r with Some a => [(fst ka, a)] | None => [] end
   | _ => [ka] end) ++ resolve aenv l.
Proof. reflexivity. Qed.

Lemma attr_graphs_cons ka l :
  attr_graphs (ka :: l) = (match snd ka with AGraph g => [g] | AGraphs gs => gs | _ => [] end) ++ attr_graphs l.
Proof. reflexivity. Qed.

Lemma resolve_ng aenv attrs : NG aenv -> no_graph_attrs attrs = true -> no_graph_attrs (resolve aenv attrs) = true.
Proof.
  intros Ha. unfold no_graph_attrs. induction attrs as [|[k a] l IH]; intros H; [reflexivity|].
  simpl in H. apply andb_prop in H. destruct H as [H1 H2].
  rewrite resolve_cons, forallb_app, (IH H2), andb_true_r. simpl.
  destruct a as [t p|g|gs|t r]; simpl in *; try discriminate; try reflexivity.
  destruct (slookup aenv r) as [a|] eqn:El; [|reflexivity]. simpl. rewrite (Ha _ _ El). reflexivity.
Qed.

(* every reference attribute (k, ARef _ _) of the call is the only entry named k of the call, and the function has no
   default named k: otherwise `den` (an unresolved reference is an ABSENT entry of the callee's attribute environment,
   so a later entry / the default shows through) and the inliner (which drops the attribute) differ *)
Fixpoint refs_okb (A D : list (str * attr)) : bool :=
  match A with
  | [] => true
  | (k, a) :: A' => (if is_ref_attr a then negb (has_attr k A') && negb (has_attr k D) else true) && refs_okb A' D
  end.

(* what the Cloner substitutes for a reference to r, resolved in the caller's attribute environment *)
Definition am_lookup (AM aenv : list (str * attr)) (r : str) : option attr :=
  match slookup AM r with
  | Some (ARef _ r2) => slookup aenv r2
  | Some a => Some a
  | None => None
  end.

Lemma il_str_eqb_refl a : str_eqb a a = true.
Proof. apply list_eqb_eq; [intros; apply N.eqb_eq | reflexivity]. Qed.

Lemma il_resolve_lookup aenv D r : forall A, refs_okb A D = true ->
  match slookup A r with
  | Some (ARef _ r2) => slookup (resolve aenv A) r = slookup aenv r2 /\ (slookup aenv r2 = None -> slookup D r = None)
  | Some a => slookup (resolve aenv A) r = Some a
  | None => slookup (resolve aenv A) r = None
  end.
Proof.
  induction A as [|[k a] A IH]; intros H; [reflexivity|].
  simpl in H. apply andb_prop in H. destruct H as [H1 H2]. specialize (IH H2).
  rewrite resolve_cons, il_slookup_app. cbn [slookup fst snd].
  destruct (str_eqb k r) eqn:Ek.
  - apply il_str_eqb_eq in Ek. subst k.
    destruct a as [t p|g|gs|t r2]; cbn [slookup]; rewrite ?il_str_eqb_refl; try reflexivity.
    simpl in H1. apply andb_prop in H1. destruct H1 as [Ha Hd].
    apply negb_true_iff in Ha, Hd. apply il_has_attr_slookup in Ha, Hd.
    destruct (slookup aenv r2) as [a2|] eqn:El; cbn [slookup]; rewrite ?il_str_eqb_refl.
    + split; [reflexivity | discriminate].
    + rewrite Ha in IH. split; [exact IH | intros _; exact Hd].
  - destruct a as [t p|g|gs|t r2]; cbn [slookup]; rewrite ?Ek; try exact IH.
    destruct (slookup aenv r2); cbn [slookup]; rewrite ?Ek; exact IH.
Qed.

Lemma il_filter_lookup (A D : list (str * attr)) r : has_attr r A = false ->
  slookup (filter (fun d => negb (has_attr (fst d) A)) D) r = slookup D r.
Proof.
  intros Hr. induction D as [|[k a] D IH]; simpl; [reflexivity|].
  destruct (has_attr k A) eqn:Ek; simpl.
  - destruct (str_eqb k r) eqn:Ekr; [|exact IH]. apply il_str_eqb_eq in Ekr. congruence.
  - destruct (str_eqb k r); [reflexivity | exact IH].
Qed.

(* the callee's attribute environment of `den` against the Cloner's attribute map *)
Lemma il_call_aenv A D aenv r : refs_okb A D = true -> no_ref_attrs D = true ->
  slookup (resolve aenv A ++ D) r = am_lookup (call_attr_map A D) aenv r.
Proof.
  intros Hok Hnr. unfold am_lookup, call_attr_map. rewrite !il_slookup_app.
  pose proof (il_resolve_lookup aenv D r A Hok) as H.
  destruct (slookup A r) as [a|] eqn:EA.
  - destruct a as [t p|g|gs|t r2]; try (rewrite H; reflexivity).
    destruct H as [H1 H2]. rewrite H1. destruct (slookup aenv r2); [reflexivity | apply H2; reflexivity].
  - rewrite H. rewrite il_filter_lookup by (apply il_has_attr_slookup; exact EA).
    destruct (slookup D r) as [a|] eqn:ED; [|reflexivity].
    destruct (il_slookup_In _ _ _ ED) as [k' Hin].
    unfold no_ref_attrs in Hnr. rewrite forallb_forall in Hnr. specialize (Hnr _ Hin). simpl in Hnr.
    destruct a; simpl in Hnr; try reflexivity. discriminate.
Qed.

Lemma il_Forall2_length {A B} (R : A -> B -> Prop) l l' : Forall2 R l l' -> length l = length l'.
Proof. induction 1; simpl; congruence. Qed.

(* ---------------------------------------------------------------- the attributes of a copied node *)
Section AttrCopy.
  Variable AM : list (str * attr).
  Variable gm : gid -> option gid.
  Definition gm_rel (g g' : gid) : Prop := gm g = Some g'.

  (* Cloner.clone_attr, attribute by attribute: data kept; a reference replaced by the entry of AM (itself possibly a
     reference, when the call sits in another function) or DROPPED when AM has no entry; graphs replaced by their copies *)
  Inductive attrs_copy : list (str * attr) -> list (str * attr) -> Prop :=
  | ac_nil : attrs_copy [] []
  | ac_data k t p l l' : attrs_copy l l' -> attrs_copy ((k, AData t p) :: l) ((k, AData t p) :: l')
  | ac_ref k ty r a l l' : slookup AM r = Some a -> attrs_copy l l' -> attrs_copy ((k, ARef ty r) :: l) ((k, a) :: l')
  | ac_ref_drop k ty r l l' : slookup AM r = None -> attrs_copy l l' -> attrs_copy ((k, ARef ty r) :: l) l'
  | ac_graph k g g' l l' : gm g = Some g' -> attrs_copy l l' -> attrs_copy ((k, AGraph g) :: l) ((k, AGraph g') :: l')
  | ac_graphs k gs gs' l l' : Forall2 gm_rel gs gs' -> attrs_copy l l' ->
                              attrs_copy ((k, AGraphs gs) :: l) ((k, AGraphs gs') :: l').

  (* resolved attributes: equal up to the renaming of graph ids *)
  Definition attr_sim (x y : str * attr) : Prop :=
    fst x = fst y /\
    ((snd x = snd y /\ is_graph_attr (snd x) = false)
     \/ (exists g g', snd x = AGraph g /\ snd y = AGraph g' /\ gm g = Some g')
     \/ (exists gs gs', snd x = AGraphs gs /\ snd y = AGraphs gs' /\ Forall2 gm_rel gs gs')).

  Lemma copy_resolve aenvF aenv l l' :
    attrs_copy l l' -> (forall r, slookup aenvF r = am_lookup AM aenv r) -> no_graph_attrs AM = true -> NG aenv ->
    Forall2 attr_sim (resolve aenvF l) (resolve aenv l').
  Proof.
    intros HC HL HAM Hng. induction HC as [|k t p l l' _ IH|k ty r a l l' Ha _ IH|k ty r l l' Ha _ IH|k g g' l l' Hg _ IH|k gs gs' l l' Hg _ IH].
    - constructor.
    - rewrite !resolve_cons. simpl. constructor; [|exact IH]. split; [reflexivity|]. left. split; reflexivity.
    - rewrite !resolve_cons. simpl. rewrite HL. unfold am_lookup. rewrite Ha.
      pose proof (NG_of_bool _ HAM _ _ Ha) as Hna.
      destruct a as [t p|g|gs|t r2]; simpl in Hna; try discriminate; simpl.
      + constructor; [|exact IH]. split; [reflexivity|]. left. split; reflexivity.
      + destruct (slookup aenv r2) as [a2|] eqn:El; simpl; [|exact IH].
        constructor; [|exact IH]. split; [reflexivity|]. left. split; [reflexivity|]. simpl. eapply Hng; eauto.
    - rewrite resolve_cons. simpl. rewrite HL. unfold am_lookup. rewrite Ha. simpl. exact IH.
    - rewrite !resolve_cons. simpl. constructor; [|exact IH]. split; [reflexivity|]. right. left. exists g, g'. auto.
    - rewrite !resolve_cons. simpl. constructor; [|exact IH]. split; [reflexivity|]. right. right. exists gs, gs'. auto.
  Qed.

  Lemma sim_graphs l l' : Forall2 attr_sim l l' -> Forall2 gm_rel (attr_graphs l) (attr_graphs l').
  Proof.
    induction 1 as [|[k a] [k' a'] l l' Hx _ IH]; [constructor|].
    rewrite !attr_graphs_cons. simpl. destruct Hx as [_ Hx]. simpl in Hx.
    destruct Hx as [[E Hn]|[[g [g' [E1 [E2 Hg]]]]|[gs [gs' [E1 [E2 Hg]]]]]].
    - subst a'. destruct a; simpl in Hn; try discriminate; exact IH.
    - subst a a'. simpl. constructor; assumption.
    - subst a a'. apply Forall2_app; assumption.
  Qed.

  (* the shape the hypothesis on operators (interp_graph_ids) asks for *)
  Definition attr_sim_weak (x y : str * attr) : Prop :=
    fst x = fst y /\
    (snd x = snd y \/ (is_graph_attr (snd x) = true /\ is_graph_attr (snd y) = true
                       /\ length (attr_graphs [x]) = length (attr_graphs [y]))).

  Lemma sim_weak l l' : Forall2 attr_sim l l' -> Forall2 attr_sim_weak l l'.
  Proof.
    induction 1 as [|[k a] [k' a'] l l' Hx _ IH]; constructor; [|exact IH].
    destruct Hx as [Hk Hx]. split; [exact Hk|]. simpl in *.
    destruct Hx as [[E _]|[[g [g' [E1 [E2 Hg]]]]|[gs [gs' [E1 [E2 Hg]]]]]].
    - left. exact E.
    - right. subst a a'. simpl. auto.
    - right. subst a a'. unfold attr_graphs. simpl. rewrite !app_nil_r. repeat split. eapply il_Forall2_length; eauto.
  Qed.

  Lemma sim_eq l l' : Forall2 attr_sim l l' -> no_graph_attrs l = true -> l = l'.
  Proof.
    unfold no_graph_attrs. induction 1 as [|[k a] [k' a'] l l' Hx _ IH]; intros Hn; [reflexivity|].
    simpl in Hn. apply andb_prop in Hn. destruct Hn as [H1 H2]. apply negb_true_iff in H1.
    destruct Hx as [Hk Hx]. simpl in *. subst k'.
    destruct Hx as [[E _]|[[g [g' [E1 _]]]|[gs [gs' [E1 _]]]]].
    - subst a'. f_equal. apply IH. exact H2.
    - subst a. discriminate.
    - subst a. discriminate.
  Qed.
End AttrCopy.

(* ---------------------------------------------------------------- small facts on bind / bind_formals *)
Lemma Forall2_In_r {A B} (R : A -> B -> Prop) l l' y : Forall2 R l l' -> In y l' -> exists x, In x l /\ R x y.
Proof.
  induction 1 as [|a b l l' Hab _ IH]; intros Hin; [contradiction|].
  destruct Hin as [<-|Hin]; [exists a; split; [left; reflexivity | exact Hab]|].
  destruct (IH Hin) as [x [Hx HR]]. exists x. split; [right; exact Hx | exact HR].
Qed.

(* ---------------------------------------------------------------- the fuel function *)
Definition phi (f : nat) : nat := (f * f + 2 * f)%nat.
Lemma phi_S f : phi (S f) = (phi f + 2 * f + 3)%nat.
Proof. unfold phi. lia. Qed.
Lemma phi_mono f f' : (f <= f')%nat -> (phi f <= phi f')%nat.
Proof. induction 1 as [|m _ IH]; [lia|]. rewrite phi_S. lia. Qed.

Section Inline.
  Variable T : Type.
  Variable absent : T.
  Variable tensor_val : tensor -> T.
  Variable interp : opid -> list (str * attr) -> list (subfn T) -> list T -> nat -> option (list T).
  Hypothesis interp_mono : forall op attrs subs subs' ins k r,
      Forall2 (sub_le T) subs subs' -> interp op attrs subs ins k = Some r -> interp op attrs subs' ins k = Some r.
  Hypothesis interp_identity : forall op attrs subs x,
      is_identity_op op = true -> interp op attrs subs [x] 1%nat = Some [x].
  (* operators do not look at graph IDENTITIES (the body denotations are passed separately as `subs`) *)
  Hypothesis interp_graph_ids : forall op attrs attrs' subs ins k,
      Forall2 (fun x y => fst x = fst y /\
                          (snd x = snd y \/ (is_graph_attr (snd x) = true /\ is_graph_attr (snd y) = true
                                             /\ length (attr_graphs [x]) = length (attr_graphs [y])))) attrs attrs' ->
      interp op attrs subs ins k = interp op attrs' subs ins k.

  Notation D := (den T absent tensor_val interp).
  Notation inv d := (fun o : option vid => match o with None => Some absent | Some w => d w end).

  Lemma bind_lookup_in xs : forall (a : list T) x t, alookup (bind T absent xs a) x = Some t -> In x xs.
  Proof.
    induction xs as [|z xs IH]; intros a x t H; [discriminate|].
    destruct a as [|t0 a]; simpl in H; (destruct (N.eqb z x) eqn:E; [apply N.eqb_eq in E; left; exact E | right; eapply IH; eauto]).
  Qed.
  Lemma bind_in_lookup xs : forall (a : list T) x, In x xs -> alookup (bind T absent xs a) x <> None.
  Proof.
    induction xs as [|z xs IH]; intros a x H; [contradiction|].
    destruct a as [|t0 a]; simpl; (destruct (N.eqb z x) eqn:E; [discriminate|]);
      (destruct H as [H|H]; [subst z; rewrite N.eqb_refl in E; discriminate | apply IH; exact H]).
  Qed.

  (* the callee's environment against Inline.bind_formals *)
  Lemma bind_args (d : vid -> option T) xs : forall args tins, map_opt (inv d) args = Some tins ->
    forall u t, alookup (bind T absent xs tins) u = Some t ->
      match alookup (bind_formals xs args) u with
      | Some None => t = absent
      | Some (Some a) => d a = Some t /\ In (Some a) args
      | None => False
      end.
  Proof.
    induction xs as [|z xs IH]; intros args tins E u t H; [discriminate|].
    destruct args as [|o args].
    - simpl in E. injection E as <-. simpl in H |- *.
      destruct (N.eqb z u); [injection H as <-; reflexivity|]. exact (IH [] [] eq_refl u t H).
    - simpl in E. destruct (inv d o) as [y|] eqn:Eo; [|discriminate].
      destruct (map_opt _ args) as [ys|] eqn:Er; [|discriminate]. injection E as <-. simpl in H |- *.
      destruct (N.eqb z u).
      + injection H as <-. destruct o as [a|]; [split; [exact Eo | left; reflexivity] | injection Eo as <-; reflexivity].
      + specialize (IH args ys Er u t H). destruct (alookup (bind_formals xs args) u) as [[a|]|]; auto.
        destruct IH as [H1 H2]. split; [exact H1 | right; exact H2].
  Qed.

  (* ------------------------------------------------------------ environment weakening *)
  (* env' agrees with env except that it may additionally bind values of X *)
  Definition env_ext (X : vid -> Prop) (env env' : list (vid * T)) : Prop :=
    forall v, match alookup env v with Some t => alookup env' v = Some t | None => alookup env' v = None \/ X v end.

  Lemma env_ext_refl X env : env_ext X env env.
  Proof. intros v. destruct (alookup env v); auto. Qed.
  Lemma env_ext_app X b env env' : env_ext X env env' -> env_ext X (b ++ env) (b ++ env').
  Proof. intros H v. rewrite !il_alookup_app. destruct (alookup b v); [reflexivity | apply H]. Qed.
  Lemma env_ext_push X b env env' : env_ext X env env' ->
    (forall v t, alookup b v = Some t -> X v /\ alookup env v = None) -> env_ext X env (b ++ env').
  Proof.
    intros H Hb v. specialize (H v). rewrite il_alookup_app.
    destruct (alookup b v) as [t|] eqn:Eb.
    - destruct (Hb v t Eb) as [Hx Hn]. rewrite Hn. right. exact Hx.
    - exact H.
  Qed.

  (* values of X are undefined in s0: binding them cannot change a result already obtained *)
  Lemma den_weaken s0 (X : vid -> Prop) : (forall v, X v -> s_init s0 v = None /\ s_prod s0 v = None) ->
    forall f aenv env env' v t, env_ext X env env' -> D s0 f aenv env v = Some t -> D s0 f aenv env' v = Some t.
  Proof.
    intros HX. induction f as [|f IH]; intros aenv env env' v t Hext E; [discriminate|].
    cbn [den] in E |- *. pose proof (Hext v) as Hv.
    destruct (alookup env v) as [t0|] eqn:E1. { rewrite Hv. exact E. }
    destruct Hv as [Hv|Hx].
    2:{ destruct (HX v Hx) as [A B]. rewrite A, B in E. discriminate. }
    rewrite Hv.
    destruct (s_init s0 v); [exact E|].
    destruct (s_prod s0 v) as [[n i]|]; [|discriminate].
    destruct (map_opt _ (n_ins n)) as [tins|] eqn:Eins; [|discriminate].
    erewrite (map_opt_impl _ (inv (D s0 f aenv env'))); [| |exact Eins].
    2:{ intros [w|] y _ Hy; [eapply IH; eauto | exact Hy]. }
    destruct (s_func s0 (n_op n)); [exact E|].
    destruct (interp (n_op n) _ _ tins _) as [outs|] eqn:Ei; [|discriminate].
    erewrite interp_mono; [exact E| |exact Ei].
    apply Forall2_map_same. intros g _ args r' Hr.
    destruct (s_graph s0 g) as [gr|]; [|discriminate].
    eapply map_opt_impl; [|exact Hr]. intros x y _ Hy. eapply IH; [|exact Hy]. apply env_ext_app. exact Hext.
  Qed.

  Lemma Forall2_map2 {A B} (R : A -> B -> Prop) (F : A -> subfn T) (G : B -> subfn T) l l' :
    Forall2 R l l' -> (forall x y, R x y -> sub_le T (F x) (G y)) -> Forall2 (sub_le T) (map F l) (map G l').
  Proof. intros H HF. induction H; simpl; constructor; auto. Qed.

  (* ------------------------------------------------------------ the simulation record *)
  Variables (s s' : sem) (formal Fresh : vid -> Prop) (c : node) (fn : func).
  Variables (cl : vid -> option (option vid)) (gm : gid -> option gid) (tau : vid -> vid).

  Notation xs := (g_ins (f_body fn)).
  Notation os := (g_outs (f_body fn)).
  Notation DF := (f_defaults fn).
  Notation CA := (n_attrs c).
  Notation AM := (call_attr_map (n_attrs c) (f_defaults fn)).

  (* the copy of a formal input of a subgraph nested in the body: fresh, neither initializer nor produced *)
  Definition nformal' (w : vid) : Prop := Fresh w /\ s_init s' w = None /\ s_prod s' w = None.

  (* input of a copied node: through the copy map (None stays None); every input is in the domain of the map
     (a function body cannot capture outer values) *)
  Definition in_copy (o o' : option vid) : Prop := match o with None => o' = None | Some x => cl x = Some o' end.

  Record node_copy (n n' : node) : Prop := {
    nc_op : n_op n' = n_op n;
    nc_nouts : length (n_outs n') = length (n_outs n);
    nc_ins : Forall2 in_copy (n_ins n) (n_ins n');
    nc_attrs : attrs_copy AM gm (n_attrs n) (n_attrs n') }.

  (* w is the copy of the body-closure value u (u is not a formal input of the function) *)
  Definition copy_case (u w : vid) : Prop :=
    Fresh w /\ s_init s' w = s_init s u /\
    (s_init s u = None ->
     match s_prod s u with
     | None => True                                   (* formal of a nested subgraph, or undefined *)
     | Some (n, i) => exists n', s_prod s' w = Some (n', i) /\ node_copy n n'
     end).

  (* an old node: same operator, attributes, number of outputs; inputs through tau *)
  Definition old_node (n n' : node) : Prop :=
    n_op n' = n_op n /\ n_attrs n' = n_attrs n /\ length (n_outs n') = length (n_outs n)
    /\ n_ins n' = map (option_map tau) (n_ins n).

  (* r replaces the call output whose body output is o: what the copy map gives for o, or a fresh Identity of it *)
  Definition result_rel (o r : vid) : Prop :=
    cl o = Some (Some r)
    \/ (exists a idn, cl o = Some (Some a) /\ Fresh r /\ s_init s' r = None /\ s_prod s' r = Some (idn, O)
                      /\ is_identity_op (n_op idn) = true /\ n_ins idn = [Some a] /\ length (n_outs idn) = 1%nat
                      /\ s_func s' (n_op idn) = None).

  Record InlineSim : Prop := {
    (* the call *)
    il_call : s_func s (n_op c) = Some fn;
    il_am_nograph : no_graph_attrs AM = true;
    il_refs_ok : refs_okb CA DF = true;
    il_defaults_noref : no_ref_attrs DF = true;
    il_args_old : forall a, In (Some a) (n_ins c) -> tau a = a;
    (* tau, Fresh *)
    il_formal_fix : forall v, formal v -> tau v = v;
    il_fresh_nf : forall v, Fresh v -> ~ formal v;
    (* (1) old values *)
    il_init : forall v t, s_init s v = Some t -> tau v = v /\ s_init s' v = Some t;
    il_node : forall v n i, s_init s v = None -> s_prod s v = Some (n, i) ->
        (tau v = v /\ s_init s' v = None /\ exists n', s_prod s' v = Some (n', i) /\ old_node n n')
        \/ (n = c /\ forall o, nth_error os i = Some o -> result_rel o (tau v));
    il_call_attrs : forall v n i fn2, s_prod s v = Some (n, i) -> s_func s (n_op n) = Some fn2 ->
        no_graph_attrs (n_attrs n) = true;
    (* (4) old subgraphs and functions *)
    il_graph : forall g gr, s_graph s g = Some gr ->
        exists gr', s_graph s' g = Some gr' /\ g_ins gr' = g_ins gr /\ g_outs gr' = map tau (g_outs gr)
                    /\ Forall formal (g_ins gr);
    il_func : forall op fn2, s_func s op = Some fn2 ->
        exists fn2', s_func s' op = Some fn2' /\ g_ins (f_body fn2') = g_ins (f_body fn2)
                     /\ g_outs (f_body fn2') = map tau (g_outs (f_body fn2)) /\ f_defaults fn2' = f_defaults fn2
                     /\ Forall formal (g_ins (f_body fn2)) /\ no_graph_attrs (f_defaults fn2) = true;
    il_func_none : forall op, s_func s op = None -> s_func s' op = None;
    (* (3) the copy map *)
    il_cl_formal : forall x, In x xs -> cl x = alookup (bind_formals xs (n_ins c)) x;
    il_cl_none : forall u, cl u = Some None -> In u xs;
    il_cl_copy : forall u w, cl u = Some (Some w) -> In u xs \/ copy_case u w;
    il_cl_inj : forall u u' w, Fresh w -> cl u = Some (Some w) -> cl u' = Some (Some w) -> u = u';
    il_gm : forall g g' gr, gm g = Some g' -> s_graph s g = Some gr ->
        exists gr', s_graph s' g' = Some gr'
                    /\ Forall2 (fun z z' => cl z = Some (Some z') /\ nformal' z') (g_ins gr) (g_ins gr')
                    /\ Forall2 (fun o o' => cl o = Some (Some o')) (g_outs gr) (g_outs gr') }.

  Hypothesis HI : InlineSim.

  Lemma nformal_undef v : nformal' v -> s_init s' v = None /\ s_prod s' v = None.
  Proof. intros [_ H]. exact H. Qed.

  (* formals of a nested subgraph against their copies *)
  Lemma bind_copy zs zs' : Forall2 (fun z z' => cl z = Some (Some z') /\ nformal' z') zs zs' ->
    forall (a : list T) u,
      (forall t, alookup (bind T absent zs a) u = Some t ->
                 exists w, cl u = Some (Some w) /\ alookup (bind T absent zs' a) w = Some t)
      /\ (alookup (bind T absent zs a) u = None ->
          forall w, cl u = Some (Some w) -> alookup (bind T absent zs' a) w = None).
  Proof.
    induction 1 as [|z z' zs zs' [Hz [Hf _]] _ IH]; intros a u.
    - simpl. split; [discriminate | reflexivity].
    - assert (Hne : forall w, N.eqb z u = false -> cl u = Some (Some w) -> N.eqb z' w = false).
      { intros w Ezu Hw. destruct (N.eqb z' w) eqn:E; [|reflexivity]. apply N.eqb_eq in E. subst w.
        rewrite (il_cl_inj HI u z z' Hf Hw Hz), N.eqb_refl in Ezu. discriminate. }
      destruct a as [|t0 a]; simpl.
      + destruct (IH [] u) as [I1 I2]. destruct (N.eqb z u) eqn:Ezu.
        * apply N.eqb_eq in Ezu. subst u. split; [|discriminate].
          intros t E. injection E as <-. exists z'. rewrite N.eqb_refl. auto.
        * split.
          -- intros t E. destruct (I1 t E) as [w [Hw Hl]]. exists w. rewrite (Hne w eq_refl Hw). auto.
          -- intros E w Hw. rewrite (Hne w eq_refl Hw). apply I2; assumption.
      + destruct (IH a u) as [I1 I2]. destruct (N.eqb z u) eqn:Ezu.
        * apply N.eqb_eq in Ezu. subst u. split; [|discriminate].
          intros t E. injection E as <-. exists z'. rewrite N.eqb_refl. auto.
        * split.
          -- intros t E. destruct (I1 t E) as [w [Hw Hl]]. exists w. rewrite (Hne w eq_refl Hw). auto.
          -- intros E w Hw. rewrite (Hne w eq_refl Hw). apply I2; assumption.
  Qed.

  (* ------------------------------------------------------------ callee environment vs caller environment *)
  (* env: the caller's environment at the call; K: fuel with which the arguments evaluate in s';
     envF: callee environment (bind xs tins, extended by formals of nested subgraphs);
     envC: caller environment extended by the copies of those formals *)
  Definition erel (K : nat) (aenv : list (str * attr)) (env envF envC : list (vid * T)) : Prop :=
    env_ext nformal' env envC /\
    (forall x, In x xs -> alookup envF x <> None) /\
    forall u,
      (forall t, alookup envF u = Some t ->
         match cl u with
         | Some None => t = absent
         | Some (Some w) => D s' K aenv env w = Some t \/ alookup envC w = Some t
         | None => False
         end)
      /\ (alookup envF u = None -> forall w, cl u = Some (Some w) -> Fresh w -> alookup envC w = None).

  Lemma erel_push K aenv env envF envC zs zs' a :
    env_ok T formal env -> erel K aenv env envF envC ->
    Forall2 (fun z z' => cl z = Some (Some z') /\ nformal' z') zs zs' ->
    erel K aenv env (bind T absent zs a ++ envF) (bind T absent zs' a ++ envC).
  Proof.
    intros He [Hext [Hxs HR]] Hzs. split; [|split].
    - apply env_ext_push; [exact Hext|]. intros v t Hv.
      destruct (Forall2_In_r _ _ _ _ Hzs (bind_lookup_in _ _ _ _ Hv)) as [z [_ [_ Hnf]]]. split; [exact Hnf|].
      destruct (alookup env v) as [t'|] eqn:El; [|reflexivity]. exfalso.
      destruct Hnf as [Hf _]. apply (il_fresh_nf HI v Hf). eapply He; eauto.
    - intros x Hx. rewrite il_alookup_app. destruct (alookup (bind T absent zs a) x); [discriminate | apply Hxs; exact Hx].
    - intros u. destruct (bind_copy zs zs' Hzs a u) as [B1 B2]. destruct (HR u) as [R1 R2].
      rewrite il_alookup_app. destruct (alookup (bind T absent zs a) u) as [t0|] eqn:Eb.
      + split; [|discriminate]. intros t Ht. injection Ht as <-.
        destruct (B1 t0 eq_refl) as [w [Hw Hl]]. rewrite Hw. right. rewrite il_alookup_app, Hl. reflexivity.
      + split.
        * intros t Ht. specialize (R1 t Ht). destruct (cl u) as [[w|]|] eqn:Ecl; auto.
          destruct R1 as [R1|R1]; [left; exact R1 | right].
          rewrite il_alookup_app, (B2 eq_refl w eq_refl). exact R1.
        * intros Hn w Hw Hf. rewrite il_alookup_app, (B2 eq_refl w Hw). apply R2; assumption.
  Qed.

  (* ------------------------------------------------------------ the body of the call against its copy *)
  Lemma copy_sim f aenv env : NG aenv -> env_ok T formal env ->
    (forall f0 aenv0 env0 v r, (f0 <= f)%nat -> NG aenv0 -> env_ok T formal env0 ->
        D s f0 aenv0 env0 v = Some r -> D s' (phi f0) aenv0 env0 (tau v) = Some r) ->
    forall g, (g <= f)%nat -> forall envF envC u r, erel (phi f) aenv env envF envC ->
      D s g (resolve aenv CA ++ DF) envF u = Some r ->
      match cl u with
      | Some None => r = absent
      | Some (Some w) => D s' (phi f + g) aenv envC w = Some r
      | None => True
      end.
  Proof.
    intros Hng He HS1.
    assert (HL : forall r, slookup (resolve aenv CA ++ DF) r = am_lookup AM aenv r).
    { intros r. apply il_call_aenv; [exact (il_refs_ok HI) | exact (il_defaults_noref HI)]. }
    assert (HngF : NG (resolve aenv CA ++ DF)).
    { intros r a E. rewrite HL in E. unfold am_lookup in E.
      destruct (slookup AM r) as [a0|] eqn:Ea; [|discriminate].
      pose proof (NG_of_bool _ (il_am_nograph HI) _ _ Ea) as Hn.
      destruct a0; try (injection E as <-; exact Hn). eapply Hng; eauto. }
    induction g as [|g IH]; intros Hg envF envC u r HR E; [discriminate|].
    assert (Hg' : (g <= f)%nat) by lia. specialize (IH Hg').
    cbn [den] in E. destruct HR as [Hext [Hxs HRu]].
    destruct (alookup envF u) as [t|] eqn:Eu.
    { injection E as <-. pose proof (proj1 (HRu u) t Eu) as H1.
      destruct (cl u) as [[w|]|]; [|exact H1|exact I].
      destruct H1 as [H1|H1].
      - eapply (den_mono_le T absent tensor_val interp interp_mono); [|eapply den_weaken; [exact nformal_undef|exact Hext|exact H1]]. lia.
      - replace (phi f + S g)%nat with (S (phi f + g)) by lia. cbn [den]. rewrite H1. reflexivity. }
    destruct (cl u) as [[w|]|] eqn:Ecl; [| |exact I].
    2:{ exfalso. apply (Hxs u); [apply (il_cl_none HI); exact Ecl | exact Eu]. }
    destruct (il_cl_copy HI u w Ecl) as [Hin | [Hfw [Hinit Hprod]]]; [exfalso; apply (Hxs u Hin Eu)|].
    replace (phi f + S g)%nat with (S (phi f + g)) by lia. cbn [den].
    rewrite (proj2 (HRu u) Eu w Ecl Hfw), Hinit.
    destruct (s_init s u) as [t|] eqn:Ei; [exact E|]. specialize (Hprod eq_refl).
    destruct (s_prod s u) as [[n i]|] eqn:Ep; [|discriminate].
    destruct Hprod as [n' [Ep' [Hop Hno Hins Hat]]]. rewrite Ep'.
    destruct (map_opt _ (n_ins n)) as [tins|] eqn:Eins; [|discriminate].
    assert (HRfull : erel (phi f) aenv env envF envC) by (split; [exact Hext | split; [exact Hxs | exact HRu]]).
    assert (Eins' : map_opt (inv (D s' (phi f + g) aenv envC)) (n_ins n') = Some tins).
    { eapply map_opt_Forall2; [exact Hins| |exact Eins]. intros o o' y Ho Hy. destruct o as [x|]; simpl in Ho.
      - pose proof (IH envF envC x y HRfull Hy) as Hx. rewrite Ho in Hx. destruct o' as [w'|]; [exact Hx | subst y; reflexivity].
      - subst o'. exact Hy. }
    rewrite Eins', Hop.
    assert (Hsim : Forall2 (attr_sim gm) (resolve (resolve aenv CA ++ DF) (n_attrs n)) (resolve aenv (n_attrs n'))).
    { eapply copy_resolve; [exact Hat | exact HL | exact (il_am_nograph HI) | exact Hng]. }
    destruct (s_func s (n_op n)) as [fn2|] eqn:Efn.
    - (* a copied node that calls another function: its body consists of old values *)
      destruct (il_func HI _ _ Efn) as [fn2' [Efn' [Hfi [Hfo [Hfd [Hff Hfng]]]]]]. rewrite Efn'.
      destruct (nth_error (g_outs (f_body fn2)) i) as [o|] eqn:Eo; [|discriminate].
      rewrite Hfo, (map_nth_error tau _ _ Eo), Hfi, Hfd.
      pose proof (resolve_ng _ _ HngF (il_call_attrs HI u n i fn2 Ep Efn)) as Hnr.
      rewrite <- (sim_eq gm _ _ Hsim Hnr).
      eapply (den_mono_le T absent tensor_val interp interp_mono); [|apply (HS1 g); [exact Hg'| | |exact E]].
      + pose proof (phi_mono g f Hg'). lia.
      + apply NG_app; apply NG_of_bool; assumption.
      + apply env_ok_bind0. exact Hff.
    - rewrite (il_func_none HI _ Efn), Hno.
      destruct (interp (n_op n) _ _ tins _) as [outs|] eqn:Eint; [|discriminate].
      rewrite <- (interp_graph_ids _ _ _ _ _ _ (sim_weak gm _ _ Hsim)).
      erewrite interp_mono; [exact E| |exact Eint].
      eapply Forall2_map2; [exact (sim_graphs gm _ _ Hsim)|].
      intros g0 g0' Hg0 args r' Hr.
      destruct (s_graph s g0) as [gr|] eqn:Eg; [|discriminate].
      destruct (il_gm HI _ _ _ Hg0 Eg) as [gr' [Eg' [Hzs Hos]]]. rewrite Eg'.
      eapply map_opt_Forall2; [exact Hos| |exact Hr]. intros x x' y Hx Hy.
      pose proof (IH _ _ x y (erel_push _ _ _ _ _ _ _ args He HRfull Hzs) Hy) as H. rewrite Hx in H. exact H.
  Qed.

  (* ------------------------------------------------------------ the theorem *)
  Lemma inline_refines_le : forall f f0 aenv env v r, (f0 <= f)%nat -> NG aenv -> env_ok T formal env ->
    D s f0 aenv env v = Some r -> D s' (phi f0) aenv env (tau v) = Some r.
  Proof.
    induction f as [|f IH]; intros f0 aenv env v r Hle Hng He E.
    { assert (f0 = O) by lia. subst f0. discriminate. }
    assert (Hc : (f0 <= f)%nat \/ f0 = S f) by lia. destruct Hc as [Hc | ->]; [eapply IH; eauto|]. clear Hle.
    assert (IHf : forall aenv0 env0 v0 r0, NG aenv0 -> env_ok T formal env0 ->
                    D s f aenv0 env0 v0 = Some r0 -> D s' (phi f) aenv0 env0 (tau v0) = Some r0).
    { intros. eapply IH; eauto. }
    assert (Hm : exists m, phi (S f) = S m /\ (phi f + f + 1 <= m)%nat).
    { exists (phi f + 2 * f + 2)%nat. rewrite phi_S. lia. }
    destruct Hm as [m [Hm Hmle]].
    assert (Hpad : forall aenv0 env0 v0 r0, D s' (phi f) aenv0 env0 v0 = Some r0 -> D s' m aenv0 env0 v0 = Some r0).
    { intros. eapply (den_mono_le T absent tensor_val interp interp_mono); [|eassumption]. lia. }
    cbn [den] in E.
    destruct (alookup env v) as [t|] eqn:Eenv.
    { rewrite (il_formal_fix HI v (He _ _ Eenv)), Hm. cbn [den]. rewrite Eenv. exact E. }
    destruct (s_init s v) as [t|] eqn:Ei.
    { destruct (il_init HI v t Ei) as [Htv Hi']. rewrite Htv, Hm. cbn [den]. rewrite Eenv, Hi'. exact E. }
    destruct (s_prod s v) as [[n i]|] eqn:Ep; [|discriminate].
    destruct (map_opt _ (n_ins n)) as [tins|] eqn:Eins; [|discriminate].
    destruct (il_node HI v n i Ei Ep) as [[Htv [Hi' [n' [Ep' [Hop [Hat [Hno Hins]]]]]]] | [Hcn Hres]].
    - (* an old node *)
      rewrite Htv, Hm. cbn [den]. rewrite Eenv, Hi', Ep'.
      assert (Eins' : map_opt (inv (D s' m aenv env)) (n_ins n') = Some tins).
      { rewrite Hins, map_opt_map. eapply map_opt_impl; [|exact Eins].
        intros [w|] y _ Hy; simpl; [apply Hpad; apply IHf; assumption | exact Hy]. }
      rewrite Eins', Hop, Hat, Hno.
      destruct (s_func s (n_op n)) as [fn2|] eqn:Efn.
      + destruct (il_func HI _ _ Efn) as [fn2' [Efn' [Hfi [Hfo [Hfd [Hff Hfng]]]]]]. rewrite Efn'.
        destruct (nth_error (g_outs (f_body fn2)) i) as [o|] eqn:Eo; [|discriminate].
        rewrite Hfo, (map_nth_error tau _ _ Eo), Hfi, Hfd.
        apply Hpad. apply IHf; [| apply env_ok_bind0; exact Hff | exact E].
        apply NG_app; [apply NG_of_bool; apply resolve_ng; [exact Hng | exact (il_call_attrs HI v n i fn2 Ep Efn)]
                      | apply NG_of_bool; exact Hfng].
      + rewrite (il_func_none HI _ Efn).
        destruct (interp (n_op n) _ _ tins _) as [outs|] eqn:Eint; [|discriminate].
        erewrite interp_mono; [exact E| |exact Eint].
        apply Forall2_map_same. intros g _ args r' Hr.
        destruct (s_graph s g) as [gr|] eqn:Eg; [|discriminate].
        destruct (il_graph HI _ _ Eg) as [gr' [Eg' [Hgi [Hgo Hgf]]]]. rewrite Eg', Hgi, Hgo, map_opt_map.
        eapply map_opt_impl; [|exact Hr]. intros x y _ Hy.
        apply Hpad. apply IHf; [exact Hng | apply env_ok_bind; assumption | exact Hy].
    - (* the inlined call *)
      subst n. rewrite (il_call HI) in E.
      destruct (nth_error os i) as [o|] eqn:Eo; [|discriminate].
      assert (HR : erel (phi f) aenv env (bind T absent xs tins) env).
      { split; [apply env_ext_refl|]. split; [intros x Hx; apply bind_in_lookup; exact Hx|]. intros u. split.
        - intros t Ht. pose proof (bind_args _ xs _ _ Eins u t Ht) as H.
          rewrite (il_cl_formal HI u (bind_lookup_in _ _ _ _ Ht)).
          destruct (alookup (bind_formals xs (n_ins c)) u) as [[a|]|]; [|exact H|exact H].
          destruct H as [H Hin]. left. rewrite <- (il_args_old HI a Hin). apply IHf; assumption.
        - intros _ w _ Hfw. destruct (alookup env w) as [t|] eqn:El; [|reflexivity]. exfalso.
          apply (il_fresh_nf HI w Hfw). eapply He; eauto. }
      assert (HS1 : forall f0 aenv0 env0 v0 r0, (f0 <= f)%nat -> NG aenv0 -> env_ok T formal env0 ->
                      D s f0 aenv0 env0 v0 = Some r0 -> D s' (phi f0) aenv0 env0 (tau v0) = Some r0).
      { intros. eapply IH; eauto. }
      pose proof (copy_sim f aenv env Hng He HS1 f (le_n f) _ _ o r HR E) as HC.
      destruct (Hres o eq_refl) as [Hcl | [a [idn [Hcl [Hfr [Hi' [Hp' [Hid [Hins [Hlen Hfn]]]]]]]]]]; rewrite Hcl in HC.
      + eapply (den_mono_le T absent tensor_val interp interp_mono); [|exact HC]. lia.
      + rewrite Hm. cbn [den].
        assert (Henv : alookup env (tau v) = None).
        { destruct (alookup env (tau v)) as [t|] eqn:El; [|reflexivity]. exfalso.
          apply (il_fresh_nf HI _ Hfr). eapply He; eauto. }
        assert (Ha : D s' m aenv env a = Some r).
        { eapply (den_mono_le T absent tensor_val interp interp_mono); [|exact HC]. lia. }
        rewrite Henv, Hi', Hp', Hins. cbn [map_opt]. rewrite Ha, Hfn, Hlen, (interp_identity _ _ _ r Hid). reflexivity.
  Qed.

  Theorem inline_refines_ng : forall f aenv env v r, NG aenv -> env_ok T formal env ->
    D s f aenv env v = Some r -> D s' (phi f) aenv env (tau v) = Some r.
  Proof. intros f aenv env v r. apply (inline_refines_le f f). apply le_n. Qed.

  Theorem inline_refines : forall f aenv env v r, no_graph_attrs aenv = true -> env_ok T formal env ->
    D s f aenv env v = Some r -> D s' (phi f) aenv env (tau v) = Some r.
  Proof. intros f aenv env v r Ha. apply inline_refines_ng. apply NG_of_bool. exact Ha. Qed.

  Corollary inline_outputs f aenv env outs r : no_graph_attrs aenv = true -> env_ok T formal env ->
    den_list T absent tensor_val interp s f aenv env outs = Some r ->
    den_list T absent tensor_val interp s' (phi f) aenv env (map tau outs) = Some r.
  Proof.
    intros Ha He E. unfold den_list in *. rewrite map_opt_map. eapply map_opt_impl; [|exact E].
    intros x y _ Hy. apply inline_refines; assumption.
  Qed.
End Inline.

(* ---------------------------------------------------------------- the record is satisfiable (sanity witness)
   F(x) = (Neg(x), x);  main: (y1, y2) = F(a).  After inlining: t' = Neg(a), i' = Identity(a); y1 := t', y2 := i'.
   ids: a = 1, y1 = 10, y2 = 11, x = 20, t = 21, t' = 30, i' = 31. *)
Module InlineWitness.
  Definition OP_F : opid := ([], [70], []).
  Definition OP_Neg : opid := ([], [78], []).
  Definition negn := mkNode OP_Neg [] [Some 20] [21].
  Definition negn' := mkNode OP_Neg [] [Some 1] [30].
  Definition idn := mkNode OP_Identity [] [Some 1] [31].
  Definition c := mkNode OP_F [] [Some 1] [10; 11].
  Definition fn := mkFunc OP_F (mkGraph [20] [] [negn] [21; 20]) [].
  Definition funcs (op : opid) : option func := if opid_eqb op OP_F then Some fn else None.
  Definition s := mkSem (fun v => if N.eqb v 10 then Some (c, O) else if N.eqb v 11 then Some (c, 1%nat)
                                  else if N.eqb v 21 then Some (negn, O) else None)
                        (fun _ => None) funcs (fun _ => None).
  Definition s' := mkSem (fun v => if N.eqb v 21 then Some (negn, O) else if N.eqb v 30 then Some (negn', O)
                                   else if N.eqb v 31 then Some (idn, O) else None)
                         (fun _ => None) funcs (fun _ => None).
  Definition formal (v : vid) : Prop := v = 1 \/ v = 20.
  Definition Fresh (v : vid) : Prop := v = 30 \/ v = 31.
  Definition cl (v : vid) : option (option vid) :=
    if N.eqb v 20 then Some (Some 1) else if N.eqb v 21 then Some (Some 30) else None.
  Definition gm (g : gid) : option gid := None.
  Definition tau (v : vid) : vid := if N.eqb v 10 then 30 else if N.eqb v 11 then 31 else v.

  Ltac cases v := repeat match goal with
                         | H : context [N.eqb v ?b] |- _ => destruct (N.eqb_spec v b); [subst v|]
                         end.

  Lemma witness : InlineSim s s' formal Fresh c fn cl gm tau.
  Proof.
    constructor.
    - reflexivity.
    - reflexivity.
    - reflexivity.
    - reflexivity.
    - intros a [H|[]]. injection H as <-. reflexivity.
    - intros v [->| ->]; reflexivity.
    - intros v [->| ->] [H|H]; discriminate.
    - intros v t H. discriminate.
    - intros v n i _ H. simpl in H. cases v.
      + injection H as <- <-. right. split; [reflexivity|]. intros o Ho. injection Ho as <-. left. reflexivity.
      + injection H as <- <-. right. split; [reflexivity|]. intros o Ho. injection Ho as <-. right.
        exists 1, idn. repeat split; try reflexivity. right. reflexivity.
      + injection H as <- <-. left. split; [reflexivity|]. split; [reflexivity|]. exists negn. repeat split; reflexivity.
      + discriminate.
    - intros v n i fn2 H Hf. simpl in H. cases v; try discriminate; injection H as <- <-; try reflexivity.
    - intros g gr H. discriminate.
    - intros op fn2 H. simpl in H. unfold funcs in H. destruct (opid_eqb op OP_F) eqn:E; [|discriminate].
      injection H as <-. exists fn. simpl. unfold funcs. rewrite E. repeat split; try reflexivity.
      constructor; [right; reflexivity | constructor].
    - intros op H. simpl in *. exact H.
    - intros x [<-|[]]. reflexivity.
    - intros u H. unfold cl in H. cases u; discriminate.
    - intros u w H. unfold cl in H. cases u; try discriminate.
      + left. left. reflexivity.
      + injection H as <-. right. split; [left; reflexivity|]. split; [reflexivity|]. intros _. simpl.
        exists negn'. split; [reflexivity|]. constructor; try reflexivity.
        * constructor; [reflexivity | constructor].
        * constructor.
    - intros u u' w Hf H H'. unfold cl in H, H'. cases u; cases u'; try discriminate; try reflexivity.
      + injection H as <-. destruct Hf; discriminate.
      + injection H as <-. destruct Hf; discriminate.
    - intros g g' gr H. discriminate.
  Qed.
End InlineWitness.

(* C05/Proofs8.v — OutputFixPass: appending Identity nodes in front of graph outputs preserves what the model
   computes.  Part 1: a model-level lemma (any m' that is m plus Identity aliases of some graph outputs).
   Part 2: the executable `output_fix` of Model.v is a sequence of such steps. *)
From Coq Require Import ZArith NArith List Bool Lia Permutation.
From IRV Require Import Base.Exn Gen.C05Gen C05.Model C05.Proofs C05.Proofs2 C05.Proofs3 C05.Proofs4 C05.Proofs5 C05.Proofs7.
Import ListNotations.
Open Scope N_scope.

(* ---------------------------------------------------------------- lists *)
Lemma Forall2_imp {A B} (R R' : A -> B -> Prop) l l' : (forall x y, R x y -> R' x y) -> Forall2 R l l' -> Forall2 R' l l'.
Proof. intros H. induction 1; constructor; auto. Qed.
Lemma Forall2_imp_In {A B} (R R' : A -> B -> Prop) l l' :
  Forall2 R l l' -> (forall x y, In x l -> R x y -> R' x y) -> Forall2 R' l l'.
Proof.
  induction 1 as [|x y l l' Hxy HF IH]; intros H; constructor.
  - apply H; [left; reflexivity | exact Hxy].
  - apply IH. intros a b Ha. apply H. right. exact Ha.
Qed.
Lemma Forall2_same {A} (R : A -> A -> Prop) l : (forall x, R x x) -> Forall2 R l l.
Proof. intros H. induction l; constructor; auto. Qed.
Lemma Forall2_len {A B} (R : A -> B -> Prop) l l' : Forall2 R l l' -> length l = length l'.
Proof. induction 1; simpl; [reflexivity | f_equal; assumption]. Qed.
Lemma filter_all {A} (p : A -> bool) l : (forall x, In x l -> p x = true) -> filter p l = l.
Proof.
  induction l as [|a l IH]; simpl; intros H; [reflexivity|].
  rewrite (H a (or_introl eq_refl)). f_equal. apply IH. intros x Hx. apply H. right. exact Hx.
Qed.

Lemma find_prod_app l1 l2 v :
  find_prod (l1 ++ l2) v = match find_prod l1 v with Some x => Some x | None => find_prod l2 v end.
Proof. induction l1 as [|n l1 IH]; simpl; [reflexivity|]. destruct (index_of v (n_outs n)); [reflexivity | exact IH]. Qed.

Lemma find_prod_unique ns n v i :
  NoDup (flat_map n_outs ns) -> In n ns -> index_of v (n_outs n) = Some i -> find_prod ns v = Some (n, i).
Proof.
  intros Hnd Hin Hi. destruct (find_prod ns v) as [[n' i']|] eqn:E.
  - destruct (find_prod_In _ _ _ _ E) as [Hin' Hi'].
    destruct (NoDup_flat_map_same n_outs ns n n' v Hnd Hin Hin' (index_of_In _ _ _ Hi) (index_of_In _ _ _ Hi')) as [->|[]].
    congruence.
  - exfalso. apply (find_prod_None _ _ E). apply in_flat_map. exists n. split; [exact Hin | eapply index_of_In; eauto].
Qed.

Lemma alookup_notin {A} (l : list (N * A)) k : ~ In k (map fst l) -> alookup l k = None.
Proof.
  intros H. destruct (alookup l k) as [a|] eqn:E; [|reflexivity]. exfalso. apply H.
  apply alookup_In in E. apply in_map_iff. exists (k, a). auto.
Qed.

Lemma alookup_perm {A} (l l' : list (N * A)) k : Permutation l l' -> NoDup (map fst l) -> alookup l' k = alookup l k.
Proof.
  intros HP Hnd.
  assert (Hnd' : NoDup (map fst l')) by (eapply Permutation_NoDup; [apply Permutation_map; exact HP | exact Hnd]).
  destruct (alookup l k) as [a|] eqn:E.
  - apply alookup_NoDup_In; [exact Hnd'|]. eapply Permutation_in; [exact HP|]. apply alookup_In. exact E.
  - apply alookup_notin. intros Hin. apply (alookup_None_notin _ _ E).
    eapply Permutation_in; [apply Permutation_sym; apply Permutation_map; exact HP | exact Hin].
Qed.

(* ---------------------------------------------------------------- the alias relation on models *)
Definition id_node (n : node) : Prop := is_identity_op (n_op n) = true /\ exists w f, n_ins n = [Some w] /\ n_outs n = [f].
Definition AR (ids : list node) (o o' : vid) : Prop :=
  o' = o \/ (exists n, In n ids /\ is_identity_op (n_op n) = true /\ n_ins n = [Some o] /\ n_outs n = [o'] /\ ~ In o (flat_map n_outs ids)).
Definition graph_alias (ids : list node) (g g' : graph) : Prop := g_ins g' = g_ins g /\ Forall2 (AR ids) (g_outs g) (g_outs g').

Definition model_rel (R : graph -> graph -> Prop) (m m' : model) : Prop :=
  R (m_main m) (m_main m')
  /\ Forall2 (fun p q => fst q = fst p /\ R (snd p) (snd q)) (m_subs m) (m_subs m')
  /\ Forall2 (fun f f' => f_id f' = f_id f /\ f_defaults f' = f_defaults f /\ R (f_body f) (f_body f')) (m_funcs m) (m_funcs m').

Lemma alookup_F2 (R : graph -> graph -> Prop) (subs subs' : list (gid * graph)) g gr :
  Forall2 (fun p q => fst q = fst p /\ R (snd p) (snd q)) subs subs' ->
  alookup subs g = Some gr -> exists gr', alookup subs' g = Some gr' /\ R gr gr'.
Proof.
  induction 1 as [|[k x] [k' y] l l' [Hk HR] HF IH]; simpl; intros E; [discriminate|].
  simpl in Hk, HR. subst k'. destruct (N.eqb k g); [|auto]. injection E as <-. exists y. auto.
Qed.
Lemma find_func_F2 (R : graph -> graph -> Prop) fs fs' op fn :
  Forall2 (fun f f' => f_id f' = f_id f /\ f_defaults f' = f_defaults f /\ R (f_body f) (f_body f')) fs fs' ->
  find_func fs op = Some fn ->
  exists fn', find_func fs' op = Some fn' /\ f_defaults fn' = f_defaults fn /\ R (f_body fn) (f_body fn').
Proof.
  unfold find_func. induction 1 as [|x y l l' [Hid [Hd HR]] HF IH]; simpl; intros E; [discriminate|].
  rewrite Hid. destruct (opid_eqb (f_id x) op); [|auto]. injection E as <-. exists y. auto.
Qed.
Lemma find_func_F2_none (R : graph -> graph -> Prop) fs fs' op :
  Forall2 (fun f f' => f_id f' = f_id f /\ f_defaults f' = f_defaults f /\ R (f_body f) (f_body f')) fs fs' ->
  find_func fs op = None -> find_func fs' op = None.
Proof.
  unfold find_func. induction 1 as [|x y l l' [Hid _] HF IH]; simpl; intros E; [reflexivity|].
  rewrite Hid. destruct (opid_eqb (f_id x) op); [discriminate | auto].
Qed.

Lemma all_formals_alias ids m m' : model_rel (graph_alias ids) m m' -> all_formals m' = all_formals m.
Proof.
  intros [[Hm _] [Hs Hf]]. unfold all_formals, graphs_of. simpl. rewrite Hm. f_equal.
  rewrite !flat_map_app. f_equal; rewrite !flat_map_map; symmetry.
  - eapply Forall2_flat_map_eq; [|exact Hs]. intros x y [_ [H _]]. simpl. symmetry. exact H.
  - eapply Forall2_flat_map_eq; [|exact Hf]. intros x y [_ [_ [H _]]]. simpl. symmetry. exact H.
Qed.

(* ---------------------------------------------------------------- upd_gref touches exactly one graph of the table *)
Lemma sub_split (F : graph -> graph) (subs : list (gid * graph)) k g : alookup subs k = Some g -> NoDup (map fst subs) ->
  exists s1 s2, subs = s1 ++ (k, g) :: s2
                /\ map (fun p => if N.eqb (fst p) k then (fst p, F (snd p)) else p) subs = s1 ++ (k, F g) :: s2.
Proof.
  induction subs as [|[k' a] subs IH]; simpl; intros E Hnd; [discriminate|].
  inversion Hnd as [|? ? Hni Hnd']; subst.
  destruct (N.eqb k' k) eqn:Ek.
  - apply N.eqb_eq in Ek. subst k'. injection E as ->. exists [], subs. split; [reflexivity|]. simpl. f_equal.
    rewrite <- (map_id subs) at 2. apply map_ext_in. intros [k2 a2] Hin. simpl.
    destruct (N.eqb k2 k) eqn:E2; [|reflexivity]. apply N.eqb_eq in E2. subst k2. exfalso. apply Hni.
    apply in_map_iff. exists (k, a2). auto.
  - destruct (IH E Hnd') as [s1 [s2 [E1 E2]]]. exists ((k', a) :: s1), s2. simpl. split; f_equal; assumption.
Qed.
Lemma func_split (G : func -> func) fs i f : nth_error fs i = Some f ->
  exists f1 f2, fs = f1 ++ f :: f2 /\ upd_nth i G fs = f1 ++ G f :: f2.
Proof.
  revert i. induction fs as [|x fs IH]; intros [|i] E; simpl in E; try discriminate.
  - injection E as ->. exists [], fs. auto.
  - destruct (IH i E) as [f1 [f2 [E1 E2]]]. exists (x :: f1), f2. simpl. split; f_equal; assumption.
Qed.

Lemma upd_gref_split r F m g : get_gref m r = Some g -> NoDup (map fst (m_subs m)) ->
  exists l1 l2, graphs_of m = l1 ++ g :: l2 /\ graphs_of (upd_gref r F m) = l1 ++ F g :: l2.
Proof.
  intros Eg Hk. destruct r as [|k|i]; simpl in Eg.
  - injection Eg as <-. exists [], (map snd (m_subs m) ++ map f_body (m_funcs m)). split; reflexivity.
  - destruct (sub_split F _ _ _ Eg Hk) as [s1 [s2 [E1 E2]]].
    exists (m_main m :: map snd s1), (map snd s2 ++ map f_body (m_funcs m)).
    unfold graphs_of. simpl. rewrite E2, E1. rewrite !map_app. simpl. rewrite <- !app_assoc. simpl. split; reflexivity.
  - destruct (nth_error (m_funcs m) i) as [f|] eqn:En; [|discriminate]. simpl in Eg. injection Eg as <-.
    destruct (func_split (fun f => mkFunc (f_id f) (F (f_body f)) (f_defaults f)) _ _ _ En) as [f1 [f2 [E1 E2]]].
    exists (m_main m :: map snd (m_subs m) ++ map f_body f1), (map f_body f2).
    unfold graphs_of. simpl. rewrite E2, E1. rewrite !map_app. simpl. rewrite <- !app_assoc. simpl. split; reflexivity.
Qed.

Lemma upd_gref_rel (R : graph -> graph -> Prop) r F m g : (forall x, R x x) ->
  get_gref m r = Some g -> NoDup (map fst (m_subs m)) -> R g (F g) -> model_rel R m (upd_gref r F m).
Proof.
  intros Hrefl Eg Hk HR.
  assert (Hs : forall l : list (gid * graph), Forall2 (fun p q => fst q = fst p /\ R (snd p) (snd q)) l l)
    by (intros l; apply Forall2_same; auto).
  assert (Hf : forall l, Forall2 (fun f f' => f_id f' = f_id f /\ f_defaults f' = f_defaults f /\ R (f_body f) (f_body f')) l l)
    by (intros l; apply Forall2_same; auto).
  destruct r as [|k|i]; simpl in Eg; unfold model_rel; simpl.
  - injection Eg as <-. auto.
  - destruct (sub_split F _ _ _ Eg Hk) as [s1 [s2 [E1 E2]]]. rewrite E2, E1.
    split; [apply Hrefl|]. split; [|apply Hf].
    apply Forall2_app; [apply Hs|]. constructor; [|apply Hs]. simpl. auto.
  - destruct (nth_error (m_funcs m) i) as [f|] eqn:En; [|discriminate]. simpl in Eg. injection Eg as <-.
    destruct (func_split (fun f => mkFunc (f_id f) (F (f_body f)) (f_defaults f)) _ _ _ En) as [f1 [f2 [E1 E2]]]. rewrite E2, E1.
    split; [apply Hrefl|]. split; [apply Hs|].
    apply Forall2_app; [apply Hf|]. constructor; [|apply Hf]. simpl. auto.
Qed.

Lemma upd_gref_keys r F m : map fst (m_subs (upd_gref r F m)) = map fst (m_subs m).
Proof.
  destruct r as [|k|i]; simpl; try reflexivity. rewrite map_map. apply map_ext. intros [k' g']. simpl. destruct (N.eqb k' k); reflexivity.
Qed.

(* ---------------------------------------------------------------- the plans of alias_multi / alias_direct *)
Inductive plan : list vid -> N -> list vid -> list node -> N -> Prop :=
| plan_nil fr : plan [] fr [] [] fr
| plan_alias o r fr r' ns fr' : plan r (fr + 1) r' ns fr' ->
                                plan (o :: r) fr (fr :: r') (mkNode OP_Identity [] [Some o] [fr] :: ns) fr'
| plan_keep o r fr r' ns fr' : plan r fr r' ns fr' -> plan (o :: r) fr (o :: r') ns fr'.

Lemma alias_multi_plan : forall outs seen fr outs' ns fr', alias_multi outs seen fr = (outs', ns, fr') -> plan outs fr outs' ns fr'.
Proof.
  induction outs as [|o outs IH]; intros seen fr outs' ns fr' E; simpl in E.
  - injection E as <- <- <-. constructor.
  - destruct (memN o seen).
    + destruct (alias_multi outs seen (fr + 1)) as [[r' ns0] fr0] eqn:Er. injection E as <- <- <-. constructor. eapply IH; eauto.
    + destruct (alias_multi outs (o :: seen) fr) as [[r' ns0] fr0] eqn:Er. injection E as <- <- <-. constructor. eapply IH; eauto.
Qed.
Lemma alias_direct_plan m : forall outs fr outs' ns fr', alias_direct m outs fr = (outs', ns, fr') -> plan outs fr outs' ns fr'.
Proof.
  induction outs as [|o outs IH]; intros fr outs' ns fr' E; simpl in E.
  - injection E as <- <- <-. constructor.
  - destruct (is_graph_input m o).
    + destruct (alias_direct m outs (fr + 1)) as [[r' ns0] fr0] eqn:Er. injection E as <- <- <-. constructor. eapply IH; eauto.
    + destruct (alias_direct m outs fr) as [[r' ns0] fr0] eqn:Er. injection E as <- <- <-. constructor. eapply IH; eauto.
Qed.

Lemma plan_spec outs fr outs' ns fr' : plan outs fr outs' ns fr' ->
  fr <= fr' /\ Forall id_node ns /\ (forall f, In f (flat_map n_outs ns) -> fr <= f < fr') /\ NoDup (flat_map n_outs ns)
  /\ Forall2 (fun o o' => o' = o \/ In (mkNode OP_Identity [] [Some o] [o']) ns) outs outs'
  /\ (forall o', In o' outs' -> In o' outs \/ fr <= o' < fr').
Proof.
  induction 1 as [fr | o r fr r' ns fr' Hp IH | o r fr r' ns fr' Hp IH].
  - split; [apply N.le_refl|]. split; [constructor|]. split; [intros f []|]. split; [constructor|]. split; [constructor|]. intros o' [].
  - destruct IH as [Hle [Hid [Hb [Hnd [Hf2 Ho]]]]].
    split; [lia|]. split.
    { constructor; [|exact Hid]. split; [reflexivity|]. exists o, fr. split; reflexivity. }
    split.
    { simpl. intros f [<-|Hf]; [lia|]. specialize (Hb f Hf). lia. }
    split.
    { simpl. constructor; [|exact Hnd]. intros Hc. specialize (Hb fr Hc). lia. }
    split.
    { constructor; [right; left; reflexivity|]. eapply Forall2_imp; [|exact Hf2]. intros x y [->|Hx]; [left; reflexivity | right; right; exact Hx]. }
    intros o' [<-|Ho']; [right; lia|]. destruct (Ho o' Ho') as [H|H]; [left; right; exact H | right; lia].
  - destruct IH as [Hle [Hid [Hb [Hnd [Hf2 Ho]]]]].
    split; [exact Hle|]. split; [exact Hid|]. split; [exact Hb|]. split; [exact Hnd|]. split.
    { constructor; [left; reflexivity | exact Hf2]. }
    intros o' [<-|Ho']; [left; left; reflexivity|]. destruct (Ho o' Ho') as [H|H]; [left; right; exact H | right; exact H].
Qed.

(* renaming an initializer re-registers it at the end of the table: a permutation *)
Lemma move_end_perm (l : list (vid * tensor)) o t : NoDup (map fst l) -> alookup l o = Some t ->
  Permutation (filter (fun vt => negb (N.eqb (fst vt) o)) l ++ [(o, t)]) l.
Proof.
  induction l as [|[k a] l IH]; simpl; intros Hnd E; [discriminate|]. inversion Hnd as [|? ? Hni Hnd']; subst.
  destruct (N.eqb k o) eqn:Ek; simpl.
  - apply N.eqb_eq in Ek. subst k. injection E as ->.
    rewrite filter_all.
    + apply Permutation_sym. apply Permutation_cons_append.
    + intros [k2 a2] Hin. simpl. apply negb_true_iff. apply N.eqb_neq. intros ->. apply Hni. apply in_map_iff. exists (o, a2). auto.
  - apply perm_skip. apply IH; assumption.
Qed.
Lemma fold_move_perm renamed : forall l : list (vid * tensor), NoDup (map fst l) ->
  Permutation (fold_left (fun l o => match alookup l o with
                                     | Some t => filter (fun vt => negb (N.eqb (fst vt) o)) l ++ [(o, t)]
                                     | None => l end) renamed l) l.
Proof.
  induction renamed as [|o renamed IH]; intros l Hnd; simpl; [apply Permutation_refl|].
  destruct (alookup l o) as [t|] eqn:E; [|apply IH; exact Hnd].
  pose proof (move_end_perm l o t Hnd E) as HP.
  eapply Permutation_trans; [apply IH | exact HP].
  eapply Permutation_NoDup; [apply Permutation_map; apply Permutation_sym; exact HP | exact Hnd].
Qed.

Section OutFix.
  Variable T : Type.
  Variable absent : T.
  Variable tensor_val : tensor -> T.
  Variable interp : opid -> list (str * attr) -> list (subfn T) -> list T -> nat -> option (list T).
  Hypothesis interp_mono : forall op attrs subs subs' ins k r,
      Forall2 (sub_le T) subs subs' -> interp op attrs subs ins k = Some r -> interp op attrs subs' ins k = Some r.
  Hypothesis interp_identity : forall op attrs subs x,
      is_identity_op op = true -> interp op attrs subs [x] 1%nat = Some [x].
  Hypothesis interp_trailing_absent : forall op attrs subs ins k,
      interp op attrs subs (ins ++ [absent]) k = interp op attrs subs ins k.

  Notation Pres := (Pres T absent tensor_val interp).

  (* ------------------------------------------------------------ PART 1 *)
  (* general form: the initializer tables may be permuted (fix_graph_direct re-registers renamed initializers) *)
  Theorem alias_model_pres_perm m m' ids :
    WF m -> NoOpFunc m -> Forall id_node ids ->
    Permutation (all_nodes m') (all_nodes m ++ ids) ->
    NoDup (all_outs m ++ flat_map n_outs ids) ->
    (forall f, In f (flat_map n_outs ids) -> ~ In f (all_formals m) /\ ~ In f (map fst (all_inits m))) ->
    Permutation (all_inits m') (all_inits m) ->
    graph_alias ids (m_main m) (m_main m') ->
    Forall2 (fun p q => fst q = fst p /\ graph_alias ids (snd p) (snd q)) (m_subs m) (m_subs m') ->
    Forall2 (fun f f' => f_id f' = f_id f /\ f_defaults f' = f_defaults f /\ graph_alias ids (f_body f) (f_body f')) (m_funcs m) (m_funcs m') ->
    Pres m m'.
  Proof.
    intros HW HN Hids HP Hnd Hfr Hin Hmain Hsubs Hfuncs.
    assert (Hformals : all_formals m' = all_formals m) by (apply (all_formals_alias ids); split; [exact Hmain | split; [exact Hsubs | exact Hfuncs]]).
    assert (Hnd' : NoDup (flat_map n_outs (all_nodes m ++ ids))) by (rewrite flat_map_app; exact Hnd).
    assert (Hprod : forall v, find_prod (all_nodes m') v = find_prod (all_nodes m ++ ids) v).
    { intros v. apply find_prod_perm; [apply Permutation_sym; exact HP | exact Hnd']. }
    assert (Hinit : forall v, alookup (all_inits m') v = alookup (all_inits m) v).
    { intros v. apply alookup_perm; [apply Permutation_sym; exact Hin | apply (wf_inits_nodup m HW)]. }
    assert (Hnof : forall v, In v (flat_map n_outs ids) -> ~ In v (all_outs m)).
    { intros v Hv Ho. exact (NoDup_app_disj _ _ v Hnd Ho Hv). }
    assert (HN' : NoOpFunc m').
    { intros op Hop. eapply find_func_F2_none; [exact Hfuncs | apply HN; exact Hop]. }
    assert (Houts' : forall v, In v (all_outs m') -> In v (all_outs m) \/ In v (flat_map n_outs ids)).
    { intros v Hv. unfold all_outs in Hv. eapply Permutation_in in Hv; [|apply flat_map_perm; exact HP].
      rewrite flat_map_app, in_app_iff in Hv. exact Hv. }
    assert (HAR : forall o o', AR ids o o' -> alias_rel (sem_of m') (fun v => In v (flat_map n_outs ids)) o o').
    { intros o o' [->|[n [Hn [Hid [Hi [Ho HnF]]]]]]; [left; reflexivity|]. right.
      assert (HFo' : In o' (flat_map n_outs ids)) by (apply in_flat_map; exists n; split; [exact Hn | rewrite Ho; left; reflexivity]).
      split; [exact HFo'|]. split; [exact HnF|]. split.
      - cbn [sem_of s_init]. rewrite Hinit. apply alookup_notin. apply (Hfr o' HFo').
      - exists n. cbn [sem_of s_prod s_func]. split.
        + rewrite Hprod. apply find_prod_unique; [exact Hnd' | apply in_app_iff; right; exact Hn |].
          rewrite Ho. simpl. rewrite N.eqb_refl. reflexivity.
        + split; [exact Hid|]. split; [exact Hi|]. split; [rewrite Ho; reflexivity|]. apply HN'. left. exact Hid. }
    assert (HA : AliasSim (sem_of m) (sem_of m') (fun v => In v (flat_map n_outs ids)) (formal_of m)).
    { constructor; cbn [sem_of s_init s_prod s_func s_graph].
      - intros v _. apply Hinit.
      - intros v HnF. rewrite Hprod, find_prod_app. rewrite (find_prod_notin ids v HnF).
        destruct (find_prod (all_nodes m) v); reflexivity.
      - intros v HF. split; [apply alookup_notin; apply (Hfr v HF)|].
        split; [apply find_prod_notin; apply Hnof; exact HF | apply (Hfr v HF)].
      - intros g gr Eg. destruct (alookup_F2 _ _ _ _ _ Hsubs Eg) as [gr' [Eg' [Hi Ho]]]. exists gr'.
        split; [exact Eg'|]. split; [exact Hi|]. eapply Forall2_imp; [|exact Ho]. exact HAR.
      - intros g gr Eg. eapply formal_sub; eauto.
      - intros op fn Ef. destruct (find_func_F2 _ _ _ _ _ Hfuncs Ef) as [fn' [Ef' [Hd [Hi Ho]]]]. exists fn'.
        split; [exact Ef'|]. split; [exact Hi|]. split; [|exact Hd]. eapply Forall2_imp; [|exact Ho]. exact HAR.
      - intros op Ef. eapply find_func_F2_none; eauto.
      - intros op fn Ef. eapply formal_func; eauto. }
    constructor.
    - (* WF m' *)
      constructor.
      + unfold all_outs. eapply Permutation_NoDup; [apply Permutation_sym; apply flat_map_perm; exact HP | exact Hnd'].
      + intros v Hv Ho. rewrite Hformals in Hv. destruct (Houts' v Ho) as [H|H].
        * exact (wf_formal m HW v Hv H).
        * exact (proj1 (Hfr v H) Hv).
      + intros v Hv Ho.
        assert (Hv0 : In v (map fst (all_inits m))) by (eapply Permutation_in; [apply Permutation_map; exact Hin | exact Hv]).
        destruct (Houts' v Ho) as [H|H].
        * exact (wf_init_prod m HW v Hv0 H).
        * exact (proj2 (Hfr v H) Hv0).
      + intros n Hn. eapply Permutation_in in Hn; [|exact HP]. apply in_app_iff in Hn. destruct Hn as [Hn|Hn].
        * apply (wf_nonempty m HW). exact Hn.
        * rewrite Forall_forall in Hids. destruct (Hids n Hn) as [_ [w [f [_ Ho]]]]. rewrite Ho. discriminate.
      + eapply Permutation_NoDup; [apply Permutation_map; apply Permutation_sym; exact Hin | apply (wf_inits_nodup m HW)].
    - exact HN'.
    - exact Hformals.
    - intros env r He [f E]. exists (S (2 * f)). unfold den_list in *.
      apply (alias_outputs T absent tensor_val interp interp_mono interp_identity (sem_of m) (sem_of m')
                           (fun v => In v (flat_map n_outs ids)) (formal_of m) HA f [] env (g_outs (m_main m))); auto.
      eapply Forall2_imp; [|exact (proj2 Hmain)]. exact HAR.
    - exact (proj1 Hmain).
    - symmetry. eapply Forall2_len. exact (proj2 Hmain).
  Qed.

  Theorem alias_model_pres m m' ids :
    WF m -> NoOpFunc m -> Forall id_node ids ->
    Permutation (all_nodes m') (all_nodes m ++ ids) ->
    NoDup (all_outs m ++ flat_map n_outs ids) ->
    (forall f, In f (flat_map n_outs ids) -> ~ In f (all_formals m) /\ ~ In f (map fst (all_inits m))) ->
    all_inits m' = all_inits m ->
    graph_alias ids (m_main m) (m_main m') ->
    Forall2 (fun p q => fst q = fst p /\ graph_alias ids (snd p) (snd q)) (m_subs m) (m_subs m') ->
    Forall2 (fun f f' => f_id f' = f_id f /\ f_defaults f' = f_defaults f /\ graph_alias ids (f_body f) (f_body f')) (m_funcs m) (m_funcs m') ->
    Pres m m'.
  Proof.
    intros HW HN Hids HP Hnd Hfr Hin. apply alias_model_pres_perm; auto. rewrite Hin. apply Permutation_refl.
  Qed.

  (* ------------------------------------------------------------ PART 2 *)
  (* subgraph keys are unique (part of wfb), and every identity of the model — produced values, formals,
     initializers, graph outputs — is below the fresh counter *)
  Definition FreshAll (m : model) (fr : N) : Prop :=
    NoDup (map fst (m_subs m))
    /\ forall v, In v (all_outs m) \/ In v (all_formals m) \/ In v (map fst (all_inits m)) \/ In v (flat_map g_outs (graphs_of m)) -> v < fr.

  Lemma alias_step_pres m r g fr F inits' outs' ns fr' :
    WF m -> NoOpFunc m -> FreshAll m fr -> get_gref m r = Some g ->
    plan (g_outs g) fr outs' ns fr' -> Permutation inits' (g_inits g) ->
    F g = mkGraph (g_ins g) inits' (g_nodes g ++ ns) outs' ->
    Pres m (upd_gref r F m) /\ FreshAll (upd_gref r F m) fr'.
  Proof.
    intros HW HN [Hk HB] Eg Hplan Hperm HFg.
    destruct (plan_spec _ _ _ _ _ Hplan) as [Hle [Hid [Hbnd [Hndn [Hf2 Houts']]]]].
    destruct (upd_gref_split r F m g Eg Hk) as [l1 [l2 [E1 E2]]].
    pose proof (upd_gref_keys r F m) as Hkeys.
    assert (Hgouts : forall o, In o (g_outs g) -> o < fr).
    { intros o Ho. apply HB. right. right. right. apply in_flat_map. exists g. split; [eapply get_gref_In; eauto | exact Ho]. }
    assert (HAR : Forall2 (AR ns) (g_outs g) outs').
    { eapply Forall2_imp_In; [exact Hf2|]. intros o o' Ho [->|Hn]; [left; reflexivity|]. right.
      exists (mkNode OP_Identity [] [Some o] [o']). split; [exact Hn|]. split; [reflexivity|]. split; [reflexivity|]. split; [reflexivity|].
      intros Hc. specialize (Hbnd o Hc). specialize (Hgouts o Ho). lia. }
    assert (HR : model_rel (graph_alias ns) m (upd_gref r F m)).
    { apply upd_gref_rel with (g := g); auto.
      - intros x. split; [reflexivity|]. apply Forall2_same. intros; left; reflexivity.
      - rewrite HFg. split; [reflexivity | exact HAR]. }
    revert HR Hkeys E2. generalize (upd_gref r F m) as m'. intros m' HR Hkeys E2. rewrite HFg in E2.
    assert (HPn : Permutation (all_nodes m') (all_nodes m ++ ns)).
    { unfold all_nodes. rewrite E1, E2, !flat_map_app. simpl. rewrite <- !app_assoc.
      apply Permutation_app_head. apply Permutation_app_head. apply Permutation_app_comm. }
    assert (HPi : Permutation (all_inits m') (all_inits m)).
    { unfold all_inits. rewrite E1, E2, !flat_map_app. simpl. apply Permutation_app_head. apply Permutation_app_tail. exact Hperm. }
    assert (Hform : all_formals m' = all_formals m).
    { unfold all_formals. rewrite E1, E2, !flat_map_app. reflexivity. }
    assert (Hgo : forall v, In v (flat_map g_outs (graphs_of m')) -> v < fr').
    { intros v. rewrite E2, flat_map_app. simpl. rewrite !in_app_iff. intros [H|[H|H]].
      - assert (v < fr); [|lia]. apply HB. right; right; right. rewrite E1, flat_map_app, in_app_iff. left; exact H.
      - destruct (Houts' v H) as [H'|H']; [|lia]. specialize (Hgouts v H'). lia.
      - assert (v < fr); [|lia]. apply HB. right; right; right. rewrite E1, flat_map_app, in_app_iff. right. simpl. apply in_app_iff. right; exact H. }
    destruct HR as [Hm [Hs Hf]].
    assert (P : Pres m m').
    { apply alias_model_pres_perm with (ids := ns); auto.
      - apply NoDup_app_intro; [apply (wf_outs m HW) | exact Hndn |]. intros x Hx Hx'. specialize (Hbnd x Hx').
        assert (x < fr) by (apply HB; left; exact Hx). lia.
      - intros f Hf0. specialize (Hbnd f Hf0). split; intros Hc.
        + assert (f < fr) by (apply HB; right; left; exact Hc). lia.
        + assert (f < fr) by (apply HB; right; right; left; exact Hc). lia. }
    split; [exact P|]. split; [rewrite Hkeys; exact Hk|].
    intros v [Hv|[Hv|[Hv|Hv]]].
    - unfold all_outs in Hv. eapply Permutation_in in Hv; [|apply flat_map_perm; exact HPn].
      rewrite flat_map_app, in_app_iff in Hv. destruct Hv as [Hv|Hv]; [|specialize (Hbnd v Hv); lia].
      assert (v < fr) by (apply HB; left; exact Hv). lia.
    - rewrite Hform in Hv. assert (v < fr) by (apply HB; right; left; exact Hv). lia.
    - eapply Permutation_in in Hv; [|apply Permutation_map; exact HPi].
      assert (v < fr) by (apply HB; right; right; left; exact Hv). lia.
    - apply Hgo; exact Hv.
  Qed.

  Definition StepOK {A} (step : model * N -> A -> model * N) : Prop :=
    forall m fr a, WF m -> NoOpFunc m -> FreshAll m fr ->
      Pres m (fst (step (m, fr) a)) /\ FreshAll (fst (step (m, fr) a)) (snd (step (m, fr) a)).

  Lemma StepOK_fold {A} (step : model * N -> A -> model * N) : StepOK step -> StepOK (fun st l => fold_left step l st).
  Proof.
    intros Hs m fr l. revert m fr. induction l as [|a l IH]; intros m fr HW HN HF; simpl.
    - split; [apply Pres_refl; assumption | exact HF].
    - destruct (Hs m fr a HW HN HF) as [P HF']. destruct (step (m, fr) a) as [m1 fr1]. simpl in P, HF'.
      pose proof P as P0. destruct P0 as [HW1 HN1 _ _ _ _].
      destruct (IH m1 fr1 HW1 HN1 HF') as [P2 HF2]. split; [eapply Pres_trans; eauto | exact HF2].
  Qed.
  Lemma StepOK_comp {A} (s1 s2 : model * N -> A -> model * N) : StepOK s1 -> StepOK s2 -> StepOK (fun st a => s2 (s1 st a) a).
  Proof.
    intros H1 H2 m fr a HW HN HF.
    destruct (H1 m fr a HW HN HF) as [P HF']. destruct (s1 (m, fr) a) as [m1 fr1]. simpl in P, HF'.
    pose proof P as P0. destruct P0 as [HW1 HN1 _ _ _ _].
    destruct (H2 m1 fr1 a HW1 HN1 HF') as [P2 HF2]. split; [eapply Pres_trans; eauto | exact HF2].
  Qed.

  Lemma multi_ok : StepOK fix_graph_multi.
  Proof.
    intros m fr r HW HN HF. unfold fix_graph_multi.
    destruct (get_gref m r) as [g|] eqn:Eg; [|simpl; split; [apply Pres_refl; assumption | exact HF]].
    destruct (alias_multi (g_outs g) [] fr) as [[outs ns] fr'] eqn:Ea. cbn [fst snd].
    apply (alias_step_pres m r g fr _ (g_inits g) outs ns fr'); try assumption.
    - eapply alias_multi_plan; eauto.
    - apply Permutation_refl.
    - reflexivity.
  Qed.

  Lemma direct_ok : StepOK fix_graph_direct.
  Proof.
    intros m fr r HW HN HF. unfold fix_graph_direct.
    destruct (get_gref m r) as [g|] eqn:Eg; [|simpl; split; [apply Pres_refl; assumption | exact HF]].
    destruct (alias_direct m (g_outs g) fr) as [[outs ns] fr'] eqn:Ea. cbv zeta. cbn [fst snd].
    set (inits' := fold_left (fun l o => match alookup l o with
                                         | Some t => filter (fun vt => negb (N.eqb (fst vt) o)) l ++ [(o, t)]
                                         | None => l end) (filter (is_graph_input m) (g_outs g)) (g_inits g)).
    apply (alias_step_pres m r g fr _ inits' outs ns fr'); try assumption.
    - eapply alias_direct_plan; eauto.
    - apply fold_move_perm.
      apply (NoDup_map_flat_map_elem fst g_inits (graphs_of m) g); [apply (wf_inits_nodup m HW) | eapply get_gref_In; eauto].
    - reflexivity.
  Qed.

  Theorem output_fix_pres scopes m fresh :
    WF m -> NoOpFunc m -> FreshAll m fresh -> Pres m (fst (output_fix scopes m fresh)).
  Proof.
    intros HW HN HF. unfold output_fix.
    pose proof (StepOK_fold _ (StepOK_comp _ _ (StepOK_fold _ multi_ok) (StepOK_fold _ direct_ok))) as H.
    exact (proj1 (H m fresh scopes HW HN HF)).
  Qed.

  (* the invariant also gives the state after the pass: every identity stays below the returned counter *)
  Theorem output_fix_fresh scopes m fresh :
    WF m -> NoOpFunc m -> FreshAll m fresh -> FreshAll (fst (output_fix scopes m fresh)) (snd (output_fix scopes m fresh)).
  Proof.
    intros HW HN HF. unfold output_fix.
    pose proof (StepOK_fold _ (StepOK_comp _ _ (StepOK_fold _ multi_ok) (StepOK_fold _ direct_ok))) as H.
    exact (proj2 (H m fresh scopes HW HN HF)).
  Qed.

  (* ------------------------------------------------------------ the signature is untouched *)
  Definition SigInv (m m' : model) : Prop :=
    g_ins (m_main m') = g_ins (m_main m)
    /\ (forall v, In v (map fst (g_inits (m_main m'))) <-> In v (map fst (g_inits (m_main m))))
    /\ map fst (m_subs m') = map fst (m_subs m).
  Lemma SigInv_refl m : SigInv m m.
  Proof. split; [reflexivity|]. split; [intros v; apply iff_refl | reflexivity]. Qed.
  Lemma SigInv_trans a b c : SigInv a b -> SigInv b c -> SigInv a c.
  Proof.
    intros [A1 [B1 C1]] [A2 [B2 C2]]. split; [congruence|]. split; [|congruence].
    intros v. eapply iff_trans; [apply B2 | apply B1].
  Qed.

  Lemma move_end_keys (l : list (vid * tensor)) o t v : alookup l o = Some t ->
    (In v (map fst (filter (fun vt => negb (N.eqb (fst vt) o)) l ++ [(o, t)])) <-> In v (map fst l)).
  Proof.
    intros E. rewrite map_app, in_app_iff. simpl. split.
    - intros [H|[<-|[]]].
      + apply in_map_iff in H. destruct H as [x [<- Hx]]. apply filter_In in Hx. apply in_map. exact (proj1 Hx).
      + apply alookup_In in E. apply in_map_iff. exists (o, t). auto.
    - intros H. destruct (N.eqb v o) eqn:Ev.
      + apply N.eqb_eq in Ev. right. left. symmetry. exact Ev.
      + left. apply in_map_iff in H. destruct H as [x [<- Hx]]. apply in_map_iff. exists x. split; [reflexivity|].
        apply filter_In. split; [exact Hx|]. destruct x as [k a]. simpl in Ev |- *. rewrite Ev. reflexivity.
  Qed.
  Lemma fold_move_keys renamed : forall (l : list (vid * tensor)) v,
    In v (map fst (fold_left (fun l o => match alookup l o with
                                         | Some t => filter (fun vt => negb (N.eqb (fst vt) o)) l ++ [(o, t)]
                                         | None => l end) renamed l)) <-> In v (map fst l).
  Proof.
    induction renamed as [|o renamed IH]; intros l v; simpl; [apply iff_refl|].
    destruct (alookup l o) as [t|] eqn:E; [|apply IH].
    eapply iff_trans; [apply IH | apply move_end_keys; exact E].
  Qed.

  Lemma upd_gref_sig r F m g inits' nodes' outs' : get_gref m r = Some g ->
    F g = mkGraph (g_ins g) inits' nodes' outs' ->
    (forall v, In v (map fst inits') <-> In v (map fst (g_inits g))) -> SigInv m (upd_gref r F m).
  Proof.
    intros Eg HFg Hkeys. split; [|split; [|apply upd_gref_keys]].
    - destruct r as [|k|i]; simpl in Eg |- *; try reflexivity. injection Eg as <-. rewrite HFg. reflexivity.
    - intros v. destruct r as [|k|i]; simpl in Eg |- *; try apply iff_refl. injection Eg as <-. rewrite HFg. simpl. apply Hkeys.
  Qed.

  Lemma multi_sig m fr r : SigInv m (fst (fix_graph_multi (m, fr) r)).
  Proof.
    unfold fix_graph_multi. destruct (get_gref m r) as [g|] eqn:Eg; [|apply SigInv_refl].
    destruct (alias_multi (g_outs g) [] fr) as [[outs ns] fr'] eqn:Ea. cbn [fst].
    apply (upd_gref_sig r _ m g (g_inits g) (g_nodes g ++ ns) outs); [exact Eg | reflexivity | intros v; apply iff_refl].
  Qed.
  Lemma direct_sig m fr r : SigInv m (fst (fix_graph_direct (m, fr) r)).
  Proof.
    unfold fix_graph_direct. destruct (get_gref m r) as [g|] eqn:Eg; [|apply SigInv_refl].
    destruct (alias_direct m (g_outs g) fr) as [[outs ns] fr'] eqn:Ea. cbv zeta. cbn [fst].
    eapply (upd_gref_sig r _ m g _ (g_nodes g ++ ns) outs); [exact Eg | reflexivity |].
    intros v. apply fold_move_keys.
  Qed.
  Lemma sig_fold {A} (step : model * N -> A -> model * N) :
    (forall m fr a, SigInv m (fst (step (m, fr) a))) -> forall l m fr, SigInv m (fst (fold_left step l (m, fr))).
  Proof.
    intros Hs. induction l as [|a l IH]; intros m fr; simpl; [apply SigInv_refl|].
    pose proof (Hs m fr a) as H1. destruct (step (m, fr) a) as [m1 fr1]. simpl in H1.
    eapply SigInv_trans; [exact H1 | apply IH].
  Qed.

  Theorem output_fix_signature scopes m fresh : WF m -> NoOpFunc m -> FreshAll m fresh ->
    g_ins (m_main (fst (output_fix scopes m fresh))) = g_ins (m_main m)
    /\ noninit_inputs (fst (output_fix scopes m fresh)) = noninit_inputs m
    /\ NoDup (map fst (m_subs (fst (output_fix scopes m fresh)))).
  Proof.
    intros _ _ [Hk _].
    assert (HS : SigInv m (fst (output_fix scopes m fresh))).
    { unfold output_fix. apply (sig_fold (fun st sc => fold_left fix_graph_direct sc (fold_left fix_graph_multi sc st))).
      intros m0 fr0 sc. pose proof (sig_fold fix_graph_multi multi_sig sc m0 fr0) as H1.
      destruct (fold_left fix_graph_multi sc (m0, fr0)) as [m1 fr1]. simpl in H1.
      eapply SigInv_trans; [exact H1 | apply (sig_fold fix_graph_direct direct_sig)]. }
    destruct HS as [A [B C]]. split; [exact A|]. split; [|rewrite C; exact Hk].
    unfold noninit_inputs. rewrite A. apply filter_ext_in. intros v _. f_equal.
    destruct (memN v (map fst (g_inits (m_main m)))) eqn:E.
    - apply memN_In. apply B. apply memN_In. exact E.
    - apply memN_false. intros H. apply B in H. apply memN_In in H. congruence.
  Qed.
End OutFix.

(* FreshAll is what the harness establishes: wfb gives the unique subgraph keys *)
Lemma wfb_sub_keys m : wfb m = true -> NoDup (map fst (m_subs m)).
Proof.
  unfold wfb. intros H. apply andb_prop in H. destruct H as [H _]. apply andb_prop in H. destruct H as [_ H].
  apply nodupN_NoDup. exact H.
Qed.
